package main

import (
	"fmt"
	"go/ast"
	"go/token"
	"math/big"
	"strings"
)

// Decision targets: side-effect-free functions built from if / return / local := / = / ++, integer and
// boolean operators and conversions.  `inputs` maps the (whitespace-normalised) source text of an
// expression to a field of the generated input record; function parameters of integer / bool / [n]byte
// type become inputs automatically.  Early returns are turned into nested `if .. then .. else` by
// continuation passing (the rest of the block is duplicated into both branches); locals become `let`.
// Types: uintK -> N with explicit mod 2^K after + - * << and on conversion; int / int64 -> Z (unbounded:
// the models prove their values stay below 2^62); signed / and % are Z.quot and Z.rem (Go truncates).
// Anything else becomes gen_unsupported "<source text>".
type decisionInput struct {
	text string // source text, e.g. "lockManager.locked"
	name string // input record field
	typ  string // uint8 uint16 uint32 uint64 int int64 bool [16]byte
}

type decisionTarget struct {
	file   string
	recv   string // "" for plain functions
	fn     string
	name   string // generated name
	inputs []decisionInput
	// resultOf: for functions without return value, the result is the right-hand side of the (unique)
	// assignment whose left-hand side has this source text; loops around it are entered once.
	resultOf string
}

var decisionTargets = []decisionTarget{
	{file: "server/db.go", recv: "LockDB", fn: "doLock", name: "doLock", inputs: []decisionInput{
		{"lockManager.locked", "mgr_locked", "uint32"},
		{"lockManager.currentLock.command.Count", "cur_count", "uint16"},
		{"lock.command.Count", "req_count", "uint16"},
		{"lock.command.TimeoutFlag", "req_tflag", "uint16"},
		{"self.compareLockVersion(lock.command.LockId, lockManager.currentLock.command.LockId)", "cmpver", "int"},
	}},
	{file: "server/db.go", recv: "LockDB", fn: "doCheckLockWaitPriority", name: "doCheckLockWaitPriority", inputs: []decisionInput{
		{"waitLocks == nil", "wait_nil", "bool"},
		{"waitLocks.MaxPriority()", "max_priority", "uint8"},
		{"lock.command.Rcount", "req_rcount", "uint8"},
	}},
	{file: "server/db.go", recv: "LockDB", fn: "compareLockVersion", name: "compareLockVersion", inputs: nil},
	{file: "server/lock.go", recv: "LockManager", fn: "checkLockedCountEqual", name: "checkLockedCountEqual", inputs: []decisionInput{
		{"command.Count", "cmd_count", "uint16"},
		{"lock.command.Count", "held_count", "uint16"},
		{"command.Rcount", "cmd_rcount", "uint8"},
		{"lock.command.Rcount", "held_rcount", "uint8"},
		{"command.TimeoutFlag", "cmd_tflag", "uint16"},
		{"lock.command.TimeoutFlag", "held_tflag", "uint16"},
	}},
	{file: "server/lock.go", recv: "LockManager", fn: "CheckLockedEqual", name: "CheckLockedEqual", inputs: []decisionInput{
		{"command.ExpriedFlag", "cmd_eflag", "uint16"},
		{"command.Expried", "cmd_expried", "uint16"},
		{"lock.expriedTime", "held_expried_time", "int64"},
		{"self.lockDb.currentTime", "now", "int64"},
		{"self.checkLockedCountEqual(lock, command)", "count_equal", "bool"},
	}},
	{file: "server/aof.go", recv: "Aof", fn: "GetAofLockExpriedTime", name: "GetAofLockExpriedTime", inputs: []decisionInput{
		{"lockCommand.ExpriedFlag", "cmd_eflag", "uint16"},
		{"lockCommand.Expried", "cmd_expried", "uint16"},
		{"lock.expriedTime", "held_expried_time", "int64"},
		{"aofLock.CommandTime", "command_time", "uint64"},
	}},
	{file: "server/aof.go", recv: "Aof", fn: "GetLockCommandExpriedTime", name: "GetLockCommandExpriedTime", inputs: []decisionInput{
		{"aofLock.ExpriedFlag", "rec_eflag", "uint16"},
		{"aofLock.ExpriedTime", "rec_expried", "uint16"},
		{"aofLock.CommandTime", "command_time", "uint64"},
		{"lockDb.currentTime", "now", "int64"},
		{"aofLock.StartTime", "rec_start", "uint16"},
	}},
	{file: "server/arbiter.go", recv: "ArbiterManager", fn: "CompareAofId", name: "CompareAofId", inputs: nil},
	{file: "server/replication.go", recv: "ReplicationManager", fn: "UpdateDBAckCount", name: "UpdateDBAckCount", resultOf: "db.ackCount", inputs: []decisionInput{
		{"self.slock.arbiterManager != nil", "has_arbiter", "bool"},
		{"Config.AofAckMode", "ack_mode", "uint64"},
		{"len(self.serverChannels)", "n_channels", "int"},
		{"self.slock.arbiterManager.GetMajorityMemberCount()", "majority", "int"},
	}},
}

// ---------------------------------------------------------------------------------------------

type dkind int

const (
	dN dkind = iota // unsigned, bits
	dZ              // signed (int, int64)
	dBool
	dConst
	dArr // [n]byte
	dOpaque
)

type dval struct {
	s    string
	k    dkind
	bits int
	n    int
	c    *big.Int
}

type dctx struct {
	t      *translator
	tgt    decisionTarget
	inputs map[string]decisionInput
	used   map[string]bool
	locals map[string]dval
	auto   []decisionInput // parameters turned into inputs
	recNm  string
	retK   dval // expected result type
}

func dtypeOf(typ string) dval {
	switch typ {
	case "uint8", "byte":
		return dval{k: dN, bits: 8}
	case "uint16":
		return dval{k: dN, bits: 16}
	case "uint32":
		return dval{k: dN, bits: 32}
	case "uint64", "uint":
		return dval{k: dN, bits: 64}
	case "int", "int64", "int32":
		return dval{k: dZ}
	case "bool":
		return dval{k: dBool}
	}
	if strings.HasPrefix(typ, "[") && strings.HasSuffix(typ, "]byte") {
		var n int
		fmt.Sscanf(typ, "[%d]byte", &n)
		return dval{k: dArr, n: n}
	}
	return dval{k: dOpaque}
}

func coqTypeOfD(v dval) string {
	switch v.k {
	case dN:
		return "N"
	case dZ:
		return "Z"
	case dBool:
		return "bool"
	case dArr:
		return "list N"
	}
	return "N"
}

func (c *dctx) errf(n ast.Node, format string, a ...interface{}) error {
	return fmt.Errorf("%s: %s [%s]", c.t.where(n), fmt.Sprintf(format, a...), oneLine(c.t.text(n)))
}

func (c *dctx) inputRef(in decisionInput) dval {
	c.used[in.name] = true
	v := dtypeOf(in.typ)
	v.s = fmt.Sprintf("(%s_%s i)", c.recNm, in.name)
	return v
}

// coerce an untyped constant to the kind of the other operand
func constAs(v dval, like dval) dval {
	if v.k != dConst {
		return v
	}
	switch like.k {
	case dZ:
		return dval{s: fmt.Sprintf("(%s)%%Z", v.c.String()), k: dZ, c: v.c}
	default:
		return dval{s: fmt.Sprintf("%s%%N", v.c.String()), k: dN, bits: like.bits, c: v.c}
	}
}

func (c *dctx) expr(e ast.Expr) (dval, error) {
	if in, ok := c.inputs[oneLine(c.t.text(e))]; ok {
		return c.inputRef(in), nil
	}
	switch x := e.(type) {
	case *ast.ParenExpr:
		return c.expr(x.X)
	case *ast.BasicLit:
		v, err := c.t.evalConst(x, 0, "")
		if err != nil {
			return dval{}, c.errf(x, "%v", err)
		}
		return dval{s: v.String(), k: dConst, c: v}, nil
	case *ast.Ident:
		if v, ok := c.locals[x.Name]; ok {
			if v.k == dOpaque {
				return dval{}, c.errf(x, "use of a local whose definition is outside the subset")
			}
			return v, nil
		}
		if x.Name == "true" || x.Name == "false" {
			return dval{s: x.Name, k: dBool}, nil
		}
		if ci, ok := c.t.consts[x.Name]; ok && !ci.isStr {
			return dval{s: ci.name, k: dConst, c: ci.val}, nil
		}
		return dval{}, c.errf(x, "unknown identifier")
	case *ast.SelectorExpr:
		if id, ok := x.X.(*ast.Ident); ok && (id.Name == "protocol" || id.Name == "server") {
			if ci, ok := c.t.consts[x.Sel.Name]; ok && !ci.isStr {
				return dval{s: ci.name, k: dConst, c: ci.val}, nil
			}
		}
		return dval{}, c.errf(x, "selector not in the input table")
	case *ast.IndexExpr:
		b, err := c.expr(x.X)
		if err != nil {
			return dval{}, err
		}
		i, err := c.expr(x.Index)
		if err != nil {
			return dval{}, err
		}
		if b.k == dArr && i.c != nil && i.c.IsInt64() && int(i.c.Int64()) < b.n {
			return dval{s: fmt.Sprintf("(nth %s%%nat %s 0%%N)", i.c.String(), b.s), k: dN, bits: 8}, nil
		}
		return dval{}, c.errf(x, "index expression")
	case *ast.UnaryExpr:
		a, err := c.expr(x.X)
		if err != nil {
			return dval{}, err
		}
		if x.Op == token.NOT && a.k == dBool {
			return dval{s: "(negb " + a.s + ")", k: dBool}, nil
		}
		if x.Op == token.SUB && a.k == dConst {
			v := new(big.Int).Neg(a.c)
			return dval{s: fmt.Sprintf("(%s)%%Z", v.String()), k: dZ, c: v}, nil
		}
		if x.Op == token.SUB && a.k == dZ {
			return dval{s: "(Z.opp " + a.s + ")", k: dZ}, nil
		}
		return dval{}, c.errf(x, "unary operator")
	case *ast.CallExpr:
		fun := oneLine(c.t.text(x.Fun))
		if len(x.Args) == 1 {
			to := dtypeOf(fun)
			if to.k == dN || to.k == dZ {
				a, err := c.expr(x.Args[0])
				if err != nil {
					return dval{}, err
				}
				switch {
				case to.k == dN && (a.k == dN || a.k == dConst):
					a = constAs(a, to)
					return dval{s: fmt.Sprintf("(N.modulo %s %s)", a.s, pow2(to.bits)), k: dN, bits: to.bits}, nil
				case to.k == dN && a.k == dZ:
					return dval{s: fmt.Sprintf("(Z.to_N (Z.modulo %s %s))", a.s, pow2(to.bits)), k: dN, bits: to.bits}, nil
				case to.k == dZ && a.k == dN:
					return dval{s: fmt.Sprintf("(Z.of_N %s)", a.s), k: dZ}, nil
				case to.k == dZ && (a.k == dZ || a.k == dConst):
					return constAs(a, to), nil
				}
				return dval{}, c.errf(x, "conversion")
			}
		}
		return dval{}, c.errf(x, "call not in the input table")
	case *ast.BinaryExpr:
		a, err := c.expr(x.X)
		if err != nil {
			return dval{}, err
		}
		b, err := c.expr(x.Y)
		if err != nil {
			return dval{}, err
		}
		if x.Op == token.LAND || x.Op == token.LOR {
			if a.k != dBool || b.k != dBool {
				return dval{}, c.errf(x, "boolean operator on non-booleans")
			}
			op := "andb"
			if x.Op == token.LOR {
				op = "orb"
			}
			return dval{s: fmt.Sprintf("(%s %s %s)", op, a.s, b.s), k: dBool}, nil
		}
		if a.k == dArr && b.k == dArr && (x.Op == token.EQL || x.Op == token.NEQ) {
			s := fmt.Sprintf("(gen_bytes_eqb %s %s)", a.s, b.s)
			if x.Op == token.NEQ {
				s = "(negb " + s + ")"
			}
			return dval{s: s, k: dBool}, nil
		}
		if a.k == dBool && b.k == dBool && (x.Op == token.EQL || x.Op == token.NEQ) {
			s := fmt.Sprintf("(Bool.eqb %s %s)", a.s, b.s)
			if x.Op == token.NEQ {
				s = "(negb " + s + ")"
			}
			return dval{s: s, k: dBool}, nil
		}
		isShift := x.Op == token.SHL || x.Op == token.SHR
		if a.k == dConst && b.k == dConst {
			// constant folding is limited to what the const evaluator does
			v, err := c.t.evalConst(x, 0, "")
			if err != nil {
				return dval{}, c.errf(x, "%v", err)
			}
			return dval{s: v.String(), k: dConst, c: v}, nil
		}
		if !isShift {
			if a.k == dConst {
				a = constAs(a, b)
			}
			if b.k == dConst {
				b = constAs(b, a)
			}
			if a.k != b.k || (a.k == dN && a.bits != b.bits) {
				return dval{}, c.errf(x, "mismatched operand types")
			}
		} else {
			if b.k == dConst {
				b = dval{s: b.c.String() + "%N", k: dN, c: b.c}
			}
			if a.k == dConst {
				return dval{}, c.errf(x, "shift of an untyped constant")
			}
		}
		if a.k != dN && a.k != dZ {
			return dval{}, c.errf(x, "operator on unsupported operand kind")
		}
		P := "N"
		if a.k == dZ {
			P = "Z"
		}
		cmp := map[token.Token]string{token.LSS: "ltb %s %s", token.LEQ: "leb %s %s", token.GTR: "ltb %[2]s %[1]s", token.GEQ: "leb %[2]s %[1]s", token.EQL: "eqb %s %s"}
		if f, ok := cmp[x.Op]; ok {
			return dval{s: fmt.Sprintf("("+P+"."+f+")", a.s, b.s), k: dBool}, nil
		}
		if x.Op == token.NEQ {
			return dval{s: fmt.Sprintf("(negb (%s.eqb %s %s))", P, a.s, b.s), k: dBool}, nil
		}
		wrap := func(s string) string {
			if a.k == dN {
				return fmt.Sprintf("(N.modulo %s %s)", s, pow2(a.bits))
			}
			return s
		}
		res := dval{k: a.k, bits: a.bits}
		switch x.Op {
		case token.ADD:
			res.s = wrap(fmt.Sprintf("(%s.add %s %s)", P, a.s, b.s))
		case token.MUL:
			res.s = wrap(fmt.Sprintf("(%s.mul %s %s)", P, a.s, b.s))
		case token.SUB:
			if a.k == dN {
				res.s = fmt.Sprintf("(N.modulo (N.sub (N.add %s %s) %s) %s)", a.s, pow2(a.bits), b.s, pow2(a.bits))
			} else {
				res.s = fmt.Sprintf("(Z.sub %s %s)", a.s, b.s)
			}
		case token.QUO:
			if b.c == nil || b.c.Sign() == 0 {
				return dval{}, c.errf(x, "division by a non-constant or zero")
			}
			if a.k == dN {
				res.s = fmt.Sprintf("(N.div %s %s)", a.s, b.s)
			} else {
				res.s = fmt.Sprintf("(Z.quot %s %s)", a.s, b.s)
			}
		case token.REM:
			if b.c == nil || b.c.Sign() == 0 {
				return dval{}, c.errf(x, "remainder by a non-constant or zero")
			}
			if a.k == dN {
				res.s = fmt.Sprintf("(N.modulo %s %s)", a.s, b.s)
			} else {
				res.s = fmt.Sprintf("(Z.rem %s %s)", a.s, b.s)
			}
		case token.AND:
			res.s = fmt.Sprintf("(%s.land %s %s)", P, a.s, b.s)
		case token.OR:
			res.s = fmt.Sprintf("(%s.lor %s %s)", P, a.s, b.s)
		case token.XOR:
			res.s = fmt.Sprintf("(%s.lxor %s %s)", P, a.s, b.s)
		case token.SHL:
			if a.k != dN || b.k != dN {
				return dval{}, c.errf(x, "shift on signed operands")
			}
			res.s = wrap(fmt.Sprintf("(N.shiftl %s %s)", a.s, b.s))
		case token.SHR:
			if a.k != dN || b.k != dN {
				return dval{}, c.errf(x, "shift on signed operands")
			}
			res.s = fmt.Sprintf("(N.shiftr %s %s)", a.s, b.s)
		default:
			return dval{}, c.errf(x, "operator %s", x.Op)
		}
		return res, nil
	}
	return dval{}, c.errf(e, "expression outside the decision subset")
}

func (c *dctx) marker(kind dval, what string) string {
	switch kind.k {
	case dBool:
		return c.t.marker("bool", what)
	case dZ:
		return c.t.marker("Z", what)
	case dArr:
		return c.t.marker("bytes", what)
	}
	return c.t.marker("N", what)
}

func (c *dctx) coerceResult(v dval) (string, error) {
	v = constAs(v, c.retK)
	if v.k != c.retK.k {
		return "", fmt.Errorf("result kind mismatch")
	}
	return v.s, nil
}

func containsAssignTo(t *translator, n ast.Node, lhs string) *ast.AssignStmt {
	var found *ast.AssignStmt
	ast.Inspect(n, func(nd ast.Node) bool {
		if as, ok := nd.(*ast.AssignStmt); ok && len(as.Lhs) == 1 && oneLine(t.text(as.Lhs[0])) == lhs {
			found = as
		}
		return true
	})
	return found
}

func copyLocals(m map[string]dval) map[string]dval {
	r := make(map[string]dval, len(m))
	for k, v := range m {
		r[k] = v
	}
	return r
}

// block translates a statement list followed by the continuation `rest` into an expression.
func (c *dctx) block(list []ast.Stmt, rest [][]ast.Stmt) string {
	if len(list) == 0 {
		if len(rest) == 0 {
			return c.marker(c.retK, c.t.where(c.tgt0())+" control reaches the end of the function without a result")
		}
		return c.block(rest[0], rest[1:])
	}
	st, tail := list[0], list[1:]
	fail := func(err error) string {
		return c.marker(c.retK, err.Error())
	}
	switch s := st.(type) {
	case *ast.EmptyStmt:
		return c.block(tail, rest)
	case *ast.ReturnStmt:
		if len(s.Results) != 1 {
			return fail(c.errf(s, "return without a single value"))
		}
		v, err := c.expr(s.Results[0])
		if err != nil {
			return fail(err)
		}
		r, err := c.coerceResult(v)
		if err != nil {
			return fail(c.errf(s, "%v", err))
		}
		return r
	case *ast.BlockStmt:
		return c.block(s.List, append([][]ast.Stmt{tail}, rest...))
	case *ast.IfStmt:
		if s.Init != nil {
			return fail(c.errf(s, "if with init statement"))
		}
		cv, err := c.expr(s.Cond)
		if err != nil {
			if c.tgt.resultOf != "" && s.Else == nil && containsAssignTo(c.t, s.Body, c.tgt.resultOf) != nil {
				// a guard around the result assignment that the table does not describe (e.g. `db != nil`): entered
				return c.block(s.Body.List, nil)
			}
			return fail(err)
		}
		if cv.k != dBool {
			return fail(c.errf(s.Cond, "condition is not boolean"))
		}
		cont := append([][]ast.Stmt{tail}, rest...)
		saved := c.locals
		c.locals = copyLocals(saved)
		th := c.block(s.Body.List, cont)
		c.locals = copyLocals(saved)
		var el string
		switch e := s.Else.(type) {
		case nil:
			el = c.block(nil, cont)
		case *ast.BlockStmt:
			el = c.block(e.List, cont)
		case *ast.IfStmt:
			el = c.block([]ast.Stmt{e}, cont)
		default:
			el = fail(c.errf(s, "else form"))
		}
		c.locals = saved
		return fmt.Sprintf("(if %s\n   then %s\n   else %s)", cv.s, th, el)
	case *ast.AssignStmt:
		if c.tgt.resultOf != "" && len(s.Lhs) == 1 && oneLine(c.t.text(s.Lhs[0])) == c.tgt.resultOf {
			v, err := c.expr(s.Rhs[0])
			if err != nil {
				return fail(err)
			}
			r, err := c.coerceResult(v)
			if err != nil {
				return fail(c.errf(s, "%v", err))
			}
			return r
		}
		if len(s.Lhs) != len(s.Rhs) {
			return fail(c.errf(s, "multi-value assignment"))
		}
		var lets []string
		vals := make([]dval, len(s.Rhs))
		for j, r := range s.Rhs {
			id, ok := s.Lhs[j].(*ast.Ident)
			if !ok {
				return fail(c.errf(s, "assignment to a non-local"))
			}
			if s.Tok != token.DEFINE {
				if _, ok := c.locals[id.Name]; !ok {
					return fail(c.errf(s, "assignment to a non-local"))
				}
			}
			var v dval
			var err error
			switch s.Tok {
			case token.DEFINE, token.ASSIGN:
				v, err = c.expr(r)
			case token.ADD_ASSIGN, token.SUB_ASSIGN, token.OR_ASSIGN, token.AND_ASSIGN:
				op := map[token.Token]token.Token{token.ADD_ASSIGN: token.ADD, token.SUB_ASSIGN: token.SUB, token.OR_ASSIGN: token.OR, token.AND_ASSIGN: token.AND}[s.Tok]
				v, err = c.expr(&ast.BinaryExpr{X: s.Lhs[j], Op: op, Y: r, OpPos: s.Pos()})
			default:
				err = c.errf(s, "assignment operator")
			}
			if err != nil {
				if s.Tok == token.DEFINE {
					// a local the subset cannot express: opaque until (unless) it is used outside a table entry
					vals[j] = dval{k: dOpaque}
					continue
				}
				return fail(err)
			}
			if old, ok := c.locals[id.Name]; ok && s.Tok != token.DEFINE {
				v = constAs(v, old)
			}
			if v.k == dConst {
				// untyped constant initialiser: Go gives it type int
				v = constAs(v, dval{k: dZ})
			}
			vals[j] = v
		}
		for j := range s.Rhs {
			id := s.Lhs[j].(*ast.Ident)
			v := vals[j]
			if v.k == dOpaque {
				c.locals[id.Name] = v
				continue
			}
			nm := "v_" + id.Name
			lets = append(lets, fmt.Sprintf("let %s := %s in", nm, v.s))
			v.s, v.c = nm, nil
			c.locals[id.Name] = v
		}
		return strings.Join(lets, "\n  ") + "\n  " + c.block(tail, rest)
	case *ast.IncDecStmt:
		id, ok := s.X.(*ast.Ident)
		if !ok {
			return fail(c.errf(s, "++ on a non-local"))
		}
		old, ok := c.locals[id.Name]
		if !ok || (old.k != dN && old.k != dZ) {
			return fail(c.errf(s, "++ on a non-local"))
		}
		op := token.ADD
		if s.Tok == token.DEC {
			op = token.SUB
		}
		v, err := c.expr(&ast.BinaryExpr{X: s.X, Op: op, Y: &ast.BasicLit{Kind: token.INT, Value: "1", ValuePos: s.Pos()}, OpPos: s.Pos()})
		if err != nil {
			return fail(err)
		}
		nm := "v_" + id.Name
		let := fmt.Sprintf("let %s := %s in", nm, v.s)
		v.s = nm
		c.locals[id.Name] = v
		return let + "\n  " + c.block(tail, rest)
	case *ast.RangeStmt:
		if c.tgt.resultOf != "" && containsAssignTo(c.t, s.Body, c.tgt.resultOf) != nil {
			return c.block(s.Body.List, nil)
		}
	case *ast.ForStmt:
		if c.tgt.resultOf != "" && containsAssignTo(c.t, s.Body, c.tgt.resultOf) != nil {
			return c.block(s.Body.List, nil)
		}
	}
	return fail(c.errf(st, "statement outside the decision subset"))
}

var tgtNode ast.Node

func (c *dctx) tgt0() ast.Node { return tgtNode }

func (t *translator) genDecisions() (string, error) {
	var b strings.Builder
	b.WriteString("(* GENERATED by gen/go2coq from the slock source tree - do not edit.\n")
	b.WriteString("   Pure decision / arithmetic functions.  Each takes an input record whose fields stand for the source\n")
	b.WriteString("   expressions named in the translator's table (gen/go2coq/decision.go); uintK is N with explicit mod 2^K,\n")
	b.WriteString("   int/int64 is unbounded Z (signed / and % are Z.quot and Z.rem). *)\n")
	b.WriteString("From Coq Require Import String.\nFrom Coq Require Import NArith ZArith List Bool.\nFrom Slock Require Import Gen.GenPrelude Gen.GenConsts.\nImport ListNotations.\n\n")
	b.WriteString("Definition gen_bytes_eqb (a b : list N) : bool :=\n  Nat.eqb (List.length a) (List.length b) && forallb (fun p => N.eqb (fst p) (snd p)) (combine a b).\n\n")
	var run strings.Builder
	run.WriteString("(* test glue for the correspondence check: every input as a list of Z (numbers: singleton; bytes: one per element) *)\n")
	run.WriteString("Definition gen_dz (l : list (list Z)) (k : nat) : Z := nth 0%nat (nth k l []) 0%Z.\n")
	run.WriteString("Definition gen_dn (l : list (list Z)) (k : nat) : N := Z.to_N (gen_dz l k).\n")
	run.WriteString("Definition gen_db (l : list (list Z)) (k : nat) : bool := negb (Z.eqb (gen_dz l k) 0%Z).\n")
	run.WriteString("Definition gen_dl (l : list (list Z)) (k : nat) : list N := map Z.to_N (nth k l []).\n")
	run.WriteString("Definition gen_decide (name : string) (args : list (list Z)) : option Z :=\n")
	for _, d := range decisionTargets {
		body, call := t.translateDecision(d)
		b.WriteString(body)
		run.WriteString(call)
	}
	run.WriteString("  None.\n")
	b.WriteString(run.String())
	return b.String(), nil
}

func (t *translator) translateDecision(d decisionTarget) (string, string) {
	var b strings.Builder
	recNm := d.name + "_in"
	unsupported := func(what string) (string, string) {
		return fmt.Sprintf("(* %s *)\nRecord %s := mk_%s { }.\nDefinition %s (i : %s) : N := %s.\n\n", d.file, recNm, recNm, d.name, recNm, t.marker("N", d.file+" "+d.fn+": "+what)), ""
	}
	s, err := t.load(d.file)
	if err != nil {
		return unsupported(err.Error())
	}
	var fd *ast.FuncDecl
	for _, decl := range s.file.Decls {
		f, ok := decl.(*ast.FuncDecl)
		if !ok || f.Name.Name != d.fn || f.Body == nil {
			continue
		}
		_, ty := recvName(f)
		if ty == d.recv {
			fd = f
		}
	}
	if fd == nil {
		return unsupported("function not found")
	}
	tgtNode = fd
	c := &dctx{t: t, tgt: d, inputs: map[string]decisionInput{}, used: map[string]bool{}, locals: map[string]dval{}, recNm: recNm}
	all := append([]decisionInput{}, d.inputs...)
	for _, p := range fd.Type.Params.List {
		ty := dtypeOf(oneLine(t.text(p.Type)))
		if ty.k == dOpaque {
			continue
		}
		for _, nm := range p.Names {
			all = append(all, decisionInput{nm.Name, "p_" + nm.Name, oneLine(t.text(p.Type))})
		}
	}
	for _, in := range all {
		c.inputs[in.text] = in
	}
	// result type
	if d.resultOf != "" {
		as := containsAssignTo(t, fd.Body, d.resultOf)
		if as == nil {
			return unsupported("no assignment to " + d.resultOf)
		}
		if call, ok := as.Rhs[0].(*ast.CallExpr); ok {
			c.retK = dtypeOf(oneLine(t.text(call.Fun)))
		}
		if c.retK.k == dOpaque || c.retK.s != "" {
			return unsupported("result type of " + d.resultOf + " is not evident")
		}
	} else {
		if fd.Type.Results == nil || len(fd.Type.Results.List) != 1 {
			return unsupported("not a single-result function")
		}
		c.retK = dtypeOf(oneLine(t.text(fd.Type.Results.List[0].Type)))
		if c.retK.k == dOpaque {
			return unsupported("result type")
		}
	}
	body := c.block(fd.Body.List, nil)
	fmt.Fprintf(&b, "(* %s  func %s *)\n", t.where(fd), d.fn)
	fmt.Fprintf(&b, "Record %s := mk_%s {\n", recNm, recNm)
	for i, in := range all {
		sep := ";"
		if i == len(all)-1 {
			sep = ""
		}
		note := ""
		if !c.used[in.name] {
			note = "  -- not referenced by the current source"
		}
		fmt.Fprintf(&b, "  %s_%s : %s%s (* %s : %s%s *)\n", recNm, in.name, coqTypeOfD(dtypeOf(in.typ)), sep, oneLine(in.text), in.typ, note)
	}
	b.WriteString("}.\n")
	// range of the inputs
	var wf []string
	for _, in := range all {
		ty := dtypeOf(in.typ)
		switch ty.k {
		case dN:
			wf = append(wf, fmt.Sprintf("(%s_%s i < %s)%%N", recNm, in.name, pow2(ty.bits)))
		case dArr:
			wf = append(wf, fmt.Sprintf("List.length (%s_%s i) = %d%%nat", recNm, in.name, ty.n))
			wf = append(wf, fmt.Sprintf("Forall (fun x => (x < 256)%%N) (%s_%s i)", recNm, in.name))
		}
	}
	if len(wf) == 0 {
		wf = []string{"True"}
	}
	fmt.Fprintf(&b, "Definition %s_wf (i : %s) : Prop :=\n  %s.\n", recNm, recNm, strings.Join(wf, " /\\\n  "))
	fmt.Fprintf(&b, "Definition %s (i : %s) : %s :=\n  %s.\n\n", d.name, recNm, coqTypeOfD(c.retK), body)
	var mk []string
	for k, in := range all {
		switch dtypeOf(in.typ).k {
		case dN:
			mk = append(mk, fmt.Sprintf("(gen_dn args %d)", k))
		case dZ:
			mk = append(mk, fmt.Sprintf("(gen_dz args %d)", k))
		case dBool:
			mk = append(mk, fmt.Sprintf("(gen_db args %d)", k))
		case dArr:
			mk = append(mk, fmt.Sprintf("(gen_dl args %d)", k))
		}
	}
	res := fmt.Sprintf("(%s (mk_%s %s))", d.name, recNm, strings.Join(mk, " "))
	switch c.retK.k {
	case dBool:
		res = fmt.Sprintf("(if %s then 1%%Z else 0%%Z)", res)
	case dN:
		res = fmt.Sprintf("(Z.of_N %s)", res)
	}
	call := fmt.Sprintf("  if String.eqb name %s then Some %s else\n", coqString(d.name), res)
	return b.String(), call
}
