package main

import (
	"fmt"
	"go/ast"
	"go/token"
	"math/big"
)

type gkind int

const (
	kUint    gkind = iota // unsigned integer of `bits` bits  -> N (with explicit mod 2^bits on narrowing/overflowing ops)
	kInt                  // Go int/int64 used for lengths and indexes -> N, unbounded (codec mode) / Z (decision mode)
	kConst                // untyped integer constant
	kBool                 // bool
	kByteArr              // [n]byte -> list N
	kString               // string  -> list N (bytes)
	kBytes                // []byte  -> list N
	kBuf                  // the 64-byte frame buffer being encoded to / decoded from
	kRec                  // struct value (record variable or nested struct field)
	kOpaque               // anything else (pointers, interfaces, ...)
)

type gtype struct {
	k    gkind
	bits int
	n    int
	rec  string
}

func (g gtype) String() string {
	switch g.k {
	case kUint:
		return fmt.Sprintf("uint%d", g.bits)
	case kInt:
		return "int"
	case kConst:
		return "const"
	case kBool:
		return "bool"
	case kByteArr:
		return fmt.Sprintf("[%d]byte", g.n)
	case kString:
		return "string"
	case kBytes:
		return "[]byte"
	case kBuf:
		return "buffer"
	case kRec:
		return "struct " + g.rec
	}
	return "opaque"
}

type fieldInfo struct {
	goName   string
	typ      gtype
	embedded bool
}

type structInfo struct {
	name    string
	fields  []fieldInfo
	file    string
	line    int
	touched map[string]bool // leaf paths referenced by some translated target
	used    bool            // a record is emitted
}

type leaf struct {
	path string
	typ  gtype
}

var uintBits = map[string]int{"uint8": 8, "byte": 8, "uint16": 16, "uint32": 32, "uint64": 64}
var intNames = map[string]bool{"int": true, "int64": true, "int32": true, "int16": true, "int8": true, "uint": true}

func pow2(bits int) string {
	return new(big.Int).Lsh(big.NewInt(1), uint(bits)).String()
}

// typeOf maps a Go type expression to a gtype (pointers to known structs are records when deref is true).
func (t *translator) typeOf(e ast.Expr, deref bool) gtype {
	switch x := e.(type) {
	case *ast.Ident:
		if b, ok := uintBits[x.Name]; ok {
			return gtype{k: kUint, bits: b}
		}
		if intNames[x.Name] {
			return gtype{k: kInt}
		}
		switch x.Name {
		case "string":
			return gtype{k: kString}
		case "bool":
			return gtype{k: kBool}
		}
		if _, ok := t.structs[x.Name]; ok {
			return gtype{k: kRec, rec: x.Name}
		}
	case *ast.SelectorExpr:
		if _, ok := t.structs[x.Sel.Name]; ok {
			return gtype{k: kRec, rec: x.Sel.Name}
		}
	case *ast.StarExpr:
		if deref {
			g := t.typeOf(x.X, false)
			if g.k == kRec {
				return g
			}
		}
	case *ast.ArrayType:
		el, ok := x.Elt.(*ast.Ident)
		if ok && (el.Name == "byte" || el.Name == "uint8") {
			if x.Len == nil {
				return gtype{k: kBytes}
			}
			if v, err := t.evalConst(x.Len, 0, ""); err == nil && v.IsInt64() {
				return gtype{k: kByteArr, n: int(v.Int64())}
			}
		}
	}
	return gtype{k: kOpaque}
}

func (t *translator) loadStructs() error {
	// two passes so that struct-typed fields resolve regardless of declaration order
	type pending struct {
		si *structInfo
		st *ast.StructType
	}
	var all []pending
	for _, rel := range structFiles {
		s, err := t.load(rel)
		if err != nil {
			return err
		}
		for _, d := range s.file.Decls {
			gd, ok := d.(*ast.GenDecl)
			if !ok || gd.Tok != token.TYPE {
				continue
			}
			for _, sp := range gd.Specs {
				ts := sp.(*ast.TypeSpec)
				st, ok := ts.Type.(*ast.StructType)
				if !ok {
					continue
				}
				if _, dup := t.structs[ts.Name.Name]; dup {
					t.warn = append(t.warn, fmt.Sprintf("NOTE duplicate struct name %s in %s ignored", ts.Name.Name, rel))
					continue
				}
				si := &structInfo{name: ts.Name.Name, file: rel, line: t.fset.Position(ts.Pos()).Line, touched: map[string]bool{}}
				t.structs[si.name] = si
				all = append(all, pending{si, st})
			}
		}
	}
	for _, p := range all {
		for _, f := range p.st.Fields.List {
			ty := t.typeOf(f.Type, false)
			if len(f.Names) == 0 {
				nm := ""
				switch x := f.Type.(type) {
				case *ast.Ident:
					nm = x.Name
				case *ast.SelectorExpr:
					nm = x.Sel.Name
				case *ast.StarExpr:
					if id, ok := x.X.(*ast.Ident); ok {
						nm = id.Name
					}
				}
				p.si.fields = append(p.si.fields, fieldInfo{goName: nm, typ: ty, embedded: ty.k == kRec})
				continue
			}
			for _, nm := range f.Names {
				p.si.fields = append(p.si.fields, fieldInfo{goName: nm.Name, typ: ty})
			}
		}
	}
	return nil
}

// leaves flattens a struct: embedded structs are promoted (no prefix), struct-typed named fields get prefix Name_.
func (t *translator) leaves(structName, prefix string) []leaf {
	si := t.structs[structName]
	if si == nil {
		return nil
	}
	var res []leaf
	for _, f := range si.fields {
		if f.typ.k == kRec {
			if f.embedded {
				res = append(res, t.leaves(f.typ.rec, prefix)...)
			} else {
				res = append(res, t.leaves(f.typ.rec, prefix+f.goName+"_")...)
			}
			continue
		}
		res = append(res, leaf{prefix + f.goName, f.typ})
	}
	return res
}

// selectField resolves `X.name` where X is (a nested struct of) a value of struct `structName` with leaf prefix
// `prefix`.  Returns either a leaf (isLeaf) or a nested struct (new struct name + new prefix).
func (t *translator) selectField(structName, prefix, name string) (lf leaf, nested string, nprefix string, ok bool) {
	si := t.structs[structName]
	if si == nil {
		return
	}
	for _, f := range si.fields {
		if f.goName == name {
			if f.typ.k == kRec {
				if f.embedded {
					return leaf{}, f.typ.rec, prefix, true
				}
				return leaf{}, f.typ.rec, prefix + name + "_", true
			}
			return leaf{prefix + name, f.typ}, "", "", true
		}
	}
	for _, f := range si.fields {
		if f.embedded && f.typ.k == kRec {
			if l, n, np, ok2 := t.selectField(f.typ.rec, prefix, name); ok2 {
				return l, n, np, true
			}
		}
	}
	return
}

func recordable(g gtype) bool {
	switch g.k {
	case kUint, kByteArr, kString, kBytes:
		return true
	}
	return false
}

// recordFields: the fields of the generated record = leaves of supported kinds that some target touches.
func (t *translator) recordFields(structName string) []leaf {
	si := t.structs[structName]
	var res []leaf
	for _, l := range t.leaves(structName, "") {
		if recordable(l.typ) && si.touched[l.path] {
			res = append(res, l)
		}
	}
	return res
}
