// go2coq: regenerates the Coq "leaves" of the slock verification from the Go source.
//
//	go2coq -repo <slock tree> -out <dir>
//
// Emits GenPrelude.v (fixed text: markers and the three list helpers the transcriptions refer to),
// GenConsts.v (constants), GenCodecs.v (shallow transcription of fixed-layout codecs), GenDecision.v
// (pure decision functions).  The translator is purely syntactic: it never simplifies or reorders an
// expression.  It evaluates only (a) constant declarations (needed for iota) and (b) constant buffer
// indexes / loop bounds (needed to put right-hand sides "in buffer order").  Anything outside the
// supported subset is emitted as the opaque marker gen_unsupported "<source text>", so every theorem
// about that definition stops checking.
//
// Stdlib only (go/parser, go/ast, go/token).
package main

import (
	"flag"
	"fmt"
	"go/ast"
	"go/parser"
	"go/token"
	"os"
	"path/filepath"
	"sort"
	"strings"
)

// ---------------------------------------------------------------------------------------------
// target tables (the only place that names slock source locations)

// constant files: every const group is emitted; string constants are skipped (comment only).
var constFiles = []string{
	"protocol/command.go",
	"server/config.go",
	"server/aof.go",
	"server/slock.go",
	"server/arbiter.go",
}

// files whose struct types are registered (records are generated for codec targets only).
var structFiles = []string{
	"protocol/command.go",
	"protocol/state.go",
	"server/aof.go",
	"server/subscribe.go",
}

// codecMethodFiles: every method named Encode/Decode of a struct in these files is a codec target,
// restricted to the listed receivers when recvs != nil.  bufField: the receiver field that is the
// 64-byte buffer when the buffer is not a parameter (`buf := self.buf`).
type codecFile struct {
	file     string
	recvs    []string // nil = all
	bufField string
}

var codecMethodFiles = []codecFile{
	{"protocol/command.go", nil, ""},
	{"server/aof.go", []string{"AofLock"}, "buf"},
	{"server/subscribe.go", []string{"PublishLock"}, "buf"},
}

// regions: hand-inlined codecs, located by function + (optional) switch case label + the source text of
// the first left-hand side of the first and of the last assignment of the region.
type regionTarget struct {
	name      string // generated definition name
	file      string
	recv      string // receiver type of the enclosing method
	fn        string
	caseLabel string // source text of the case expression that encloses the region ("" = any block)
	firstLHS  string
	lastLHS   string
	kind      string            // "decode" (updates record variable `target`) or "encode" (writes buf)
	target    string            // decode: Go identifier of the record being filled
	recVars   map[string]string // Go identifier -> struct name, for identifiers that are not parameters
}

var regionTargets = []regionTarget{
	{"Server_Decode_Lock", "server/protocol.go", "BinaryServerProtocol", "ProcessParse", "protocol.COMMAND_LOCK",
		"lockCommand.CommandType", "lockCommand.Count", "decode", "lockCommand", map[string]string{"lockCommand": "LockCommand"}},
	{"Server_Decode_Unlock", "server/protocol.go", "BinaryServerProtocol", "ProcessParse", "protocol.COMMAND_UNLOCK",
		"lockCommand.CommandType", "lockCommand.Count", "decode", "lockCommand", map[string]string{"lockCommand": "LockCommand"}},
	{"Server_ResultEncode", "server/protocol.go", "BinaryServerProtocol", "ProcessLockResultCommand", "",
		"buf[0]", "buf[62]", "encode", "", nil},
}

// decision targets: pure functions; selector map = source text of a selector/call -> (input field, type).
// See decision.go for the table.

// ---------------------------------------------------------------------------------------------

type source struct {
	rel  string
	data []byte
	file *ast.File
}

type translator struct {
	repo    string
	fset    *token.FileSet
	srcs    map[string]*source
	consts  map[string]*constInfo // by bare name
	corder  []*constInfo
	structs map[string]*structInfo
	warn    []string
	nmarker int
}

func (t *translator) load(rel string) (*source, error) {
	if s, ok := t.srcs[rel]; ok {
		return s, nil
	}
	p := filepath.Join(t.repo, rel)
	data, err := os.ReadFile(p)
	if err != nil {
		return nil, err
	}
	f, err := parser.ParseFile(t.fset, p, data, parser.ParseComments)
	if err != nil {
		return nil, err
	}
	s := &source{rel: rel, data: data, file: f}
	t.srcs[rel] = s
	return s, nil
}

// text returns the exact source text of a node.
func (t *translator) text(n ast.Node) string {
	if n == nil {
		return ""
	}
	p1, p2 := t.fset.Position(n.Pos()), t.fset.Position(n.End())
	for _, s := range t.srcs {
		if filepath.Join(t.repo, s.rel) == p1.Filename {
			if p1.Offset >= 0 && p2.Offset <= len(s.data) && p1.Offset <= p2.Offset {
				return string(s.data[p1.Offset:p2.Offset])
			}
		}
	}
	return "?"
}

func (t *translator) where(n ast.Node) string {
	p := t.fset.Position(n.Pos())
	rel, err := filepath.Rel(t.repo, p.Filename)
	if err != nil {
		rel = p.Filename
	}
	return fmt.Sprintf("%s:%d", rel, p.Line)
}

func coqString(s string) string {
	s = strings.Join(strings.Fields(s), " ")
	if len(s) > 300 {
		s = s[:300] + "..."
	}
	s = strings.ReplaceAll(s, "\"", "\"\"")
	return "\"" + s + "\""
}

func (t *translator) marker(kind, what string) string {
	t.nmarker++
	t.warn = append(t.warn, "UNSUPPORTED "+what)
	switch kind {
	case "bytes":
		return "(gen_unsupported_bytes " + coqString(what) + ")"
	case "bool":
		return "(gen_unsupported_bool " + coqString(what) + ")"
	case "Z":
		return "(gen_unsupported_Z " + coqString(what) + ")"
	}
	return "(gen_unsupported " + coqString(what) + ")"
}

func main() {
	repo := flag.String("repo", "/repo", "slock source tree")
	out := flag.String("out", "", "output directory")
	flag.Parse()
	if *out == "" {
		fmt.Fprintln(os.Stderr, "usage: go2coq -repo <slock tree> -out <dir>")
		os.Exit(2)
	}
	t := &translator{repo: *repo, fset: token.NewFileSet(), srcs: map[string]*source{},
		consts: map[string]*constInfo{}, structs: map[string]*structInfo{}}
	fail := func(err error) {
		fmt.Fprintln(os.Stderr, "go2coq:", err)
		os.Exit(1)
	}
	if err := os.MkdirAll(*out, 0o755); err != nil {
		fail(err)
	}
	write := func(name, content string) {
		if err := os.WriteFile(filepath.Join(*out, name), []byte(content), 0o644); err != nil {
			fail(err)
		}
	}
	write("GenPrelude.v", preludeText)

	cs, err := t.genConsts()
	if err != nil {
		fail(err)
	}
	write("GenConsts.v", cs)

	if err := t.loadStructs(); err != nil {
		fail(err)
	}
	cd, run, js, err := t.genCodecs()
	if err != nil {
		fail(err)
	}
	write("GenCodecs.v", cd)
	write("GenCodecRun.v", run)
	write("gencodec.json", js)

	dd, err := t.genDecisions()
	if err != nil {
		fail(err)
	}
	write("GenDecision.v", dd)

	sort.Strings(t.warn)
	for _, w := range t.warn {
		fmt.Println(w)
	}
	fmt.Printf("go2coq: %d constants, %d markers\n", len(t.corder), t.nmarker)
}

const preludeText = `(* GENERATED by gen/go2coq (fixed text) - do not edit. *)
From Coq Require Import NArith ZArith List String.
Import ListNotations.

(* Markers for source outside the translator's subset.  They are opaque (Qed), so no theorem about a
   definition that contains one can be proved by unfolding: such theorems stop checking. *)
Definition gen_unsupported (what : string) : N.
Proof. exact 0%N. Qed.
Definition gen_unsupported_bytes (what : string) : list N.
Proof. exact nil. Qed.
Definition gen_unsupported_bool (what : string) : bool.
Proof. exact false. Qed.
Definition gen_unsupported_Z (what : string) : Z.
Proof. exact 0%Z. Qed.

(* Go  x[a:b]  on byte slices (total: the bounds panic of Go is not modelled here). *)
Definition gen_slice (l : list N) (a b : N) : list N :=
  firstn (N.to_nat b - N.to_nat a) (skipn (N.to_nat a) l).

(* Go  strings.Trim(s, "\x00") *)
Fixpoint gen_drop0 (l : list N) : list N :=
  match l with
  | 0%N :: t => gen_drop0 t
  | _ => l
  end.
Definition gen_trim0 (l : list N) : list N := rev (gen_drop0 (rev (gen_drop0 l))).
`
