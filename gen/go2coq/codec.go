package main

import (
	"fmt"
	"go/ast"
	"go/token"
	"math/big"
	"sort"
	"strings"
)

const frameLen = 64

type val struct {
	s string
	t gtype
	c *big.Int // value when the expression is a compile-time constant
	// kRec values:
	recVar    string // Go identifier of the record variable
	recPrefix string
}

type recVarInfo struct {
	goName     string
	structName string
}

type extraParam struct {
	name string
	typ  string // Coq type
	cond string // range condition or ""
}

type cctx struct {
	t         *translator
	recVars   map[string]*recVarInfo
	target    string // decode: Go identifier of the record that is filled in
	bufName   string
	bufField  string
	locals    map[string]val
	env       map[string]string
	guards    []string
	events    []string // ordered outcome conditions: "1:<cond>" error return, "2:<cond>" slice-bounds panic
	fn        *ast.FuncDecl
	fparams   map[string]gtype // non-record, non-buffer function parameters
	forder    []string
	used      map[string]bool // parameters actually referenced (incl. X_is_nil)
	resolving map[string]bool
}

func coqIdent(s string) string {
	switch s {
	case "end", "in", "let", "fun", "match", "with", "if", "then", "else", "at", "as", "return", "fix", "type", "Type", "Set", "Prop", "forall", "exists":
		return s + "_"
	}
	return s
}

func projName(structName, path string) string { return structName + "_" + path }

func (c *cctx) defaultFor(key string) string {
	p := strings.Split(key, ":")
	switch p[0] {
	case "b":
		return fmt.Sprintf("(nth %s%%nat %s 0)", p[1], c.bufName)
	case "f":
		rv := c.recVars[p[1]]
		return fmt.Sprintf("(%s %s)", projName(rv.structName, p[2]), coqIdent(p[1]))
	case "a":
		rv := c.recVars[p[1]]
		return fmt.Sprintf("(nth %s%%nat (%s %s) 0)", p[3], projName(rv.structName, p[2]), coqIdent(p[1]))
	}
	return "?"
}

func (c *cctx) get(key string) string {
	if v, ok := c.env[key]; ok {
		return v
	}
	return c.defaultFor(key)
}

func (c *cctx) touch(structName, path string) {
	c.t.structs[structName].touched[path] = true
}

// ---------------------------------------------------------------------------------------------
// expressions

func (c *cctx) errf(e ast.Node, format string, a ...interface{}) error {
	return fmt.Errorf("%s: %s [%s]", c.t.where(e), fmt.Sprintf(format, a...), oneLine(c.t.text(e)))
}

func (c *cctx) ident(x *ast.Ident) (val, error) {
	if v, ok := c.locals[x.Name]; ok {
		return v, nil
	}
	if x.Name == c.bufName {
		return val{s: c.bufName, t: gtype{k: kBuf}}, nil
	}
	if rv, ok := c.recVars[x.Name]; ok {
		return val{s: coqIdent(x.Name), t: gtype{k: kRec, rec: rv.structName}, recVar: x.Name}, nil
	}
	if ty, ok := c.fparams[x.Name]; ok {
		c.used[x.Name] = true
		return val{s: coqIdent(x.Name), t: ty}, nil
	}
	if x.Name == "true" || x.Name == "false" {
		return val{s: x.Name, t: gtype{k: kBool}}, nil
	}
	// a local of the enclosing function defined exactly once by `:=` (regions only)
	if c.fn != nil && !c.resolving[x.Name] {
		var defs []ast.Expr
		n := 0
		ast.Inspect(c.fn.Body, func(nd ast.Node) bool {
			switch s := nd.(type) {
			case *ast.AssignStmt:
				for i, l := range s.Lhs {
					if id, ok := l.(*ast.Ident); ok && id.Name == x.Name {
						n++
						if s.Tok == token.DEFINE && len(s.Lhs) == len(s.Rhs) {
							defs = append(defs, s.Rhs[i])
						}
					}
				}
			case *ast.IncDecStmt:
				if id, ok := s.X.(*ast.Ident); ok && id.Name == x.Name {
					n++
				}
			case *ast.RangeStmt:
				for _, l := range []ast.Expr{s.Key, s.Value} {
					if id, ok := l.(*ast.Ident); ok && id.Name == x.Name {
						n++
					}
				}
			}
			return true
		})
		if n == 1 && len(defs) == 1 {
			c.resolving[x.Name] = true
			saved := c.env
			c.env = map[string]string{} // the defining statement precedes the region: nothing assigned yet
			v, err := c.expr(defs[0])
			c.env = saved
			delete(c.resolving, x.Name)
			if err == nil {
				return v, nil
			}
			return val{}, err
		}
	}
	if ci, ok := c.t.consts[x.Name]; ok && !ci.isStr && ci.val.Sign() >= 0 {
		return val{s: ci.name, t: gtype{k: kConst}, c: ci.val}, nil
	}
	return val{}, c.errf(x, "unknown identifier")
}

func (c *cctx) selector(x *ast.SelectorExpr) (val, error) {
	// package-qualified constant
	if id, ok := x.X.(*ast.Ident); ok {
		_, isLocal := c.locals[id.Name]
		_, isRec := c.recVars[id.Name]
		_, isPar := c.fparams[id.Name]
		if !isLocal && !isRec && !isPar && id.Name != c.bufName {
			if ci, ok := c.t.consts[x.Sel.Name]; ok && !ci.isStr && ci.val.Sign() >= 0 && (id.Name == "protocol" || id.Name == "server") {
				return val{s: ci.name, t: gtype{k: kConst}, c: ci.val}, nil
			}
		}
	}
	base, err := c.expr(x.X)
	if err != nil {
		return val{}, err
	}
	if base.t.k != kRec {
		return val{}, c.errf(x, "selector on non-struct value of type %s", base.t)
	}
	rv := c.recVars[base.recVar]
	if base.recPrefix == "" && x.Sel.Name == c.bufField && c.bufField != "" {
		return val{s: c.bufName, t: gtype{k: kBuf}}, nil
	}
	lf, nested, nprefix, ok := c.t.selectField(base.t.rec, base.recPrefix, x.Sel.Name)
	if !ok {
		return val{}, c.errf(x, "no field %s in %s", x.Sel.Name, base.t.rec)
	}
	if nested != "" {
		return val{t: gtype{k: kRec, rec: nested}, recVar: base.recVar, recPrefix: nprefix}, nil
	}
	if !recordable(lf.typ) {
		return val{}, c.errf(x, "field of unsupported type %s", lf.typ)
	}
	c.touch(rv.structName, lf.path)
	key := "f:" + base.recVar + ":" + lf.path
	if lf.typ.k == kByteArr {
		if _, whole := c.env[key]; !whole {
			// partially assigned arrays are read element-wise (see index); a whole-array read sees the elements
			any := false
			var el []string
			for i := 0; i < lf.typ.n; i++ {
				k := fmt.Sprintf("a:%s:%s:%d", base.recVar, lf.path, i)
				if _, ok := c.env[k]; ok {
					any = true
				}
				el = append(el, c.get(k))
			}
			if any {
				return val{s: "[" + strings.Join(el, "; ") + "]", t: lf.typ, recVar: base.recVar, recPrefix: lf.path}, nil
			}
		}
	}
	return val{s: c.get(key), t: lf.typ, recVar: base.recVar, recPrefix: lf.path}, nil
}

func constVal(v *big.Int) val { return val{s: v.String(), t: gtype{k: kConst}, c: v} }

func (c *cctx) index(x *ast.IndexExpr) (val, error) {
	base, err := c.expr(x.X)
	if err != nil {
		return val{}, err
	}
	idx, err := c.expr(x.Index)
	if err != nil {
		return val{}, err
	}
	u8 := gtype{k: kUint, bits: 8}
	switch base.t.k {
	case kBuf:
		if idx.c == nil || !idx.c.IsInt64() {
			return val{}, c.errf(x, "buffer index is not a constant")
		}
		return val{s: c.get(fmt.Sprintf("b:%d", idx.c.Int64())), t: u8}, nil
	case kByteArr:
		if idx.c != nil && idx.c.IsInt64() && base.recVar != "" {
			if int(idx.c.Int64()) >= base.t.n {
				return val{}, c.errf(x, "array index out of range")
			}
			if _, whole := c.env["f:"+base.recVar+":"+base.recPrefix]; !whole {
				return val{s: c.get(fmt.Sprintf("a:%s:%s:%d", base.recVar, base.recPrefix, idx.c.Int64())), t: u8}, nil
			}
		}
		fallthrough
	case kString, kBytes:
		if idx.c != nil {
			return val{s: fmt.Sprintf("(nth %s%%nat %s 0)", idx.c.String(), base.s), t: u8}, nil
		}
		if idx.t.k == kUint || idx.t.k == kInt {
			return val{s: fmt.Sprintf("(nth (N.to_nat %s) %s 0)", idx.s, base.s), t: u8}, nil
		}
	}
	return val{}, c.errf(x, "unsupported index expression on %s", base.t)
}

func (c *cctx) slice(x *ast.SliceExpr) (val, error) {
	if x.Slice3 {
		return val{}, c.errf(x, "3-index slice")
	}
	base, err := c.expr(x.X)
	if err != nil {
		return val{}, err
	}
	if base.t.k != kBuf && base.t.k != kBytes && base.t.k != kString {
		return val{}, c.errf(x, "slice of %s", base.t)
	}
	if base.t.k == kBuf && len(c.bufAssigned()) > 0 {
		return val{}, c.errf(x, "slice of a partially written buffer")
	}
	lo, hi := "0", fmt.Sprintf("(N.of_nat (List.length %s))", base.s)
	if x.Low != nil {
		v, err := c.expr(x.Low)
		if err != nil {
			return val{}, err
		}
		if v.t.k != kConst && v.t.k != kUint && v.t.k != kInt {
			return val{}, c.errf(x.Low, "slice bound of type %s", v.t)
		}
		lo = v.s
	}
	if x.High != nil {
		v, err := c.expr(x.High)
		if err != nil {
			return val{}, err
		}
		if v.t.k != kConst && v.t.k != kUint && v.t.k != kInt {
			return val{}, c.errf(x.High, "slice bound of type %s", v.t)
		}
		hi = v.s
	}
	rt := gtype{k: kBytes}
	if base.t.k == kString {
		rt = gtype{k: kString}
	}
	// Go panics unless lo <= hi <= cap (cap is modelled as len)
	c.events = append(c.events, fmt.Sprintf("2:(orb (N.ltb (N.of_nat (List.length %s)) %s) (N.ltb %s %s))", base.s, hi, hi, lo))
	return val{s: fmt.Sprintf("(gen_slice %s %s %s)", base.s, lo, hi), t: rt}, nil
}

func (c *cctx) bufAssigned() []string {
	var r []string
	for k := range c.env {
		if strings.HasPrefix(k, "b:") {
			r = append(r, k)
		}
	}
	return r
}

func (c *cctx) call(x *ast.CallExpr) (val, error) {
	fun := oneLine(c.t.text(x.Fun))
	if b, ok := uintBits[fun]; ok && len(x.Args) == 1 {
		a, err := c.expr(x.Args[0])
		if err != nil {
			return val{}, err
		}
		if a.t.k != kConst && a.t.k != kUint && a.t.k != kInt {
			return val{}, c.errf(x, "conversion of %s", a.t)
		}
		r := val{s: fmt.Sprintf("(%s mod %s)", a.s, pow2(b)), t: gtype{k: kUint, bits: b}}
		if a.c != nil {
			r.c = new(big.Int).Mod(a.c, new(big.Int).Lsh(big.NewInt(1), uint(b)))
		}
		return r, nil
	}
	if intNames[fun] && len(x.Args) == 1 {
		a, err := c.expr(x.Args[0])
		if err != nil {
			return val{}, err
		}
		// unsigned -> int: modelled as the identity on N (values above 2^63 are outside the modelled range)
		if a.t.k != kConst && a.t.k != kUint && a.t.k != kInt {
			return val{}, c.errf(x, "conversion of %s", a.t)
		}
		return val{s: a.s, t: gtype{k: kInt}, c: a.c}, nil
	}
	if fun == "len" && len(x.Args) == 1 {
		a, err := c.expr(x.Args[0])
		if err != nil {
			return val{}, err
		}
		switch a.t.k {
		case kBuf, kBytes, kString:
			return val{s: fmt.Sprintf("(N.of_nat (List.length %s))", a.s), t: gtype{k: kInt}}, nil
		case kByteArr:
			return constVal(big.NewInt(int64(a.t.n))), nil
		}
		return val{}, c.errf(x, "len of %s", a.t)
	}
	if fun == "string" && len(x.Args) == 1 {
		a, err := c.expr(x.Args[0])
		if err != nil {
			return val{}, err
		}
		if a.t.k == kBytes || a.t.k == kString {
			return val{s: a.s, t: gtype{k: kString}}, nil
		}
		return val{}, c.errf(x, "string() of %s", a.t)
	}
	if fun == "[]byte" && len(x.Args) == 1 {
		a, err := c.expr(x.Args[0])
		if err != nil {
			return val{}, err
		}
		if a.t.k == kBytes || a.t.k == kString {
			return val{s: a.s, t: gtype{k: kBytes}}, nil
		}
		return val{}, c.errf(x, "[]byte() of %s", a.t)
	}
	if fun == "strings.Trim" && len(x.Args) == 2 && oneLine(c.t.text(x.Args[1])) == "string([]byte{0})" {
		a, err := c.expr(x.Args[0])
		if err != nil {
			return val{}, err
		}
		if a.t.k == kString {
			return val{s: fmt.Sprintf("(gen_trim0 %s)", a.s), t: gtype{k: kString}}, nil
		}
	}
	return val{}, c.errf(x, "call outside the supported table")
}

func (c *cctx) binary(x *ast.BinaryExpr) (val, error) {
	// nil comparisons of slice parameters
	if x.Op == token.EQL || x.Op == token.NEQ {
		for _, pr := range [][2]ast.Expr{{x.X, x.Y}, {x.Y, x.X}} {
			if id, ok := pr[1].(*ast.Ident); ok && id.Name == "nil" {
				if pid, ok := pr[0].(*ast.Ident); ok {
					if ty, ok := c.fparams[pid.Name]; ok && ty.k == kBytes {
						nm := coqIdent(pid.Name) + "_is_nil"
						c.used[pid.Name+"_is_nil"] = true
						if x.Op == token.EQL {
							return val{s: nm, t: gtype{k: kBool}}, nil
						}
						return val{s: "(negb " + nm + ")", t: gtype{k: kBool}}, nil
					}
				}
				return val{}, c.errf(x, "nil comparison of a non-parameter")
			}
		}
	}
	a, err := c.expr(x.X)
	if err != nil {
		return val{}, err
	}
	b, err := c.expr(x.Y)
	if err != nil {
		return val{}, err
	}
	isNum := func(v val) bool { return v.t.k == kConst || v.t.k == kUint || v.t.k == kInt }
	if x.Op == token.LAND || x.Op == token.LOR {
		if a.t.k != kBool || b.t.k != kBool {
			return val{}, c.errf(x, "boolean operator on %s, %s", a.t, b.t)
		}
		op := "andb"
		if x.Op == token.LOR {
			op = "orb"
		}
		return val{s: fmt.Sprintf("(%s %s %s)", op, a.s, b.s), t: gtype{k: kBool}}, nil
	}
	if !isNum(a) || !isNum(b) {
		return val{}, c.errf(x, "operator %s on %s, %s", x.Op, a.t, b.t)
	}
	bt := gtype{k: kBool}
	switch x.Op {
	case token.LSS:
		return val{s: fmt.Sprintf("(N.ltb %s %s)", a.s, b.s), t: bt}, nil
	case token.LEQ:
		return val{s: fmt.Sprintf("(N.leb %s %s)", a.s, b.s), t: bt}, nil
	case token.GTR:
		return val{s: fmt.Sprintf("(N.ltb %s %s)", b.s, a.s), t: bt}, nil
	case token.GEQ:
		return val{s: fmt.Sprintf("(N.leb %s %s)", b.s, a.s), t: bt}, nil
	case token.EQL:
		return val{s: fmt.Sprintf("(N.eqb %s %s)", a.s, b.s), t: bt}, nil
	case token.NEQ:
		return val{s: fmt.Sprintf("(negb (N.eqb %s %s))", a.s, b.s), t: bt}, nil
	}
	// result type: shifts take the left operand's type; otherwise the typed operand's
	rt := a.t
	if x.Op != token.SHL && x.Op != token.SHR {
		if a.t.k == kConst {
			rt = b.t
		} else if b.t.k != kConst && (a.t.k != b.t.k || a.t.bits != b.t.bits) {
			return val{}, c.errf(x, "mismatched operand types %s, %s", a.t, b.t)
		}
	}
	wrap := func(s string) string {
		if rt.k == kUint {
			return fmt.Sprintf("(%s mod %s)", s, pow2(rt.bits))
		}
		return s
	}
	var s string
	var cv *big.Int
	both := a.c != nil && b.c != nil
	switch x.Op {
	case token.OR:
		s = fmt.Sprintf("(N.lor %s %s)", a.s, b.s)
		if both {
			cv = new(big.Int).Or(a.c, b.c)
		}
	case token.AND:
		s = fmt.Sprintf("(N.land %s %s)", a.s, b.s)
		if both {
			cv = new(big.Int).And(a.c, b.c)
		}
	case token.XOR:
		s = fmt.Sprintf("(N.lxor %s %s)", a.s, b.s)
		if both {
			cv = new(big.Int).Xor(a.c, b.c)
		}
	case token.SHR:
		s = fmt.Sprintf("(N.shiftr %s %s)", a.s, b.s)
		if both {
			cv = new(big.Int).Rsh(a.c, uint(b.c.Uint64()))
		}
	case token.SHL:
		s = wrap(fmt.Sprintf("(N.shiftl %s %s)", a.s, b.s))
		if both {
			cv = new(big.Int).Lsh(a.c, uint(b.c.Uint64()))
		}
	case token.ADD:
		s = wrap(fmt.Sprintf("(%s + %s)", a.s, b.s))
		if both {
			cv = new(big.Int).Add(a.c, b.c)
		}
	case token.MUL:
		s = wrap(fmt.Sprintf("(%s * %s)", a.s, b.s))
		if both {
			cv = new(big.Int).Mul(a.c, b.c)
		}
	case token.SUB:
		if rt.k == kUint {
			s = fmt.Sprintf("((%s + %s - %s) mod %s)", a.s, pow2(rt.bits), b.s, pow2(rt.bits))
		} else if both && a.c.Cmp(b.c) >= 0 {
			s = fmt.Sprintf("(%s - %s)", a.s, b.s)
			cv = new(big.Int).Sub(a.c, b.c)
		} else {
			return val{}, c.errf(x, "subtraction on int is outside the codec subset")
		}
	default:
		return val{}, c.errf(x, "operator %s", x.Op)
	}
	if cv != nil && rt.k == kUint {
		cv = new(big.Int).Mod(cv, new(big.Int).Lsh(big.NewInt(1), uint(rt.bits)))
	}
	return val{s: s, t: rt, c: cv}, nil
}

func (c *cctx) expr(e ast.Expr) (val, error) {
	switch x := e.(type) {
	case *ast.BasicLit:
		if x.Kind == token.INT || x.Kind == token.CHAR {
			v, err := c.t.evalConst(x, 0, "")
			if err != nil {
				return val{}, c.errf(x, "%v", err)
			}
			return constVal(v), nil
		}
		return val{}, c.errf(x, "literal")
	case *ast.Ident:
		return c.ident(x)
	case *ast.ParenExpr:
		return c.expr(x.X)
	case *ast.SelectorExpr:
		return c.selector(x)
	case *ast.IndexExpr:
		return c.index(x)
	case *ast.SliceExpr:
		return c.slice(x)
	case *ast.CallExpr:
		return c.call(x)
	case *ast.BinaryExpr:
		return c.binary(x)
	case *ast.UnaryExpr:
		if x.Op == token.NOT {
			a, err := c.expr(x.X)
			if err != nil {
				return val{}, err
			}
			if a.t.k == kBool {
				return val{s: "(negb " + a.s + ")", t: a.t}, nil
			}
		}
		if x.Op == token.AND { // &x : pointer to a record variable is the record
			a, err := c.expr(x.X)
			if err == nil && a.t.k == kRec {
				return a, nil
			}
		}
		return val{}, c.errf(x, "unary operator %s", x.Op)
	case *ast.StarExpr:
		a, err := c.expr(x.X)
		if err == nil && a.t.k == kRec {
			return a, nil
		}
	}
	return val{}, c.errf(e, "expression outside the supported subset")
}

// ---------------------------------------------------------------------------------------------
// statements

func (c *cctx) assign(lhs ast.Expr, v val, rhsNode ast.Node) error {
	byteOK := func() bool { return v.t.k == kConst || (v.t.k == kUint && v.t.bits == 8) }
	switch l := lhs.(type) {
	case *ast.IndexExpr:
		base, err := c.expr(l.X)
		if err != nil {
			return err
		}
		idx, err := c.expr(l.Index)
		if err != nil {
			return err
		}
		if idx.c == nil || !idx.c.IsInt64() {
			return c.errf(lhs, "assignment index is not a constant")
		}
		i := idx.c.Int64()
		if !byteOK() {
			return c.errf(rhsNode, "byte element assigned a value of type %s", v.t)
		}
		switch {
		case base.t.k == kBuf:
			if i < 0 || i >= frameLen {
				return c.errf(lhs, "buffer index outside the %d-byte frame", frameLen)
			}
			c.env[fmt.Sprintf("b:%d", i)] = v.s
			return nil
		case base.t.k == kByteArr && base.recVar == c.target && c.target != "":
			if int(i) >= base.t.n {
				return c.errf(lhs, "array index out of range")
			}
			key := "f:" + base.recVar + ":" + base.recPrefix
			if _, whole := c.env[key]; whole {
				return c.errf(lhs, "element assignment after whole-array assignment")
			}
			c.env[fmt.Sprintf("a:%s:%s:%d", base.recVar, base.recPrefix, i)] = v.s
			return nil
		}
		return c.errf(lhs, "assignment to element of %s", base.t)
	case *ast.SelectorExpr:
		base, err := c.expr(l.X)
		if err != nil {
			return err
		}
		if base.t.k != kRec || base.recVar != c.target || c.target == "" {
			return c.errf(lhs, "assignment to a field of something that is not the decode target")
		}
		lf, nested, _, ok := c.t.selectField(base.t.rec, base.recPrefix, l.Sel.Name)
		if !ok || nested != "" || !recordable(lf.typ) {
			return c.errf(lhs, "assignment to unsupported field")
		}
		c.touch(c.recVars[c.target].structName, lf.path)
		okT := false
		switch lf.typ.k {
		case kUint:
			okT = v.t.k == kConst || (v.t.k == kUint && v.t.bits == lf.typ.bits)
		case kString:
			okT = v.t.k == kString
		case kBytes:
			okT = v.t.k == kBytes
		case kByteArr:
			okT = v.t.k == kByteArr && v.t.n == lf.typ.n
		}
		if !okT {
			return c.errf(rhsNode, "field of type %s assigned a value of type %s", lf.typ, v.t)
		}
		c.env["f:"+c.target+":"+lf.path] = v.s
		if lf.typ.k == kByteArr {
			for i := 0; i < lf.typ.n; i++ {
				delete(c.env, fmt.Sprintf("a:%s:%s:%d", c.target, lf.path, i))
			}
		}
		return nil
	}
	return c.errf(lhs, "unsupported assignment target")
}

func copyEnv(m map[string]string) map[string]string {
	r := make(map[string]string, len(m))
	for k, v := range m {
		r[k] = v
	}
	return r
}

func isNilIdent(e ast.Expr) bool {
	id, ok := e.(*ast.Ident)
	return ok && id.Name == "nil"
}

// stmts executes a statement list symbolically.  done=true after a trailing `return nil`.
func (c *cctx) stmts(list []ast.Stmt) (done bool, err error) {
	for i, st := range list {
		switch s := st.(type) {
		case *ast.EmptyStmt:
		case *ast.ReturnStmt:
			if len(s.Results) == 1 && isNilIdent(s.Results[0]) || len(s.Results) == 0 {
				if i != len(list)-1 {
					return false, c.errf(s, "return in the middle of a block")
				}
				return true, nil
			}
			return false, c.errf(s, "return of a value")
		case *ast.AssignStmt:
			if len(s.Lhs) != len(s.Rhs) {
				return false, c.errf(s, "multi-value assignment")
			}
			if s.Tok == token.DEFINE {
				vals := make([]val, len(s.Rhs))
				for j, r := range s.Rhs {
					v, err := c.expr(r)
					if err != nil {
						return false, err
					}
					vals[j] = v
				}
				for j, l := range s.Lhs {
					id, ok := l.(*ast.Ident)
					if !ok {
						return false, c.errf(l, "define of non-identifier")
					}
					c.locals[id.Name] = vals[j]
				}
				continue
			}
			if s.Tok != token.ASSIGN {
				return false, c.errf(s, "compound assignment")
			}
			// Go evaluates every right-hand side before assigning
			vals := make([]val, len(s.Rhs))
			for j, r := range s.Rhs {
				v, err := c.expr(r)
				if err != nil {
					// keep the granularity fine: only this right-hand side becomes a marker
					kind := "N"
					v = val{s: c.t.marker(kind, c.t.where(r)+" "+c.t.text(r)+" ("+err.Error()+")"), t: gtype{k: kConst}}
				}
				vals[j] = v
			}
			for j, l := range s.Lhs {
				if err := c.assign(l, vals[j], s.Rhs[j]); err != nil {
					return false, err
				}
			}
		case *ast.ForStmt:
			// for i := A; i < B; i++ { ... } with constant A, B: unrolled
			init, ok1 := s.Init.(*ast.AssignStmt)
			cond, ok2 := s.Cond.(*ast.BinaryExpr)
			post, ok3 := s.Post.(*ast.IncDecStmt)
			if !ok1 || !ok2 || !ok3 || init.Tok != token.DEFINE || len(init.Lhs) != 1 || len(init.Rhs) != 1 || post.Tok != token.INC {
				return false, c.errf(s, "loop outside the supported form")
			}
			iv, ok := init.Lhs[0].(*ast.Ident)
			ci, okc := cond.X.(*ast.Ident)
			pi, okp := post.X.(*ast.Ident)
			if !ok || !okc || !okp || ci.Name != iv.Name || pi.Name != iv.Name || (cond.Op != token.LSS && cond.Op != token.LEQ) {
				return false, c.errf(s, "loop outside the supported form")
			}
			a, err := c.expr(init.Rhs[0])
			if err != nil {
				return false, err
			}
			b, err := c.expr(cond.Y)
			if err != nil {
				return false, err
			}
			if a.c == nil || b.c == nil || !a.c.IsInt64() || !b.c.IsInt64() {
				return false, c.errf(s, "loop bounds are not constants")
			}
			lo, hi := a.c.Int64(), b.c.Int64()
			if cond.Op == token.LEQ {
				hi++
			}
			if hi-lo > 4096 {
				return false, c.errf(s, "loop too long to unroll")
			}
			// the loop variable must not be assigned in the body
			bad := false
			ast.Inspect(s.Body, func(n ast.Node) bool {
				switch q := n.(type) {
				case *ast.AssignStmt:
					for _, l := range q.Lhs {
						if id, ok := l.(*ast.Ident); ok && id.Name == iv.Name {
							bad = true
						}
					}
				case *ast.IncDecStmt:
					if id, ok := q.X.(*ast.Ident); ok && id.Name == iv.Name {
						bad = true
					}
				case *ast.BranchStmt:
					bad = true
				}
				return true
			})
			if bad {
				return false, c.errf(s, "loop body assigns the loop variable or branches")
			}
			saved, had := c.locals[iv.Name]
			for k := lo; k < hi; k++ {
				v := constVal(big.NewInt(k))
				v.t = gtype{k: kInt}
				c.locals[iv.Name] = v
				d, err := c.stmts(s.Body.List)
				if err != nil {
					return false, err
				}
				if d {
					return false, c.errf(s, "return inside loop")
				}
			}
			if had {
				c.locals[iv.Name] = saved
			} else {
				delete(c.locals, iv.Name)
			}
		case *ast.IfStmt:
			if s.Init != nil {
				return false, c.errf(s, "if with init statement")
			}
			// guard: if cond { return <error> }
			if s.Else == nil && len(s.Body.List) == 1 {
				if r, ok := s.Body.List[0].(*ast.ReturnStmt); ok && len(r.Results) == 1 && !isNilIdent(r.Results[0]) {
					cv, err := c.expr(s.Cond)
					if err != nil {
						return false, err
					}
					if cv.t.k != kBool {
						return false, c.errf(s.Cond, "guard condition is not boolean")
					}
					c.guards = append(c.guards, cv.s)
					c.events = append(c.events, "1:"+cv.s)
					continue
				}
			}
			cv, err := c.expr(s.Cond)
			if err != nil {
				return false, err
			}
			if cv.t.k != kBool {
				return false, c.errf(s.Cond, "condition is not boolean")
			}
			base := c.env
			c.env = copyEnv(base)
			d, err := c.stmts(s.Body.List)
			if err != nil {
				return false, err
			}
			if d {
				return false, c.errf(s, "return inside conditional")
			}
			thenEnv := c.env
			c.env = copyEnv(base)
			if s.Else != nil {
				eb, ok := s.Else.(*ast.BlockStmt)
				if !ok {
					return false, c.errf(s, "else-if chain")
				}
				d, err := c.stmts(eb.List)
				if err != nil {
					return false, err
				}
				if d {
					return false, c.errf(s, "return inside conditional")
				}
			}
			elseEnv := c.env
			c.env = base
			keys := map[string]bool{}
			for k := range thenEnv {
				keys[k] = true
			}
			for k := range elseEnv {
				keys[k] = true
			}
			var ks []string
			for k := range keys {
				ks = append(ks, k)
			}
			sort.Strings(ks)
			for _, k := range ks {
				tv, tok := thenEnv[k]
				ev, eok := elseEnv[k]
				if !tok {
					tv = c.get(k)
				}
				if !eok {
					ev = c.get(k)
				}
				if tv == ev {
					c.env[k] = tv
				} else {
					c.env[k] = fmt.Sprintf("(if %s then %s else %s)", cv.s, tv, ev)
				}
			}
		case *ast.ExprStmt:
			// copy(buf[K:], make([]byte, N))  : zero fill
			call, ok := s.X.(*ast.CallExpr)
			if ok && oneLine(c.t.text(call.Fun)) == "copy" && len(call.Args) == 2 {
				dst, ok1 := call.Args[0].(*ast.SliceExpr)
				mk, ok2 := call.Args[1].(*ast.CallExpr)
				if ok1 && ok2 && dst.High == nil && dst.Low != nil && oneLine(c.t.text(mk.Fun)) == "make" && len(mk.Args) == 2 &&
					oneLine(c.t.text(mk.Args[0])) == "[]byte" {
					b, err := c.expr(dst.X)
					if err != nil {
						return false, err
					}
					lo, err := c.expr(dst.Low)
					if err != nil {
						return false, err
					}
					n, err := c.expr(mk.Args[1])
					if err != nil {
						return false, err
					}
					if b.t.k == kBuf && lo.c != nil && n.c != nil && lo.c.IsInt64() && n.c.IsInt64() {
						for k := lo.c.Int64(); k < lo.c.Int64()+n.c.Int64() && k < frameLen; k++ {
							c.env[fmt.Sprintf("b:%d", k)] = "0"
						}
						continue
					}
				}
			}
			return false, c.errf(s, "statement outside the supported subset")
		default:
			return false, c.errf(st, "statement outside the supported subset")
		}
	}
	return false, nil
}

// ---------------------------------------------------------------------------------------------
// emission

type argInfo struct {
	name string
	kind string // "rec", "N", "bool"
	rec  string
	bits int
}

type codecDef struct {
	name    string // Coq definition name
	kind    string // encode / decode
	rec     string // struct of self/target
	recVar  string
	where   string
	body    string
	guards  []string
	events  []string
	params  string    // Coq binder text
	args    []argInfo // binders except buf, in order
	argsWf  string
	comment string
}

func (c *cctx) decodeBody(structName string) string {
	var fs []string
	for _, lf := range c.t.recordFields(structName) {
		key := "f:" + c.target + ":" + lf.path
		if v, ok := c.env[key]; ok {
			fs = append(fs, v)
			continue
		}
		if lf.typ.k == kByteArr {
			any := false
			var el []string
			for i := 0; i < lf.typ.n; i++ {
				k := fmt.Sprintf("a:%s:%s:%d", c.target, lf.path, i)
				if _, ok := c.env[k]; ok {
					any = true
				}
				el = append(el, c.get(k))
			}
			if any {
				fs = append(fs, "["+strings.Join(el, "; ")+"]")
				continue
			}
		}
		fs = append(fs, c.defaultFor(key))
	}
	return "mk" + structName + "\n    " + strings.Join(fs, "\n    ")
}

func (c *cctx) encodeBody() string {
	var el []string
	for i := 0; i < frameLen; i++ {
		el = append(el, c.get(fmt.Sprintf("b:%d", i)))
	}
	return "[ " + strings.Join(el, ";\n    ") + " ]"
}

func (c *cctx) guardText() string {
	if len(c.guards) == 0 {
		return "false"
	}
	s := c.guards[len(c.guards)-1]
	for i := len(c.guards) - 2; i >= 0; i-- {
		s = fmt.Sprintf("(orb %s %s)", c.guards[i], s)
	}
	return s
}

func (t *translator) newCtx() *cctx {
	return &cctx{t: t, recVars: map[string]*recVarInfo{}, locals: map[string]val{}, env: map[string]string{},
		fparams: map[string]gtype{}, used: map[string]bool{}, resolving: map[string]bool{}, bufName: "buf"}
}

func coqTypeOf(g gtype) string {
	switch g.k {
	case kUint, kInt:
		return "N"
	case kBool:
		return "bool"
	case kByteArr, kString, kBytes, kBuf:
		return "list N"
	}
	return "N"
}

func recvName(fd *ast.FuncDecl) (ident string, typ string) {
	if fd.Recv == nil || len(fd.Recv.List) != 1 {
		return "", ""
	}
	f := fd.Recv.List[0]
	if len(f.Names) == 1 {
		ident = f.Names[0].Name
	}
	switch x := f.Type.(type) {
	case *ast.StarExpr:
		if id, ok := x.X.(*ast.Ident); ok {
			typ = id.Name
		}
	case *ast.Ident:
		typ = x.Name
	}
	return
}

// translateMethod handles `func (self *T) Encode(buf []byte) error` / Decode, with or without buf parameter.
func (t *translator) translateMethod(fd *ast.FuncDecl, cf codecFile) codecDef {
	self, typ := recvName(fd)
	kind := strings.ToLower(fd.Name.Name)
	def := codecDef{name: typ + "_" + fd.Name.Name, kind: kind, rec: typ, recVar: self, where: t.where(fd)}
	c := t.newCtx()
	c.recVars[self] = &recVarInfo{self, typ}
	c.bufField = cf.bufField
	if kind == "decode" {
		c.target = self
	}
	def.params = fmt.Sprintf("(%s : %s) (buf : list N)", coqIdent(self), typ)
	def.args = []argInfo{{name: self, kind: "rec", rec: typ}}
	fail := func(err error) codecDef {
		what := def.where + " " + typ + "." + fd.Name.Name + ": " + err.Error()
		if kind == "encode" {
			def.body = t.marker("bytes", what)
		} else {
			var fs []string
			for _, lf := range t.recordFields(typ) {
				if lf.typ.k == kUint {
					fs = append(fs, t.marker("N", what))
				} else {
					fs = append(fs, t.marker("bytes", what))
				}
			}
			def.body = "mk" + typ + " " + strings.Join(fs, " ")
		}
		def.guards = []string{t.marker("bool", what)}
		def.events = []string{"1:" + def.guards[0]}
		return def
	}
	nbuf := 0
	for _, p := range fd.Type.Params.List {
		ty := t.typeOf(p.Type, true)
		for _, nm := range p.Names {
			if ty.k == kBytes && nm.Name == "buf" {
				nbuf++
				continue
			}
			return fail(fmt.Errorf("unexpected parameter %s", nm.Name))
		}
	}
	if nbuf == 0 && cf.bufField == "" {
		return fail(fmt.Errorf("no buffer"))
	}
	_, err := c.stmts(fd.Body.List)
	if err != nil {
		return fail(err)
	}
	if kind == "encode" {
		def.body = c.encodeBody()
	} else {
		def.body = c.decodeBody(typ)
	}
	def.guards = c.guards
	def.events = c.events
	return def
}

// findRegion locates the statement list of a region.
func (t *translator) findRegion(fd *ast.FuncDecl, rt regionTarget) ([]ast.Stmt, error) {
	var found [][]ast.Stmt
	try := func(list []ast.Stmt) {
		first, last := -1, -1
		for i, st := range list {
			as, ok := st.(*ast.AssignStmt)
			if !ok || len(as.Lhs) == 0 {
				continue
			}
			l0 := oneLine(t.text(as.Lhs[0]))
			if l0 == rt.firstLHS && first < 0 {
				first = i
			}
			if l0 == rt.lastLHS && first >= 0 {
				last = i
			}
		}
		if first >= 0 && last >= first {
			found = append(found, list[first:last+1])
		}
	}
	var walk func(n ast.Node, inCase bool)
	walk = func(n ast.Node, inCase bool) {
		ast.Inspect(n, func(nd ast.Node) bool {
			switch b := nd.(type) {
			case *ast.BlockStmt:
				if inCase || rt.caseLabel == "" {
					try(b.List)
				}
			case *ast.CaseClause:
				match := false
				for _, e := range b.List {
					if oneLine(t.text(e)) == rt.caseLabel {
						match = true
					}
				}
				if match && rt.caseLabel != "" {
					try(b.Body)
					for _, st := range b.Body {
						walk(st, true)
					}
					return false
				}
			}
			return true
		})
	}
	walk(fd.Body, false)
	if len(found) != 1 {
		return nil, fmt.Errorf("region %s: expected exactly one match in %s.%s, found %d", rt.name, rt.recv, rt.fn, len(found))
	}
	return found[0], nil
}

func (t *translator) translateRegion(rt regionTarget) codecDef {
	def := codecDef{name: rt.name, kind: rt.kind}
	failB := func(err error) codecDef {
		what := rt.file + " " + rt.recv + "." + rt.fn + " region " + rt.name + ": " + err.Error()
		def.where = rt.file
		if rt.kind == "encode" {
			def.params = "(buf : list N)"
			def.body = t.marker("bytes", what)
		} else {
			rec := rt.recVars[rt.target]
			def.rec = rec
			def.params = fmt.Sprintf("(%s : %s) (buf : list N)", coqIdent(rt.target), rec)
			def.args = []argInfo{{name: rt.target, kind: "rec", rec: rec}}
			var fs []string
			for _, lf := range t.recordFields(rec) {
				if lf.typ.k == kUint {
					fs = append(fs, t.marker("N", what))
				} else {
					fs = append(fs, t.marker("bytes", what))
				}
			}
			def.body = "mk" + rec + " " + strings.Join(fs, " ")
		}
		return def
	}
	s, err := t.load(rt.file)
	if err != nil {
		return failB(err)
	}
	var fd *ast.FuncDecl
	for _, d := range s.file.Decls {
		f, ok := d.(*ast.FuncDecl)
		if !ok || f.Name.Name != rt.fn || f.Body == nil {
			continue
		}
		_, ty := recvName(f)
		if ty == rt.recv {
			fd = f
		}
	}
	if fd == nil {
		return failB(fmt.Errorf("function not found"))
	}
	def.where = t.where(fd)
	list, err := t.findRegion(fd, rt)
	if err != nil {
		return failB(err)
	}
	def.where = t.where(list[0])
	c := t.newCtx()
	c.fn = fd
	for k, v := range rt.recVars {
		c.recVars[k] = &recVarInfo{k, v}
	}
	var order []string
	for _, p := range fd.Type.Params.List {
		ty := t.typeOf(p.Type, true)
		for _, nm := range p.Names {
			if nm.Name == c.bufName {
				continue
			}
			if ty.k == kRec {
				c.recVars[nm.Name] = &recVarInfo{nm.Name, ty.rec}
				order = append(order, nm.Name)
				continue
			}
			if ty.k == kUint || ty.k == kInt || ty.k == kBytes || ty.k == kBool || ty.k == kString {
				c.fparams[nm.Name] = ty
				order = append(order, nm.Name)
			}
		}
	}
	if rt.kind == "decode" {
		c.target = rt.target
		def.rec = rt.recVars[rt.target]
	}
	if _, err := c.stmts(list); err != nil {
		return failB(err)
	}
	// binders: record variables that are not parameters first (decode target), then used parameters in order
	var binders, wf []string
	if rt.kind == "decode" {
		binders = append(binders, fmt.Sprintf("(%s : %s)", coqIdent(rt.target), def.rec))
		def.args = append(def.args, argInfo{name: rt.target, kind: "rec", rec: def.rec})
	}
	for _, nm := range order {
		if rv, ok := c.recVars[nm]; ok {
			binders = append(binders, fmt.Sprintf("(%s : %s)", coqIdent(nm), rv.structName))
			def.args = append(def.args, argInfo{name: nm, kind: "rec", rec: rv.structName})
			wf = append(wf, fmt.Sprintf("%s_wf %s", rv.structName, coqIdent(nm)))
			continue
		}
		ty := c.fparams[nm]
		if c.used[nm] {
			binders = append(binders, fmt.Sprintf("(%s : %s)", coqIdent(nm), coqTypeOf(ty)))
			if ty.k == kBool {
				def.args = append(def.args, argInfo{name: nm, kind: "bool"})
			} else {
				def.args = append(def.args, argInfo{name: nm, kind: "N", bits: ty.bits})
			}
			if ty.k == kUint {
				wf = append(wf, fmt.Sprintf("%s < %s", coqIdent(nm), pow2(ty.bits)))
			}
		}
		if c.used[nm+"_is_nil"] {
			binders = append(binders, fmt.Sprintf("(%s_is_nil : bool)", coqIdent(nm)))
			def.args = append(def.args, argInfo{name: nm + "_is_nil", kind: "bool"})
		}
	}
	binders = append(binders, "(buf : list N)")
	def.params = strings.Join(binders, " ")
	if rt.kind == "encode" {
		def.body = c.encodeBody()
		var wfb []string
		for _, b := range binders[:len(binders)-1] {
			if !strings.HasSuffix(b, ": bool)") {
				wfb = append(wfb, b)
			}
		}
		if len(wf) > 0 {
			def.argsWf = fmt.Sprintf("Definition %s_args_wf %s : Prop :=\n  %s.\n", rt.name, strings.Join(wfb, " "), strings.Join(wf, " /\\ "))
		}
	} else {
		def.body = c.decodeBody(def.rec)
	}
	def.guards = c.guards
	def.events = c.events
	return def
}

func (t *translator) collectCodecs() []codecDef {
	var defs []codecDef
	for _, cf := range codecMethodFiles {
		s, err := t.load(cf.file)
		if err != nil {
			t.warn = append(t.warn, "UNSUPPORTED cannot load "+cf.file)
			t.nmarker++
			continue
		}
		for _, d := range s.file.Decls {
			fd, ok := d.(*ast.FuncDecl)
			if !ok || fd.Body == nil || (fd.Name.Name != "Encode" && fd.Name.Name != "Decode") {
				continue
			}
			_, typ := recvName(fd)
			if typ == "" || t.structs[typ] == nil {
				continue
			}
			if cf.recvs != nil {
				in := false
				for _, r := range cf.recvs {
					if r == typ {
						in = true
					}
				}
				if !in {
					continue
				}
			}
			t.structs[typ].used = true
			defs = append(defs, t.translateMethod(fd, cf))
		}
	}
	for _, rt := range regionTargets {
		for _, sname := range rt.recVars {
			if si := t.structs[sname]; si != nil {
				si.used = true
			}
		}
		defs = append(defs, t.translateRegion(rt))
	}
	return defs
}

func (t *translator) genCodecs() (string, string, string, error) {
	// pass 1: discover which fields are touched (record field sets); pass 2: emit.
	saveWarn, saveN := t.warn, t.nmarker
	t.collectCodecs()
	t.warn, t.nmarker = saveWarn, saveN
	defs := t.collectCodecs()

	var b strings.Builder
	b.WriteString("(* GENERATED by gen/go2coq from the slock source tree - do not edit.\n")
	b.WriteString("   Shallow, purely syntactic transcription of the fixed-layout codecs.\n")
	b.WriteString("   T_Encode self buf = the first 64 bytes of buf after `self.Encode(buf)` (positions the code does not\n")
	b.WriteString("   write keep `nth i buf 0`); T_Decode self buf = *self after `self.Decode(buf)` (fields the code does not\n")
	b.WriteString("   assign keep their old value); T_X_err = the code returns a non-nil error (then nothing else is claimed).\n")
	b.WriteString("   uintK(e) is (e mod 2^K); << + * on uintK are followed by mod 2^K; Go int (lengths) is unbounded N. *)\n")
	b.WriteString("From Coq Require Import String.\nFrom Coq Require Import NArith List.\nFrom Slock Require Import Gen.GenPrelude Gen.GenConsts.\nImport ListNotations.\nLocal Open Scope N_scope.\n\n")

	// records, in struct declaration order of first use
	var names []string
	for n, si := range t.structs {
		if si.used {
			names = append(names, n)
		}
	}
	sort.Slice(names, func(i, j int) bool {
		a, bb := t.structs[names[i]], t.structs[names[j]]
		if a.file != bb.file {
			return a.file < bb.file
		}
		return a.line < bb.line
	})
	hints := map[string][]string{}
	for _, n := range names {
		si := t.structs[n]
		fs := t.recordFields(n)
		fmt.Fprintf(&b, "(* %s:%d  type %s struct *)\n", si.file, si.line, n)
		if len(fs) == 0 {
			fmt.Fprintf(&b, "Record %s := mk%s { }.\n\n", n, n)
			continue
		}
		fmt.Fprintf(&b, "Record %s := mk%s {\n", n, n)
		for i, lf := range fs {
			sep := ";"
			if i == len(fs)-1 {
				sep = ""
			}
			fmt.Fprintf(&b, "  %s : %s%s (* %s *)\n", projName(n, lf.path), coqTypeOf(lf.typ), sep, lf.typ)
			hints["gencodec_proj"] = append(hints["gencodec_proj"], projName(n, lf.path))
		}
		b.WriteString("}.\n")
		// type invariant of the Go struct
		var wf []string
		for _, lf := range fs {
			p := fmt.Sprintf("%s m", projName(n, lf.path))
			switch lf.typ.k {
			case kUint:
				wf = append(wf, fmt.Sprintf("%s < %s", p, pow2(lf.typ.bits)))
			case kByteArr:
				wf = append(wf, fmt.Sprintf("List.length (%s) = %d%%nat", p, lf.typ.n))
				wf = append(wf, fmt.Sprintf("Forall (fun x => x < 256) (%s)", p))
			case kString, kBytes:
				wf = append(wf, fmt.Sprintf("Forall (fun x => x < 256) (%s)", p))
			}
		}
		hints["gencodec_wf"] = append(hints["gencodec_wf"], n+"_wf")
		fmt.Fprintf(&b, "(* the value range of the Go field types *)\nDefinition %s_wf (m : %s) : Prop :=\n  %s.\n", n, n, strings.Join(wf, " /\\\n  "))
		// extensionality
		fmt.Fprintf(&b, "Lemma %s_ext : forall a b : %s,\n", n, n)
		for _, lf := range fs {
			fmt.Fprintf(&b, "  %s a = %s b ->\n", projName(n, lf.path), projName(n, lf.path))
		}
		b.WriteString("  a = b.\nProof. intros [] []; simpl; intros; subst; reflexivity. Qed.\n\n")
	}

	for _, d := range defs {
		fmt.Fprintf(&b, "(* %s *)\n", d.where)
		ret := "list N"
		if d.kind == "decode" {
			ret = d.rec
		}
		g := "false"
		if len(d.guards) > 0 {
			g = d.guards[len(d.guards)-1]
			for i := len(d.guards) - 2; i >= 0; i-- {
				g = fmt.Sprintf("(orb %s %s)", d.guards[i], g)
			}
		}
		fmt.Fprintf(&b, "Definition %s_err %s : bool :=\n  %s.\n", d.name, d.params, g)
		oc := "0"
		for i := len(d.events) - 1; i >= 0; i-- {
			oc = fmt.Sprintf("(if %s then %s else %s)", d.events[i][2:], d.events[i][:1], oc)
		}
		fmt.Fprintf(&b, "(* 0 = returns nil, 1 = returns an error, 2 = panics (slice bounds), in statement order *)\nDefinition %s_outcome %s : N :=\n  %s.\n", d.name, d.params, oc)
		fmt.Fprintf(&b, "Definition %s %s : %s :=\n  %s.\n", d.name, d.params, ret, d.body)
		if d.argsWf != "" {
			b.WriteString(d.argsWf)
			hints["gencodec_wf"] = append(hints["gencodec_wf"], d.name+"_args_wf")
		}
		b.WriteString("\n")
		if d.kind == "encode" {
			hints["gencodec_enc"] = append(hints["gencodec_enc"], d.name)
		} else {
			hints["gencodec_dec"] = append(hints["gencodec_dec"], d.name)
		}
		hints["gencodec_err"] = append(hints["gencodec_err"], d.name+"_err", d.name+"_outcome")
	}
	b.WriteString("(* unfolding databases used by the proof tactics (coq/Codec/CodecTactics.v) *)\n")
	for _, db := range []string{"gencodec_proj", "gencodec_wf", "gencodec_enc", "gencodec_dec", "gencodec_err"} {
		fmt.Fprintf(&b, "Create HintDb %s.\n", db)
		hs := hints[db]
		for i := 0; i < len(hs); i += 8 {
			j := i + 8
			if j > len(hs) {
				j = len(hs)
			}
			fmt.Fprintf(&b, "#[export] Hint Unfold %s : %s.\n", strings.Join(hs[i:j], " "), db)
		}
	}
	run, js := t.genCodecRun(names, defs)
	return b.String(), run, js, nil
}
