// clientparams — regenerates coq/Gen/GenClient.v from /repo/client/*.go (and protocol/command.go constants).
//
// It extracts, purely syntactically (go/parser + go/ast, stdlib only), the (Count, Rcount, timeout word, LockId
// policy) that each packaged client primitive sends: the positional/keyed fields of the `Lock{...}` composite
// literals inside the primitives' constructors and methods, with `self.<field>` replaced by what the primitive's
// constructor stores in that field (including `if count > 0 { count = count - 1 }` normalisations).
// Anything outside the supported expression subset is emitted as `gen_unsupported "<text>"`, an empty-typed
// marker, so every theorem that mentions the definition stops checking.
//
// Output goes to stdout (checks/C19.py writes it to coq/Gen/GenClient.v when it changed).
package main

import (
	"bytes"
	"flag"
	"fmt"
	"go/ast"
	"go/parser"
	"go/printer"
	"go/token"
	"os"
	"path/filepath"
	"sort"
	"strconv"
	"strings"
)

var fset = token.NewFileSet()

type pkg struct {
	files   map[string]*ast.File
	structs map[string][]string // type name -> field names in order
	funcs   map[string]*ast.FuncDecl
	consts  map[string]string // const name -> decimal
}

func src(n ast.Node) string {
	var b bytes.Buffer
	_ = printer.Fprint(&b, fset, n)
	return strings.Join(strings.Fields(b.String()), " ")
}

func load(dir string) (*pkg, error) {
	p := &pkg{map[string]*ast.File{}, map[string][]string{}, map[string]*ast.FuncDecl{}, map[string]string{}}
	ms, _ := filepath.Glob(filepath.Join(dir, "*.go"))
	sort.Strings(ms)
	for _, m := range ms {
		if strings.HasSuffix(m, "_test.go") {
			continue
		}
		f, err := parser.ParseFile(fset, m, nil, 0)
		if err != nil {
			return nil, err
		}
		p.files[filepath.Base(m)] = f
		for _, d := range f.Decls {
			switch d := d.(type) {
			case *ast.FuncDecl:
				name := d.Name.Name
				if d.Recv != nil && len(d.Recv.List) == 1 {
					t := d.Recv.List[0].Type
					if s, ok := t.(*ast.StarExpr); ok {
						t = s.X
					}
					if id, ok := t.(*ast.Ident); ok {
						name = id.Name + "." + name
					}
				}
				p.funcs[name] = d
			case *ast.GenDecl:
				if d.Tok == token.TYPE {
					for _, s := range d.Specs {
						ts := s.(*ast.TypeSpec)
						if st, ok := ts.Type.(*ast.StructType); ok {
							var fs []string
							for _, fl := range st.Fields.List {
								for _, n := range fl.Names {
									fs = append(fs, n.Name)
								}
							}
							p.structs[ts.Name.Name] = fs
						}
					}
				}
				if d.Tok == token.CONST {
					iota := 0
					for _, s := range d.Specs {
						vs := s.(*ast.ValueSpec)
						for i, n := range vs.Names {
							if i < len(vs.Values) {
								if bl, ok := vs.Values[i].(*ast.BasicLit); ok && bl.Kind == token.INT {
									if v, err := strconv.ParseUint(bl.Value, 0, 64); err == nil {
										p.consts[n.Name] = strconv.FormatUint(v, 10)
									}
								} else if id, ok := vs.Values[i].(*ast.Ident); ok && id.Name == "iota" {
									p.consts[n.Name] = strconv.Itoa(iota)
								}
							} else if len(vs.Values) == 0 && iota > 0 {
								// implicit repetition of `= iota`
								p.consts[n.Name] = strconv.Itoa(iota)
							}
						}
						iota++
					}
				}
			}
		}
	}
	return p, nil
}

// ---------------------------------------------------------------- expressions

type tr struct {
	client, proto *pkg
	subst         map[string]string // "self.f" or local/param name -> Gallina term
	params        []string          // free parameters seen (Gallina variable names), in order
	bad           []string
}

func (t *tr) unsupported(n ast.Node) string {
	s := src(n)
	t.bad = append(t.bad, s)
	return fmt.Sprintf("(gen_unsupported %s)", cq(s))
}

func (t *tr) param(name string) string {
	for _, p := range t.params {
		if p == name {
			return name
		}
	}
	t.params = append(t.params, name)
	return name
}

var widths = map[string]string{"uint8": "256", "uint16": "65536", "uint32": "4294967296", "uint64": "18446744073709551616"}

func (t *tr) expr(e ast.Expr) string {
	switch e := e.(type) {
	case *ast.ParenExpr:
		return t.expr(e.X)
	case *ast.BasicLit:
		if e.Kind == token.INT {
			if v, err := strconv.ParseUint(e.Value, 0, 64); err == nil {
				return strconv.FormatUint(v, 10)
			}
		}
	case *ast.Ident:
		if s, ok := t.subst[e.Name]; ok {
			return s
		}
		if v, ok := t.client.consts[e.Name]; ok {
			return v
		}
	case *ast.SelectorExpr:
		if x, ok := e.X.(*ast.Ident); ok {
			if x.Name == "self" {
				if s, ok := t.subst["self."+e.Sel.Name]; ok {
					return s
				}
			}
			if x.Name == "protocol" {
				if v, ok := t.proto.consts[e.Sel.Name]; ok {
					return v
				}
			}
		}
	case *ast.BinaryExpr:
		a, b := t.expr(e.X), t.expr(e.Y)
		switch e.Op {
		case token.OR:
			return fmt.Sprintf("(N.lor %s %s)", a, b)
		case token.AND:
			return fmt.Sprintf("(N.land %s %s)", a, b)
		case token.SHL:
			return fmt.Sprintf("(N.shiftl %s %s)", a, b)
		case token.SHR:
			return fmt.Sprintf("(N.shiftr %s %s)", a, b)
		case token.SUB:
			return fmt.Sprintf("(%s - %s)", a, b)
		case token.ADD:
			return fmt.Sprintf("(%s + %s)", a, b)
		}
	case *ast.CallExpr:
		if id, ok := e.Fun.(*ast.Ident); ok && len(e.Args) == 1 {
			if w, ok := widths[id.Name]; ok {
				return fmt.Sprintf("(%s mod %s)", t.expr(e.Args[0]), w)
			}
		}
	}
	return t.unsupported(e)
}

// lock id policy of a Lock literal's lockId field
func (t *tr) idPolicy(e ast.Expr, keyExpr ast.Expr, cached bool) string {
	switch e := e.(type) {
	case *ast.CallExpr:
		if s, ok := e.Fun.(*ast.SelectorExpr); ok && s.Sel.Name == "GenLockId" {
			if cached {
				return "FreshPerObject"
			}
			return "FreshPerCall"
		}
	case *ast.CompositeLit:
		if len(e.Elts) == 0 && src(e.Type) == "[16]byte" {
			return "ZeroId"
		}
	}
	if keyExpr != nil && src(e) == src(keyExpr) {
		return "KeyAsId"
	}
	return t.unsupported(e)
}

// ---------------------------------------------------------------- constructors

// analyse `func NewX(params) *X { [if p > 0 { p = p - 1 | p -= 1 }]* return &X{...} }` -> field substitution
func ctorSubst(c, proto *pkg, fn string, typ string, bad *[]string) map[string]string {
	sub := map[string]string{}
	fd := c.funcs[fn]
	if fd == nil {
		*bad = append(*bad, "missing constructor "+fn)
		return sub
	}
	cur := map[string]string{}
	t := &tr{client: c, proto: proto, subst: cur}
	for _, fl := range fd.Type.Params.List {
		for _, n := range fl.Names {
			cur[n.Name] = n.Name
		}
	}
	for _, st := range fd.Body.List {
		switch st := st.(type) {
		case *ast.IfStmt:
			ok := false
			if be, isb := st.Cond.(*ast.BinaryExpr); isb && be.Op == token.GTR && st.Else == nil && st.Init == nil && len(st.Body.List) == 1 {
				if id, isid := be.X.(*ast.Ident); isid {
					if lit, isl := be.Y.(*ast.BasicLit); isl && lit.Value == "0" {
						if as, isa := st.Body.List[0].(*ast.AssignStmt); isa && len(as.Lhs) == 1 && len(as.Rhs) == 1 {
							if l, isl2 := as.Lhs[0].(*ast.Ident); isl2 && l.Name == id.Name {
								old := cur[id.Name]
								var nv string
								switch as.Tok {
								case token.ASSIGN:
									nv = t.expr(as.Rhs[0])
								case token.SUB_ASSIGN:
									nv = fmt.Sprintf("(%s - %s)", old, t.expr(as.Rhs[0]))
								}
								if nv != "" {
									cur[id.Name] = fmt.Sprintf("(if 0 <? %s then %s else %s)", old, nv, old)
									ok = true
								}
							}
						}
					}
				}
			}
			if !ok {
				*bad = append(*bad, fn+": "+src(st))
			}
		case *ast.ReturnStmt:
			if len(st.Results) == 1 {
				if lit := findLit(st.Results[0], typ); lit != nil {
					fields := c.structs[typ]
					for i, el := range lit.Elts {
						name, val := "", el
						if kv, ok := el.(*ast.KeyValueExpr); ok {
							name, val = src(kv.Key), kv.Value
						} else if i < len(fields) {
							name = fields[i]
						}
						switch v := val.(type) {
						case *ast.BasicLit, *ast.Ident, *ast.BinaryExpr, *ast.ParenExpr:
							if id, isid := v.(*ast.Ident); isid && (id.Name == "nil" || id.Name == "db") {
								continue
							}
							tt := &tr{client: c, proto: proto, subst: cur}
							sub["self."+name] = tt.expr(val)
							*bad = append(*bad, tt.bad...)
						}
					}
					continue
				}
			}
			*bad = append(*bad, fn+": "+src(st))
		case *ast.AssignStmt:
			// `lock := &Lock{...}` inside a constructor (NewRLock) is handled by the literal search
		default:
			*bad = append(*bad, fn+": "+src(st))
		}
	}
	*bad = append(*bad, t.bad...)
	return sub
}

func findLit(n ast.Node, typ string) *ast.CompositeLit {
	var res *ast.CompositeLit
	ast.Inspect(n, func(x ast.Node) bool {
		if res != nil {
			return false
		}
		if cl, ok := x.(*ast.CompositeLit); ok {
			if id, ok := cl.Type.(*ast.Ident); ok && id.Name == typ {
				res = cl
				return false
			}
		}
		return true
	})
	return res
}

type litInfo struct {
	lit    *ast.CompositeLit
	cached bool // assigned under `if self.<f> == nil`
}

func lockLits(fd *ast.FuncDecl) []litInfo {
	var res []litInfo
	var walk func(n ast.Node, cached bool)
	walk = func(n ast.Node, cached bool) {
		ast.Inspect(n, func(x ast.Node) bool {
			switch x := x.(type) {
			case *ast.IfStmt:
				c := cached
				if be, ok := x.Cond.(*ast.BinaryExpr); ok && be.Op == token.EQL && src(be.Y) == "nil" && strings.HasPrefix(src(be.X), "self.") {
					c = true
				}
				if x.Init != nil {
					walk(x.Init, cached)
				}
				walk(x.Body, c)
				if x.Else != nil {
					walk(x.Else, cached)
				}
				return false
			case *ast.CompositeLit:
				if id, ok := x.Type.(*ast.Ident); ok && id.Name == "Lock" {
					res = append(res, litInfo{x, cached})
					return false
				}
			}
			return true
		})
	}
	walk(fd.Body, false)
	return res
}

func callsMethod(fd *ast.FuncDecl, name string) bool {
	found := false
	ast.Inspect(fd.Body, func(x ast.Node) bool {
		if ce, ok := x.(*ast.CallExpr); ok {
			if s, ok := ce.Fun.(*ast.SelectorExpr); ok && s.Sel.Name == name {
				found = true
			}
		}
		return true
	})
	return found
}

// waitedClears: the assignments `X.waited = false` of a function body; guarded = every one of them is a statement of the
// THEN block of an `if Y.GetWaitLock() == nil` (vacuously true when there is none: a flag that is never cleared here cannot
// hide a waiter).
func waitedClears(fd *ast.FuncDecl) (int, bool) {
	n, guarded := 0, true
	isClear := func(st ast.Stmt) bool {
		as, ok := st.(*ast.AssignStmt)
		if !ok || len(as.Lhs) != 1 || len(as.Rhs) != 1 {
			return false
		}
		se, ok := as.Lhs[0].(*ast.SelectorExpr)
		if !ok || se.Sel.Name != "waited" {
			return false
		}
		id, ok := as.Rhs[0].(*ast.Ident)
		return ok && id.Name == "false"
	}
	emptyQueueTest := func(e ast.Expr) bool {
		be, ok := e.(*ast.BinaryExpr)
		if !ok || be.Op != token.EQL {
			return false
		}
		ce, ok := be.X.(*ast.CallExpr)
		if !ok || len(ce.Args) != 0 {
			return false
		}
		se, ok := ce.Fun.(*ast.SelectorExpr)
		if !ok || se.Sel.Name != "GetWaitLock" {
			return false
		}
		id, ok := be.Y.(*ast.Ident)
		return ok && id.Name == "nil"
	}
	okClears := map[ast.Stmt]bool{}
	ast.Inspect(fd.Body, func(x ast.Node) bool {
		if is, ok := x.(*ast.IfStmt); ok && is.Init == nil && emptyQueueTest(is.Cond) {
			for _, st := range is.Body.List {
				if isClear(st) {
					okClears[st] = true
				}
			}
		}
		return true
	})
	ast.Inspect(fd.Body, func(x ast.Node) bool {
		if st, ok := x.(ast.Stmt); ok && isClear(st) {
			n++
			if !okClears[st] {
				guarded = false
			}
		}
		return true
	})
	return n, guarded
}

// ---------------------------------------------------------------- emission

type out struct {
	b   bytes.Buffer
	bad []string
}

func (o *out) def(name string, t *tr, body string) {
	if len(t.bad) > 0 || strings.Contains(body, "gen_unsupported") {
		why := append([]string{}, t.bad...)
		if len(why) == 0 {
			why = append(why, body)
		}
		fmt.Fprintf(&o.b, "Definition %s := gen_unsupported %s.\n", name, cq(strings.Join(why, "; ")))
		o.bad = append(o.bad, why...)
		return
	}
	args := ""
	for _, p := range t.params {
		args += fmt.Sprintf(" (%s : N)", p)
	}
	fmt.Fprintf(&o.b, "Definition %s%s : N := %s.\n", name, args, body)
	o.bad = append(o.bad, t.bad...)
}

func main() {
	repo := flag.String("repo", "/repo", "slock tree")
	flag.Parse()
	c, err := load(filepath.Join(*repo, "client"))
	if err != nil {
		fmt.Fprintln(os.Stderr, err)
		os.Exit(1)
	}
	proto, err := load(filepath.Join(*repo, "protocol"))
	if err != nil {
		fmt.Fprintln(os.Stderr, err)
		os.Exit(1)
	}
	o := &out{}
	w := &o.b
	fmt.Fprintln(w, "(* GENERATED by /verif/gen/clientparams from client/*.go and protocol/command.go — do not edit. *)")
	fmt.Fprintln(w, "From Coq Require Import NArith String.")
	fmt.Fprintln(w, "Local Open Scope N_scope.")
	fmt.Fprintln(w, "")
	fmt.Fprintln(w, "(* marker for source text outside the supported subset: an empty type, so nothing that mentions it type-checks as N *)")
	fmt.Fprintln(w, "Inductive gen_unsupported_t : Set := .")
	fmt.Fprintln(w, "Definition gen_unsupported (s : string) : gen_unsupported_t -> N := fun x => match x with end.")
	fmt.Fprintln(w, "")
	fmt.Fprintln(w, "Inductive lockid_policy : Set := FreshPerCall | FreshPerObject | ZeroId | KeyAsId.")
	fmt.Fprintln(w, "")
	lockFields := c.structs["Lock"]
	idx := func(name string) int {
		for i, f := range lockFields {
			if f == name {
				return i
			}
		}
		return -1
	}
	fmt.Fprintf(w, "(* client.Lock fields, in declaration order: %s *)\n", strings.Join(lockFields, ", "))
	iID, iKey, iTo, iEx, iCnt, iRc := idx("lockId"), idx("lockKey"), idx("timeout"), idx("expried"), idx("count"), idx("rcount")
	if iID < 0 || iKey < 0 || iTo < 0 || iEx < 0 || iCnt < 0 || iRc < 0 || len(lockFields) != 7 {
		o.bad = append(o.bad, "client.Lock struct layout changed: "+strings.Join(lockFields, ","))
	}
	field := func(li litInfo, i int) ast.Expr {
		if i < 0 {
			return nil
		}
		for j, el := range li.lit.Elts {
			if kv, ok := el.(*ast.KeyValueExpr); ok {
				if i < len(lockFields) && src(kv.Key) == lockFields[i] {
					return kv.Value
				}
			} else if j == i {
				return el
			}
		}
		return nil
	}
	// emit one primitive operation: literal k of function fn, self.* resolved through constructor substitution `sub`
	emit := func(prefix, fn string, k int, sub map[string]string, what []string) {
		fd := c.funcs[fn]
		if fd == nil {
			o.bad = append(o.bad, "missing function "+fn)
			fmt.Fprintf(w, "Definition %s_count := gen_unsupported \"missing %s\".\n", prefix, fn)
			return
		}
		lits := lockLits(fd)
		if k >= len(lits) {
			o.bad = append(o.bad, fmt.Sprintf("%s: Lock literal #%d not found", fn, k))
			fmt.Fprintf(w, "Definition %s_count := gen_unsupported \"%s has no Lock literal %d\".\n", prefix, fn, k)
			return
		}
		li := lits[k]
		fmt.Fprintf(w, "(* %s: %s *)\n", fn, src(li.lit))
		// parameters of the enclosing function are free variables too
		base := map[string]string{}
		for kx, v := range sub {
			base[kx] = v
		}
		for _, fl := range fd.Type.Params.List {
			for _, n := range fl.Names {
				base[n.Name] = n.Name
			}
		}
		for _, wh := range what {
			var e ast.Expr
			switch wh {
			case "count":
				e = field(li, iCnt)
			case "rcount":
				e = field(li, iRc)
			case "timeout":
				e = field(li, iTo)
			case "expried":
				e = field(li, iEx)
			case "lockid":
				t := &tr{client: c, proto: proto, subst: base}
				pol := t.idPolicy(field(li, iID), field(li, iKey), li.cached || strings.HasPrefix(fn, "New"))
				o.bad = append(o.bad, t.bad...)
				if len(t.bad) > 0 {
					fmt.Fprintf(w, "Definition %s_lockid := %s.\n", prefix, pol)
				} else {
					fmt.Fprintf(w, "Definition %s_lockid : lockid_policy := %s.\n", prefix, pol)
				}
				continue
			}
			t := &tr{client: c, proto: proto, subst: base}
			if e == nil {
				o.bad = append(o.bad, fn+": field "+wh+" missing")
				fmt.Fprintf(w, "Definition %s_%s := gen_unsupported \"%s field %s\".\n", prefix, wh, fn, wh)
				continue
			}
			body := t.expr(e)
			// free parameters: identifiers of constructor/function parameters that occur in the body
			for _, cand := range []string{"count", "priority", "timeout", "expried", "rcount"} {
				if containsIdent(body, cand) {
					t.param(cand)
				}
			}
			o.def(prefix+"_"+wh, t, body)
		}
	}
	var bad []string
	// Lock
	fmt.Fprintln(w, "\n(* ---- Lock (client/lock.go NewLock) *)")
	emit("lock", "NewLock", 0, map[string]string{}, []string{"count", "rcount", "lockid"})
	// RLock
	fmt.Fprintln(w, "\n(* ---- RLock (client/rlock.go NewRLock) *)")
	emit("rlock", "NewRLock", 0, map[string]string{}, []string{"count", "rcount", "lockid"})
	// Semaphore
	fmt.Fprintln(w, "\n(* ---- Semaphore (client/semaphore.go) *)")
	sem := ctorSubst(c, proto, "NewSemaphore", "Semaphore", &bad)
	emit("semaphore", "Semaphore.Acquire", 0, sem, []string{"count", "rcount", "lockid"})
	emit("semaphore_release", "Semaphore.Release", 0, sem, []string{"lockid"})
	fmt.Fprintf(w, "Definition semaphore_release_unlocks_head : bool := %v.\n", c.funcs["Semaphore.Release"] != nil && callsMethod(c.funcs["Semaphore.Release"], "UnlockHead"))
	// UnlockHead flag
	if fd := c.funcs["Lock.UnlockHead"]; fd != nil {
		var flagE ast.Expr
		ast.Inspect(fd.Body, func(x ast.Node) bool {
			if ce, ok := x.(*ast.CallExpr); ok && flagE == nil {
				if s, ok := ce.Fun.(*ast.SelectorExpr); ok && s.Sel.Name == "doUnlock" && len(ce.Args) > 0 {
					flagE = ce.Args[0]
				}
			}
			return true
		})
		t := &tr{client: c, proto: proto, subst: map[string]string{}}
		if flagE != nil {
			o.def("unlockhead_flag", t, t.expr(flagE))
		}
	}
	// Flow
	fmt.Fprintln(w, "\n(* ---- MaxConcurrentFlow (client/flow.go) *)")
	flow := ctorSubst(c, proto, "NewMaxConcurrentFlow", "MaxConcurrentFlow", &bad)
	emit("flow", "MaxConcurrentFlow.Acquire", 0, flow, []string{"count", "rcount", "lockid"})
	// RWLock
	fmt.Fprintln(w, "\n(* ---- RWLock (client/rwlock.go) *)")
	rw := ctorSubst(c, proto, "NewRWLock", "RWLock", &bad)
	emit("rwlock_reader", "RWLock.RLock", 0, rw, []string{"count", "rcount", "lockid"})
	emit("rwlock_writer", "RWLock.Lock", 0, rw, []string{"count", "rcount", "lockid"})
	// PriorityLock
	fmt.Fprintln(w, "\n(* ---- PriorityLock (client/prioritylock.go) *)")
	pr := ctorSubst(c, proto, "NewPriorityLock", "PriorityLock", &bad)
	emit("prioritylock", "PriorityLock.Lock", 0, pr, []string{"count", "rcount", "timeout", "lockid"})
	// Event
	fmt.Fprintln(w, "\n(* ---- Event (client/event.go): literal 0 of each method = default-set mode, literal 1 = default-clear mode *)")
	evs := ctorSubst(c, proto, "NewDefaultSetEvent", "Event", &bad)
	evc := ctorSubst(c, proto, "NewDefaultClearEvent", "Event", &bad)
	emit("event_setmode_eventlock", "Event.Clear", 0, evs, []string{"count", "rcount", "lockid"})
	emit("event_clearmode_eventlock", "Event.Clear", 1, evc, []string{"count", "rcount", "lockid"})
	emit("event_setmode_wait", "Event.Wait", 0, evs, []string{"count", "rcount", "timeout", "expried", "lockid"})
	emit("event_clearmode_wait", "Event.Wait", 1, evc, []string{"count", "rcount", "timeout", "expried", "lockid"})
	fmt.Fprintf(w, "Definition event_setmode_value : N := %s.\nDefinition event_clearmode_value : N := %s.\n",
		orU(c.consts["EVENT_MODE_DEFAULT_SET"]), orU(c.consts["EVENT_MODE_DEFAULT_CLEAR"]))
	// protocol constants used by the statements
	fmt.Fprintln(w, "\n(* ---- protocol constants (protocol/command.go) *)")
	for _, cn := range []string{"TIMEOUT_FLAG_RCOUNT_IS_PRIORITY", "TIMEOUT_FLAG_LOCK_WAIT_WHEN_UNLOCK", "UNLOCK_FLAG_UNLOCK_FIRST_LOCK_WHEN_UNLOCKED",
		"LOCK_FLAG_UPDATE_WHEN_LOCKED", "RESULT_SUCCED", "RESULT_LOCKED_ERROR", "RESULT_UNLOCK_ERROR", "RESULT_UNOWN_ERROR", "RESULT_TIMEOUT"} {
		if proto.consts[cn] == "" {
			fmt.Fprintf(w, "Definition %s := gen_unsupported \"constant not found\".\n", strings.ToLower(cn))
			o.bad = append(o.bad, "protocol constant "+cn+" not found")
		} else {
			fmt.Fprintf(w, "Definition %s : N := %s.\n", strings.ToLower(cn), proto.consts[cn])
		}
	}
	// ---- two model switches read off server/db.go (syntactic): does the wake-up pass look at the wait-when-unlock flag,
	// does LockDB.Lock consult the wait queue before accepting a newcomer on a free key
	fmt.Fprintln(w, "\n(* ---- engine switches (server/db.go), derived syntactically *)")
	srv, serr := load(filepath.Join(*repo, "server"))
	if serr != nil || srv.funcs["LockDB.wakeUpWaitLocks"] == nil || srv.funcs["LockDB.Lock"] == nil {
		o.bad = append(o.bad, "server/db.go: LockDB.wakeUpWaitLocks / LockDB.Lock not found")
		fmt.Fprintln(w, "Definition wake_pass_rechecks_wait_when_unlock := gen_unsupported \"LockDB.wakeUpWaitLocks not found\".")
		fmt.Fprintln(w, "Definition lock_newcomer_checks_wait_queue := gen_unsupported \"LockDB.Lock not found\".")
	} else {
		mentions := func(fd *ast.FuncDecl, sel string) bool {
			found := false
			ast.Inspect(fd.Body, func(x ast.Node) bool {
				if se, ok := x.(*ast.SelectorExpr); ok && se.Sel.Name == sel {
					found = true
				}
				return true
			})
			return found
		}
		fmt.Fprintf(w, "(* LockDB.wakeUpWaitLocks mentions TIMEOUT_FLAG_LOCK_WAIT_WHEN_UNLOCK *)\nDefinition wake_pass_rechecks_wait_when_unlock : bool := %v.\n",
			mentions(srv.funcs["LockDB.wakeUpWaitLocks"], "TIMEOUT_FLAG_LOCK_WAIT_WHEN_UNLOCK"))
		fmt.Fprintf(w, "(* LockDB.Lock calls GetWaitLock (looks at the queue head before accepting a newcomer) *)\nDefinition lock_newcomer_checks_wait_queue : bool := %v.\n",
			mentions(srv.funcs["LockDB.Lock"], "GetWaitLock"))
		// ---- the waiter branches of doTimeOut / cancelWaitLock (a queued request leaves the queue without being served):
		// the key's `waited` flag may be cleared only when GetWaitLock() finds no live waiter, and a wake-up pass follows
		for _, fn := range []struct{ name, coq, what string }{
			{"LockDB.doTimeOut", "timeout", "LockDB.doTimeOut"}, {"LockDB.cancelWaitLock", "cancel", "LockDB.cancelWaitLock"}} {
			fd := srv.funcs[fn.name]
			if fd == nil {
				o.bad = append(o.bad, "server/db.go: "+fn.name+" not found")
				fmt.Fprintf(w, "Definition %s_clears_waited_only_on_empty_queue := gen_unsupported \"%s not found\".\n", fn.coq, fn.name)
				fmt.Fprintf(w, "Definition %s_runs_wake_pass := gen_unsupported \"%s not found\".\n", fn.coq, fn.name)
				continue
			}
			n, guarded := waitedClears(fd)
			fmt.Fprintf(w, "(* %s: %d assignment(s) `.waited = false`, every one directly under `if X.GetWaitLock() == nil` *)\nDefinition %s_clears_waited_only_on_empty_queue : bool := %v.\n",
				fn.what, n, fn.coq, guarded)
			fmt.Fprintf(w, "(* %s calls wakeUpWaitLocks *)\nDefinition %s_runs_wake_pass : bool := %v.\n", fn.what, fn.coq, mentions(fd, "wakeUpWaitLocks"))
		}
		if fd := srv.funcs["LockDB.UnLock"]; fd == nil {
			o.bad = append(o.bad, "server/db.go: LockDB.UnLock not found")
			fmt.Fprintln(w, "Definition unlock_runs_wake_pass := gen_unsupported \"LockDB.UnLock not found\".")
		} else {
			fmt.Fprintf(w, "(* LockDB.UnLock calls wakeUpWaitLocks *)\nDefinition unlock_runs_wake_pass : bool := %v.\n", mentions(fd, "wakeUpWaitLocks"))
		}
	}
	o.bad = append(o.bad, bad...)
	if len(o.bad) > 0 {
		fmt.Fprintln(w, "\n(* UNSUPPORTED source constructs (each also appears as gen_unsupported above or is listed here so that the check reports it):")
		for _, b := range o.bad {
			fmt.Fprintf(w, "   %s\n", strings.ReplaceAll(b, "*)", "* )"))
		}
		fmt.Fprintln(w, "*)")
		fmt.Fprintf(w, "Definition gen_client_complete := gen_unsupported %s.\n", cq(strings.Join(o.bad, "; ")))
	} else {
		fmt.Fprintln(w, "\nDefinition gen_client_complete : N := 1.")
	}
	os.Stdout.Write(o.b.Bytes())
}

// cq renders a Coq string literal (a double quote is escaped by doubling it; newlines are flattened)
func cq(s string) string {
	s = strings.ReplaceAll(s, "\n", " ")
	return "\"" + strings.ReplaceAll(s, "\"", "\"\"") + "\""
}

func orU(s string) string {
	if s == "" {
		return "gen_unsupported \"constant not found\""
	}
	return s
}

func containsIdent(body, id string) bool {
	isIdent := func(b byte) bool {
		return b == '_' || (b >= 'a' && b <= 'z') || (b >= 'A' && b <= 'Z') || (b >= '0' && b <= '9') || b == '.'
	}
	for i := 0; i+len(id) <= len(body); i++ {
		if body[i:i+len(id)] == id {
			if i > 0 && isIdent(body[i-1]) {
				continue
			}
			if i+len(id) < len(body) && isIdent(body[i+len(id)]) {
				continue
			}
			// not inside a gen_unsupported string
			if strings.Count(body[:i], "\"")%2 == 1 {
				continue
			}
			return true
		}
	}
	return false
}
