module clientparams

go 1.19
