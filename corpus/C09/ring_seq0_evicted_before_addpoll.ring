# cursor positioned (Head) on the ring's first record (seq 0); that item is evicted to the free list before AddPoll;
# AddPoll wraps the free marker pollCount 0xffffffff -> 0; Pop then treats the freed item as live (seq 0 == cursor.seq 0)
# and walks the free list.  Found by the generator (targeted search), shrunk by hand.
512 1024 0 1 0 | P 1 1 1019 1000 -1 0 | C 1 | H 1 | P 2 1 1021 1001 500 248 | P 3 1 1023 1002 -1 0 | A 1 | O 1
192 384 0 1 0 | P 1 1 1000 1000 500 7 | C 0 | H 0 | P 2 1 1000 1001 -1 7 | P 3 1 1000 1002 -1 7 | P 4 1 1000 1003 300 7 | P 5 1 1000 1004 100 7 | A 0 | C 1 | A 1 | W 0 | O 0 | W 1 | O 1 | P 6 1 1000 1005 300 7
256 256 0 1 0 | P 1 1 1000 1000 -1 7 | C 0 | H 0 | P 2 1 1000 1001 500 7 | P 3 1 1000 1002 -1 7 | P 4 1 1000 1003 100 7 | P 5 1 1000 1004 100 7 | P 6 1 1000 1005 100 7 | P 7 1 1000 1006 500 7 | A 0 | P 8 1 1000 1007 100 7 | W 0 | O 0 | W 0 | O 0 | P 9 1 1000 1008 -1 7 | P 10 1 1000 1009 -1 7 | W 0 | O 0 | W 0 | O 0
