// Harness entry point for C12: all work is done by the in-package file harness/arbiter/inj/zz_verif_arbiter.go,
// injected into package server by `go build -overlay` together with a patched copy of server/arbiter.go
// (scheduling gates only; produced from the current /repo tree by checks/C12.py on every run).
package main

import "github.com/snower/slock/server"

func main() { server.VerifArbiterMain() }
