#!/usr/bin/env python3
"""Produce the scheduling-gate copy of server/arbiter.go used (by overlay) in the C12 harness build.
Only four insertions, each on an existing line (line numbers are preserved):
  ArbiterMember.DoVote          `if self.isSelf {`   + verifArbiterGate(self.manager, 0)
  ArbiterMember.DoSelfProposal  function entry       + verifArbiterGate(self.manager, 1)
  ArbiterMember.DoSelfCommit    function entry       + verifArbiterGate(self.manager, 2)
  ArbiterVoter.DoRequests       `finishCount++`      + verifArbiterResolved(self.manager)
A gate only delays the goroutine that DoRequests started for the candidate's own member (something the Go
scheduler may do anyway); the completion signal has no effect on the code. Fails loudly if a site is missing."""
import re, sys

def patch(src):
    lines = src.split("\n")
    done = set()
    fn = None
    for i, l in enumerate(lines):
        m = re.match(r"func \(self \*(\w+)\) (\w+)\(", l)
        if m:
            fn = m.group(1) + "." + m.group(2)
            if fn == "ArbiterMember.DoSelfProposal" and l.rstrip().endswith("{"):
                lines[i] = l + " verifArbiterGate(self.manager, 1)"; done.add("P")
            if fn == "ArbiterMember.DoSelfCommit" and l.rstrip().endswith("{"):
                lines[i] = l + " verifArbiterGate(self.manager, 2)"; done.add("C")
            continue
        if fn == "ArbiterMember.DoVote" and "V" not in done and l.strip() == "if self.isSelf {":
            lines[i] = l + " verifArbiterGate(self.manager, 0)"; done.add("V")
        if fn == "ArbiterVoter.DoRequests" and "R" not in done and l.strip() == "finishCount++":
            lines[i] = l + "; verifArbiterResolved(self.manager)"; done.add("R")
    if done != {"P", "C", "V", "R"}:
        raise SystemExit("patch_arbiter: insertion sites not found: %s" % sorted({"P", "C", "V", "R"} - done))
    return "\n".join(lines)

if __name__ == "__main__":
    open(sys.argv[2], "w").write(patch(open(sys.argv[1]).read()))
