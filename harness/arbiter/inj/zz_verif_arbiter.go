//go:build verif

// In-package harness for property C12 (election safety). Injected into package server by `go build -overlay`
// together with a mechanically patched copy of server/arbiter.go (see checks/C12.py: three scheduling gates
// `verifArbiterGate(...)` at the entry of the own-member branches DoVote/DoSelfProposal/DoSelfCommit and one
// completion signal `verifArbiterResolved(...)` after `finishCount++` in DoRequests). Nothing in /repo changes.
//
// The harness IS the network: every member is a real ArbiterManager (real ArbiterVoter, ArbiterMember, ArbiterStore on
// its own data dir, real SLock behind it). Each ArbiterClient gets a real client.BinaryClientProtocol over a capturing
// net.Conn, so the candidate code (ArbiterVoter.DoVote/DoProposal/DoCommit -> DoRequests -> ArbiterMember.DoX ->
// ArbiterClient.Request) runs unmodified in its goroutines; the captured CallCommand is handed to the target's
// commandHandle*Command in the order the case dictates and the CallResultCommand (encoded+decoded) is pushed into
// the requesting client's rchannel exactly where ArbiterClient.Run would put it (nil = connection error).
package server

import (
	"bufio"
	"fmt"
	"net"
	"os"
	"path/filepath"
	"sort"
	"strconv"
	"strings"
	"sync"
	"time"

	"github.com/hhkbp2/go-logging"
	"github.com/jessevdk/go-flags"
	"github.com/snower/slock/client"
	"github.com/snower/slock/protocol"
	"github.com/snower/slock/protocol/protobuf"
	"google.golang.org/protobuf/proto"
)

const (
	vaIdle = iota
	vaVoting
	vaVoted
	vaProposing
	vaProposed
	vaCommitting
	vaWon
	vaDone
)

type vaEvent struct {
	typ  int // 0 request captured, 1 gate reached, 2 resolved
	to   int
	kind int
	cmd  *protocol.CallCommand
	cl   *ArbiterClient // client whose connection carried the request
}

type vaReq struct {
	from, to int
	method   string
	cmd      *protocol.CallCommand
	mgr      *ArbiterManager // manager object that issued it (a restart replaces the manager)
	live     bool            // the issuing goroutine still waits for the answer
}

type vaNode struct {
	idx      int
	dir      string
	slock    *SLock
	mgr      *ArbiterManager
	logger   *vaLogger
	events   chan vaEvent
	release  chan struct{}
	phase    int
	running  bool
	gated    bool
	resolved int
	done     chan error
	lastErr  map[string]string
	errMu    sync.Mutex
	aof      [16]byte
	sps      []*BinaryServerProtocol // identity of the connection from member j
	weight   []uint32
	arbiter  []uint32
	online   [][]bool
	lastIdx  uint64
	lastHost string
}

type vaLogger struct {
	logging.Logger
	vn *vaNode
}

func (l *vaLogger) Errorf(format string, args ...interface{}) {
	s := fmt.Sprintf(format, args...)
	if strings.HasPrefix(s, "Arbier voter member ") {
		f := strings.Fields(s)
		if len(f) > 3 {
			l.vn.errMu.Lock()
			l.vn.lastErr[f[3]] = s
			l.vn.errMu.Unlock()
		}
	}
}
func (l *vaLogger) Infof(format string, args ...interface{})  {}
func (l *vaLogger) Warnf(format string, args ...interface{})  {}
func (l *vaLogger) Debugf(format string, args ...interface{}) {}

var vaMu sync.Mutex
var vaByMgr = map[*ArbiterManager]*vaNode{}

func vaLookup(m *ArbiterManager) *vaNode {
	vaMu.Lock()
	vn := vaByMgr[m]
	vaMu.Unlock()
	return vn
}

// hooks called from the patched arbiter.go
func verifArbiterGate(m *ArbiterManager, kind int) {
	vn := vaLookup(m)
	if vn == nil {
		return
	}
	vn.events <- vaEvent{typ: 1, kind: kind}
	<-vn.release
}

func verifArbiterResolved(m *ArbiterManager) {
	vn := vaLookup(m)
	if vn == nil {
		return
	}
	vn.events <- vaEvent{typ: 2}
}

// capturing connection: parses the frames written by BinaryClientProtocol.Write
type vaConn struct {
	vn  *vaNode
	to  int
	cl  *ArbiterClient
	buf []byte
}

type vaAddr struct{}

func (vaAddr) Network() string { return "verif" }
func (vaAddr) String() string  { return "verif" }

func (c *vaConn) Read(b []byte) (int, error) { select {} }
func (c *vaConn) Write(b []byte) (int, error) {
	c.buf = append(c.buf, b...)
	for len(c.buf) >= 64 {
		cmd := &protocol.CallCommand{}
		_ = cmd.Decode(c.buf[:64])
		total := 64 + int(cmd.ContentLen)
		if len(c.buf) < total {
			break
		}
		cmd.Data = append([]byte{}, c.buf[64:total]...)
		c.buf = append([]byte{}, c.buf[total:]...)
		c.vn.events <- vaEvent{typ: 0, to: c.to, cmd: cmd, cl: c.cl}
	}
	return len(b), nil
}
func (c *vaConn) Close() error                       { return nil }
func (c *vaConn) LocalAddr() net.Addr                { return vaAddr{} }
func (c *vaConn) RemoteAddr() net.Addr               { return vaAddr{} }
func (c *vaConn) SetDeadline(t time.Time) error      { return nil }
func (c *vaConn) SetReadDeadline(t time.Time) error  { return nil }
func (c *vaConn) SetWriteDeadline(t time.Time) error { return nil }

func vaHost(i int) string { return fmt.Sprintf("10.0.0.%d:5000", i+1) }
func vaHostIdx(h string) int {
	if h == "" {
		return -1
	}
	for i := 0; i < 9; i++ {
		if vaHost(i) == h {
			return i
		}
	}
	return -2
}

func vaAofBytes(aid, ct uint64) [16]byte {
	var a [16]byte
	hi, lo := uint32(aid>>32), uint32(aid)
	a[0], a[1], a[2], a[3] = byte(hi), byte(hi>>8), byte(hi>>16), byte(hi>>24)
	a[4], a[5], a[6], a[7] = byte(lo), byte(lo>>8), byte(lo>>16), byte(lo>>24)
	for k := 0; k < 8; k++ {
		a[8+k] = byte(ct >> (8 * uint(k)))
	}
	return a
}

func vaAofPair(a [16]byte) (uint64, uint64) {
	aid := uint64(a[0])<<32 | uint64(a[1])<<40 | uint64(a[2])<<48 | uint64(a[3])<<56 | uint64(a[4]) | uint64(a[5])<<8 | uint64(a[6])<<16 | uint64(a[7])<<24
	ct := uint64(0)
	for k := 0; k < 8; k++ {
		ct |= uint64(a[8+k]) << (8 * uint(k))
	}
	return aid, ct
}

type vaCase struct {
	id    string
	n     int
	nodes []*vaNode
	sent  []*vaReq
	out   *bufio.Writer
}

func vaDie(format string, a ...interface{}) {
	fmt.Fprintf(os.Stderr, format+"\n", a...)
	os.Exit(3)
}

func vaU64(s string) uint64 {
	v, err := strconv.ParseUint(s, 10, 64)
	if err != nil {
		vaDie("bad number %q", s)
	}
	return v
}

// wire the members of a (new or reloaded) manager to the harness network
func (vn *vaNode) wire(n int) {
	m := vn.mgr
	for j, mem := range m.members {
		mem.weight, mem.arbiter = vn.weight[j], vn.arbiter[j]
		if j == vn.idx {
			mem.isSelf = true
			m.ownMember = mem
			mem.status = ARBITER_MEMBER_STATUS_ONLINE
			continue
		}
		if vn.online[vn.idx][j] {
			mem.status = ARBITER_MEMBER_STATUS_ONLINE
		} else {
			mem.status = ARBITER_MEMBER_STATUS_OFFLINE
		}
		cl := NewArbiterClient(mem)
		cl.stream = client.NewStream(&vaConn{vn: vn, to: j, cl: cl})
		cl.protocol = client.NewBinaryClientProtocol(cl.stream)
		mem.client = cl
		mem.server = &ArbiterServer{mem, nil, vn.sps[j], false, make(chan struct{})}
	}
	m.isClosing = true // neutralises updateStatus (role switching of the lock engine is outside C12)
	vn.slock.arbiterManager = m
	vn.slock.replicationManager.currentAofId = vn.aof
	vaMu.Lock()
	vaByMgr[m] = vn
	vaMu.Unlock()
}

var vaSlocks []*SLock
var vaLoggers []*vaLogger
var vaScratch string

func vaGetSlock(i int) (*SLock, *vaLogger) {
	for len(vaSlocks) <= i {
		cfg := &ServerConfig{}
		_, err := flags.NewParser(cfg, flags.Default).ParseArgs([]string{})
		if err != nil {
			vaDie("config: %v", err)
		}
		cfg.DBConcurrent = 1
		cfg.DBFastKeyCount = 16
		cfg.DataDir = vaScratch
		lg := &vaLogger{Logger: logging.GetLogger(fmt.Sprintf("verifarb%d", len(vaSlocks)))}
		vaSlocks = append(vaSlocks, NewSLock(cfg, lg))
		vaLoggers = append(vaLoggers, lg)
	}
	return vaSlocks[i], vaLoggers[i]
}

func (c *vaCase) drainAnnouncement(vn *vaNode, ev vaEvent) bool {
	if ev.typ == 0 && ev.cmd.MethodName == "REPL_ANNOUNCEMENT" {
		// announcements are outside the quantifier: the connection fails (answer on the client that sent it: after a
		// restart a late announcement of the previous process image must not reach the new one)
		ev.cl.rchannel <- nil
		return true
	}
	return false
}

// DoRequests returns when the last member goroutine has finished: the phase function then runs its tally at once.
func (c *vaCase) afterResolve(vn *vaNode) string {
	if !vn.running || vn.resolved < c.n {
		return ""
	}
	err := <-vn.done
	vn.running = false
	v := vn.mgr.voter
	switch vn.phase {
	case vaVoting:
		if err != nil {
			vn.phase = vaIdle
			return fmt.Sprintf(" + voted %d 0 0", vn.idx)
		}
		vn.phase = vaVoted
		return fmt.Sprintf(" + voted %d 1 %d", vn.idx, vaHostIdx(v.voteHost))
	case vaProposing:
		if err != nil {
			vn.phase = vaIdle
			return fmt.Sprintf(" + proposed %d 0 %d", vn.idx, v.proposalIndex)
		}
		vn.phase = vaProposed
		return fmt.Sprintf(" + proposed %d 1 %d", vn.idx, v.proposalIndex)
	case vaCommitting:
		if err != nil {
			vn.phase = vaIdle
			return fmt.Sprintf(" + cfail %d", vn.idx)
		}
		vn.phase = vaWon
		return fmt.Sprintf(" + win %d %d %d", vn.idx, v.proposalId, vaHostIdx(v.voteHost))
	}
	return ""
}

// wait for one "resolved" signal of vn, answering stray announcement requests on the way
func (c *vaCase) waitResolved(vn *vaNode) {
	defer func() { vn.resolved++ }()
	for {
		select {
		case ev := <-vn.events:
			if c.drainAnnouncement(vn, ev) {
				continue
			}
			if ev.typ == 2 {
				return
			}
			vaDie("case %s: unexpected event %d while waiting for resolution at node %d", c.id, ev.typ, vn.idx)
		case <-time.After(20 * time.Second):
			vaDie("case %s: timeout waiting for resolution at node %d", c.id, vn.idx)
		}
	}
}

func (c *vaCase) startPhase(vn *vaNode, phase int, f func() error) {
	vn.done = make(chan error, 1)
	vn.running, vn.gated, vn.phase, vn.resolved = true, false, phase, 0
	vn.errMu.Lock()
	vn.lastErr = map[string]string{}
	vn.errMu.Unlock()
	mgr := vn.mgr
	go func() { vn.done <- f() }()
	issued, reqs := 0, []*vaReq{}
	for issued < c.n {
		select {
		case ev := <-vn.events:
			if c.drainAnnouncement(vn, ev) {
				continue
			}
			switch ev.typ {
			case 0:
				reqs = append(reqs, &vaReq{vn.idx, ev.to, ev.cmd.MethodName, ev.cmd, mgr, true})
			case 1:
				vn.gated = true
			case 2:
				vn.resolved++
			}
			issued++
		case <-time.After(20 * time.Second):
			vaDie("case %s: timeout starting phase %d at node %d (%d/%d issued)", c.id, phase, vn.idx, issued, c.n)
		}
	}
	sort.Slice(reqs, func(a, b int) bool { return reqs[a].to < reqs[b].to })
	c.sent = append(c.sent, reqs...)
}

func vaErrCode(t string) int {
	switch t {
	case "ERR_REJECT":
		return 1
	case "ERR_ROLE":
		return 2
	case "ERR_STATUS":
		return 3
	case "ERR_AOFID":
		return 4
	case "ERR_HOST":
		return 5
	case "ERR_OFFLINE":
		return 6
	case "ERR_PROPOSALID":
		return 7
	case "ERR_COMMITID":
		return 8
	case "ERR_ABSTIANED":
		return 9
	}
	return 99
}

func vaKind(method string) string {
	switch method {
	case "REPL_VOTE":
		return "V"
	case "REPL_PROPOSAL":
		return "P"
	case "REPL_COMMIT":
		return "C"
	}
	return "?"
}

func vaRespString(method string, res *protocol.CallResultCommand) string {
	if res.Result != 0 || res.ErrType != "" {
		code := vaErrCode(res.ErrType)
		id := uint64(0)
		if code == 7 {
			r := protobuf.ArbiterProposalResponse{}
			if proto.Unmarshal(res.Data, &r) == nil {
				id = r.ProposalId
			}
		}
		if code == 8 {
			r := protobuf.ArbiterCommitResponse{}
			if proto.Unmarshal(res.Data, &r) == nil {
				id = r.CommitId
			}
		}
		if code == 9 {
			return "voteerr"
		}
		return fmt.Sprintf("err %d %d", code, id)
	}
	switch method {
	case "REPL_VOTE":
		r := protobuf.ArbiterVoteResponse{}
		_ = proto.Unmarshal(res.Data, &r)
		a, _ := ParseAofId(r.AofId)
		aid, ct := vaAofPair(a)
		return fmt.Sprintf("vote %d %d %d %d %d %d", vaHostIdx(r.Host), r.Weight, r.Arbiter, aid, ct, r.Role)
	case "REPL_PROPOSAL":
		r := protobuf.ArbiterProposalResponse{}
		_ = proto.Unmarshal(res.Data, &r)
		return fmt.Sprintf("ok %d", r.ProposalId)
	case "REPL_COMMIT":
		r := protobuf.ArbiterCommitResponse{}
		_ = proto.Unmarshal(res.Data, &r)
		return fmt.Sprintf("ok %d", r.CommitId)
	}
	return "?"
}

func (c *vaCase) deliver(rq *vaReq, lost bool) string {
	tn := c.nodes[rq.to]
	sp := tn.sps[rq.from]
	var res *protocol.CallResultCommand
	var err error
	switch rq.method {
	case "REPL_VOTE":
		res, err = tn.mgr.commandHandleVoteCommand(sp, rq.cmd)
	case "REPL_PROPOSAL":
		res, err = tn.mgr.commandHandleProposalCommand(sp, rq.cmd)
	case "REPL_COMMIT":
		res, err = tn.mgr.commandHandleCommitCommand(sp, rq.cmd)
	default:
		return "none"
	}
	if err != nil || res == nil {
		vaDie("case %s: handler error %v", c.id, err)
	}
	ev := fmt.Sprintf("reply %d %d %s %s", rq.from, rq.to, vaKind(rq.method), vaRespString(rq.method, res))
	if rq.live {
		fn := c.nodes[rq.from]
		rq.live = false
		ch := rq.mgr.members[rq.to].client.rchannel
		if lost {
			ch <- nil
		} else {
			// what the wire does: encode, decode
			buf := make([]byte, 64)
			_ = res.Encode(buf)
			back := &protocol.CallResultCommand{}
			_ = back.Decode(buf)
			if back.ContentLen > 0 {
				back.Data = append([]byte{}, res.Data...)
			}
			ch <- back
		}
		c.waitResolved(fn)
		ev += c.afterResolve(fn)
	}
	return ev
}

func (c *vaCase) abandon(vn *vaNode) {
	if !vn.running {
		return
	}
	if vn.gated {
		vn.gated = false
		vn.release <- struct{}{}
		c.waitResolved(vn)
	}
	for _, rq := range c.sent {
		if rq.from == vn.idx && rq.live {
			rq.live = false
			rq.mgr.members[rq.to].client.rchannel <- nil
			c.waitResolved(vn)
		}
	}
	if vn.running {
		<-vn.done
		vn.running = false
	}
}

func (c *vaCase) selfErr(vn *vaNode) string {
	vn.errMu.Lock()
	s := vn.lastErr[vaHost(vn.idx)]
	vn.errMu.Unlock()
	if s == "" {
		return "ok 0"
	}
	switch {
	case strings.Contains(s, "Proposal Reject"):
		return "err 1 0"
	case strings.Contains(s, "stop vote"):
		return "voteerr"
	}
	for _, t := range []string{"ERR_ROLE", "ERR_STATUS", "ERR_AOFID", "ERR_HOST", "ERR_OFFLINE", "ERR_PROPOSALID", "ERR_COMMITID"} {
		if strings.Contains(s, t) {
			return fmt.Sprintf("err %d 0", vaErrCode(t))
		}
	}
	return "err 99 0"
}

func (c *vaCase) state() string {
	parts := []string{}
	for _, vn := range c.nodes {
		v := vn.mgr.voter
		saved := "-1"
		if data, err := os.ReadFile(filepath.Join(vn.dir, "meta.pb")); err == nil && len(data) >= 11 {
			rs := protobuf.ReplSet{}
			if proto.Unmarshal(data[11:], &rs) == nil {
				saved = strconv.FormatUint(rs.CommitId, 10)
			}
		}
		views := []string{}
		for _, mem := range vn.mgr.members {
			aid, ct := vaAofPair(mem.aofId)
			views = append(views, fmt.Sprintf("%d:%d:%d", mem.role, aid, ct))
		}
		parts = append(parts, fmt.Sprintf("%d,%d,%d,%d,%s,%d,%s", v.proposalId, v.commitId, vaHostIdx(v.proposalHost),
			vaHostIdx(v.proposalFromHost), saved, v.proposalIndex, strings.Join(views, "/")))
	}
	return strings.Join(parts, ";")
}

func (c *vaCase) act(f []string) string {
	arg := func(k int) int {
		if k >= len(f) {
			vaDie("case %s: short action %v", c.id, f)
		}
		return int(vaU64(f[k]))
	}
	node := func(k int) *vaNode {
		i := arg(k)
		if i >= c.n {
			return nil
		}
		return c.nodes[i]
	}
	switch f[0] {
	case "SV":
		vn := node(1)
		if vn == nil || vn.phase != vaIdle {
			return "none"
		}
		c.startPhase(vn, vaVoting, vn.mgr.voter.DoVote)
		return fmt.Sprintf("start %d V", vn.idx)
	case "SP":
		vn := node(1)
		if vn == nil || vn.phase != vaVoted {
			return "none"
		}
		c.startPhase(vn, vaProposing, vn.mgr.voter.DoProposal)
		return fmt.Sprintf("start %d P", vn.idx)
	case "SC":
		vn := node(1)
		if vn == nil || vn.phase != vaProposed {
			return "none"
		}
		c.startPhase(vn, vaCommitting, vn.mgr.voter.DoCommit)
		return fmt.Sprintf("start %d C", vn.idx)
	case "SELF":
		vn := node(1)
		if vn == nil || !vn.running || !vn.gated {
			return "none"
		}
		vn.gated = false
		vn.release <- struct{}{}
		c.waitResolved(vn)
		k := map[int]string{vaVoting: "V", vaProposing: "P", vaCommitting: "C"}[vn.phase]
		r := c.selfErr(vn)
		if k == "V" && r == "ok 0" {
			r = "vote"
		}
		return fmt.Sprintf("self %d %s %s", vn.idx, k, r) + c.afterResolve(vn)
	case "DEL":
		cc, m, lost := arg(1), arg(2), arg(3) != 0
		var rq *vaReq
		for _, x := range c.sent {
			if x.from == cc && x.to == m {
				rq = x
			}
		}
		if rq == nil {
			return "none"
		}
		return c.deliver(rq, lost)
	case "DELI":
		i, lost := arg(1), arg(2) != 0
		if i >= len(c.sent) {
			return "none"
		}
		return c.deliver(c.sent[i], lost)
	case "FIN":
		vn := node(1)
		if vn == nil || !vn.running || vn.gated {
			return "none"
		}
		ev := ""
		for _, rq := range c.sent {
			if rq.from == vn.idx && rq.live {
				rq.live = false
				rq.mgr.members[rq.to].client.rchannel <- nil
				c.waitResolved(vn)
				ev += c.afterResolve(vn)
			}
		}
		if ev == "" {
			vaDie("case %s: FIN at node %d had nothing to resolve", c.id, vn.idx)
		}
		return strings.TrimPrefix(ev, " + ")
	case "SUCC":
		vn := node(1)
		if vn == nil || vn.phase != vaWon {
			return "none"
		}
		Config.DataDir = vn.dir
		done := make(chan error, 1)
		go func() { done <- vn.mgr.voteSucced() }()
	loop:
		for {
			select {
			case <-done:
				break loop
			case ev := <-vn.events:
				if !c.drainAnnouncement(vn, ev) {
					vaDie("case %s: unexpected event in voteSucced", c.id)
				}
			case <-time.After(20 * time.Second):
				vaDie("case %s: voteSucced timeout", c.id)
			}
		}
		vn.phase = vaDone
		return fmt.Sprintf("succ %d", vn.idx)
	case "RST":
		vn := node(1)
		if vn == nil {
			return "none"
		}
		c.abandon(vn)
		Config.DataDir = vn.dir
		m := NewArbiterManager(vn.slock, "verif")
		if err := m.Load(); err != nil {
			vaDie("case %s: Load: %v", c.id, err)
		}
		if m.ownMember == nil || len(m.members) != c.n {
			vaDie("case %s: Load gave %d members", c.id, len(m.members))
		}
		vn.mgr = m
		vn.wire(c.n)
		vn.phase = vaIdle
		return fmt.Sprintf("rst %d", vn.idx)
	}
	vaDie("case %s: unknown action %v", c.id, f)
	return ""
}

func (c *vaCase) finish() {
	for _, vn := range c.nodes {
		c.abandon(vn)
	}
	vaMu.Lock()
	vaByMgr = map[*ArbiterManager]*vaNode{}
	vaMu.Unlock()
}

// VerifArbiterMain: `arbiterh run <scratchdir>` reads cases on stdin; `arbiterh cmp` compares aof ids.
func VerifArbiterMain() {
	if len(os.Args) >= 2 && os.Args[1] == "cmp" {
		// lines "aid ct aid ct" -> CompareAofId on the 16-byte encodings
		m := &ArbiterManager{}
		sc := bufio.NewScanner(os.Stdin)
		w := bufio.NewWriter(os.Stdout)
		for sc.Scan() {
			f := strings.Fields(sc.Text())
			if len(f) != 4 {
				continue
			}
			a, b := vaAofBytes(vaU64(f[0]), vaU64(f[1])), vaAofBytes(vaU64(f[2]), vaU64(f[3]))
			ra, _ := ParseAofId(FormatAofId(a))
			fmt.Fprintf(w, "%d %x %v\n", m.CompareAofId(a, b), a, ra == a)
		}
		w.Flush()
		return
	}
	if len(os.Args) < 3 || os.Args[1] != "run" {
		vaDie("usage: arbiterh run <scratchdir> | arbiterh cmp")
	}
	vaScratch = os.Args[2]
	_ = os.MkdirAll(vaScratch, 0755)
	_ = os.Chdir(vaScratch)
	sc := bufio.NewScanner(os.Stdin)
	sc.Buffer(make([]byte, 1<<20), 1<<20)
	out := bufio.NewWriter(os.Stdout)
	defer out.Flush()
	var c *vaCase
	started := false
	ai := 0
	type minit struct {
		weight, arbiter                uint32
		pid, cid, aid, ct              uint64
		abst                           bool
		role                           []uint8
		online                         []bool
		vaid, vct                      []uint64
	}
	var inits []*minit
	begin := func() {
		started = true
		weight, arbiter := make([]uint32, c.n), make([]uint32, c.n)
		online := make([][]bool, c.n)
		for i, mi := range inits {
			weight[i], arbiter[i] = mi.weight, mi.arbiter
			online[i] = mi.online
		}
		for i, mi := range inits {
			sl, lg := vaGetSlock(i)
			dir := filepath.Join(vaScratch, fmt.Sprintf("n%d", i))
			_ = os.RemoveAll(dir)
			_ = os.MkdirAll(dir, 0755)
			vn := &vaNode{idx: i, dir: dir, slock: sl, logger: lg, events: make(chan vaEvent, 256), release: make(chan struct{}),
				lastErr: map[string]string{}, aof: vaAofBytes(mi.aid, mi.ct), weight: weight, arbiter: arbiter, online: online}
			lg.vn = vn
			for j := 0; j < c.n; j++ {
				vn.sps = append(vn.sps, &BinaryServerProtocol{})
			}
			m := NewArbiterManager(sl, "verif")
			m.gid = "verifgid"
			for j := 0; j < c.n; j++ {
				mem := NewArbiterMember(m, vaHost(j), weight[j], arbiter[j])
				mem.role = mi.role[j]
				mem.aofId = vaAofBytes(mi.vaid[j], mi.vct[j])
				m.members = append(m.members, mem)
			}
			vn.mgr = m
			vn.wire(c.n)
			m.ownMember.abstianed = mi.abst
			m.voter.proposalId, m.voter.commitId = mi.cid, mi.cid
			Config.DataDir = dir
			if err := m.store.Save(m); err != nil { // the meta file every configured member has
				vaDie("initial save: %v", err)
			}
			m.voter.proposalId = mi.pid
			c.nodes = append(c.nodes, vn)
		}
	}
	for sc.Scan() {
		f := strings.Fields(sc.Text())
		if len(f) == 0 {
			continue
		}
		switch f[0] {
		case "CASE":
			c = &vaCase{id: f[1], out: out}
			started, ai, inits = false, 0, nil
			fmt.Fprintf(out, "CASE %s\n", c.id)
		case "N":
			c.n = int(vaU64(f[1]))
			for i := 0; i < c.n; i++ {
				inits = append(inits, &minit{role: make([]uint8, c.n), online: make([]bool, c.n), vaid: make([]uint64, c.n), vct: make([]uint64, c.n)})
			}
		case "M":
			mi := inits[vaU64(f[1])]
			mi.weight, mi.arbiter = uint32(vaU64(f[2])), uint32(vaU64(f[3]))
			mi.pid, mi.cid, mi.aid, mi.ct, mi.abst = vaU64(f[4]), vaU64(f[5]), vaU64(f[6]), vaU64(f[7]), f[8] != "0"
		case "V":
			mi := inits[vaU64(f[1])]
			j := vaU64(f[2])
			mi.role[j], mi.online[j], mi.vaid[j], mi.vct[j] = uint8(vaU64(f[3])), f[4] != "0", vaU64(f[5]), vaU64(f[6])
		case "A":
			if !started {
				begin()
			}
			ev := c.act(f[1:])
			fmt.Fprintf(out, "E %d %s | %s\n", ai, ev, c.state())
			ai++
		case "END":
			if !started {
				begin()
			}
			c.finish()
			fmt.Fprintf(out, "END\n")
			out.Flush()
		}
	}
}
