"""Generator + property monitor for the long-wait tables of server/db.go (C20, long-wait part).

Case line:  <id> G <kind> <base> <nodes> <size> <maxfree> <op> ...   (format: inj/server/zz_verif_longwait.go)

gen_case(rng, cid, maxlen) -> dict(id, line, ops, profile, nops, ...)
monitor(case, obs)         -> None | (op_index, op_kind, what)   the PROPERTY evaluated on the Go observations:
    every bucket is a plain sequence with deletions: Add appends, Remove (X, R) blanks the lock's slot in place (a hole),
    Pop returns the first slot (nil for a hole or when empty), restructuring (S, or an X that reports ok+S) drops the holes
    and keeps the order, Len() is the number of slots INCLUDING the holes not yet compacted (this is what the consumers
    rely on: they call Pop() exactly Len() times), lockCount - freeCount is the number of live locks (admin.go relies on
    it), and the consumer idiom C returns exactly the live locks in insertion order.  No panic.
classify(case, viol)       -> stable signature
"""
import re

PROFILES = ["prod-threshold", "prod-life", "small-mix", "small-policy", "small-raw", "multi"]

# fill levels at which the production queue (4, 64, 256) or the trigger policy change behaviour:
# node boundaries 256, 768, 1792; trigger freeCount >= 256 and freeCount*3 >= lockCount
THRESH = [1, 2, 3, 255, 256, 257, 300, 511, 512, 513, 767, 768, 769, 770, 771, 1000, 1791, 1792, 1793]


def gen_case(rng, cid, maxlen):
    profile = rng.choice(PROFILES)
    kind = rng.choice("TE")
    if profile.startswith("prod"):
        base, nodes, size = 4, 64, 256
    else:
        r = rng.random()
        if r < 0.6:
            base = rng.randint(1, 4)
            nodes = base + rng.randint(0, 3)
        else:
            base = rng.randint(1, 5)
            nodes = rng.randint(1, 6)
        size = rng.choice([1, 1, 1, 2, 2, 3, 4, 5, 8, 16])
    maxfree = rng.choice([0, 0, 0, 1, 2, 3, 8])
    ops = gen_ops(rng, profile, maxlen)
    line = "%s G %s %d %d %d %d %s" % (cid, kind, base, nodes, size, maxfree, " ".join(ops))
    return dict(id=cid, T="G", kind=kind, base=base, nodes=nodes, size=size, maxfree=maxfree, ops=ops, profile=profile,
                nops=len(ops), line=line)


def gen_ops(rng, profile, maxlen):
    ops = []
    nxt = [1]
    live = {}        # bucket -> list of live ids (generator's idea; aiming only)
    slots = {}       # bucket -> number of slots incl. holes (aiming only)
    custom = not profile.startswith("prod")
    nb = 1 if profile in ("prod-threshold", "small-policy", "small-raw") else rng.randint(2, 4)
    buckets = list(range(1, nb + 1))
    raw_ok = profile in ("small-mix", "small-raw", "multi", "prod-life")

    def obs(t):
        r = rng.random()
        ops.append("n%d" % t)
        if r < 0.08:
            ops.append("d%d" % t)
        elif r < 0.12:
            ops.append("m")
        elif r < 0.16:
            ops.append("f")

    def ensure(t):
        if t not in live:
            if custom and rng.random() < 0.85:
                ops.append("N%d" % t)
            live[t] = []
            slots[t] = 0

    def add(t, k):
        ensure(t)
        for _ in range(k):
            x = nxt[0]
            nxt[0] += 1
            ops.append("A%d.%d" % (t, x))
            live[t].append(x)
            slots[t] += 1
            if rng.random() < 0.25:
                obs(t)
        obs(t)

    def remove(t, k, how, letter):
        l = live.get(t, [])
        for _ in range(k):
            if not l:
                break
            if how == "front":
                x = l.pop(0)
            elif how == "back":
                x = l.pop()
            else:
                x = l.pop(rng.randrange(len(l)))
            ops.append("%s%d.%d" % (letter, t, x))
            if rng.random() < 0.3:
                ops.append("w%d" % x)
            obs(t)

    def pops(t, k):
        for _ in range(k):
            ops.append("p%d" % t)
            # aiming only: assume the head was live if any
            if live.get(t):
                live[t].pop(0)
            obs(t)

    def consume(t):
        ops.append("C%d" % t)
        live.pop(t, None)
        slots.pop(t, None)
        ops.append("f")
        ops.append("m")

    if profile == "prod-threshold":
        # one production bucket filled to a threshold, then removals up to and past the trigger, Len after every op
        t = 1
        while len(ops) < maxlen:
            target = rng.choice(THRESH) + rng.randint(-1, 2)
            cur = len(live.get(t, []))
            if cur < target:
                add(t, min(target - cur, maxlen))
            n = len(live.get(t, []))
            k = rng.choice([n // 3 - 1, n // 3, n // 3 + 1, 255, 256, 257, n, n - 1, rng.randint(0, max(1, n))])
            remove(t, max(0, min(k, n)), rng.choice(["front", "back", "rand", "rand"]), "X")
            r = rng.random()
            if r < 0.3:
                consume(t)
            elif r < 0.4:
                pops(t, rng.randint(1, 5))
    elif profile == "prod-life":
        # several lives of recycled production queues; raw restructure / pops sprinkled in
        while len(ops) < maxlen:
            t = rng.choice(buckets)
            r = rng.random()
            if r < 0.45:
                add(t, rng.choice([1, 3, 10, 50, 260, 300, 520, 800]))
            elif r < 0.75:
                n = len(live.get(t, []))
                remove(t, rng.randint(0, max(1, n)), rng.choice(["front", "back", "rand"]), rng.choice("XXXR"))
            elif r < 0.85:
                if t in live:
                    consume(t)
            elif r < 0.9:
                if t in live:
                    ops.append("S%d" % t)
                    obs(t)
            elif r < 0.95:
                pops(t, rng.randint(1, 4))
            else:
                ops.append("F")
    else:
        W = {
            "small-mix": dict(A=40, X=18, R=8, S=4, p=8, C=4, F=1, w=3),
            "small-policy": dict(A=45, X=35, C=5, w=3),
            "small-raw": dict(A=40, R=25, S=8, p=10, C=3, X=5, w=3),
            "multi": dict(A=40, X=20, R=6, S=3, p=6, C=6, F=2, w=3),
        }[profile]
        keys = list(W)
        weights = [W[k] for k in keys]
        grow = True
        left = rng.randint(5, 60)
        big = rng.random() < 0.35       # reach the freeCount >= 256 branch of the trigger on a small-node queue
        while len(ops) < maxlen:
            left -= 1
            if left <= 0:
                grow = not grow
                left = rng.randint(5, 400 if big else 60)
            t = rng.choice(buckets)
            k = rng.choices(keys, weights)[0]
            if k == "A" and not grow and rng.random() < 0.6:
                k = "X" if "X" in W else "R"
            elif k in ("X", "R", "p") and grow and rng.random() < 0.6:
                k = "A"
            if k == "A":
                add(t, rng.choice([1, 1, 1, 2, 3, 5]))
            elif k in ("X", "R"):
                if not raw_ok and k == "R":
                    k = "X"
                remove(t, rng.choice([1, 1, 2, 3, 8]), rng.choice(["front", "back", "rand", "rand"]), k)
            elif k == "S":
                if t in live:
                    ops.append("S%d" % t)
                    obs(t)
            elif k == "p":
                pops(t, rng.choice([1, 1, 2, 4]))
            elif k == "C":
                if t in live:
                    consume(t)
            elif k == "F":
                ops.append("F")
                ops.append("f")
            elif k == "w":
                ops.append("w%d" % rng.randint(1, nxt[0]))
    for t in sorted(live):
        ops.extend(["n%d" % t, "d%d" % t, "C%d" % t])
    ops.extend(["f", "m"])
    return ops


def f4_case(cid, cycles, kind="T"):
    """Finding C20-F4, production parameters and only the calls LockDB itself makes: life 1 grows the queue to node 3
    and is consumed (recycled with nodeIndex = 3); life 2 restructures while the tail is in node 1 (queueSize := 512), so
    node 4 is later allocated with 1024 slots (not 4096); from then on every grow-to-node-5 / remove-a-third cycle makes
    the restructure free node 5 WITHOUT decrementing nodeIndex (drift +1 per cycle).  After ~60 cycles nodeIndex >= 64 =
    len(queues) and the Reset inside FreeLongWaitLockQueue panics.  cycles=1 shows the drift (nodeIndex on a nil node)."""
    ops = []
    x = 1
    for _ in range(1800):
        ops.append("A1.%d" % x)
        x += 1
    ops += ["d1", "C1", "f"]
    live = []
    for _ in range(300):
        ops.append("A2.%d" % x)
        live.append(x)
        x += 1
    for _ in range(256):
        ops.append("X2.%d" % live.pop(0))
    ops += ["n2", "d2"]
    for _ in range(cycles):
        while len(live) < 4900:
            ops.append("A2.%d" % x)
            live.append(x)
            x += 1
        s, h = len(live), 0
        while 3 * h < s:
            ops.append("X2.%d" % live.pop(0))
            h += 1
        ops += ["n2", "d2"]
    ops += ["C2", "f"]
    line = "%s G %s 4 64 256 8 %s" % (cid, kind, " ".join(ops))
    return dict(id=cid, T="G", kind=kind, base=4, nodes=64, size=256, maxfree=8, ops=ops, profile="f4-policy", nops=len(ops),
                line=line, nominimise=True)


# ------------------------------------------------------------------ the property as a monitor
def _args(op):
    a = op[1:]
    if "." in a:
        t, x = a.split(".")
        return int(t), int(x)
    return (int(a) if a else None), None


def monitor(c, obs):
    ops = c["ops"]
    B = {}            # bucket -> list of slots (id | None)
    where = {}        # live lock id -> bucket
    for i, op in enumerate(ops):
        if i >= len(obs):
            return (i, op[0], "missing observation")
        o = obs[i]
        k = op[0]
        if o == "PANIC":
            return (i, k, "panic")
        if o == "FUEL":
            return (i, k, "fuel")
        t, x = _args(op) if k not in "fFm" else (None, None)
        if k in "XRSpnCd" and o == "skip":
            if k in "XR":
                if where.get(x) == t:
                    return (i, k, "Remove of queued lock %d was skipped" % x)
                continue
            if t in B and B[t]:
                return (i, k, "bucket %d holds %d slots but the table has no queue for it" % (t, len(B[t])))
            B.pop(t, None)       # an empty bucket may have been released by a restructure
            continue
        if k == "N":
            if o == "ok":
                if t in B and B[t]:
                    return (i, k, "a queue was installed over a non-empty bucket")
                B[t] = []
        elif k == "A":
            if where.get(x) is not None:
                continue         # re-adding a queued lock is outside the callers' contract (not generated)
            B.setdefault(t, []).append(x)
            where[x] = t
            if o != "ok":
                return (i, k, "Add returned %s" % o)
        elif k in "XR":
            if where.get(x) != t:
                return (i, k, "Remove of lock %d which is not queued in bucket %d was executed" % (x, t))
            l = B[t]
            l[l.index(x)] = None
            del where[x]
            if o == "ok+S":
                B[t] = [v for v in l if v is not None]
            elif o != "ok":
                return (i, k, "Remove returned %s" % o)
        elif k == "S":
            B[t] = [v for v in B.get(t, []) if v is not None]
        elif k == "p":
            l = B.get(t, [])
            v = l.pop(0) if l else None
            if v is not None:
                del where[v]
            exp = "nil" if v is None else "v%d" % v
            if o != exp:
                return (i, k, "Pop returned %s, the sequence with deletions yields %s" % (o, exp))
        elif k == "n":
            m = re.fullmatch(r"n(-?\d+)/(-?\d+)/(-?\d+)", o)
            if not m:
                return (i, k, "unparsable " + o)
            n, cnt, fr = (int(g) for g in m.groups())
            l = B.get(t, [])
            if n != len(l):
                return (i, k, "Len() = %d, the bucket holds %d slots (%d live + %d holes not yet compacted)" % (
                    n, len(l), sum(1 for v in l if v is not None), sum(1 for v in l if v is None)))
            livecnt = sum(1 for v in l if v is not None)
            if cnt - fr != livecnt:
                return (i, "c", "lockCount - freeCount = %d, the bucket holds %d live locks" % (cnt - fr, livecnt))
        elif k == "C":
            l = B.pop(t, [])
            exp = [v for v in l if v is not None]
            for v in exp:
                del where[v]
            m = re.fullmatch(r"c\[(.*)\]", o)
            if not m:
                return (i, k, "unparsable " + o)
            got = [int(e) for e in m.group(1).split(",")] if m.group(1) else []
            if got != exp:
                return (i, k, "Len() times Pop() returned %d locks %s, the bucket holds %d live locks %s" % (
                    len(got), got[:8], len(exp), exp[:8]))
        elif k == "w":
            x = int(op[1:])
            m = re.fullmatch(r"w(\d+)", o)
            if not m:
                return (i, k, "unparsable " + o)
            if (int(m.group(1)) > 0) != (x in where):
                return (i, k, "longWaitIndex of lock %d is %s although it is %squeued" % (x, m.group(1), "" if x in where else "not "))
        elif k in "fFmd":
            continue
        else:
            raise RuntimeError("longgen.monitor: unknown op " + op)
    return None


POLICY_OPS = set("AXCnwfmd")


def classify(c, viol):
    i, k, what = viol
    kinds = set(o[0] for o in c["ops"][:i + 1])
    if what == "panic":
        prod = (c["base"], c["nodes"], c["size"]) == (4, 64, 256) or "N" not in kinds
        if kinds <= POLICY_OPS and prod:
            # only the calls LockDB itself makes, production parameters: the restructure trigger policy let the freeing
            # loop run (nodeIndex drift)
            return "lw:policy-restructure-frees:panic"
        if "S" in kinds or "X" in kinds:
            return "seg:restructuringLong:lw-panic"
        return "lw:panic:with=" + "".join(sorted(kinds - set("nwfmd")))
    kind = {"n": "len", "c": "livecount", "p": "value", "C": "consume", "w": "index"}.get(k, "op-" + k)
    return "lw:%s" % kind


def minimise(c, run_go, budget=300):
    """delta debugging on the op list; run_go(line) -> observation list.  Keeps the violation kind."""
    def kind_of(v):
        return None if v is None else ("panic" if v[2] == "panic" else v[1])

    hdr = "m G %s %d %d %d %d " % (c["kind"], c["base"], c["nodes"], c["size"], c["maxfree"])
    v0 = monitor(c, c["_goobs"])
    want = kind_of(v0)
    ops = list(c["ops"][:v0[0] + 1])

    def fails(cand):
        cc = dict(c, ops=cand)
        return kind_of(monitor(cc, run_go(hdr + " ".join(cand)))) == want

    calls = 0
    n = 2
    for kd in "wdmfFnNpSRC":      # pre-pass: drop a whole op kind at once
        cand = [o for o in ops[:-1] if o[0] != kd] + ops[-1:]
        if len(cand) < len(ops):
            calls += 1
            if fails(cand):
                ops = cand
    while len(ops) >= 2 and calls < budget:
        chunk = max(1, len(ops) // n)
        reduced = False
        for s in range(0, len(ops), chunk):
            cand = ops[:s] + ops[s + chunk:]
            calls += 1
            if cand and fails(cand):
                ops = cand
                n = max(n - 1, 2)
                reduced = True
                break
            if calls >= budget:
                break
        if not reduced:
            if chunk == 1:
                break
            n = min(n * 2, len(ops))
    res = dict(c, ops=ops, nops=len(ops))
    res.pop("_goobs", None)
    res["line"] = "replay G %s %d %d %d %d %s" % (c["kind"], c["base"], c["nodes"], c["size"], c["maxfree"], " ".join(ops))
    return res
