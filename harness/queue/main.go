// Harness for property C20: drives the real queue types of github.com/snower/slock/server through the
// in-package interpreter injected by `go build -overlay` (inj/server/zz_verif_queue*.go).
package main

import (
	"bufio"
	"os"

	"github.com/snower/slock/server"
)

func main() {
	in := bufio.NewReaderSize(os.Stdin, 1<<20)
	out := bufio.NewWriterSize(os.Stdout, 1<<20)
	defer out.Flush()
	server.VerifQueueMain(in, out)
}
