#!/usr/bin/env python3
"""Instantiate adapter.tmpl for the three textually identical queue types of server/queue.go."""
import os
here = os.path.dirname(os.path.abspath(__file__))
tmpl = open(os.path.join(here, "adapter.tmpl")).read()
LONG_FIELDS = "\tlw   *LongWaitLockQueue\n\tdb   *LockDB"
LONG_CONSTRUCT = """\ta.lw = NewLongWaitLockQueue(base, nodes, size, 0, 0)
\ta.q = &a.lw.locks
\ta.db = &LockDB{longTimeoutLocks: []map[int64]*LongWaitLockQueue{{}}, longExpriedLocks: []map[int64]*LongWaitLockQueue{{}},
\t\tfreeLongWaitQueues: []*LongWaitLockFreeQueue{{nil, 0, 0}}}"""
LONG_RESTR = """\tif n%2 == 0 {
\t\ta.db.restructuringLongTimeOutQueue(a.lw)
\t} else {
\t\ta.db.restructuringLongExpriedQueue(a.lw)
\t}"""
inst = [
    ("LockQueue", "Lock", "", LONG_FIELDS, LONG_CONSTRUCT, LONG_RESTR),
    ("LockCommandQueue", "protocol.LockCommand", '\n\t"github.com/snower/slock/protocol"', "", "\ta.q = NewLockCommandQueue(base, nodes, size)",
     '\tpanic("verif: restructuringLong only exists for LockQueue")'),
    ("LockManagerQueue", "LockManager", "", "", "\ta.q = NewLockManagerQueue(base, nodes, size)",
     '\tpanic("verif: restructuringLong only exists for LockQueue")'),
]
for q, e, imp, fields, cons, restr in inst:
    s = (tmpl.replace("@Q@", q).replace("@E@", e).replace("@IMPORTS@", imp.lstrip("\n")).replace("@EXTRAFIELDS@", fields)
         .replace("@CONSTRUCT@", cons).replace("@RESTRLONG@", restr))
    s = s.replace('import (\n\t"strconv"\n\n)', 'import (\n\t"strconv"\n)')
    open(os.path.join(here, "inj", "server", "zz_verif_queue_%s.go" % q.lower()), "w").write(s)
