"""Generator + property monitor for the per-key queues of server/lock.go (C20, key-queue part).

Case line:  <id> <T> <param> <op> ...     (format: harness/queue/inj/server/zz_verif_keyqueue.go)
  T = R ring(size) | Q priority ring(size) | W wait queue(param = priorityQueue) | K lock queue

gen_case(rng, cid, maxlen) -> dict(line, T, param, ops, profile, nops)
monitor(case, obs)         -> None | (op_index, op_kind, what)     the PROPERTY on the Go observations:
      a plain FIFO (R, K, W in plain mode) / stable priority queue (Q, W in priority mode: highest priority first,
      FIFO among equal priority).  Pop/Head/Len/iteration/MaxPriority agree with it, no panic.
      Documented licence of the implementation: a Push may drop queued entries that are tombstoned at that moment
      (W: timeouted or ackCount != 0xff; K: locked == 0), each drop decrements that lock's refCount exactly once;
      live entries are never dropped or reordered.  The monitor therefore keeps the exact arrival list and
      reconciles: entries skipped by Pop/Head/iteration must be tombstoned; refCount at the end must be
      200 - (number of times the lock was dropped).
classify(case, viol)       -> stable signature "key:..."
"""
import re

TYPES = ["R", "Q", "W", "K"]
PROFILES = ["fifo", "fill", "tomb", "prio", "reset", "dup", "nil", "drain"]

# capacities at which the implementation changes behaviour (go1.23 append growth of []*Lock, see KeyQueues.v)
THRESH = {"K": [6, 12, 24, 48, 111, 223, 480], "W": [8, 16, 32, 64, 143, 207, 286, 500], "R": [1, 2, 4, 8, 16, 64, 143],
          "Q": [2, 4, 16, 32, 64, 143]}


def gen_case(rng, cid, maxlen):
    T = rng.choices(["R", "Q", "W", "K"], [12, 20, 38, 30])[0]
    if T == "R":
        param = rng.choice([1, 2, 3, 4, 4, 8, 16, 64])
    elif T == "Q":
        param = rng.choice([1, 2, 2, 4, 16, 16])
    elif T == "W":
        param = rng.choice([0, 0, 0, 1])
    else:
        param = 0
    profile = rng.choice(PROFILES)
    r = rng.random()
    if r < 0.45:
        n = rng.randint(5, 60)
    elif r < 0.85:
        n = rng.randint(60, min(450, maxlen))
    else:
        n = rng.randint(min(450, maxlen), maxlen)
    ops = gen_ops(rng, T, param, profile, n)
    line = "%s %s %d %s" % (cid, T, param, " ".join(ops))
    return dict(id=cid, T=T, param=param, ops=ops, profile=profile, nops=len(ops), line=line)


def gen_ops(rng, T, param, profile, n):
    ops = []
    nxt = [1]
    inq = []            # generator's rough idea of the queued ids (aiming only)
    prios = {}          # id -> push token suffix
    use_prio = profile == "prio" or (T in ("Q",) and rng.random() < 0.7) or (T == "W" and param == 1) or rng.random() < 0.15
    W = {
        "fifo": dict(P=50, p=38, h=3, n=3, i=2, m=2, d=2),
        "fill": dict(P=80, p=8, h=1, n=2, i=1, m=1, d=2, M=3),
        "tomb": dict(P=50, p=12, M=25, h=2, n=3, i=2, m=1, d=3, g=2),
        "prio": dict(P=50, p=30, h=4, n=3, i=3, m=5, d=2, y=2, M=3),
        "reset": dict(P=55, p=20, M=8, e=3, y=1, h=2, n=3, i=2, m=1, d=3, z=1),
        "dup": dict(P=45, D=10, p=25, M=8, h=2, n=3, i=2, m=1, d=2, g=2),
        "nil": dict(P=50, N=3, p=25, M=5, h=2, n=3, i=2, m=2, d=2, y=1, g=1),
        "drain": dict(P=55, p=25, M=6, DRAIN=3, h=2, n=3, i=2, m=1, d=2, z=2, g=2, x=2),
    }[profile]
    if T == "K":
        W = dict(W)
        W["g"] = W.get("g", 0) + 3
        W["x"] = W.get("x", 0) + 2
        W["z"] = W.get("z", 0) + 1
    keys = list(W)
    weights = [W[k] for k in keys]
    # target fill level: aim to cross one of the thresholds
    target = rng.choice(THRESH[T]) + rng.randint(-2, 6)
    phase_push = True
    phase_left = rng.randint(1, 40)

    def push_tok(i):
        if i in prios:
            return "P%d%s" % (i, prios[i])
        if use_prio and rng.random() < 0.85:
            p = rng.choice([0, 1, 1, 2, 2, 3, 3, 3, 5, 255]) if rng.random() < 0.9 else rng.randint(0, 255)
            prios[i] = ".%d" % p
        else:
            prios[i] = ""
        return "P%d%s" % (i, prios[i])

    while len(ops) < n:
        phase_left -= 1
        if phase_left <= 0:
            phase_push = len(inq) < target if rng.random() < 0.7 else not phase_push
            phase_left = rng.randint(1, 60)
            if rng.random() < 0.2:
                target = rng.choice(THRESH[T]) + rng.randint(-2, 6)
        k = rng.choices(keys, weights)[0]
        if k == "P" and not phase_push and rng.random() < 0.55:
            k = "p"
        elif k == "p" and phase_push and rng.random() < 0.65:
            k = "P"
        if k == "P":
            i = nxt[0]
            nxt[0] += 1
            ops.append(push_tok(i))
            inq.append(i)
        elif k == "D":
            if prios and rng.random() < 0.9:
                i = rng.choice(list(prios))
                ops.append(push_tok(i))
                inq.append(i)
        elif k == "N":
            ops.append("P-")
        elif k == "p":
            ops.append("p")
            if inq:
                inq.pop(0)
        elif k == "M":
            if inq and rng.random() < 0.93:
                # mark a queued lock; bias to the kind that is a tombstone for this queue type
                i = rng.choice(inq) if rng.random() < 0.8 else rng.randint(1, nxt[0])
                if T == "K":
                    kind = rng.choices("UTA", [80, 10, 10])[0]
                elif T == "W":
                    kind = rng.choices("TAU", [50, 40, 10])[0]
                else:
                    kind = rng.choice("TAU")
                ops.append("%s%d" % (kind, i))
                if rng.random() < 0.3 and len(inq) > 3:
                    # a burst of tombstones so that compaction actually frees room
                    for j in rng.sample(inq, min(len(inq), rng.randint(1, 12))):
                        ops.append("%s%d" % (kind, j))
            else:
                ops.append("%s%d" % (rng.choice("TAU"), nxt[0] + rng.randint(0, 3)))
        elif k == "DRAIN":
            cnt = len(inq) + rng.randint(0, 2)
            ops.extend(["p"] * cnt)
            inq = []
            ops.append("n")
            if rng.random() < 0.4:
                ops.extend(["i", "e"])
        elif k == "e":
            ops.extend(["i", "e"] if rng.random() < 0.8 else ["e"])
            inq = []
        elif k in ("g", "x"):
            if inq and rng.random() < 0.8:
                ops.append("%s%d" % (k, rng.choice(inq)))
            else:
                ops.append("%s%d" % (k, rng.randint(1, nxt[0] + 1)))
        else:
            ops.append(k)
    ops.extend(["h", "m", "n", "i", "d", "r"])
    return ops


# ------------------------------------------------------------------ directed: representation states of the wait queue
# LockManagerWaitQueue has four representations: inline array only (fastQueue, ringQueue == nil), inline array followed
# by a ring (the array overflowed at cap 143 full of live waiters: ringQueue != nil, fastIndex < len(fastQueue)),
# ring only (the array part drained), priority ring (fastIndex == -1).  Every maintenance operation
# (RePushPriorityRingQueue, Reset, the compaction / growth / switch inside Push) is driven from every one of them, with
# and without tombstoned (timeouted / acked) entries and nil cells left by Pop below fastIndex.
WAIT_STATES = ["empty", "fast", "fast-popped", "fast-full", "mixed", "mixed-popped", "ring", "ring-wrapped", "prio"]
WAIT_MAINT = ["y", "y", "y", "e", "P", "yy"]
FAST_CAPS = [8, 16, 32, 64, 143]


def gen_wait_state_case(rng, cid, rounds=None):
    """one W case = a few rounds of: build a target representation state, mark tombstones, dump, maintenance op,
    observe, continue in the new representation, drain"""
    ops = []
    nxt = [1]
    inq = []
    plan = []
    param = 1 if rng.random() < 0.1 else 0
    use_prio = rng.random() < 0.8

    def push(k, prio_ok=True):
        for _ in range(k):
            i = nxt[0]
            nxt[0] += 1
            if use_prio and prio_ok and rng.random() < 0.5:
                ops.append("P%d.%d" % (i, rng.choice([0, 1, 1, 2, 3, 3, 5, 255])))
            else:
                ops.append("P%d" % i)
            inq.append(i)

    def pop(k):
        for _ in range(k):
            ops.append("p")
            if inq:
                inq.pop(0)

    for rd in range(rounds or rng.randint(1, 3)):
        state = rng.choice(WAIT_STATES)
        maint = rng.choice(WAIT_MAINT)
        tomb = rng.choice(["none", "none", "fast", "ring", "both", "all"])
        plan.append("%s/%s/%s" % (state, maint, tomb))
        # -- build the state (from whatever is left of the previous round: start with a Reset most of the time)
        if rd > 0 and rng.random() < 0.8:
            ops.extend(["i", "e"])
            del inq[:]
        if state == "empty":
            if rng.random() < 0.5:
                push(rng.randint(1, 9))
                pop(len(inq))
        elif state == "fast":
            push(rng.choice([1, 2, 7, 8, 9, 15, 17, 40, 100, 142]))
        elif state == "fast-popped":
            push(rng.choice([3, 8, 9, 16, 33, 70, 143]))
            pop(rng.randint(1, max(1, len(inq) - 1)))
        elif state == "fast-full":
            push(rng.choice(FAST_CAPS))
            if rng.random() < 0.5:
                pop(rng.randint(1, 5))
        elif state in ("mixed", "mixed-popped"):
            push(143 - len(inq) if len(inq) < 143 else 0)
            push(rng.choice([1, 1, 2, 5, 20, 63, 64, 65, 80, 150]))
            if state == "mixed-popped":
                pop(rng.choice([1, 2, 50, 100, 141, 142]))
        elif state in ("ring", "ring-wrapped"):
            push(143 - len(inq) if len(inq) < 143 else 0)
            push(rng.choice([1, 3, 30, 64, 70]))
            pop(143 + rng.choice([0, 0, 1, 2]))
            if state == "ring-wrapped":
                for _ in range(rng.randint(1, 3)):
                    push(rng.randint(10, 60))
                    pop(rng.randint(5, 40))
        elif state == "prio":
            push(rng.choice([1, 5, 20, 150]))
            ops.append("y")
            push(rng.choice([0, 3, 17, 40]))
        # -- tombstones
        if tomb != "none" and inq:
            n = len(inq)
            if tomb == "fast":
                cand = inq[:min(n, 143)]
            elif tomb == "ring":
                cand = inq[143:] or inq
            else:
                cand = inq
            k = len(cand) if tomb == "all" else rng.randint(1, max(1, min(len(cand), 12)))
            for j in rng.sample(cand, min(k, len(cand))):
                ops.append("%s%d" % (rng.choice("TA"), j))
        ops.extend(["d", "n"])
        # -- the maintenance operation
        if maint == "P":
            push(rng.choice([1, 1, 2, 10]))
        elif maint == "yy":
            ops.extend(["y", "d", "y"])
        else:
            ops.append(maint)
            if maint == "e":
                del inq[:]
        ops.extend(["d", "n", "i", "h", "m"])
        # -- continue in the new representation, then drain
        push(rng.choice([0, 1, 3, 9]))
        ops.extend(["n", "i"])
        if rng.random() < 0.7:
            pop(len(inq) + 2)
            ops.append("n")
    ops.extend(["h", "m", "n", "i", "d", "r"])
    line = "%s W %d %s" % (cid, param, " ".join(ops))
    return dict(id=cid, T="W", param=param, ops=ops, profile="wait-states", nops=len(ops), line=line, plan=plan)


def wait_state_of_dump(tok):
    """classify a W dump  d{W;F<len>,<cap>|F-;<fastIndex>;N|R<len>,<cap>,<index>|Q..}  into a representation state"""
    m = re.fullmatch(r"d\{W;(F-|F(\d+),(\d+));(-?\d+);(N|R(\d+),(\d+),(\d+)|Q.*)\}", tok)
    if not m:
        return None
    flen = int(m.group(2)) if m.group(2) is not None else 0
    fidx = int(m.group(4))
    ring = m.group(5)
    if ring.startswith("Q"):
        return "prio"
    fast_live = fidx >= 0 and fidx < flen
    if ring == "N":
        if not fast_live:
            return "empty"
        return "fast-popped" if fidx > 0 else "fast"
    ring_live = int(m.group(6)) - int(m.group(8)) > 0
    if fast_live:
        return ("mixed" if fidx == 0 else "mixed-popped") if ring_live else "fast+emptyring"
    return "ring" if ring_live else "emptyring"


# ------------------------------------------------------------------ monitor
def parse_nodes(tok):
    m = re.fullmatch(r"i(\d+)\[(.*)\]", tok)
    if not m:
        return None
    out = []
    if int(m.group(1)) == 0:
        return out
    for nd in m.group(2).split(";"):
        if nd == "":
            continue
        for e in nd.split(","):
            out.append(None if e == "-" else int(e))
    return out


def stable_insert(l, prio, x):
    """insert x after all elements of priority >= prio(x) (list sorted by descending priority)"""
    k = 0
    while k < len(l) and prio[l[k]] >= prio[x]:
        k += 1
    l.insert(k, x)


def monitor(c, obs):
    ops = c["ops"]
    T = c["T"]
    if any(o == "P-" for o in ops):
        return None                      # nil pushes are outside the queues' contract (callers never push nil)
    prio = {}
    timeouted, acked, unlocked = set(), set(), set()
    L = []                               # spec contents (ids, arrival / priority order), possibly incl. dropped tombstones
    dropped = {}                         # id -> confirmed number of drops
    unresolved = {}                      # id -> drops that may or may not have happened (discarded by Reset unseen)
    prio_mode = T == "Q" or (T == "W" and c["param"] == 1)
    removed = set()                      # K: ids passed to RemoveLock since their last push

    def dead(i):
        if T == "W":
            return i in timeouted or i in acked
        if T == "K":
            return i in unlocked
        return False

    def can_drop():
        # W: entries tombstoned while the queue was still in plain mode may have been dropped before the switch
        return T in ("W", "K")

    def drop_prefix_until(v):
        """v (an id) was observed at the head: everything before its first occurrence must be droppable"""
        k = 0
        while k < len(L) and L[k] != v:
            if not dead(L[k]):
                return "live lock %d was skipped (head observed: %d)" % (L[k], v)
            k += 1
        if k == len(L):
            return "lock %d observed at the head is not in the queue" % v
        for j in L[:k]:
            dropped[j] = dropped.get(j, 0) + 1
        del L[:k]
        return None

    for i, op in enumerate(ops):
        if i >= len(obs):
            return (i, op[0], "missing observation")
        o = obs[i]
        k = op[0]
        if o == "PANIC":
            return (i, k, "panic")
        if o == "FUEL":
            return (i, k, "fuel")
        if k == "P":
            a = op[1:]
            ident = int(a.split(".")[0])
            if ident not in prio:
                prio[ident] = int(a.split(".")[1]) if "." in a else 0
            if prio_mode:
                stable_insert(L, prio, ident)
            else:
                L.append(ident)
            removed.discard(ident)
            if not o.startswith("ok/"):
                return (i, k, "push returned %s" % o)
        elif k in ("p", "h"):
            if o == "skip":
                continue
            if o == "nil":
                live = [x for x in L if not dead(x)]
                if live:
                    return (i, k, "returned nil, queue holds live lock %d" % live[0])
                for j in L:
                    dropped[j] = dropped.get(j, 0) + 1
                del L[:]
            else:
                v = int(o[1:])
                if not can_drop() and (not L or L[0] != v):
                    return (i, k, "returned %s, spec head is %s" % (o, L[0] if L else None))
                err = drop_prefix_until(v)
                if err:
                    return (i, k, "returned %s: %s" % (o, err))
                if k == "p":
                    L.pop(0)
        elif k == "n":
            n = int(o[1:])
            lo = len([x for x in L if not dead(x)]) if can_drop() else len(L)
            if not (lo <= n <= len(L)):
                return (i, k, "Len = %d, spec length in [%d,%d]" % (n, lo, len(L)))
        elif k == "i":
            got = parse_nodes(o)
            if got is None:
                return (i, k, "unparsable iteration " + o)
            # got must be a subsequence of L that contains every live element
            j = 0
            newL = []
            for x in L:
                if j < len(got) and got[j] == x:
                    newL.append(x)
                    j += 1
                elif can_drop() and dead(x):
                    dropped[x] = dropped.get(x, 0) + 1
                else:
                    return (i, k, "iteration %s misses/reorders lock %d of spec %s" % (
                        o if len(o) < 200 else o[:200] + "...", x, L if len(L) < 40 else "%d elements" % len(L)))
            if j != len(got):
                return (i, k, "iteration yields extra element %s" % got[j])
            L[:] = newL
        elif k == "m":
            if o == "skip":
                continue
            m = int(o[1:])
            cands = []
            for x in L:
                cands.append(prio[x])
                if not dead(x) or not can_drop():
                    break
            else:
                cands.append(0)
            if m not in cands:
                return (i, k, "MaxPriority = %d, spec head priority in %s" % (m, cands))
        elif k == "e":
            if o == "skip":
                continue
            for x in L:
                if dead(x):
                    unresolved[x] = unresolved.get(x, 0) + 1
            del L[:]
            prio_mode = False if T == "W" else prio_mode
        elif k == "y":
            if o == "skip":
                continue
            if not prio_mode:
                old = list(L)
                del L[:]
                for x in old:
                    stable_insert(L, prio, x)
                prio_mode = True
        elif k == "z":
            continue
        elif k == "g":
            if o == "skip":
                continue
            ident = int(op[1:])
            if o != "nil" and o != "v%d" % ident:
                return (i, k, "GetLock(%d) returned %s" % (ident, o))
            if o == "nil" and ident in L and not dead(ident) and ident not in removed:
                return (i, k, "GetLock(%d) returned nil for a queued locked lock" % ident)
        elif k == "x":
            if o != "skip":
                removed.add(int(op[1:]))
        elif k in "TAU":
            if o == "skip":
                continue
            ident = int(op[1:])
            {"T": timeouted, "A": acked, "U": unlocked}[k].add(ident)
        elif k == "d":
            continue
        elif k == "r":
            m = re.fullmatch(r"r\[(.*)\]", o)
            if not m:
                return (i, k, "unparsable refcounts " + o)
            for ent in (m.group(1).split(",") if m.group(1) else []):
                ident, rc = (int(t) for t in ent.split(":"))
                dmin = dropped.get(ident, 0)
                dmax = dmin + unresolved.get(ident, 0) + sum(1 for x in L if x == ident and dead(x) and can_drop())
                if not (200 - dmax <= rc <= 200 - dmin):
                    return (i, k, "refCount of lock %d is %d, expected in [%d,%d] (dropped %d times)" % (
                        ident, rc, 200 - dmax, 200 - dmin, dmin))
        else:
            raise RuntimeError("keygen.monitor: unknown op " + op)
    return None


def classify(c, viol):
    i, k, what = viol
    if what == "panic":
        kind = "panic"
    elif k == "n":
        kind = "len"
    elif k == "i":
        kind = "iter"
    elif k == "r":
        kind = "refcount"
    elif k == "m":
        kind = "maxprio"
    elif k == "g":
        kind = "getlock"
    else:
        kind = "value"
    kinds = sorted(set(o[0] for o in c["ops"][:i + 1]))
    spec = "".join(x for x in kinds if x in "TAUeyzgx")
    return "key:%s:%s%s:at=%s:with=%s" % (c["T"], kind, "", k, spec)
