//go:build verif

// Injected into package server by `go build -overlay` (never written to /repo).
// Interpreter for the per-key queues of server/lock.go; model: /verif/coq/Queue/KeyQueues.v.
//
// Line protocol (one case per line):   <id> <T> <param> <op> <op> ...
//   T = R  LockManagerRingQueue,          param = size            (NewLockManagerRingQueue(size))
//       Q  LockManagerPriorityRingQueue,  param = size            (NewLockManagerPriorityRingQueue(size))
//       W  LockManagerWaitQueue,          param = 0|1             (NewLockManagerWaitQueue(param == 1))
//       K  LockManagerLockQueue,          param ignored           (NewLockManagerLockQueue())
//   ops (every op prints exactly one observation token):
//     P<id>        push lock <id>; created on first use with command.TimeoutFlag = 0, Rcount = 7 (priority 0)
//     P<id>.<p>    same, created with TIMEOUT_FLAG_RCOUNT_IS_PRIORITY and Rcount = p (priority p)
//     P-           push a nil *Lock
//                  a created lock has timeouted=false ackCount=0xff locked=1 refCount=200 manager=nil,
//                  command.LockId = id (little endian); pushing a known id pushes the same object again
//                      -> ok/<cap>,<cap>..   capacities of the internal slices after the push
//                         (R: queue; Q: every node ring; W: fastQueue (-1 = nil) then ring(s); K: fastQueue)
//     p pop  h head    -> v<id> | nil
//     n Len            -> n<k>
//     i iterate        -> i<#nodes>[a,b,-;c]   (R,Q,W: IterNodes(); K: for i := range IterNodes() { IterNodeQueues(i) })
//     m MaxPriority    -> m<k>       (K: skip)
//     e Reset          -> ok         (R,Q: skip)
//     y RePushPriorityRingQueue -> ok (W only, else skip)
//     z Resize         -> ok         (K only, else skip)
//     g<id> GetLock    -> v<id> | nil (K only, else skip)
//     x<id> RemoveLock -> ok         (K only, else skip)
//     T<id> lock.timeouted = true | A<id> lock.ackCount = 0 | U<id> lock.locked = 0   -> ok (skip: unknown id)
//     d dump internal representation:
//          R: d{R<len>,<cap>,<index>}      Q: d{Q<prio>:<len>,<cap>,<index>|...}
//          W: d{W;F<len>,<cap>|F-;<fastIndex>;N|R..|Q..}
//          K: d{K;F<len>,<cap>|F-;<fastIndex>;S-|S<ints>/<sizes>/<lens>/<halias>/<talias>/<sorted map keys>}
//     r refCount of every created lock in creation order -> r[id:rc,id:rc]
// Output: <id> <obs> <obs> ...   (PANIC terminates a case: Go runtime panic inside the queue code)
package server

import (
	"bufio"
	"fmt"
	"os"
	"sort"
	"strconv"
	"strings"

	"github.com/snower/slock/protocol"
)

type verifKey struct {
	t     byte
	ring  *LockManagerRingQueue
	prio  *LockManagerPriorityRingQueue
	wait  *LockManagerWaitQueue
	lock  *LockManagerLockQueue
	objs  map[int]*Lock
	tags  map[*Lock]int
	order []int
}

func verifLockId(id int) [16]byte {
	var b [16]byte
	for i := 0; i < 8; i++ {
		b[i] = byte(id >> (8 * uint(i)))
	}
	return b
}

func (k *verifKey) tag(l *Lock) string {
	if l == nil {
		return "nil"
	}
	return "v" + strconv.Itoa(k.tags[l])
}

func (k *verifKey) elems(l []*Lock) string {
	es := make([]string, len(l))
	for j, e := range l {
		if e == nil {
			es[j] = "-"
		} else {
			es[j] = strconv.Itoa(k.tags[e])
		}
	}
	return strings.Join(es, ",")
}

func verifRingDump(r *LockManagerRingQueue) string {
	return strconv.Itoa(len(r.queue)) + "," + strconv.Itoa(cap(r.queue)) + "," + strconv.Itoa(r.index)
}

func verifPrioDump(p *LockManagerPriorityRingQueue) string {
	parts := make([]string, len(p.priorityNodes))
	for i, n := range p.priorityNodes {
		parts[i] = strconv.Itoa(int(n.priority)) + ":" + verifRingDump(n.ringQueue)
	}
	return "Q" + strings.Join(parts, "|")
}

func verifAnyRingDump(r ILockManagerRingQueue) string {
	switch q := r.(type) {
	case nil:
		return "N"
	case *LockManagerRingQueue:
		return "R" + verifRingDump(q)
	case *LockManagerPriorityRingQueue:
		return verifPrioDump(q)
	}
	panic("verif: unknown ring queue type")
}

func verifFastDump(f []*Lock) string {
	if f == nil {
		return "F-"
	}
	return "F" + strconv.Itoa(len(f)) + "," + strconv.Itoa(cap(f))
}

func verifAnyRingCaps(r ILockManagerRingQueue, caps []int) []int {
	switch q := r.(type) {
	case nil:
	case *LockManagerRingQueue:
		caps = append(caps, cap(q.queue))
	case *LockManagerPriorityRingQueue:
		for _, n := range q.priorityNodes {
			caps = append(caps, cap(n.ringQueue.queue))
		}
	}
	return caps
}

func verifFastCap(f []*Lock) int {
	if f == nil {
		return -1
	}
	return cap(f)
}

func (k *verifKey) caps() string {
	caps := make([]int, 0, 4)
	switch k.t {
	case 'R':
		caps = append(caps, cap(k.ring.queue))
	case 'Q':
		caps = verifAnyRingCaps(k.prio, caps)
	case 'W':
		caps = append(caps, verifFastCap(k.wait.fastQueue))
		caps = verifAnyRingCaps(k.wait.ringQueue, caps)
	case 'K':
		caps = append(caps, verifFastCap(k.lock.fastQueue))
	}
	return verifInts(caps)
}

func (k *verifKey) scaleDump(s *LockManagerScaleLockQueue) string {
	if s == nil {
		return "S-"
	}
	q := &s.LockQueue
	lens := make([]int, len(q.queues))
	for i, n := range q.queues {
		if n == nil {
			lens[i] = -1
		} else {
			lens[i] = len(n)
		}
	}
	alias := func(sl []*Lock) int {
		if sl == nil {
			return -2
		}
		if len(sl) == 0 {
			return -3
		}
		for j, n := range q.queues {
			if len(n) > 0 && &n[0] == &sl[0] {
				return j
			}
		}
		return -1
	}
	keys := make([]int, 0, len(s.maps))
	for _, l := range s.maps {
		keys = append(keys, k.tags[l])
	}
	sort.Ints(keys)
	return "S" + verifInts32([]int32{q.headQueueIndex, q.headQueueSize, q.tailQueueIndex, q.tailQueueSize, q.headNodeIndex,
		q.tailNodeIndex, q.baseNodeSize, q.nodeIndex, q.nodeSize, q.shrinkNodeSize, q.baseQueueSize, q.queueSize,
		q.rellacTailNodeIndex}) + "/" + verifInts32(q.nodeQueueSizes) + "/" + verifInts(lens) + "/" +
		strconv.Itoa(alias(q.headQueue)) + "/" + strconv.Itoa(alias(q.tailQueue)) + "/" + verifInts(keys)
}

func (k *verifKey) elem(arg string) *Lock {
	if arg == "-" {
		return nil
	}
	ids, prios := arg, ""
	if j := strings.IndexByte(arg, '.'); j >= 0 {
		ids, prios = arg[:j], arg[j+1:]
	}
	id, err := strconv.Atoi(ids)
	if err != nil {
		panic("verif: bad push argument " + arg)
	}
	if l, ok := k.objs[id]; ok {
		return l
	}
	cmd := &protocol.LockCommand{}
	cmd.LockId = verifLockId(id)
	if prios == "" {
		cmd.TimeoutFlag = 0
		cmd.Rcount = 7
	} else {
		p, err := strconv.Atoi(prios)
		if err != nil || p < 0 || p > 255 {
			panic("verif: bad push argument " + arg)
		}
		cmd.TimeoutFlag = protocol.TIMEOUT_FLAG_RCOUNT_IS_PRIORITY
		cmd.Rcount = uint8(p)
	}
	l := &Lock{command: cmd, timeouted: false, ackCount: 0xff, locked: 1, refCount: 200}
	k.objs[id] = l
	k.tags[l] = id
	k.order = append(k.order, id)
	return l
}

func (k *verifKey) known(arg string) *Lock {
	id, err := strconv.Atoi(arg)
	if err != nil {
		panic("verif: bad id " + arg)
	}
	return k.objs[id]
}

func (k *verifKey) step(op string, w *bufio.Writer) {
	skip := func() { w.WriteString(" skip") }
	switch op[0] {
	case 'P':
		l := k.elem(op[1:])
		switch k.t {
		case 'R':
			k.ring.Push(l)
		case 'Q':
			k.prio.Push(l)
		case 'W':
			k.wait.Push(l)
		case 'K':
			k.lock.Push(l)
		}
		w.WriteString(" ok/" + k.caps())
	case 'p':
		var l *Lock
		switch k.t {
		case 'R':
			l = k.ring.Pop()
		case 'Q':
			l = k.prio.Pop()
		case 'W':
			l = k.wait.Pop()
		case 'K':
			l = k.lock.Pop()
		}
		w.WriteString(" " + k.tag(l))
	case 'h':
		var l *Lock
		switch k.t {
		case 'R':
			l = k.ring.Head()
		case 'Q':
			l = k.prio.Head()
		case 'W':
			l = k.wait.Head()
		case 'K':
			l = k.lock.Head()
		}
		w.WriteString(" " + k.tag(l))
	case 'n':
		n := 0
		switch k.t {
		case 'R':
			n = k.ring.Len()
		case 'Q':
			n = k.prio.Len()
		case 'W':
			n = k.wait.Len()
		case 'K':
			n = k.lock.Len()
		}
		w.WriteString(" n" + strconv.Itoa(n))
	case 'i':
		var parts []string
		if k.t == 'K' {
			n := len(k.lock.IterNodes())
			for i := 0; i < n; i++ {
				parts = append(parts, k.elems(k.lock.IterNodeQueues(int32(i))))
			}
		} else {
			var nodes [][]*Lock
			switch k.t {
			case 'R':
				nodes = k.ring.IterNodes()
			case 'Q':
				nodes = k.prio.IterNodes()
			case 'W':
				nodes = k.wait.IterNodes()
			}
			for _, nd := range nodes {
				parts = append(parts, k.elems(nd))
			}
		}
		w.WriteString(" i" + strconv.Itoa(len(parts)) + "[" + strings.Join(parts, ";") + "]")
	case 'm':
		switch k.t {
		case 'R':
			w.WriteString(" m" + strconv.Itoa(int(k.ring.MaxPriority())))
		case 'Q':
			w.WriteString(" m" + strconv.Itoa(int(k.prio.MaxPriority())))
		case 'W':
			w.WriteString(" m" + strconv.Itoa(int(k.wait.MaxPriority())))
		default:
			skip()
		}
	case 'e':
		switch k.t {
		case 'W':
			k.wait.Reset()
			w.WriteString(" ok")
		case 'K':
			k.lock.Reset()
			w.WriteString(" ok")
		default:
			skip()
		}
	case 'y':
		if k.t == 'W' {
			k.wait.RePushPriorityRingQueue()
			w.WriteString(" ok")
		} else {
			skip()
		}
	case 'z':
		if k.t == 'K' {
			k.lock.Resize()
			w.WriteString(" ok")
		} else {
			skip()
		}
	case 'g':
		if k.t == 'K' {
			id, err := strconv.Atoi(op[1:])
			if err != nil {
				panic("verif: bad op " + op)
			}
			cmd := &protocol.LockCommand{}
			cmd.LockId = verifLockId(id)
			w.WriteString(" " + k.tag(k.lock.GetLock(cmd)))
		} else {
			skip()
		}
	case 'x':
		if k.t == 'K' {
			id, err := strconv.Atoi(op[1:])
			if err != nil {
				panic("verif: bad op " + op)
			}
			cmd := &protocol.LockCommand{}
			cmd.LockId = verifLockId(id)
			k.lock.RemoveLock(cmd)
			w.WriteString(" ok")
		} else {
			skip()
		}
	case 'T', 'A', 'U':
		l := k.known(op[1:])
		if l == nil {
			skip()
			return
		}
		switch op[0] {
		case 'T':
			l.timeouted = true
		case 'A':
			l.ackCount = 0
		case 'U':
			l.locked = 0
		}
		w.WriteString(" ok")
	case 'd':
		switch k.t {
		case 'R':
			w.WriteString(" d{R" + verifRingDump(k.ring) + "}")
		case 'Q':
			w.WriteString(" d{" + verifPrioDump(k.prio) + "}")
		case 'W':
			w.WriteString(" d{W;" + verifFastDump(k.wait.fastQueue) + ";" + strconv.Itoa(k.wait.fastIndex) + ";" +
				verifAnyRingDump(k.wait.ringQueue) + "}")
		case 'K':
			w.WriteString(" d{K;" + verifFastDump(k.lock.fastQueue) + ";" + strconv.Itoa(k.lock.fastIndex) + ";" +
				k.scaleDump(k.lock.scaleQueue) + "}")
		}
	case 'r':
		parts := make([]string, len(k.order))
		for i, id := range k.order {
			parts[i] = strconv.Itoa(id) + ":" + strconv.Itoa(int(k.objs[id].refCount))
		}
		w.WriteString(" r[" + strings.Join(parts, ",") + "]")
	default:
		panic("verif: bad op " + op)
	}
}

func verifKeyQueueCase(fields []string, w *bufio.Writer) {
	w.WriteString(fields[0])
	defer func() {
		if r := recover(); r != nil {
			msg := fmt.Sprint(r)
			if strings.HasPrefix(msg, "verif:") {
				panic(r)
			}
			fmt.Fprintf(os.Stderr, "%s panic: %s\n", fields[0], msg)
			w.WriteString(" PANIC")
		}
		w.WriteString("\n")
	}()
	if len(fields) < 3 || len(fields[1]) != 1 {
		panic("verif: bad queue type " + fields[1])
	}
	param, err := strconv.Atoi(fields[2])
	if err != nil {
		panic("verif: bad parameter " + fields[2])
	}
	k := &verifKey{t: fields[1][0], objs: make(map[int]*Lock), tags: make(map[*Lock]int)}
	switch k.t {
	case 'R':
		k.ring = NewLockManagerRingQueue(param)
	case 'Q':
		k.prio = NewLockManagerPriorityRingQueue(param)
	case 'W':
		k.wait = NewLockManagerWaitQueue(param == 1)
	case 'K':
		k.lock = NewLockManagerLockQueue()
	default:
		panic("verif: bad queue type " + fields[1])
	}
	for _, op := range fields[3:] {
		k.step(op, w)
	}
}
