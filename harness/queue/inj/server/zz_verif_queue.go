//go:build verif

// Injected into package server by `go build -overlay` (never written to /repo).
// Line protocol (one case per line):   <id> <T> <base> <nodes> <size> <op> <op> ...
//   T = L (LockQueue) | C (LockCommandQueue) | M (LockManagerQueue)
//   ops: P<n> P- push | L<n> L- pushleft | p pop | r popright | h head | t tail | n len | i iterate
//        z Resize | c Rellac | s Restructuring | S restructuringLong{TimeOut,Expried}Queue (T = L only)
//        e Reset | k<n> Shrink(n) | f freeQueue | x<k> nil the k-th live slot (LongWaitLockQueue.Remove) | d dump
// Output: <id> <obs> <obs> ...   (PANIC terminates a case)
package server

import (
	"bufio"
	"fmt"
	"os"
	"strconv"
	"strings"
)

type verifQ interface {
	push(v int)
	pushLeft(v int) bool
	pop() int
	popRight() int
	head() int
	tail() int
	length() int32
	iterNodes() int
	iterNodeQueues(i int32) []int
	resize()
	rellac()
	restructuring()
	restructuringLong(n int)
	reset()
	shrink(n int32) int32
	free()
	hole(k int32) bool
	dump() string
}

func verifVal(v int) string {
	if v < 0 {
		return "nil"
	}
	return "v" + strconv.Itoa(v)
}

func verifInts32(l []int32) string {
	s := make([]string, len(l))
	for i, v := range l {
		s[i] = strconv.Itoa(int(v))
	}
	return strings.Join(s, ",")
}

func verifInts(l []int) string {
	s := make([]string, len(l))
	for i, v := range l {
		s[i] = strconv.Itoa(v)
	}
	return strings.Join(s, ",")
}

// walks nodeQueueSizes from the head cursor, exactly as the model's `locate`
func verifLocate(sizes []int32, node int32, pos int32) (int32, int32, bool) {
	for fuel := len(sizes) + 1; fuel > 0; fuel-- {
		if node < 0 || int(node) >= len(sizes) {
			return 0, 0, false
		}
		s := sizes[node]
		if pos < s {
			return node, pos, true
		}
		node++
		pos -= s
	}
	return 0, 0, false
}

func verifQueueStep(q verifQ, op string, w *bufio.Writer, nlong *int) {
	arg := func() int {
		if op[1:] == "-" {
			return -1
		}
		n, err := strconv.Atoi(op[1:])
		if err != nil {
			panic("verif: bad op " + op)
		}
		return n
	}
	switch op[0] {
	case 'P':
		q.push(arg())
		w.WriteString(" ok")
	case 'L':
		if q.pushLeft(arg()) {
			w.WriteString(" ok")
		} else {
			w.WriteString(" full")
		}
	case 'p':
		w.WriteString(" " + verifVal(q.pop()))
	case 'r':
		w.WriteString(" " + verifVal(q.popRight()))
	case 'h':
		w.WriteString(" " + verifVal(q.head()))
	case 't':
		w.WriteString(" " + verifVal(q.tail()))
	case 'n':
		w.WriteString(" n" + strconv.Itoa(int(q.length())))
	case 'i':
		n := q.iterNodes()
		parts := make([]string, 0, n)
		for i := 0; i < n; i++ {
			l := q.iterNodeQueues(int32(i))
			es := make([]string, len(l))
			for j, v := range l {
				if v < 0 {
					es[j] = "-"
				} else {
					es[j] = strconv.Itoa(v)
				}
			}
			parts = append(parts, strings.Join(es, ","))
		}
		w.WriteString(" i" + strconv.Itoa(n) + "[" + strings.Join(parts, ";") + "]")
	case 'z':
		q.resize()
		w.WriteString(" ok")
	case 'c':
		q.rellac()
		w.WriteString(" ok")
	case 's':
		q.restructuring()
		w.WriteString(" ok")
	case 'S':
		q.restructuringLong(*nlong)
		*nlong++
		w.WriteString(" ok")
	case 'e':
		q.reset()
		w.WriteString(" ok")
	case 'k':
		w.WriteString(" n" + strconv.Itoa(int(q.shrink(int32(arg())))))
	case 'f':
		q.free()
		w.WriteString(" ok")
	case 'x':
		if q.hole(int32(arg())) {
			w.WriteString(" ok")
		} else {
			w.WriteString(" skip")
		}
	case 'd':
		w.WriteString(" " + q.dump())
	default:
		panic("verif: bad op " + op)
	}
}

func verifQueueCase(fields []string, w *bufio.Writer) {
	w.WriteString(fields[0])
	defer func() {
		if r := recover(); r != nil {
			msg := fmt.Sprint(r)
			if strings.HasPrefix(msg, "verif:") {
				panic(r)
			}
			fmt.Fprintf(os.Stderr, "%s panic: %s\n", fields[0], msg)
			w.WriteString(" PANIC")
		}
		w.WriteString("\n")
	}()
	base, _ := strconv.Atoi(fields[2])
	nodes, _ := strconv.Atoi(fields[3])
	size, _ := strconv.Atoi(fields[4])
	var q verifQ
	switch fields[1] {
	case "L":
		q = newVerifLockQueue(int32(base), int32(nodes), int32(size))
	case "C":
		q = newVerifLockCommandQueue(int32(base), int32(nodes), int32(size))
	case "M":
		q = newVerifLockManagerQueue(int32(base), int32(nodes), int32(size))
	default:
		panic("verif: bad queue type " + fields[1])
	}
	nlong := 0
	for _, op := range fields[5:] {
		verifQueueStep(q, op, w, &nlong)
	}
}

func VerifQueueMain(in *bufio.Reader, out *bufio.Writer) {
	sc := bufio.NewScanner(in)
	sc.Buffer(make([]byte, 1<<20), 1<<28)
	for sc.Scan() {
		line := strings.TrimSpace(sc.Text())
		if line == "" {
			continue
		}
		fields := strings.Fields(line)
		switch fields[1] {
		case "L", "C", "M":
			verifQueueCase(fields, out)
		case "G":
			verifLongWaitCase(fields, out)
		default:
			verifKeyQueueCase(fields, out)
		}
	}
}
