//go:build verif

// Injected into package server by `go build -overlay` (never written to /repo).
// Interpreter for the long-wait tables of server/db.go: LongWaitLockQueue, LongWaitLockFreeQueue and the LockDB code
// that drives them (AddTimeOut / AddExpried long branch, RemoveLongTimeOut / RemoveLongExpried with the restructure
// trigger, restructuringLongTimeOutQueue / restructuringLongExpriedQueue, the "Len() times Pop()" consumer idiom of
// checkTimeTimeOut / checkTimeExpried / flushTimeOut / flushExpried).  Model: /verif/coq/Queue/LongWait.v.
//
// Line protocol (one case per line):   <id> G <kind> <base> <nodes> <size> <maxfree> <op> <op> ...
//   kind = T : longTimeoutLocks table, AddTimeOut, RemoveLongTimeOut, restructuringLongTimeOutQueue
//          E : longExpriedLocks table, AddExpried, RemoveLongExpried, restructuringLongExpriedQueue
//   base nodes size : parameters of NewLongWaitLockQueue for the op N (GetLongWaitLockQueue always uses 4, 64, 256)
//   maxfree         : LongWaitLockFreeQueue{make([]*LongWaitLockQueue, maxfree), -1, maxfree - 1}   (production: 8096)
//   ops (every op prints exactly one observation token; <t> = time bucket (map key), <x> = lock id):
//     N<t>       install NewLongWaitLockQueue(base, nodes, size, 0, t) under key t      -> ok | skip (key exists)
//     A<t>.<x>   db.AddTimeOut / db.AddExpried of lock x with timeoutTime/expriedTime t  -> ok
//     X<t>.<x>   if lock.longWaitIndex > 0 { db.RemoveLongTimeOut(lock) / db.RemoveLongExpried(lock, t) }
//                      -> ok (no restructure) | ok+S (the call restructured the queue) | skip
//     R<t>.<x>   if lock.longWaitIndex > 0 { queue[t].Remove(lock) }  (no trigger)       -> ok | skip
//     S<t>       db.restructuringLong*Queue(queue[t])                                    -> ok | skip (no queue)
//     p<t>       queue[t].Pop()                                                          -> v<x> | nil | skip
//     n<t>       queue[t].Len(), lockCount, freeCount                                    -> n<len>/<count>/<free> | skip
//     C<t>       n := Len(); n times Pop() keeping the non-nil ones; delete(map, t); FreeLongWaitLockQueue  -> c[x,y,..] | skip
//     f          freeLongWaitQueues.Len()                                                -> n<k>
//     F          freeLongWaitQueues.Pop()                                                -> ok | nil
//     w<x>       lock.longWaitIndex                                                      -> w<uint64>  (0 for a lock never seen)
//     m          sorted keys of the table                                                -> m[t,..]
//     d<t>       dump of queue[t]: the 13 int fields;sizes;lens;halias;talias;lockTime;lockCount;freeCount -> d{..} | skip
// Output: <id> <obs> <obs> ...   (PANIC terminates a case: Go runtime panic inside the queue code)
package server

import (
	"bufio"
	"fmt"
	"os"
	"sort"
	"strconv"
	"strings"
)

type verifLong struct {
	kind  byte
	base  int32
	nodes int32
	size  int32
	db    *LockDB
	mgr   *LockManager
	objs  map[int]*Lock
	tags  map[*Lock]int
}

func (g *verifLong) table() map[int64]*LongWaitLockQueue {
	if g.kind == 'T' {
		return g.db.longTimeoutLocks[0]
	}
	return g.db.longExpriedLocks[0]
}

func (g *verifLong) lock(x int) *Lock {
	if l, ok := g.objs[x]; ok {
		return l
	}
	l := &Lock{manager: g.mgr, refCount: 200, aofTime: 0xff, timeoutCheckedCount: TIMEOUT_QUEUE_MAX_WAIT + 1,
		expriedCheckedCount: EXPRIED_QUEUE_MAX_WAIT + 1}
	g.objs[x] = l
	g.tags[l] = x
	return l
}

func verifLongArgs(op string) (int64, int) {
	a := op[1:]
	j := strings.IndexByte(a, '.')
	if j < 0 {
		t, err := strconv.ParseInt(a, 10, 64)
		if err != nil {
			panic("verif: bad op " + op)
		}
		return t, -1
	}
	t, err1 := strconv.ParseInt(a[:j], 10, 64)
	x, err2 := strconv.Atoi(a[j+1:])
	if err1 != nil || err2 != nil {
		panic("verif: bad op " + op)
	}
	return t, x
}

func (g *verifLong) dump(lw *LongWaitLockQueue) string {
	q := &lw.locks
	lens := make([]int, len(q.queues))
	for i, n := range q.queues {
		if n == nil {
			lens[i] = -1
		} else {
			lens[i] = len(n)
		}
	}
	alias := func(s []*Lock) int {
		if s == nil {
			return -2
		}
		if len(s) == 0 {
			return -3
		}
		for j, n := range q.queues {
			if len(n) > 0 && &n[0] == &s[0] {
				return j
			}
		}
		return -1
	}
	return "d{" + verifInts32([]int32{q.headQueueIndex, q.headQueueSize, q.tailQueueIndex, q.tailQueueSize, q.headNodeIndex,
		q.tailNodeIndex, q.baseNodeSize, q.nodeIndex, q.nodeSize, q.shrinkNodeSize, q.baseQueueSize, q.queueSize,
		q.rellacTailNodeIndex}) + ";" + verifInts32(q.nodeQueueSizes) + ";" + verifInts(lens) + ";" +
		strconv.Itoa(alias(q.headQueue)) + ";" + strconv.Itoa(alias(q.tailQueue)) + ";" +
		strconv.FormatInt(lw.lockTime, 10) + ";" + strconv.Itoa(int(lw.lockCount)) + ";" + strconv.Itoa(int(lw.freeCount)) + "}"
}

func (g *verifLong) step(op string, w *bufio.Writer) {
	skip := func() { w.WriteString(" skip") }
	tab := g.table()
	switch op[0] {
	case 'N':
		t, _ := verifLongArgs(op)
		if _, ok := tab[t]; ok {
			skip()
			return
		}
		tab[t] = NewLongWaitLockQueue(g.base, g.nodes, g.size, 0, t)
		w.WriteString(" ok")
	case 'A':
		t, x := verifLongArgs(op)
		l := g.lock(x)
		if g.kind == 'T' {
			l.timeoutTime = t
			g.db.AddTimeOut(l)
		} else {
			l.expriedTime = t
			g.db.AddExpried(l)
		}
		w.WriteString(" ok")
	case 'X', 'R':
		t, x := verifLongArgs(op)
		l, known := g.objs[x]
		lw, ok := tab[t]
		if !known || !ok || l.longWaitIndex == 0 {
			skip()
			return
		}
		if (g.kind == 'T' && l.timeoutTime != t) || (g.kind == 'E' && l.expriedTime != t) {
			panic("verif: lock " + strconv.Itoa(x) + " is not in bucket " + strconv.FormatInt(t, 10))
		}
		if op[0] == 'R' {
			lw.Remove(l)
			w.WriteString(" ok")
			return
		}
		before := lw.freeCount
		if g.kind == 'T' {
			g.db.RemoveLongTimeOut(l)
		} else {
			g.db.RemoveLongExpried(l, t)
		}
		if lw.freeCount == before+1 {
			w.WriteString(" ok")
		} else {
			w.WriteString(" ok+S")
		}
	case 'S':
		t, _ := verifLongArgs(op)
		lw, ok := tab[t]
		if !ok {
			skip()
			return
		}
		if g.kind == 'T' {
			g.db.restructuringLongTimeOutQueue(lw)
		} else {
			g.db.restructuringLongExpriedQueue(lw)
		}
		w.WriteString(" ok")
	case 'p':
		t, _ := verifLongArgs(op)
		lw, ok := tab[t]
		if !ok {
			skip()
			return
		}
		l := lw.Pop()
		if l == nil {
			w.WriteString(" nil")
		} else {
			w.WriteString(" v" + strconv.Itoa(g.tags[l]))
		}
	case 'n':
		t, _ := verifLongArgs(op)
		lw, ok := tab[t]
		if !ok {
			skip()
			return
		}
		w.WriteString(" n" + strconv.Itoa(int(lw.Len())) + "/" + strconv.Itoa(int(lw.lockCount)) + "/" + strconv.Itoa(int(lw.freeCount)))
	case 'C':
		t, _ := verifLongArgs(op)
		longLocks, ok := tab[t]
		if !ok {
			skip()
			return
		}
		// the consumer idiom of checkTimeTimeOut / checkTimeExpried / flushTimeOut / flushExpried (db.go:800-822)
		got := make([]string, 0)
		longLockCount := longLocks.Len()
		for longLockCount > 0 {
			lock := longLocks.Pop()
			if lock != nil {
				got = append(got, strconv.Itoa(g.tags[lock]))
			}
			longLockCount--
		}
		delete(tab, t)
		g.db.freeLongWaitQueues[0].FreeLongWaitLockQueue(longLocks, g.db.currentTime)
		w.WriteString(" c[" + strings.Join(got, ",") + "]")
	case 'f':
		w.WriteString(" n" + strconv.Itoa(g.db.freeLongWaitQueues[0].Len()))
	case 'F':
		if g.db.freeLongWaitQueues[0].Pop() == nil {
			w.WriteString(" nil")
		} else {
			w.WriteString(" ok")
		}
	case 'w':
		x, err := strconv.Atoi(op[1:])
		if err != nil {
			panic("verif: bad op " + op)
		}
		if l, known := g.objs[x]; known {
			w.WriteString(" w" + strconv.FormatUint(l.longWaitIndex, 10))
		} else {
			w.WriteString(" w0")
		}
	case 'm':
		keys := make([]int, 0, len(tab))
		for t := range tab {
			keys = append(keys, int(t))
		}
		sort.Ints(keys)
		w.WriteString(" m[" + verifInts(keys) + "]")
	case 'd':
		t, _ := verifLongArgs(op)
		lw, ok := tab[t]
		if !ok {
			skip()
			return
		}
		w.WriteString(" " + g.dump(lw))
	default:
		panic("verif: bad op " + op)
	}
}

func verifLongWaitCase(fields []string, w *bufio.Writer) {
	w.WriteString(fields[0])
	defer func() {
		if r := recover(); r != nil {
			msg := fmt.Sprint(r)
			if strings.HasPrefix(msg, "verif:") {
				panic(r)
			}
			fmt.Fprintf(os.Stderr, "%s panic: %s\n", fields[0], msg)
			w.WriteString(" PANIC")
		}
		w.WriteString("\n")
	}()
	if len(fields) < 7 || len(fields[2]) != 1 || (fields[2] != "T" && fields[2] != "E") {
		panic("verif: bad long-wait case header")
	}
	num := func(i int) int {
		n, err := strconv.Atoi(fields[i])
		if err != nil {
			panic("verif: bad parameter " + fields[i])
		}
		return n
	}
	maxfree := num(6)
	g := &verifLong{kind: fields[2][0], base: int32(num(3)), nodes: int32(num(4)), size: int32(num(5)),
		objs: make(map[int]*Lock), tags: make(map[*Lock]int)}
	g.mgr = &LockManager{glockIndex: 0}
	g.db = &LockDB{longTimeoutLocks: []map[int64]*LongWaitLockQueue{{}}, longExpriedLocks: []map[int64]*LongWaitLockQueue{{}},
		freeLongWaitQueues: []*LongWaitLockFreeQueue{{make([]*LongWaitLockQueue, maxfree), -1, maxfree - 1}}}
	for _, op := range fields[7:] {
		g.step(op, w)
	}
}
