// C18 reproduction A: wills registered inside an ADMIN-nested text session.
//
// Standard library only; drives a real slock server process over TCP.
//
//	usage: reproA <path-to-slock-binary> <scratch-dir>
//
// History on the connection under test (C):
//
//	C  binary : ADMIN (64-byte command, type 4)                         -> AdminResult SUCCED, connection is now a nested text session
//	C  text   : LOCK <M> LOCK_ID <W> TIMEOUT 0 EXPRIED 60 RCOUNT 10 WILL 1   -> +OK   (will registered)
//	C  text   : PING                                                    -> +PONG (barrier)
//	P  text   : LOCK <M> LOCK_ID <X> TIMEOUT 0 EXPRIED 5 ; UNLOCK       -> 0 / 0 (M is free while C is open: the will has not run early)
//	C         : connection ends (TCP close; with REPRO_QUIT=1: text QUIT first)
//	P  text   : LOCK <M> LOCK_ID <W> TIMEOUT 0 EXPRIED 5 RCOUNT 10      -> LRCOUNT n ; the will ran n-1 times
//
// Two control connections run the same history without ADMIN (a plain text connection and a plain binary connection
// using WILL_LOCK, command type 8) to show that the observation method does see an executed will.
//
// exit 0 = the will of the ADMIN-nested session was executed exactly once, 1 = it was not.
package main

import (
	"bufio"
	"fmt"
	"io"
	"net"
	"os"
	"os/exec"
	"path/filepath"
	"strconv"
	"strings"
	"time"
)

func fail(format string, args ...interface{}) {
	fmt.Printf("HARNESS ERROR: "+format+"\n", args...)
	cleanup()
	os.Exit(2)
}

var cleanup = func() {}

func must(err error, what string) {
	if err != nil {
		fail("%s: %v", what, err)
	}
}

func freePort() int {
	l, err := net.Listen("tcp", "127.0.0.1:0")
	must(err, "pick port")
	p := l.Addr().(*net.TCPAddr).Port
	_ = l.Close()
	return p
}

// ---- text (RESP) client ----

type textConn struct {
	c net.Conn
	r *bufio.Reader
}

func dialText(addr string) *textConn {
	c, err := net.DialTimeout("tcp", addr, 2*time.Second)
	must(err, "dial")
	return &textConn{c, bufio.NewReader(c)}
}

func respEncode(args ...string) []byte {
	s := fmt.Sprintf("*%d\r\n", len(args))
	for _, a := range args {
		s += fmt.Sprintf("$%d\r\n%s\r\n", len(a), a)
	}
	return []byte(s)
}

func (t *textConn) readLine() string {
	_ = t.c.SetReadDeadline(time.Now().Add(5 * time.Second))
	line, err := t.r.ReadString('\n')
	must(err, "text read")
	return strings.TrimRight(line, "\r\n")
}

// readReply returns the reply flattened to a list of strings ("+OK" -> ["OK"], "-ERR x" -> ["-ERR x"]).
func (t *textConn) readReply() []string {
	line := t.readLine()
	switch line[0] {
	case '+':
		return []string{line[1:]}
	case '-':
		return []string{line}
	case ':':
		return []string{line[1:]}
	case '$':
		n, _ := strconv.Atoi(line[1:])
		if n < 0 {
			return []string{""}
		}
		buf := make([]byte, n+2)
		_, err := io.ReadFull(t.r, buf)
		must(err, "text read bulk")
		return []string{string(buf[:n])}
	case '*':
		n, _ := strconv.Atoi(line[1:])
		out := make([]string, 0, n)
		for i := 0; i < n; i++ {
			out = append(out, t.readReply()...)
		}
		return out
	}
	fail("unexpected text reply line %q", line)
	return nil
}

func (t *textConn) cmd(args ...string) []string {
	_, err := t.c.Write(respEncode(args...))
	must(err, "text write")
	return t.readReply()
}

// lockReply extracts (result, lrcount) from a LOCK/UNLOCK reply.
func lockReply(rep []string) (int, int) {
	if len(rep) < 12 {
		fail("unexpected LOCK reply %v", rep)
	}
	res, _ := strconv.Atoi(rep[0])
	lr := -1
	for i := 2; i+1 < len(rep); i += 2 {
		if rep[i] == "LRCOUNT" {
			lr, _ = strconv.Atoi(rep[i+1])
		}
	}
	return res, lr
}

// ---- binary helpers ----

func id16(s string) (r [16]byte) {
	if len(s) != 16 {
		fail("id %q must be 16 chars", s)
	}
	copy(r[:], s)
	return
}

func binHeader(cmdType byte, reqId [16]byte) []byte {
	buf := make([]byte, 64)
	buf[0], buf[1], buf[2] = 0x56, 0x01, cmdType
	copy(buf[3:19], reqId[:])
	return buf
}

func binLock(cmdType byte, reqId, lockId, lockKey [16]byte, timeout, expried uint16, count uint16, rcount uint8) []byte {
	buf := binHeader(cmdType, reqId)
	copy(buf[21:37], lockId[:])
	copy(buf[37:53], lockKey[:])
	buf[53], buf[54] = byte(timeout), byte(timeout>>8)
	buf[57], buf[58] = byte(expried), byte(expried>>8)
	buf[61], buf[62] = byte(count), byte(count>>8)
	buf[63] = rcount
	return buf
}

func binRead(c net.Conn) []byte {
	buf := make([]byte, 64)
	_ = c.SetReadDeadline(time.Now().Add(5 * time.Second))
	_, err := io.ReadFull(c, buf)
	must(err, "binary read")
	return buf
}

// ---- the observation ----

// keyFree checks through an ordinary request that nobody holds key (LOCK with a fresh lock id succeeds at once), and releases it again.
func keyFree(p *textConn, key string) bool {
	res, _ := lockReply(p.cmd("LOCK", key, "LOCK_ID", "c18-probe-lockid", "TIMEOUT", "0", "EXPRIED", "5"))
	if res != 0 {
		return false
	}
	res, _ = lockReply(p.cmd("UNLOCK", key, "LOCK_ID", "c18-probe-lockid"))
	if res != 0 {
		fail("probe unlock result %d", res)
	}
	return true
}

// willRuns returns how many times the will "LOCK key LOCK_ID willId RCOUNT 10" has been executed: the probe re-enters
// the same lock id, LRCOUNT counts the re-entries including the probe's own.
func willRuns(p *textConn, key, willId string) int {
	res, lr := lockReply(p.cmd("LOCK", key, "LOCK_ID", willId, "TIMEOUT", "0", "EXPRIED", "5", "RCOUNT", "10"))
	if res != 0 {
		fail("probe re-entrant lock result %d", res)
	}
	return lr - 1
}

func verdict(name string, n int) bool {
	switch {
	case n == 0:
		fmt.Printf("%-40s: WILL NOT EXECUTED\n", name)
	case n == 1:
		fmt.Printf("%-40s: WILL EXECUTED (exactly once)\n", name)
	default:
		fmt.Printf("%-40s: WILL EXECUTED %d TIMES\n", name, n)
	}
	return n == 1
}

func main() {
	if len(os.Args) < 3 {
		fmt.Println("usage: reproA <slock-binary> <scratch-dir>")
		os.Exit(2)
	}
	bin, scratch := os.Args[1], os.Args[2]
	dataDir := filepath.Join(scratch, "data")
	must(os.MkdirAll(dataDir, 0755), "mkdir data")
	port := freePort()
	addr := fmt.Sprintf("127.0.0.1:%d", port)

	srv := exec.Command(bin, "--bind", "127.0.0.1", "--port", fmt.Sprint(port), "--data_dir", dataDir, "--log", filepath.Join(scratch, "slock.log"))
	srv.Dir = scratch
	must(srv.Start(), "start server")
	cleanup = func() { _ = srv.Process.Kill(); _, _ = srv.Process.Wait() }

	up := false
	for i := 0; i < 100; i++ {
		c, err := net.DialTimeout("tcp", addr, 200*time.Millisecond)
		if err == nil {
			_ = c.Close()
			up = true
			break
		}
		time.Sleep(100 * time.Millisecond)
	}
	if !up {
		fail("server did not start")
	}
	useQuit := os.Getenv("REPRO_QUIT") != ""

	p := dialText(addr)
	if rep := p.cmd("PING"); rep[0] != "PONG" {
		fail("probe ping: %v", rep)
	}

	// ---- control 1: plain text connection ----
	{
		key, willId := "c18-marker-key-1", "c18-will-lock-01"
		c := dialText(addr)
		if rep := c.cmd("LOCK", key, "LOCK_ID", willId, "TIMEOUT", "0", "EXPRIED", "60", "RCOUNT", "10", "WILL", "1"); rep[0] != "OK" {
			fail("control text: will registration reply %v", rep)
		}
		if rep := c.cmd("PING"); rep[0] != "PONG" {
			fail("control text: ping %v", rep)
		}
		if !keyFree(p, key) {
			fmt.Println("control (plain text connection): the will ran BEFORE the connection ended")
		}
		_ = c.c.Close()
		time.Sleep(500 * time.Millisecond)
		if !verdict("control (plain text connection)", willRuns(p, key, willId)) {
			fail("control failed: the observation method does not work")
		}
	}

	// ---- control 2: plain binary connection, WILL_LOCK ----
	{
		key, willId := "c18-marker-key-2", "c18-will-lock-02"
		c, err := net.DialTimeout("tcp", addr, 2*time.Second)
		must(err, "dial")
		_, err = c.Write(binLock(8, id16("req-will-0000002"), id16(willId), id16(key), 0, 60, 0, 9))
		must(err, "write will")
		_, err = c.Write(binHeader(5, id16("req-ping-0000002"))) // PING as a barrier
		must(err, "write ping")
		if rep := binRead(c); rep[2] != 5 || rep[19] != 0 {
			fail("control binary: ping reply % x", rep[:20])
		}
		if !keyFree(p, key) {
			fmt.Println("control (plain binary connection): the will ran BEFORE the connection ended")
		}
		_ = c.Close()
		time.Sleep(500 * time.Millisecond)
		if !verdict("control (plain binary connection)", willRuns(p, key, willId)) {
			fail("control failed: the observation method does not work")
		}
	}

	// ---- connection under test: binary connection, ADMIN, nested text session ----
	key, willId := "c18-marker-key-A", "c18-will-lock-0A"
	c, err := net.DialTimeout("tcp", addr, 2*time.Second)
	must(err, "dial")
	_, err = c.Write(binHeader(4, id16("req-admin-000001")))
	must(err, "write admin")
	if rep := binRead(c); rep[2] != 4 || rep[19] != 0 {
		fail("ADMIN reply % x", rep[:20])
	}
	fmt.Println("C: ADMIN -> SUCCED; connection is now an ADMIN-nested text session")
	t := &textConn{c, bufio.NewReader(c)}
	rep := t.cmd("LOCK", key, "LOCK_ID", willId, "TIMEOUT", "0", "EXPRIED", "60", "RCOUNT", "10", "WILL", "1")
	fmt.Printf("C: LOCK %s LOCK_ID %s TIMEOUT 0 EXPRIED 60 RCOUNT 10 WILL 1 -> %v\n", key, willId, rep)
	if rep[0] != "OK" {
		fmt.Println("the ADMIN-nested session did not accept the will registration; scenario unreachable")
		cleanup()
		os.Exit(3)
	}
	if rep := t.cmd("PING"); rep[0] != "PONG" {
		fail("nested ping %v", rep)
	}
	early := !keyFree(p, key)
	if early {
		fmt.Println("P: marker key is held while C is still open: the will ran BEFORE the connection ended")
	} else {
		fmt.Println("P: marker key is free while C is open (will not run early)")
	}
	if useQuit {
		fmt.Printf("C: QUIT -> %v\n", t.cmd("QUIT"))
	}
	_ = c.Close()
	fmt.Println("C: connection closed")
	time.Sleep(500 * time.Millisecond)
	n := willRuns(p, key, willId)
	ok := verdict("ADMIN-nested text session", n) && !early

	// ---- registration order across the ADMIN switch ----
	// C2 binary : WILL_LOCK <O> lock id <X>            (registered first, before ADMIN)
	// C2 binary : ADMIN
	// C2 text   : UNLOCK <O> LOCK_ID <X> WILL 1        (registered second, inside the nested session)
	// C2 closes.  In registration order: LOCK then UNLOCK -> O is free afterwards.
	// Reversed or second will missing: O stays held.
	{
		key, willId := "c18-marker-key-O", "c18-will-lock-0O"
		c2, err := net.DialTimeout("tcp", addr, 2*time.Second)
		must(err, "dial")
		_, err = c2.Write(binLock(8, id16("req-will-000000O"), id16(willId), id16(key), 0, 60, 0, 0))
		must(err, "write will")
		_, err = c2.Write(binHeader(5, id16("req-ping-000000O")))
		must(err, "write ping")
		if rep := binRead(c2); rep[2] != 5 || rep[19] != 0 {
			fail("order: ping reply % x", rep[:20])
		}
		_, err = c2.Write(binHeader(4, id16("req-admin-00000O")))
		must(err, "write admin")
		if rep := binRead(c2); rep[2] != 4 || rep[19] != 0 {
			fail("order: ADMIN reply % x", rep[:20])
		}
		t2 := &textConn{c2, bufio.NewReader(c2)}
		if rep := t2.cmd("UNLOCK", key, "LOCK_ID", willId, "WILL", "1"); rep[0] != "OK" {
			fail("order: nested will registration reply %v", rep)
		}
		if rep := t2.cmd("PING"); rep[0] != "PONG" {
			fail("order: nested ping %v", rep)
		}
		_ = c2.Close()
		time.Sleep(500 * time.Millisecond)
		if keyFree(p, key) {
			fmt.Println("order (WILL_LOCK O; ADMIN; UNLOCK O WILL 1)   : O free afterwards - both wills ran, in registration order")
		} else {
			fmt.Println("order (WILL_LOCK O; ADMIN; UNLOCK O WILL 1)   : O still held afterwards - second will missing or run before the first")
			ok = false
		}
	}
	cleanup()
	if ok {
		os.Exit(0)
	}
	os.Exit(1)
}
