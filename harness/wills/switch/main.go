// C18 reproduction B: wills registered on a connection that a NON-LEADER node wrapped in a Transparency*ServerProtocol
// (server/transparency.go) are lost when the connection ends after that node has become the leader.
//
// Standard library only; drives two real slock server processes over TCP.
//
//	usage: reproB <path-to-slock-binary> <scratch-dir>
//
// Setup: node L (leader) and node F started with --slaveof L; wait until F reports state:follower.
//
// Histories (each on its own connection to F, all opened while F is a follower):
//
//	C0 binary (control, F stays follower): WILL_LOCK K0 ; PING ; close            -> will is forwarded to L and runs there once
//	C1 binary : WILL_LOCK K1 ; PING                     | switch | close           (will registered before the switch)
//	C2 binary : PING                                    | switch | WILL_LOCK K2 ; PING ; close   (will registered after the switch)
//	C3 binary : INIT ; WILL_LOCK K3 ; PING              | switch | close           (INIT was forwarded: an upstream connection to L is open)
//	T4 text   : LOCK K4 LOCK_ID W4 ... WILL 1 ; PING    | switch | close           (TransparencyTextServerProtocol)
//	switch = text command SLAVEOF (no arguments) on an admin connection to F -> +OK, F reports state:leader
//
// Observation, through ordinary requests on fresh text connections: before the close the marker key is free on F;
// after the close LOCK <K> LOCK_ID <W> RCOUNT 10 re-enters the will's lock and LRCOUNT-1 = number of times the will ran.
// F is the leader when the connections end, so every will has to run on F exactly once (and not on L).
//
// exit 0 = every will ran exactly once on F, 1 = not, 2 = harness problem.
package main

import (
	"bufio"
	"fmt"
	"io"
	"net"
	"os"
	"os/exec"
	"path/filepath"
	"strconv"
	"strings"
	"time"
)

func fail(format string, args ...interface{}) {
	fmt.Printf("HARNESS ERROR: "+format+"\n", args...)
	cleanup()
	os.Exit(2)
}

var cleanup = func() {}

func must(err error, what string) {
	if err != nil {
		fail("%s: %v", what, err)
	}
}

func freePort() int {
	l, err := net.Listen("tcp", "127.0.0.1:0")
	must(err, "pick port")
	p := l.Addr().(*net.TCPAddr).Port
	_ = l.Close()
	return p
}

// ---- text (RESP) client ----

type textConn struct {
	c net.Conn
	r *bufio.Reader
}

func dialText(addr string) *textConn {
	c, err := net.DialTimeout("tcp", addr, 2*time.Second)
	must(err, "dial")
	return &textConn{c, bufio.NewReader(c)}
}

func respEncode(args ...string) []byte {
	s := fmt.Sprintf("*%d\r\n", len(args))
	for _, a := range args {
		s += fmt.Sprintf("$%d\r\n%s\r\n", len(a), a)
	}
	return []byte(s)
}

func (t *textConn) readLine() string {
	_ = t.c.SetReadDeadline(time.Now().Add(5 * time.Second))
	line, err := t.r.ReadString('\n')
	must(err, "text read")
	return strings.TrimRight(line, "\r\n")
}

// readReply returns the reply flattened to a list of strings ("+OK" -> ["OK"], "-ERR x" -> ["-ERR x"]).
func (t *textConn) readReply() []string {
	line := t.readLine()
	switch line[0] {
	case '+':
		return []string{line[1:]}
	case '-':
		return []string{line}
	case ':':
		return []string{line[1:]}
	case '$':
		n, _ := strconv.Atoi(line[1:])
		if n < 0 {
			return []string{""}
		}
		buf := make([]byte, n+2)
		_, err := io.ReadFull(t.r, buf)
		must(err, "text read bulk")
		return []string{string(buf[:n])}
	case '*':
		n, _ := strconv.Atoi(line[1:])
		out := make([]string, 0, n)
		for i := 0; i < n; i++ {
			out = append(out, t.readReply()...)
		}
		return out
	}
	fail("unexpected text reply line %q", line)
	return nil
}

func (t *textConn) cmd(args ...string) []string {
	_, err := t.c.Write(respEncode(args...))
	must(err, "text write")
	return t.readReply()
}

// lockReply extracts (result, lrcount) from a LOCK/UNLOCK reply.
func lockReply(rep []string) (int, int) {
	if len(rep) < 12 {
		fail("unexpected LOCK reply %v", rep)
	}
	res, _ := strconv.Atoi(rep[0])
	lr := -1
	for i := 2; i+1 < len(rep); i += 2 {
		if rep[i] == "LRCOUNT" {
			lr, _ = strconv.Atoi(rep[i+1])
		}
	}
	return res, lr
}

// ---- binary helpers ----

func id16(s string) (r [16]byte) {
	if len(s) != 16 {
		fail("id %q must be 16 chars", s)
	}
	copy(r[:], s)
	return
}

func binHeader(cmdType byte, reqId [16]byte) []byte {
	buf := make([]byte, 64)
	buf[0], buf[1], buf[2] = 0x56, 0x01, cmdType
	copy(buf[3:19], reqId[:])
	return buf
}

func binLock(cmdType byte, reqId, lockId, lockKey [16]byte, timeout, expried uint16, count uint16, rcount uint8) []byte {
	buf := binHeader(cmdType, reqId)
	copy(buf[21:37], lockId[:])
	copy(buf[37:53], lockKey[:])
	buf[53], buf[54] = byte(timeout), byte(timeout>>8)
	buf[57], buf[58] = byte(expried), byte(expried>>8)
	buf[61], buf[62] = byte(count), byte(count>>8)
	buf[63] = rcount
	return buf
}

func binRead(c net.Conn) []byte {
	buf := make([]byte, 64)
	_ = c.SetReadDeadline(time.Now().Add(5 * time.Second))
	_, err := io.ReadFull(c, buf)
	must(err, "binary read")
	return buf
}

// ---- the observation ----

// keyFree checks through an ordinary request that nobody holds key (LOCK with a fresh lock id succeeds at once), and releases it again.
func keyFree(p *textConn, key string) bool {
	res, _ := lockReply(p.cmd("LOCK", key, "LOCK_ID", "c18-probe-lockid", "TIMEOUT", "0", "EXPRIED", "5"))
	if res != 0 {
		return false
	}
	res, _ = lockReply(p.cmd("UNLOCK", key, "LOCK_ID", "c18-probe-lockid"))
	if res != 0 {
		fail("probe unlock result %d", res)
	}
	return true
}

// willRuns returns how many times the will "LOCK key LOCK_ID willId RCOUNT 10" has been executed: the probe re-enters
// the same lock id, LRCOUNT counts the re-entries including the probe's own.
func willRuns(p *textConn, key, willId string) int {
	res, lr := lockReply(p.cmd("LOCK", key, "LOCK_ID", willId, "TIMEOUT", "0", "EXPRIED", "5", "RCOUNT", "10"))
	if res != 0 {
		fail("probe re-entrant lock result %d", res)
	}
	return lr - 1
}

func verdict(name string, n int) bool {
	switch {
	case n == 0:
		fmt.Printf("%-40s: WILL NOT EXECUTED\n", name)
	case n == 1:
		fmt.Printf("%-40s: WILL EXECUTED (exactly once)\n", name)
	default:
		fmt.Printf("%-40s: WILL EXECUTED %d TIMES\n", name, n)
	}
	return n == 1
}

func startNode(bin, scratch, name string, port int, extra ...string) *exec.Cmd {
	dir := filepath.Join(scratch, name)
	must(os.MkdirAll(filepath.Join(dir, "data"), 0755), "mkdir")
	args := append([]string{"--bind", "127.0.0.1", "--port", fmt.Sprint(port), "--data_dir", filepath.Join(dir, "data"), "--log", filepath.Join(dir, "slock.log")}, extra...)
	cmd := exec.Command(bin, args...)
	cmd.Dir = dir
	must(cmd.Start(), "start "+name)
	return cmd
}

func waitUp(addr string) {
	for i := 0; i < 100; i++ {
		c, err := net.DialTimeout("tcp", addr, 200*time.Millisecond)
		if err == nil {
			_ = c.Close()
			return
		}
		time.Sleep(100 * time.Millisecond)
	}
	fail("server %s did not start", addr)
}

func nodeState(t *textConn) string {
	rep := t.cmd("INFO", "server")
	for _, line := range strings.Split(strings.Join(rep, "\n"), "\n") {
		line = strings.TrimSpace(line)
		if strings.HasPrefix(line, "state:") {
			return line[len("state:"):]
		}
	}
	return "?"
}

func waitState(t *textConn, want string) {
	got := ""
	for i := 0; i < 100; i++ {
		got = nodeState(t)
		if got == want {
			return
		}
		time.Sleep(100 * time.Millisecond)
	}
	fail("node did not reach state %s (last %s)", want, got)
}

func binDial(addr string) net.Conn {
	c, err := net.DialTimeout("tcp", addr, 2*time.Second)
	must(err, "dial")
	return c
}

func binPing(c net.Conn, who string) {
	_, err := c.Write(binHeader(5, id16("req-ping-0000001")))
	must(err, who+" write ping")
	if rep := binRead(c); rep[2] != 5 || rep[19] != 0 {
		fail("%s: ping reply % x", who, rep[:20])
	}
}

func binWill(c net.Conn, who, key, willId string) {
	_, err := c.Write(binLock(8, id16("req-will-0000001"), id16(willId), id16(key), 0, 60, 0, 9))
	must(err, who+" write will")
	binPing(c, who) // WILL_LOCK has no reply; the PING reply shows it has been processed
}

func main() {
	if len(os.Args) < 3 {
		fmt.Println("usage: reproB <slock-binary> <scratch-dir>")
		os.Exit(2)
	}
	bin, scratch := os.Args[1], os.Args[2]
	portL, portF := freePort(), freePort()
	addrL, addrF := fmt.Sprintf("127.0.0.1:%d", portL), fmt.Sprintf("127.0.0.1:%d", portF)

	nodeL := startNode(bin, scratch, "L", portL)
	cleanup = func() { _ = nodeL.Process.Kill(); _, _ = nodeL.Process.Wait() }
	waitUp(addrL)
	nodeF := startNode(bin, scratch, "F", portF, "--slaveof", addrL)
	cleanup = func() {
		_ = nodeF.Process.Kill()
		_, _ = nodeF.Process.Wait()
		_ = nodeL.Process.Kill()
		_, _ = nodeL.Process.Wait()
	}
	waitUp(addrF)

	pL := dialText(addrL)
	admin := dialText(addrF)
	waitState(admin, "follower")
	fmt.Printf("L: state %s   F: state %s (started with --slaveof L)\n", nodeState(pL), nodeState(admin))

	// ---- control: F stays a follower, the will is forwarded to L ----
	{
		key, willId := "c18-marker-key-0", "c18-will-lock-00"
		c0 := binDial(addrF)
		binWill(c0, "C0", key, willId)
		if !keyFree(pL, key) {
			fmt.Println("control: the will ran BEFORE the connection ended")
		}
		_ = c0.Close()
		time.Sleep(700 * time.Millisecond)
		if !verdict("control C0 (F still follower), on L", willRuns(pL, key, willId)) {
			fail("control failed: the observation method does not work")
		}
	}

	type tcase struct {
		name, key, willId string
		closeFn           func()
	}
	cases := []*tcase{}

	// C1: binary, will registered before the switch
	c1 := binDial(addrF)
	binWill(c1, "C1", "c18-marker-key-1", "c18-will-lock-01")
	cases = append(cases, &tcase{"C1 binary, will before switch", "c18-marker-key-1", "c18-will-lock-01", func() { _ = c1.Close() }})
	fmt.Println("C1: WILL_LOCK c18-marker-key-1 ; PING -> SUCCED")

	// C2: binary, connected now, will registered after the switch
	c2 := binDial(addrF)
	binPing(c2, "C2")
	fmt.Println("C2: PING -> SUCCED")

	// C3: binary, INIT first (forwarded to L: upstream connection open), then the will
	c3 := binDial(addrF)
	{
		buf := binHeader(0, id16("req-init-0000003"))
		copy(buf[19:35], "c18-client-id-03")
		_, err := c3.Write(buf)
		must(err, "C3 write init")
		if rep := binRead(c3); rep[2] != 0 || rep[19] != 0 {
			fail("C3: init reply % x", rep[:21])
		}
	}
	binWill(c3, "C3", "c18-marker-key-3", "c18-will-lock-03")
	cases = append(cases, &tcase{"C3 binary, INIT + will before switch", "c18-marker-key-3", "c18-will-lock-03", func() { _ = c3.Close() }})
	fmt.Println("C3: INIT -> SUCCED ; WILL_LOCK c18-marker-key-3 ; PING -> SUCCED")

	// T4: text connection
	t4 := dialText(addrF)
	if rep := t4.cmd("LOCK", "c18-marker-key-4", "LOCK_ID", "c18-will-lock-04", "TIMEOUT", "0", "EXPRIED", "60", "RCOUNT", "10", "WILL", "1"); rep[0] != "OK" {
		fail("T4: will registration reply %v", rep)
	}
	if rep := t4.cmd("PING"); rep[0] != "PONG" {
		fail("T4: ping %v", rep)
	}
	cases = append(cases, &tcase{"T4 text, will before switch", "c18-marker-key-4", "c18-will-lock-04", func() { _ = t4.c.Close() }})
	fmt.Println("T4: LOCK c18-marker-key-4 LOCK_ID c18-will-lock-04 TIMEOUT 0 EXPRIED 60 RCOUNT 10 WILL 1 -> OK ; PING -> PONG")

	// ---- the switch: F becomes the leader ----
	rep := admin.cmd("SLAVEOF")
	fmt.Printf("admin on F: SLAVEOF -> %v\n", rep)
	if rep[0] != "OK" {
		fail("SLAVEOF failed")
	}
	waitState(admin, "leader")
	fmt.Printf("F: state %s\n", nodeState(admin))

	binWill(c2, "C2", "c18-marker-key-2", "c18-will-lock-02")
	cases = append(cases, &tcase{"C2 binary, will after switch", "c18-marker-key-2", "c18-will-lock-02", func() { _ = c2.Close() }})
	fmt.Println("C2: WILL_LOCK c18-marker-key-2 ; PING -> SUCCED")

	pF := dialText(addrF) // fresh connection: F is the leader now, so this is an ordinary text connection
	ok := true
	for _, tc := range cases {
		if !keyFree(pF, tc.key) || !keyFree(pL, tc.key) {
			fmt.Printf("%s: marker key is held while the connection is still open: the will ran early\n", tc.name)
			ok = false
		}
	}
	fmt.Println("all marker keys are free on F and on L while the connections are open; closing C1 C3 T4 C2")
	for _, tc := range cases {
		tc.closeFn()
	}
	time.Sleep(1 * time.Second)
	for _, tc := range cases {
		onF := willRuns(pF, tc.key, tc.willId)
		onL := willRuns(pL, tc.key, tc.willId)
		if !verdict(tc.name+", on F", onF) {
			ok = false
		}
		if onL != 0 {
			fmt.Printf("%-40s: the will ran %d time(s) on the OLD leader L\n", tc.name, onL)
			ok = false
		}
	}
	cleanup()
	if ok {
		os.Exit(0)
	}
	os.Exit(1)
}
