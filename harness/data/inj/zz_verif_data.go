//go:build verif

// In-package harness for the value-operation layer (ProcessLockData and friends).
// Injected into package server by `go build -overlay`; nothing in /repo is changed.
//
// stdin: one case per line, steps separated by ';'. Every case runs on a fresh bare LockManager with 4 Lock slots.
//
//	P <slot> <islock> <flag> <eflag> <expried> <locked> <waited> <recover> x<hexframe>  ProcessLockData
//	R <slot>                      ProcessRecoverLockData
//	A <slot>                      ProcessAckLockData
//	F <slot> <islock>             AofLockData
//	G                             GetLockData
//	C <m>                         lockManager.currentData = m        (m = - | hexdata/hexcap/type/isaof)
//	L <slot> <ld>                 lock.data = ld   (ld = - | aof|cur|rec|rv ; aof = - | hex ; rv = n | i<dec> | p<dec> | b<hex> | v<hex>,<hex>..)
//
// stdout: one line per case: per step `<result> cur=<m> ld=<ld0> <ld1> <ld2> <ld3>` joined by " ; " where
// result = ok | ok:<hex or -> (A, F, G) | panic:<go function>   (a panic ends the case).
package server

import (
	"bufio"
	"encoding/hex"
	"fmt"
	"os"
	"runtime"
	"strconv"
	"strings"

	"github.com/snower/slock/protocol"
)

func verifDataHex(b []byte) string {
	if b == nil {
		return "-"
	}
	return hex.EncodeToString(b)
}

func verifDataFmtM(m *LockManagerData, withAof bool) string {
	if m == nil {
		return "-"
	}
	d := m.data
	tail := d[len(d):cap(d)]
	s := hex.EncodeToString(d) + "/" + hex.EncodeToString(tail) + "/" + strconv.Itoa(int(m.commandType))
	if withAof {
		if m.isAof {
			s += "/1"
		} else {
			s += "/0"
		}
	}
	return s
}

func verifDataFmtRV(v interface{}) string {
	switch x := v.(type) {
	case nil:
		return "n"
	case int64:
		return "i" + strconv.FormatInt(x, 10)
	case uint64:
		return "p" + strconv.FormatUint(x, 10)
	case []byte:
		return "b" + hex.EncodeToString(x)
	case [][]byte:
		parts := make([]string, 0, len(x))
		for _, e := range x {
			parts = append(parts, hex.EncodeToString(e))
		}
		return "v" + strings.Join(parts, ",")
	}
	return fmt.Sprintf("?%T", v)
}

func verifDataFmtLD(ld *LockData) string {
	if ld == nil {
		return "-"
	}
	s := verifDataHex(ld.aofData) + "|" + verifDataFmtM(ld.currentData, false) + "|" + verifDataFmtM(ld.recoverData, false) + "|" + verifDataFmtRV(ld.recoverValue)
	if ld.commandDatas != nil {
		s += "|cmds" + strconv.Itoa(len(ld.commandDatas))
	}
	return s
}

// exact-capacity copy (frames read from the network are make([]byte, frameLen+4))
func verifDataBytes(h string) []byte {
	b, err := hex.DecodeString(h)
	if err != nil {
		fmt.Fprintf(os.Stderr, "bad hex %q\n", h)
		os.Exit(3)
	}
	r := make([]byte, len(b))
	copy(r, b)
	return r
}

func verifDataParseM(s string) *LockManagerData {
	if s == "-" {
		return nil
	}
	p := strings.Split(s, "/")
	d, tail := verifDataBytes(p[0]), verifDataBytes(p[1])
	buf := make([]byte, len(d)+len(tail))
	copy(buf, d)
	copy(buf[len(d):], tail)
	t, _ := strconv.Atoi(p[2])
	isAof := len(p) > 3 && p[3] == "1"
	return &LockManagerData{buf[:len(d)], uint8(t), isAof}
}

func verifDataParseRV(s string) interface{} {
	switch s[0] {
	case 'n':
		return nil
	case 'i':
		v, _ := strconv.ParseInt(s[1:], 10, 64)
		return v
	case 'p':
		v, _ := strconv.ParseUint(s[1:], 10, 64)
		return v
	case 'b':
		return verifDataBytes(s[1:])
	case 'v':
		r := make([][]byte, 0)
		if len(s) > 1 {
			for _, e := range strings.Split(s[1:], ",") {
				r = append(r, verifDataBytes(e))
			}
		}
		return r
	}
	return nil
}

func verifDataParseLD(s string) *LockData {
	if s == "-" {
		return nil
	}
	p := strings.Split(s, "|")
	ld := &LockData{}
	if p[0] != "-" {
		ld.aofData = verifDataBytes(p[0])
	}
	ld.currentData = verifDataParseM(p[1])
	ld.recoverData = verifDataParseM(p[2])
	ld.recoverValue = verifDataParseRV(p[3])
	return ld
}

// the innermost non-runtime function on the stack of the panic
func verifDataPanicSite() string {
	pcs := make([]uintptr, 64)
	n := runtime.Callers(0, pcs)
	frames := runtime.CallersFrames(pcs[:n])
	seenPanic := false
	for {
		fr, more := frames.Next()
		if !seenPanic {
			if fr.Function == "runtime.gopanic" {
				seenPanic = true
			}
		} else if !strings.HasPrefix(fr.Function, "runtime.") {
			return strings.TrimPrefix(fr.Function, "github.com/snower/slock/")
		}
		if !more {
			break
		}
	}
	return "?"
}

type verifDataState struct {
	lm    *LockManager
	locks [4]*Lock
}

func (st *verifDataState) dump() string {
	s := "cur=" + verifDataFmtM(st.lm.currentData, true) + " ld="
	for i, l := range st.locks {
		if i > 0 {
			s += " "
		}
		s += verifDataFmtLD(l.data)
	}
	return s
}

func verifDataStep(st *verifDataState, f []string) (res string, panicked bool) {
	defer func() {
		if r := recover(); r != nil {
			res, panicked = "panic:"+verifDataPanicSite(), true
		}
	}()
	atoi := func(s string) int { v, _ := strconv.Atoi(s); return v }
	switch f[0] {
	case "P":
		lock := st.locks[atoi(f[1])]
		cmd := &protocol.LockCommand{}
		if f[2] == "1" {
			cmd.CommandType = protocol.COMMAND_LOCK
		} else {
			cmd.CommandType = protocol.COMMAND_UNLOCK
		}
		cmd.Flag, cmd.ExpriedFlag, cmd.Expried = uint8(atoi(f[3])), uint16(atoi(f[4])), uint16(atoi(f[5]))
		st.lm.locked, st.lm.waited = uint32(atoi(f[6])), f[7] == "1"
		cmd.Data = protocol.NewLockCommandDataFromOriginBytes(verifDataBytes(strings.TrimPrefix(f[9], "x")))
		lock.command = cmd
		st.lm.ProcessLockData(cmd, lock, f[8] == "1")
		return "ok", false
	case "R":
		st.lm.ProcessRecoverLockData(st.locks[atoi(f[1])])
		return "ok", false
	case "A":
		return "ok:" + verifDataHex(st.lm.ProcessAckLockData(st.locks[atoi(f[1])])), false
	case "F":
		ct := uint8(protocol.COMMAND_UNLOCK)
		if f[2] == "1" {
			ct = protocol.COMMAND_LOCK
		}
		return "ok:" + verifDataHex(st.lm.AofLockData(ct, st.locks[atoi(f[1])])), false
	case "G":
		return "ok:" + verifDataHex(st.lm.GetLockData()), false
	case "C":
		st.lm.currentData = verifDataParseM(f[1])
		return "ok", false
	case "L":
		st.locks[atoi(f[1])].data = verifDataParseLD(f[2])
		return "ok", false
	}
	fmt.Fprintf(os.Stderr, "bad step %v\n", f)
	os.Exit(3)
	return "", false
}

func VerifDataMain() {
	in := bufio.NewReaderSize(os.Stdin, 1<<20)
	out := bufio.NewWriterSize(os.Stdout, 1<<20)
	defer out.Flush()
	sc := bufio.NewScanner(in)
	sc.Buffer(make([]byte, 1<<20), 64<<20)
	for sc.Scan() {
		line := strings.TrimSpace(sc.Text())
		if line == "" || line[0] == '#' {
			continue
		}
		st := &verifDataState{lm: &LockManager{}}
		for i := range st.locks {
			st.locks[i] = &Lock{manager: st.lm}
		}
		var parts []string
		for _, step := range strings.Split(line, ";") {
			f := strings.Fields(step)
			if len(f) == 0 {
				continue
			}
			res, panicked := verifDataStep(st, f)
			if panicked {
				parts = append(parts, res)
				break
			}
			parts = append(parts, res+" "+st.dump())
		}
		out.WriteString(strings.Join(parts, " ; "))
		out.WriteString("\n")
	}
}
