#!/usr/bin/env python3
"""Developer tool: regenerates /verif/proposed_fixes/data_*.diff from textual replacements applied to a scratch
git worktree of /repo (never /repo itself).   usage: mkfixes.py <worktree>   (e.g. /tmp/datafix, detached at HEAD)
Each diff is independent (applies alone to the pinned tree) and all of them apply together."""
import os, subprocess, sys

WT = sys.argv[1]
OUT = os.path.join(os.path.dirname(os.path.dirname(os.path.dirname(os.path.abspath(__file__)))), "proposed_fixes")

POP_GUARD_OLD = """				if valueLen == 0 {
					i += 4
					continue
				}
"""
POP_GUARD_NEW = POP_GUARD_OLD + """				if i+4+valueLen > len(self.currentData.data) {
					break
				}
"""

FIXES = {
    "short_frame": [("protocol/command.go",
                     """func NewLockCommandDataFromOriginBytes(data []byte) *LockCommandData {
""",
                     """func NewLockCommandDataFromOriginBytes(data []byte) *LockCommandData {
	if len(data) < 6 {
		// too short to carry an operation header: a frame of a non-current stage is ignored by ProcessLockData
		return &LockCommandData{data, LOCK_DATA_STAGE_UNLOCK, LOCK_DATA_COMMAND_TYPE_SET, 0}
	}
""", 1)],
    "cmd_offset": [("protocol/command.go",
                    """func (self *LockCommandData) GetValueOffset() int {
	if self.DataFlag&LOCK_DATA_FLAG_CONTAINS_PROPERTY != 0 {
		return (int(self.Data[6]) | (int(self.Data[7]) << 8)) + 8
	}
""",
                    """func (self *LockCommandData) GetValueOffset() int {
	if self.DataFlag&LOCK_DATA_FLAG_CONTAINS_PROPERTY != 0 && len(self.Data) >= 8 {
		valueOffset := (int(self.Data[6]) | (int(self.Data[7]) << 8)) + 8
		if valueOffset > len(self.Data) {
			return len(self.Data)
		}
		return valueOffset
	}
""", 1)],
    "val_offset": [("server/lock.go",
                    """	if self.data[5]&protocol.LOCK_DATA_FLAG_CONTAINS_PROPERTY != 0 {
		return (int(self.data[6]) | (int(self.data[7]) << 8)) + 8
	}
""",
                    """	if self.data[5]&protocol.LOCK_DATA_FLAG_CONTAINS_PROPERTY != 0 {
		valueOffset := (int(self.data[6]) | (int(self.data[7]) << 8)) + 8
		if valueOffset > len(self.data) {
			return len(self.data)
		}
		return valueOffset
	}
""", 1)],
    "shift": [("server/lock.go",
               """		lengthValue := int(lockCommandData.GetShiftLengthValue())
""",
               """		lengthValue := int(lockCommandData.GetShiftLengthValue())
		if currentLockData != nil && lengthValue > currentLockData.GetValueSize() {
			lengthValue = currentLockData.GetValueSize()
		}
""", 1)],
    "incr_nil": [("server/lock.go",
                  """			valueOffset := currentLockData.GetValueOffset()
			if valueOffset <= 6 {
				self.currentData = NewLockManagerData([]byte{10, 0, 0, 0, protocol.LOCK_DATA_COMMAND_TYPE_SET, protocol.LOCK_DATA_FLAG_VALUE_TYPE_NUMBER,
""",
                  """			valueOffset := 6
			if currentLockData != nil {
				valueOffset = currentLockData.GetValueOffset()
			}
			if valueOffset <= 6 {
				self.currentData = NewLockManagerData([]byte{10, 0, 0, 0, protocol.LOCK_DATA_COMMAND_TYPE_SET, protocol.LOCK_DATA_FLAG_VALUE_TYPE_NUMBER,
""", 1)],
    "pipeline_len": [("server/lock.go",
                      """		for index < len(buf) {
			dataLen := int(uint32(buf[index])""",
                      """		for index < len(buf) {
			if index+4 > len(buf) {
				break
			}
			dataLen := int(uint32(buf[index])""", 1)],
    "pop_bounds": [("server/lock.go", POP_GUARD_OLD, POP_GUARD_NEW, 3)],
    "pipeline_fold": [("server/lock.go",
                       """			if command.Data.CommandType != protocol.LOCK_DATA_COMMAND_TYPE_EXECUTE && command.CommandType != protocol.LOCK_DATA_COMMAND_TYPE_PIPELINE {
				self.currentData = currentLockData
			}
""", "", 1)],
    "recover_nil": [("server/lock.go",
                     """	if currentData == nil || (self.currentData.commandType != protocol.LOCK_DATA_COMMAND_TYPE_UNSET && currentData.commandType != self.currentData.commandType) {
""",
                     """	if currentData == nil || self.currentData == nil || (self.currentData.commandType != protocol.LOCK_DATA_COMMAND_TYPE_UNSET && currentData.commandType != self.currentData.commandType) {
""", 1),
                    ("server/lock.go",
                     """	recoverData, recoverValue := lock.data.recoverData, lock.data.recoverValue

	switch currentData.commandType {
""",
                     """	recoverData, recoverValue := lock.data.recoverData, lock.data.recoverValue
	commandType := currentData.commandType
	if recoverData != nil && recoverValue == nil {
		// saved by a PIPELINE (no per-operation recover value): restore the saved value as a whole
		commandType = protocol.LOCK_DATA_COMMAND_TYPE_SET
	}

	switch commandType {
""", 1),
                    ("server/lock.go",
                     """			if len(currentData.data) >= indexValue+lenValue {
""",
                     """			if len(currentData.data) >= indexValue+lenValue && currentData.GetValueOffset() <= indexValue {
""", 1)],
}


def sh(*a):
    return subprocess.run(a, cwd=WT, check=True, stdout=subprocess.PIPE).stdout.decode()


def apply(name):
    for path, old, new, count in FIXES[name]:
        p = os.path.join(WT, path)
        s = open(p).read()
        assert s.count(old) == count, (name, path, s.count(old), count)
        open(p, "w").write(s.replace(old, new))


def main():
    os.makedirs(OUT, exist_ok=True)
    for name in FIXES:
        sh("git", "checkout", "-q", "--", ".")
        apply(name)
        sh("gofmt", "-l", "protocol/command.go", "server/lock.go")
        d = sh("git", "diff")
        open(os.path.join(OUT, "data_%s.diff" % name), "w").write(d)
        print(name, len(d.splitlines()), "lines")
    sh("git", "checkout", "-q", "--", ".")
    if len(sys.argv) > 2 and sys.argv[2] == "--all":
        for name in FIXES:
            apply(name)
        print("all fixes applied in", WT)


if __name__ == "__main__":
    main()
