// Harness entry point for the value-operation layer (C15/C13 part "data"): all work is done by the
// in-package file harness/data/inj/zz_verif_data.go injected into package server by `go build -overlay`.
package main

import "github.com/snower/slock/server"

func main() { server.VerifDataMain() }
