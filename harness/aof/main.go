// Harness entry point for C08/C16: all work is done by the in-package file
// harness/aof/inj/zz_verif_aof.go injected into package server by `go build -overlay`.
package main

import "github.com/snower/slock/server"

func main() { server.VerifAofMain() }
