module verifharness/aof

go 1.19

require github.com/snower/slock v0.0.0

require (
	github.com/hhkbp2/go-logging v0.3.7 // indirect
	github.com/hhkbp2/go-strftime v0.0.0-20150709091403-d82166ec6782 // indirect
	github.com/jessevdk/go-flags v1.5.0 // indirect
	golang.org/x/sys v0.20.0 // indirect
	google.golang.org/protobuf v1.34.2 // indirect
	gopkg.in/yaml.v2 v2.4.0 // indirect
)

replace github.com/snower/slock => /repo
