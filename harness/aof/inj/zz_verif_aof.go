//go:build verif

// In-package harness for properties C08 (crash at any byte of the log) and C16 (compaction).
// Injected into package server by `go build -overlay`; nothing in /repo is changed.
//
//	aofh file                line-oriented: real AofFile writer/reader on scratch dirs (see verifAofFileMode)
//	aofh inst <dir> ...      start a full node on <dir> (LoadAndInit), dump the census of holds, optional workload
//	aofh compact <dir> ...   run a workload on a real node, force rotation + compaction (used under strace)
package server

import (
	"bufio"
	"encoding/hex"
	"fmt"
	"io/ioutil"
	"os"
	"path/filepath"
	"sort"
	"strconv"
	"strings"
	"time"

	"github.com/jessevdk/go-flags"
	"github.com/snower/slock/protocol"
)

func verifDie(format string, a ...interface{}) {
	fmt.Fprintf(os.Stderr, format+"\n", a...)
	os.Exit(3)
}

func verifHex(b []byte) string {
	if b == nil {
		return "-"
	}
	if len(b) == 0 {
		return "e"
	}
	return hex.EncodeToString(b)
}

func verifUnhex(s string) []byte {
	if s == "-" {
		return nil
	}
	if s == "e" {
		return []byte{}
	}
	b, err := hex.DecodeString(s)
	if err != nil {
		verifDie("bad hex %q", s)
	}
	return b
}

func verifAtoi(s string) int {
	n, err := strconv.Atoi(s)
	if err != nil {
		verifDie("bad int %q", s)
	}
	return n
}

func verifConfig(dataDir string, logFile string, bufSize int, rewriteSize int) *ServerConfig {
	cfg := &ServerConfig{}
	_, err := flags.NewParser(cfg, flags.Default).ParseArgs([]string{})
	if err != nil {
		verifDie("config %v", err)
	}
	cfg.DataDir = dataDir
	cfg.DBConcurrent = 1
	cfg.DBFastKeyCount = 16
	cfg.AofFileBufferSize = uint(bufSize)
	if rewriteSize > 0 {
		cfg.AofFileRewriteSize = uint(rewriteSize)
	}
	cfg.Log = logFile
	cfg.LogLevel = "INFO"
	return cfg
}

func verifFileSize(path string) int {
	st, err := os.Stat(path)
	if err != nil {
		return -1
	}
	return int(st.Size())
}

func verifCutCopy(src string, dst string, n int) {
	_ = os.Remove(dst)
	if n < 0 {
		return
	}
	b, err := ioutil.ReadFile(src)
	if err != nil {
		if n == 0 {
			b = []byte{}
		} else {
			verifDie("read %s: %v", src, err)
		}
	}
	if n > len(b) {
		verifDie("cut %d beyond %d of %s", n, len(b), src)
	}
	if err := ioutil.WriteFile(dst, b[:n], 0644); err != nil {
		verifDie("write %s: %v", dst, err)
	}
}

func verifLockFromHex(rec string, data string) *AofLock {
	lock := NewAofLock()
	b := verifUnhex(rec)
	if len(b) != 64 {
		verifDie("record must be 64 bytes")
	}
	copy(lock.buf, b)
	_ = lock.Decode()
	lock.data = verifUnhex(data)
	return lock
}

// write one record the way Aof.PushLock does: WriteLock, then WriteLockData iff the flag is set
func verifWriteItem(f *AofFile, lock *AofLock) string {
	werr := f.WriteLock(lock)
	if werr == nil && lock.AofFlag&AOF_FLAG_CONTAINS_DATA != 0 {
		werr = f.WriteLockData(lock)
	}
	if werr != nil {
		return "err:" + werr.Error()
	}
	return "ok"
}

// load a directory exactly like LoadAndInit does (FindAofFiles, rewrite file first, LoadAofFiles) but with an
// iterator that records what would be handed to LoadLock/HandleLoad.
func verifLoadDir(slock *SLock, dir string, now int64) string {
	aof := NewAof()
	aof.slock = slock
	aof.dataDir = dir
	appendFiles, rewriteFile, err := aof.FindAofFiles()
	if err != nil {
		return "load finderr:" + strings.ReplaceAll(err.Error(), " ", "_") + " 0"
	}
	names := make([]string, 0)
	if rewriteFile != "" {
		names = append(names, rewriteFile)
	}
	names = append(names, appendFiles...)
	items := make([]string, 0)
	lerr, _ := aof.LoadAofFiles(names, now, func(filename string, aofFile *AofFile, lock *AofLock, firstLock bool) (bool, error) {
		items = append(items, verifHex(lock.buf[:64])+":"+verifHex(lock.data))
		return true, nil
	})
	status := "ok"
	if lerr != nil {
		status = "err:" + strings.ReplaceAll(lerr.Error(), " ", "_")
	}
	return fmt.Sprintf("load %s %d %s", status, len(items), strings.Join(items, " "))
}

func verifAofFileMode() {
	base, err := ioutil.TempDir("/tmp", "aof-file-")
	if err != nil {
		verifDie("tmp %v", err)
	}
	defer os.RemoveAll(base)
	master := filepath.Join(base, "master")
	image := filepath.Join(base, "image")
	cfg := verifConfig(master, filepath.Join(base, "log"), 4096, 0)
	logger, lerr := InitLogger(cfg)
	if lerr != nil {
		verifDie("logger %v", lerr)
	}
	slock := NewSLock(cfg, logger)
	var wf *AofFile
	wname := "append.aof.1"
	out := bufio.NewWriterSize(os.Stdout, 1<<20)
	defer out.Flush()
	sz := func(dir string) string {
		return fmt.Sprintf("sz %d %d", verifFileSize(filepath.Join(dir, wname)), verifFileSize(filepath.Join(dir, wname+".dat")))
	}
	in := bufio.NewReaderSize(os.Stdin, 1<<22)
	for {
		line, rerr := in.ReadString('\n')
		line = strings.TrimSpace(line)
		if line != "" {
			t := strings.Fields(line)
			switch t[0] {
			case "new": // new <wbuf> [filename]
				if wf != nil {
					_ = wf.Close()
					wf = nil
				}
				_ = os.RemoveAll(master)
				_ = os.MkdirAll(master, 0755)
				Config.AofFileBufferSize = uint(verifAtoi(t[1]))
				wname = "append.aof.1"
				if len(t) > 2 {
					wname = t[2]
				}
				aof := NewAof()
				aof.slock = slock
				aof.dataDir = master
				wf = NewAofFile(aof, filepath.Join(master, wname), os.O_WRONLY, int(Config.AofFileBufferSize))
				if oerr := wf.Open(); oerr != nil {
					verifDie("open %v", oerr)
				}
				fmt.Fprintln(out, sz(master))
			case "w": // w <rechex> <datahex|->
				st := verifWriteItem(wf, verifLockFromHex(t[1], t[2]))
				fmt.Fprintln(out, sz(master), st)
			case "f":
				ferr := wf.Flush()
				fmt.Fprintln(out, sz(master), ferr == nil)
			case "close":
				_ = wf.Close()
				wf = nil
				fmt.Fprintln(out, sz(master))
			case "image": // image <a> <d>   (-1 = file absent)
				_ = os.MkdirAll(image, 0755)
				verifCutCopy(filepath.Join(master, wname), filepath.Join(image, wname), verifAtoi(t[1]))
				verifCutCopy(filepath.Join(master, wname+".dat"), filepath.Join(image, wname+".dat"), verifAtoi(t[2]))
				fmt.Fprintln(out, "ok")
			case "put": // put <filename> <hex>   raw file into the image (multi-file cases)
				_ = os.MkdirAll(image, 0755)
				if werr := ioutil.WriteFile(filepath.Join(image, t[1]), verifUnhex(t[2]), 0644); werr != nil {
					verifDie("put %v", werr)
				}
				fmt.Fprintln(out, "ok")
			case "clear":
				_ = os.RemoveAll(image)
				_ = os.MkdirAll(image, 0755)
				fmt.Fprintln(out, "ok")
			case "load": // load <now> <rbuf>
				now, _ := strconv.ParseInt(t[1], 10, 64)
				Config.AofFileBufferSize = uint(verifAtoi(t[2]))
				fmt.Fprintln(out, verifLoadDir(slock, image, now))
			case "append": // append <wbuf> <filename> (<rechex> <datahex|->)*   open the image file in append mode like LoadAndInit does
				Config.AofFileBufferSize = uint(verifAtoi(t[1]))
				aof := NewAof()
				aof.slock = slock
				aof.dataDir = image
				af := NewAofFile(aof, filepath.Join(image, t[2]), os.O_WRONLY, int(Config.AofFileBufferSize))
				if oerr := af.Open(); oerr != nil {
					fmt.Fprintln(out, "sz -1 -1 err:"+strings.ReplaceAll(oerr.Error(), " ", "_"))
					break
				}
				st := "ok"
				for i := 3; i+1 < len(t); i += 2 {
					if r := verifWriteItem(af, verifLockFromHex(t[i], t[i+1])); r != "ok" {
						st = r
					}
				}
				_ = af.Close()
				fmt.Fprintf(out, "sz %d %d %s\n", verifFileSize(filepath.Join(image, t[2])), verifFileSize(filepath.Join(image, t[2]+".dat")), st)
			case "dump": // dump <filename>
				a, _ := ioutil.ReadFile(filepath.Join(image, t[1]))
				d, derr := ioutil.ReadFile(filepath.Join(image, t[1]+".dat"))
				if derr != nil {
					d = nil
				}
				fmt.Fprintln(out, "dump", verifHex(a), verifHex(d))
			case "mdump":
				a, _ := ioutil.ReadFile(filepath.Join(master, wname))
				d, _ := ioutil.ReadFile(filepath.Join(master, wname+".dat"))
				fmt.Fprintln(out, "dump", verifHex(a), verifHex(d))
			default:
				verifDie("unknown command %q", t[0])
			}
			out.Flush()
		}
		if rerr != nil {
			break
		}
	}
	if wf != nil {
		_ = wf.Close()
	}
}

// ---------------------------------------------------------------------------------------------- census

type verifHold struct {
	db     int
	key    string
	lockId string
	depth  int
	count  int
	rcount int
	eflag  int
}

func verifCensus(slock *SLock) []string {
	res := make([]string, 0)
	for dbi, db := range slock.dbs {
		if db == nil {
			continue
		}
		seen := make(map[*LockManager]bool)
		managers := make([]*LockManager, 0)
		for i := range db.fastLocks {
			m := db.fastLocks[i].manager
			if m != nil && !seen[m] {
				seen[m] = true
				managers = append(managers, m)
			}
		}
		db.mGlock.RLock()
		for _, m := range db.locks {
			if m != nil && !seen[m] {
				seen[m] = true
				managers = append(managers, m)
			}
		}
		db.mGlock.RUnlock()
		for _, m := range managers {
			m.glock.LowPriorityLock()
			if m.locked > 0 {
				val := "-"
				if m.currentData != nil && m.currentData.data != nil {
					val = verifHex(m.currentData.data)
				}
				holds := make([]*Lock, 0)
				hseen := make(map[*Lock]bool)
				if m.currentLock != nil && m.currentLock.locked > 0 {
					holds = append(holds, m.currentLock)
					hseen[m.currentLock] = true
				}
				if m.locks != nil {
					for _, node := range m.locks.IterNodes() {
						for _, l := range node {
							if l != nil && l.locked > 0 && !hseen[l] {
								hseen[l] = true
								holds = append(holds, l)
							}
						}
					}
				}
				for _, l := range holds {
					res = append(res, fmt.Sprintf("hold db=%d key=%s lockid=%s depth=%d count=%d rcount=%d eflag=%d locked=%d val=%s",
						dbi, hex.EncodeToString(m.lockKey[:]), hex.EncodeToString(l.command.LockId[:]), l.locked, l.command.Count, l.command.Rcount,
						l.command.ExpriedFlag, m.locked, val))
				}
			}
			m.glock.LowPriorityUnlock()
		}
	}
	sort.Strings(res)
	return res
}

func verifGrepLog(logFile string, needles ...string) []string {
	res := make([]string, 0)
	b, err := ioutil.ReadFile(logFile)
	if err != nil {
		return res
	}
	for _, line := range strings.Split(string(b), "\n") {
		for _, n := range needles {
			if strings.Contains(line, n) {
				i := strings.Index(line, n)
				res = append(res, strings.ReplaceAll(strings.TrimSpace(line[i:]), " ", "_"))
				break
			}
		}
	}
	return res
}

// one lock/unlock request through the real command path; reply arrives synchronously in the callback
type verifClient struct {
	sp      *MemWaiterServerProtocol
	replies []string
}

func verifNewClient(slock *SLock) *verifClient {
	c := &verifClient{NewMemWaiterServerProtocol(slock), make([]string, 0)}
	_ = c.sp.SetResultCallback(func(sp *MemWaiterServerProtocol, command *protocol.LockCommand, result uint8, lcount uint16, lrcount uint8, data []byte) error {
		c.replies = append(c.replies, fmt.Sprintf("reply type=%d key=%s lockid=%s result=%d lcount=%d", command.CommandType, hex.EncodeToString(command.LockKey[:]), hex.EncodeToString(command.LockId[:]), result, lcount))
		return nil
	})
	return c
}

var verifReqCounter uint64

// op: L|U:<db>:<keyhex32>:<lockidhex32>:<expried>:<eflag>:<count>:<rcount>:<flag>:<datahex|->
func (c *verifClient) do(op string) {
	p := strings.Split(op, ":")
	if len(p) != 10 {
		verifDie("bad op %q", op)
	}
	cmd := &protocol.LockCommand{}
	cmd.Magic = protocol.MAGIC
	cmd.Version = protocol.VERSION
	if p[0] == "L" {
		cmd.CommandType = protocol.COMMAND_LOCK
	} else {
		cmd.CommandType = protocol.COMMAND_UNLOCK
	}
	verifReqCounter++
	cmd.RequestId = [16]byte{byte(verifReqCounter), byte(verifReqCounter >> 8), byte(verifReqCounter >> 16), 0xee}
	cmd.DbId = uint8(verifAtoi(p[1]))
	copy(cmd.LockKey[:], verifUnhex(p[2]))
	copy(cmd.LockId[:], verifUnhex(p[3]))
	cmd.Expried = uint16(verifAtoi(p[4]))
	cmd.ExpriedFlag = uint16(verifAtoi(p[5]))
	cmd.Count = uint16(verifAtoi(p[6]))
	cmd.Rcount = uint8(verifAtoi(p[7]))
	cmd.Flag = uint8(verifAtoi(p[8]))
	cmd.Timeout = 0
	cmd.TimeoutFlag = 0
	if d := verifUnhex(p[9]); d != nil {
		cmd.Data = protocol.NewLockCommandDataFromOriginBytes(d)
		cmd.Flag |= protocol.LOCK_FLAG_CONTAINS_DATA
	}
	if err := c.sp.ProcessLockCommand(cmd); err != nil {
		c.replies = append(c.replies, "reply error "+strings.ReplaceAll(err.Error(), " ", "_"))
	}
}

func verifStartNode(dir string, logFile string, bufSize int, rewriteSize int) (*SLock, error) {
	cfg := verifConfig(dir, logFile, bufSize, rewriteSize)
	logger, lerr := InitLogger(cfg)
	if lerr != nil {
		verifDie("logger %v", lerr)
	}
	slock := NewSLock(cfg, logger)
	err := slock.Init(NewServer(slock))
	return slock, err
}

func verifListDir(dir string) string {
	ents, _ := ioutil.ReadDir(dir)
	parts := make([]string, 0)
	for _, e := range ents {
		parts = append(parts, fmt.Sprintf("%s=%d", e.Name(), e.Size()))
	}
	return strings.Join(parts, ",")
}

// aofh inst <dir> <logfile> <bufsize> [op ...]
// prints: init <ok|err:..>; log lines of interest; census; after the ops (if any): replies, flush, census2; dir listing
func verifAofInstMode(args []string) {
	dir, logFile, bufSize := args[0], args[1], verifAtoi(args[2])
	_ = os.Chdir(filepath.Dir(logFile))
	defer func() {
		if r := recover(); r != nil {
			fmt.Printf("panic %v\n", strings.ReplaceAll(fmt.Sprint(r), " ", "_"))
			os.Stdout.Sync()
			os.Exit(4)
		}
	}()
	slock, err := verifStartNode(dir, logFile, bufSize, 0)
	if err != nil {
		fmt.Printf("init err:%s\n", strings.ReplaceAll(err.Error(), " ", "_"))
		for _, l := range verifGrepLog(logFile, "Aof LoadOrInit error", "Replication init error") {
			fmt.Println("log", l)
		}
		return
	}
	fmt.Println("init ok")
	_ = slock.aof.WaitFlushAofChannel()
	time.Sleep(20 * time.Millisecond)
	for _, l := range verifGrepLog(logFile, "Replication init error", "Aof load lock Processlockcommand error") {
		fmt.Println("log", l)
	}
	fmt.Printf("replinit %v\n", slock.replicationManager.bufferQueue != nil)
	for _, h := range verifCensus(slock) {
		fmt.Println(h)
	}
	fmt.Println("census-end")
	if len(args) > 3 {
		_ = slock.aof.WaitRewriteAofFiles()
		c := verifNewClient(slock)
		for _, op := range args[3:] {
			c.do(op)
		}
		for _, r := range c.replies {
			fmt.Println(r)
		}
		time.Sleep(30 * time.Millisecond)
		_ = slock.aof.WaitFlushAofChannel()
		slock.aof.FlushWithLocked()
		_ = slock.aof.WaitRewriteAofFiles()
		for _, h := range verifCensus(slock) {
			fmt.Println(h)
		}
		fmt.Println("census2-end")
		slock.aof.Close()
	}
	fmt.Println("dir", verifListDir(dir))
}

func verifCopyDir(src string, dst string) {
	_ = os.MkdirAll(dst, 0755)
	ents, _ := ioutil.ReadDir(src)
	for _, e := range ents {
		if e.IsDir() {
			continue
		}
		b, err := ioutil.ReadFile(filepath.Join(src, e.Name()))
		if err == nil {
			_ = ioutil.WriteFile(filepath.Join(dst, e.Name()), b, 0644)
		}
	}
}

// aofh compact <dir> <logfile> <bufsize> <rewritesize> <snapdir> <armstart 0|1> [op ...]
//   armstart = 1: the crash points are armed before Init, so the START-UP compaction is snapshotted as well.
//   runs the ops on a real node started on <dir>; "rotate" forces a rotation + compaction through RewriteAofFile(true)
//   (the admin-command path).  The crash points verifPoint(200..211) compiled into aof.go (tag verif) copy the data
//   directory synchronously, in the goroutine that performs the mutation, into <snapdir>/<seq>-<point>.
func verifAofCompactMode(args []string) {
	dir, logFile, bufSize, rewriteSize, snapDir := args[0], args[1], verifAtoi(args[2]), verifAtoi(args[3]), args[4]
	_ = os.Chdir(filepath.Dir(logFile))
	seq := 0
	armed := args[5] == "1"
	snaps := make([]string, 0)
	snap := func(n int) {
		seq++
		name := fmt.Sprintf("%03d-%d", seq, n)
		verifCopyDir(dir, filepath.Join(snapDir, name))
		snaps = append(snaps, fmt.Sprintf("snap %s %s", name, verifListDir(dir)))
	}
	VerifPointHook = func(n int) {
		if n >= 200 && armed {
			snap(n)
		}
	}
	slock, err := verifStartNode(dir, logFile, bufSize, rewriteSize)
	if err != nil {
		fmt.Printf("init err:%s\n", strings.ReplaceAll(err.Error(), " ", "_"))
		return
	}
	fmt.Println("init ok")
	_ = slock.aof.WaitFlushAofChannel()
	time.Sleep(30 * time.Millisecond)
	_ = slock.aof.WaitRewriteAofFiles()
	armed = false
	fmt.Printf("cur %d\n", slock.aof.aofFileIndex)
	for _, h := range verifCensus(slock) {
		fmt.Println("start", h)
	}
	c := verifNewClient(slock)
	settle := func() {
		time.Sleep(30 * time.Millisecond)
		_ = slock.aof.WaitFlushAofChannel()
		slock.aof.FlushWithLocked()
	}
	for _, op := range args[6:] {
		switch {
		case op == "settle":
			settle()
		case op == "waitrewrite":
			settle()
			_ = slock.aof.WaitRewriteAofFiles()
		case op == "rotate":
			settle()
			_ = slock.aof.WaitRewriteAofFiles()
			settle()
			fmt.Printf("cur %d\n", slock.aof.aofFileIndex)
			for _, h := range verifCensus(slock) {
				fmt.Println("pre", h)
			}
			armed = true
			snap(0)
			slock.aof.aofGlock.Lock()
			rerr := slock.aof.RewriteAofFile(true)
			slock.aof.aofGlock.Unlock()
			time.Sleep(50 * time.Millisecond)
			_ = slock.aof.WaitRewriteAofFiles()
			armed = false
			fmt.Printf("rotated %v\n", rerr)
		default:
			c.do(op)
		}
	}
	settle()
	_ = slock.aof.WaitRewriteAofFiles()
	for _, r := range c.replies {
		fmt.Println(r)
	}
	for _, s := range snaps {
		fmt.Println(s)
	}
	for _, h := range verifCensus(slock) {
		fmt.Println(h)
	}
	fmt.Println("census-end")
	slock.aof.Close()
	fmt.Println("dir", verifListDir(dir))
}

// aofh loaddir <dir> <now> <bufsize>: what LoadAndInit would hand to the engine for this directory (no node started)
func verifAofLoadDirMode(args []string) {
	base, _ := ioutil.TempDir("/tmp", "aof-ld-")
	defer os.RemoveAll(base)
	cfg := verifConfig(args[0], filepath.Join(base, "log"), verifAtoi(args[2]), 0)
	logger, _ := InitLogger(cfg)
	slock := NewSLock(cfg, logger)
	now, _ := strconv.ParseInt(args[1], 10, 64)
	fmt.Println(verifLoadDir(slock, args[0], now))
}

func VerifAofMain() {
	if len(os.Args) < 2 {
		verifDie("usage: aofh file|inst|compact ...")
	}
	switch os.Args[1] {
	case "file":
		verifAofFileMode()
	case "inst":
		verifAofInstMode(os.Args[2:])
	case "compact":
		verifAofCompactMode(os.Args[2:])
	case "loaddir":
		verifAofLoadDirMode(os.Args[2:])
	default:
		verifDie("unknown mode %s", os.Args[1])
	}
}
