//go:build verif

// In-package harness for properties C08 (crash at any byte of the log) and C16 (compaction).
// Injected into package server by `go build -overlay`; nothing in /repo is changed.
//
//	aofh file                line-oriented: real AofFile writer/reader on scratch dirs (see verifAofFileMode)
//	aofh inst <dir> ...      start a full node on <dir> (LoadAndInit), dump the census of holds, optional workload
//	aofh compact <dir> ...   run a workload on a real node, force rotation + compaction (used under strace)
//	aofh script <dir> ...    C16: scripted node with a manual clock; compactions parked at a crash point while further
//	                         requests and compaction triggers arrive (see verifAofScriptMode)
//
// Environment: AOFH_MANUAL_CLOCK=1 freezes the LockDB clocks (VerifManualClock): no sweeper goroutines, the census
// (which prints the re-armed deadline of every hold) is deterministic.
package server

import (
	"bufio"
	"runtime"
	"sync"
	"encoding/hex"
	"fmt"
	"io/ioutil"
	"os"
	"path/filepath"
	"sort"
	"strconv"
	"strings"
	"time"

	"github.com/jessevdk/go-flags"
	"github.com/snower/slock/protocol"
)

func verifDie(format string, a ...interface{}) {
	fmt.Fprintf(os.Stderr, format+"\n", a...)
	os.Exit(3)
}

func verifHex(b []byte) string {
	if b == nil {
		return "-"
	}
	if len(b) == 0 {
		return "e"
	}
	return hex.EncodeToString(b)
}

func verifUnhex(s string) []byte {
	if s == "-" {
		return nil
	}
	if s == "e" {
		return []byte{}
	}
	b, err := hex.DecodeString(s)
	if err != nil {
		verifDie("bad hex %q", s)
	}
	return b
}

func verifAtoi(s string) int {
	n, err := strconv.Atoi(s)
	if err != nil {
		verifDie("bad int %q", s)
	}
	return n
}

func verifConfig(dataDir string, logFile string, bufSize int, rewriteSize int) *ServerConfig {
	cfg := &ServerConfig{}
	_, err := flags.NewParser(cfg, flags.Default).ParseArgs([]string{})
	if err != nil {
		verifDie("config %v", err)
	}
	cfg.DataDir = dataDir
	cfg.DBConcurrent = 1
	cfg.DBFastKeyCount = 16
	cfg.AofFileBufferSize = uint(bufSize)
	if rewriteSize > 0 {
		cfg.AofFileRewriteSize = uint(rewriteSize)
	}
	cfg.Log = logFile
	cfg.LogLevel = "INFO"
	return cfg
}

func verifFileSize(path string) int {
	st, err := os.Stat(path)
	if err != nil {
		return -1
	}
	return int(st.Size())
}

func verifCutCopy(src string, dst string, n int) {
	_ = os.Remove(dst)
	if n < 0 {
		return
	}
	b, err := ioutil.ReadFile(src)
	if err != nil {
		if n == 0 {
			b = []byte{}
		} else {
			verifDie("read %s: %v", src, err)
		}
	}
	if n > len(b) {
		verifDie("cut %d beyond %d of %s", n, len(b), src)
	}
	if err := ioutil.WriteFile(dst, b[:n], 0644); err != nil {
		verifDie("write %s: %v", dst, err)
	}
}

func verifLockFromHex(rec string, data string) *AofLock {
	lock := NewAofLock()
	b := verifUnhex(rec)
	if len(b) != 64 {
		verifDie("record must be 64 bytes")
	}
	copy(lock.buf, b)
	_ = lock.Decode()
	lock.data = verifUnhex(data)
	return lock
}

// write one record the way Aof.PushLock does: WriteLock, then WriteLockData iff the flag is set
func verifWriteItem(f *AofFile, lock *AofLock) string {
	werr := f.WriteLock(lock)
	if werr == nil && lock.AofFlag&AOF_FLAG_CONTAINS_DATA != 0 {
		werr = f.WriteLockData(lock)
	}
	if werr != nil {
		return "err:" + werr.Error()
	}
	return "ok"
}

// load a directory exactly like LoadAndInit does (FindAofFiles, rewrite file first, LoadAofFiles) but with an
// iterator that records what would be handed to LoadLock/HandleLoad.
func verifLoadDir(slock *SLock, dir string, now int64) string {
	aof := NewAof()
	aof.slock = slock
	aof.dataDir = dir
	appendFiles, rewriteFile, err := aof.FindAofFiles()
	if err != nil {
		return "load finderr:" + strings.ReplaceAll(err.Error(), " ", "_") + " 0"
	}
	names := make([]string, 0)
	if rewriteFile != "" {
		names = append(names, rewriteFile)
	}
	names = append(names, appendFiles...)
	items := make([]string, 0)
	lerr, _ := aof.LoadAofFiles(names, now, func(filename string, aofFile *AofFile, lock *AofLock, firstLock bool) (bool, error) {
		items = append(items, verifHex(lock.buf[:64])+":"+verifHex(lock.data))
		return true, nil
	})
	status := "ok"
	if lerr != nil {
		status = "err:" + strings.ReplaceAll(lerr.Error(), " ", "_")
	}
	return fmt.Sprintf("load %s %d %s", status, len(items), strings.Join(items, " "))
}

func verifAofFileMode() {
	base, err := ioutil.TempDir("/tmp", "aof-file-")
	if err != nil {
		verifDie("tmp %v", err)
	}
	defer os.RemoveAll(base)
	master := filepath.Join(base, "master")
	image := filepath.Join(base, "image")
	cfg := verifConfig(master, filepath.Join(base, "log"), 4096, 0)
	logger, lerr := InitLogger(cfg)
	if lerr != nil {
		verifDie("logger %v", lerr)
	}
	slock := NewSLock(cfg, logger)
	var wf *AofFile
	wname := "append.aof.1"
	out := bufio.NewWriterSize(os.Stdout, 1<<20)
	defer out.Flush()
	sz := func(dir string) string {
		return fmt.Sprintf("sz %d %d", verifFileSize(filepath.Join(dir, wname)), verifFileSize(filepath.Join(dir, wname+".dat")))
	}
	in := bufio.NewReaderSize(os.Stdin, 1<<22)
	for {
		line, rerr := in.ReadString('\n')
		line = strings.TrimSpace(line)
		if line != "" {
			t := strings.Fields(line)
			switch t[0] {
			case "new": // new <wbuf> [filename]
				if wf != nil {
					_ = wf.Close()
					wf = nil
				}
				_ = os.RemoveAll(master)
				_ = os.MkdirAll(master, 0755)
				Config.AofFileBufferSize = uint(verifAtoi(t[1]))
				wname = "append.aof.1"
				if len(t) > 2 {
					wname = t[2]
				}
				aof := NewAof()
				aof.slock = slock
				aof.dataDir = master
				wf = NewAofFile(aof, filepath.Join(master, wname), os.O_WRONLY, int(Config.AofFileBufferSize))
				if oerr := wf.Open(); oerr != nil {
					verifDie("open %v", oerr)
				}
				fmt.Fprintln(out, sz(master))
			case "w": // w <rechex> <datahex|->
				st := verifWriteItem(wf, verifLockFromHex(t[1], t[2]))
				fmt.Fprintln(out, sz(master), st)
			case "f":
				ferr := wf.Flush()
				fmt.Fprintln(out, sz(master), ferr == nil)
			case "close":
				_ = wf.Close()
				wf = nil
				fmt.Fprintln(out, sz(master))
			case "image": // image <a> <d>   (-1 = file absent)
				_ = os.MkdirAll(image, 0755)
				verifCutCopy(filepath.Join(master, wname), filepath.Join(image, wname), verifAtoi(t[1]))
				verifCutCopy(filepath.Join(master, wname+".dat"), filepath.Join(image, wname+".dat"), verifAtoi(t[2]))
				fmt.Fprintln(out, "ok")
			case "imagefull": // both files complete
				_ = os.MkdirAll(image, 0755)
				verifCutCopy(filepath.Join(master, wname), filepath.Join(image, wname), verifFileSize(filepath.Join(master, wname)))
				verifCutCopy(filepath.Join(master, wname+".dat"), filepath.Join(image, wname+".dat"), verifFileSize(filepath.Join(master, wname+".dat")))
				fmt.Fprintln(out, "ok")
			case "put": // put <filename> <hex>   raw file into the image (multi-file cases)
				_ = os.MkdirAll(image, 0755)
				if werr := ioutil.WriteFile(filepath.Join(image, t[1]), verifUnhex(t[2]), 0644); werr != nil {
					verifDie("put %v", werr)
				}
				fmt.Fprintln(out, "ok")
			case "clear":
				_ = os.RemoveAll(image)
				_ = os.MkdirAll(image, 0755)
				fmt.Fprintln(out, "ok")
			case "load": // load <now> <rbuf>
				now, _ := strconv.ParseInt(t[1], 10, 64)
				Config.AofFileBufferSize = uint(verifAtoi(t[2]))
				fmt.Fprintln(out, verifLoadDir(slock, image, now))
			case "append": // append <wbuf> <filename> (<rechex> <datahex|->)*   open the image file in append mode like LoadAndInit does
				Config.AofFileBufferSize = uint(verifAtoi(t[1]))
				aof := NewAof()
				aof.slock = slock
				aof.dataDir = image
				af := NewAofFile(aof, filepath.Join(image, t[2]), os.O_WRONLY, int(Config.AofFileBufferSize))
				if oerr := af.Open(); oerr != nil {
					fmt.Fprintln(out, "sz -1 -1 err:"+strings.ReplaceAll(oerr.Error(), " ", "_"))
					break
				}
				st := "ok"
				for i := 3; i+1 < len(t); i += 2 {
					if r := verifWriteItem(af, verifLockFromHex(t[i], t[i+1])); r != "ok" {
						st = r
					}
				}
				_ = af.Close()
				fmt.Fprintf(out, "sz %d %d %s\n", verifFileSize(filepath.Join(image, t[2])), verifFileSize(filepath.Join(image, t[2]+".dat")), st)
			case "dump": // dump <filename>
				a, _ := ioutil.ReadFile(filepath.Join(image, t[1]))
				d, derr := ioutil.ReadFile(filepath.Join(image, t[1]+".dat"))
				if derr != nil {
					d = nil
				}
				fmt.Fprintln(out, "dump", verifHex(a), verifHex(d))
			case "mdump":
				a, _ := ioutil.ReadFile(filepath.Join(master, wname))
				d, _ := ioutil.ReadFile(filepath.Join(master, wname+".dat"))
				fmt.Fprintln(out, "dump", verifHex(a), verifHex(d))
			default:
				verifDie("unknown command %q", t[0])
			}
			out.Flush()
		}
		if rerr != nil {
			break
		}
	}
	if wf != nil {
		_ = wf.Close()
	}
}

// ---------------------------------------------------------------------------------------------- census

type verifHold struct {
	db     int
	key    string
	lockId string
	depth  int
	count  int
	rcount int
	eflag  int
}

func verifCensus(slock *SLock) []string {
	res := make([]string, 0)
	for dbi, db := range slock.dbs {
		if db == nil {
			continue
		}
		seen := make(map[*LockManager]bool)
		managers := make([]*LockManager, 0)
		for i := range db.fastLocks {
			m := db.fastLocks[i].manager
			if m != nil && !seen[m] {
				seen[m] = true
				managers = append(managers, m)
			}
		}
		db.mGlock.RLock()
		for _, m := range db.locks {
			if m != nil && !seen[m] {
				seen[m] = true
				managers = append(managers, m)
			}
		}
		db.mGlock.RUnlock()
		for _, m := range managers {
			m.glock.LowPriorityLock()
			if m.locked > 0 {
				val := "-"
				if m.currentData != nil && m.currentData.data != nil {
					val = verifHex(m.currentData.data)
				}
				holds := make([]*Lock, 0)
				hseen := make(map[*Lock]bool)
				if m.currentLock != nil && m.currentLock.locked > 0 {
					holds = append(holds, m.currentLock)
					hseen[m.currentLock] = true
				}
				if m.locks != nil {
					for _, node := range m.locks.IterNodes() {
						for _, l := range node {
							if l != nil && l.locked > 0 && !hseen[l] {
								hseen[l] = true
								holds = append(holds, l)
							}
						}
					}
				}
				for _, l := range holds {
					res = append(res, fmt.Sprintf("hold db=%d key=%s lockid=%s depth=%d count=%d rcount=%d eflag=%d locked=%d val=%s deadline=%d now=%d",
						dbi, hex.EncodeToString(m.lockKey[:]), hex.EncodeToString(l.command.LockId[:]), l.locked, l.command.Count, l.command.Rcount,
						l.command.ExpriedFlag, m.locked, val, l.expriedTime, db.currentTime))
				}
			}
			m.glock.LowPriorityUnlock()
		}
	}
	sort.Strings(res)
	return res
}

func verifGrepLog(logFile string, needles ...string) []string {
	res := make([]string, 0)
	b, err := ioutil.ReadFile(logFile)
	if err != nil {
		return res
	}
	for _, line := range strings.Split(string(b), "\n") {
		for _, n := range needles {
			if strings.Contains(line, n) {
				i := strings.Index(line, n)
				res = append(res, strings.ReplaceAll(strings.TrimSpace(line[i:]), " ", "_"))
				break
			}
		}
	}
	return res
}

// one lock/unlock request through the real command path; reply arrives synchronously in the callback
type verifClient struct {
	sp      *MemWaiterServerProtocol
	replies []string
}

func verifNewClient(slock *SLock) *verifClient {
	c := &verifClient{NewMemWaiterServerProtocol(slock), make([]string, 0)}
	_ = c.sp.SetResultCallback(func(sp *MemWaiterServerProtocol, command *protocol.LockCommand, result uint8, lcount uint16, lrcount uint8, data []byte) error {
		c.replies = append(c.replies, fmt.Sprintf("reply type=%d key=%s lockid=%s result=%d lcount=%d", command.CommandType, hex.EncodeToString(command.LockKey[:]), hex.EncodeToString(command.LockId[:]), result, lcount))
		return nil
	})
	return c
}

var verifReqCounter uint64

// op: L|U:<db>:<keyhex32>:<lockidhex32>:<expried>:<eflag>:<count>:<rcount>:<flag>:<datahex|->
func (c *verifClient) do(op string) {
	p := strings.Split(op, ":")
	if len(p) != 10 {
		verifDie("bad op %q", op)
	}
	cmd := &protocol.LockCommand{}
	cmd.Magic = protocol.MAGIC
	cmd.Version = protocol.VERSION
	if p[0] == "L" {
		cmd.CommandType = protocol.COMMAND_LOCK
	} else {
		cmd.CommandType = protocol.COMMAND_UNLOCK
	}
	verifReqCounter++
	cmd.RequestId = [16]byte{byte(verifReqCounter), byte(verifReqCounter >> 8), byte(verifReqCounter >> 16), 0xee}
	cmd.DbId = uint8(verifAtoi(p[1]))
	copy(cmd.LockKey[:], verifUnhex(p[2]))
	copy(cmd.LockId[:], verifUnhex(p[3]))
	cmd.Expried = uint16(verifAtoi(p[4]))
	cmd.ExpriedFlag = uint16(verifAtoi(p[5]))
	cmd.Count = uint16(verifAtoi(p[6]))
	cmd.Rcount = uint8(verifAtoi(p[7]))
	cmd.Flag = uint8(verifAtoi(p[8]))
	cmd.Timeout = 0
	cmd.TimeoutFlag = 0
	if d := verifUnhex(p[9]); d != nil {
		cmd.Data = protocol.NewLockCommandDataFromOriginBytes(d)
		cmd.Flag |= protocol.LOCK_FLAG_CONTAINS_DATA
	}
	if err := c.sp.ProcessLockCommand(cmd); err != nil {
		c.replies = append(c.replies, "reply error "+strings.ReplaceAll(err.Error(), " ", "_"))
	}
}

func verifStartNode(dir string, logFile string, bufSize int, rewriteSize int) (*SLock, error) {
	cfg := verifConfig(dir, logFile, bufSize, rewriteSize)
	logger, lerr := InitLogger(cfg)
	if lerr != nil {
		verifDie("logger %v", lerr)
	}
	slock := NewSLock(cfg, logger)
	err := slock.Init(NewServer(slock))
	return slock, err
}

func verifListDir(dir string) string {
	ents, _ := ioutil.ReadDir(dir)
	parts := make([]string, 0)
	for _, e := range ents {
		parts = append(parts, fmt.Sprintf("%s=%d", e.Name(), e.Size()))
	}
	return strings.Join(parts, ",")
}

// aofh inst <dir> <logfile> <bufsize> [op ...]
// prints: init <ok|err:..>; log lines of interest; census; after the ops (if any): replies, flush, census2; dir listing
func verifAofInstMode(args []string) {
	dir, logFile, bufSize := args[0], args[1], verifAtoi(args[2])
	_ = os.Chdir(filepath.Dir(logFile))
	defer func() {
		if r := recover(); r != nil {
			fmt.Printf("panic %v\n", strings.ReplaceAll(fmt.Sprint(r), " ", "_"))
			os.Stdout.Sync()
			os.Exit(4)
		}
	}()
	slock, err := verifStartNode(dir, logFile, bufSize, 0)
	if err != nil {
		fmt.Printf("init err:%s\n", strings.ReplaceAll(err.Error(), " ", "_"))
		for _, l := range verifGrepLog(logFile, "Aof LoadOrInit error", "Replication init error") {
			fmt.Println("log", l)
		}
		return
	}
	fmt.Println("init ok")
	_ = slock.aof.WaitFlushAofChannel()
	time.Sleep(20 * time.Millisecond)
	for _, l := range verifGrepLog(logFile, "Replication init error", "Aof load lock Processlockcommand error") {
		fmt.Println("log", l)
	}
	fmt.Printf("replinit %v\n", slock.replicationManager.bufferQueue != nil)
	for _, h := range verifCensus(slock) {
		fmt.Println(h)
	}
	fmt.Println("census-end")
	if len(args) > 3 {
		_ = slock.aof.WaitRewriteAofFiles()
		c := verifNewClient(slock)
		for _, op := range args[3:] {
			c.do(op)
		}
		for _, r := range c.replies {
			fmt.Println(r)
		}
		time.Sleep(30 * time.Millisecond)
		_ = slock.aof.WaitFlushAofChannel()
		slock.aof.FlushWithLocked()
		_ = slock.aof.WaitRewriteAofFiles()
		for _, h := range verifCensus(slock) {
			fmt.Println(h)
		}
		fmt.Println("census2-end")
		slock.aof.Close()
	}
	fmt.Println("dir", verifListDir(dir))
}

func verifCopyDir(src string, dst string) {
	_ = os.MkdirAll(dst, 0755)
	ents, _ := ioutil.ReadDir(src)
	for _, e := range ents {
		if e.IsDir() {
			continue
		}
		b, err := ioutil.ReadFile(filepath.Join(src, e.Name()))
		if err == nil {
			_ = ioutil.WriteFile(filepath.Join(dst, e.Name()), b, 0644)
		}
	}
}

// aofh compact <dir> <logfile> <bufsize> <rewritesize> <snapdir> <armstart 0|1> [op ...]
//   armstart = 1: the crash points are armed before Init, so the START-UP compaction is snapshotted as well.
//   runs the ops on a real node started on <dir>; "rotate" forces a rotation + compaction through RewriteAofFile(true)
//   (the admin-command path).  The crash points verifPoint(200..211) compiled into aof.go (tag verif) copy the data
//   directory synchronously, in the goroutine that performs the mutation, into <snapdir>/<seq>-<point>; point 0 = the
//   directory before the rotation, point 299 = the directory after the compaction has returned.
func verifAofCompactMode(args []string) {
	dir, logFile, bufSize, rewriteSize, snapDir := args[0], args[1], verifAtoi(args[2]), verifAtoi(args[3]), args[4]
	_ = os.Chdir(filepath.Dir(logFile))
	seq := 0
	armed := args[5] == "1"
	snaps := make([]string, 0)
	snap := func(n int) {
		seq++
		name := fmt.Sprintf("%03d-%d", seq, n)
		verifCopyDir(dir, filepath.Join(snapDir, name))
		snaps = append(snaps, fmt.Sprintf("snap %s %s", name, verifListDir(dir)))
	}
	VerifPointHook = func(n int) {
		if n >= 200 && armed {
			snap(n)
		}
	}
	slock, err := verifStartNode(dir, logFile, bufSize, rewriteSize)
	if err != nil {
		fmt.Printf("init err:%s\n", strings.ReplaceAll(err.Error(), " ", "_"))
		return
	}
	fmt.Println("init ok")
	_ = slock.aof.WaitFlushAofChannel()
	time.Sleep(30 * time.Millisecond)
	_ = slock.aof.WaitRewriteAofFiles()
	if armed && seq > 0 {
		snap(299) // the start-up compaction has returned
	}
	armed = false
	fmt.Printf("cur %d\n", slock.aof.aofFileIndex)
	for _, h := range verifCensus(slock) {
		fmt.Println("start", h)
	}
	c := verifNewClient(slock)
	settle := func() {
		time.Sleep(30 * time.Millisecond)
		_ = slock.aof.WaitFlushAofChannel()
		slock.aof.FlushWithLocked()
	}
	for _, op := range args[6:] {
		switch {
		case op == "settle":
			settle()
		case op == "waitrewrite":
			settle()
			_ = slock.aof.WaitRewriteAofFiles()
		case strings.HasPrefix(op, "back:"):
			// the manual clock starts N seconds BEHIND the wall clock, so that the `adv:` steps of this history never
			// date a record in the future of a later restart (a restart runs on the wall clock; for a record dated in
			// its future the loader re-arms the full term from its own clock, which two restarts a second apart do
			// differently -- an artifact of a scripted clock, not of a compaction)
			d0 := slock.GetOrNewDB(0)
			d0.currentTime -= int64(verifAtoi(op[5:]))
			d0.checkTimeoutTime, d0.checkExpriedTime = d0.currentTime, d0.currentTime
		case strings.HasPrefix(op, "adv:"):
			// the manual clock moves on between the requests and the compaction (HasLock compares deadlines)
			settle()
			for _, d := range slock.dbs {
				if d != nil {
					d.currentTime += int64(verifAtoi(op[4:]))
				}
			}
		case op == "rotate":
			settle()
			_ = slock.aof.WaitRewriteAofFiles()
			settle()
			fmt.Printf("cur %d\n", slock.aof.aofFileIndex)
			for _, h := range verifCensus(slock) {
				fmt.Println("pre", h)
			}
			armed = true
			snap(0)
			slock.aof.aofGlock.Lock()
			rerr := slock.aof.RewriteAofFile(true)
			slock.aof.aofGlock.Unlock()
			time.Sleep(50 * time.Millisecond)
			_ = slock.aof.WaitRewriteAofFiles()
			snap(299) // the compaction has returned
			armed = false
			fmt.Printf("rotated %v\n", rerr)
		default:
			c.do(op)
		}
	}
	settle()
	_ = slock.aof.WaitRewriteAofFiles()
	for _, r := range c.replies {
		fmt.Println(r)
	}
	for _, s := range snaps {
		fmt.Println(s)
	}
	for _, h := range verifCensus(slock) {
		fmt.Println(h)
	}
	fmt.Println("census-end")
	slock.aof.Close()
	fmt.Println("dir", verifListDir(dir))
}

// ---------------------------------------------------------------------------------------------- C16 script mode
//
// aofh script <dir> <logfile> <bufsize> <rewritesize> <snapdir> <ref 0|1> <t0> <scriptfile>
//
//	Node with a MANUAL clock (DB clocks start at <t0>, `adv n` advances them) on <dir>.  One script line per action:
//	  L:.. / U:..      request through the real command path (format of verifClient.do)
//	  adv <n>          advance the DB clocks
//	  mark             settle (persistence queue drained, buffers flushed), copy the directory to <snapdir>/m<idx>
//	  thresh <n>       Aof.rewriteSize = n: PushLock itself rotates and requests a compaction (size-threshold path);
//	                   while n > 0 every request is followed by an implicit mark
//	  park <point>     the next compaction goroutine reaching verifPoint(<point>) (200..204) is parked there
//	  trigger          implicit mark; RewriteAofFile(true) under aofGlock (what PushLock / the admin command do), then waits
//	                   until the spawned rewriteAofFiles goroutine has returned or is parked
//	  admin            the guard of the admin commands (isRewriting || isWaitRewite => "Already Rewriting"), else = trigger
//	  resume           implicit mark; releases the parked goroutine and waits for the end of its compaction
//	  rotate           = trigger + wait for the end of the compaction (nothing parked)
//	<ref> = 1: reference run of the same history WITHOUT any compaction: thresh/park/trigger/admin/resume/rotate only
//	place their implicit marks, so mark <idx> of both runs is taken after the same requests.
//	Crash points: every verifPoint(>=200) copies the directory into <snapdir>/<seq>-<point> and prints
//	`snap <seq> <point> ref=<mark idx> rewriting=<0|1> wait=<0|1> active=<n>`: <mark idx> is the mark whose history the image
//	contains (the mark that FOLLOWS for a compaction requested from inside a request, the preceding one otherwise).
type verifScript struct {
	mu        sync.Mutex
	slock     *SLock
	dir       string
	snapDir   string
	ref       bool
	seq       int
	marks     int
	inRequest bool
	active    int // compaction goroutines between verifPoint(200) and verifPoint(204)
	entered   int // number of verifPoint(200) hits
	overlap   int
	parkPoint int
	parked    bool
	parkedCh  chan struct{}
	resumeCh  chan struct{}
	events    []string
	thresh    int
}

func (v *verifScript) flags() (int, int) {
	a := v.slock.aof
	a.glock.Lock()
	r, w := 0, 0
	if a.isRewriting {
		r = 1
	}
	if a.isWaitRewite {
		w = 1
	}
	a.glock.Unlock()
	return r, w
}

func (v *verifScript) hook(n int) {
	if n < 200 || v.ref {
		return
	}
	r, w := v.flags()
	v.mu.Lock()
	if n == 200 {
		v.active++
		v.entered++
		if v.active > 1 {
			v.overlap++
		}
	}
	v.seq++
	ref := v.marks - 1
	if v.inRequest {
		ref = v.marks
	}
	name := fmt.Sprintf("%03d-%d", v.seq, n)
	verifCopyDir(v.dir, filepath.Join(v.snapDir, name))
	v.events = append(v.events, fmt.Sprintf("snap %03d %d ref=%d rewriting=%d wait=%d active=%d cur=%d files=%s", v.seq, n, ref, r, w, v.active, v.slock.aof.aofFileIndex, verifListDir(v.dir)))
	if n == 204 {
		v.active--
	}
	park := n == v.parkPoint && !v.parked && v.parkedCh != nil
	var pc, rc chan struct{}
	if park {
		v.parked = true
		v.parkPoint = 0
		pc, rc = v.parkedCh, v.resumeCh
	}
	v.mu.Unlock()
	if park {
		close(pc)
		<-rc
	}
}

// the directory after a compaction has returned (point 299)
func (v *verifScript) snapDone() {
	r, w := v.flags()
	v.mu.Lock()
	v.seq++
	ref := v.marks - 1
	if v.inRequest {
		ref = v.marks
	}
	name := fmt.Sprintf("%03d-%d", v.seq, 299)
	verifCopyDir(v.dir, filepath.Join(v.snapDir, name))
	v.events = append(v.events, fmt.Sprintf("snap %03d %d ref=%d rewriting=%d wait=%d active=%d cur=%d files=%s", v.seq, 299, ref, r, w, v.active, v.slock.aof.aofFileIndex, verifListDir(v.dir)))
	v.mu.Unlock()
}

func (v *verifScript) emit(format string, a ...interface{}) {
	v.mu.Lock()
	v.events = append(v.events, fmt.Sprintf(format, a...))
	v.mu.Unlock()
}

func (v *verifScript) settle() {
	for i := 0; i < 3; i++ {
		_ = v.slock.aof.WaitFlushAofChannel()
		time.Sleep(2 * time.Millisecond)
	}
	_ = v.slock.aof.WaitFlushAofChannel()
	v.slock.aof.FlushWithLocked()
}

func (v *verifScript) mark() {
	v.settle()
	r, w := v.flags()
	v.mu.Lock()
	idx := v.marks
	v.marks++
	v.mu.Unlock()
	verifCopyDir(v.dir, filepath.Join(v.snapDir, fmt.Sprintf("m%03d", idx)))
	v.emit("mark %d rewriting=%d wait=%d cur=%d goroutines=%d files=%s", idx, r, w, v.slock.aof.aofFileIndex, runtime.NumGoroutine(), verifListDir(v.dir))
	for _, h := range verifCensus(v.slock) {
		v.emit("live %d %s", idx, h)
	}
}

// waits until the rewriteAofFiles goroutine(s) spawned since <baseline> was taken have returned, or one of them parked
func (v *verifScript) await(baseline int, entered0 int, wasParked bool) string {
	deadline := time.Now().Add(20 * time.Second)
	for time.Now().Before(deadline) {
		v.mu.Lock()
		parked, entered := v.parked, v.entered
		v.mu.Unlock()
		if runtime.NumGoroutine() <= baseline {
			if entered > entered0 {
				return "completed"
			}
			return "dropped"
		}
		if parked && !wasParked && runtime.NumGoroutine() <= baseline+1 && entered > entered0 {
			return "parked"
		}
		time.Sleep(200 * time.Microsecond)
	}
	return "stuck"
}

func (v *verifScript) trigger(how string) {
	a := v.slock.aof
	r0, w0 := v.flags()
	v.mu.Lock()
	entered0, wasParked := v.entered, v.parked
	v.mu.Unlock()
	baseline := runtime.NumGoroutine()
	a.aofGlock.Lock()
	err := a.RewriteAofFile(true)
	a.aofGlock.Unlock()
	out := v.await(baseline, entered0, wasParked)
	if out == "completed" {
		v.snapDone()
	}
	r, w := v.flags()
	v.mu.Lock()
	ov := v.overlap
	v.mu.Unlock()
	v.emit("trigger %s before=%d%d outcome=%s after=%d%d err=%v overlap=%d cur=%d", how, r0, w0, out, r, w, err, ov, a.aofFileIndex)
}

func verifAofScriptMode(args []string) {
	dir, logFile, bufSize, rewriteSize, snapDir := args[0], args[1], verifAtoi(args[2]), verifAtoi(args[3]), args[4]
	ref := args[5] == "1"
	t0, _ := strconv.ParseInt(args[6], 10, 64)
	raw, rerr := ioutil.ReadFile(args[7])
	if rerr != nil {
		verifDie("script %v", rerr)
	}
	_ = os.Chdir(filepath.Dir(logFile))
	_ = os.MkdirAll(snapDir, 0755)
	VerifManualClock = true
	v := &verifScript{dir: dir, snapDir: snapDir, ref: ref}
	armed := false
	VerifPointHook = func(n int) {
		if armed {
			v.hook(n)
		}
	}
	slock, err := verifStartNode(dir, logFile, bufSize, rewriteSize)
	if err != nil {
		fmt.Printf("init err:%s\n", strings.ReplaceAll(err.Error(), " ", "_"))
		return
	}
	v.slock = slock
	fmt.Println("init ok")
	_ = slock.aof.WaitFlushAofChannel()
	time.Sleep(20 * time.Millisecond)
	_ = slock.aof.WaitRewriteAofFiles()
	db := slock.GetOrNewDB(0)
	db.currentTime, db.checkTimeoutTime, db.checkExpriedTime = t0, t0, t0
	time.Sleep(5 * time.Millisecond)
	armed = true
	c := verifNewClient(slock)
	flushEvents := func() {
		v.mu.Lock()
		for _, e := range v.events {
			fmt.Println(e)
		}
		v.events = v.events[:0]
		v.mu.Unlock()
	}
	for _, line := range strings.Split(string(raw), "\n") {
		t := strings.Fields(line)
		if len(t) == 0 {
			continue
		}
		fmt.Println("act", line)
		switch t[0] {
		case "adv":
			for _, d := range slock.dbs {
				if d != nil {
					d.currentTime += int64(verifAtoi(t[1]))
				}
			}
		case "mark":
			v.mark()
		case "thresh":
			v.settle() // the records of the earlier requests must have passed PushLock under the old threshold
			v.thresh = verifAtoi(t[1])
			if !ref {
				if v.thresh > 0 {
					slock.aof.rewriteSize = uint32(v.thresh)
				} else {
					slock.aof.rewriteSize = uint32(Config.AofFileRewriteSize)
				}
			}
		case "park":
			if !ref {
				v.mu.Lock()
				v.parkPoint, v.parked = verifAtoi(t[1]), false
				v.parkedCh, v.resumeCh = make(chan struct{}), make(chan struct{})
				v.mu.Unlock()
			}
		case "trigger", "rotate", "admin":
			v.mark()
			if ref {
				break
			}
			if t[0] == "admin" {
				if r, w := v.flags(); r != 0 || w != 0 {
					v.emit("admin rejected before=%d%d", r, w)
					break
				}
			}
			v.trigger(t[0])
		case "resume":
			v.mark()
			if ref {
				break
			}
			v.mu.Lock()
			rc, was := v.resumeCh, v.parked
			v.parked, v.parkedCh, v.resumeCh = false, nil, nil
			v.mu.Unlock()
			if was && rc != nil {
				close(rc)
			}
			_ = slock.aof.WaitRewriteAofFiles()
			for i := 0; i < 20000; i++ {
				v.mu.Lock()
				act := v.active
				v.mu.Unlock()
				r, _ := v.flags()
				if act == 0 && r == 0 {
					break
				}
				time.Sleep(200 * time.Microsecond)
			}
			if was {
				v.snapDone()
			}
			r, w := v.flags()
			v.emit("resumed was_parked=%v after=%d%d", was, r, w)
		default:
			if strings.Contains(t[0], ":") {
				if v.thresh > 0 && !ref {
					v.mu.Lock()
					entered0, wasParked := v.entered, v.parked
					v.inRequest = true
					v.mu.Unlock()
					baseline := runtime.NumGoroutine()
					cur0 := slock.aof.aofFileIndex
					c.do(t[0])
					v.settle()
					if slock.aof.aofFileIndex != cur0 {
						out := v.await(baseline, entered0, wasParked)
						if out == "completed" {
							v.snapDone()
						}
						r, w := v.flags()
						v.mu.Lock()
						ov := v.overlap
						v.mu.Unlock()
						v.emit("trigger size outcome=%s after=%d%d overlap=%d cur=%d", out, r, w, ov, slock.aof.aofFileIndex)
					}
					v.mu.Lock()
					v.inRequest = false
					v.mu.Unlock()
				} else {
					c.do(t[0])
				}
				if v.thresh > 0 {
					v.mark()
				}
			} else {
				verifDie("unknown script action %q", t[0])
			}
		}
		for _, r := range c.replies {
			fmt.Println(r)
		}
		c.replies = c.replies[:0]
		flushEvents()
	}
	v.mark()
	flushEvents()
	v.mu.Lock()
	stillParked := v.parked
	v.mu.Unlock()
	fmt.Printf("end parked=%v overlap=%d entered=%d\n", stillParked, v.overlap, v.entered)
	if !stillParked {
		armed = false
		slock.aof.Close()
	}
	fmt.Println("dir", verifListDir(dir))
	fmt.Println("script-end")
	os.Stdout.Sync()
	os.Exit(0)
}

// aofh loaddir <dir> <now> <bufsize>: what LoadAndInit would hand to the engine for this directory (no node started)
func verifAofLoadDirMode(args []string) {
	base, _ := ioutil.TempDir("/tmp", "aof-ld-")
	defer os.RemoveAll(base)
	cfg := verifConfig(args[0], filepath.Join(base, "log"), verifAtoi(args[2]), 0)
	logger, _ := InitLogger(cfg)
	slock := NewSLock(cfg, logger)
	now, _ := strconv.ParseInt(args[1], 10, 64)
	fmt.Println(verifLoadDir(slock, args[0], now))
}

func VerifAofMain() {
	if len(os.Args) < 2 {
		verifDie("usage: aofh file|inst|compact ...")
	}
	if os.Getenv("AOFH_MANUAL_CLOCK") == "1" {
		VerifManualClock = true
	}
	switch os.Args[1] {
	case "script":
		verifAofScriptMode(os.Args[2:])
	case "file":
		verifAofFileMode()
	case "inst":
		verifAofInstMode(os.Args[2:])
	case "compact":
		verifAofCompactMode(os.Args[2:])
	case "loaddir":
		verifAofLoadDirMode(os.Args[2:])
	default:
		verifDie("unknown mode %s", os.Args[1])
	}
}
