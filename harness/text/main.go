// textrun: drives the real protocol.TextParser / TextCommandConverter of the slock tree under test on the cases
// read from stdin (one per line) and prints one observation line per case, in exactly the format printed by
// ocaml/text/driver.ml for the Coq model.  See checks/C14_text.py for the case grammar.
package main

import (
	"bufio"
	"crypto/md5"
	"encoding/hex"
	"fmt"
	"os"
	"strconv"
	"strings"

	"github.com/snower/slock/protocol"
)

func unhex(s string) []byte {
	if s == "-" || s == "" {
		return []byte{}
	}
	b, err := hex.DecodeString(s)
	if err != nil {
		panic("bad hex in case: " + s)
	}
	return b
}

func fnv(b []byte) uint64 {
	h := uint64(0xcbf29ce484222325)
	for _, c := range b {
		h ^= uint64(c)
		h *= 0x100000001b3
	}
	return h
}

func repr(b []byte) string {
	if len(b) <= 64 {
		return hex.EncodeToString(b)
	}
	return fmt.Sprintf("#%d:%016x", len(b), fnv(b))
}

func reprList(l []string) string {
	parts := make([]string, len(l))
	for i, a := range l {
		parts[i] = repr([]byte(a))
	}
	return fmt.Sprintf("%d:%s", len(l), strings.Join(parts, ","))
}

func errClass(err error) string {
	s := err.Error()
	switch {
	case strings.Contains(s, "must by -+$*"):
		return "E_FIRST"
	case strings.Contains(s, "must by $"):
		return "E_DOLLAR"
	case strings.Contains(s, "must by *"):
		return "E_STAR"
	case strings.Contains(s, "args count error"):
		return "E_COUNT"
	case strings.HasPrefix(s, "strconv."):
		return "E_ATOI"
	case strings.Contains(s, "arg len error"):
		return "E_LEN"
	case strings.Contains(s, "parse arg error"):
		return "E_ARG"
	case strings.Contains(s, "parse msg error"):
		return "E_MSG"
	}
	return "E_OTHER(" + s + ")"
}

// ---------------------------------------------------------------- P: parser run, the server's read loop
func stateLine(p *protocol.TextParser) string {
	st := p.VerifState()
	a := p.GetArgs()
	last := -1
	if len(a) > 0 {
		last = len(a[len(a)-1])
	}
	return fmt.Sprintf("S:%d,%d,%d,%d,%d,%d,%d,%d,%d", st[0], st[1], st[2], st[3], st[4], st[5], st[6], len(a), last)
}

func runParse(resp bool, capacity int, chunks [][]byte) (out []string) {
	parser := protocol.NewTextParser(make([]byte, capacity), make([]byte, 64))
	defer func() {
		if r := recover(); r != nil {
			out = append(out, "R:panic")
			out = append(out, "A:"+reprList(parser.GetArgs()))
		}
	}()
	parse := func() error {
		if resp {
			return parser.ParseResponse()
		}
		return parser.ParseRequest()
	}
	for _, chunk := range chunks {
		copy(parser.GetReadBuf(), chunk) // n := Read(rbuf)
		parser.BufferUpdate(len(chunk))
		for guard := 0; ; guard++ {
			if guard > len(chunk)+1 {
				out = append(out, "R:outoffuel")
				out = append(out, "A:"+reprList(parser.GetArgs()))
				return
			}
			err := parse()
			if err != nil {
				out = append(out, stateLine(parser), "R:err="+errClass(err))
				out = append(out, "A:"+reprList(parser.GetArgs()))
				return
			}
			if parser.IsParseFinish() {
				out = append(out, fmt.Sprintf("C:%d:%s", parser.GetArgsType(), reprList(parser.GetArgs())))
				parser.Reset()
				if parser.IsBufferEnd() {
					break
				}
			} else if parser.IsBufferEnd() {
				break
			}
		}
		out = append(out, stateLine(parser), "R:ok")
	}
	out = append(out, "A:"+reprList(parser.GetArgs()))
	return
}

// ---------------------------------------------------------------- T / F / W: text command conversion and rendering
type fakeProto struct {
	parser  *protocol.TextParser
	lockId  [16]byte
	timeout uint16
	dbId    uint8
}

func (self *fakeProto) GetDBId() uint8                                  { return self.dbId }
func (self *fakeProto) GetLockId() [16]byte                             { return self.lockId }
func (self *fakeProto) GetTimeout() uint16                              { return self.timeout }
// a recycled command as the server's free list hands it out: identity fields of its previous use are still there
// (the converter must overwrite every byte of LockId / LockKey itself)
func (self *fakeProto) GetLockCommand() *protocol.LockCommand {
	c := &protocol.LockCommand{}
	for i := range c.LockId {
		c.LockId[i] = 0xaa
		c.LockKey[i] = 0xbb
	}
	return c
}
func (self *fakeProto) FreeLockCommand(_ *protocol.LockCommand) error   { return nil }
func (self *fakeProto) GetParser() *protocol.TextParser                 { return self.parser }

type sink struct{ buf []byte }

func (self *sink) ReadBytes(b []byte) (int, error) { return 0, nil }
func (self *sink) Read(b []byte) (int, error)      { return 0, nil }
func (self *sink) WriteBytes(b []byte) error       { self.buf = append(self.buf, b...); return nil }
func (self *sink) Write(b []byte) (int, error)     { self.buf = append(self.buf, b...); return len(b), nil }
func (self *sink) Close() error                    { return nil }

var connLockId = [16]byte{0xc0, 0xc1, 0xc2, 0xc3, 0xc4, 0xc5, 0xc6, 0xc7, 0xc8, 0xc9, 0xca, 0xcb, 0xcc, 0xcd, 0xce, 0xcf}

func newFake() *fakeProto {
	return &fakeProto{protocol.NewTextParser(make([]byte, 1024), make([]byte, 1024)), connLockId, 7, 3}
}

func idRepr(id [16]byte, cmd *protocol.LockCommand) string {
	if id == cmd.RequestId {
		return "REQID"
	}
	if id == connLockId {
		return "CONNID"
	}
	return hex.EncodeToString(id[:])
}

// rendering of the Data field: the frame bytes; for EXECUTE the embedded 64-byte command carries a random request id,
// so it is decoded and printed field-wise
func dataRepr(d *protocol.LockCommandData, depth int) string {
	if d == nil {
		return "nil"
	}
	if d.CommandType == protocol.LOCK_DATA_COMMAND_TYPE_EXECUTE && len(d.Data) >= 70 && depth < 64 {
		inner := protocol.LockCommand{}
		if err := inner.Decode(d.Data[6:70]); err != nil {
			return "exec-decode-error"
		}
		rest := d.Data[70:]
		var innerData *protocol.LockCommandData
		if len(rest) >= 6 {
			innerData = protocol.NewLockCommandDataFromOriginBytes(rest)
		}
		inner.Data = innerData
		return fmt.Sprintf("exec(%d,%d,%d,%s,{%s})", len(d.Data)-4, d.CommandStage, d.DataFlag, hex.EncodeToString(d.Data[:6]), cmdRepr(&inner, depth+1))
	}
	return fmt.Sprintf("raw(%d,%d,%d,%s)", d.CommandStage, d.CommandType, d.DataFlag, repr(d.Data))
}

func cmdRepr(c *protocol.LockCommand, depth int) string {
	return fmt.Sprintf("type=%d flag=%d db=%d lockid=%s key=%s tflag=%d timeout=%d eflag=%d expried=%d count=%d rcount=%d data=%s",
		c.CommandType, c.Flag, c.DbId, idRepr(c.LockId, c), hex.EncodeToString(c.LockKey[:]), c.TimeoutFlag, c.Timeout,
		c.ExpriedFlag, c.Expried, c.Count, c.Rcount, dataRepr(c.Data, depth))
}

func runConvert(generic bool, args []string) (out string) {
	defer func() {
		if r := recover(); r != nil {
			out = "panic"
		}
	}()
	conv := protocol.NewTextCommandConverter()
	fp := newFake()
	var cmd *protocol.LockCommand
	var err error
	if generic {
		cmd, _, err = conv.ConvertTextKeyOperateValueCommand(fp, args)
	} else {
		cmd, _, err = conv.ConvertTextLockAndUnLockCommand(fp, args)
	}
	if err != nil {
		return "err=" + strings.ReplaceAll(err.Error(), " ", "_")
	}
	return "ok " + cmdRepr(cmd, 0)
}

func runRender(f []string) (out string) {
	defer func() {
		if r := recover(); r != nil {
			out = "panic"
		}
	}()
	n := func(i int) uint64 { v, _ := strconv.ParseUint(f[i], 10, 64); return v }
	res := protocol.LockResultCommand{}
	res.Result = uint8(n(0))
	res.Flag = uint8(n(1))
	copy(res.LockId[:], unhex(f[2]))
	res.Lcount = uint16(n(3))
	res.Count = uint16(n(4))
	res.Lrcount = uint8(n(5))
	res.Rcount = uint8(n(6))
	if len(f) > 7 && f[7] != "nil" {
		d := unhex(f[7])
		res.Data = protocol.NewLockResultCommandDataFromOriginBytes(d)
	}
	conv := protocol.NewTextCommandConverter()
	fp := newFake()
	s := &sink{}
	err := conv.WriteTextLockAndUnLockCommandResult(fp, s, &res)
	if err != nil {
		return "err"
	}
	return "ok " + hex.EncodeToString(s.buf)
}

func main() {
	in := bufio.NewReaderSize(os.Stdin, 1<<20)
	w := bufio.NewWriterSize(os.Stdout, 1<<20)
	defer w.Flush()
	for {
		line, err := in.ReadString('\n')
		line = strings.TrimRight(line, "\r\n")
		if line != "" {
			f := strings.Split(line, " ")
			switch f[0] {
			case "P":
				capacity, _ := strconv.Atoi(f[2])
				chunks := make([][]byte, 0, len(f)-3)
				for _, h := range f[3:] {
					chunks = append(chunks, unhex(h))
				}
				fmt.Fprintln(w, strings.Join(runParse(f[1] == "1", capacity, chunks), " "))
			case "G":
				fmt.Fprintln(w, "n/a") // evaluated by the model only (guard of the chunking theorem)
			case "BR":
				args := make([]string, 0)
				for _, h := range f[1:] {
					args = append(args, string(unhex(h)))
				}
				p := protocol.NewTextParser(make([]byte, 16), make([]byte, 16))
				fmt.Fprintln(w, repr(p.BuildRequest(args)))
			case "BS":
				results := make([]string, 0)
				for _, h := range f[3:] {
					results = append(results, string(unhex(h)))
				}
				p := protocol.NewTextParser(make([]byte, 16), make([]byte, 16))
				fmt.Fprintln(w, repr(p.BuildResponse(f[1] == "1", string(unhex(f[2])), results)))
			case "K":
				s := string(unhex(f[1]))
				var id [16]byte
				for i := range id {
					id[i] = 0xaa // the destination is a field of a recycled command: it must be overwritten completely
				}
				protocol.NewTextCommandConverter().ConvertArgId2LockId(s, &id)
				key := protocol.ConvertString2LockKey(s)
				fmt.Fprintln(w, hex.EncodeToString(id[:])+" "+hex.EncodeToString(key[:]))
			case "MD5":
				sum := md5.Sum(unhex(f[1]))
				fmt.Fprintln(w, hex.EncodeToString(sum[:]))
			case "T", "F":
				args := make([]string, 0)
				for _, h := range f[1:] {
					args = append(args, string(unhex(h)))
				}
				fmt.Fprintln(w, runConvert(f[0] == "F", args))
			case "W":
				fmt.Fprintln(w, runRender(f[1:]))
			default:
				fmt.Fprintln(w, "badcase")
			}
		}
		if err != nil {
			break
		}
	}
}
