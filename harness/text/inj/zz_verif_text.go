package protocol

// Injected by the verification harness (go build -overlay); read-only view of the parser's private state.
func (self *TextParser) VerifState() [7]int {
	return [7]int{self.stage, self.cargIndex, self.cargLen, self.argsCount, self.bufIndex, self.bufLen, self.argsType}
}
