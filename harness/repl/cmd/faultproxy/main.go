// faultproxy: TCP proxy between a slock follower and its leader that cuts connections.
//
//   faultproxy -listen 127.0.0.1:15911 -target 127.0.0.1:15910 -cuts 3000,resp,-1 [-rst] [-stall-ms N]
//
// The i-th accepted connection uses the i-th cut spec (connections beyond the list are never cut):
//   N      forward exactly N bytes of the leader->follower direction, then close both sides
//   resp   forward the leader's SYNC call result, swallow the follower's next message (the "started" marker)
//          and close both sides: the leader->follower stream ends exactly at the end of the SYNC response
//   resp+N forward the started marker too, then N more leader->follower bytes, then close both sides
//   -1     never cut
// -rst closes with SO_LINGER 0 (RST instead of FIN).  -throttle B limits leader->follower to B bytes/10ms.
// -delay-started-ms N delays the follower's "started" marker of the first connection by N ms (slow link).
// Every event is printed on stdout as one line.
package main

import (
	"flag"
	"fmt"
	"net"
	"os"
	"strconv"
	"strings"
	"sync"
	"time"
)

type spec struct {
	resp  bool
	bytes int64
}

func parseSpecs(s string) []spec {
	res := []spec{}
	for _, f := range strings.Split(s, ",") {
		f = strings.TrimSpace(f)
		if f == "" {
			continue
		}
		sp := spec{}
		if strings.HasPrefix(f, "resp") {
			sp.resp = true
			f = strings.TrimPrefix(strings.TrimPrefix(f, "resp"), "+")
			if f == "" {
				f = "0"
			}
		}
		n, err := strconv.ParseInt(f, 10, 64)
		if err != nil {
			fmt.Println("bad spec", f)
			os.Exit(2)
		}
		sp.bytes = n
		res = append(res, sp)
	}
	return res
}

var mu sync.Mutex

func logf(format string, a ...interface{}) {
	mu.Lock()
	fmt.Printf("%s "+format+"\n", append([]interface{}{time.Now().Format("15:04:05.000")}, a...)...)
	mu.Unlock()
}

func closeConn(c net.Conn, rst bool) {
	if tc, ok := c.(*net.TCPConn); ok && rst {
		_ = tc.SetLinger(0)
	}
	_ = c.Close()
}

func handle(i int, fc net.Conn, target string, sp spec, rst bool, throttle int, delayStarted int) {
	lc, err := net.DialTimeout("tcp", target, 2*time.Second)
	if err != nil {
		logf("conn %d dial error %v", i, err)
		closeConn(fc, rst)
		return
	}
	done := make(chan struct{})
	var once sync.Once
	var st sync.Mutex
	var fwd int64         // leader->follower bytes forwarded
	limit := int64(-1)    // remaining leader->follower bytes before the cut (-1: unlimited)
	waitingStarted := sp.resp
	sawStarted := false
	if !sp.resp {
		limit = sp.bytes
	}
	finish := func(why string) {
		once.Do(func() {
			st.Lock()
			f := fwd
			st.Unlock()
			logf("conn %d closed: %s after %d leader->follower bytes", i, why, f)
			closeConn(fc, rst)
			closeConn(lc, rst)
			close(done)
		})
	}
	// follower -> leader.  In resp mode the follower's first message after the leader answered (the
	// "started" marker of InitSync) is the trigger: with resp+0 it is swallowed and the connection is cut, so the
	// leader->follower stream ends exactly after the SYNC call result; with resp+N it is forwarded and N more
	// leader->follower bytes are let through.
	go func() {
		buf := make([]byte, 65536)
		for {
			n, err := fc.Read(buf)
			if n > 0 {
				st.Lock()
				if !sawStarted && fwd > 0 {
					sawStarted = true
					if delayStarted > 0 { // slow link: the follower's "started" marker reaches the leader late
						st.Unlock()
						logf("conn %d holding the follower's started marker for %d ms", i, delayStarted)
						time.Sleep(time.Duration(delayStarted) * time.Millisecond)
						st.Lock()
					}
				}
				trigger := waitingStarted && fwd > 0
				if trigger {
					waitingStarted = false
					logf("conn %d response was %d bytes, follower sent started (%d bytes)", i, fwd, n)
					if sp.bytes > 0 {
						limit = sp.bytes
					}
				}
				st.Unlock()
				if trigger && sp.bytes == 0 {
					time.Sleep(20 * time.Millisecond)
					finish("cut after the SYNC response (started marker swallowed)")
					return
				}
				if _, werr := lc.Write(buf[:n]); werr != nil {
					finish("leader write error")
					return
				}
			}
			if err != nil {
				finish("follower side ended")
				return
			}
		}
	}()
	// leader -> follower with the cut
	go func() {
		buf := make([]byte, 65536)
		for {
			st.Lock()
			lim := limit
			st.Unlock()
			if lim == 0 {
				finish("cut")
				return
			}
			max := len(buf)
			if lim > 0 && int64(max) > lim {
				max = int(lim)
			}
			if throttle > 0 && max > throttle {
				max = throttle
			}
			n, err := lc.Read(buf[:max])
			if n > 0 {
				st.Lock()
				if limit > 0 && int64(n) > limit { // limit was installed while we were reading
					n = int(limit)
				}
				st.Unlock()
				if _, werr := fc.Write(buf[:n]); werr != nil {
					finish("follower write error")
					return
				}
				st.Lock()
				fwd += int64(n)
				if limit > 0 {
					limit -= int64(n)
				}
				st.Unlock()
				if throttle > 0 {
					time.Sleep(10 * time.Millisecond)
				}
			}
			if err != nil {
				finish("leader side ended")
				return
			}
		}
	}()
	<-done
}

func main() {
	listen := flag.String("listen", "127.0.0.1:15911", "")
	target := flag.String("target", "127.0.0.1:15910", "")
	cuts := flag.String("cuts", "", "")
	rst := flag.Bool("rst", false, "")
	throttle := flag.Int("throttle", 0, "")
	delayStarted := flag.Int("delay-started-ms", 0, "hold the follower's second message (the started marker) this long on the first connection")
	flag.Parse()
	specs := parseSpecs(*cuts)
	ln, err := net.Listen("tcp", *listen)
	if err != nil {
		fmt.Println("listen error", err)
		os.Exit(1)
	}
	logf("listening %s -> %s cuts=%v", *listen, *target, specs)
	i := 0
	for {
		c, err := ln.Accept()
		if err != nil {
			return
		}
		sp := spec{false, -1}
		if i < len(specs) {
			sp = specs[i]
		}
		logf("conn %d accepted spec=%v", i, sp)
		ds := 0
		if i == 0 {
			ds = *delayStarted
		}
		go handle(i, c, *target, sp, *rst, *throttle, ds)
		i++
	}
}
