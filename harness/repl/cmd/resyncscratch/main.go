package main

// C09 demonstration 2: a follower whose position has fallen out of the leader's (small) replication ring buffer
// is resynchronised from scratch; afterwards it must hold exactly what the leader holds - in particular none of
// the holds it had before the resynchronisation and that the leader released in the meantime.

import (
	"fmt"
	"os"
	"strings"
	"time"
)

func main() {
	if len(os.Args) < 2 {
		fmt.Println("usage: demo <slock binary>")
		os.Exit(2)
	}
	bin := os.Args[1]
	baseDir, err := os.MkdirTemp("", "c09demo2-")
	if err != nil {
		panic(err)
	}
	cleanup = append(cleanup, func() { _ = os.RemoveAll(baseDir) })

	// ring buffer of 16 records that cannot grow
	leader := NewNode(bin, "leader", baseDir, "", "--aof_ring_buffer_size", "1024", "--aof_ring_buffer_max_size", "1024")
	leader.Start()
	cleanup = append(cleanup, func() { leader.Kill() })
	proxy := NewProxy(leader.port)
	follower := NewNode(bin, "follower", baseDir, proxy.Addr())
	follower.Start()
	cleanup = append(cleanup, func() { follower.Kill() })
	time.Sleep(time.Second)

	// phase 1, follower connected: sixteen long holds (10 minutes) taken in one burst, then the first eight released
	c := Dial(leader.port)
	for i := 1; i <= 16; i++ {
		c.Lock(fmt.Sprintf("job%02d", i), fmt.Sprintf("owner%02d", i), 600, 1, 1)
	}
	for i := 1; i <= 8; i++ {
		c.Unlock(fmt.Sprintf("job%02d", i), fmt.Sprintf("owner%02d", i))
	}
	diffs, _, f := WaitConverged(leader.port, follower.port, 8*time.Second)
	if len(diffs) > 0 {
		fmt.Println("FAIL (phase 1, plain live replication):")
		for _, d := range diffs {
			fmt.Println("   - " + d)
		}
		runCleanup()
		os.Exit(1)
	}
	fmt.Printf("phase 1: follower in sync, it holds %d keys (job09..job16)\n", len(f))

	// phase 2, follower cut off: the leader releases the other eight, enough traffic passes to push the
	// follower's position out of the 16-record ring, and the log is rotated and compacted
	proxy.Block()
	for i := 9; i <= 16; i++ {
		c.Unlock(fmt.Sprintf("job%02d", i), fmt.Sprintf("owner%02d", i))
	}
	for i := 0; i < 30; i++ {
		c.Lock("churn", fmt.Sprintf("c%02d", i), 600, 1, 1)
		c.Unlock("churn", fmt.Sprintf("c%02d", i))
	}
	// the leader's log is rotated and compacted: released holds leave no trace in the files any more
	c.MustDo("REWRITEAOF")
	c.Lock("fresh1", "f1", 600, 1, 1)
	c.Lock("fresh2", "f2", 600, 1, 1)
	c.Close()
	time.Sleep(500 * time.Millisecond)
	fmt.Println("phase 2: follower was cut off; the leader now holds:")
	fmt.Print(FormatSnapshot(Snapshot(leader.port)))

	// phase 3: reconnect; the follower's position is gone from the ring -> resynchronisation from scratch
	proxy.Unblock()
	diffs, _, f = WaitConverged(leader.port, follower.port, 20*time.Second)
	flog, _ := os.ReadFile(baseDir + "/follower.log")
	if strings.Contains(string(flog), "resend file sync all data") {
		fmt.Println("phase 3: the follower was resynchronised from scratch (its log says: resend file sync all data)")
	} else {
		fmt.Println("phase 3: note: the follower's log does not mention a resynchronisation from scratch")
	}
	fmt.Println("the follower now holds:")
	fmt.Print(FormatSnapshot(f))
	if len(diffs) > 0 {
		fmt.Println("FAIL: leader quiescent, follower connected and resynchronised, but they differ:")
		for _, d := range diffs {
			fmt.Println("   - " + d)
		}
		runCleanup()
		os.Exit(1)
	}
	fmt.Println("PASS: after the resynchronisation the follower holds exactly the leader's persisted state")
	runCleanup()
}
