package main

// Small two-process harness: starts real slock server processes (leader, follower), puts a TCP proxy
// between follower and leader, talks to both nodes with the Redis-style text protocol and compares what
// they hold (SHOW / SHOW <key> / GET).

import (
	"bufio"
	"errors"
	"fmt"
	"io"
	"net"
	"os"
	"os/exec"
	"path/filepath"
	"sort"
	"strconv"
	"strings"
	"sync"
	"syscall"
	"time"
)

func freePort() int {
	l, err := net.Listen("tcp", "127.0.0.1:0")
	if err != nil {
		panic(err)
	}
	defer l.Close()
	return l.Addr().(*net.TCPAddr).Port
}

type Node struct {
	name string
	bin  string
	port int
	dir  string
	args []string
	cmd  *exec.Cmd
}

func NewNode(bin string, name string, baseDir string, slaveof string, extra ...string) *Node {
	dir := filepath.Join(baseDir, name)
	_ = os.MkdirAll(dir, 0755)
	port := freePort()
	args := []string{"--bind", "127.0.0.1", "--port", strconv.Itoa(port), "--data_dir", dir,
		"--log", filepath.Join(baseDir, name+".log"), "--db_concurrent", "2"}
	if slaveof != "" {
		args = append(args, "--slaveof", slaveof)
	}
	args = append(args, extra...)
	return &Node{name: name, bin: bin, port: port, dir: dir, args: args}
}

func (n *Node) Start() {
	n.cmd = exec.Command(n.bin, n.args...)
	n.cmd.Stdout = nil
	n.cmd.Stderr = nil
	if err := n.cmd.Start(); err != nil {
		fatalf("start %s: %v", n.name, err)
	}
	deadline := time.Now().Add(10 * time.Second)
	for time.Now().Before(deadline) {
		c, err := net.DialTimeout("tcp", fmt.Sprintf("127.0.0.1:%d", n.port), 200*time.Millisecond)
		if err == nil {
			_ = c.Close()
			return
		}
		time.Sleep(50 * time.Millisecond)
	}
	fatalf("node %s did not start listening", n.name)
}

// Stop terminates the process gracefully (SIGTERM), Kill is a crash (SIGKILL).
func (n *Node) Stop() {
	if n.cmd == nil || n.cmd.Process == nil {
		return
	}
	_ = n.cmd.Process.Signal(syscall.SIGTERM)
	done := make(chan struct{})
	go func() { _, _ = n.cmd.Process.Wait(); close(done) }()
	select {
	case <-done:
	case <-time.After(15 * time.Second):
		_ = n.cmd.Process.Kill()
		<-done
	}
	n.cmd = nil
}

func (n *Node) Kill() {
	if n.cmd == nil || n.cmd.Process == nil {
		return
	}
	_ = n.cmd.Process.Kill()
	_, _ = n.cmd.Process.Wait()
	n.cmd = nil
}

// ---- text protocol client ----

type Conn struct {
	c net.Conn
	r *bufio.Reader
}

func Dial(port int) *Conn {
	c, err := net.DialTimeout("tcp", fmt.Sprintf("127.0.0.1:%d", port), 2*time.Second)
	if err != nil {
		fatalf("dial %d: %v", port, err)
	}
	return &Conn{c, bufio.NewReader(c)}
}

func (c *Conn) Close() { _ = c.c.Close() }

func (c *Conn) readReply() (interface{}, error) {
	line, err := c.r.ReadString('\n')
	if err != nil {
		return nil, err
	}
	line = strings.TrimRight(line, "\r\n")
	if len(line) == 0 {
		return nil, errors.New("empty reply line")
	}
	switch line[0] {
	case '+':
		return line[1:], nil
	case '-':
		return errors.New(line[1:]), nil
	case ':':
		v, _ := strconv.ParseInt(line[1:], 10, 64)
		return v, nil
	case '$':
		n, _ := strconv.Atoi(line[1:])
		if n < 0 {
			return nil, nil
		}
		buf := make([]byte, n+2)
		if _, err = io.ReadFull(c.r, buf); err != nil {
			return nil, err
		}
		return string(buf[:n]), nil
	case '*':
		n, _ := strconv.Atoi(line[1:])
		res := make([]interface{}, 0, n)
		for i := 0; i < n; i++ {
			v, rerr := c.readReply()
			if rerr != nil {
				return nil, rerr
			}
			res = append(res, v)
		}
		return res, nil
	}
	return nil, fmt.Errorf("bad reply %q", line)
}

func (c *Conn) Do(args ...string) (interface{}, error) {
	var sb strings.Builder
	sb.WriteString(fmt.Sprintf("*%d\r\n", len(args)))
	for _, a := range args {
		sb.WriteString(fmt.Sprintf("$%d\r\n%s\r\n", len(a), a))
	}
	_ = c.c.SetDeadline(time.Now().Add(10 * time.Second))
	if _, err := c.c.Write([]byte(sb.String())); err != nil {
		return nil, err
	}
	return c.readReply()
}

func (c *Conn) MustDo(args ...string) interface{} {
	v, err := c.Do(args...)
	if err != nil {
		fatalf("command %v: %v", args, err)
	}
	if e, ok := v.(error); ok {
		fatalf("command %v: server error %v", args, e)
	}
	return v
}

const exZeroAof = 0x0100 << 16 // EXPRIED_FLAG_ZEOR_AOF_TIME: persist (and replicate) the hold at once

// Lock acquires key with the given lock id for `seconds`, persisted immediately. count/rcount as in the text protocol.
func (c *Conn) Lock(key string, lockId string, seconds int, count int, rcount int) {
	v := c.MustDo("LOCK", key, "LOCK_ID", lockId, "TIMEOUT", "0", "EXPRIED", strconv.Itoa(exZeroAof|seconds),
		"COUNT", strconv.Itoa(count), "RCOUNT", strconv.Itoa(rcount))
	arr := v.([]interface{})
	if arr[0].(string) != "0" {
		fatalf("LOCK %s %s failed: %v", key, lockId, arr)
	}
}

func (c *Conn) Unlock(key string, lockId string) {
	v := c.MustDo("UNLOCK", key, "LOCK_ID", lockId)
	arr := v.([]interface{})
	if arr[0].(string) != "0" {
		fatalf("UNLOCK %s %s failed: %v", key, lockId, arr)
	}
}

// Snapshot is what a node holds in db 0: for every key the list of holds "lockid/depth[/value]".
// Deadlines are compared separately (they may differ by one unit of granularity).
type Hold struct {
	LockId  string
	Expried int64
	Depth   string
	Data    string
}

func Snapshot(port int) map[string][]Hold {
	c := Dial(port)
	defer c.Close()
	res := make(map[string][]Hold)
	v, err := c.Do("SHOW", "*")
	if err != nil {
		fatalf("SHOW on %d: %v", port, err)
	}
	if _, isErr := v.(error); isErr {
		return res // "ERR DB Empty": nothing was ever stored in db 0
	}
	arr := v.([]interface{})
	for i := 0; i+1 < len(arr); i += 2 {
		key := arr[i].(string)
		lv, lerr := c.Do("SHOW", key)
		if lerr != nil {
			fatalf("SHOW %s on %d: %v", key, port, lerr)
		}
		if _, isErr := lv.(error); isErr {
			continue
		}
		larr := lv.([]interface{})
		holds := make([]Hold, 0)
		for j := 0; j+6 < len(larr); {
			h := Hold{LockId: larr[j].(string), Depth: larr[j+4].(string)}
			h.Expried, _ = strconv.ParseInt(larr[j+3].(string), 10, 64)
			j += 7
			// an optional value follows the seven fixed fields; lock ids are 32 hex characters, values in
			// these demonstrations never are
			if j < len(larr) {
				if s, ok := larr[j].(string); ok && !isLockId(s) {
					h.Data = s
					j++
				}
			}
			holds = append(holds, h)
		}
		sort.Slice(holds, func(a, b int) bool { return holds[a].LockId < holds[b].LockId })
		res[key] = holds
	}
	return res
}

func isLockId(s string) bool {
	if len(s) != 32 {
		return false
	}
	for _, ch := range s {
		if !strings.ContainsRune("0123456789abcdef", ch) {
			return false
		}
	}
	return true
}

func FormatSnapshot(s map[string][]Hold) string {
	keys := make([]string, 0, len(s))
	for k := range s {
		keys = append(keys, k)
	}
	sort.Strings(keys)
	var sb strings.Builder
	for _, k := range keys {
		sb.WriteString("  key " + keyName(k) + ":")
		for _, h := range s[k] {
			sb.WriteString(fmt.Sprintf(" [lockid=%s depth=%s", keyName(h.LockId), h.Depth))
			if h.Data != "" {
				sb.WriteString(fmt.Sprintf(" value=%q", printable(h.Data)))
			}
			sb.WriteString("]")
		}
		sb.WriteString("\n")
	}
	if len(keys) == 0 {
		sb.WriteString("  (nothing)\n")
	}
	return sb.String()
}

// keyName turns the 32 hex characters of a 16-byte key back into the text it was made from (left padded with
// zero bytes by the text protocol), when it is printable.
func keyName(hexKey string) string {
	raw := make([]byte, 0, 16)
	for i := 0; i+1 < len(hexKey); i += 2 {
		v, err := strconv.ParseUint(hexKey[i:i+2], 16, 8)
		if err != nil {
			return hexKey
		}
		raw = append(raw, byte(v))
	}
	i := 0
	for i < len(raw) && raw[i] == 0 {
		i++
	}
	if i == len(raw) {
		return hexKey
	}
	for _, ch := range raw[i:] {
		if ch < 33 || ch > 126 {
			return hexKey
		}
	}
	return string(raw[i:])
}

func printable(s string) string {
	var sb strings.Builder
	for _, ch := range []byte(s) {
		if ch >= 32 && ch < 127 {
			sb.WriteByte(ch)
		}
	}
	return sb.String()
}

// Diff lists the differences between the leader's and the follower's holdings (keys, lock ids, depths, values;
// deadlines to within `slack` seconds).
func Diff(leader map[string][]Hold, follower map[string][]Hold, slack int64) []string {
	diffs := make([]string, 0)
	for k, lh := range leader {
		fh, ok := follower[k]
		if !ok {
			diffs = append(diffs, fmt.Sprintf("key %s is held on the leader but missing on the follower", keyName(k)))
			continue
		}
		if len(lh) != len(fh) {
			diffs = append(diffs, fmt.Sprintf("key %s: leader has %d holds, follower has %d", keyName(k), len(lh), len(fh)))
			continue
		}
		for i := range lh {
			if lh[i].LockId != fh[i].LockId {
				diffs = append(diffs, fmt.Sprintf("key %s: lock id %s on the leader, %s on the follower", keyName(k), keyName(lh[i].LockId), keyName(fh[i].LockId)))
			}
			if lh[i].Depth != fh[i].Depth {
				diffs = append(diffs, fmt.Sprintf("key %s: depth %s on the leader, %s on the follower", keyName(k), lh[i].Depth, fh[i].Depth))
			}
			if printable(lh[i].Data) != printable(fh[i].Data) {
				diffs = append(diffs, fmt.Sprintf("key %s: value %q on the leader, %q on the follower", keyName(k), printable(lh[i].Data), printable(fh[i].Data)))
			}
			d := lh[i].Expried - fh[i].Expried
			if d < -slack || d > slack {
				diffs = append(diffs, fmt.Sprintf("key %s: deadline %d on the leader, %d on the follower", keyName(k), lh[i].Expried, fh[i].Expried))
			}
		}
	}
	for k := range follower {
		if _, ok := leader[k]; !ok {
			diffs = append(diffs, fmt.Sprintf("key %s is held on the follower but not on the leader", keyName(k)))
		}
	}
	sort.Strings(diffs)
	return diffs
}

// WaitConverged polls until leader and follower hold the same thing or the time is up; returns the last diff.
func WaitConverged(leaderPort int, followerPort int, timeout time.Duration) ([]string, map[string][]Hold, map[string][]Hold) {
	deadline := time.Now().Add(timeout)
	for {
		l, f := Snapshot(leaderPort), Snapshot(followerPort)
		d := Diff(l, f, 2)
		if len(d) == 0 || time.Now().After(deadline) {
			return d, l, f
		}
		time.Sleep(300 * time.Millisecond)
	}
}

// ---- TCP proxy between follower and leader, able to cut the leader->follower stream ----

type Proxy struct {
	port       int
	targetPort int
	ln         net.Listener
	mu         sync.Mutex
	conns      []net.Conn
	// cutAfter >= 0: cut the next connection after that many leader->follower bytes
	cutAfter int64
	accepted int
	blocked  bool
}

func NewProxy(targetPort int) *Proxy {
	ln, err := net.Listen("tcp", "127.0.0.1:0")
	if err != nil {
		panic(err)
	}
	p := &Proxy{port: ln.Addr().(*net.TCPAddr).Port, targetPort: targetPort, ln: ln, cutAfter: -1}
	go p.run()
	return p
}

func (p *Proxy) Addr() string { return fmt.Sprintf("127.0.0.1:%d", p.port) }

func (p *Proxy) run() {
	for {
		c, err := p.ln.Accept()
		if err != nil {
			return
		}
		p.mu.Lock()
		if p.blocked {
			p.mu.Unlock()
			_ = c.Close()
			continue
		}
		cut := p.cutAfter
		p.cutAfter = -1
		p.accepted++
		p.mu.Unlock()
		t, derr := net.DialTimeout("tcp", fmt.Sprintf("127.0.0.1:%d", p.targetPort), 2*time.Second)
		if derr != nil {
			_ = c.Close()
			continue
		}
		p.mu.Lock()
		p.conns = append(p.conns, c, t)
		p.mu.Unlock()
		go func() { _, _ = io.Copy(t, c); _ = t.Close(); _ = c.Close() }()
		go func() {
			if cut >= 0 {
				_, _ = io.CopyN(c, t, cut)
			} else {
				_, _ = io.Copy(c, t)
			}
			_ = t.Close()
			_ = c.Close()
		}()
	}
}

// CutAll closes every connection that goes through the proxy.
func (p *Proxy) CutAll() {
	p.mu.Lock()
	for _, c := range p.conns {
		_ = c.Close()
	}
	p.conns = nil
	p.mu.Unlock()
}

// Block refuses new connections (and cuts the existing ones) until Unblock.
func (p *Proxy) Block() {
	p.mu.Lock()
	p.blocked = true
	p.mu.Unlock()
	p.CutAll()
}

func (p *Proxy) Unblock() {
	p.mu.Lock()
	p.blocked = false
	p.mu.Unlock()
}

func (p *Proxy) Retarget(port int) {
	p.mu.Lock()
	p.targetPort = port
	p.mu.Unlock()
}

var cleanup []func()

func fatalf(format string, a ...interface{}) {
	fmt.Printf("HARNESS ERROR: "+format+"\n", a...)
	runCleanup()
	os.Exit(2)
}

func runCleanup() {
	for i := len(cleanup) - 1; i >= 0; i-- {
		cleanup[i]()
	}
	cleanup = nil
}

func tailLog(baseDir string, name string, n int) string {
	data, err := os.ReadFile(filepath.Join(baseDir, name+".log"))
	if err != nil {
		return ""
	}
	lines := strings.Split(strings.TrimRight(string(data), "\n"), "\n")
	if len(lines) > n {
		lines = lines[len(lines)-n:]
	}
	return strings.Join(lines, "\n")
}
