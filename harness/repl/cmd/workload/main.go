// workload: drives a slock leader with the Go client package.  Every lock carries
// EXPRIED_FLAG_ZEOR_AOF_TIME (0x0100) so that it is persisted (and replicated) immediately.
//
//   workload -port 15910 -n 300 -seed 1 -start 0 [-unlock 30] [-data 20] [-big 0] [-expried 600] [-sleep-us 0]
//
// Key i (start <= i < start+n) is locked once; with probability unlock% it is unlocked again later; data% of the
// locks carry a value (LockWithData SET).  Prints "done locks=<n> unlocks=<m> errors=<e>".
package main

import (
	"flag"
	"fmt"
	"math/rand"
	"os"
	"time"

	"github.com/snower/slock/client"
	"github.com/snower/slock/protocol"
)

func key(i int) [16]byte {
	k := [16]byte{}
	copy(k[:], []byte(fmt.Sprintf("c09k%012d", i)))
	return k
}

func main() {
	port := flag.Uint("port", 15910, "")
	n := flag.Int("n", 100, "")
	seed := flag.Int64("seed", 1, "")
	start := flag.Int("start", 0, "")
	unlockPct := flag.Int("unlock", 30, "")
	dataPct := flag.Int("data", 20, "")
	big := flag.Int("big", 0, "size of value payloads (0: 1..200 bytes)")
	expried := flag.Uint("expried", 600, "")
	sleepUs := flag.Int("sleep-us", 0, "")
	flag.Parse()
	rng := rand.New(rand.NewSource(*seed))
	c := client.NewClient("127.0.0.1", *port)
	if err := c.Open(); err != nil {
		fmt.Println("open error", err)
		os.Exit(1)
	}
	db := c.SelectDB(0)
	locks, unlocks, errs := 0, 0, 0
	held := []*client.Lock{}
	for i := *start; i < *start+*n; i++ {
		l := db.Lock(key(i), 0, uint32(protocol.EXPRIED_FLAG_ZEOR_AOF_TIME)<<16|uint32(*expried))
		var err error
		if rng.Intn(100) < *dataPct {
			sz := 1 + rng.Intn(200)
			if *big > 0 {
				sz = *big
			}
			val := make([]byte, sz)
			for j := range val {
				val[j] = byte('a' + (i+j)%26)
			}
			_, err = l.LockWithData(protocol.NewLockCommandDataSetData(val))
		} else {
			_, err = l.Lock()
		}
		if err != nil {
			errs++
			fmt.Println("lock error", i, err)
		} else {
			locks++
			held = append(held, l)
		}
		if len(held) > 0 && rng.Intn(100) < *unlockPct {
			j := rng.Intn(len(held))
			if _, uerr := held[j].Unlock(); uerr != nil {
				errs++
				fmt.Println("unlock error", uerr)
			} else {
				unlocks++
			}
			held = append(held[:j], held[j+1:]...)
		}
		if *sleepUs > 0 {
			time.Sleep(time.Duration(*sleepUs) * time.Microsecond)
		}
	}
	fmt.Printf("done locks=%d unlocks=%d errors=%d\n", locks, unlocks, errs)
	_ = c.Close()
}
