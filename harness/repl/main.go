// implrun for C09: all logic is in the in-package files injected by overlay (harness/repl/inj/):
//   implrun [ring]        ring part: stdin cases -> stdout observations (zz_verif_repl.go)
//   implrun stress ...    publication order of concurrent Aof.PushLock calls on a real node (zz_verif_repl_node.go)
//   implrun transfer ...  the real sendFiles on a rotated log, every boundary (zz_verif_repl_node.go)
package main

import (
	"github.com/snower/slock/server"
)

func main() {
	server.VerifReplMain()
}
