// implrun for C09 (ring part): stdin cases -> stdout observations, all logic is in the in-package file
// injected by overlay (harness/repl/inj/zz_verif_repl.go).
package main

import (
	"os"

	"github.com/snower/slock/server"
)

func main() {
	server.VerifReplRing(os.Stdin, os.Stdout)
}
