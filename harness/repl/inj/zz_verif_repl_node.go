//go:build verif

// Injected into package server by `go build -overlay` (never written into /repo).  Two in-process scenarios on a REAL
// leader node (slock.Init -> LoadAndInit, real Aof, real ReplicationManager / ReplicationBufferQueue), used by
// checks/C09.py next to the ring driver of zz_verif_repl.go:
//
//   implrun stress <dir> <mode direct|db> <goroutines> <rounds> <per-round> <max-ms> [<rewrite-size>]
//       order of publication.  Several goroutines go through the real Aof.PushLock concurrently -- `direct`: each calls
//       aof.PushLock itself with its own AofLock; `db`: each sends LOCK commands for fresh keys through its own
//       MemWaiterServerProtocol, the records reach PushLock from the shards' AofChannel goroutines (db_concurrent = 8).
//       Rounds start on a barrier.  Afterwards the ring (tail -> head) and the append file are read: the ids
//       (AofIndex, AofOffset) are handed out in file order under aofGlock, so "ring order = file order" is "the ids in
//       the ring increase strictly" + "ring and file hold the same records in the same order".
//
//   implrun transfer <dir>            (case on stdin)
//       full transfer on a rotated log.  `ops L L U R L ...`: L = LOCK of a fresh key, U = UNLOCK of the oldest held key
//       (both persisted at once), R = the next record written makes PushLock rotate the append file (real
//       RewriteAofFile + real background compaction, which keeps the ids).  Then for every boundary line `b <idx> <off>`
//       (or `b all`: the id of every persisted record, one past the last, and a few ids between the files) a
//       ReplicationServer whose waofLock is that boundary runs the REAL sendFiles into a recording connection.
//       Output: the persisted ids in load order (`disk`), and per boundary the ids that were sent (`sent`).
package server

import (
	"bufio"
	"bytes"
	"fmt"
	"io"
	"net"
	"os"
	"path/filepath"
	"runtime"
	"strconv"
	"strings"
	"sync"
	"sync/atomic"
	"time"

	"github.com/jessevdk/go-flags"
	"github.com/snower/slock/protocol"
)

func VerifReplMain() {
	args := os.Args[1:]
	if len(args) == 0 || args[0] == "ring" {
		VerifReplRing(os.Stdin, os.Stdout)
		return
	}
	switch args[0] {
	case "stress":
		vnStress(args[1:])
	case "transfer":
		vnTransfer(args[1:])
	default:
		fmt.Fprintln(os.Stderr, "usage: implrun [ring | stress ... | transfer <dir>]")
		os.Exit(2)
	}
}

func vnAtoi(s string) int {
	v, err := strconv.Atoi(s)
	if err != nil {
		panic("bad number " + s)
	}
	return v
}

func vnStartNode(dir string, concurrent uint, ringSize uint) *SLock {
	cfg := &ServerConfig{}
	_, err := flags.NewParser(cfg, flags.Default).ParseArgs([]string{})
	if err != nil {
		panic(err)
	}
	_ = os.MkdirAll(dir, 0755)
	_ = os.Chdir(filepath.Dir(dir))
	cfg.DataDir = dir
	cfg.DBConcurrent = concurrent
	cfg.DBFastKeyCount = 4096
	if ringSize > 0 {
		cfg.AofRingBufferSize = ringSize
	}
	cfg.Log = filepath.Join(filepath.Dir(dir), filepath.Base(dir)+".log")
	cfg.LogLevel = "INFO"
	logger, lerr := InitLogger(cfg)
	if lerr != nil {
		panic(lerr)
	}
	VerifManualClock = true
	slock := NewSLock(cfg, logger)
	err = slock.Init(NewServer(slock))
	if err != nil {
		panic(err)
	}
	if slock.state != STATE_LEADER {
		panic("node is not a leader")
	}
	return slock
}

func vnQuiesce(slock *SLock) {
	stable := 0
	for i := 0; i < 5000 && stable < 3; i++ {
		_ = slock.aof.WaitFlushAofChannel()
		idle := atomic.LoadUint32(&slock.aof.channelActiveCount) == 0
		slock.aof.glock.Lock()
		channels := slock.aof.channels
		slock.aof.glock.Unlock()
		for _, ch := range channels {
			ch.queueGlock.Lock()
			if ch.queueCount != 0 {
				idle = false
			}
			ch.queueGlock.Unlock()
		}
		if idle {
			stable++
		} else {
			stable = 0
		}
		time.Sleep(time.Millisecond)
	}
}

type vnId struct {
	idx, off uint32
	key      uint64
}

func (a vnId) less(b vnId) bool { return a.idx < b.idx || (a.idx == b.idx && a.off < b.off) }

func vnBufId(buf []byte) vnId {
	off := uint32(buf[3]) | uint32(buf[4])<<8 | uint32(buf[5])<<16 | uint32(buf[6])<<24
	idx := uint32(buf[7]) | uint32(buf[8])<<8 | uint32(buf[9])<<16 | uint32(buf[10])<<24
	key := uint64(0)
	for i := 0; i < 8; i++ {
		key |= uint64(buf[37+i]) << (8 * uint(i))
	}
	return vnId{idx, off, key}
}

func vnKey(n uint64) [16]byte {
	var b [16]byte
	for i := 0; i < 8; i++ {
		b[i] = byte(n >> (8 * uint(i)))
	}
	b[15] = 0x5a
	return b
}

// the persisted records in load order, read with the real reader (same file list and clock as sendFiles)
func vnDisk(slock *SLock) ([]vnId, []uint8, error) {
	aof := slock.aof
	_ = aof.WaitRewriteAofFiles()
	aof.FlushWithLocked()
	appendFiles, rewriteFile, err := aof.FindAofFiles()
	if err != nil {
		return nil, nil, err
	}
	names := make([]string, 0)
	if rewriteFile != "" {
		names = append(names, rewriteFile)
	}
	names = append(names, appendFiles...)
	ids, types := make([]vnId, 0), make([]uint8, 0)
	err, _ = aof.LoadAofFiles(names, time.Now().Unix(), func(filename string, aofFile *AofFile, a *AofLock, firstLock bool) (bool, error) {
		ids = append(ids, vnBufId(a.buf))
		types = append(types, a.CommandType)
		return true, nil
	})
	return ids, types, err
}

// ------------------------------------------------------------------------------------------------ stress
func vnStress(args []string) {
	dir, mode := args[0], args[1]
	G, rounds, per, maxms := vnAtoi(args[2]), vnAtoi(args[3]), vnAtoi(args[4]), vnAtoi(args[5])
	slock := vnStartNode(dir, 8, 32<<20)
	aof := slock.aof
	if len(args) > 6 && mode == "db" {
		// rotation inside PushLock (real RewriteAofFile + background compaction; every lock stays held, so every record survives)
		aof.aofGlock.Lock()
		aof.rewriteSize = uint32(vnAtoi(args[6]))
		aof.aofGlock.Unlock()
	}
	ring := slock.replicationManager.bufferQueue
	capacity := int(ring.bufferSize / 64)
	if G*rounds*per > capacity-64 {
		rounds = (capacity - 64) / (G * per)
	}
	var round, done, stop int64
	round = -1
	now := uint64(time.Now().Unix())
	wg := sync.WaitGroup{}
	replies := int64(0)
	for g := 0; g < G; g++ {
		wg.Add(1)
		go func(g int) {
			defer wg.Done()
			var conn *MemWaiterServerProtocol
			if mode == "db" {
				conn = NewMemWaiterServerProtocol(slock)
				_ = conn.SetResultCallback(func(_ *MemWaiterServerProtocol, command *protocol.LockCommand, result uint8, lcount uint16, lrcount uint8, data []byte) error {
					if result == 0 {
						atomic.AddInt64(&replies, 1)
					}
					return nil
				})
			}
			aofLock := NewAofLock()
			n := uint64(0)
			for r := 0; r < rounds; r++ {
				for atomic.LoadInt64(&round) < int64(r) {
					if atomic.LoadInt64(&stop) != 0 {
						return
					}
					runtime.Gosched()
				}
				for k := 0; k < per; k++ {
					n++
					keyn := uint64(g+1)<<40 | n*uint64(G) + uint64(g) // spreads over the 8 shards, unique
					if mode == "db" {
						c := &protocol.LockCommand{}
						c.Magic, c.Version, c.CommandType = protocol.MAGIC, protocol.VERSION, protocol.COMMAND_LOCK
						c.RequestId = vnKey(keyn)
						c.LockId = vnKey(keyn)
						c.LockKey = vnKey(keyn)
						c.ExpriedFlag = protocol.EXPRIED_FLAG_UNLIMITED_EXPRIED_TIME | protocol.EXPRIED_FLAG_ZEOR_AOF_TIME
						c.Expried = 0xffff
						_ = conn.ProcessLockCommand(c)
					} else {
						aofLock.CommandType = protocol.COMMAND_LOCK
						aofLock.CommandTime = now
						aofLock.LockKey = vnKey(keyn)
						aofLock.LockId = vnKey(keyn)
						aofLock.ExpriedFlag = protocol.EXPRIED_FLAG_UNLIMITED_EXPRIED_TIME
						aofLock.ExpriedTime = 0xffff
						_ = aofLock.Encode()
						_ = aof.PushLock(uint16(g%8), aofLock)
					}
				}
				atomic.AddInt64(&done, 1)
			}
		}(g)
	}
	t0 := time.Now()
	ran := 0
	for r := 0; r < rounds; r++ {
		atomic.StoreInt64(&round, int64(r))
		for atomic.LoadInt64(&done) < int64(G*(r+1)) {
			runtime.Gosched()
		}
		ran = r + 1
		if time.Since(t0) > time.Duration(maxms)*time.Millisecond {
			break
		}
	}
	atomic.StoreInt64(&stop, 1)
	wg.Wait()
	if mode == "db" {
		vnQuiesce(slock)
	}
	elapsed := time.Since(t0)
	// ring, tail -> head
	ringIds := make([]vnId, 0, ran*G*per)
	ring.glock.Lock()
	for it := ring.tailItem; it != nil; it = it.nextItem {
		ringIds = append(ringIds, vnBufId(it.buf))
	}
	ring.glock.Unlock()
	inversions, first := 0, ""
	maxBack := 0
	for i := 1; i < len(ringIds); i++ {
		if !ringIds[i-1].less(ringIds[i]) {
			inversions++
			if first == "" {
				lo, hi := i-3, i+3
				if lo < 0 {
					lo = 0
				}
				if hi > len(ringIds) {
					hi = len(ringIds)
				}
				w := make([]string, 0)
				for _, x := range ringIds[lo:hi] {
					w = append(w, fmt.Sprintf("%d/%d", x.idx, x.off))
				}
				first = fmt.Sprintf("pos=%d ring=[%s]", i, strings.Join(w, ","))
			}
			if d := int(ringIds[i-1].off) - int(ringIds[i].off); ringIds[i-1].idx == ringIds[i].idx && d > maxBack {
				maxBack = d
			}
		}
	}
	diskIds, _, derr := vnDisk(slock)
	fileMatch := derr == nil && len(diskIds) == len(ringIds)
	firstDiff := -1
	if fileMatch {
		for i := range diskIds {
			if diskIds[i] != ringIds[i] {
				fileMatch = false
				firstDiff = i
				break
			}
		}
	}
	fmt.Printf("stress mode=%s goroutines=%d rounds=%d per_round=%d records_ring=%d records_file=%d expected=%d replies=%d inversions=%d max_back=%d "+
		"file_order_equals_ring_order=%v first_diff=%d elapsed_ms=%d gomaxprocs=%d file_index=%d\n", mode, G, ran, per, len(ringIds), len(diskIds), ran*G*per,
		atomic.LoadInt64(&replies), inversions, maxBack, fileMatch, firstDiff, elapsed.Milliseconds(), runtime.GOMAXPROCS(0), aof.aofFileIndex)
	if first != "" {
		fmt.Printf("first-inversion %s\n", first)
	}
	if derr != nil {
		fmt.Printf("disk-error %v\n", derr)
	}
	os.Exit(0)
}

// ------------------------------------------------------------------------------------------------ transfer
type vnConn struct {
	buf bytes.Buffer
}

func (c *vnConn) Read(b []byte) (int, error)         { return 0, io.EOF }
func (c *vnConn) Write(b []byte) (int, error)        { return c.buf.Write(b) }
func (c *vnConn) Close() error                       { return nil }
func (c *vnConn) LocalAddr() net.Addr                { return &net.TCPAddr{IP: net.IPv4(127, 0, 0, 1), Port: 1} }
func (c *vnConn) RemoteAddr() net.Addr               { return &net.TCPAddr{IP: net.IPv4(127, 0, 0, 1), Port: 2} }
func (c *vnConn) SetDeadline(t time.Time) error      { return nil }
func (c *vnConn) SetReadDeadline(t time.Time) error  { return nil }
func (c *vnConn) SetWriteDeadline(t time.Time) error { return nil }

func vnTransfer(args []string) {
	dir := args[0]
	slock := vnStartNode(dir, 1, 0)
	aof := slock.aof
	hugeRewrite := aof.rewriteSize
	out := bufio.NewWriterSize(os.Stdout, 1<<20)
	defer out.Flush()
	conn := NewMemWaiterServerProtocol(slock)
	refused := 0
	_ = conn.SetResultCallback(func(_ *MemWaiterServerProtocol, command *protocol.LockCommand, result uint8, lcount uint16, lrcount uint8, data []byte) error {
		if result != 0 {
			refused++
		}
		return nil
	})
	settle := func() {
		vnQuiesce(slock)
		_ = aof.WaitRewriteAofFiles()
	}
	held := make([]uint64, 0)
	nkey := uint64(0)
	rotateNext := false
	rotations := 0
	bounds := make([][2]uint32, 0)
	boundAll := false
	sc := bufio.NewScanner(os.Stdin)
	sc.Buffer(make([]byte, 1<<20), 1<<24)
	for sc.Scan() {
		f := strings.Fields(sc.Text())
		if len(f) == 0 {
			continue
		}
		switch f[0] {
		case "ops":
			for _, op := range f[1:] {
				if op == "R" {
					rotateNext = true
					continue
				}
				c := &protocol.LockCommand{}
				c.Magic, c.Version = protocol.MAGIC, protocol.VERSION
				c.ExpriedFlag = protocol.EXPRIED_FLAG_UNLIMITED_EXPRIED_TIME | protocol.EXPRIED_FLAG_ZEOR_AOF_TIME
				c.Expried = 0xffff
				if op == "L" {
					nkey++
					c.CommandType = protocol.COMMAND_LOCK
					c.RequestId, c.LockId, c.LockKey = vnKey(nkey), vnKey(nkey), vnKey(nkey)
					held = append(held, nkey)
				} else if op == "U" && len(held) > 0 {
					k := held[0]
					held = held[1:]
					c.CommandType = protocol.COMMAND_UNLOCK
					c.RequestId, c.LockId, c.LockKey = vnKey(k|1<<50), vnKey(k), vnKey(k)
				} else {
					continue
				}
				if rotateNext {
					// PushLock: `if uint32(self.aofFile.GetSize()) >= self.rewriteSize { RewriteAofFile(true) }` after the write
					aof.aofGlock.Lock()
					aof.rewriteSize = 1
					aof.aofGlock.Unlock()
				}
				before := aof.aofFileIndex
				_ = conn.ProcessLockCommand(c)
				settle()
				if rotateNext {
					aof.aofGlock.Lock()
					aof.rewriteSize = hugeRewrite
					aof.aofGlock.Unlock()
					if aof.aofFileIndex != before {
						rotations++
					}
					rotateNext = false
					settle()
				}
			}
		case "b":
			if f[1] == "all" {
				boundAll = true
			} else {
				bounds = append(bounds, [2]uint32{uint32(vnAtoi(f[1])), uint32(vnAtoi(f[2]))})
			}
		}
	}
	settle()
	disk, types, derr := vnDisk(slock)
	if derr != nil {
		fmt.Fprintf(out, "disk-error %v\n", derr)
		return
	}
	w := make([]string, 0)
	for i, x := range disk {
		w = append(w, fmt.Sprintf("%d:%d:%d", x.idx, x.off, types[i]))
	}
	fmt.Fprintf(out, "disk %s\n", strings.Join(w, " "))
	fmt.Fprintf(out, "node rotations=%d refused=%d file_index=%d file_offset=%d files=%s\n", rotations, refused, aof.aofFileIndex, aof.aofFileOffset, vnListDir(dir))
	if boundAll {
		seenIdx := map[uint32]bool{}
		for _, x := range disk {
			bounds = append(bounds, [2]uint32{x.idx, x.off})
			if !seenIdx[x.idx] {
				seenIdx[x.idx] = true
				bounds = append(bounds, [2]uint32{x.idx, 0})       // below the first record of a file
				bounds = append(bounds, [2]uint32{x.idx, 1 << 20}) // above the last record of a file
			}
		}
		bounds = append(bounds, [2]uint32{aof.aofFileIndex, aof.aofFileOffset + 1}) // handleInitSync on an empty ring
	}
	for _, b := range bounds {
		rc := &vnConn{}
		stream := NewStream(rc)
		sp := NewBinaryServerProtocol(slock, stream)
		rs := NewReplicationServer(slock.replicationManager, sp)
		rs.waofLock.AofIndex, rs.waofLock.AofOffset = b[0], b[1]
		err := rs.sendFiles()
		raw := rc.buf.Bytes()
		sent := make([]string, 0)
		marker := 0
		p := 0
		for p+64 <= len(raw) {
			rec := raw[p : p+64]
			p += 64
			x := vnBufId(rec)
			if rec[2] == protocol.COMMAND_INIT && x.idx == 0xffffffff && x.off == 0xffffffff {
				marker++
				continue
			}
			if marker > 0 {
				sent = append(sent, "after-marker")
			}
			sent = append(sent, fmt.Sprintf("%d:%d", x.idx, x.off))
			if (uint16(rec[55])|uint16(rec[56])<<8)&AOF_FLAG_CONTAINS_DATA != 0 && p+4 <= len(raw) {
				p += 4 + int(uint32(raw[p])|uint32(raw[p+1])<<8|uint32(raw[p+2])<<16|uint32(raw[p+3])<<24)
			}
		}
		es := "-"
		if err != nil {
			es = strings.ReplaceAll(err.Error(), " ", "_")
		}
		fmt.Fprintf(out, "sent %d:%d ; %s ; marker=%d trailing=%d err=%s\n", b[0], b[1], strings.Join(sent, " "), marker, len(raw)-p, es)
		_ = sp.Close()
	}
	out.Flush()
	os.Exit(0)
}

func vnListDir(dir string) string {
	ents, _ := os.ReadDir(dir)
	parts := make([]string, 0)
	for _, e := range ents {
		st, _ := e.Info()
		if st != nil {
			parts = append(parts, fmt.Sprintf("%s=%d", e.Name(), st.Size()))
		}
	}
	return strings.Join(parts, ",")
}
