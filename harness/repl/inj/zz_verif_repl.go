//go:build verif

// Injected into package server by `go build -overlay` (never written into /repo).
// Drives a real ReplicationBufferQueue with operation sequences read from stdin and prints every
// return value / error class and, at the end of each sequence, every field of every item of both
// linked lists.  Format is shared with /verif/ocaml/repl/driver.ml (see checks/C09.py).
package server

import (
	"bufio"
	"fmt"
	"io"
	"strconv"
	"strings"
	"sync/atomic"
)

func verifReplErrClass(err error) string {
	if err == nil {
		return "0"
	}
	if err == io.EOF {
		return "1"
	}
	switch err.Error() {
	case "out of buf":
		return "2"
	case "search error":
		return "3"
	}
	return "5"
}

func verifReplMkBuf(off, idx uint32, tm uint64, tag uint32) []byte {
	buf := make([]byte, 64)
	buf[0], buf[1], buf[2] = byte(tag), byte(tag>>8), byte(tag>>16)
	buf[3], buf[4], buf[5], buf[6] = byte(off), byte(off>>8), byte(off>>16), byte(off>>24)
	buf[7], buf[8], buf[9], buf[10] = byte(idx), byte(idx>>8), byte(idx>>16), byte(idx>>24)
	for i := 0; i < 8; i++ {
		buf[11+i] = byte(tm >> (8 * uint(i)))
	}
	buf[19], buf[20], buf[21], buf[22] = byte(tag), byte(tag>>8), byte(tag>>16), byte(tag>>24)
	for i := 23; i < 64; i++ {
		buf[i] = byte(tag) ^ byte(i)
	}
	return buf
}

// returns off, idx, time, tag of a 64 byte record; tag = 0xffffffff when the filler bytes are inconsistent
func verifReplReadBuf(buf []byte) (uint32, uint32, uint64, uint32) {
	off := uint32(buf[3]) | uint32(buf[4])<<8 | uint32(buf[5])<<16 | uint32(buf[6])<<24
	idx := uint32(buf[7]) | uint32(buf[8])<<8 | uint32(buf[9])<<16 | uint32(buf[10])<<24
	tm := uint64(0)
	for i := 0; i < 8; i++ {
		tm |= uint64(buf[11+i]) << (8 * uint(i))
	}
	tag := uint32(buf[19]) | uint32(buf[20])<<8 | uint32(buf[21])<<16 | uint32(buf[22])<<24
	allZero := true
	for i := 0; i < 64; i++ {
		if buf[i] != 0 {
			allZero = false
		}
	}
	if allZero {
		return 0, 0, 0, 0
	}
	ok := buf[0] == byte(tag) && buf[1] == byte(tag>>8) && buf[2] == byte(tag>>16)
	for i := 23; i < 64; i++ {
		if buf[i] != byte(tag)^byte(i) {
			ok = false
		}
	}
	if !ok {
		return off, idx, tm, 0xffffffff
	}
	return off, idx, tm, tag
}

func verifReplData(data []byte) (uint64, uint64) {
	if data == nil {
		return 0, 0
	}
	if len(data) == 0 {
		return 1, 0
	}
	f := data[0]
	for _, b := range data {
		if b != f {
			return uint64(len(data)) + 1, 0xffff
		}
	}
	return uint64(len(data)) + 1, uint64(f)
}

func verifReplCursorObs(c *ReplicationBufferQueueCursor) string {
	off, idx, tm, tag := verifReplReadBuf(c.buf)
	dl, df := verifReplData(c.data)
	w := 0
	if c.writed {
		w = 1
	}
	cidOff := uint32(c.currentAofId[0]) | uint32(c.currentAofId[1])<<8 | uint32(c.currentAofId[2])<<16 | uint32(c.currentAofId[3])<<24
	return fmt.Sprintf("0.%x.%x.%x.%x.%x.%x.%x.%x.%x", off, idx, tm, tag, dl, df, c.seq, w, cidOff)
}

func verifReplRingObs(q *ReplicationBufferQueue) string {
	nl, nf := 0, 0
	for it := q.tailItem; it != nil && nl < 1000000; it = it.nextItem {
		nl++
	}
	for it := q.freeTailItem; it != nil && nf < 1000000; it = it.nextItem {
		nf++
	}
	return fmt.Sprintf("%x.%x.%x.%x.%x.%x.%x", q.seq, q.usedBufferSize, q.bufferSize, q.pollCount, q.dupCount, nl, nf)
}

func verifReplItemDump(it *ReplicationBufferQueueItem) string {
	off, idx, _, tag := verifReplReadBuf(it.buf)
	dl, _ := verifReplData(it.data)
	return fmt.Sprintf("%x.%x.%x.%x.%x.%x.%x", it.seq, off, idx, tag, dl, it.pollCount, it.pollIndex)
}

func verifReplAtoi(s string) uint64 {
	v, err := strconv.ParseUint(s, 10, 64)
	if err != nil {
		panic("bad number " + s)
	}
	return v
}

func verifReplRunCase(line string) (res string) {
	defer func() {
		if r := recover(); r != nil {
			res = res + fmt.Sprintf(" PANIC:%v", r)
		}
	}()
	parts := strings.Split(line, "|")
	hdr := strings.Fields(parts[0])
	q := NewReplicationBufferQueue(nil, verifReplAtoi(hdr[0]), verifReplAtoi(hdr[1]))
	cursors := make(map[uint64]*ReplicationBufferQueueCursor)
	lastId := [16]byte{}
	if len(hdr) >= 5 { // manager.currentAofId as initialised by ReplicationManager.Init
		b := verifReplMkBuf(uint32(verifReplAtoi(hdr[2])), uint32(verifReplAtoi(hdr[3])), verifReplAtoi(hdr[4]), 0)
		copy(lastId[:], b[3:19])
	}
	out := make([]string, 0, len(parts))
	res = ""
	for _, p := range parts[1:] {
		f := strings.Fields(p)
		if len(f) == 0 {
			continue
		}
		var c *ReplicationBufferQueueCursor
		if f[0] != "P" && f[0] != "C" {
			c = cursors[verifReplAtoi(f[1])]
			if c == nil {
				out = append(out, "63")
				res = strings.Join(out, " ")
				continue
			}
		}
		switch f[0] {
		case "P":
			off, idx, tm, tag := uint32(verifReplAtoi(f[1])), uint32(verifReplAtoi(f[2])), verifReplAtoi(f[3]), uint32(verifReplAtoi(f[4]))
			buf := verifReplMkBuf(off, idx, tm, tag)
			var data []byte = nil
			if f[5] != "-1" {
				data = make([]byte, verifReplAtoi(f[5]))
				for i := range data {
					data[i] = byte(verifReplAtoi(f[6]))
				}
			}
			err := q.Push(buf, data)
			if err != nil {
				out = append(out, "5")
			} else {
				copy(lastId[:], buf[3:19]) // ReplicationManager.PushLock, replication.go:2230-2234
				out = append(out, verifReplRingObs(q))
			}
		case "C":
			cursors[verifReplAtoi(f[1])] = NewReplicationBufferQueueCursor(make([]byte, 64))
			out = append(out, "0")
		case "O":
			err := q.Pop(c)
			if err == nil {
				out = append(out, verifReplCursorObs(c))
			} else {
				out = append(out, verifReplErrClass(err))
			}
		case "H":
			err := q.Head(c)
			if err == nil {
				out = append(out, verifReplCursorObs(c))
			} else {
				out = append(out, verifReplErrClass(err))
			}
		case "S":
			b := verifReplMkBuf(uint32(verifReplAtoi(f[2])), uint32(verifReplAtoi(f[3])), verifReplAtoi(f[4]), 0)
			id := [16]byte{}
			copy(id[:], b[3:19])
			err := q.Search(id, c)
			if err == nil {
				out = append(out, verifReplCursorObs(c))
			} else {
				out = append(out, verifReplErrClass(err))
			}
		case "A":
			q.AddPoll(c)
			out = append(out, verifReplRingObs(q))
		case "R":
			q.RemovePoll(c)
			out = append(out, verifReplRingObs(q))
		case "W": // ReplicationServer.SendProcess after the write, replication.go:1431-1432
			if !c.writed {
				c.writed = true
				atomic.AddUint32(&c.currentItem.pollIndex, 1)
			}
			out = append(out, "0")
		case "Y": // ReplicationServer.handleInitSync with a request id, replication.go:1225-1246 (transcribed)
			b := verifReplMkBuf(uint32(verifReplAtoi(f[2])), uint32(verifReplAtoi(f[3])), verifReplAtoi(f[4]), 0)
			initedAofId := [16]byte{}
			copy(initedAofId[:], b[3:19])
			if initedAofId[4] == 0 && initedAofId[5] == 0 && initedAofId[6] == 0 && initedAofId[7] == 0 {
				out = append(out, "6")
				break
			}
			serr := q.Search(initedAofId, c)
			if serr != nil {
				if initedAofId != lastId {
					out = append(out, "6")
					break
				}
				c.currentAofId = lastId
				c.currentItem = nil
				c.seq = q.seq - 1
				c.writed = true
				out = append(out, fmt.Sprintf("7.%x", c.seq))
			} else {
				out = append(out, verifReplCursorObs(c))
			}
		default:
			panic("bad op " + f[0])
		}
		res = strings.Join(out, " ")
	}
	d := []string{verifReplRingObs(q)}
	n := 0
	for it := q.tailItem; it != nil && n < 1000000; it = it.nextItem {
		d = append(d, verifReplItemDump(it))
		n++
	}
	d = append(d, "4d")
	n = 0
	for it := q.freeTailItem; it != nil && n < 1000000; it = it.nextItem {
		d = append(d, verifReplItemDump(it))
		n++
	}
	return strings.Join(out, " ") + " | " + strings.Join(d, " ")
}

// VerifReplRing reads one case per line and prints one observation line per case.
func VerifReplRing(in io.Reader, out io.Writer) {
	r := bufio.NewReaderSize(in, 1<<20)
	w := bufio.NewWriterSize(out, 1<<20)
	defer w.Flush()
	for {
		line, err := r.ReadString('\n')
		line = strings.TrimSpace(line)
		if line != "" {
			fmt.Fprintln(w, verifReplRunCase(line))
		}
		if err != nil {
			return
		}
	}
}
