//go:build verif

package server

// In-package driver for the lock-engine correspondence check (injected by `go build -overlay`; not part of /repo).
// Interprets the case format of DESIGN.md Appendix C on a real LockDB with a manual clock and prints the
// projected observables (replies, AOF records, canonical snapshots).

import (
	"bufio"
	"encoding/hex"
	"fmt"
	"io"
	"os"
	"runtime"
	"sort"
	"strconv"
	"strings"

	"github.com/jessevdk/go-flags"
	"github.com/snower/slock/protocol"
)

type verifEngine struct {
	slock             *SLock
	db                *LockDB
	aofch             *AofChannel
	conns             map[int]*MemWaiterServerProtocol
	out               *bufio.Writer
	acks              []*Lock
	ackIds            [][3]uint64 // AofIndex, AofOffset, CommandTime of each registration
	ackdb             *ReplicationAckDB
	unlockSeq         uint32
	tq, eq            []*LockQueue
	stopped           bool
	recycle           bool
	threads           []*vthread
	cur               *vthread
	forced            bool
	quiet             bool
	bulkOk, bulkOther int
}

// a scheduled request: runs in its own goroutine between yield points (verifPoint hooks), one at a time
type vthread struct {
	resume chan struct{}
	ev     chan int // yield point number, or -1 when the goroutine finished
	wake   bool     // false: parked before the shard mutex (points 9/10); true: parked in front of / inside a wake-up pass
	sweep  bool     // a sweep (checkTimeOut / checkExpried driver loop body) run as a thread: parks at 14/15 in front of each
	//                 per-lock call, at 3/4 in front of that call's wake-up pass and at 7 inside it; never moved in the list
}

func vn16(b [16]byte) uint64 {
	var v uint64
	for i := 0; i < 8; i++ {
		v |= uint64(b[i]) << (8 * uint(i))
	}
	return v
}

func v16(n uint64) [16]byte {
	var b [16]byte
	for i := 0; i < 8; i++ {
		b[i] = byte(n >> (8 * uint(i)))
	}
	return b
}

func vhex(d []byte) string {
	if d == nil {
		return "-"
	}
	return "x" + hex.EncodeToString(d)
}

func VerifEngineSetup() *SLock {
	cfg := &ServerConfig{}
	_, _ = flags.NewParser(cfg, flags.Default).ParseArgs([]string{})
	cfg.DBConcurrent = 1
	cfg.DBFastKeyCount = 64
	cfg.Log = os.DevNull
	cfg.LogLevel = "ERROR"
	logger, err := InitLogger(cfg)
	if err != nil {
		panic(err)
	}
	VerifManualClock = true
	slock := NewSLock(cfg, logger)
	slock.state = STATE_LEADER
	return slock
}

func (e *verifEngine) newDB(t0 int64, aoftime uint8) {
	Config.DBLockAofTime = uint(aoftime)
	e.slock.state = STATE_LEADER
	db := NewLockDB(e.slock, 0)
	db.currentTime, db.checkTimeoutTime, db.checkExpriedTime = t0, t0, t0
	e.slock.dbs[0] = db
	// replace the running AOF channel by an idle one: Push only enqueues, the harness drains it
	for _, ch := range db.aofChannels {
		e.slock.GetAof().CloseAofChannel(ch)
	}
	e.aofch = NewAofChannel(e.slock.GetAof(), db, 0, db.managerGlocks[0])
	db.aofChannels[0] = e.aofch
	e.db = db
	e.conns = map[int]*MemWaiterServerProtocol{}
	e.acks = nil
	e.ackIds = nil
	e.unlockSeq = 0
	e.ackdb = NewReplicationAckDB(e.slock.replicationManager)
	e.ackdb.ackCount = 1
	e.tq = make([]*LockQueue, 5)
	e.eq = make([]*LockQueue, 5)
	e.stopped = false
	// goroutines still parked from the previous case run to completion unobserved
	e.forced = true
	for _, t := range e.threads {
		t.resume <- struct{}{}
		for p := <-t.ev; p != -1; p = <-t.ev {
			t.resume <- struct{}{}
		}
	}
	e.forced = false
	e.threads = nil
	e.cur = nil
	e.installHook()
}

func (e *verifEngine) conn(id int) *MemWaiterServerProtocol {
	if c, ok := e.conns[id]; ok {
		return c
	}
	c := NewMemWaiterServerProtocol(e.slock)
	cid := id
	_ = c.SetResultCallback(func(_ *MemWaiterServerProtocol, command *protocol.LockCommand, result uint8, lcount uint16, lrcount uint8, data []byte) error {
		if e.forced {
			return nil
		}
		if e.quiet {
			if result == protocol.RESULT_SUCCED {
				e.bulkOk++
			} else {
				e.bulkOther++
			}
			return nil
		}
		fmt.Fprintf(e.out, "ev reply %d %d %d %d %d %d %d %d %s\n", cid, vn16(command.RequestId), result, lcount, lrcount,
			vn16(command.LockId), command.Count, command.Rcount, vhex(data))
		return nil
	})
	e.conns[id] = c
	return c
}

// what ReplicationManager.PushLock (server/replication.go) does with a record before it goes to the ring buffer:
// the same condition, the same two calls into the REAL ReplicationAckDB
func (e *verifEngine) pushLockAckPart(a *AofLock) {
	if a.AofFlag&AOF_FLAG_REQUIRE_ACKED != 0 && e.slock.state == STATE_LEADER && a.lock != nil {
		switch a.CommandType {
		case protocol.COMMAND_LOCK:
			_ = e.ackdb.ProcessLeaderPushLock(0, a)
		case protocol.COMMAND_UNLOCK:
			_ = e.ackdb.ProcessLeaderPushUnLock(0, a)
		}
	}
}

func (e *verifEngine) drainAof() {
	for {
		e.aofch.queueGlock.Lock()
		a := e.aofch.pullAofLock()
		e.aofch.queueGlock.Unlock()
		if a == nil {
			return
		}
		islock := 0
		if a.CommandType == protocol.COMMAND_LOCK {
			islock = 1
		}
		ackidx := -1
		if a.lock != nil && a.CommandType == protocol.COMMAND_LOCK {
			e.acks = append(e.acks, a.lock)
			ackidx = len(e.acks) - 1
		}
		fmt.Fprintf(e.out, "ev aof %d %d %d %d %d %d %d %d %d %d %d %s %d\n", islock, a.Flag, vn16(a.LockId), vn16(a.LockKey), a.AofFlag,
			a.CommandTime, a.StartTime, a.ExpriedFlag, a.ExpriedTime, a.Count, a.Rcount, vhex(a.data), ackidx)
		// what Aof.PushLock does: every record gets its own aof id (LOCK records: the id the acknowledgements of
		// the harness name; UNLOCK records: ids of their own, never equal to a LOCK record's) ...
		if ackidx >= 0 {
			a.AofIndex, a.AofOffset = 1, uint32(ackidx+1)
			e.ackIds = append(e.ackIds, [3]uint64{1, uint64(ackidx + 1), a.CommandTime})
			// implementation-side note for the monitors (not compared with the model): the RequestId the record's
			// lock carries when its registration is attempted
			rq := uint64(0)
			if a.lock.command != nil {
				rq = vn16(a.lock.command.RequestId)
			}
			fmt.Fprintf(e.out, "ev note reg %d %d\n", ackidx, rq)
		} else {
			e.unlockSeq++
			a.AofIndex, a.AofOffset = 2, e.unlockSeq
		}
		// ... and is handed to ReplicationManager.PushLock: a LOCK record carrying a lock is registered by the real
		// ReplicationAckDB (sets lock.ackCount) or failed at once; an UNLOCK record carrying a lock drops the
		// registration of the lock's request and runs DoAckLock(lock, false).  Replies, further records and wake-up
		// passes of the nested DoAckLock are observed in this same action (the loop pulls the new records too).
		e.pushLockAckPart(a)
	}
}

func (e *verifEngine) managers() []*LockManager {
	seen := map[*LockManager]bool{}
	res := []*LockManager{}
	for i := range e.db.fastLocks {
		m := e.db.fastLocks[i].manager
		if m != nil && m.refCount != 0xffffffff && !seen[m] {
			seen[m] = true
			res = append(res, m)
		}
	}
	for _, m := range e.db.locks {
		if m != nil && m.refCount != 0xffffffff && !seen[m] {
			seen[m] = true
			res = append(res, m)
		}
	}
	sort.Slice(res, func(i, j int) bool { return vn16(res[i].lockKey) < vn16(res[j].lockKey) })
	return res
}

func b2i(b bool) int {
	if b {
		return 1
	}
	return 0
}

func (e *verifEngine) lockDesc(l *Lock) string {
	if l == nil {
		return "nil"
	}
	if l.command == nil {
		return "freed"
	}
	et := l.expriedTime
	return fmt.Sprintf("%d:%d:%d:%d:%d:%d:%d:%d:%d:%d:%d:%d:%d", vn16(l.command.LockId), l.locked, l.ackCount, l.refCount, b2i(l.timeouted), b2i(l.expried),
		et, l.timeoutTime, b2i(l.isAof), l.command.Count, l.command.Rcount, l.command.TimeoutFlag, vn16(l.command.RequestId))
}

func countFreed(q *LockQueue) int {
	n := 0
	for i := range q.IterNodes() {
		for _, l := range q.IterNodeQueues(int32(i)) {
			if l != nil && l.manager == nil {
				n++
			}
		}
	}
	return n
}

// freed lock records still referenced from the timer structures (use-after-free would follow)
func (e *verifEngine) wheelFreed() int {
	n := 0
	for i := range e.db.timeoutLocks {
		n += countFreed(e.db.timeoutLocks[i][0])
		n += countFreed(e.db.expriedLocks[i][0])
	}
	for _, q := range e.db.longTimeoutLocks[0] {
		n += countFreed(&q.locks)
	}
	for _, q := range e.db.longExpriedLocks[0] {
		n += countFreed(&q.locks)
	}
	return n
}

func (e *verifEngine) snapshot() {
	db := e.db
	st := db.GetState()
	fmt.Fprintf(e.out, "snap now=%d ct=%d ce=%d L=%d U=%d LD=%d W=%d K=%d T=%d E=%d UE=%d uafw=%d thr=%d\n", db.currentTime, db.checkTimeoutTime, db.checkExpriedTime,
		st.LockCount, st.UnLockCount, int32(st.LockedCount), int32(st.WaitCount), int32(st.KeyCount), st.TimeoutedCount, st.ExpriedCount, st.UnlockErrorCount, e.wheelFreed(), len(e.threads))
	for _, m := range e.managers() {
		var sb strings.Builder
		fmt.Fprintf(&sb, "key %d locked=%d waited=%d ref=%d cur=%s holders=[", vn16(m.lockKey), m.locked, b2i(m.waited), m.refCount, e.lockDesc(m.currentLock))
		if m.locks != nil && m.locked > 2000 {
			fmt.Fprintf(&sb, "omitted:%d ", m.locks.Len())
		} else if m.locks != nil {
			if m.locks.fastQueue != nil {
				for i := m.locks.fastIndex; i < len(m.locks.fastQueue); i++ {
					sb.WriteString(e.lockDesc(m.locks.fastQueue[i]) + " ")
				}
			}
			if m.locks.scaleQueue != nil {
				sb.WriteString("| ")
				for i := range m.locks.scaleQueue.IterNodes() {
					for _, l := range m.locks.scaleQueue.IterNodeQueues(int32(i)) {
						if l != nil {
							sb.WriteString(e.lockDesc(l) + " ")
						}
					}
				}
			}
		}
		sb.WriteString("]")
		// a recycled manager object keeps an emptied fastQueue of the initial capacity: same as nil
		if m.locks != nil && m.locks.fastQueue != nil && !(len(m.locks.fastQueue) == 0 && m.locks.fastIndex == 0 && cap(m.locks.fastQueue) == 6) {
			fmt.Fprintf(&sb, " hq=%d/%d", m.locks.fastIndex, cap(m.locks.fastQueue))
		} else {
			sb.WriteString(" hq=-")
		}
		if m.waitLocks != nil && m.waitLocks.fastQueue != nil && m.waitLocks.fastIndex >= 0 && !(len(m.waitLocks.fastQueue) == 0 && m.waitLocks.fastIndex == 0 && cap(m.waitLocks.fastQueue) == 8) {
			fmt.Fprintf(&sb, " wq=%d/%d", m.waitLocks.fastIndex, cap(m.waitLocks.fastQueue))
		} else {
			sb.WriteString(" wq=-")
		}
		sb.WriteString(" waiters=[")
		if m.waitLocks != nil {
			for _, node := range m.waitLocks.IterNodes() {
				for _, l := range node {
					if l != nil {
						sb.WriteString(e.lockDesc(l) + " ")
					}
				}
			}
		}
		sb.WriteString("] data=")
		if m.currentData == nil {
			sb.WriteString("nil")
		} else {
			fmt.Fprintf(&sb, "%s/%d/%d", vhex(m.currentData.data), m.currentData.commandType, b2i(m.currentData.isAof))
		}
		fmt.Fprintln(e.out, sb.String())
	}
}

func (e *verifEngine) sweepT() {
	db := e.db
	t := db.checkTimeoutTime
	now := db.currentTime
	db.checkTimeoutTime = now + 1
	for t <= now {
		db.checkTimeTimeOut(t, now, 0, e.tq)
		t++
	}
}

func (e *verifEngine) sweepE() {
	db := e.db
	t := db.checkExpriedTime
	now := db.currentTime
	db.checkExpriedTime = now + 1
	for t <= now {
		db.checkTimeExpried(t, now, 0, e.eq)
		t++
	}
}

func vatoi(s string) uint64 {
	v, err := strconv.ParseUint(s, 10, 64)
	if err != nil {
		panic("bad number " + s)
	}
	return v
}

func (e *verifEngine) installHook() {
	VerifPointHook = func(n int) {
		t := e.cur
		if t == nil || e.forced {
			return // atomic actor (plain req, sweep, ack): no yield
		}
		if n == 9 || n == 10 {
			return // a request parks at the last moment before the shard mutex (point 12), not here
		}
		if n == 12 && t.wake {
			return // a wake-up pass is already parked in front of each of its iterations (points 1-7, 11)
		}
		t.ev <- n
		<-t.resume
	}
}

func (e *verifEngine) parseCmd(f []string) (*MemWaiterServerProtocol, *protocol.LockCommand) {
	conn := e.conn(int(vatoi(f[1])))
	c := &protocol.LockCommand{}
	c.Magic, c.Version = protocol.MAGIC, protocol.VERSION
	if f[2] == "L" {
		c.CommandType = protocol.COMMAND_LOCK
	} else {
		c.CommandType = protocol.COMMAND_UNLOCK
	}
	c.RequestId = v16(vatoi(f[3]))
	c.Flag = uint8(vatoi(f[4]))
	c.DbId = 0
	c.LockId = v16(vatoi(f[5]))
	c.LockKey = v16(vatoi(f[6]))
	c.TimeoutFlag = uint16(vatoi(f[7]))
	c.Timeout = uint16(vatoi(f[8]))
	c.ExpriedFlag = uint16(vatoi(f[9]))
	c.Expried = uint16(vatoi(f[10]))
	c.Count = uint16(vatoi(f[11]))
	c.Rcount = uint8(vatoi(f[12]))
	if f[13] != "-" {
		d, err := hex.DecodeString(f[13][1:])
		if err != nil {
			panic(err)
		}
		c.Data = protocol.NewLockCommandDataFromOriginBytes(d)
	}
	return conn, c
}

func (e *verifEngine) goPanic() {
	if r := recover(); r != nil {
		fmt.Fprintf(e.out, "ev panic goroutine %v\n", r)
		e.stopped = true
	}
}

// start a scheduled request: it runs until its first yield point
func (e *verifEngine) start(f []string) {
	conn, c := e.parseCmd(f)
	t := &vthread{resume: make(chan struct{}), ev: make(chan int)}
	e.cur = t
	go func() {
		defer func() { t.ev <- -1 }()
		defer e.goPanic()
		_ = conn.ProcessLockCommand(c)
	}()
	p := <-t.ev
	e.cur = nil
	if p != -1 {
		e.threads = append(e.threads, t)
	}
}

// start a sweep as a scheduled thread: the driver-loop head and the collection(s) run up to the first yield point
// (14 / 15: in front of the first doTimeOut / doExpried call)
func (e *verifEngine) startSweep(isT bool) {
	t := &vthread{resume: make(chan struct{}), ev: make(chan int), wake: true, sweep: true}
	e.cur = t
	go func() {
		defer func() { t.ev <- -1 }()
		defer e.goPanic()
		if isT {
			e.sweepT()
		} else {
			e.sweepE()
		}
	}()
	p := <-t.ev
	e.cur = nil
	if p != -1 {
		e.threads = append(e.threads, t)
	}
}

func (e *verifEngine) firstSweep() int {
	for i, t := range e.threads {
		if t.sweep {
			return i
		}
	}
	return -1
}

func (e *verifEngine) resumeThread(j int) {
	if len(e.threads) == 0 {
		return
	}
	i := j % len(e.threads)
	t := e.threads[i]
	e.cur = t
	t.resume <- struct{}{}
	p := <-t.ev
	// a request that finds its manager replaced starts over and parks at the same point again: keep going
	for !t.wake && p == 12 {
		t.resume <- struct{}{}
		p = <-t.ev
	}
	e.cur = nil
	if p == -1 {
		e.threads = append(e.threads[:i], e.threads[i+1:]...)
	} else if !t.wake {
		t.wake = true
		e.threads = append(append(e.threads[:i:i], e.threads[i+1:]...), t)
	}
}

func (e *verifEngine) action(f []string) {
	switch f[0] {
	case "start":
		e.start(f)
	case "resume":
		e.resumeThread(int(vatoi(f[1])))
	case "drain":
		for n := 0; len(e.threads) > 0 && n < 100000; n++ {
			e.resumeThread(0)
		}
	case "startsweept":
		e.startSweep(true)
	case "startsweepe":
		e.startSweep(false)
	case "drainsweeps":
		// every parked sweep runs to its end (first one first); parked requests stay parked
		for n := 0; n < 100000; n++ {
			i := e.firstSweep()
			if i < 0 {
				break
			}
			e.resumeThread(i)
		}
	case "bulk":
		// bulk n conn reqbase lockidbase key tflag timeout eflag expried count rcount : n LOCK requests with
		// consecutive RequestIds / LockIds; only a summary is printed
		n := int(vatoi(f[1]))
		conn := e.conn(int(vatoi(f[2])))
		for i := 0; i < n; i++ {
			c := &protocol.LockCommand{}
			c.Magic, c.Version, c.CommandType = protocol.MAGIC, protocol.VERSION, protocol.COMMAND_LOCK
			c.RequestId = v16(vatoi(f[3]) + uint64(i))
			c.LockId = v16(vatoi(f[4]) + uint64(i))
			c.LockKey = v16(vatoi(f[5]))
			c.TimeoutFlag, c.Timeout = uint16(vatoi(f[6])), uint16(vatoi(f[7]))
			c.ExpriedFlag, c.Expried = uint16(vatoi(f[8])), uint16(vatoi(f[9]))
			c.Count, c.Rcount = uint16(vatoi(f[10])), uint8(vatoi(f[11]))
			e.quiet = true
			_ = conn.ProcessLockCommand(c)
			e.quiet = false
		}
		fmt.Fprintf(e.out, "ev bulk %d granted=%d other=%d\n", n, e.bulkOk, e.bulkOther)
		e.bulkOk, e.bulkOther = 0, 0
	case "req":
		// req conn L|U reqid flag lockid key tflag timeout eflag expried count rcount data
		conn := e.conn(int(vatoi(f[1])))
		c := &protocol.LockCommand{}
		c.Magic, c.Version = protocol.MAGIC, protocol.VERSION
		if f[2] == "L" {
			c.CommandType = protocol.COMMAND_LOCK
		} else {
			c.CommandType = protocol.COMMAND_UNLOCK
		}
		c.RequestId = v16(vatoi(f[3]))
		c.Flag = uint8(vatoi(f[4]))
		c.DbId = 0
		c.LockId = v16(vatoi(f[5]))
		c.LockKey = v16(vatoi(f[6]))
		c.TimeoutFlag = uint16(vatoi(f[7]))
		c.Timeout = uint16(vatoi(f[8]))
		c.ExpriedFlag = uint16(vatoi(f[9]))
		c.Expried = uint16(vatoi(f[10]))
		c.Count = uint16(vatoi(f[11]))
		c.Rcount = uint8(vatoi(f[12]))
		if f[13] != "-" {
			d, err := hex.DecodeString(f[13][1:])
			if err != nil {
				panic(err)
			}
			c.Data = protocol.NewLockCommandDataFromOriginBytes(d)
		}
		_ = conn.ProcessLockCommand(c)
	case "adv":
		e.db.currentTime += int64(vatoi(f[1]))
	case "sweept":
		e.sweepT()
	case "sweepe":
		e.sweepE()
	case "ack":
		i := int(vatoi(f[1]))
		if i < len(e.acks) {
			// one acknowledgement event (the leader's own flush or a follower's reply: same code path)
			al := NewAofLock()
			al.AofIndex, al.AofOffset, al.CommandTime = uint32(e.ackIds[i][0]), uint32(e.ackIds[i][1]), e.ackIds[i][2]
			if f[2] != "1" {
				al.Result = protocol.RESULT_ERROR
			}
			// the event enters through the channel's own entry points -- AofChannel.Acked (a follower's reply, as
			// ReplicationClientChannel hands it over) / AofChannel.AofAcked (the flush of the leader's own file) --
			// and is taken off the channel queue again at once; what AofChannel.Handle does with it then
			// (HandleAcked / HandleAofAcked: decode, look the ack DB up, Process...; free the AofLock) is
			// transcribed, with the harness's ack DB in the place of replicationManager.GetAckDB
			if len(f) > 3 && f[3] == "acked" {
				rc := &protocol.LockResultCommand{}
				rc.CommandType = protocol.COMMAND_LOCK
				rc.RequestId = al.GetAofId()
				rc.Result = al.Result
				_ = e.aofch.Acked(rc)
				e.aofch.queueGlock.Lock()
				ql := e.aofch.pullAofLock()
				e.aofch.queueGlock.Unlock()
				_ = e.ackdb.ProcessLeaderAcked(0, ql)
				e.aofch.freeAofLock(ql)
			} else {
				al.CommandType = protocol.COMMAND_LOCK
				_ = al.Encode()
				_ = e.aofch.AofAcked(al.buf, al.Result == protocol.RESULT_SUCCED)
				e.aofch.queueGlock.Lock()
				ql := e.aofch.pullAofLock()
				e.aofch.queueGlock.Unlock()
				if ql.Decode() == nil {
					_ = e.ackdb.ProcessLeaderAofed(0, ql)
				}
				e.aofch.freeAofLock(ql)
			}
		} else {
			fmt.Fprintln(e.out, "ev noack")
		}
	case "ackcfg":
		e.ackdb.ackCount = uint8(vatoi(f[1]))
	case "role":
		// role 1 = leader, 0 = follower, 2.. = the other non-leader states (sync, config, vote)
		st := uint8(STATE_FOLLOWER)
		switch f[1] {
		case "1":
			st = STATE_LEADER
		case "2":
			st = STATE_SYNC
		case "3":
			st = STATE_CONFIG
		case "4":
			st = STATE_VOTE
		}
		e.db.managerGlocks[0].Lock()
		e.db.status = st
		e.slock.state = st
		e.db.managerGlocks[0].Unlock()
	default:
		panic("unknown action " + f[0])
	}
}

func (e *verifEngine) safeAction(f []string) {
	defer func() {
		if r := recover(); r != nil {
			site := "unknown"
			pcs := make([]uintptr, 32)
			n := runtime.Callers(3, pcs)
			frames := runtime.CallersFrames(pcs[:n])
			for {
				fr, more := frames.Next()
				if strings.Contains(fr.Function, "snower/slock") && !strings.Contains(fr.Function, "verif") {
					site = fr.Function
					break
				}
				if !more {
					break
				}
			}
			fmt.Fprintf(e.out, "ev panic %s %v\n", site, r)
			e.stopped = true
		}
	}()
	e.action(f)
}

// VerifEngineRun interprets every case of the file and writes the observations.
func VerifEngineRun(in io.Reader, out io.Writer) {
	slock := VerifEngineSetup()
	e := &verifEngine{slock: slock, out: bufio.NewWriterSize(out, 1<<20)}
	sc := bufio.NewScanner(in)
	sc.Buffer(make([]byte, 1<<20), 1<<26)
	dir, _ := os.MkdirTemp("", "verif-engine-")
	_ = os.Chdir(dir)
	defer os.RemoveAll(dir)
	for sc.Scan() {
		line := strings.TrimSpace(sc.Text())
		if line == "" {
			continue
		}
		f := strings.Fields(line)
		switch f[0] {
		case "case":
			// case id t0 aoftime
			fmt.Fprintf(e.out, "case %s\n", f[1])
			e.newDB(int64(vatoi(f[2])), uint8(vatoi(f[3])))
			e.recycle = len(f) > 4 && f[4] == "1"
		case "end":
			fmt.Fprintln(e.out, "end")
		default:
			if e.stopped {
				continue
			}
			fmt.Fprintf(e.out, "act %s\n", f[0])
			e.safeAction(f)
			if !e.recycle {
				// model allocation is "always fresh": keep freed Lock objects out of the free list
				for e.db.freeLocks[0].PopRight() != nil {
				}
			}
			if !e.stopped {
				e.drainAof()
				if !e.recycle {
					// records freed by a nested DoAckLock of the drain
					for e.db.freeLocks[0].PopRight() != nil {
					}
				}
				e.snapshot()
			}
		}
	}
	e.out.Flush()
}
