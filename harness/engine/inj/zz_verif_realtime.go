//go:build verif

package server

// Real-time scenarios for the millisecond wheels (not modelled: they run on the wall clock): only the lower bound,
// eventual firing and reclamation are checked, by tools/engine_rt.py, on the observations printed here.

import (
	"fmt"
	"io"
	"os"
	"sync"
	"time"

	"github.com/snower/slock/protocol"
)

func VerifRealtimeRun(out io.Writer) {
	slock := VerifEngineSetup()
	VerifManualClock = false
	dir, _ := os.MkdirTemp("", "verif-rt-")
	_ = os.Chdir(dir)
	defer os.RemoveAll(dir)
	db := NewLockDB(slock, 0)
	slock.dbs[0] = db
	var mu sync.Mutex
	t0 := time.Now()
	sent := map[uint64]time.Time{}
	conn := NewMemWaiterServerProtocol(slock)
	_ = conn.SetResultCallback(func(_ *MemWaiterServerProtocol, command *protocol.LockCommand, result uint8, lcount uint16, lrcount uint8, data []byte) error {
		mu.Lock()
		defer mu.Unlock()
		rid := vn16(command.RequestId)
		fmt.Fprintf(out, "rt reply %d %d %d %d since_send_ms=%d at_ms=%d\n", rid, result, lcount, lrcount, time.Since(sent[rid]).Milliseconds(), time.Since(t0).Milliseconds())
		return nil
	})
	send := func(islock bool, rid, lockid, key uint64, flag uint8, tflag, timeout, eflag, expried, count uint16, rcount uint8) {
		c := &protocol.LockCommand{}
		c.Magic, c.Version = protocol.MAGIC, protocol.VERSION
		c.CommandType = protocol.COMMAND_UNLOCK
		if islock {
			c.CommandType = protocol.COMMAND_LOCK
		}
		c.RequestId, c.LockId, c.LockKey = v16(rid), v16(lockid), v16(key)
		c.Flag, c.TimeoutFlag, c.Timeout, c.ExpriedFlag, c.Expried, c.Count, c.Rcount = flag, tflag, timeout, eflag, expried, count, rcount
		mu.Lock()
		sent[rid] = time.Now()
		fmt.Fprintf(out, "rt send %d at_ms=%d\n", rid, time.Since(t0).Milliseconds())
		mu.Unlock()
		_ = conn.ProcessLockCommand(c)
	}
	// 1. millisecond expiries (request ids 1xx: expiry in ms = the lock id)
	for i, e := range []uint16{100, 1500, 2999, 3000, 3001, 4200} {
		send(true, uint64(100+i), uint64(e), uint64(1000+i), 0, 0, 0, 0x0400, e, 0, 0)
	}
	// 2. millisecond timeouts: a holder (6 s) and a waiter with timeout in ms
	for i, t := range []uint16{100, 2999, 3000, 4200} {
		send(true, uint64(200+i), 1, uint64(2000+i), 0, 0, 0, 0, 6, 0, 0)
		send(true, uint64(300+i), uint64(t), uint64(2000+i), 0, 0x0400, t, 0, 5, 0, 0)
	}
	// 3. a hold sitting in the long expiry table (persist-immediately flag, expiry > 5 s) is re-entered with a
	//    millisecond expiry: it must expire and its key must be reclaimed
	send(true, 400, 7, 3000, 0, 0, 0, 0x0100, 9, 0, 1)
	send(true, 401, 7, 3000, 0, 0, 0, 0x0400, 300, 0, 1)
	time.Sleep(9800 * time.Millisecond)
	st := db.GetState()
	mu.Lock()
	fmt.Fprintf(out, "rt state K=%d LD=%d W=%d\n", int32(st.KeyCount), int32(st.LockedCount), int32(st.WaitCount))
	mu.Unlock()
}
