package main

import (
	"os"

	"github.com/snower/slock/server"
)

func main() {
	if len(os.Args) > 1 && os.Args[1] == "-rt" {
		server.VerifRealtimeRun(os.Stdout)
		return
	}
	in := os.Stdin
	if len(os.Args) > 1 {
		f, err := os.Open(os.Args[1])
		if err != nil {
			panic(err)
		}
		in = f
	}
	server.VerifEngineRun(in, os.Stdout)
}
