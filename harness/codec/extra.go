package main

import (
	"encoding/hex"
	"fmt"
	"strconv"
	"strings"

	"github.com/snower/slock/protocol"
)

// sink: a protocol.ISteam collecting what the text result writer emits.
type sink struct{ out []byte }

func (s *sink) ReadBytes(buf []byte) (int, error) { return 0, nil }
func (s *sink) Read(buf []byte) (int, error)      { return 0, nil }
func (s *sink) WriteBytes(buf []byte) error       { s.out = append(s.out, buf...); return nil }
func (s *sink) Write(buf []byte) (int, error)     { s.out = append(s.out, buf...); return len(buf), nil }
func (s *sink) Close() error                      { return nil }

type textProto struct{ parser *protocol.TextParser }

func (t *textProto) GetParser() *protocol.TextParser                     { return t.parser }
func (t *textProto) GetDBId() uint8                                      { return 0 }
func (t *textProto) GetTimeout() uint16                                  { return 0 }
func (t *textProto) GetLockId() [16]byte                                 { return [16]byte{} }
func (t *textProto) FreeLockCommand(command *protocol.LockCommand) error { return nil }
func (t *textProto) GetLockCommand() *protocol.LockCommand               { return &protocol.LockCommand{} }

// TextResult <code>: render a LOCK result with that result code through the text protocol writer.
func textResult(args []string) string {
	code, _ := strconv.ParseUint(args[0], 10, 8)
	conv := protocol.NewTextCommandConverter()
	tp := &textProto{protocol.NewTextParser(make([]byte, 4096), make([]byte, 4096))}
	res := &protocol.LockResultCommand{}
	res.Result = uint8(code)
	s := &sink{}
	err := conv.WriteTextLockAndUnLockCommandResult(tp, s, res)
	e := 0
	if err != nil {
		e = 1
	}
	// second array element is the message
	parts := strings.Split(string(s.out), "\r\n")
	msg := ""
	if len(parts) > 4 {
		msg = parts[4]
	}
	return fmt.Sprintf("R %d x%s", e, hex.EncodeToString([]byte(msg)))
}

// ValueFrame stage,type,flag,x<data>,nprops|nil,(code,x<value>|code,nil)*
func valueFrame(args []string) string {
	stage, _ := strconv.ParseUint(args[0], 10, 8)
	typ, _ := strconv.ParseUint(args[1], 10, 8)
	flag, _ := strconv.ParseUint(args[2], 10, 8)
	data, _ := hex.DecodeString(args[3][1:])
	n := -1
	if args[4] != "nil" {
		n, _ = strconv.Atoi(args[4])
	}
	var props []*protocol.LockCommandDataProperty
	if n >= 0 {
		props = make([]*protocol.LockCommandDataProperty, 0)
		for i := 0; i < n; i++ {
			code, _ := strconv.ParseUint(args[5+2*i], 10, 8)
			var v []byte
			if args[6+2*i] != "nil" {
				v, _ = hex.DecodeString(args[6+2*i][1:])
				if v == nil {
					v = []byte{}
				}
			}
			props = append(props, protocol.NewLockCommandDataProperty(uint8(code), v))
		}
	}
	d := protocol.NewLockCommandDataFromBytes(data, uint8(stage), uint8(typ), uint8(flag), props)
	return fmt.Sprintf("R 0 x%s,%d,%d,%d", hex.EncodeToString(d.Data), d.CommandStage, d.CommandType, d.DataFlag)
}

// ValueProps <frame hex>: decode a value frame: stage,type,flag,valueoffset,x<value>,nprops,(code,x<value>|nil)*
func valueProps(buf []byte) string {
	r := protocol.NewLockResultCommandDataFromOriginBytes(buf)
	var out []string
	out = append(out, strconv.Itoa(int(r.CommandStage)), strconv.Itoa(int(r.CommandType)), strconv.Itoa(int(r.DataFlag)))
	out = append(out, strconv.Itoa(r.GetValueOffset()))
	out = append(out, "x"+hex.EncodeToString(r.Data[r.GetValueOffset():]))
	ps := r.GetDataProperties()
	if ps == nil {
		out = append(out, "-1")
	} else {
		out = append(out, strconv.Itoa(len(ps)))
		for _, p := range ps {
			out = append(out, strconv.Itoa(int(p.Code)))
			if p.Value == nil {
				out = append(out, "nil")
			} else {
				out = append(out, "x"+hex.EncodeToString(p.Value))
			}
		}
	}
	return "R 0 " + strings.Join(out, ",")
}
