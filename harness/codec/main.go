// codech: runs the real slock codecs on cases read from stdin, one observation line per case.
//
//	case:   <def> <field,field,...> <arg,arg,...> <bufhex>
//	answer: "R <err 0|1> <hex | val,val,...>"   or   "R panic <message>"
//
// <def> is the name of a generated definition (LockCommand_Encode, AofLock_Decode, Server_Decode_Lock,
// Server_ResultEncode, ...) or one of the extra monitors (TextResult, ValueFrame, ...).
// args: decimal numbers, or x<hex> for byte strings (arrays, strings).
package main

import (
	"bufio"
	"encoding/hex"
	"fmt"
	"os"
	"reflect"
	"strconv"
	"strings"

	"github.com/snower/slock/protocol"
	"github.com/snower/slock/server"
)

var newers = map[string]func(buf []byte) interface{}{
	"Command":                func([]byte) interface{} { return &protocol.Command{} },
	"ResultCommand":          func([]byte) interface{} { return &protocol.ResultCommand{} },
	"InitCommand":            func([]byte) interface{} { return &protocol.InitCommand{} },
	"InitResultCommand":      func([]byte) interface{} { return &protocol.InitResultCommand{} },
	"LockCommand":            func([]byte) interface{} { return &protocol.LockCommand{} },
	"LockResultCommand":      func([]byte) interface{} { return &protocol.LockResultCommand{} },
	"StateCommand":           func([]byte) interface{} { return &protocol.StateCommand{} },
	"StateResultCommand":     func([]byte) interface{} { return &protocol.StateResultCommand{} },
	"AdminCommand":           func([]byte) interface{} { return &protocol.AdminCommand{} },
	"AdminResultCommand":     func([]byte) interface{} { return &protocol.AdminResultCommand{} },
	"PingCommand":            func([]byte) interface{} { return &protocol.PingCommand{} },
	"PingResultCommand":      func([]byte) interface{} { return &protocol.PingResultCommand{} },
	"QuitCommand":            func([]byte) interface{} { return &protocol.QuitCommand{} },
	"QuitResultCommand":      func([]byte) interface{} { return &protocol.QuitResultCommand{} },
	"CallCommand":            func([]byte) interface{} { return &protocol.CallCommand{} },
	"CallResultCommand":      func([]byte) interface{} { return &protocol.CallResultCommand{} },
	"LeaderCommand":          func([]byte) interface{} { return &protocol.LeaderCommand{} },
	"LeaderResultCommand":    func([]byte) interface{} { return &protocol.LeaderResultCommand{} },
	"SubscribeCommand":       func([]byte) interface{} { return &protocol.SubscribeCommand{} },
	"SubscribeResultCommand": func([]byte) interface{} { return &protocol.SubscribeResultCommand{} },
	"AofLock":                func(b []byte) interface{} { return server.VerifAofLockWithBuf(b) },
	"PublishLock":            func(b []byte) interface{} { return server.VerifPublishLockWithBuf(b) },
}

func field(v reflect.Value, path string) reflect.Value {
	for _, p := range strings.Split(path, ".") {
		v = v.FieldByName(p)
		if !v.IsValid() {
			panic("harness: no field " + path)
		}
	}
	return v
}

func unhex(s string) []byte {
	b, err := hex.DecodeString(s)
	if err != nil {
		panic("harness: bad hex " + s)
	}
	return b
}

func setField(f reflect.Value, arg string) {
	switch f.Kind() {
	case reflect.Uint8, reflect.Uint16, reflect.Uint32, reflect.Uint64:
		n, err := strconv.ParseUint(arg, 10, 64)
		if err != nil {
			panic("harness: bad number " + arg)
		}
		f.SetUint(n)
	case reflect.Array:
		b := unhex(arg[1:])
		for i := 0; i < f.Len() && i < len(b); i++ {
			f.Index(i).SetUint(uint64(b[i]))
		}
	case reflect.String:
		f.SetString(string(unhex(arg[1:])))
	case reflect.Slice:
		f.SetBytes(unhex(arg[1:]))
	default:
		panic("harness: unsupported field kind " + f.Kind().String())
	}
}

func getField(f reflect.Value) string {
	switch f.Kind() {
	case reflect.Uint8, reflect.Uint16, reflect.Uint32, reflect.Uint64:
		return strconv.FormatUint(f.Uint(), 10)
	case reflect.Array:
		b := make([]byte, f.Len())
		for i := range b {
			b[i] = byte(f.Index(i).Uint())
		}
		return "x" + hex.EncodeToString(b)
	case reflect.String:
		return "x" + hex.EncodeToString([]byte(f.String()))
	case reflect.Slice:
		return "x" + hex.EncodeToString(f.Bytes())
	}
	panic("harness: unsupported field kind " + f.Kind().String())
}

func splitList(s string) []string {
	if s == "-" || s == "" {
		return nil
	}
	return strings.Split(s, ",")
}

func fill(obj interface{}, fields, args []string) {
	v := reflect.ValueOf(obj).Elem()
	for i, fn := range fields {
		setField(field(v, fn), args[i])
	}
}

func dump(obj interface{}, fields []string) string {
	v := reflect.ValueOf(obj).Elem()
	var out []string
	for _, fn := range fields {
		out = append(out, getField(field(v, fn)))
	}
	return strings.Join(out, ",")
}

func errFlag(vals []reflect.Value) int {
	if len(vals) == 1 && !vals[0].IsNil() {
		return 1
	}
	return 0
}

func first64(b []byte) string {
	if len(b) > 64 {
		b = b[:64]
	}
	return hex.EncodeToString(b)
}

var vc *server.VerifCodec

func codec() *server.VerifCodec {
	if vc == nil {
		dir, err := os.MkdirTemp("", "codech")
		if err != nil {
			panic(err)
		}
		vc, err = server.VerifCodecNew(dir)
		if err != nil {
			panic(err)
		}
	}
	return vc
}

func runCase(def string, fields, args []string, buf []byte) (res string) {
	defer func() {
		if r := recover(); r != nil {
			msg := strings.Join(strings.Fields(fmt.Sprint(r)), "_")
			res = "R panic " + msg
		}
	}()
	switch def {
	case "Server_Decode_Lock", "Server_Decode_Unlock":
		pooled := &protocol.LockCommand{}
		fill(pooled, fields, args)
		var follow []byte
		if len(buf) > 19 && buf[19]&protocol.LOCK_FLAG_CONTAINS_DATA != 0 {
			follow = []byte{2, 0, 0, 0, 0, 0}
		}
		cmd, reply, err := codec().Parse(buf, pooled, follow)
		if cmd == nil {
			return "R skip " + strings.Join(strings.Fields(err.Error()), "_")
		}
		e := 0
		if err != nil {
			e = 1
		}
		return fmt.Sprintf("R %d %s %s", e, dump(cmd, fields), first64(reply))
	case "Server_ResultEncode":
		cmd := &protocol.LockCommand{}
		n := len(fields)
		fill(cmd, fields, args[:n])
		result, _ := strconv.ParseUint(args[n], 10, 8)
		lcount, _ := strconv.ParseUint(args[n+1], 10, 16)
		lrcount, _ := strconv.ParseUint(args[n+2], 10, 8)
		var data []byte
		if args[n+3] == "0" {
			data = []byte{2, 0, 0, 0, 0, 0}
		}
		out, err := codec().ResultEncode(cmd, uint8(result), uint16(lcount), uint8(lrcount), data)
		e := 0
		if err != nil {
			e = 1
		}
		return fmt.Sprintf("R %d %s", e, first64(out))
	case "Decide":
		r, err := server.VerifDecide(fields[0], args)
		if err != nil {
			return "R skip " + strings.Join(strings.Fields(err.Error()), "_")
		}
		return "R 0 " + r
	case "TextResult":
		return textResult(args)
	case "ValueFrame":
		return valueFrame(args)
	case "ValueProps":
		return valueProps(buf)
	}
	i := strings.LastIndex(def, "_")
	if i < 0 {
		return "R skip unknown_def"
	}
	typ, op := def[:i], def[i+1:]
	mk, ok := newers[typ]
	if !ok {
		return "R skip unknown_type_" + typ
	}
	work := make([]byte, len(buf)) // cap == len: the generated slice-bounds conditions take cap(buf) = len(buf)
	copy(work, buf)
	obj := mk(work)
	fill(obj, fields, args)
	m := reflect.ValueOf(obj).MethodByName(op)
	if !m.IsValid() {
		return "R skip no_method"
	}
	var out []reflect.Value
	if m.Type().NumIn() == 1 {
		out = m.Call([]reflect.Value{reflect.ValueOf(work)})
	} else {
		out = m.Call(nil)
	}
	if op == "Encode" {
		return fmt.Sprintf("R %d %s", errFlag(out), first64(work))
	}
	return fmt.Sprintf("R %d %s", errFlag(out), dump(obj, fields))
}

func main() {
	in := bufio.NewReaderSize(os.Stdin, 1<<20)
	out := bufio.NewWriterSize(os.Stdout, 1<<20)
	defer out.Flush()
	for {
		line, err := in.ReadString('\n')
		line = strings.TrimSpace(line)
		if line != "" {
			t := strings.Split(line, " ")
			if len(t) != 4 {
				fmt.Fprintln(out, "R skip bad_case")
			} else {
				var buf []byte
				if t[3] != "-" {
					buf = unhex(t[3])
				}
				fmt.Fprintln(out, runCase(t[0], splitList(t[1]), splitList(t[2]), buf))
			}
		}
		if err != nil {
			break
		}
	}
}
