//go:build verif

// In-package seam for the decision functions transcribed into coq/Gen/GenDecision.v (translator self-check).
package server

import (
	"encoding/hex"
	"errors"
	"strconv"

	"github.com/snower/slock/protocol"
)

func verifU(s string) uint64 {
	n, err := strconv.ParseUint(s, 10, 64)
	if err != nil {
		panic("harness: bad unsigned " + s)
	}
	return n
}

func verifI(s string) int64 {
	n, err := strconv.ParseInt(s, 10, 64)
	if err != nil {
		panic("harness: bad signed " + s)
	}
	return n
}

func verifArr16(s string) [16]byte {
	var a [16]byte
	b, err := hex.DecodeString(s[1:])
	if err != nil {
		panic("harness: bad hex " + s)
	}
	copy(a[:], b)
	return a
}

func verifBool(b bool) string {
	if b {
		return "1"
	}
	return "0"
}

// VerifDecide runs the real function `name` on inputs given in the order of the generated input record.
func VerifDecide(name string, a []string) (string, error) {
	switch name {
	case "doLock": // mgr_locked cur_count req_count req_tflag | req_lockid cur_lockid (cmpver is derived by the code)
		cur := &Lock{command: &protocol.LockCommand{Count: uint16(verifU(a[1])), LockId: verifArr16(a[5])}}
		req := &Lock{command: &protocol.LockCommand{Count: uint16(verifU(a[2])), TimeoutFlag: uint16(verifU(a[3])), LockId: verifArr16(a[4])}}
		m := &LockManager{locked: uint32(verifU(a[0])), currentLock: cur}
		return verifBool((&LockDB{}).doLock(m, req)), nil
	case "doCheckLockWaitPriority": // wait_nil max_priority req_rcount
		m := &LockManager{}
		if a[0] == "0" {
			head := &Lock{command: &protocol.LockCommand{TimeoutFlag: protocol.TIMEOUT_FLAG_RCOUNT_IS_PRIORITY, Rcount: uint8(verifU(a[1]))}}
			m.waitLocks = &LockManagerWaitQueue{fastQueue: []*Lock{head}}
		}
		req := &Lock{command: &protocol.LockCommand{Rcount: uint8(verifU(a[2]))}}
		return verifBool((&LockDB{}).doCheckLockWaitPriority(m, req)), nil
	case "compareLockVersion":
		return strconv.Itoa((&LockDB{}).compareLockVersion(verifArr16(a[0]), verifArr16(a[1]))), nil
	case "checkLockedCountEqual": // cmd_count held_count cmd_rcount held_rcount cmd_tflag held_tflag
		cmd := &protocol.LockCommand{Count: uint16(verifU(a[0])), Rcount: uint8(verifU(a[2])), TimeoutFlag: uint16(verifU(a[4]))}
		held := &Lock{command: &protocol.LockCommand{Count: uint16(verifU(a[1])), Rcount: uint8(verifU(a[3])), TimeoutFlag: uint16(verifU(a[5]))}}
		return verifBool((&LockManager{}).checkLockedCountEqual(held, cmd)), nil
	case "CheckLockedEqual": // cmd_eflag cmd_expried held_expried_time now count_equal(0/1: realised through equal/different Count)
		cmd := &protocol.LockCommand{ExpriedFlag: uint16(verifU(a[0])), Expried: uint16(verifU(a[1])), Count: 7}
		held := &Lock{command: &protocol.LockCommand{Count: 7}, expriedTime: verifI(a[2])}
		if a[4] == "0" {
			held.command.Count = 8
		}
		m := &LockManager{lockDb: &LockDB{currentTime: verifI(a[3])}}
		return verifBool(m.CheckLockedEqual(held, cmd)), nil
	case "GetAofLockExpriedTime": // cmd_eflag cmd_expried held_expried_time command_time
		cmd := &protocol.LockCommand{ExpriedFlag: uint16(verifU(a[0])), Expried: uint16(verifU(a[1]))}
		lock := &Lock{expriedTime: verifI(a[2])}
		al := &AofLock{CommandTime: verifU(a[3])}
		return strconv.Itoa(int((&Aof{}).GetAofLockExpriedTime(cmd, lock, al))), nil
	case "GetLockCommandExpriedTime": // rec_eflag rec_expried command_time now rec_start
		al := &AofLock{ExpriedFlag: uint16(verifU(a[0])), ExpriedTime: uint16(verifU(a[1])), CommandTime: verifU(a[2]), StartTime: uint16(verifU(a[4]))}
		return strconv.Itoa(int((&Aof{}).GetLockCommandExpriedTime(&LockDB{currentTime: verifI(a[3])}, al))), nil
	case "CompareAofId":
		return strconv.Itoa((&ArbiterManager{}).CompareAofId(verifArr16(a[0]), verifArr16(a[1]))), nil
	case "UpdateDBAckCount": // has_arbiter ack_mode n_channels majority(= members/2+1, realised through the member count a[4])
		saved := Config
		defer func() { Config = saved }()
		Config = &ServerConfig{AofAckMode: uint(verifU(a[1]))}
		rm := &ReplicationManager{slock: &SLock{}, serverChannels: make([]*ReplicationServer, int(verifI(a[2]))), ackDbs: []*ReplicationAckDB{nil, {}}}
		if a[0] != "0" {
			am := &ArbiterManager{}
			for i := int64(0); i < verifI(a[4]); i++ {
				am.members = append(am.members, &ArbiterMember{})
			}
			rm.slock.arbiterManager = am
		}
		rm.UpdateDBAckCount()
		return strconv.Itoa(int(rm.ackDbs[1].ackCount)), nil
	}
	return "", errors.New("unknown decision function " + name)
}
