//go:build verif

// In-package seams for the C14 codec correspondence check.  Injected into package server by
// `go build -overlay`; nothing in /repo is changed.
package server

import (
	"errors"
	"io"
	"net"
	"os"
	"time"

	"github.com/jessevdk/go-flags"
	"github.com/snower/slock/protocol"
)

// verifConn: a net.Conn that records writes and serves queued input.
type verifConn struct {
	in  []byte
	out []byte
}

func (c *verifConn) Read(b []byte) (int, error) {
	if len(c.in) == 0 {
		return 0, io.EOF
	}
	n := copy(b, c.in)
	c.in = c.in[n:]
	return n, nil
}
func (c *verifConn) Write(b []byte) (int, error)      { c.out = append(c.out, b...); return len(b), nil }
func (c *verifConn) Close() error                     { return nil }
func (c *verifConn) LocalAddr() net.Addr              { return &net.TCPAddr{} }
func (c *verifConn) RemoteAddr() net.Addr             { return &net.TCPAddr{} }
func (c *verifConn) SetDeadline(time.Time) error      { return nil }
func (c *verifConn) SetReadDeadline(time.Time) error  { return nil }
func (c *verifConn) SetWriteDeadline(time.Time) error { return nil }

type VerifCodec struct {
	slock *SLock
	conn  *verifConn
	sp    *BinaryServerProtocol
}

func VerifCodecNew(scratch string) (*VerifCodec, error) {
	if err := os.Chdir(scratch); err != nil {
		return nil, err
	}
	cfg := &ServerConfig{}
	if _, err := flags.NewParser(cfg, flags.Default).ParseArgs([]string{}); err != nil {
		return nil, err
	}
	cfg.DBConcurrent = 1
	cfg.DBFastKeyCount = 16
	cfg.Log = "-"
	cfg.LogLevel = "ERROR"
	logger, err := InitLogger(cfg)
	if err != nil {
		return nil, err
	}
	slock := NewSLock(cfg, logger)
	conn := &verifConn{}
	stream := NewStream(conn)
	sp := NewBinaryServerProtocol(slock, stream)
	return &VerifCodec{slock, conn, sp}, nil
}

// Parse feeds one 64-byte frame to BinaryServerProtocol.ProcessParse (the hand-inlined decoder) with a
// pooled LockCommand that we keep a pointer to.  The caller must make sure the frame takes the
// UNKNOWN_DB path (LOCK with DbId 0xff, UNLOCK with any DbId on a node without databases), so that the
// lock engine is not entered.  Returns the decoded command and the bytes written to the connection
// (the reply, produced by the hand-inlined result encoder).
func (v *VerifCodec) Parse(buf []byte, pooled *protocol.LockCommand, follow []byte) (*protocol.LockCommand, []byte, error) {
	if len(buf) >= 3 && buf[2] == protocol.COMMAND_LOCK && (len(buf) < 21 || buf[20] != 0xff) {
		return nil, nil, errors.New("harness: LOCK frame would enter the engine")
	}
	for i := range v.slock.dbs {
		if v.slock.dbs[i] != nil {
			return nil, nil, errors.New("harness: a database exists")
		}
	}
	v.sp.freeCommands[0] = pooled
	v.sp.freeCommandIndex = 1
	v.conn.out = nil
	v.conn.in = append([]byte{}, follow...)
	v.sp.stream.readerBuffer.index, v.sp.stream.readerBuffer.len = 0, 0
	err := v.sp.ProcessParse(buf)
	out := v.conn.out
	v.conn.out = nil
	return pooled, out, err
}

// ResultEncode calls the hand-inlined result encoder directly and returns what it wrote to the connection.
func (v *VerifCodec) ResultEncode(cmd *protocol.LockCommand, result uint8, lcount uint16, lrcount uint8, data []byte) ([]byte, error) {
	v.conn.out = nil
	err := v.sp.ProcessLockResultCommand(cmd, result, lcount, lrcount, data)
	out := v.conn.out
	v.conn.out = nil
	return out, err
}

func VerifAofLockWithBuf(buf []byte) *AofLock {
	a := NewAofLock()
	a.buf = buf
	return a
}

func VerifPublishLockWithBuf(buf []byte) *PublishLock {
	return &PublishLock{buf: buf}
}

func VerifPublishLockBuf(p *PublishLock) []byte { return p.buf }
