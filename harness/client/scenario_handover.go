package main

// Hand-over scenarios (Scenario.Kind == "handover"): the liveness half of the textbook guarantees, with waiters that
// TIME OUT (or, for Lock, are cancelled) while others keep waiting.
//
// One round, on a fresh key:
//   1. holders fill the primitive (Lock/RLock/PriorityLock/RWLock: one holder, or 1-2 readers; Semaphore/Flow: n
//      holders; Event: the controller clears the event),
//   2. waiters call acquire / Wait in a seeded arrival order: some with a SHORT timeout (sc.ShortMs milliseconds with
//      the millisecond flag, or one second), some (Lock, sc.Cancel) to be cancelled with Lock.CancelWait, the rest
//      with a long timeout (20 s),
//   3. the coordinator waits until every short / cancelled waiter has returned, then polls the server's admin listing
//      (LIST_WAIT on a direct leader connection; for a default-clear event, whose key is free, the STATE command's
//      WaitCount) until it shows EXACTLY the long waiters that have not returned: they are "queued-confirmed",
//   4. timeout-0 newcomers start racing and the holders release (the controller sets the event),
//   5. every confirmed waiter must be served.
//
// Liveness monitor (monitorLiveness): from the confirmation on, whenever the primitive is AVAILABLE - fewer possible
// holders than the limit, a possible holder being an actor whose acquire returned ok (until its release RETURNED ok)
// or a non-confirmed actor whose acquire is in flight - and a confirmed waiter whose own timeout is still at least
// 500 ms away keeps waiting, the availability must not last longer than the bound (sc.BoundMs, default 2000 ms).
// Signature monitor:<prim>:waiter-not-served.  A scenario with such an alarm is re-run twice by the driver
// (confirmLiveness) and the alarm is reported only when it reproduces.
// Safety monitors run on the same rounds: monitorHolds (never more holders than the limit; an RLock holder with depth
// d needs d unlocks before anybody else is served), monitorPriority (order among confirmed waiters; newcomers
// overtaking = the recorded finding handover-barging), monitorEvent (a Wait must not return ok while the event is clear).

import (
	"fmt"
	"math/rand"
	"sort"
	"strings"
	"sync"
	"sync/atomic"
	"time"

	"github.com/snower/slock/client"
	"github.com/snower/slock/protocol"
)

const (
	msFlagWord    = uint32(protocol.TIMEOUT_FLAG_MILLISECOND_TIME) << 16
	longTimeoutS  = 20
	livenessSlack = int64(500 * time.Millisecond) // a waiter whose timeout is closer than this is not judged
)

type hactor struct {
	g      int
	kind   string // holder | short | long | cancel | newcomer | probe
	role   string // rwlock: r | w
	prio   int
	tmoMs  int64
	depth  int // rlock holder: nesting depth
	acq    func() (*protocol.LockResultCommand, error)
	rel    func() (*protocol.LockResultCommand, error) // nil: nothing is held after a grant (Event.Wait)
	cancel func() (*protocol.LockResultCommand, error) // Lock only
	log    *glog
	done   int32
}

func (e *env) wc(g int) *client.Client { return e.clients[g%e.sc.Conns] }

func hoLimit(sc Scenario) int {
	if sc.Prim == "semaphore" || sc.Prim == "flow" {
		if sc.N < 1 {
			return 1
		}
		return sc.N
	}
	return 1
}

// mkActor builds the primitive object of one actor. tmo is the client timeout word (seconds, or ms | flag<<16).
func mkActor(e *env, g int, key [16]byte, kind string, tmo uint32, tmoMs int64, prio int, role string) *hactor {
	sc := e.sc
	c := e.wc(g)
	ex := uint32(sc.Expried)
	a := &hactor{g: g, kind: kind, role: role, prio: prio, tmoMs: tmoMs, log: &glog{g: g}}
	switch sc.Prim {
	case "lock":
		l := c.Lock(key, tmo, ex)
		a.acq, a.rel, a.cancel = l.Lock, l.Unlock, l.CancelWait
	case "rlock":
		o := c.RLock(key, tmo, ex)
		a.acq, a.rel = o.Lock, o.Unlock
	case "semaphore":
		s := c.Semaphore(key, tmo, ex, uint16(sc.N))
		a.acq, a.rel = s.Acquire, s.Release
	case "flow":
		f := c.MaxConcurrentFlow(key, uint16(sc.N), tmo, ex)
		a.acq, a.rel = f.Acquire, f.Release
	case "rwlock":
		rw := c.RWLock(key, tmo, ex)
		if role == "w" {
			a.acq, a.rel = rw.Lock, rw.Unlock
		} else {
			a.acq, a.rel = rw.RLock, rw.RUnlock
		}
	case "priority":
		pl := c.PriorityLock(key, uint8(prio), tmo, ex)
		a.acq, a.rel = pl.Lock, pl.Unlock
	case "event":
		ev := c.Event(key, uint32(sc.Timeout), ex, sc.DefaultSet)
		if kind == "holder" { // the controller: "acquire" = Clear, "release" = Set
			a.acq, a.rel = ev.Clear, ev.Set
		} else {
			a.acq = func() (*protocol.LockResultCommand, error) { return ev.Wait(tmo) }
		}
	}
	return a
}

type hoStats struct {
	rounds, confirmed, unconfirmed, aborted           int
	shortTimeouts, cancels, longServed, longNotServed int
	newAttempts, newGranted, stalls                   int
	maxAvailUs                                        int64
	events                                            int
	maxc                                              int
	waitsOK, waitsInClear                             int
}

func runHandover(e *env, res *ScenResult) []Violation {
	sc := e.sc
	if sc.Conns < 1 {
		sc.Conns = 1
		e.sc.Conns = 1
	}
	rng := rand.New(rand.NewSource(sc.Seed))
	bound := int64(sc.BoundMs)
	if bound <= 0 {
		bound = 2000
	}
	var st hoStats
	var viols []Violation
	deadline := time.Now().Add(time.Duration(sc.DurationMs) * time.Millisecond)
	for r := 0; r < 2 || time.Now().Before(deadline); r++ {
		if sc.Rounds > 0 && r >= sc.Rounds {
			break
		}
		v := handoverRound(e, rng, r, bound, &st)
		viols = append(viols, v...)
		live := false
		for _, x := range v {
			live = live || x.Liveness
		}
		if live || len(viols) > 6 {
			break
		}
	}
	res.Limit, res.MaxConcurrency, res.Events = hoLimit(sc), st.maxc, st.events
	x := res.Extra
	x["handover_rounds"], x["handover_rounds_confirmed"], x["handover_rounds_unconfirmed"], x["handover_rounds_aborted"] = st.rounds, st.confirmed, st.unconfirmed, st.aborted
	x["handover_short_timeouts"], x["handover_cancels"] = st.shortTimeouts, st.cancels
	x["handover_confirmed_waiters_served"], x["handover_confirmed_waiters_not_served"] = st.longServed, st.longNotServed
	x["handover_newcomer_attempts"], x["handover_newcomer_granted"], x["handover_stalls"] = st.newAttempts, st.newGranted, st.stalls
	x["max_available_with_waiter_us"] = st.maxAvailUs
	if sc.Prim == "event" {
		x["waits_ok"], x["waits_in_clear_period"] = st.waitsOK, st.waitsInClear
	}
	return viols
}

// waitCount: how many requests the server lists as queued on the key (through the admin connection).
// Default-clear events keep the key free while waiters queue, and LIST_WAIT refuses free keys: the STATE command's
// WaitCount (whole database; only this scenario runs on this server) minus the baseline taken at round start is used.
func waitCount(e *env, key [16]byte, base int64) (int, string) {
	db := e.admin.SelectDB(0)
	if e.sc.Prim == "event" && !e.sc.DefaultSet {
		s := db.State()
		if s == nil {
			return -1, "STATE failed"
		}
		return int(int64(s.State.WaitCount) - base), ""
	}
	r, err := db.ListLockWaits(key, 5)
	if err != nil {
		if strings.Contains(err.Error(), "error code 3") { // no manager / key free
			return 0, ""
		}
		return -1, "LIST_WAIT: " + err.Error()
	}
	if r == nil {
		return 0, ""
	}
	return len(r.Locks), ""
}

func heldCount(e *env, key [16]byte) int {
	r, err := e.admin.SelectDB(0).ListLockLockeds(key, 5)
	if err != nil || r == nil {
		return 0
	}
	return len(r.Locks)
}

func handoverRound(e *env, rng *rand.Rand, r int, bound int64, st *hoStats) []Violation {
	sc := e.sc
	st.rounds++
	key := mkKey(sc.Seed, sc.ID, 3000+r)
	limit := hoLimit(sc)
	isEvent := sc.Prim == "event"

	// ---- cast
	nAll := sc.Goroutines
	if nAll < 3 {
		nAll = 3
	}
	nNew := rng.Intn(3)
	if nAll-nNew < 2 {
		nNew = nAll - 2
	}
	nWait := nAll - nNew
	nShort := 1 + rng.Intn(nWait-1) // at least one long waiter remains
	shortWord, shortMs := uint32(1), int64(1000)
	if sc.ShortMs > 0 {
		shortWord, shortMs = uint32(sc.ShortMs)|msFlagWord, int64(sc.ShortMs)
	}
	nHold := limit
	holderRole := ""
	if sc.Prim == "rwlock" {
		if rng.Intn(2) == 0 {
			holderRole = "w"
		} else {
			holderRole, nHold = "r", 1+rng.Intn(2)
		}
	}
	prios := rng.Perm(250)
	distinct := rng.Intn(3) != 0
	prioOf := func(i int) int {
		if sc.Prim != "priority" {
			return 0
		}
		if distinct {
			return prios[i%250] + 1
		}
		return rng.Intn(5)
	}
	g := 0
	var holders, waiters, newcomers []*hactor
	for i := 0; i < nHold; i++ {
		a := mkActor(e, g, key, "holder", uint32(longTimeoutS), longTimeoutS*1000, prioOf(g), holderRole)
		if sc.Prim == "rlock" {
			a.depth = 1 + rng.Intn(3)
		}
		holders = append(holders, a)
		g++
	}
	for i := 0; i < nWait; i++ {
		kind, word, ms := "long", uint32(longTimeoutS), int64(longTimeoutS*1000)
		if i < nShort {
			kind, word, ms = "short", shortWord, shortMs
			if sc.Cancel && sc.Prim == "lock" && rng.Intn(2) == 0 {
				kind, word, ms = "cancel", uint32(longTimeoutS), int64(longTimeoutS*1000)
			}
		}
		role := ""
		if sc.Prim == "rwlock" {
			role = "r"
			if rng.Intn(3) == 0 {
				role = "w"
			}
		}
		waiters = append(waiters, mkActor(e, g, key, kind, word, ms, prioOf(g), role))
		g++
	}
	rng.Shuffle(len(waiters), func(i, j int) { waiters[i], waiters[j] = waiters[j], waiters[i] })
	for i := 0; i < nNew; i++ {
		role := ""
		if sc.Prim == "rwlock" {
			role = []string{"r", "w"}[rng.Intn(2)]
		}
		newcomers = append(newcomers, mkActor(e, g, key, "newcomer", 0, 0, 0, role))
		g++
	}
	coord := &glog{g: g}
	all := append(append(append([]*hactor{}, holders...), waiters...), newcomers...)

	var lastProgress int64
	progress := func() { atomic.StoreInt64(&lastProgress, int64(time.Since(epoch))) }
	evAcq, evRet, evRelC, evRelR := "acq-call", "acq-ret", "rel-call", "rel-ret"

	// one acquire (+ hold + release) of an actor, logged
	acquire := func(a *hactor, hrng *rand.Rand, release bool) bool {
		opc, opr := evAcq, evRet
		if isEvent {
			opc, opr = "wait-call", "wait-ret"
			if a.kind == "holder" {
				opc, opr = "clear-call", "clear-ret"
			}
		}
		atomic.AddInt64(&e.att, 1)
		a.log.add(Ev{Op: opc, Kind: a.kind, Role: a.role, Prio: a.prio, Tmo: a.tmoMs, Key: r})
		rr, err := a.acq()
		ok, rs, es := resOf(rr, err)
		h := 0
		if ok && a.rel != nil {
			h = 1
		}
		a.log.add(Ev{Op: opr, Kind: a.kind, Role: a.role, Prio: a.prio, Tmo: a.tmoMs, Key: r, OK: ok, Res: rs, Err: es, Hold: h, Dep: 1})
		progress()
		if !ok {
			if a.kind != "short" && a.kind != "cancel" && a.kind != "newcomer" && a.kind != "probe" {
				e.noteErr(rs, "handover:"+errClass(rs, es))
			}
			return false
		}
		atomic.AddInt64(&e.ok, 1)
		if release && a.rel != nil {
			hold(hrng, sc.HoldUsMax)
			a.log.add(Ev{Op: evRelC, Kind: a.kind, Role: a.role, Prio: a.prio, Key: r, Hold: -1})
			rr, err = a.rel()
			ok2, rs2, es2 := resOf(rr, err)
			a.log.add(Ev{Op: evRelR, Kind: a.kind, Role: a.role, Key: r, OK: ok2, Res: rs2, Err: es2})
			progress()
		}
		return true
	}

	collect := func() []Ev {
		var evs []Ev
		for _, a := range all {
			evs = append(evs, a.log.snapshot(0)...)
		}
		evs = append(evs, coord.snapshot(0)...)
		sort.Slice(evs, func(i, j int) bool { return evs[i].Seq < evs[j].Seq })
		return evs
	}

	// ---- 1. holders fill the primitive
	base := int64(0)
	if isEvent && !sc.DefaultSet {
		if s := e.admin.SelectDB(0).State(); s != nil {
			base = int64(s.State.WaitCount)
		}
	}
	hrng := rand.New(rand.NewSource(sc.Seed*31 + int64(r)))
	filled := 0
	for _, a := range holders {
		okAll := true
		n := 1
		if a.depth > 1 {
			n = a.depth
		}
		for d := 0; d < n; d++ {
			if d == 0 {
				okAll = acquire(a, hrng, false)
			} else { // nested RLock levels: no second definite hold
				atomic.AddInt64(&e.att, 1)
				a.log.add(Ev{Op: evAcq, Kind: a.kind, Key: r, Dep: d})
				rr, err := a.acq()
				ok, rs, es := resOf(rr, err)
				a.log.add(Ev{Op: evRet, Kind: a.kind, Key: r, OK: ok, Res: rs, Err: es, Dep: d + 1})
				okAll = ok
			}
			if !okAll {
				break
			}
		}
		if !okAll {
			break
		}
		filled++
	}
	releaseHolder := func(a *hactor) {
		n := 1
		if a.depth > 1 {
			n = a.depth
		}
		for d := n; d >= 1; d-- {
			h := 0
			if d == 1 {
				h = -1
			}
			opc, opr := evRelC, evRelR
			if isEvent {
				opc, opr = "set-call", "set-ret"
			}
			a.log.add(Ev{Op: opc, Kind: a.kind, Role: a.role, Prio: a.prio, Key: r, Hold: h, Dep: d})
			rr, err := a.rel()
			ok, rs, es := resOf(rr, err)
			a.log.add(Ev{Op: opr, Kind: a.kind, Role: a.role, Key: r, OK: ok, Res: rs, Err: es, Dep: d - 1})
			if !ok {
				e.noteErr(rs, "handover-release:"+errClass(rs, es))
			}
			progress()
			if d > 1 {
				hold(hrng, sc.HoldUsMax/4+200) // a partially unlocked RLock must keep everybody out
			}
		}
	}
	if filled < len(holders) {
		st.aborted++
		for _, a := range holders[:filled] {
			releaseHolder(a)
		}
		time.Sleep(30 * time.Millisecond)
		return nil
	}

	// ---- 2. waiters arrive
	var wgShort, wgLong, wgNew sync.WaitGroup
	for i, a := range waiters {
		wg := &wgLong
		if a.kind != "long" {
			wg = &wgShort
		}
		wg.Add(1)
		go func(a *hactor, i int) {
			defer wg.Done()
			wrng := rand.New(rand.NewSource(sc.Seed*7919 + int64(r)*131 + int64(a.g)))
			acquire(a, wrng, true)
			atomic.StoreInt32(&a.done, 1)
		}(a, i)
		time.Sleep(time.Duration(rng.Intn(1500)) * time.Microsecond)
	}
	pendingOf := func(kinds ...string) int {
		n := 0
		for _, a := range waiters {
			for _, k := range kinds {
				if a.kind == k && atomic.LoadInt32(&a.done) == 0 {
					n++
				}
			}
		}
		return n
	}

	// ---- 3. all queued? then cancel the waiters to be cancelled; wait for the short ones to time out
	qdl := time.Now().Add(time.Duration(shortMs/2) * time.Millisecond)
	allQueued := false
	for time.Now().Before(qdl) {
		if n, _ := waitCount(e, key, base); n >= nWait {
			allQueued = true
			break
		}
		time.Sleep(2 * time.Millisecond)
	}
	for _, a := range waiters {
		if a.kind != "cancel" {
			continue
		}
		if !allQueued { // cancelling a request that is not queued yet answers UNOWN/UNLOCK_ERROR: wait a little instead
			time.Sleep(20 * time.Millisecond)
		}
		for try := 0; try < 6 && atomic.LoadInt32(&a.done) == 0; try++ {
			coord.add(Ev{Op: "cancel-call", Obj: a.g, Key: r})
			rr, err := a.cancel()
			ok, rs, es := resOf(rr, err)
			coord.add(Ev{Op: "cancel-ret", Obj: a.g, Key: r, OK: ok, Res: rs, Err: es})
			if ok {
				st.cancels++
				break
			}
			time.Sleep(25 * time.Millisecond) // not queued yet
		}
	}
	waitWG := func(wg *sync.WaitGroup, d time.Duration) bool {
		ch := make(chan struct{})
		go func() { wg.Wait(); close(ch) }()
		select {
		case <-ch:
			return true
		case <-time.After(d):
			return false
		}
	}
	shortsBack := waitWG(&wgShort, time.Duration(shortMs+6000)*time.Millisecond)
	for _, a := range waiters {
		if a.kind == "short" && atomic.LoadInt32(&a.done) == 1 {
			evs := a.log.snapshot(0)
			if len(evs) >= 2 && !evs[1].OK && evs[1].Res == int(protocol.RESULT_TIMEOUT) {
				st.shortTimeouts++
			}
		}
	}

	// ---- 4. confirmation: the admin listing shows exactly the long waiters that have not returned
	isConf := false
	if shortsBack {
		cdl := time.Now().Add(3 * time.Second)
		for time.Now().Before(cdl) {
			want := pendingOf("long", "cancel") // a cancel that failed leaves its waiter queued
			if want == 0 {
				break
			}
			n, _ := waitCount(e, key, base)
			if n == want && want == pendingOf("long", "cancel") && pendingOf("cancel") == 0 {
				isConf = true
				coord.add(Ev{Op: "confirm", Key: r, Dep: want})
				break
			}
			time.Sleep(2 * time.Millisecond)
		}
	}
	if isConf {
		st.confirmed++
	} else {
		st.unconfirmed++
		coord.add(Ev{Op: "unconfirmed", Key: r, Dep: pendingOf("long", "cancel")})
	}

	// ---- 5. newcomers with timeout 0 race the hand-over; holders release / the event is set
	for _, a := range newcomers {
		wgNew.Add(1)
		go func(a *hactor) {
			defer wgNew.Done()
			nrng := rand.New(rand.NewSource(sc.Seed*104729 + int64(r)*17 + int64(a.g)))
			for i := 0; i < 3; i++ {
				time.Sleep(time.Duration(nrng.Intn(600)) * time.Microsecond)
				acquire(a, nrng, true)
			}
		}(a)
	}
	hold(hrng, sc.HoldUsMax)
	rng.Shuffle(len(holders), func(i, j int) { holders[i], holders[j] = holders[j], holders[i] })
	for _, a := range holders {
		releaseHolder(a)
		if len(holders) > 1 {
			hold(hrng, sc.HoldUsMax)
		}
	}

	// ---- 6. every long waiter must come back; no progress for bound+300 ms = stall
	stalled := false
	hard := time.Now().Add(time.Duration(longTimeoutS+10) * time.Second)
	longDone := make(chan struct{})
	go func() { wgLong.Wait(); close(longDone) }()
wait:
	for {
		select {
		case <-longDone:
			break wait
		case <-time.After(25 * time.Millisecond):
			idle := int64(time.Since(epoch)) - atomic.LoadInt64(&lastProgress)
			if idle > (bound+300)*int64(time.Millisecond) {
				stalled = true
				break wait
			}
			if time.Now().After(hard) {
				stalled = true
				break wait
			}
		}
	}
	if stalled {
		st.stalls++
		lw, why := waitCount(e, key, base)
		lh := heldCount(e, key)
		if why == "" && lh == 0 && !(isEvent && !sc.DefaultSet) {
			lw = -2 // LIST_WAIT refuses a key without holds: the queue cannot be listed
		}
		coord.add(Ev{Op: "stall-probe", Key: r, Dep: lw, Obj: lh})
		// a fresh request that is not willing to wait: is it given the primitive past the queued waiters?
		role := ""
		if sc.Prim == "rwlock" {
			role = "w"
		}
		p := mkActor(e, g+1, key, "probe", 0, 0, 0, role)
		all = append(all, p)
		acquire(p, hrng, true)
	} else {
		waitWG(&wgNew, 10*time.Second)
	}
	coord.add(Ev{Op: "end", Key: r})

	// ---- 7. judge the round
	evs := collect()
	st.events += len(evs)
	for _, ev := range evs {
		if ev.Kind == "newcomer" && (ev.Op == evRet || ev.Op == "wait-ret") {
			st.newAttempts++
			if ev.OK {
				st.newGranted++
			}
		}
	}
	var viols []Violation
	if !isEvent {
		mx, _, v1 := monitorHolds(sc, evs, limit)
		if mx > st.maxc {
			st.maxc = mx
		}
		viols = append(viols, v1...)
	} else {
		v1, es := monitorEvent(sc, evs)
		viols = append(viols, v1...)
		if n, ok := es["waits_ok"].(int); ok {
			st.waitsOK += n
		}
		if n, ok := es["waits_in_clear_period"].(int); ok {
			st.waitsInClear += n
		}
	}
	if sc.Prim == "priority" {
		v2, _ := monitorPriority(sc, evs)
		viols = append(viols, v2...)
	}
	v3, ls := monitorLiveness(sc, evs, limit, bound)
	viols = append(viols, v3...)
	st.longServed += ls.served
	st.longNotServed += ls.notServed
	if ls.maxAvailUs > st.maxAvailUs {
		st.maxAvailUs = ls.maxAvailUs
	}
	return viols
}

// ---------------------------------------------------------------- liveness monitor

type liveStats struct {
	served, notServed int
	maxAvailUs        int64 // longest stretch "available while a confirmed, still patient waiter waits" (how close to the bound)
}

// normalise the Event vocabulary: the controller's Clear is the acquire of a hold that its Set releases; a Wait is an
// acquire that holds nothing.
func normOp(ev Ev) (string, int) {
	switch ev.Op {
	case "clear-call":
		return "acq-call", 0
	case "clear-ret":
		h := 0
		if ev.OK {
			h = 1
		}
		return "acq-ret", h
	case "set-call":
		return "rel-call", -1
	case "set-ret":
		return "rel-ret", 0
	case "wait-call":
		return "acq-call", 0
	case "wait-ret":
		return "acq-ret", 0
	}
	return ev.Op, ev.Hold
}

func monitorLiveness(sc Scenario, evs []Ev, limit int, boundMs int64) ([]Violation, liveStats) {
	var ls liveStats
	var conf *Ev
	for i := range evs {
		if evs[i].Op == "confirm" {
			conf = &evs[i]
			break
		}
	}
	if conf == nil {
		return nil, ls
	}
	// confirmed waiters: long acquires in flight at the confirmation
	type wst struct {
		call    Ev
		pending bool
	}
	confirmed := map[int]*wst{}
	inflight := map[int]bool{} // acquire called, not returned (all actors)
	holding := map[int]bool{}  // acquire returned ok with something to release, release has not returned ok at depth 0
	for _, ev := range evs {
		if ev.Seq >= conf.Seq {
			break
		}
		op, _ := normOp(ev)
		if op == "acq-call" && ev.Kind == "long" {
			confirmed[ev.G] = &wst{call: ev, pending: true}
		} else if op == "acq-ret" {
			delete(confirmed, ev.G)
		}
	}
	if len(confirmed) == 0 || len(confirmed) != conf.Dep {
		return nil, ls // the listing did not match the client-side picture: nothing is judged
	}
	bound := boundMs * int64(time.Millisecond)
	busy := func() int {
		n := len(holding)
		for g := range inflight {
			if w := confirmed[g]; w != nil && w.pending {
				continue // a confirmed waiter is waiting, not holding
			}
			if !holding[g] {
				n++
			}
		}
		return n
	}
	eligible := func(t int64) []int {
		var gs []int
		for g, w := range confirmed {
			if w.pending && w.call.T+w.call.Tmo*int64(time.Millisecond)-livenessSlack > t {
				gs = append(gs, g)
			}
		}
		sort.Ints(gs)
		return gs
	}
	var viols []Violation
	availSince := int64(-1)
	var probe, stall *Ev
	for i := range evs {
		if evs[i].Op == "stall-probe" {
			stall = &evs[i]
		}
		if evs[i].Kind == "probe" && (evs[i].Op == "acq-ret" || evs[i].Op == "wait-ret") {
			probe = &evs[i]
		}
	}
	judge := func(t int64, at Ev) {
		if availSince < 0 {
			return
		}
		gs := eligible(t)
		if len(gs) == 0 {
			return
		}
		d := t - availSince
		if d/int64(time.Microsecond) > ls.maxAvailUs {
			ls.maxAvailUs = d / int64(time.Microsecond)
		}
		if d > bound && len(viols) == 0 {
			w := confirmed[gs[0]]
			how := "LIST_WAIT"
			if sc.Prim == "event" && !sc.DefaultSet {
				how = "STATE WaitCount"
			}
			what := fmt.Sprintf("%s: available (possible holders %d < limit %d) for %d ms while %d confirmed waiter(s) kept waiting, e.g. goroutine %d (priority %d, role %q, timeout %d ms, called %d ms earlier, queued-confirmed by %s)",
				sc.Prim, busy(), limit, d/int64(time.Millisecond), len(gs), gs[0], w.call.Prio, w.call.Role, w.call.Tmo, (t-w.call.T)/int64(time.Millisecond), how)
			if sc.Prim == "event" {
				what = fmt.Sprintf("event(default_set=%v): Set returned %d ms ago and no Clear followed, but %d confirmed Wait(s) whose timeout has not elapsed did not return, e.g. goroutine %d (timeout %d ms, called %d ms earlier, queued-confirmed by %s)",
					sc.DefaultSet, d/int64(time.Millisecond), len(gs), gs[0], w.call.Tmo, (t-w.call.T)/int64(time.Millisecond), how)
			}
			if stall != nil && stall.Dep == -2 {
				what += "; at the stall the server listed no hold on the key (LIST_WAIT does not list the queue of a key without holds)"
			} else if stall != nil {
				what += fmt.Sprintf("; at the stall the server listed %d queued request(s) and %d hold(s) on the key", stall.Dep, stall.Obj)
			}
			if probe != nil {
				if probe.OK {
					what += "; a fresh request with timeout 0 (priority 0) was then GRANTED past the queued waiter(s)"
				} else {
					what += fmt.Sprintf("; a fresh request with timeout 0 was then refused (result %d)", probe.Res)
				}
			}
			ex := evs
			if len(ex) > 160 {
				ex = append(append([]Ev{}, evs[:40]...), evs[len(evs)-120:]...)
			}
			viols = append(viols, Violation{Liveness: true, Scenario: sc.ID, Sig: "monitor:" + sc.Prim + ":waiter-not-served", What: what, Excerpt: ex, Params: sc})
		}
	}
	started := false
	for _, ev := range evs {
		op, h := normOp(ev)
		if started {
			judge(ev.T, ev) // the state since the previous event lasted until now
		}
		switch op {
		case "acq-call":
			inflight[ev.G] = true
		case "acq-ret":
			delete(inflight, ev.G)
			if ev.OK && h == 1 {
				holding[ev.G] = true
			}
			if w := confirmed[ev.G]; w != nil && w.pending && started {
				w.pending = false
				if ev.OK {
					ls.served++
				} else {
					ls.notServed++
				}
			}
		case "rel-ret":
			if ev.OK && ev.Dep == 0 {
				delete(holding, ev.G)
			}
		case "confirm":
			started = true
		}
		if started {
			if busy() < limit {
				if availSince < 0 {
					availSince = ev.T
				}
			} else {
				availSince = -1
			}
		}
	}
	for _, w := range confirmed {
		if w.pending {
			ls.notServed++
		}
	}
	return viols, ls
}

// confirmLiveness: re-run a scenario whose liveness monitor raised an alarm; keep the alarm only if it reproduces.
func confirmLiveness(sc Scenario, res *ScenResult, viols []Violation, rerun func(Scenario) (ScenResult, []Violation)) []Violation {
	var live *Violation
	for i := range viols {
		if viols[i].Liveness {
			live = &viols[i]
			break
		}
	}
	if live == nil {
		return viols
	}
	repro := 0
	var extra []Violation
	for i := 1; i <= 2; i++ {
		sc2 := sc
		sc2.ID = fmt.Sprintf("%s-rerun%d", sc.ID, i)
		b := sc.BoundMs
		if b <= 0 {
			b = 2000
		}
		sc2.BoundMs = b * 3 / 2
		_, v2 := rerun(sc2)
		for _, x := range v2 {
			if x.Liveness && x.Sig == live.Sig {
				repro++
				break
			}
		}
		for _, x := range v2 {
			if !x.Liveness {
				x.Params = sc
				extra = append(extra, x)
			}
		}
	}
	res.Extra["liveness_alarms_first_run"] = 1
	res.Extra["liveness_alarm_reproductions"] = repro
	var out []Violation
	for _, x := range viols {
		if x.Liveness {
			if repro == 0 {
				continue // not reproduced: a stall of the machine, not reported
			}
			x.What += fmt.Sprintf(" [reproduced in %d of 2 re-runs of the scenario with a 1.5x bound]", repro)
		}
		out = append(out, x)
	}
	if repro == 0 {
		res.Extra["liveness_alarms_dropped_not_reproduced"] = 1
	}
	res.Violations = len(out)
	return append(out, extra...)
}
