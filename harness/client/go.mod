module verifharness/client

go 1.19

require github.com/snower/slock v0.0.0

require google.golang.org/protobuf v1.34.2 // indirect

replace github.com/snower/slock => /repo
