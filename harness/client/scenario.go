package main

import (
	"encoding/binary"
	"fmt"
	"math/rand"
	"runtime"
	"sort"
	"strconv"
	"strings"
	"sync"
	"sync/atomic"
	"time"

	"github.com/snower/slock/client"
	"github.com/snower/slock/protocol"
)

// ---------------------------------------------------------------- helpers

func mkKey(seed int64, scen string, k int) [16]byte {
	var key [16]byte
	h := uint64(seed)*0x9e3779b97f4a7c15 + uint64(k)*0xbf58476d1ce4e5b9
	for _, c := range scen {
		h = (h ^ uint64(c)) * 0x100000001b3
	}
	binary.LittleEndian.PutUint64(key[0:8], h)
	binary.LittleEndian.PutUint64(key[8:16], uint64(time.Now().UnixNano()))
	key[15] = byte(k)
	return key
}

func splitHost(addr string) (string, uint) {
	i := strings.LastIndex(addr, ":")
	p, _ := strconv.Atoi(addr[i+1:])
	return addr[:i], uint(p)
}

func resOf(r *protocol.LockResultCommand, err error) (bool, int, string) {
	res := -1
	if r != nil {
		res = int(r.Result)
	}
	if err != nil {
		if le, ok := err.(*client.LockError); ok {
			if r == nil {
				res = int(le.Result)
			}
			if le.Err != nil {
				return false, res, le.Err.Error()
			}
			return false, res, "result"
		}
		return false, res, err.Error()
	}
	return true, res, ""
}

func errClass(res int, es string) string {
	if es == "" || es == "result" {
		return "result-" + strconv.Itoa(res)
	}
	return es
}

func hold(rng *rand.Rand, maxUs int) {
	if maxUs <= 0 {
		return
	}
	us := rng.Intn(maxUs + 1)
	// bias towards short holds: half of the holds are below 1/16 of the maximum
	if rng.Intn(2) == 0 {
		us /= 16
	}
	if us < 30 {
		for i := 0; i < us; i++ {
			runtime.Gosched()
		}
		return
	}
	time.Sleep(time.Duration(us) * time.Microsecond)
}

func waitFollowerReady(addr string) string {
	host, port := splitHost(addr)
	deadline := time.Now().Add(25 * time.Second)
	last := "no attempt"
	for time.Now().Before(deadline) {
		c := client.NewClient(host, port)
		if err := c.Open(); err != nil {
			last = "open: " + err.Error()
			time.Sleep(200 * time.Millisecond)
			continue
		}
		key := mkKey(1, "follower-probe", 0)
		l := c.Lock(key, 1, 5)
		r, err := l.Lock()
		ok, res, es := resOf(r, err)
		if ok {
			_, _ = l.Unlock()
			_ = c.Close()
			return ""
		}
		last = fmt.Sprintf("probe lock through follower: result %d %s", res, es)
		_ = c.Close()
		time.Sleep(300 * time.Millisecond)
	}
	return "follower never served a forwarded lock: " + last
}

// ---------------------------------------------------------------- scenario driver

type env struct {
	sc       Scenario
	clients  []*client.Client
	keys     [][16]byte
	logs     []*glog
	stop     int32
	errMu    sync.Mutex
	errs     map[string]int
	att, ok  int64
	rwShared map[[2]int]*client.RWLock
	admin    *client.Client // handover scenarios: direct connection to the leader for LIST_WAIT / LIST_LOCKED / STATE
}

func (e *env) done() bool { return atomic.LoadInt32(&e.stop) != 0 }

func (e *env) noteErr(res int, es string) {
	e.errMu.Lock()
	e.errs[errClass(res, es)]++
	e.errMu.Unlock()
}

func (e *env) cl(g int) *client.Client { return e.clients[g%len(e.clients)] }

func (e *env) sharedRW(conn, k int, c *client.Client, key [16]byte, to, ex uint32) *client.RWLock {
	e.errMu.Lock()
	defer e.errMu.Unlock()
	if e.rwShared == nil {
		e.rwShared = map[[2]int]*client.RWLock{}
	}
	rw := e.rwShared[[2]int{conn, k}]
	if rw == nil {
		rw = c.RWLock(key, to, ex)
		e.rwShared[[2]int{conn, k}] = rw
	}
	return rw
}

func runScenario(sc Scenario, target string, px *proxy, adminAddr string) (ScenResult, []Violation) {
	t0 := time.Now()
	res := ScenResult{ID: sc.ID, Prim: sc.Prim, Via: sc.Via, Proxy: sc.Proxy, Goroutines: sc.Goroutines, Conns: sc.Conns, N: sc.N,
		Keys: sc.Keys, Errors: map[string]int{}, Extra: map[string]interface{}{}}
	host, port := splitHost(target)
	e := &env{sc: sc, errs: res.Errors}
	for i := 0; i < sc.Conns; i++ {
		c := client.NewClient(host, port)
		if err := c.Open(); err != nil {
			res.Skipped = "client open failed: " + err.Error()
			return res, []Violation{{Scenario: sc.ID, Sig: "harness:client-open", What: "client.Open failed against a running server: " + err.Error(), Params: sc}}
		}
		e.clients = append(e.clients, c)
	}
	defer func() {
		for _, c := range e.clients {
			cc := c
			done := make(chan struct{})
			go func() { _ = cc.Close(); close(done) }()
			select {
			case <-done:
			case <-time.After(5 * time.Second):
			}
		}
	}()
	if sc.Keys < 1 {
		sc.Keys = 1
	}
	for k := 0; k < sc.Keys; k++ {
		e.keys = append(e.keys, mkKey(sc.Seed, sc.ID, k))
	}
	ng := sc.Goroutines
	extra := 0
	if sc.Prim == "priority" || sc.Prim == "event" {
		extra = 1 // coordinator / controller log
	}
	for g := 0; g < ng+extra; g++ {
		e.logs = append(e.logs, &glog{g: g})
	}

	// connection cutter
	var cutWg sync.WaitGroup
	cuts0 := 0
	if px != nil {
		cuts0 = px.cuts
	}
	if px != nil && sc.Cuts > 0 {
		cutWg.Add(1)
		go func() {
			defer cutWg.Done()
			rng := rand.New(rand.NewSource(sc.Seed ^ 0x5eed))
			slot := sc.DurationMs / (sc.Cuts + 1)
			for i := 0; i < sc.Cuts && !e.done(); i++ {
				time.Sleep(time.Duration(slot/2+rng.Intn(slot/2+1)) * time.Millisecond)
				px.cut()
			}
		}()
	}

	var viols []Violation
	if sc.Kind == "handover" {
		ah, ap := splitHost(adminAddr)
		e.admin = client.NewClient(ah, ap)
		if err := e.admin.Open(); err != nil {
			res.Skipped = "admin client open failed: " + err.Error()
			return res, []Violation{{Scenario: sc.ID, Sig: "harness:client-open", What: "client.Open failed against a running server: " + err.Error(), Params: sc}}
		}
		e.clients = append(e.clients, e.admin) // closed with the others (never used by workers: cl(g) is overridden below)
		viols = runHandover(e, &res)
		atomic.StoreInt32(&e.stop, 1)
		cutWg.Wait()
		res.Attempts, res.Acquisitions = int(e.att), int(e.ok)
		res.Violations = len(viols)
		res.WallMs = time.Since(t0).Milliseconds()
		return res, viols
	}
	switch sc.Prim {
	case "lock", "semaphore", "flow", "rwlock", "rlock":
		var wg sync.WaitGroup
		for g := 0; g < ng; g++ {
			wg.Add(1)
			go func(g int) {
				defer wg.Done()
				if sc.Prim == "rlock" {
					workerRLock(e, g)
				} else {
					workerCapacity(e, g)
				}
			}(g)
		}
		time.Sleep(time.Duration(sc.DurationMs) * time.Millisecond)
		atomic.StoreInt32(&e.stop, 1)
		wg.Wait()
		evs := merge(e.logs)
		// every successful acquire has been released by now: anything the server still lists on the keys is a grant
		// (or a queued request) whose reply never reached its caller
		if lh, lw, why := leftovers(e); why == "" {
			res.Extra["leftover_holds_after_drain"], res.Extra["leftover_waiters_after_drain"] = lh, lw
		} else {
			res.Extra["leftover_query_failed"] = why
		}
		limit := 1
		if sc.Prim == "semaphore" || sc.Prim == "flow" {
			limit = sc.N
		}
		res.Limit = limit
		var mx int
		var stale int
		mx, stale, viols = monitorHolds(sc, evs, limit)
		res.MaxConcurrency, res.StaleDiscarded = mx, stale
		if sc.Prim == "rlock" {
			v2, ex := monitorRLock(sc, evs)
			viols = append(viols, v2...)
			for k, v := range ex {
				res.Extra[k] = v
			}
		}
		if sc.Prim == "rwlock" {
			res.Extra["max_concurrent_readers"] = mx
			res.Extra["writer_acquisitions"], res.Extra["reader_acquisitions"] = countRoles(evs)
		}
		res.Events = len(evs)
	case "priority":
		viols = runPriority(e, &res)
	case "event":
		viols = runEvent(e, &res)
	default:
		res.Skipped = "unknown primitive"
	}
	atomic.StoreInt32(&e.stop, 1)
	cutWg.Wait()
	res.Attempts, res.Acquisitions = int(e.att), int(e.ok)
	res.Violations = len(viols)
	res.WallMs = time.Since(t0).Milliseconds()
	if px != nil {
		res.Extra["cuts_done"] = px.cuts - cuts0
	}
	return res, viols
}

func leftovers(e *env) (int, int, string) {
	db := e.cl(0).SelectDB(0)
	lh, lw := 0, 0
	for _, key := range e.keys {
		// the server answers RESULT_UNKNOWN_DB (3) when the key has no manager or nothing is held/queued
		r1, err := db.ListLockLockeds(key, 5)
		if err != nil && !strings.Contains(err.Error(), "error code 3") {
			return 0, 0, fmt.Sprint("LIST_LOCKED: ", err)
		}
		if err == nil && r1 != nil {
			lh += len(r1.Locks)
		}
		r2, err := db.ListLockWaits(key, 5)
		if err != nil && !strings.Contains(err.Error(), "error code 3") {
			return 0, 0, fmt.Sprint("LIST_WAIT: ", err)
		}
		if err == nil && r2 != nil {
			lw += len(r2.Locks)
		}
	}
	return lh, lw, ""
}

func countRoles(evs []Ev) (int, int) {
	w, r := 0, 0
	for _, e := range evs {
		if e.Op == "acq-ret" && e.OK {
			if e.Role == "w" {
				w++
			} else {
				r++
			}
		}
	}
	return w, r
}

// ---------------------------------------------------------------- workers: lock / semaphore / flow / rwlock

type acqrel struct {
	acq func() (*protocol.LockResultCommand, error)
	rel func() (*protocol.LockResultCommand, error)
}

func workerCapacity(e *env, g int) {
	sc := e.sc
	rng := rand.New(rand.NewSource(sc.Seed*1000003 + int64(g)))
	log := e.logs[g]
	c := e.cl(g)
	to, ex := uint32(sc.Timeout), uint32(sc.Expried)
	// per goroutine, per key objects (reused for half of the iterations)
	locks := make([]*client.Lock, len(e.keys))
	sems := make([]*client.Semaphore, len(e.keys))
	flows := make([]*client.MaxConcurrentFlow, len(e.keys))
	rws := make([]*client.RWLock, len(e.keys))
	for !e.done() {
		k := rng.Intn(len(e.keys))
		key := e.keys[k]
		role := ""
		var ar acqrel
		tmo := to
		if rng.Intn(8) == 0 {
			tmo = 0 // try-lock flavour
		}
		switch sc.Prim {
		case "lock":
			if locks[k] == nil || rng.Intn(2) == 0 || tmo != to {
				locks[k] = c.Lock(key, tmo, ex)
			}
			l := locks[k]
			if tmo != to {
				locks[k] = nil
			}
			ar = acqrel{l.Lock, l.Unlock}
		case "semaphore":
			if sems[k] == nil || tmo != to {
				sems[k] = c.Semaphore(key, tmo, ex, uint16(sc.N))
			}
			s := sems[k]
			if tmo != to {
				sems[k] = nil
			}
			ar = acqrel{s.Acquire, s.Release}
		case "flow":
			if flows[k] == nil || rng.Intn(2) == 0 || tmo != to {
				flows[k] = c.MaxConcurrentFlow(key, uint16(sc.N), tmo, ex)
			}
			f := flows[k]
			if tmo != to {
				flows[k] = nil
			}
			ar = acqrel{f.Acquire, f.Release}
		case "rwlock":
			var rw *client.RWLock
			if sc.SharedObj {
				// one RWLock object per (connection, key) shared by all goroutines of that connection: exercises the
				// object's own mutex, its shared reader list (RUnlock releases the OLDEST reader lock of the object) and the
				// single writer LockId (a second writer of the same object is refused with LOCKED_ERROR, never admitted)
				rw = e.sharedRW(g%len(e.clients), k, c, key, to, ex)
			} else {
				if rws[k] == nil || tmo != to {
					rws[k] = c.RWLock(key, tmo, ex)
				}
				rw = rws[k]
				if tmo != to {
					rws[k] = nil
				}
			}
			if rng.Intn(4) == 0 {
				role = "w"
				ar = acqrel{rw.Lock, rw.Unlock}
			} else {
				role = "r"
				ar = acqrel{rw.RLock, rw.RUnlock}
			}
		}
		atomic.AddInt64(&e.att, 1)
		log.add(Ev{Op: "acq-call", Role: role, Key: k})
		r, err := ar.acq()
		ok, res, es := resOf(r, err)
		h := 0
		if ok {
			h = 1
		}
		log.add(Ev{Op: "acq-ret", Role: role, Key: k, OK: ok, Res: res, Err: es, Hold: h})
		if !ok {
			e.noteErr(res, es)
			if es != "" && es != "result" {
				time.Sleep(20 * time.Millisecond) // connection trouble: do not spin
			}
			continue
		}
		atomic.AddInt64(&e.ok, 1)
		hold(rng, sc.HoldUsMax)
		log.add(Ev{Op: "rel-call", Role: role, Key: k, Hold: -1})
		r, err = ar.rel()
		ok, res, es = resOf(r, err)
		log.add(Ev{Op: "rel-ret", Role: role, Key: k, OK: ok, Res: res, Err: es})
		if !ok {
			e.noteErr(res, "release:"+errClass(res, es))
		}
		if rng.Intn(4) == 0 {
			hold(rng, sc.HoldUsMax/4)
		}
	}
}

// ---------------------------------------------------------------- worker: RLock (re-entrant)

func workerRLock(e *env, g int) {
	sc := e.sc
	rng := rand.New(rand.NewSource(sc.Seed*1000003 + int64(g)))
	log := e.logs[g]
	c := e.cl(g)
	to, ex := uint32(sc.Timeout), uint32(sc.Expried)
	objs := make([]*client.RLock, len(e.keys))
	deepDone := false
	for !e.done() {
		k := rng.Intn(len(e.keys))
		tmo := to
		if rng.Intn(6) == 0 {
			tmo = 0
		}
		if objs[k] == nil || rng.Intn(3) == 0 || tmo != to {
			objs[k] = c.RLock(e.keys[k], tmo, ex)
		}
		o := objs[k]
		if tmo != to {
			objs[k] = nil
		}
		want := 1 + rng.Intn(4)
		if g == 0 && !deepDone {
			want = 257 // once per scenario: walk up to the depth limit (0xff) and one beyond
		}
		depth := 0
		connTrouble := false
		for i := 0; i < want; i++ {
			atomic.AddInt64(&e.att, 1)
			log.add(Ev{Op: "acq-call", Key: k, Dep: depth})
			r, err := o.Lock()
			ok, res, es := resOf(r, err)
			h := 0
			if ok {
				depth++
				if depth == 1 {
					h = 1
				}
			}
			log.add(Ev{Op: "acq-ret", Key: k, OK: ok, Res: res, Err: es, Dep: depth, Hold: h})
			if !ok {
				e.noteErr(res, es)
				if es != "" && es != "result" {
					connTrouble = true
				}
				break
			}
			atomic.AddInt64(&e.ok, 1)
			if i+1 < want && want < 10 {
				hold(rng, sc.HoldUsMax/4)
			}
		}
		if want == 257 && depth > 0 {
			deepDone = true
		}
		if connTrouble {
			// the outcome of the failed Lock is unknown (it may have been granted server-side after the cut):
			// never reuse this LockId, and do not probe it with an extra unlock
			objs[k] = nil
		}
		if depth == 0 {
			if connTrouble {
				time.Sleep(20 * time.Millisecond)
			}
			continue
		}
		hold(rng, sc.HoldUsMax)
		for depth > 0 {
			h := 0
			if depth == 1 {
				h = -1
			}
			log.add(Ev{Op: "rel-call", Key: k, Dep: depth, Hold: h})
			r, err := o.Unlock()
			ok, res, es := resOf(r, err)
			depth--
			log.add(Ev{Op: "rel-ret", Key: k, OK: ok, Res: res, Err: es, Dep: depth})
			if !ok {
				e.noteErr(res, "release:"+errClass(res, es))
				if es != "" && es != "result" {
					// the reply of this Unlock was lost (cut connection, client-side wait timeout): whether the server
					// released the level is unknown, so the object may still hold the key afterwards
					connTrouble = true
				}
			}
			if depth > 0 && want < 10 {
				hold(rng, sc.HoldUsMax/8)
			}
		}
		if connTrouble {
			objs[k] = nil
		}
		// one unlock too many must be refused (the object holds nothing any more)
		if rng.Intn(5) == 0 && !connTrouble {
			log.add(Ev{Op: "xrel-call", Key: k})
			r, err := o.Unlock()
			ok, res, es := resOf(r, err)
			log.add(Ev{Op: "xrel-ret", Key: k, OK: ok, Res: res, Err: es})
		}
	}
}

// ---------------------------------------------------------------- monitors

// monitorHolds: sweep over the history in logical-clock order. A definite hold of goroutine g runs from the
// event with Hold=+1 (acquire returned ok) to its event with Hold=-1 (release about to be called).
// limit: Lock/RLock/RWLock-writer 1, Semaphore/Flow n. For rwlock a writer tolerates nobody, readers only readers.
// Holds whose wall time (acquire-call .. release-call) comes within 1.5 s of the expiry are discarded (the server may
// legitimately have expired them).
func monitorHolds(sc Scenario, evs []Ev, limit int) (int, int, []Violation) {
	type iv struct{ callT, acqSeq, relSeq int64 }
	staleSeq := map[int64]bool{}
	lastCall := map[int]int64{}
	open := map[int]Ev{}
	openCall := map[int]int64{}
	maxHoldNs := int64(sc.Expried)*1e9 - 15e8
	stale := 0
	for _, ev := range evs {
		switch {
		case ev.Op == "acq-call":
			if _, held := open[ev.G]; !held {
				lastCall[ev.G] = ev.T
			}
		case ev.Hold == 1:
			open[ev.G] = ev
			openCall[ev.G] = lastCall[ev.G]
		case ev.Hold == -1:
			if a, ok := open[ev.G]; ok {
				if ev.T-openCall[ev.G] > maxHoldNs {
					staleSeq[a.Seq] = true
					stale++
				}
				delete(open, ev.G)
			}
		}
	}
	for _, a := range open { // never released in the log (scenario ended): keep only if young
		_ = a
	}
	var viols []Violation
	holders := map[int]map[int]Ev{} // key -> g -> acquire event
	maxc := 0
	byG := func(gs map[int]bool) []Ev {
		var ex []Ev
		for _, ev := range evs {
			if gs[ev.G] {
				ex = append(ex, ev)
			}
		}
		return ex
	}
	reported := 0
	for _, ev := range evs {
		if ev.Hold == 1 && !staleSeq[ev.Seq] {
			hs := holders[ev.Key]
			if hs == nil {
				hs = map[int]Ev{}
				holders[ev.Key] = hs
			}
			bad := ""
			if sc.Prim == "rwlock" {
				nw := 0
				for _, h := range hs {
					if h.Role == "w" {
						nw++
					}
				}
				if ev.Role == "w" && len(hs) > 0 {
					bad = fmt.Sprintf("writer admitted while %d holder(s) (%d writer) hold the key", len(hs), nw)
				} else if ev.Role == "r" && nw > 0 {
					bad = "reader admitted while a writer holds the key"
				}
			} else if len(hs)+1 > limit {
				bad = fmt.Sprintf("%d definite holders at once, limit %d", len(hs)+1, limit)
			}
			hs[ev.G] = ev
			if len(hs) > maxc {
				maxc = len(hs)
			}
			if bad != "" && reported < 3 {
				reported++
				gs := map[int]bool{}
				lo := ev.Seq
				for g, h := range hs {
					gs[g] = true
					if h.Seq < lo {
						lo = h.Seq
					}
				}
				var ex []Ev
				for _, x := range byG(gs) {
					if x.Seq >= lo-4*int64(len(gs)) && x.Seq <= ev.Seq+2 {
						ex = append(ex, x)
					}
				}
				if len(ex) > 120 {
					ex = ex[len(ex)-120:]
				}
				viols = append(viols, Violation{Scenario: sc.ID, Sig: "monitor:" + sc.Prim + ":admission", What: sc.Prim + ": " + bad, Excerpt: ex, Params: sc})
			}
		} else if ev.Hold == -1 {
			if hs := holders[ev.Key]; hs != nil {
				delete(hs, ev.G)
			}
		}
	}
	return maxc, stale, viols
}

// monitorRLock: (1) a re-entrant Lock by the current holder below depth 0xff must succeed,
// (2) the 256th nested Lock is refused (observation only), (3) an unlock after depth reached zero must fail.
func monitorRLock(sc Scenario, evs []Ev) ([]Violation, map[string]interface{}) {
	var viols []Violation
	maxDepth, refusedAt := 0, 0
	extraTried, extraOK := 0, 0
	excerpt := func(g int, seq int64) []Ev {
		var ex []Ev
		for _, ev := range evs {
			if ev.G == g && ev.Seq <= seq+1 && ev.Seq >= seq-2000 {
				ex = append(ex, ev)
			}
		}
		if len(ex) > 40 {
			ex = ex[len(ex)-40:]
		}
		return ex
	}
	prevDep := map[int]int{}
	firstCallT := map[int]int64{} // wall time of the acquire call that started the current nest (depth 0 -> 1)
	maxHoldNs := int64(sc.Expried)*1e9 - 15e8
	for _, ev := range evs {
		switch ev.Op {
		case "acq-call":
			prevDep[ev.G] = ev.Dep
			if ev.Dep == 0 {
				firstCallT[ev.G] = ev.T
			}
		case "acq-ret":
			if ev.OK && ev.Dep > maxDepth {
				maxDepth = ev.Dep
			}
			if !ev.OK && prevDep[ev.G] >= 1 {
				if prevDep[ev.G] >= 0xff {
					refusedAt = prevDep[ev.G] + 1
				} else if ev.T-firstCallT[ev.G] > maxHoldNs {
					// the outer hold may have expired meanwhile (long stall, e.g. a reconnect): not judged
				} else if ev.Err == "result" || ev.Err == "" || ev.Res == int(protocol.RESULT_LOCKED_ERROR) || ev.Res == int(protocol.RESULT_TIMEOUT) {
					if len(viols) < 3 {
						viols = append(viols, Violation{Scenario: sc.ID, Sig: "monitor:rlock:reentry-refused",
							What: fmt.Sprintf("rlock: holder's own nested Lock at depth %d refused with result %d", prevDep[ev.G], ev.Res), Excerpt: excerpt(ev.G, ev.Seq), Params: sc})
					}
				}
			}
		case "xrel-ret":
			extraTried++
			if ev.OK {
				extraOK++
				if len(viols) < 3 {
					viols = append(viols, Violation{Scenario: sc.ID, Sig: "monitor:rlock:extra-unlock-accepted",
						What: "rlock: an Unlock after as many unlocks as locks was accepted (the object still held the key)", Excerpt: excerpt(ev.G, ev.Seq), Params: sc})
				}
			}
		}
	}
	return viols, map[string]interface{}{"max_depth_reached": maxDepth, "nested_lock_refused_at": refusedAt,
		"extra_unlock_probes": extraTried, "extra_unlock_accepted": extraOK}
}

// ---------------------------------------------------------------- PriorityLock

// Rounds. In each round (own key): a holder takes the lock, K waiters with seeded priorities call Lock; the
// coordinator polls LIST_WAIT until the server reports K queued waiters (=> they are definitely waiting), logs
// "confirm", then the holder releases. Every waiter holds for a random time and releases. Optionally late-comers
// call Lock while the chain runs. Monitor: every grant after "confirm" must have priority >= the maximum priority
// among confirmed waiters that have not returned yet (bigger number = higher priority, server/lock.go
// LockManagerPriorityRingQueue keeps nodes in descending order); and never two holders.
func runPriority(e *env, res *ScenResult) []Violation {
	sc := e.sc
	rng := rand.New(rand.NewSource(sc.Seed))
	coord := e.logs[sc.Goroutines]
	var viols []Violation
	to, ex := uint32(sc.Timeout), uint32(sc.Expried)
	rounds, confirmed, unconfirmed, grantsChecked, late := 0, 0, 0, 0, 0
	maxc := 0
	deadline := time.Now().Add(time.Duration(sc.DurationMs) * time.Millisecond)
	for r := 0; (sc.Rounds == 0 || r < sc.Rounds) && time.Now().Before(deadline); r++ {
		rounds++
		key := mkKey(sc.Seed, sc.ID, 1000+r)
		ng := sc.Goroutines
		nlate := 0
		if sc.Late && ng >= 4 {
			nlate = 1 + rng.Intn(ng/3)
		}
		k := ng - 1 - nlate // initial waiters
		if k < 2 {
			k, nlate = ng-1, 0
		}
		prios := make([]uint8, ng)
		distinct := rng.Intn(3) != 0
		perm := rng.Perm(255)
		for g := range prios {
			if distinct && g < 255 {
				prios[g] = uint8(perm[g] + 1)
			} else {
				prios[g] = uint8(rng.Intn(6))
			}
		}
		start := len(coord.evs)
		marks := make([]int, ng)
		for g := 0; g < ng; g++ {
			marks[g] = len(e.logs[g].evs)
		}
		// holder = goroutine 0
		hl := e.cl(0).PriorityLock(key, prios[0], to, ex)
		atomic.AddInt64(&e.att, 1)
		e.logs[0].add(Ev{Op: "acq-call", Key: r, Prio: int(prios[0])})
		rr, err := hl.Lock()
		ok, rs, es := resOf(rr, err)
		h := 0
		if ok {
			h = 1
		}
		e.logs[0].add(Ev{Op: "acq-ret", Key: r, Prio: int(prios[0]), OK: ok, Res: rs, Err: es, Hold: h})
		if !ok {
			e.noteErr(rs, es)
			time.Sleep(50 * time.Millisecond)
			continue
		}
		atomic.AddInt64(&e.ok, 1)
		var wg sync.WaitGroup
		waiter := func(g int) {
			defer wg.Done()
			wrng := rand.New(rand.NewSource(sc.Seed*7919 + int64(r)*131 + int64(g)))
			pl := e.cl(g).PriorityLock(key, prios[g], to, ex)
			atomic.AddInt64(&e.att, 1)
			e.logs[g].add(Ev{Op: "acq-call", Key: r, Prio: int(prios[g])})
			rr, err := pl.Lock()
			ok, rs, es := resOf(rr, err)
			h := 0
			if ok {
				h = 1
			}
			e.logs[g].add(Ev{Op: "acq-ret", Key: r, Prio: int(prios[g]), OK: ok, Res: rs, Err: es, Hold: h})
			if !ok {
				e.noteErr(rs, es)
				return
			}
			atomic.AddInt64(&e.ok, 1)
			hold(wrng, sc.HoldUsMax)
			e.logs[g].add(Ev{Op: "rel-call", Key: r, Prio: int(prios[g]), Hold: -1})
			rr, err = pl.Unlock()
			ok, rs, es = resOf(rr, err)
			e.logs[g].add(Ev{Op: "rel-ret", Key: r, OK: ok, Res: rs, Err: es})
		}
		for g := 1; g <= k; g++ {
			wg.Add(1)
			go waiter(g)
		}
		// wait until the server lists k waiters on the key
		isConf := false
		db := e.cl(0).SelectDB(0)
		cdl := time.Now().Add(5 * time.Second)
		for time.Now().Before(cdl) {
			resp, err := db.ListLockWaits(key, 5)
			if err == nil && resp != nil && len(resp.Locks) >= k {
				isConf = true
				break
			}
			time.Sleep(2 * time.Millisecond)
		}
		if isConf {
			confirmed++
			coord.add(Ev{Op: "confirm", Key: r, Dep: k})
		} else {
			unconfirmed++
			coord.add(Ev{Op: "unconfirmed", Key: r, Dep: k})
		}
		// late-comers start now, spread over the chain
		for g := k + 1; g < ng; g++ {
			wg.Add(1)
			late++
			delay := time.Duration(rng.Intn(1+sc.HoldUsMax*k/2)) * time.Microsecond
			go func(g int) {
				time.Sleep(delay)
				waiter(g)
			}(g)
		}
		hold(rng, sc.HoldUsMax)
		e.logs[0].add(Ev{Op: "rel-call", Key: r, Prio: int(prios[0]), Hold: -1})
		rr, err = hl.Unlock()
		ok, rs, es = resOf(rr, err)
		e.logs[0].add(Ev{Op: "rel-ret", Key: r, OK: ok, Res: rs, Err: es})
		wg.Wait()
		// monitor this round
		var rl []*glog
		for g := 0; g < ng; g++ {
			rl = append(rl, &glog{g: g, evs: e.logs[g].evs[marks[g]:]})
		}
		rl = append(rl, &glog{g: ng, evs: coord.evs[start:]})
		evs := merge(rl)
		res.Events += len(evs)
		mx, _, v1 := monitorHolds(sc, evs, 1)
		if mx > maxc {
			maxc = mx
		}
		viols = append(viols, v1...)
		v2, n := monitorPriority(sc, evs)
		grantsChecked += n
		viols = append(viols, v2...)
		if len(viols) > 6 {
			break
		}
	}
	res.MaxConcurrency, res.Limit = maxc, 1
	res.Extra["rounds"], res.Extra["rounds_confirmed"], res.Extra["rounds_unconfirmed"] = rounds, confirmed, unconfirmed
	res.Extra["grants_checked_against_waiting_max"], res.Extra["late_comers"] = grantsChecked, late
	return viols
}

func monitorPriority(sc Scenario, evs []Ev) ([]Violation, int) {
	var viols []Violation
	calling := map[int]int{} // g -> prio, Lock called and not returned
	var confirmed map[int]int
	checked := 0
	for _, ev := range evs {
		switch ev.Op {
		case "acq-call":
			calling[ev.G] = ev.Prio
		case "confirm":
			confirmed = map[int]int{}
			for g, p := range calling {
				confirmed[g] = p
			}
		case "acq-ret":
			delete(calling, ev.G)
			if confirmed == nil {
				continue
			}
			_, was := confirmed[ev.G]
			delete(confirmed, ev.G)
			if !ev.OK {
				continue
			}
			mx, mg := -1, -1
			for g, p := range confirmed {
				if p > mx {
					mx, mg = p, g
				}
			}
			if len(confirmed) >= 1 {
				checked++
			}
			if mx > ev.Prio {
				gs := map[int]bool{ev.G: true, mg: true}
				var ex []Ev
				for _, x := range evs {
					if gs[x.G] || x.Op == "confirm" || (x.Op == "acq-ret" && x.OK) || x.Op == "rel-call" {
						if x.Seq <= ev.Seq+1 {
							ex = append(ex, x)
						}
					}
				}
				if len(ex) > 150 {
					ex = ex[len(ex)-150:]
				}
				if len(viols) < 2 {
					kind := "order" // the grantee was itself queued behind a higher priority: queue order is wrong
					if !was {
						kind = "barging" // the grantee arrived after the confirmation (late-comer) and overtook the queue
					}
					viols = append(viols, Violation{Scenario: sc.ID, Sig: "monitor:priority:handover-" + kind,
						What: fmt.Sprintf("prioritylock: grant went to priority %d (goroutine %d, queued-confirmed=%v) while goroutine %d with priority %d was confirmed waiting",
							ev.Prio, ev.G, was, mg, mx), Excerpt: ex, Params: sc})
				}
			}
		}
	}
	return viols, checked
}

// ---------------------------------------------------------------- Event

// Controller goroutine(s) toggle the event (Set / Clear, seeded gaps); waiter goroutines call Wait in a loop, each
// with its own Event object on the shared key. Monitor: a Wait that returned ok must not lie entirely inside a
// definitely-clear period: there is a Clear C that returned before the Wait was called such that every Set either
// returned before C was called or was called after the Wait returned. (default-clear events start with a virtual
// Clear at time 0; for default-set events the cleared state is a hold with an expiry, so only waits returning
// within expried-1.5 s of C's call are judged.)
func runEvent(e *env, res *ScenResult) []Violation {
	sc := e.sc
	key := e.keys[0]
	to, ex := uint32(sc.Timeout), uint32(sc.Expried)
	nctl := 1
	if sc.Goroutines >= 8 {
		nctl = 2
	}
	var wg sync.WaitGroup
	for g := 0; g < sc.Goroutines; g++ {
		wg.Add(1)
		go func(g int) {
			defer wg.Done()
			rng := rand.New(rand.NewSource(sc.Seed*1000003 + int64(g)))
			log := e.logs[g]
			evobj := e.cl(g).Event(key, to, ex, sc.DefaultSet)
			if g < nctl { // controller
				for !e.done() {
					op := "clear"
					if rng.Intn(2) == 0 {
						op = "set"
					}
					log.add(Ev{Op: op + "-call"})
					var r *protocol.LockResultCommand
					var err error
					if op == "set" {
						r, err = evobj.Set()
					} else {
						r, err = evobj.Clear()
					}
					ok, rs, es := resOf(r, err)
					log.add(Ev{Op: op + "-ret", OK: ok, Res: rs, Err: es})
					if !ok {
						e.noteErr(rs, op+":"+errClass(rs, es))
					}
					hold(rng, sc.HoldUsMax*4)
				}
				// leave the event set so that waiters drain
				log.add(Ev{Op: "set-call"})
				r, err := evobj.Set()
				ok, rs, es := resOf(r, err)
				log.add(Ev{Op: "set-ret", OK: ok, Res: rs, Err: es})
				return
			}
			for !e.done() {
				atomic.AddInt64(&e.att, 1)
				wt := uint32(1)
				log.add(Ev{Op: "wait-call"})
				r, err := evobj.Wait(wt)
				ok, rs, es := resOf(r, err)
				log.add(Ev{Op: "wait-ret", OK: ok, Res: rs, Err: es})
				if ok {
					atomic.AddInt64(&e.ok, 1)
				} else {
					e.noteErr(rs, es)
					if es != "" && es != "result" && es != "timeout" {
						time.Sleep(20 * time.Millisecond)
					}
				}
				hold(rng, sc.HoldUsMax)
			}
		}(g)
	}
	time.Sleep(time.Duration(sc.DurationMs) * time.Millisecond)
	atomic.StoreInt32(&e.stop, 1)
	wg.Wait()
	evs := merge(e.logs)
	res.Events = len(evs)
	viols, st := monitorEvent(sc, evs)
	for k, v := range st {
		res.Extra[k] = v
	}
	return viols
}

func monitorEvent(sc Scenario, evs []Ev) ([]Violation, map[string]interface{}) {
	type op struct {
		call, ret Ev
		done      bool
	}
	var sets, clears, waits []*op
	openOp := map[string]*op{}
	for _, ev := range evs {
		var kind string
		switch ev.Op {
		case "set-call", "clear-call", "wait-call":
			kind = ev.Op[:len(ev.Op)-5]
			o := &op{call: ev}
			openOp[fmt.Sprint(ev.G, kind)] = o
			switch kind {
			case "set":
				sets = append(sets, o)
			case "clear":
				clears = append(clears, o)
			default:
				waits = append(waits, o)
			}
		case "set-ret", "clear-ret", "wait-ret":
			kind = ev.Op[:len(ev.Op)-4]
			if o := openOp[fmt.Sprint(ev.G, kind)]; o != nil {
				o.ret, o.done = ev, true
			}
		}
	}
	if !sc.DefaultSet {
		clears = append([]*op{{call: Ev{Seq: 0, T: 0}, ret: Ev{Seq: 0, T: 0, OK: true}, done: true}}, clears...)
	}
	inf := int64(1) << 62
	var viols []Violation
	okWaits, judged := 0, 0
	// sets in call order with the running maximum of their return stamps (a Set that never returned counts as infinite)
	setCall := make([]int64, len(sets))
	setMaxRet := make([]int64, len(sets))
	run := int64(-1)
	for i, s := range sets {
		setCall[i] = s.call.Seq
		r := inf
		if s.done {
			r = s.ret.Seq
		}
		if r > run {
			run = r
		}
		setMaxRet[i] = run
	}
	// successful clears in call order with the suffix minimum of their return stamps
	var cl []*op
	for _, c := range clears {
		if c.done && c.ret.OK {
			cl = append(cl, c)
		}
	}
	sufMin := make([]int64, len(cl)+1)
	sufArg := make([]int, len(cl)+1)
	sufMin[len(cl)], sufArg[len(cl)] = inf, -1
	for i := len(cl) - 1; i >= 0; i-- {
		sufMin[i], sufArg[i] = sufMin[i+1], sufArg[i+1]
		if cl[i].ret.Seq < sufMin[i] {
			sufMin[i], sufArg[i] = cl[i].ret.Seq, i
		}
	}
	maxAge := int64(sc.Expried)*1e9 - 15e8
	for _, w := range waits {
		if !w.done || !w.ret.OK {
			continue
		}
		okWaits++
		// M = latest return of any Set that was called before the Wait returned
		k := sort.Search(len(sets), func(i int) bool { return setCall[i] > w.ret.Seq })
		m := int64(-1)
		if k > 0 {
			m = setMaxRet[k-1]
		}
		// a Clear called after M (so every such Set had returned before it) ...
		lo := sort.Search(len(cl), func(i int) bool { return cl[i].call.Seq > m })
		if sc.DefaultSet {
			// ... and recent enough that the cleared state (a hold with an expiry) cannot have expired
			lo2 := sort.Search(len(cl), func(i int) bool { return cl[i].call.T >= w.ret.T-maxAge })
			if lo2 > lo {
				lo = lo2
			}
		}
		// ... that returned before the Wait was called
		if lo < len(cl) && sufMin[lo] < w.call.Seq {
			c := cl[sufArg[lo]]
			judged++
			if len(viols) < 3 {
				// excerpt: the last controller operations of every controller before the Clear (wherever they are in
				// the history: an in-doubt Set matters), then all controller events and the waiter's events up to the return
				var ex []Ev
				lastCtl := map[int][]Ev{}
				for _, x := range evs {
					isCtl := x.Op[0] == 's' || x.Op[0] == 'c'
					if isCtl && x.Seq < c.call.Seq-6 {
						l := append(lastCtl[x.G], x)
						if len(l) > 6 {
							l = l[len(l)-6:]
						}
						lastCtl[x.G] = l
					}
				}
				for _, l := range lastCtl {
					ex = append(ex, l...)
				}
				sort.Slice(ex, func(i, j int) bool { return ex[i].Seq < ex[j].Seq })
				for _, x := range evs {
					isCtl := x.Op[0] == 's' || x.Op[0] == 'c'
					if (isCtl || x.G == w.call.G) && x.Seq >= c.call.Seq-6 && x.Seq <= w.ret.Seq+6 {
						ex = append(ex, x)
					}
				}
				if len(ex) > 140 {
					ex = ex[:140]
				}
				mode := "default-clear"
				if sc.DefaultSet {
					mode = "default-set"
				}
				viols = append(viols, Violation{Scenario: sc.ID, Sig: "monitor:event:wait-returned-while-clear:" + mode,
					What: fmt.Sprintf("event(default_set=%v): Wait (goroutine %d, seq %d..%d) returned ok although the event was cleared at seq %d..%d and no Set was called in between",
						sc.DefaultSet, w.call.G, w.call.Seq, w.ret.Seq, c.call.Seq, c.ret.Seq), Excerpt: ex, Params: sc})
			}
		}
	}
	return viols, map[string]interface{}{"sets": len(sets), "clears": len(clears), "waits": len(waits), "waits_ok": okWaits, "waits_in_clear_period": judged}
}
