package main

import "testing"

// Synthetic histories: the monitors must flag exactly the bad ones.

func evseq(evs []Ev) []Ev {
	for i := range evs {
		evs[i].Seq = int64(i + 1)
		evs[i].T = int64(i+1) * 1000
	}
	return evs
}

func TestMonitorHolds(t *testing.T) {
	sc := Scenario{ID: "t", Prim: "semaphore", Expried: 60}
	good := evseq([]Ev{{G: 1, Op: "acq-call"}, {G: 1, Op: "acq-ret", OK: true, Hold: 1}, {G: 2, Op: "acq-call"},
		{G: 1, Op: "rel-call", Hold: -1}, {G: 2, Op: "acq-ret", OK: true, Hold: 1}, {G: 2, Op: "rel-call", Hold: -1}})
	if _, _, v := monitorHolds(sc, good, 1); len(v) != 0 {
		t.Fatalf("false alarm: %v", v)
	}
	bad := evseq([]Ev{{G: 1, Op: "acq-call"}, {G: 1, Op: "acq-ret", OK: true, Hold: 1}, {G: 2, Op: "acq-call"},
		{G: 2, Op: "acq-ret", OK: true, Hold: 1}, {G: 1, Op: "rel-call", Hold: -1}, {G: 2, Op: "rel-call", Hold: -1}})
	if mx, _, v := monitorHolds(sc, bad, 1); len(v) != 1 || mx != 2 {
		t.Fatalf("overlap not flagged: %v", v)
	}
	if _, _, v := monitorHolds(sc, bad, 2); len(v) != 0 {
		t.Fatalf("limit 2 must accept two holders")
	}
	rw := Scenario{ID: "t", Prim: "rwlock", Expried: 60}
	rr := evseq([]Ev{{G: 1, Op: "acq-ret", Role: "r", OK: true, Hold: 1}, {G: 2, Op: "acq-ret", Role: "r", OK: true, Hold: 1},
		{G: 1, Op: "rel-call", Role: "r", Hold: -1}, {G: 2, Op: "rel-call", Role: "r", Hold: -1}, {G: 3, Op: "acq-ret", Role: "w", OK: true, Hold: 1}})
	if _, _, v := monitorHolds(rw, rr, 1); len(v) != 0 {
		t.Fatalf("readers together flagged: %v", v)
	}
	rwbad := evseq([]Ev{{G: 1, Op: "acq-ret", Role: "r", OK: true, Hold: 1}, {G: 3, Op: "acq-ret", Role: "w", OK: true, Hold: 1}})
	if _, _, v := monitorHolds(rw, rwbad, 1); len(v) != 1 {
		t.Fatalf("writer with reader not flagged")
	}
	wrbad := evseq([]Ev{{G: 3, Op: "acq-ret", Role: "w", OK: true, Hold: 1}, {G: 1, Op: "acq-ret", Role: "r", OK: true, Hold: 1}})
	if _, _, v := monitorHolds(rw, wrbad, 1); len(v) != 1 {
		t.Fatalf("reader with writer not flagged")
	}
}

func TestMonitorEvent(t *testing.T) {
	set := Scenario{ID: "t", Prim: "event", Expried: 60, DefaultSet: true}
	clr := Scenario{ID: "t", Prim: "event", Expried: 60, DefaultSet: false}
	// Clear returned, then a Wait returns ok with no Set anywhere: violation (both modes)
	h1 := evseq([]Ev{{G: 0, Op: "clear-call"}, {G: 0, Op: "clear-ret", OK: true}, {G: 5, Op: "wait-call"}, {G: 5, Op: "wait-ret", OK: true}})
	if v, _ := monitorEvent(set, h1); len(v) != 1 {
		t.Fatalf("wait after clear not flagged")
	}
	// default-clear events start cleared
	h2 := evseq([]Ev{{G: 5, Op: "wait-call"}, {G: 5, Op: "wait-ret", OK: true}})
	if v, _ := monitorEvent(clr, h2); len(v) != 1 {
		t.Fatalf("wait on never-set default-clear event not flagged")
	}
	if v, _ := monitorEvent(set, h2); len(v) != 0 {
		t.Fatalf("default-set event starts set")
	}
	// a Set called before the Wait returned (even if it has not returned) excuses the Wait
	h3 := evseq([]Ev{{G: 0, Op: "clear-call"}, {G: 0, Op: "clear-ret", OK: true}, {G: 5, Op: "wait-call"}, {G: 1, Op: "set-call"}, {G: 5, Op: "wait-ret", OK: true}})
	if v, _ := monitorEvent(set, h3); len(v) != 0 {
		t.Fatalf("false alarm with concurrent set: %v", v)
	}
	// a Set overlapping the Clear excuses too (order unknown)
	h4 := evseq([]Ev{{G: 1, Op: "set-call"}, {G: 0, Op: "clear-call"}, {G: 0, Op: "clear-ret", OK: true}, {G: 1, Op: "set-ret", OK: true}, {G: 5, Op: "wait-call"}, {G: 5, Op: "wait-ret", OK: true}})
	if v, _ := monitorEvent(set, h4); len(v) != 0 {
		t.Fatalf("false alarm with set overlapping clear: %v", v)
	}
	// Set entirely before the Clear does not excuse
	h5 := evseq([]Ev{{G: 1, Op: "set-call"}, {G: 1, Op: "set-ret", OK: true}, {G: 0, Op: "clear-call"}, {G: 0, Op: "clear-ret", OK: true}, {G: 5, Op: "wait-call"}, {G: 5, Op: "wait-ret", OK: true},
		{G: 1, Op: "set-call"}, {G: 1, Op: "set-ret", OK: true}})
	if v, _ := monitorEvent(clr, h5); len(v) != 1 {
		t.Fatalf("wait in clear period (set before and after) not flagged")
	}
	// a timed-out Wait is never judged
	h6 := evseq([]Ev{{G: 0, Op: "clear-call"}, {G: 0, Op: "clear-ret", OK: true}, {G: 5, Op: "wait-call"}, {G: 5, Op: "wait-ret", OK: false, Res: 8}})
	if v, _ := monitorEvent(set, h6); len(v) != 0 {
		t.Fatalf("timed out wait flagged")
	}
}

func TestMonitorPriority(t *testing.T) {
	sc := Scenario{ID: "t", Prim: "priority"}
	mk := func(order []int) []Ev {
		evs := []Ev{{G: 0, Op: "acq-call", Prio: 1}, {G: 0, Op: "acq-ret", OK: true, Prio: 1, Hold: 1},
			{G: 1, Op: "acq-call", Prio: 5}, {G: 2, Op: "acq-call", Prio: 9}, {G: 3, Op: "acq-call", Prio: 7}, {G: 9, Op: "confirm"},
			{G: 0, Op: "rel-call", Hold: -1}}
		pr := map[int]int{1: 5, 2: 9, 3: 7, 4: 3}
		for _, g := range order {
			if g == 4 {
				evs = append(evs, Ev{G: 4, Op: "acq-call", Prio: 3})
			}
			evs = append(evs, Ev{G: g, Op: "acq-ret", OK: true, Prio: pr[g], Hold: 1}, Ev{G: g, Op: "rel-call", Hold: -1})
		}
		return evseq(evs)
	}
	if v, n := monitorPriority(sc, mk([]int{2, 3, 1})); len(v) != 0 || n != 2 {
		t.Fatalf("descending order flagged: %v %d", v, n)
	}
	if v, _ := monitorPriority(sc, mk([]int{3, 2, 1})); len(v) != 1 || v[0].Sig != "monitor:priority:handover-order" {
		t.Fatalf("wrong order not flagged: %v", v)
	}
	if v, _ := monitorPriority(sc, mk([]int{2, 4, 3, 1})); len(v) != 1 || v[0].Sig != "monitor:priority:handover-barging" {
		t.Fatalf("late-comer barging not flagged: %v", v)
	}
}

func TestMonitorRLock(t *testing.T) {
	sc := Scenario{ID: "t", Prim: "rlock", Expried: 60}
	good := evseq([]Ev{{G: 1, Op: "acq-call", Dep: 0}, {G: 1, Op: "acq-ret", OK: true, Dep: 1, Hold: 1},
		{G: 1, Op: "acq-call", Dep: 1}, {G: 1, Op: "acq-ret", OK: true, Dep: 2},
		{G: 2, Op: "acq-call", Dep: 0}, {G: 2, Op: "acq-ret", OK: false, Res: 8, Err: "result", Dep: 0},
		{G: 1, Op: "rel-call", Dep: 2}, {G: 1, Op: "rel-ret", OK: true, Dep: 1}, {G: 1, Op: "rel-call", Dep: 1, Hold: -1}, {G: 1, Op: "rel-ret", OK: true},
		{G: 1, Op: "xrel-call"}, {G: 1, Op: "xrel-ret", OK: false, Res: 6, Err: "result"}})
	if v, ex := monitorRLock(sc, good); len(v) != 0 || ex["max_depth_reached"].(int) != 2 {
		t.Fatalf("false alarm: %v %v", v, ex)
	}
	refused := evseq([]Ev{{G: 1, Op: "acq-call", Dep: 0}, {G: 1, Op: "acq-ret", OK: true, Dep: 1, Hold: 1},
		{G: 1, Op: "acq-call", Dep: 1}, {G: 1, Op: "acq-ret", OK: false, Res: 5, Err: "result", Dep: 1}})
	if v, _ := monitorRLock(sc, refused); len(v) != 1 || v[0].Sig != "monitor:rlock:reentry-refused" {
		t.Fatalf("refused re-entry not flagged: %v", v)
	}
	extra := evseq([]Ev{{G: 1, Op: "xrel-call"}, {G: 1, Op: "xrel-ret", OK: true}})
	if v, _ := monitorRLock(sc, extra); len(v) != 1 || v[0].Sig != "monitor:rlock:extra-unlock-accepted" {
		t.Fatalf("accepted extra unlock not flagged: %v", v)
	}
	limit := evseq([]Ev{{G: 1, Op: "acq-call", Dep: 255}, {G: 1, Op: "acq-ret", OK: false, Res: 5, Err: "result", Dep: 255}})
	if v, ex := monitorRLock(sc, limit); len(v) != 0 || ex["nested_lock_refused_at"].(int) != 256 {
		t.Fatalf("depth limit mis-judged: %v %v", v, ex)
	}
}

// ---- liveness (hand-over scenarios): events carry explicit wall times in ms
func evAt(evs []Ev, ms []int64) []Ev {
	for i := range evs {
		evs[i].Seq = int64(i + 1)
		evs[i].T = ms[i] * 1e6
	}
	return evs
}

func TestMonitorLiveness(t *testing.T) {
	sc := Scenario{ID: "t", Prim: "lock", Kind: "handover", Expried: 60}
	// holder 0; short waiter 1 times out; long waiters 2,3 confirmed; release; 2 served at once, 3 after 2's release
	base := func(serve2, serve3 int64, end int64) []Ev {
		evs := []Ev{
			{G: 0, Op: "acq-call", Kind: "holder", Tmo: 20000}, {G: 0, Op: "acq-ret", Kind: "holder", OK: true, Hold: 1},
			{G: 1, Op: "acq-call", Kind: "short", Tmo: 200}, {G: 2, Op: "acq-call", Kind: "long", Tmo: 20000}, {G: 3, Op: "acq-call", Kind: "long", Tmo: 20000},
			{G: 1, Op: "acq-ret", Kind: "short", OK: false, Res: 8, Err: "result"},
			{G: 9, Op: "confirm", Dep: 2},
			{G: 0, Op: "rel-call", Kind: "holder", Hold: -1}, {G: 0, Op: "rel-ret", Kind: "holder", OK: true}}
		ts := []int64{0, 1, 2, 3, 4, 205, 210, 211, 212}
		if serve2 >= 0 {
			evs = append(evs, Ev{G: 2, Op: "acq-ret", Kind: "long", OK: true, Hold: 1}, Ev{G: 2, Op: "rel-call", Kind: "long", Hold: -1}, Ev{G: 2, Op: "rel-ret", Kind: "long", OK: true})
			ts = append(ts, serve2, serve2+1, serve2+2)
			if serve3 >= 0 {
				evs = append(evs, Ev{G: 3, Op: "acq-ret", Kind: "long", OK: true, Hold: 1}, Ev{G: 3, Op: "rel-call", Kind: "long", Hold: -1}, Ev{G: 3, Op: "rel-ret", Kind: "long", OK: true})
				ts = append(ts, serve3, serve3+1, serve3+2)
			}
		}
		evs = append(evs, Ev{G: 9, Op: "end"})
		ts = append(ts, end)
		return evAt(evs, ts)
	}
	if v, ls := monitorLiveness(sc, base(213, 217, 230), 1, 2000); len(v) != 0 || ls.served != 2 || ls.notServed != 0 {
		t.Fatalf("prompt hand-over flagged: %v %+v", v, ls)
	}
	// served, but only 1.9 s after the release: inside the bound
	if v, _ := monitorLiveness(sc, base(2100, 2104, 2200), 1, 2000); len(v) != 0 {
		t.Fatalf("hand-over inside the bound flagged: %v", v)
	}
	// nobody served: key free from 212 ms to the end at 2600 ms
	if v, ls := monitorLiveness(sc, base(-1, -1, 2600), 1, 2000); len(v) != 1 || v[0].Sig != "monitor:lock:waiter-not-served" || !v[0].Liveness || ls.notServed != 2 {
		t.Fatalf("stranded waiters not flagged: %v %+v", v, ls)
	}
	// the first waiter is served, the second is stranded after the first one's release
	if v, _ := monitorLiveness(sc, base(213, -1, 2700), 1, 2000); len(v) != 1 {
		t.Fatalf("second waiter stranded not flagged: %v", v)
	}
	// without a confirmation nothing is judged
	noconf := base(-1, -1, 2600)
	noconf[6].Op = "unconfirmed"
	if v, _ := monitorLiveness(sc, noconf, 1, 2000); len(v) != 0 {
		t.Fatalf("unconfirmed round judged: %v", v)
	}
	// the listing disagrees with the client-side picture (3 listed, 2 in flight): nothing is judged
	mism := base(-1, -1, 2600)
	mism[6].Dep = 3
	if v, _ := monitorLiveness(sc, mism, 1, 2000); len(v) != 0 {
		t.Fatalf("mismatching confirmation judged: %v", v)
	}
	// a newcomer holding the lock for 3 s is not a free key
	busy := evAt([]Ev{
		{G: 0, Op: "acq-call", Kind: "holder", Tmo: 20000}, {G: 0, Op: "acq-ret", Kind: "holder", OK: true, Hold: 1},
		{G: 2, Op: "acq-call", Kind: "long", Tmo: 20000}, {G: 9, Op: "confirm", Dep: 1},
		{G: 5, Op: "acq-call", Kind: "newcomer"}, {G: 0, Op: "rel-call", Kind: "holder", Hold: -1}, {G: 0, Op: "rel-ret", Kind: "holder", OK: true},
		{G: 5, Op: "acq-ret", Kind: "newcomer", OK: true, Hold: 1}, {G: 5, Op: "rel-call", Kind: "newcomer", Hold: -1}, {G: 5, Op: "rel-ret", Kind: "newcomer", OK: true},
		{G: 2, Op: "acq-ret", Kind: "long", OK: true, Hold: 1}, {G: 9, Op: "end"}},
		[]int64{0, 1, 2, 10, 11, 12, 13, 14, 3000, 3001, 3002, 3003})
	if v, _ := monitorLiveness(sc, busy, 1, 2000); len(v) != 0 {
		t.Fatalf("busy key judged as free: %v", v)
	}
	// a waiter whose own timeout is about to elapse is not judged (timeout 2500 ms, called at 2 ms, free from 13 ms on)
	imp := evAt([]Ev{
		{G: 0, Op: "acq-call", Kind: "holder", Tmo: 20000}, {G: 0, Op: "acq-ret", Kind: "holder", OK: true, Hold: 1},
		{G: 2, Op: "acq-call", Kind: "long", Tmo: 2500}, {G: 9, Op: "confirm", Dep: 1},
		{G: 0, Op: "rel-call", Kind: "holder", Hold: -1}, {G: 0, Op: "rel-ret", Kind: "holder", OK: true}, {G: 9, Op: "end"}},
		[]int64{0, 1, 2, 10, 12, 13, 2300})
	if v, _ := monitorLiveness(sc, imp, 1, 2000); len(v) != 0 {
		t.Fatalf("waiter close to its own timeout judged: %v", v)
	}
	// semaphore(2): one slot free for 2.5 s while a confirmed waiter waits
	sem := Scenario{ID: "t", Prim: "semaphore", Kind: "handover", N: 2, Expried: 60}
	semev := evAt([]Ev{
		{G: 0, Op: "acq-call", Kind: "holder"}, {G: 0, Op: "acq-ret", Kind: "holder", OK: true, Hold: 1},
		{G: 1, Op: "acq-call", Kind: "holder"}, {G: 1, Op: "acq-ret", Kind: "holder", OK: true, Hold: 1},
		{G: 2, Op: "acq-call", Kind: "long", Tmo: 20000}, {G: 9, Op: "confirm", Dep: 1},
		{G: 0, Op: "rel-call", Kind: "holder", Hold: -1}, {G: 0, Op: "rel-ret", Kind: "holder", OK: true}, {G: 9, Op: "end"}},
		[]int64{0, 1, 2, 3, 4, 10, 11, 12, 2600})
	if v, _ := monitorLiveness(sem, semev, 2, 2000); len(v) != 1 || v[0].Sig != "monitor:semaphore:waiter-not-served" {
		t.Fatalf("free semaphore slot with waiter not flagged: %v", v)
	}
	if v, _ := monitorLiveness(sem, semev, 1, 2000); len(v) != 0 {
		t.Fatalf("full semaphore judged available: %v", v)
	}
	// event vocabulary: Clear, two Waits, Set; one Wait never returns
	evsc := Scenario{ID: "t", Prim: "event", Kind: "handover", DefaultSet: true, Expried: 60}
	evh := func(ret3 bool) []Ev {
		evs := []Ev{{G: 0, Op: "clear-call", Kind: "holder"}, {G: 0, Op: "clear-ret", Kind: "holder", OK: true},
			{G: 2, Op: "wait-call", Kind: "long", Tmo: 20000}, {G: 3, Op: "wait-call", Kind: "long", Tmo: 20000}, {G: 9, Op: "confirm", Dep: 2},
			{G: 0, Op: "set-call", Kind: "holder", Hold: -1}, {G: 0, Op: "set-ret", Kind: "holder", OK: true},
			{G: 2, Op: "wait-ret", Kind: "long", OK: true}}
		ts := []int64{0, 1, 2, 3, 10, 11, 12, 13}
		if ret3 {
			evs = append(evs, Ev{G: 3, Op: "wait-ret", Kind: "long", OK: true})
			ts = append(ts, 14)
		}
		evs = append(evs, Ev{G: 9, Op: "end"})
		ts = append(ts, 2700)
		return evAt(evs, ts)
	}
	if v, _ := monitorLiveness(evsc, evh(true), 1, 2000); len(v) != 0 {
		t.Fatalf("event: all waits released, flagged: %v", v)
	}
	if v, _ := monitorLiveness(evsc, evh(false), 1, 2000); len(v) != 1 || v[0].Sig != "monitor:event:waiter-not-served" {
		t.Fatalf("event: a Wait not released by Set not flagged: %v", v)
	}
}

func TestConfirmLiveness(t *testing.T) {
	sc := Scenario{ID: "t", Prim: "lock", Kind: "handover"}
	alarm := Violation{Liveness: true, Sig: "monitor:lock:waiter-not-served", What: "x"}
	safety := Violation{Sig: "monitor:lock:admission", What: "y"}
	res := ScenResult{Extra: map[string]interface{}{}}
	// not reproduced: the alarm is dropped, the safety violation stays
	out := confirmLiveness(sc, &res, []Violation{alarm, safety}, func(Scenario) (ScenResult, []Violation) { return ScenResult{}, nil })
	if len(out) != 1 || out[0].Sig != safety.Sig || res.Extra["liveness_alarms_dropped_not_reproduced"] != 1 {
		t.Fatalf("unreproduced alarm kept: %v %v", out, res.Extra)
	}
	// reproduced once: reported
	n := 0
	res = ScenResult{Extra: map[string]interface{}{}}
	out = confirmLiveness(sc, &res, []Violation{alarm}, func(s2 Scenario) (ScenResult, []Violation) {
		n++
		if n == 2 {
			return ScenResult{}, []Violation{alarm}
		}
		return ScenResult{}, nil
	})
	if len(out) != 1 || !out[0].Liveness || res.Extra["liveness_alarm_reproductions"] != 1 || n != 2 {
		t.Fatalf("reproduced alarm lost: %v %v", out, res.Extra)
	}
	// no alarm: no re-run
	n = 0
	out = confirmLiveness(sc, &res, []Violation{safety}, func(Scenario) (ScenResult, []Violation) { n++; return ScenResult{}, nil })
	if len(out) != 1 || n != 0 {
		t.Fatalf("re-run without alarm")
	}
}
