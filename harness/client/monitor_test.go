package main

import "testing"

// Synthetic histories: the monitors must flag exactly the bad ones.

func evseq(evs []Ev) []Ev {
	for i := range evs {
		evs[i].Seq = int64(i + 1)
		evs[i].T = int64(i+1) * 1000
	}
	return evs
}

func TestMonitorHolds(t *testing.T) {
	sc := Scenario{ID: "t", Prim: "semaphore", Expried: 60}
	good := evseq([]Ev{{G: 1, Op: "acq-call"}, {G: 1, Op: "acq-ret", OK: true, Hold: 1}, {G: 2, Op: "acq-call"},
		{G: 1, Op: "rel-call", Hold: -1}, {G: 2, Op: "acq-ret", OK: true, Hold: 1}, {G: 2, Op: "rel-call", Hold: -1}})
	if _, _, v := monitorHolds(sc, good, 1); len(v) != 0 {
		t.Fatalf("false alarm: %v", v)
	}
	bad := evseq([]Ev{{G: 1, Op: "acq-call"}, {G: 1, Op: "acq-ret", OK: true, Hold: 1}, {G: 2, Op: "acq-call"},
		{G: 2, Op: "acq-ret", OK: true, Hold: 1}, {G: 1, Op: "rel-call", Hold: -1}, {G: 2, Op: "rel-call", Hold: -1}})
	if mx, _, v := monitorHolds(sc, bad, 1); len(v) != 1 || mx != 2 {
		t.Fatalf("overlap not flagged: %v", v)
	}
	if _, _, v := monitorHolds(sc, bad, 2); len(v) != 0 {
		t.Fatalf("limit 2 must accept two holders")
	}
	rw := Scenario{ID: "t", Prim: "rwlock", Expried: 60}
	rr := evseq([]Ev{{G: 1, Op: "acq-ret", Role: "r", OK: true, Hold: 1}, {G: 2, Op: "acq-ret", Role: "r", OK: true, Hold: 1},
		{G: 1, Op: "rel-call", Role: "r", Hold: -1}, {G: 2, Op: "rel-call", Role: "r", Hold: -1}, {G: 3, Op: "acq-ret", Role: "w", OK: true, Hold: 1}})
	if _, _, v := monitorHolds(rw, rr, 1); len(v) != 0 {
		t.Fatalf("readers together flagged: %v", v)
	}
	rwbad := evseq([]Ev{{G: 1, Op: "acq-ret", Role: "r", OK: true, Hold: 1}, {G: 3, Op: "acq-ret", Role: "w", OK: true, Hold: 1}})
	if _, _, v := monitorHolds(rw, rwbad, 1); len(v) != 1 {
		t.Fatalf("writer with reader not flagged")
	}
	wrbad := evseq([]Ev{{G: 3, Op: "acq-ret", Role: "w", OK: true, Hold: 1}, {G: 1, Op: "acq-ret", Role: "r", OK: true, Hold: 1}})
	if _, _, v := monitorHolds(rw, wrbad, 1); len(v) != 1 {
		t.Fatalf("reader with writer not flagged")
	}
}

func TestMonitorEvent(t *testing.T) {
	set := Scenario{ID: "t", Prim: "event", Expried: 60, DefaultSet: true}
	clr := Scenario{ID: "t", Prim: "event", Expried: 60, DefaultSet: false}
	// Clear returned, then a Wait returns ok with no Set anywhere: violation (both modes)
	h1 := evseq([]Ev{{G: 0, Op: "clear-call"}, {G: 0, Op: "clear-ret", OK: true}, {G: 5, Op: "wait-call"}, {G: 5, Op: "wait-ret", OK: true}})
	if v, _ := monitorEvent(set, h1); len(v) != 1 {
		t.Fatalf("wait after clear not flagged")
	}
	// default-clear events start cleared
	h2 := evseq([]Ev{{G: 5, Op: "wait-call"}, {G: 5, Op: "wait-ret", OK: true}})
	if v, _ := monitorEvent(clr, h2); len(v) != 1 {
		t.Fatalf("wait on never-set default-clear event not flagged")
	}
	if v, _ := monitorEvent(set, h2); len(v) != 0 {
		t.Fatalf("default-set event starts set")
	}
	// a Set called before the Wait returned (even if it has not returned) excuses the Wait
	h3 := evseq([]Ev{{G: 0, Op: "clear-call"}, {G: 0, Op: "clear-ret", OK: true}, {G: 5, Op: "wait-call"}, {G: 1, Op: "set-call"}, {G: 5, Op: "wait-ret", OK: true}})
	if v, _ := monitorEvent(set, h3); len(v) != 0 {
		t.Fatalf("false alarm with concurrent set: %v", v)
	}
	// a Set overlapping the Clear excuses too (order unknown)
	h4 := evseq([]Ev{{G: 1, Op: "set-call"}, {G: 0, Op: "clear-call"}, {G: 0, Op: "clear-ret", OK: true}, {G: 1, Op: "set-ret", OK: true}, {G: 5, Op: "wait-call"}, {G: 5, Op: "wait-ret", OK: true}})
	if v, _ := monitorEvent(set, h4); len(v) != 0 {
		t.Fatalf("false alarm with set overlapping clear: %v", v)
	}
	// Set entirely before the Clear does not excuse
	h5 := evseq([]Ev{{G: 1, Op: "set-call"}, {G: 1, Op: "set-ret", OK: true}, {G: 0, Op: "clear-call"}, {G: 0, Op: "clear-ret", OK: true}, {G: 5, Op: "wait-call"}, {G: 5, Op: "wait-ret", OK: true},
		{G: 1, Op: "set-call"}, {G: 1, Op: "set-ret", OK: true}})
	if v, _ := monitorEvent(clr, h5); len(v) != 1 {
		t.Fatalf("wait in clear period (set before and after) not flagged")
	}
	// a timed-out Wait is never judged
	h6 := evseq([]Ev{{G: 0, Op: "clear-call"}, {G: 0, Op: "clear-ret", OK: true}, {G: 5, Op: "wait-call"}, {G: 5, Op: "wait-ret", OK: false, Res: 8}})
	if v, _ := monitorEvent(set, h6); len(v) != 0 {
		t.Fatalf("timed out wait flagged")
	}
}

func TestMonitorPriority(t *testing.T) {
	sc := Scenario{ID: "t", Prim: "priority"}
	mk := func(order []int) []Ev {
		evs := []Ev{{G: 0, Op: "acq-call", Prio: 1}, {G: 0, Op: "acq-ret", OK: true, Prio: 1, Hold: 1},
			{G: 1, Op: "acq-call", Prio: 5}, {G: 2, Op: "acq-call", Prio: 9}, {G: 3, Op: "acq-call", Prio: 7}, {G: 9, Op: "confirm"},
			{G: 0, Op: "rel-call", Hold: -1}}
		pr := map[int]int{1: 5, 2: 9, 3: 7, 4: 3}
		for _, g := range order {
			if g == 4 {
				evs = append(evs, Ev{G: 4, Op: "acq-call", Prio: 3})
			}
			evs = append(evs, Ev{G: g, Op: "acq-ret", OK: true, Prio: pr[g], Hold: 1}, Ev{G: g, Op: "rel-call", Hold: -1})
		}
		return evseq(evs)
	}
	if v, n := monitorPriority(sc, mk([]int{2, 3, 1})); len(v) != 0 || n != 2 {
		t.Fatalf("descending order flagged: %v %d", v, n)
	}
	if v, _ := monitorPriority(sc, mk([]int{3, 2, 1})); len(v) != 1 || v[0].Sig != "monitor:priority:handover-order" {
		t.Fatalf("wrong order not flagged: %v", v)
	}
	if v, _ := monitorPriority(sc, mk([]int{2, 4, 3, 1})); len(v) != 1 || v[0].Sig != "monitor:priority:handover-barging" {
		t.Fatalf("late-comer barging not flagged: %v", v)
	}
}

func TestMonitorRLock(t *testing.T) {
	sc := Scenario{ID: "t", Prim: "rlock", Expried: 60}
	good := evseq([]Ev{{G: 1, Op: "acq-call", Dep: 0}, {G: 1, Op: "acq-ret", OK: true, Dep: 1, Hold: 1},
		{G: 1, Op: "acq-call", Dep: 1}, {G: 1, Op: "acq-ret", OK: true, Dep: 2},
		{G: 2, Op: "acq-call", Dep: 0}, {G: 2, Op: "acq-ret", OK: false, Res: 8, Err: "result", Dep: 0},
		{G: 1, Op: "rel-call", Dep: 2}, {G: 1, Op: "rel-ret", OK: true, Dep: 1}, {G: 1, Op: "rel-call", Dep: 1, Hold: -1}, {G: 1, Op: "rel-ret", OK: true},
		{G: 1, Op: "xrel-call"}, {G: 1, Op: "xrel-ret", OK: false, Res: 6, Err: "result"}})
	if v, ex := monitorRLock(sc, good); len(v) != 0 || ex["max_depth_reached"].(int) != 2 {
		t.Fatalf("false alarm: %v %v", v, ex)
	}
	refused := evseq([]Ev{{G: 1, Op: "acq-call", Dep: 0}, {G: 1, Op: "acq-ret", OK: true, Dep: 1, Hold: 1},
		{G: 1, Op: "acq-call", Dep: 1}, {G: 1, Op: "acq-ret", OK: false, Res: 5, Err: "result", Dep: 1}})
	if v, _ := monitorRLock(sc, refused); len(v) != 1 || v[0].Sig != "monitor:rlock:reentry-refused" {
		t.Fatalf("refused re-entry not flagged: %v", v)
	}
	extra := evseq([]Ev{{G: 1, Op: "xrel-call"}, {G: 1, Op: "xrel-ret", OK: true}})
	if v, _ := monitorRLock(sc, extra); len(v) != 1 || v[0].Sig != "monitor:rlock:extra-unlock-accepted" {
		t.Fatalf("accepted extra unlock not flagged: %v", v)
	}
	limit := evseq([]Ev{{G: 1, Op: "acq-call", Dep: 255}, {G: 1, Op: "acq-ret", OK: false, Res: 5, Err: "result", Dep: 255}})
	if v, ex := monitorRLock(sc, limit); len(v) != 0 || ex["nested_lock_refused_at"].(int) != 256 {
		t.Fatalf("depth limit mis-judged: %v %v", v, ex)
	}
}
