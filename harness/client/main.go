// c19run — runtime check for property C19 (client-library primitives over TCP).
//
// Starts a REAL slock server (child process built from the checked tree's main.go) on a loopback port,
// optionally a second one as follower (--slaveof) and an in-process TCP proxy used to cut connections,
// drives the packaged client primitives (package github.com/snower/slock/client) from many goroutines and
// checks the recorded client-side history with the property's monitors.
//
// The goroutine schedules are whatever the Go runtime and the kernel produce; only the parameters
// (goroutine counts, n, hold times, keys, priorities, cut times) are derived from the seed.
package main

import (
	"encoding/json"
	"flag"
	"fmt"
	"net"
	"os"
	"os/exec"
	"path/filepath"
	"sort"
	"sync"
	"sync/atomic"
	"syscall"
	"time"
)

// ---------------------------------------------------------------- configuration / results

type Scenario struct {
	ID         string `json:"id"`
	Prim       string `json:"prim"` // lock rlock semaphore flow rwlock priority event
	Goroutines int    `json:"goroutines"`
	Conns      int    `json:"conns"`
	N          int    `json:"n"`
	Keys       int    `json:"keys"`
	DurationMs int    `json:"duration_ms"`
	HoldUsMax  int    `json:"hold_us_max"`
	Via        string `json:"via"`   // leader | follower
	Proxy      bool   `json:"proxy"` // connect through the cutting proxy
	Cuts       int    `json:"cuts"`  // number of connection cuts during the scenario (needs proxy)
	Seed       int64  `json:"seed"`
	Expried    int    `json:"expried"` // seconds
	Timeout    int    `json:"timeout"` // seconds
	DefaultSet bool   `json:"default_set"`
	Rounds     int    `json:"rounds"` // priority: number of rounds
	Late       bool   `json:"late"`   // priority: late-comers join during the hand-over chain
	SharedObj  bool   `json:"shared_obj"`
	// kind "handover" (scenario_handover.go): rounds in which the primitive is full, waiters with SHORT and long acquire
	// timeouts queue, the short ones time out (Lock: some are cancelled) while the others keep waiting, then the holders
	// release / the event is set, with timeout-0 newcomers racing the hand-over
	Kind    string `json:"kind,omitempty"`
	ShortMs int    `json:"short_ms,omitempty"` // short acquire timeout in ms (millisecond flag); 0 = one second (second wheel)
	BoundMs int    `json:"bound_ms,omitempty"` // a confirmed waiter must be served within this delay once the primitive is available
	Cancel  bool   `json:"cancel,omitempty"`   // lock: some queued waiters are cancelled (Lock.CancelWait) instead of timing out
}

type Config struct {
	Seed      int64      `json:"seed"`
	ServerBin string     `json:"server_bin"`
	PortLo    int        `json:"port_lo"`
	PortHi    int        `json:"port_hi"`
	Scratch   string     `json:"scratch"`
	Follower  bool       `json:"follower"`
	Scenarios []Scenario `json:"scenarios"`
}

type Ev struct {
	Seq  int64  `json:"s"`
	T    int64  `json:"t_ns"`
	G    int    `json:"g"`
	Op   string `json:"op"`
	Role string `json:"role,omitempty"`
	Key  int    `json:"k"`
	Obj  int    `json:"obj,omitempty"`
	OK   bool   `json:"ok"`
	Res  int    `json:"res"`
	Err  string `json:"err,omitempty"`
	Prio int    `json:"prio,omitempty"`
	Dep  int    `json:"depth,omitempty"`
	Hold int    `json:"hold,omitempty"`   // +1: a definite hold starts here, -1: it ends here
	Kind string `json:"kind,omitempty"`   // handover scenarios: holder | short | long | cancel | newcomer | probe
	Tmo  int64  `json:"tmo_ms,omitempty"` // handover scenarios: the acquire timeout of this call in ms
}

type Violation struct {
	Liveness bool     `json:"liveness,omitempty"` // real-time alarm (re-run before it is reported)
	Scenario string   `json:"scenario"`
	Sig      string   `json:"sig"`
	What     string   `json:"what"`
	Excerpt  []Ev     `json:"history_excerpt"`
	Params   Scenario `json:"params"`
}

type ScenResult struct {
	ID             string                 `json:"id"`
	Prim           string                 `json:"prim"`
	Via            string                 `json:"via"`
	Proxy          bool                   `json:"proxy"`
	Goroutines     int                    `json:"goroutines"`
	Conns          int                    `json:"conns"`
	N              int                    `json:"n"`
	Keys           int                    `json:"keys"`
	Attempts       int                    `json:"attempts"`
	Acquisitions   int                    `json:"acquisitions"`
	Errors         map[string]int         `json:"errors"`
	MaxConcurrency int                    `json:"max_concurrency"`
	Limit          int                    `json:"limit"`
	Violations     int                    `json:"violations"`
	StaleDiscarded int                    `json:"stale_discarded"`
	Events         int                    `json:"events"`
	WallMs         int64                  `json:"wall_ms"`
	Extra          map[string]interface{} `json:"extra,omitempty"`
	Skipped        string                 `json:"skipped,omitempty"`
}

type Output struct {
	Results       []ScenResult      `json:"results"`
	Violations    []Violation       `json:"violations"`
	Ports         map[string]int    `json:"ports"`
	Follower      string            `json:"follower"` // "", "ok", or why it is not available
	Fatal         string            `json:"fatal,omitempty"`
	ServerLogTail map[string]string `json:"server_log_tail,omitempty"`
}

// ---------------------------------------------------------------- history

var clock int64
var epoch = time.Now()

type glog struct {
	g   int
	evs []Ev
	mu  sync.Mutex // uncontended except when a round is judged while a stranded actor is still blocked in a call
}

func (l *glog) add(e Ev) Ev {
	e.G = l.g
	e.T = int64(time.Since(epoch))
	l.mu.Lock()
	e.Seq = atomic.AddInt64(&clock, 1)
	l.evs = append(l.evs, e)
	l.mu.Unlock()
	return e
}

// snapshot returns a copy of the events from index `from` on
func (l *glog) snapshot(from int) []Ev {
	l.mu.Lock()
	defer l.mu.Unlock()
	if from > len(l.evs) {
		from = len(l.evs)
	}
	return append([]Ev(nil), l.evs[from:]...)
}

func merge(logs []*glog) []Ev {
	var all []Ev
	for _, l := range logs {
		all = append(all, l.evs...)
	}
	sort.Slice(all, func(i, j int) bool { return all[i].Seq < all[j].Seq })
	return all
}

// ---------------------------------------------------------------- child servers

type child struct {
	cmd    *exec.Cmd
	port   int
	log    string
	exited chan struct{} // closed when the process has been reaped
}

func freePort(lo, hi int, taken map[int]bool) (int, error) {
	for p := lo; p <= hi; p++ {
		if taken[p] {
			continue
		}
		ln, err := net.Listen("tcp", fmt.Sprintf("127.0.0.1:%d", p))
		if err != nil {
			continue
		}
		ln.Close()
		taken[p] = true
		return p, nil
	}
	return 0, fmt.Errorf("no free loopback port in %d..%d", lo, hi)
}

func startServer(bin, dir string, port int, slaveof string) (*child, error) {
	if err := os.MkdirAll(filepath.Join(dir, "data"), 0o755); err != nil {
		return nil, err
	}
	logf := filepath.Join(dir, "server.log")
	args := []string{"--bind", "127.0.0.1", "--port", fmt.Sprint(port), "--data_dir", filepath.Join(dir, "data"),
		"--log", logf, "--db_fast_key_count", "64"} // few fast slots: the keys of concurrent scenarios collide, so slow-path key managers are exercised
	if slaveof != "" {
		args = append(args, "--slaveof", slaveof)
	}
	cmd := exec.Command(bin, args...)
	cmd.Dir = dir
	out, _ := os.Create(filepath.Join(dir, "stdout.log"))
	cmd.Stdout, cmd.Stderr = out, out
	cmd.SysProcAttr = &syscall.SysProcAttr{Pdeathsig: syscall.SIGKILL}
	if err := cmd.Start(); err != nil {
		return nil, err
	}
	c := &child{cmd: cmd, port: port, log: logf}
	// reap the child so that an early exit (e.g. the port was grabbed by a concurrent check between the probe and the
	// bind) is noticed instead of mistaking the other process's listener for our server; sets cmd.ProcessState
	exited := make(chan struct{})
	c.exited = exited
	go func() { _ = cmd.Wait(); close(exited) }()
	deadline := time.Now().Add(20 * time.Second)
	for time.Now().Before(deadline) {
		select {
		case <-exited:
			return nil, fmt.Errorf("server on port %d exited during start-up (see %s)", port, logf)
		default:
		}
		conn, err := net.DialTimeout("tcp", fmt.Sprintf("127.0.0.1:%d", port), 200*time.Millisecond)
		if err == nil {
			conn.Close()
			select {
			case <-exited:
				return nil, fmt.Errorf("server on port %d exited during start-up, the port is served by another process (see %s)", port, logf)
			case <-time.After(150 * time.Millisecond):
			}
			return c, nil
		}
		time.Sleep(50 * time.Millisecond)
	}
	c.stop()
	return nil, fmt.Errorf("server on port %d did not start listening (see %s)", port, logf)
}

func (c *child) stop() {
	if c == nil || c.cmd == nil || c.cmd.Process == nil {
		return
	}
	_ = c.cmd.Process.Signal(syscall.SIGTERM)
	select {
	case <-c.exited:
	case <-time.After(3 * time.Second):
		_ = c.cmd.Process.Kill()
		<-c.exited
	}
}

func tail(path string, n int) string {
	b, err := os.ReadFile(path)
	if err != nil {
		return ""
	}
	if len(b) > n {
		b = b[len(b)-n:]
	}
	return string(b)
}

// ---------------------------------------------------------------- cutting proxy

type proxy struct {
	ln     net.Listener
	target string
	mu     sync.Mutex
	conns  []net.Conn
	cuts   int
}

func newProxy(port int, target string) (*proxy, error) {
	ln, err := net.Listen("tcp", fmt.Sprintf("127.0.0.1:%d", port))
	if err != nil {
		return nil, err
	}
	p := &proxy{ln: ln, target: target}
	go p.serve()
	return p, nil
}

func (p *proxy) serve() {
	for {
		c, err := p.ln.Accept()
		if err != nil {
			return
		}
		u, err := net.Dial("tcp", p.target)
		if err != nil {
			c.Close()
			continue
		}
		p.mu.Lock()
		p.conns = append(p.conns, c, u)
		p.mu.Unlock()
		go pipe(c, u)
		go pipe(u, c)
	}
}

func pipe(dst, src net.Conn) {
	buf := make([]byte, 32*1024)
	for {
		n, err := src.Read(buf)
		if n > 0 {
			if _, werr := dst.Write(buf[:n]); werr != nil {
				break
			}
		}
		if err != nil {
			break
		}
	}
	dst.Close()
	src.Close()
}

func (p *proxy) cut() {
	p.mu.Lock()
	cs := p.conns
	p.conns = nil
	p.cuts++
	p.mu.Unlock()
	for _, c := range cs {
		c.Close()
	}
}

func (p *proxy) close() {
	p.ln.Close()
	p.cut()
}

// ---------------------------------------------------------------- main

func main() {
	cfgPath := flag.String("cfg", "", "config json")
	outPath := flag.String("out", "", "output json")
	flag.Parse()
	var cfg Config
	b, err := os.ReadFile(*cfgPath)
	if err != nil {
		fmt.Fprintln(os.Stderr, err)
		os.Exit(2)
	}
	if err := json.Unmarshal(b, &cfg); err != nil {
		fmt.Fprintln(os.Stderr, err)
		os.Exit(2)
	}
	out := &Output{Ports: map[string]int{}, ServerLogTail: map[string]string{}}
	code := run(&cfg, out)
	ob, _ := json.MarshalIndent(out, "", " ")
	if *outPath != "" {
		_ = os.WriteFile(*outPath, ob, 0o644)
	} else {
		fmt.Println(string(ob))
	}
	os.Exit(code)
}

func run(cfg *Config, out *Output) int {
	taken := map[int]bool{}
	var leader, follower *child
	var proxies = map[string]*proxy{}
	defer func() {
		for _, p := range proxies {
			p.close()
		}
		if follower != nil {
			out.ServerLogTail["follower"] = tail(follower.log, 1500)
			follower.stop()
		}
		if leader != nil {
			out.ServerLogTail["leader"] = tail(leader.log, 1500)
			leader.stop()
		}
	}()
	// the port can be grabbed between the probe and the child's bind: retry a few times
	var err error
	for try := 0; try < 5 && leader == nil; try++ {
		var lp int
		lp, err = freePort(cfg.PortLo, cfg.PortHi, taken)
		if err != nil {
			break
		}
		leader, err = startServer(cfg.ServerBin, filepath.Join(cfg.Scratch, fmt.Sprintf("leader%d", try)), lp, "")
	}
	if leader == nil {
		out.Fatal = fmt.Sprintf("cannot start leader: %v", err)
		return 3
	}
	out.Ports["leader"] = leader.port
	addr := map[string]string{"leader": fmt.Sprintf("127.0.0.1:%d", leader.port)}
	if cfg.Follower {
		for try := 0; try < 3 && follower == nil; try++ {
			var fp int
			fp, err = freePort(cfg.PortLo, cfg.PortHi, taken)
			if err != nil {
				break
			}
			follower, err = startServer(cfg.ServerBin, filepath.Join(cfg.Scratch, fmt.Sprintf("follower%d", try)), fp, addr["leader"])
		}
		if follower == nil {
			out.Follower = fmt.Sprintf("cannot start follower: %v", err)
		} else {
			out.Ports["follower"] = follower.port
			addr["follower"] = fmt.Sprintf("127.0.0.1:%d", follower.port)
			if why := waitFollowerReady(addr["follower"]); why != "" {
				out.Follower = why
			} else {
				out.Follower = "ok"
			}
		}
	}
	for _, via := range []string{"leader", "follower"} {
		if a, ok := addr[via]; ok {
			pp, err := freePort(cfg.PortLo, cfg.PortHi, taken)
			if err == nil {
				p, err := newProxy(pp, a)
				if err == nil {
					proxies[via] = p
					out.Ports["proxy-"+via] = pp
				}
			}
		}
	}
	for _, sc := range cfg.Scenarios {
		if sc.Via == "" {
			sc.Via = "leader"
		}
		if sc.Via == "follower" && out.Follower != "ok" {
			out.Results = append(out.Results, ScenResult{ID: sc.ID, Prim: sc.Prim, Via: sc.Via, Skipped: "follower unavailable: " + out.Follower})
			continue
		}
		target := addr[sc.Via]
		var px *proxy
		if sc.Proxy {
			px = proxies[sc.Via]
			if px == nil {
				out.Results = append(out.Results, ScenResult{ID: sc.ID, Prim: sc.Prim, Via: sc.Via, Skipped: "no proxy port"})
				continue
			}
			target = px.ln.Addr().String()
		}
		fmt.Fprintf(os.Stderr, "[c19run %s] scenario %s prim=%s g=%d conns=%d via=%s proxy=%v\n", time.Now().Format("15:04:05"), sc.ID, sc.Prim, sc.Goroutines, sc.Conns, sc.Via, sc.Proxy)
		res, viols := runScenario(sc, target, px, addr["leader"])
		if sc.Kind == "handover" {
			// the liveness monitors use real time: a stalled machine could fake a late hand-over.  A scenario with such an
			// alarm is re-run twice (same parameters, fresh keys, 1.5x the bound) and the alarm is reported only when it
			// reproduces in at least one re-run; safety alarms (admission, order) are reported as they are.
			viols = confirmLiveness(sc, &res, viols, func(sc2 Scenario) (ScenResult, []Violation) {
				return runScenario(sc2, target, px, addr["leader"])
			})
		}
		out.Results = append(out.Results, res)
		out.Violations = append(out.Violations, viols...)
		// the servers must still be alive
		if leader.cmd.ProcessState != nil {
			out.Fatal = "leader exited during " + sc.ID
			return 3
		}
	}
	return 0
}
