//go:build verif

package server

// In-package driver for property C07 (restart recovers exactly the persisted, still-live holds); injected by
// `go build -overlay`, not part of /repo.
//
//   restarth hist <dir> <bufsize> <rewritesize> <casefile> <outage>
//       full in-process node on the (empty) data directory <dir> (slock.Init -> LoadAndInit), manual DB clocks,
//       runs the history of <casefile>, waits until the persistence queue has drained and was flushed, prints the
//       census of holds, closes the AOF.
//       Clocks: LoadAofFiles filters against the WALL clock, the engine works on db.currentTime.  The history starts at
//       T0 = (real now) - (sum of all `adv`) - <outage>, so the (manual) DB clock ends <outage> seconds before the real
//       clock: a node started afterwards in a fresh process with the real clock sees an outage of that length.
//   restarth restart <dir> <bufsize> <rewritesize> [aoftime [casefile|- [notbefore]]]
//       FRESH process (Config is a process global): node on <dir> with the real clock (DB clocks are initialised
//       from time.Now() by NewLockDB and then frozen: manual clock), prints wall clock before/after the load, the
//       clock of every DB and the census.  <notbefore>: the process first waits until the real clock has reached that
//       second (the wall clock cannot be faked: a second restart must not happen before the DB clock of the stopped run).
//       <casefile> with a `restart <outage2>` line: TWO-RESTART history; the actions after that line (phase 2) are run on
//       the restarted node with manual DB clocks continuing from the clocks printed as `dbnow`, then the node is
//       brought to a quiescent stop as in `hist` (census of the second stop, `census2-end`, files).  `hist` runs
//       only the actions before the `restart` line.

import (
	"bufio"
	"encoding/hex"
	"fmt"
	"io/ioutil"
	"os"
	"path/filepath"
	"sort"
	"strconv"
	"strings"
	"sync/atomic"
	"time"

	"github.com/jessevdk/go-flags"
	"github.com/snower/slock/protocol"
)

func vrN16(b [16]byte) uint64 {
	var v uint64
	for i := 0; i < 8; i++ {
		v |= uint64(b[i]) << (8 * uint(i))
	}
	return v
}

func vrV16(n uint64) [16]byte {
	var b [16]byte
	for i := 0; i < 8; i++ {
		b[i] = byte(n >> (8 * uint(i)))
	}
	return b
}

func vrHex(d []byte) string {
	if d == nil {
		return "-"
	}
	return "x" + hex.EncodeToString(d)
}

func vrAtoi(s string) uint64 {
	v, err := strconv.ParseUint(s, 10, 64)
	if err != nil {
		panic("bad number " + s)
	}
	return v
}

func vrB(b bool) int {
	if b {
		return 1
	}
	return 0
}

func vrStartNode(dir string, bufSize int, rewriteSize int, aofTime int, dump *bufio.Writer) (*SLock, error) {
	cfg := &ServerConfig{}
	_, err := flags.NewParser(cfg, flags.Default).ParseArgs([]string{})
	if err != nil {
		panic(err)
	}
	cfg.DataDir = dir
	cfg.DBConcurrent = 1
	cfg.DBFastKeyCount = 64
	cfg.AofFileBufferSize = uint(bufSize)
	if rewriteSize > 0 {
		cfg.AofFileRewriteSize = uint(rewriteSize)
	}
	if aofTime >= 0 {
		cfg.DBLockAofTime = uint(aofTime)
	}
	cfg.Log = filepath.Join(filepath.Dir(dir), filepath.Base(dir)+".log")
	cfg.LogLevel = "INFO"
	logger, lerr := InitLogger(cfg)
	if lerr != nil {
		panic(lerr)
	}
	VerifManualClock = true
	slock := NewSLock(cfg, logger)
	if dump != nil {
		vrDumpDisk(slock, dir, dump)
	}
	err = slock.Init(NewServer(slock))
	return slock, err
}

// the records on disk in load order (rewrite file, then the append files), read with the real reader, nothing skipped
func vrDumpDisk(slock *SLock, dir string, out *bufio.Writer) {
	aof := slock.aof
	dataDir, _ := filepath.Abs(dir)
	aof.dataDir = dataDir
	appendFiles, rewriteFile, err := aof.FindAofFiles()
	if err != nil {
		fmt.Fprintf(out, "disk-error %s\n", strings.ReplaceAll(err.Error(), " ", "_"))
		return
	}
	names := make([]string, 0)
	if rewriteFile != "" {
		names = append(names, rewriteFile)
	}
	names = append(names, appendFiles...)
	err, _ = aof.LoadAofFiles(names, -1, func(filename string, aofFile *AofFile, a *AofLock, firstLock bool) (bool, error) {
		islock := 0
		if a.CommandType == protocol.COMMAND_LOCK {
			islock = 1
		}
		var data []byte
		if a.AofFlag&AOF_FLAG_CONTAINS_DATA != 0 {
			data = a.data
		}
		fmt.Fprintf(out, "disk %d %d %d %d %d %d %d %d %d %d %d %d %s %s\n", a.DbId, islock, a.Flag, vrN16(a.LockId), vrN16(a.LockKey), a.AofFlag,
			a.CommandTime, a.StartTime, a.ExpriedFlag, a.ExpriedTime, a.Count, a.Rcount, vrHex(data), filename)
		return true, nil
	})
	if err != nil {
		fmt.Fprintf(out, "disk-error %s\n", strings.ReplaceAll(err.Error(), " ", "_"))
	}
	fmt.Fprintln(out, "disk-end")
}

// census of every hold of every database, sorted
func vrCensus(slock *SLock, out *bufio.Writer) {
	res := make([]string, 0)
	for dbi, db := range slock.dbs {
		if db == nil {
			continue
		}
		seen := make(map[*LockManager]bool)
		managers := make([]*LockManager, 0)
		for i := range db.fastLocks {
			m := db.fastLocks[i].manager
			if m != nil && m.refCount != 0xffffffff && !seen[m] {
				seen[m] = true
				managers = append(managers, m)
			}
		}
		db.mGlock.RLock()
		for _, m := range db.locks {
			if m != nil && m.refCount != 0xffffffff && !seen[m] {
				seen[m] = true
				managers = append(managers, m)
			}
		}
		db.mGlock.RUnlock()
		for _, m := range managers {
			m.glock.LowPriorityLock()
			if m.locked > 0 {
				val := vrHex(m.GetLockData())
				holds := make([]*Lock, 0)
				hseen := make(map[*Lock]bool)
				if m.currentLock != nil && m.currentLock.locked > 0 {
					holds = append(holds, m.currentLock)
					hseen[m.currentLock] = true
				}
				if m.locks != nil {
					for _, node := range m.locks.IterNodes() {
						for _, l := range node {
							if l != nil && l.locked > 0 && l.command != nil && !hseen[l] {
								hseen[l] = true
								holds = append(holds, l)
							}
						}
					}
				}
				for _, l := range holds {
					res = append(res, fmt.Sprintf("hold db=%d key=%020d lockid=%020d depth=%d count=%d rcount=%d deadline=%d val=%s isaof=%d start=%d eflag=%d aoftime=%d mlocked=%d",
						dbi, vrN16(m.lockKey), vrN16(l.command.LockId), l.locked, l.command.Count, l.command.Rcount, l.expriedTime, val,
						vrB(l.isAof), l.startTime, l.command.ExpriedFlag, l.aofTime, m.locked))
				}
			}
			m.glock.LowPriorityUnlock()
		}
	}
	sort.Strings(res)
	for _, h := range res {
		fmt.Fprintln(out, h)
	}
}

// WaitFlushAofChannel tests "no channel active" and "all queues empty" one after the other without a common lock, so
// it can return while a channel goroutine is still applying a record it has just pulled (observed under load).  The
// harness therefore waits until the channels were seen idle three times in a row, 2 ms apart.
func vrQuiesce(slock *SLock) {
	stable := 0
	for i := 0; i < 2000 && stable < 3; i++ {
		_ = slock.aof.WaitFlushAofChannel()
		time.Sleep(2 * time.Millisecond)
		idle := atomic.LoadUint32(&slock.aof.channelActiveCount) == 0
		slock.aof.glock.Lock()
		channels := slock.aof.channels
		slock.aof.glock.Unlock()
		for _, ch := range channels {
			ch.queueGlock.Lock()
			if ch.queueCount != 0 {
				idle = false
			}
			ch.queueGlock.Unlock()
		}
		if idle {
			stable++
		} else {
			stable = 0
		}
	}
}

func vrCensusLines(slock *SLock) []string {
	var sb strings.Builder
	w := bufio.NewWriter(&sb)
	vrCensus(slock, w)
	w.Flush()
	return strings.Split(strings.TrimSpace(sb.String()), "\n")
}

func vrListDir(dir string) string {
	ents, _ := ioutil.ReadDir(dir)
	parts := make([]string, 0)
	for _, e := range ents {
		parts = append(parts, fmt.Sprintf("%s=%d", e.Name(), e.Size()))
	}
	return strings.Join(parts, ",")
}

type vrHist struct {
	slock *SLock
	ndbs  int
	out   *bufio.Writer
	conns map[int]*MemWaiterServerProtocol
	tq    [][]*LockQueue
	eq    [][]*LockQueue
	hasMs bool
}

func (h *vrHist) conn(id int) *MemWaiterServerProtocol {
	if c, ok := h.conns[id]; ok {
		return c
	}
	c := NewMemWaiterServerProtocol(h.slock)
	cid := id
	_ = c.SetResultCallback(func(_ *MemWaiterServerProtocol, command *protocol.LockCommand, result uint8, lcount uint16, lrcount uint8, data []byte) error {
		fmt.Fprintf(h.out, "ev reply %d %d %d %d %d %d %s\n", command.DbId, cid, vrN16(command.RequestId), result, lcount, lrcount, vrHex(data))
		return nil
	})
	h.conns[id] = c
	return c
}

func (h *vrHist) settle() {
	if h.hasMs {
		time.Sleep(15 * time.Millisecond) // millisecond wheels run on real goroutines
	}
	_ = h.slock.aof.WaitFlushAofChannel()
	_ = h.slock.aof.WaitRewriteAofFiles()
}

func (h *vrHist) action(f []string) {
	switch f[0] {
	case "req":
		// req conn L|U reqid flag lockid key tflag timeout eflag expried count rcount data [db]
		conn := h.conn(int(vrAtoi(f[1])))
		c := &protocol.LockCommand{}
		c.Magic, c.Version = protocol.MAGIC, protocol.VERSION
		if f[2] == "L" {
			c.CommandType = protocol.COMMAND_LOCK
		} else {
			c.CommandType = protocol.COMMAND_UNLOCK
		}
		c.RequestId = vrV16(vrAtoi(f[3]))
		c.Flag = uint8(vrAtoi(f[4]))
		c.LockId = vrV16(vrAtoi(f[5]))
		c.LockKey = vrV16(vrAtoi(f[6]))
		c.TimeoutFlag = uint16(vrAtoi(f[7]))
		c.Timeout = uint16(vrAtoi(f[8]))
		c.ExpriedFlag = uint16(vrAtoi(f[9]))
		c.Expried = uint16(vrAtoi(f[10]))
		c.Count = uint16(vrAtoi(f[11]))
		c.Rcount = uint8(vrAtoi(f[12]))
		if f[13] != "-" {
			d, err := hex.DecodeString(f[13][1:])
			if err != nil {
				panic(err)
			}
			c.Data = protocol.NewLockCommandDataFromOriginBytes(d)
		}
		c.DbId = 0
		if len(f) > 14 {
			c.DbId = uint8(vrAtoi(f[14]))
		}
		if c.ExpriedFlag&protocol.EXPRIED_FLAG_MILLISECOND_TIME != 0 || c.TimeoutFlag&protocol.TIMEOUT_FLAG_MILLISECOND_TIME != 0 {
			h.hasMs = true
		}
		_ = conn.ProcessLockCommand(c)
	case "adv":
		k := int64(vrAtoi(f[1]))
		for i := 0; i < h.ndbs; i++ {
			h.slock.dbs[i].currentTime += k
		}
	case "sweept":
		for i := 0; i < h.ndbs; i++ {
			db := h.slock.dbs[i]
			t := db.checkTimeoutTime
			now := db.currentTime
			db.checkTimeoutTime = now + 1
			for t <= now {
				db.checkTimeTimeOut(t, now, 0, h.tq[i])
				t++
			}
		}
	case "sweepe":
		for i := 0; i < h.ndbs; i++ {
			db := h.slock.dbs[i]
			t := db.checkExpriedTime
			now := db.currentTime
			db.checkExpriedTime = now + 1
			for t <= now {
				db.checkTimeExpried(t, now, 0, h.eq[i])
				t++
			}
		}
	default:
		panic("unknown action " + f[0])
	}
}

// restarth hist <dir> <bufsize> <rewritesize> <casefile> <outage>
func vrHistMode(args []string) {
	dir := args[0]
	bufSize, rewriteSize := int(vrAtoi(args[1])), int(vrAtoi(args[2]))
	outage := int64(vrAtoi(args[4]))
	raw, err := ioutil.ReadFile(args[3])
	if err != nil {
		panic(err)
	}
	lines := make([][]string, 0)
	totalAdv := int64(0)
	aofTime, ndbs := 1, 1
	caseId := "0"
	for _, ln := range strings.Split(string(raw), "\n") {
		f := strings.Fields(ln)
		if len(f) == 0 {
			continue
		}
		if f[0] == "restart" { // two-restart history: phase 2 belongs to `restarth restart`
			break
		}
		switch f[0] {
		case "case": // case <id> <aoftime> <ndbs>
			caseId = f[1]
			aofTime, ndbs = int(vrAtoi(f[2])), int(vrAtoi(f[3]))
		case "end":
		default:
			if f[0] == "adv" {
				totalAdv += int64(vrAtoi(f[1]))
			}
			lines = append(lines, f)
		}
	}
	out := bufio.NewWriterSize(os.Stdout, 1<<20)
	defer out.Flush()
	_ = os.Chdir(filepath.Dir(dir))
	slock, ierr := vrStartNode(dir, bufSize, rewriteSize, aofTime, nil)
	if ierr != nil {
		fmt.Fprintf(out, "init err:%s\n", strings.ReplaceAll(ierr.Error(), " ", "_"))
		return
	}
	t0 := time.Now().Unix() - totalAdv - outage
	h := &vrHist{slock: slock, ndbs: ndbs, out: out, conns: map[int]*MemWaiterServerProtocol{}}
	for i := 0; i < ndbs; i++ {
		db := slock.GetOrNewDB(uint8(i))
		db.currentTime, db.checkTimeoutTime, db.checkExpriedTime = t0, t0, t0
		h.tq = append(h.tq, make([]*LockQueue, 5))
		h.eq = append(h.eq, make([]*LockQueue, 5))
	}
	fmt.Fprintf(out, "case %s\nt0 %d\n", caseId, t0)
	stopped := false
	for _, f := range lines {
		if stopped {
			break
		}
		fmt.Fprintf(out, "act %s\n", f[0])
		func() {
			defer func() {
				if r := recover(); r != nil {
					fmt.Fprintf(out, "ev panic %v\n", strings.ReplaceAll(fmt.Sprint(r), " ", "_"))
					stopped = true
				}
			}()
			h.action(f)
		}()
		if !stopped {
			h.settle()
		}
	}
	if stopped {
		fmt.Fprintln(out, "stopped")
		out.Flush()
		os.Exit(3)
	}
	if h.hasMs {
		time.Sleep(40 * time.Millisecond)
	}
	h.settle()
	vrQuiesce(slock)
	slock.aof.FlushWithLocked()
	_ = slock.aof.WaitRewriteAofFiles()
	fmt.Fprintf(out, "now-end %d wall-end %d\n", slock.dbs[0].currentTime, time.Now().Unix())
	vrCensus(slock, out)
	fmt.Fprintln(out, "census-end")
	slock.aof.Close()
	fmt.Fprintf(out, "files %s\n", vrListDir(dir))
	fmt.Fprintln(out, "end")
}

// phase 2 of a two-restart history: the lines after `restart <outage2>` of the case file
func vrPhase2(casefile string) (lines [][]string, ndbs int, found bool) {
	ndbs = 1
	if casefile == "" || casefile == "-" {
		return nil, ndbs, false
	}
	raw, err := ioutil.ReadFile(casefile)
	if err != nil {
		panic(err)
	}
	for _, ln := range strings.Split(string(raw), "\n") {
		f := strings.Fields(ln)
		if len(f) == 0 {
			continue
		}
		switch {
		case f[0] == "case":
			ndbs = int(vrAtoi(f[3]))
		case f[0] == "restart":
			found = true
		case f[0] == "end":
		case found:
			lines = append(lines, f)
		}
	}
	return lines, ndbs, found
}

// restarth restart <dir> <bufsize> <rewritesize> [aoftime [casefile|- [notbefore]]]
func vrRestartMode(args []string) {
	dir := args[0]
	bufSize, rewriteSize := int(vrAtoi(args[1])), int(vrAtoi(args[2]))
	out := bufio.NewWriterSize(os.Stdout, 1<<20)
	defer out.Flush()
	_ = os.Chdir(filepath.Dir(dir))
	casefile := ""
	if len(args) > 4 {
		casefile = args[4]
		if casefile != "-" && !filepath.IsAbs(casefile) {
			panic("case file path must be absolute")
		}
	}
	phase2, ndbs, twice := vrPhase2(casefile)
	if len(args) > 5 {
		notBefore := int64(vrAtoi(args[5]))
		for time.Now().Unix() < notBefore {
			time.Sleep(20 * time.Millisecond)
		}
	}
	// keep the wall-clock second stable across the load: start early in a second
	for {
		ns := time.Now().Nanosecond()
		if ns < 700*1000*1000 {
			break
		}
		time.Sleep(time.Duration(1000*1000*1000-ns) + 2*time.Millisecond)
	}
	wall0 := time.Now().Unix()
	aofTime := -1
	if len(args) > 3 {
		aofTime = int(vrAtoi(args[3]))
	}
	slock, ierr := vrStartNode(dir, bufSize, rewriteSize, aofTime, out)
	if ierr != nil {
		fmt.Fprintf(out, "init err:%s\n", strings.ReplaceAll(ierr.Error(), " ", "_"))
		return
	}
	// census at the moment Init returns (the node is leader and would accept requests) ...
	early := vrCensusLines(slock)
	// ... and once every loaded record has really been applied
	vrQuiesce(slock)
	wall1 := time.Now().Unix()
	fmt.Fprintf(out, "restart wall0 %d wall1 %d state %d\n", wall0, wall1, slock.state)
	late := vrCensusLines(slock)
	if strings.Join(early, "\n") != strings.Join(late, "\n") {
		fmt.Fprintf(out, "early-census-differs %d %d\n", len(early), len(late))
	}
	if twice {
		// phase 2 addresses databases 0..ndbs-1: a database without persisted records does not exist yet; it gets the
		// clock of the restart (NewLockDB would take time.Now(), possibly one second later)
		for i := 0; i < ndbs; i++ {
			if slock.dbs[i] == nil {
				db := slock.GetOrNewDB(uint8(i))
				db.currentTime, db.checkTimeoutTime, db.checkExpriedTime = wall0, wall0, wall0
			}
		}
	}
	for i, db := range slock.dbs {
		if db != nil {
			fmt.Fprintf(out, "dbnow %d %d\n", i, db.currentTime)
		}
	}
	vrCensus(slock, out)
	fmt.Fprintln(out, "census-end")
	b, _ := ioutil.ReadFile(filepath.Join(filepath.Dir(dir), filepath.Base(dir)+".log"))
	for _, line := range strings.Split(string(b), "\n") {
		if strings.Contains(line, "rror") {
			fmt.Fprintf(out, "log %s\n", strings.ReplaceAll(strings.TrimSpace(line), " ", "_"))
		}
	}
	_ = slock.aof.WaitRewriteAofFiles()
	if !twice {
		fmt.Fprintf(out, "files %s\n", vrListDir(dir))
		fmt.Fprintln(out, "end")
		return
	}
	// ---- phase 2 on the restarted leader (manual DB clocks continue from `dbnow`)
	h := &vrHist{slock: slock, ndbs: ndbs, out: out, conns: map[int]*MemWaiterServerProtocol{}}
	for i := 0; i < ndbs; i++ {
		h.tq = append(h.tq, make([]*LockQueue, 5))
		h.eq = append(h.eq, make([]*LockQueue, 5))
	}
	fmt.Fprintln(out, "phase2")
	stopped := false
	for _, f := range phase2 {
		if stopped {
			break
		}
		fmt.Fprintf(out, "act %s\n", f[0])
		func() {
			defer func() {
				if r := recover(); r != nil {
					fmt.Fprintf(out, "ev panic %v\n", strings.ReplaceAll(fmt.Sprint(r), " ", "_"))
					stopped = true
				}
			}()
			h.action(f)
		}()
		if !stopped {
			h.settle()
		}
	}
	if stopped {
		fmt.Fprintln(out, "stopped")
		out.Flush()
		os.Exit(3)
	}
	h.settle()
	vrQuiesce(slock)
	slock.aof.FlushWithLocked()
	_ = slock.aof.WaitRewriteAofFiles()
	nowMax := int64(0)
	for i := 0; i < ndbs; i++ {
		if slock.dbs[i].currentTime > nowMax {
			nowMax = slock.dbs[i].currentTime
		}
	}
	fmt.Fprintf(out, "now-end2 %d wall-end %d dbmax %d\n", slock.dbs[0].currentTime, time.Now().Unix(), nowMax)
	vrCensus(slock, out)
	fmt.Fprintln(out, "census2-end")
	slock.aof.Close()
	fmt.Fprintf(out, "files %s\n", vrListDir(dir))
	fmt.Fprintln(out, "end")
}

func VerifRestartMain() {
	if len(os.Args) < 2 {
		fmt.Println("usage: restarth hist|restart ...")
		os.Exit(2)
	}
	switch os.Args[1] {
	case "hist":
		vrHistMode(os.Args[2:])
	case "restart":
		vrRestartMode(os.Args[2:])
	default:
		fmt.Println("unknown mode")
		os.Exit(2)
	}
}
