// Harness entry point for C07: all work is done by the in-package file
// harness/restart/inj/zz_verif_restart.go injected into package server by `go build -overlay`.
package main

import "github.com/snower/slock/server"

func main() { server.VerifRestartMain() }
