package main

import (
	"os"

	"github.com/snower/slock/server"
)

func main() {
	in := os.Stdin
	if len(os.Args) > 1 {
		f, err := os.Open(os.Args[1])
		if err != nil {
			panic(err)
		}
		in = f
	}
	server.VerifConnRun(in, os.Stdout)
}
