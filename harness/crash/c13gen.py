"""Generators, serialisation and shrinking of client byte streams for property C13.

A *stream* is what one client connection sends: a list of units (structured pieces that know how to encode
themselves and how to get smaller) plus a split of the byte string into chunks (= reads on the server side:
the in-memory connection of the harness delivers exactly one chunk, or a part of one, per Read).
"""
import struct

MAGIC, VERSION = 0x56, 0x01
CAP = 1048576  # server/config.go CONTENT_DATA_MAX_LENGTH (checked against the source by checks/C13.py)

CMD_NAMES = {0: "INIT", 1: "LOCK", 2: "UNLOCK", 3: "STATE", 4: "ADMIN", 5: "PING", 6: "QUIT", 7: "CALL",
             8: "WILL_LOCK", 9: "WILL_UNLOCK", 10: "LEADER", 11: "SUBSCRIBE", 12: "PUBLISH"}
OP_NAMES = {0: "SET", 1: "UNSET", 2: "INCR", 3: "APPEND", 4: "SHIFT", 5: "EXECUTE", 6: "PIPELINE", 7: "PUSH", 8: "POP"}

# text commands registered by TextServerProtocol.FindHandler + Admin.GetHandlers (checks/C13.py verifies this list
# against the source on every run).  SHUTDOWN stops the server by design and `SLAVEOF host port` turns the node
# into a follower by design: both are generated only in forms that cannot take effect (see gen_text()).
TEXT_COMMANDS = ["SELECT", "TIMEOUT", "LOCK", "UNLOCK", "PUSH", "DEL", "SET", "APPEND", "GETSET", "SETEX", "PSETEX",
                 "SETNX", "INCR", "INCRBY", "DECR", "DECRBY", "EXISTS", "EXPIRE", "PEXPIREAT", "PEXPIRE", "PERSIST",
                 "GET", "STRLEN", "TYPE", "DUMP", "KEYS", "SCAN", "TTL", "PTTL",
                 "BGREWRITEAOF", "REWRITEAOF", "ECHO", "PING", "QUIT", "INFO", "SHOW", "CONFIG", "CLIENT",
                 "FLUSHDB", "FLUSHALL", "SLAVEOF", "REPLSET", "SHUTDOWN"]
EXCLUDED_BY_DESIGN = ["SHUTDOWN", "SLAVEOF <host> <port>", "CLIENT KILL <addr of another connection>",
                      "CONFIG SET LOG_LEVEL DEBUG"]

KEYS = [b"k1", b"k2", b"key-three", b"0123456789abcdef", b"00112233445566778899aabbccddeeff", b"a-rather-long-key-name-over-16",
        b"", b"k8"]
NUMS = [b"0", b"1", b"-1", b"2", b"5", b"10", b"255", b"256", b"3000", b"3001", b"65535", b"65536", b"65535000", b"65535001",
        b"4294967295", b"4294967296", b"9223372036854775807", b"-9223372036854775808", b"99999999999999999999", b"1e3",
        b"", b"abc", b"+5", b" 7", b"0x10", b"3.5"]
KEYWORDS = [b"EX", b"PX", b"TX", b"PTX", b"NX", b"XX", b"ACK", b"NAOF", b"LOCK_ID", b"FLAG", b"TIMEOUT", b"EXPRIED", b"COUNT",
            b"RCOUNT", b"WILL", b"SET", b"UNSET", b"INCR", b"APPEND", b"SHIFT", b"EXECUTE", b"PUSH", b"POP", b"MATCH",
            b"GET", b"LIST", b"KILL", b"DATABASES", b"WAIT", b"*", b"UNLOCK", b"LOCK", b"DB_LOCK_AOF_TIME",
            b"AOF_FILE_REWRITE_SIZE", b"LOG_LEVEL", b"ERROR", b"CONFIG", b"ADD", b"REMOVE", b"MEMBERS", b"QUIT-LEADER",
            b"WEIGHT", b"ARBITER", b"ex", b"px", b"server", b"clients", b"stats", b"keyspace", b"memory", b"cpu"]


def u16(v):
    return struct.pack("<H", v & 0xffff)


def u32(v):
    return struct.pack("<I", v & 0xffffffff)


def rbytes(rng, n):
    return bytes(rng.getrandbits(8) for _ in range(n)) if n < 4096 else rng.getrandbits(8 * n).to_bytes(n, "little")


def pick(rng, weighted):
    """weighted: list of (weight, value)"""
    tot = sum(w for w, _ in weighted)
    x = rng.random() * tot
    for w, v in weighted:
        x -= w
        if x < 0:
            return v
    return weighted[-1][1]


# ------------------------------------------------------------------------------------------------ units
class Unit:
    kind = "raw"

    def encode(self):
        raise NotImplementedError

    def smaller(self):
        """yield simpler variants of this unit (for shrinking)"""
        return []

    def label(self):
        return self.kind

    def describe(self):
        return {"kind": self.kind, "hex": self.encode()[:256].hex(), "len": len(self.encode())}


class Raw(Unit):
    kind = "raw"

    def __init__(self, data, tag="raw"):
        self.data, self.tag = bytes(data), tag

    def encode(self):
        return self.data

    def label(self):
        return self.tag

    def smaller(self):
        d = self.data
        n = len(d)
        if n <= 1:
            return
        step = n // 2
        while step >= 1:
            for i in range(0, n, step):
                if 0 < len(d[:i] + d[i + step:]):
                    yield Raw(d[:i] + d[i + step:], self.tag)
            if step == 1:
                break
            step //= 2


class Frame(Unit):
    """64-byte binary command frame (+ optional trailing bytes: data frame / call content)."""
    kind = "frame"

    def __init__(self, hdr, trail=b"", tag=None, datainfo=None):
        assert len(hdr) == 64
        self.hdr, self.trail, self.tag, self.datainfo = bytes(hdr), bytes(trail), tag, datainfo

    def encode(self):
        return self.hdr + self.trail

    def label(self):
        return self.tag or ("bin:" + CMD_NAMES.get(self.hdr[2], "UNKNOWN"))

    def smaller(self):
        h, t = self.hdr, self.trail
        # 1. shorten the trailing data while keeping its 4-byte length prefix consistent
        if len(t) >= 4:
            n = struct.unpack("<I", t[:4])[0]
            body = t[4:]
            if n == len(body) and n > 0:
                for m in sorted({0, 1, 2, 3, 6, n // 2, n - 1}):
                    if 0 <= m < n:
                        yield Frame(h, u32(m) + body[:m], self.tag)
                if n > 2:
                    # keep the 2 header bytes, drop from the middle
                    yield Frame(h, u32(2 + (n - 2) // 2) + body[:2] + body[2 + (n - 2 + 1) // 2:], self.tag)
                    for i in range(2, min(n, 200)):
                        if body[i] != 0:
                            yield Frame(h, u32(n) + body[:i] + b"\0" + body[i + 1:], self.tag)
        if len(t) > 0 and (len(t) < 4 or struct.unpack("<I", t[:4])[0] != len(t) - 4):
            yield Frame(h, t[:len(t) // 2], self.tag)
            yield Frame(h, t[:-1], self.tag)
        # 2. zero header fields (request id, lock id, key, numbers) one group at a time
        for a, b in [(3, 19), (21, 37), (37, 53), (53, 55), (55, 57), (57, 59), (59, 61), (61, 63), (63, 64), (20, 21)]:
            if any(h[a:b]):
                yield Frame(h[:a] + bytes(b - a) + h[b:], t, self.tag)
        for i in (19, 55, 56, 59, 60):
            for bit in range(8):
                if h[i] & (1 << bit) and h[i] != (1 << bit):
                    yield Frame(h[:i] + bytes([h[i] & ~(1 << bit)]) + h[i + 1:], t, self.tag)


class Text(Unit):
    """RESP array of bulk strings."""
    kind = "text"

    def __init__(self, args):
        self.args = [bytes(a) for a in args]

    def encode(self):
        out = [b"*%d\r\n" % len(self.args)]
        for a in self.args:
            out.append(b"$%d\r\n" % len(a) + a + b"\r\n")
        return b"".join(out)

    def label(self):
        return "text:" + (self.args[0][:16].decode("latin1").upper() if self.args else "<empty>")

    def smaller(self):
        a = self.args
        for i in range(len(a) - 1, 0, -1):
            yield Text(a[:i] + a[i + 1:])
        for i in range(1, len(a)):
            if len(a[i]) > 1:
                yield Text(a[:i] + [a[i][:len(a[i]) // 2]] + a[i + 1:])
                yield Text(a[:i] + [a[i][:1]] + a[i + 1:])
            if a[i] not in (b"k", b"1", b"v") and len(a[i]) >= 1:
                for rep in (b"k", b"1"):
                    yield Text(a[:i] + [rep] + a[i + 1:])


class Stream:
    def __init__(self, units, cuts=None, transport=0, idle_ms=150, origin="gen"):
        self.units, self.cuts, self.transport, self.idle_ms, self.origin = list(units), cuts, transport, idle_ms, origin

    def data(self):
        return b"".join(u.encode() for u in self.units)

    def chunks(self):
        d = self.data()
        if not self.cuts:
            return [d] if d else []
        cs = sorted({c for c in self.cuts if 0 < c < len(d)})
        res, p = [], 0
        for c in cs + [len(d)]:
            if c > p:
                res.append(d[p:c])
                p = c
        return res

    def labels(self):
        return [u.label() for u in self.units]

    def to_json(self):
        return {"transport": self.transport, "idle_ms": self.idle_ms, "chunks": [c.hex() for c in self.chunks()],
                "units": [u.label() for u in self.units], "origin": self.origin}

    @staticmethod
    def from_json(j):
        s = Stream([Raw(bytes.fromhex(c), "corpus") for c in j["chunks"]], None, j.get("transport", 0), j.get("idle_ms", 150),
                   origin="corpus")
        p, cuts = 0, []
        for c in j["chunks"]:
            p += len(c) // 2
            cuts.append(p)
        s.cuts = cuts[:-1]
        return s

    def with_units(self, units, cuts="same"):
        return Stream(units, self.cuts if cuts == "same" else cuts, self.transport, self.idle_ms, self.origin)


def write_batch(path, streams):
    with open(path, "wb") as f:
        f.write(b"C13B" + u32(1) + u32(len(streams)))
        for s in streams:
            ch = s.chunks()
            f.write(bytes([s.transport, 0, 0, 0]) + u32(s.idle_ms) + u32(len(ch)))
            for c in ch:
                f.write(u32(len(c)))
                f.write(c)


# ------------------------------------------------------------------------------------------------ binary generators
def gen_id(rng, pool):
    r = rng.random()
    if r < 0.7:
        k = rng.choice(pool)
        return (bytes(16) + k)[-16:] if len(k) <= 16 else k[:16]
    if r < 0.8:
        return bytes(16)
    if r < 0.85:
        return b"\xff" * 16
    return rbytes(rng, 16)


IDPOOL = [b"lock-id-1", b"lock-id-2", b"k1", b"k2"]


def gen_u16(rng, common):
    r = rng.random()
    if r < 0.75:
        return rng.choice(common)
    if r < 0.85:
        return rng.choice([0, 1, 0x7fff, 0x8000, 0xfffe, 0xffff, 0xff, 0x100])
    return rng.getrandbits(16)


def gen_flags16(rng):
    r = rng.random()
    if r < 0.6:
        return 0
    if r < 0.85:
        return 1 << rng.randrange(16)
    if r < 0.93:
        return (1 << rng.randrange(16)) | (1 << rng.randrange(16))
    return rng.getrandbits(16)


def lock_header(rng, ctype, flag=None, arbitrary=False):
    h = bytearray(64)
    h[0], h[1], h[2] = MAGIC, VERSION, ctype
    if arbitrary:
        h[3:64] = rbytes(rng, 61)
        if flag is not None:
            h[19] = flag
        return h
    h[3:19] = rbytes(rng, 16)
    if flag is None:
        flag = pick(rng, [(30, 0), (8, 0x02), (6, 0x01), (3, 0x08), (3, 0x10), (2, 0x04), (2, 0x03), (4, rng.getrandbits(8) & 0xdf)])
    h[19] = flag
    h[20] = pick(rng, [(70, 0), (15, 1), (3, 2), (3, 0xfe), (5, 0xff), (4, rng.getrandbits(8))])
    h[21:37] = gen_id(rng, IDPOOL)
    h[37:53] = gen_id(rng, KEYS)
    h[53:55] = u16(gen_u16(rng, [0, 0, 0, 0, 0, 1]))           # timeout
    h[55:57] = u16(gen_flags16(rng))                             # timeout flag
    h[57:59] = u16(gen_u16(rng, [0, 1, 1, 2, 5, 120]))          # expried
    h[59:61] = u16(gen_flags16(rng))                             # expried flag
    h[61:63] = u16(gen_u16(rng, [0, 0, 0, 1, 2, 0xffff]))       # count
    h[63] = pick(rng, [(70, 0), (10, 1), (10, 0xff), (10, rng.getrandbits(8))])
    return h


def gen_props(rng, consistent=True):
    props = b""
    for _ in range(rng.choice([0, 1, 1, 2, 3])):
        v = rbytes(rng, rng.choice([0, 1, 2, 5, 16]))
        ln = len(v) if (consistent or rng.random() < 0.5) else rng.choice([0, len(v) + 1, 0xffff, rng.getrandbits(16)])
        props += bytes([rng.choice([1, 1, 0, 2, 255])]) + u16(ln) + v
    return props


def gen_array_value(rng, consistent=True):
    out = b""
    for _ in range(rng.choice([0, 1, 2, 3, 5])):
        v = rbytes(rng, rng.choice([0, 1, 2, 3, 8, 20]))
        ln = len(v) if (consistent or rng.random() < 0.4) else rng.choice([0, len(v) + 1, len(v) + 100, 0xffffffff, 0x7fffffff, rng.getrandbits(32)])
        out += u32(ln) + v
    if not consistent and rng.random() < 0.3:
        out += rbytes(rng, rng.randrange(1, 4))
    return out


def gen_value(rng, op, dflag):
    """value part (after the op header and the optional property block) of one op"""
    r = rng.random()
    if op == 2:  # INCR
        return rbytes(rng, 8) if r < 0.6 else rbytes(rng, rng.choice([0, 1, 4, 7, 9, 16]))
    if op in (4, 8):  # SHIFT / POP: u32
        n = pick(rng, [(40, rng.randrange(0, 8)), (20, rng.randrange(8, 80)), (10, 0xffffffff), (10, 0x7fffffff), (10, rng.getrandbits(32)), (10, 0x80000000)])
        return u32(n) if r < 0.8 else u32(n)[:rng.randrange(0, 4)] + (rbytes(rng, 3) if r > 0.95 else b"")
    if op == 1:
        return b"" if r < 0.8 else rbytes(rng, rng.randrange(1, 5))
    if dflag & 0x02:
        return gen_array_value(rng, consistent=r < 0.5)
    if dflag & 0x04:
        return gen_array_value(rng, consistent=r < 0.5)
    if dflag & 0x01:
        return rbytes(rng, 8) if r < 0.5 else rbytes(rng, rng.choice([0, 1, 3, 7, 9]))
    return rbytes(rng, pick(rng, [(10, 0), (20, 1), (20, rng.randrange(2, 10)), (20, rng.randrange(10, 60)), (5, rng.randrange(60, 400))]))


def gen_op_payload(rng, depth=0, op=None):
    """payload of a data frame *after* the 4-byte length: [stage<<6|op][flag][props?][value]"""
    if op is None:
        op = pick(rng, [(16, 0), (5, 1), (10, 2), (8, 3), (10, 4), (10, 5), (12, 6), (8, 7), (10, 8), (5, rng.randrange(9, 64))])
    stage = pick(rng, [(75, 0), (9, 1), (8, 2), (8, 3)])
    dflag = pick(rng, [(35, 0), (8, 0x01), (10, 0x02), (5, 0x04), (14, 0x10), (5, 0x20), (5, 0x12), (4, 0x11), (4, 0x30), (10, rng.getrandbits(8))])
    body = b""
    if dflag & 0x10:
        r = rng.random()
        props = gen_props(rng, consistent=r < 0.6)
        if r < 0.7:
            body += u16(len(props)) + props
        elif r < 0.8:
            body += u16(rng.choice([len(props) + 1, len(props) + 100, 0xffff, 0x7fff])) + props
        elif r < 0.9:
            body += u16(rng.getrandbits(16))[:rng.randrange(0, 3)]
        else:
            body += u16(max(0, len(props) - 1)) + props
    if op == 5:  # EXECUTE: embedded 64-byte command (+ nested data)
        r = rng.random()
        eflag = pick(rng, [(50, 0), (35, 0x20), (5, 0x22), (10, rng.getrandbits(8))])
        eh = lock_header(rng, pick(rng, [(60, 1), (30, 2), (4, 8), (3, 9), (3, rng.getrandbits(8))]), flag=eflag, arbitrary=rng.random() < 0.1)
        if rng.random() < 0.7:
            eh[20] = 0
        emb = bytes(eh)
        if eh[19] & 0x20:
            rr = rng.random()
            if depth < 3 and rr < 0.6:
                inner = gen_op_payload(rng, depth + 1)
                emb += u32(len(inner)) + inner
            elif rr < 0.7:
                emb += u32(rng.choice([0, 1, 0xffffffff, 0x7fffffff, 0x80000000, 1 << 20, 5])) + rbytes(rng, rng.randrange(0, 6))
            elif rr < 0.8:
                emb += rbytes(rng, rng.randrange(0, 4))
            else:
                inner = rbytes(rng, rng.randrange(0, 12))
                emb += u32(len(inner)) + inner
        if r < 0.8:
            body += emb
        elif r < 0.9:
            body += emb[:rng.randrange(0, len(emb) + 1)]
        else:
            body += emb + rbytes(rng, rng.randrange(1, 9))
    elif op == 6:  # PIPELINE: items [u32 len][payload]
        items = b""
        for _ in range(rng.choice([0, 1, 2, 2, 3, 4, 6])):
            r = rng.random()
            if depth < 3 and r < 0.7:
                it = gen_op_payload(rng, depth + 1)
                items += u32(len(it)) + it
            elif r < 0.8:
                it = rbytes(rng, rng.choice([0, 1]))      # item shorter than its 2-byte op header
                items += u32(len(it)) + it
            elif r < 0.9:
                items += u32(rng.choice([0xffffffff, 0x7fffffff, 1 << 20, 100])) + rbytes(rng, rng.randrange(0, 5))
            else:
                it = rbytes(rng, rng.randrange(2, 12))
                items += u32(len(it)) + it
        r = rng.random()
        if r < 0.15:
            items += rbytes(rng, rng.randrange(1, 4))        # ends inside a 4-byte length
        elif r < 0.25 and len(items) > 1:
            items = items[:rng.randrange(1, len(items))]
        body += items
    else:
        body += gen_value(rng, op, dflag)
    return bytes([((stage << 6) | (op & 0x3f)) & 0xff, dflag]) + body


def gen_data_frame(rng, force_len=None):
    """returns (bytes to put after the 64-byte header, info dict)"""
    r = rng.random()
    info = {}
    if force_len is not None:
        L = force_len
        payload = gen_op_payload(rng)
        payload = (payload + rbytes(rng, max(0, L - len(payload))))[:L]
        info["len_class"] = "exact-%d" % L if L <= 64 else "big"
        return u32(L) + payload, dict(info, declared=L, op=(payload[0] & 0x3f) if L >= 1 else None)
    if r < 0.70:
        payload = gen_op_payload(rng)
        return u32(len(payload)) + payload, {"declared": len(payload), "op": payload[0] & 0x3f, "len_class": "wellformed"}
    if r < 0.80:   # declared length 0..64 with that many bytes (truncated/padded op)
        L = rng.randrange(0, 65)
        payload = (gen_op_payload(rng) + rbytes(rng, 64))[:L]
        return u32(L) + payload, {"declared": L, "op": (payload[0] & 0x3f) if L else None, "len_class": "exact-%d" % L}
    if r < 0.86:   # big frames
        L = pick(rng, [(30, rng.randrange(65, 5000)), (20, rng.randrange(4000, 70000)), (6, CAP), (6, CAP - 1), (5, rng.randrange(70000, CAP))])
        hd = gen_op_payload(rng)[:L]
        payload = hd + bytes(L - len(hd)) if rng.random() < 0.5 else hd + rbytes(rng, L - len(hd))
        return u32(L) + payload, {"declared": L, "op": payload[0] & 0x3f, "len_class": "big"}
    if r < 0.91:   # over the cap / absurd: the server must refuse
        L = rng.choice([CAP + 1, CAP + 2, 0x7fffffff, 0x80000000, 0xffffffff, 0xfffffffb, 2 * CAP])
        return u32(L) + rbytes(rng, rng.randrange(0, 80)), {"declared": L, "op": None, "len_class": "over-cap"}
    if r < 0.96:   # declared longer than delivered (connection then closes / next bytes are swallowed)
        payload = gen_op_payload(rng)
        L = len(payload) + rng.randrange(1, 50)
        return u32(L) + payload, {"declared": L, "op": payload[0] & 0x3f, "len_class": "short-delivery"}
    # truncated inside the 4-byte length
    return rbytes(rng, rng.randrange(0, 4)), {"declared": None, "op": None, "len_class": "cut-in-length"}


def gen_lock_unit(rng, ctype=None, with_data=None, force_len=None):
    if ctype is None:
        ctype = pick(rng, [(55, 1), (35, 2), (5, 8), (5, 9)])
    if with_data is None:
        with_data = rng.random() < 0.6
    arbitrary = rng.random() < 0.06
    if with_data:
        base = pick(rng, [(40, 0x20), (30, 0x22), (6, 0x21), (4, 0x28), (4, 0x30), (3, 0x24), (3, 0x23), (10, 0x20 | rng.getrandbits(8))])
        h = lock_header(rng, ctype, flag=base, arbitrary=arbitrary)
        trail, info = gen_data_frame(rng, force_len)
        tag = "bin:%s+data" % CMD_NAMES[ctype]
        return Frame(h, trail, tag, info)
    h = lock_header(rng, ctype, arbitrary=arbitrary)
    h[19] &= 0xdf
    return Frame(h, b"", "bin:%s" % CMD_NAMES[ctype])


def pb_varint(v):
    out = b""
    while True:
        b = v & 0x7f
        v >>= 7
        if v:
            out += bytes([b | 0x80])
        else:
            return out + bytes([b])


def gen_call_unit(rng):
    h = bytearray(64)
    h[0], h[1], h[2] = MAGIC, VERSION, 7
    h[3:19] = rbytes(rng, 16)
    h[19], h[20], h[21] = rng.choice([0, 0, 1, 255]), rng.choice([0, 1, 2, 3, 255]), rng.choice([0, 1, 255])
    name = pick(rng, [(25, b"LIST_LOCK"), (20, b"LIST_LOCKED"), (20, b"LIST_WAIT"), (8, b"SYNC"), (10, b"list_lock"), (7, b"NOPE"),
                      (5, rbytes(rng, rng.randrange(0, 39))), (5, b"\0LIST_LOCK")])
    name = name[:38]
    h[26:26 + len(name)] = name
    r = rng.random()
    if r < 0.75:
        dbid = pick(rng, [(40, 0), (15, 1), (10, 255), (10, 256), (10, 300), (5, 0xffffffff), (10, rng.getrandbits(rng.choice([8, 16, 32, 64])))])
        content = b"" if (dbid == 0 and rng.random() < 0.5) else b"\x08" + pb_varint(dbid)
        if name != b"LIST_LOCK" and rng.random() < 0.8:
            k = pick(rng, [(60, gen_id(rng, KEYS)), (20, rbytes(rng, rng.randrange(0, 16))), (20, rbytes(rng, rng.randrange(17, 40)))])
            content += b"\x12" + pb_varint(len(k)) + k
        if name == b"SYNC":
            s = rng.choice([b"", b"00" * 16, rbytes(rng, 16).hex().encode(), b"zz", rbytes(rng, 5), b"f" * 32, b"0" * 31, b"0" * 64])
            content = b"\x0a" + pb_varint(len(s)) + s
    elif r < 0.9:
        content = rbytes(rng, rng.randrange(0, 30))
    else:
        content = rbytes(rng, rng.randrange(30, 3000))
    r = rng.random()
    if r < 0.8:
        clen = len(content)
    elif r < 0.9:
        clen = rng.choice([CAP + 1, 0xffffffff, 0x80000000, CAP])
        content = content[:64]
    else:
        clen = len(content) + rng.randrange(1, 20)
    h[22:26] = u32(clen)
    return Frame(h, content, "bin:CALL:" + (name.decode("latin1") if name.isalnum() or b"_" in name else "<junk>"))


def gen_other_unit(rng):
    ctype = pick(rng, [(14, 0), (10, 3), (6, 4), (12, 5), (4, 6), (10, 10), (14, 11), (6, 12), (14, rng.randrange(13, 256))])
    h = bytearray(64)
    h[0], h[1], h[2] = MAGIC, VERSION, ctype
    r = rng.random()
    if r < 0.3:
        h[3:64] = rbytes(rng, 61)
    else:
        h[3:19] = rbytes(rng, 16)
        if ctype == 0:
            h[19:35] = gen_id(rng, [b"client-1", b"client-2", b""])
        elif ctype == 3:
            h[19], h[20] = rng.getrandbits(8), pick(rng, [(60, 0), (10, 1), (15, 0xff), (15, rng.getrandbits(8))])
        elif ctype == 11:
            h[19] = rng.choice([0, 1, 255])
            h[20:24] = u32(rng.choice([0, 1, 2, 0xffffffff]))
            h[24:28] = u32(rng.choice([0, 1, 2, 0xffffffff]))
            h[28] = rng.choice([0, 1, 2, 3, 255])
            h[29:45] = rng.choice([bytes(16), b"\xff" * 16, rbytes(rng, 16)])
            h[45:49] = u32(rng.choice([0, 1, 5, 0xffffffff]))
            h[49:53] = u32(rng.choice([0, 1, 64, 1 << 20, 0xffffffff]))
    return Frame(h, b"", "bin:" + CMD_NAMES.get(ctype, "UNKNOWN"))


def first_frame(rng):
    """a harmless first frame so that the connection is sniffed as binary"""
    h = bytearray(64)
    h[0], h[1], h[2] = MAGIC, VERSION, rng.choice([0, 5, 5])
    h[3:19] = rbytes(rng, 16)
    if h[2] == 0:
        h[19:35] = gen_id(rng, [b"client-1", b"client-2"])
    return Frame(h, b"", "bin:" + CMD_NAMES[h[2]])


def gen_binary_stream(rng, force_len=None):
    units = []
    if rng.random() < 0.5:
        units.append(first_frame(rng))
    n = pick(rng, [(40, 1), (25, 2), (15, 3), (10, 5), (10, 8)])
    for i in range(n):
        r = rng.random()
        if r < 0.68 or (force_len is not None and i == 0):
            units.append(gen_lock_unit(rng, force_len=force_len if i == 0 else None,
                                       with_data=True if (force_len is not None and i == 0) else None))
        elif r < 0.80:
            units.append(gen_call_unit(rng))
        else:
            units.append(gen_other_unit(rng))
    if rng.random() < 0.04:   # wrong magic / version on a later frame
        u = units[-1]
        h = bytearray(u.hdr)
        if rng.random() < 0.5:
            h[0] = rng.choice([0, 0x57, 0xff, ord("*")])
        else:
            h[1] = rng.choice([0, 2, 0xff])
        units[-1] = Frame(h, u.trail, "bin:bad-magic-or-version")
    s = Stream(units, origin="binary")
    s.cuts = gen_cuts(rng, s, binary=True)
    return s


def gen_related_ops_stream(rng):
    """several LOCK(update)+data operations on one key so that value operations meet values of every shape"""
    key = gen_id(rng, KEYS[:4])
    lid = gen_id(rng, IDPOOL[:2])
    units = [first_frame(rng)] if rng.random() < 0.4 else []
    for _ in range(rng.choice([2, 3, 4, 6])):
        ctype = pick(rng, [(75, 1), (25, 2)])
        h = lock_header(rng, ctype, flag=pick(rng, [(70, 0x22), (20, 0x20), (10, 0x21)]))
        h[20] = 0
        h[21:37], h[37:53] = lid, key
        h[53:57] = bytes(4)
        h[57:59], h[59:61] = u16(rng.choice([1, 2, 5])), u16(0)
        payload = gen_op_payload(rng)
        units.append(Frame(h, u32(len(payload)) + payload, "bin:%s+data" % CMD_NAMES[ctype],
                           {"declared": len(payload), "op": payload[0] & 0x3f, "len_class": "wellformed"}))
    s = Stream(units, origin="related-ops")
    s.cuts = gen_cuts(rng, s, binary=True)
    return s


# ------------------------------------------------------------------------------------------------ text generators
def gen_arg(rng):
    r = rng.random()
    if r < 0.25:
        return rng.choice(KEYS)
    if r < 0.50:
        return rng.choice(NUMS)
    if r < 0.75:
        return rng.choice(KEYWORDS)
    if r < 0.85:
        return rbytes(rng, rng.choice([1, 2, 8, 16, 17, 32]))
    if r < 0.90:
        return rbytes(rng, 16).hex().encode()
    if r < 0.97:
        return bytes(rng.choice(b"abcXYZ*?.[](){}+\\|^$") for _ in range(rng.randrange(1, 12)))
    return rbytes(rng, rng.choice([127, 128, 129, 600, 1023, 1024, 1025, 2100]))


def safe_text(args):
    """filter the by-design dangerous admin forms (see EXCLUDED_BY_DESIGN)"""
    if not args:
        return args
    name = args[0].upper()
    if name == b"SHUTDOWN":
        return [b"SHUTDOWN_"] + args[1:]
    if name == b"SLAVEOF" and len(args) >= 3 and args[1] != b"" and args[2] != b"":
        return args[:2]
    if name == b"CLIENT" and len(args) >= 3 and args[1].upper() == b"KILL" and (args[2].startswith(b"verif-") or args[2].startswith(b"127.")):
        return args[:2]
    if name == b"CONFIG" and len(args) >= 4 and args[1].upper() == b"SET" and args[2].upper() == b"LOG_LEVEL" and args[3] in (b"DEBUG", b"INFO"):
        return args[:3] + [b"ERROR"]
    if name == b"REPLSET":
        return args
    return args


def gen_text_unit(rng, name=None, nargs=None):
    if name is None:
        name = rng.choice(TEXT_COMMANDS).encode() if rng.random() < 0.93 else rng.choice([b"NOPE", b"", b"get", b"Set", rbytes(rng, 3)])
    if rng.random() < 0.1:
        name = name.lower()
    up = name.upper()
    r = rng.random()
    args = None
    if r < 0.45:
        # plausible shapes
        k = rng.choice(KEYS)
        if up in (b"LOCK", b"UNLOCK", b"PUSH"):
            args = [name, k]
            for _ in range(rng.choice([0, 1, 2, 3, 4])):
                kw = rng.choice([b"LOCK_ID", b"FLAG", b"TIMEOUT", b"EXPRIED", b"COUNT", b"RCOUNT", b"WILL", b"SET", b"UNSET", b"INCR",
                                 b"APPEND", b"SHIFT", b"EXECUTE", b"PUSH", b"POP"])
                v = rng.choice(NUMS[:14]) if kw not in (b"LOCK_ID", b"SET", b"APPEND", b"PUSH", b"EXECUTE") else rng.choice(KEYS + [b"UNLOCK", b"TIMEOUT", b"EXPRIED"])
                args += [kw, v]
                if kw == b"EXECUTE" and rng.random() < 0.7:
                    args += [rng.choice([b"LOCK", b"UNLOCK"]), rng.choice(KEYS)]
            if b"TIMEOUT" not in args and rng.random() < 0.85:
                args += [b"TIMEOUT", b"0"]
            if rng.random() < 0.15:
                args = args[:-1]
        elif up in (b"SET", b"SETNX", b"APPEND", b"GETSET"):
            args = [name, k, rng.choice(KEYS + NUMS[:6])]
            for _ in range(rng.choice([0, 0, 1, 1, 2])):
                kw = rng.choice([b"EX", b"PX", b"TX", b"PTX", b"NX", b"XX", b"ACK", b"NAOF", b"ex"])
                args.append(kw)
                if kw.upper() in (b"EX", b"PX", b"TX", b"PTX") and rng.random() < 0.7:
                    args.append(rng.choice(NUMS[:16]))
        elif up in (b"SETEX", b"PSETEX"):
            args = [name, k, rng.choice(NUMS[:16]), rng.choice(KEYS)][:rng.choice([2, 3, 4, 4, 4])]
        elif up in (b"INCR", b"DECR", b"INCRBY", b"DECRBY"):
            args = [name, k] + ([rng.choice(NUMS)] if rng.random() < 0.6 else []) + ([rng.choice([b"EX", b"PX"]), rng.choice(NUMS[:10])][:rng.choice([0, 0, 1, 2])])
        elif up in (b"EXPIRE", b"PEXPIRE", b"PEXPIREAT", b"PERSIST"):
            args = [name, k, rng.choice(NUMS)][:rng.choice([2, 3, 3])]
        elif up == b"SCAN":
            args = [name, rng.choice(NUMS[:8])]
            for _ in range(rng.choice([0, 1, 2])):
                args += [rng.choice([b"MATCH", b"COUNT", b"match", b"TYPE"]), rng.choice([b"*", b"k*", b"[", b"10", b"-1", b"0", b"(", b"a{9999}"])]
            if rng.random() < 0.3:
                args = args[:-1]
        elif up == b"KEYS":
            args = [name] + [rng.choice([b"*", b"k*", b"[", b"(", b"**", b"\\", b"a{1000}{1000}", b"?"])][:rng.choice([0, 1, 1])]
        elif up == b"SELECT":
            args = [name, rng.choice([b"0", b"0", b"1", b"2", b"255", b"256", b"-1", b"x", b"254"])]
        elif up == b"TIMEOUT":
            args = [name, rng.choice([b"SET", b"GET", b"set"]), rng.choice([b"0", b"0", b"1", b"65536", b"-1", b"x"])][:rng.choice([1, 2, 3, 3])]
        elif up == b"CONFIG":
            args = [name, rng.choice([b"GET", b"SET", b"get"]), rng.choice([b"DATABASES", b"DB_LOCK_AOF_TIME", b"AOF_FILE_REWRITE_SIZE", b"LOG_LEVEL", b"PORT", b"*"]),
                    rng.choice([b"0", b"1", b"255", b"256", b"-1", b"x", b"ERROR", b"WARNING", b"4294967296"])][:rng.choice([1, 2, 3, 4, 4])]
        elif up == b"SHOW":
            args = [name, rng.choice(KEYS + [b"*"]), rng.choice([b"WAIT", b"wait", b"x"])][:rng.choice([1, 2, 3])]
        elif up == b"CLIENT":
            args = [name, rng.choice([b"LIST", b"KILL", b"kill"]), rng.choice([b"1.2.3.4:5", b"", b"x"])][:rng.choice([1, 2, 3])]
        elif up == b"REPLSET":
            args = [name, rng.choice([b"CONFIG", b"ADD", b"REMOVE", b"SET", b"GET", b"MEMBERS", b"QUIT-LEADER", b"x"]), b"127.0.0.1:1", b"WEIGHT", b"1", b"ARBITER"][:rng.choice([1, 2, 3, 4, 5, 6])]
        elif up in (b"FLUSHDB",):
            args = [name, rng.choice([b"0", b"1", b"255", b"256", b"-1", b"x"])][:rng.choice([1, 2])]
        elif up in (b"ECHO", b"PING", b"INFO"):
            args = [name] + [gen_arg(rng) for _ in range(rng.choice([0, 1, 1, 2]))]
        else:
            args = [name, k] + [gen_arg(rng) for _ in range(rng.choice([0, 0, 1, 2]))]
    if args is None:
        if nargs is None:
            nargs = rng.randrange(0, 9)
        args = [name] + [gen_arg(rng) for _ in range(nargs)]
    return Text(safe_text(args))


def gen_malformed_resp(rng):
    forms = [b"*\r\n", b"*0\r\n", b"*-1\r\n", b"*1\r\n$-1\r\n", b"*1\r\n$0\r\n\r\n", b"*99999999999999999999\r\n", b"*2147483648\r\n$3\r\nGET\r\n",
             b"*1\r\n$99999999999\r\nPING\r\n", b"*1\r\n$4\r\nPI\r\n", b"*1\r\n$2\r\nPING\r\n", b"*1\n$4\nPING\n", b"*1\r\n#4\r\nPING\r\n",
             b"GET k\r\n", b"PING\r\n", b"+OK\r\n", b"-ERR x\r\n", b":1\r\n", b"$4\r\nPING\r\n", b"*" + b"1" * 200 + b"\r\n",
             b"*1\r\n$" + b"4" * 200 + b"\r\n", b"*2\r\n$3\r\nGET\r\n", b"*1\r\n$4\r\nPING", b"\r\n\r\n", b"*1\r\r\n$4\r\nPING\r\n",
             b"*1\r\n$4\r\nPING\r\n" * 40, b"*3\r\n$3\r\nSET\r\n$1\r\nk\r\n$2000\r\n" + b"v" * 2000 + b"\r\n",
             b"*1\r\n$0\r\n\r\n*1\r\n$0\r\n\r\n", b"*0\r\n$4\r\nPING\r\n", b"*-5\r\n$4\r\nPING\r\n", b"*1\r\n$+4\r\nPING\r\n", b"* 1\r\n$4\r\nPING\r\n"]
    return Raw(rng.choice(forms), "text:malformed-resp")


def gen_text_stream(rng, name=None, nargs=None):
    units = []
    if rng.random() < 0.7:
        units.append(Text([b"TIMEOUT", b"SET", b"0"]))
    if rng.random() < 0.15:
        units.append(Text([b"SELECT", rng.choice([b"0", b"1", b"255"])]))
    n = pick(rng, [(40, 1), (25, 2), (15, 3), (10, 5), (10, 8)])
    for i in range(n):
        if rng.random() < 0.06:
            units.append(gen_malformed_resp(rng))
        else:
            units.append(gen_text_unit(rng, name if i == 0 else None, nargs if i == 0 else None))
    s = Stream(units, origin="text")
    s.cuts = gen_cuts(rng, s, binary=False)
    return s


def flagged(rng, lo):
    """TIMEOUT / EXPRIED argument of the text LOCK command: low 16 bits value, high 16 bits flag word"""
    flags = pick(rng, [(30, 0x1000), (10, 0x0400), (10, 0x0040), (10, 1 << rng.randrange(16)), (10, rng.getrandbits(16))])
    return b"%d" % ((flags << 16) | lo)


def gen_text_lock_pair(rng):
    """two connections working on the same key / lock id in the text protocol (re-lock, unlock, ack-required locks)"""
    k, lid = rng.choice(KEYS[:4]), rng.choice([b"id-1", b"id-2"])
    res = []
    for i in range(rng.choice([2, 2, 3])):
        name = pick(rng, [(60, b"LOCK"), (40, b"UNLOCK")]) if i else b"LOCK"
        a = [name, k, b"LOCK_ID", lid]
        a += [b"TIMEOUT", flagged(rng, rng.choice([0, 0, 1, 2])) if rng.random() < 0.6 else rng.choice([b"0", b"1"])]
        a += [b"EXPRIED", flagged(rng, rng.choice([1, 2, 5])) if rng.random() < 0.3 else rng.choice([b"1", b"2", b"5"])]
        if rng.random() < 0.3:
            a += [b"FLAG", rng.choice([b"1", b"2", b"3", b"8", b"16"])]
        if rng.random() < 0.2:
            a += [b"COUNT", rng.choice([b"2", b"0", b"65535"])]
        s = Stream([Text(a)], origin="text-lock-pair", idle_ms=100)
        s.cuts = gen_cuts(rng, s, binary=False)
        res.append(s)
    return res


def gen_admin_switch_stream(rng):
    """binary connection that sends COMMAND_ADMIN and continues in the text protocol on the same connection"""
    h = bytearray(64)
    h[0], h[1], h[2] = MAGIC, VERSION, 4
    h[3:19] = rbytes(rng, 16)
    h[19] = rng.getrandbits(8)
    units = [Frame(h, b"", "bin:ADMIN")]
    for _ in range(rng.choice([1, 2, 3])):
        units.append(gen_text_unit(rng) if rng.random() < 0.9 else gen_malformed_resp(rng))
    if rng.random() < 0.3:
        units.append(Text([b"QUIT"]))
        units.append(gen_lock_unit(rng))
    s = Stream(units, origin="admin-switch")
    s.cuts = gen_cuts(rng, s, binary=True)
    return s


# ------------------------------------------------------------------------------------------------ splits / mutation
def gen_cuts(rng, s, binary):
    d = s.data()
    n = len(d)
    if n <= 1:
        return None
    r = rng.random()
    # unit boundaries
    ub, p = [], 0
    for u in s.units:
        p += len(u.encode())
        ub.append(p)
    if binary and rng.random() < 0.85:
        lo = 64  # keep the first read = the first 64 bytes (otherwise the sniffing takes the text path)
    else:
        lo = 1
    if r < 0.30:
        cuts = []
    elif r < 0.50:
        cuts = ub[:-1]
    elif r < 0.80:
        cuts = [rng.randrange(lo, n) for _ in range(rng.choice([1, 2, 3, 5, 8]))] if n > lo else []
    elif r < 0.90:
        # structural: around 64-byte boundaries and inside the 4-byte data length
        cuts = []
        for b in [0] + ub[:-1]:
            for off in (64, 65, 66, 67, 68, 69, 70, 63, 1, 2):
                if rng.random() < 0.4:
                    cuts.append(b + off)
    elif n <= 400:
        cuts = list(range(lo, n))          # byte by byte
    else:
        cuts = [rng.randrange(lo, n) for _ in range(20)]
    if binary and lo == 64 and n >= 64:
        cuts = [c for c in cuts if c >= 64]
        if cuts and rng.random() < 0.7:
            cuts.append(64)
    return sorted(set(c for c in cuts if 0 < c < n)) or None


def mutate_stream(rng, base):
    d = bytearray(base.data())
    if not d:
        d = bytearray(b"*")
    for _ in range(rng.choice([1, 1, 2, 3, 5])):
        r = rng.random()
        n = len(d)
        if n == 0:
            break
        i = rng.randrange(n)
        if r < 0.25:
            d[i] ^= 1 << rng.randrange(8)
        elif r < 0.45:
            d[i] = rng.choice([0, 1, 0x7f, 0x80, 0xff, 0x20, ord("\r"), ord("\n"), ord("*"), ord("$"), ord("-")])
        elif r < 0.55:
            j = min(n, i + rng.randrange(1, 9))
            del d[i:j]
        elif r < 0.65:
            j = min(n, i + rng.randrange(1, 70))
            d[i:i] = d[i:j]
        elif r < 0.75:
            d[i:i] = rbytes(rng, rng.randrange(1, 9))
        elif r < 0.85:
            del d[i:]
        elif r < 0.95 and n >= 4:
            i = rng.randrange(n - 3)
            d[i:i + 4] = u32(rng.choice([0, 1, 2, 5, 6, 0xffffffff, 0x7fffffff, 0x80000000, CAP, CAP + 1, n]))
        else:
            d[i:i] = bytes(64)
    s = Stream([Raw(bytes(d), "mutated:" + base.origin)], origin="mutated")
    s.cuts = gen_cuts(rng, s, binary=base.origin != "text")
    return s


def gen_random_stream(rng):
    r = rng.random()
    n = pick(rng, [(30, rng.randrange(1, 64)), (30, 64), (20, rng.randrange(65, 200)), (20, rng.randrange(200, 2000))])
    d = bytearray(rbytes(rng, n))
    if r < 0.4 and n >= 3:
        d[0], d[1] = MAGIC, VERSION
        d[2] = rng.choice([1, 2, 7, 8, 9, 1, 2, rng.getrandbits(8)])
    elif r < 0.7:
        d[0] = ord("*")
    s = Stream([Raw(bytes(d), "random")], origin="random")
    s.cuts = gen_cuts(rng, s, binary=r < 0.4)
    return s


def gen_streams(rng):
    if rng.random() < 0.03:
        return gen_text_lock_pair(rng)
    return [gen_stream(rng)]


def gen_stream(rng):
    r = rng.random()
    if r < 0.34:
        s = gen_binary_stream(rng)
    elif r < 0.44:
        s = gen_related_ops_stream(rng)
    elif r < 0.76:
        s = gen_text_stream(rng)
    elif r < 0.80:
        s = gen_admin_switch_stream(rng)
    elif r < 0.93:
        base = rng.choice([gen_binary_stream, gen_text_stream, gen_related_ops_stream, gen_admin_switch_stream])(rng)
        s = mutate_stream(rng, base)
    else:
        s = gen_random_stream(rng)
    if rng.random() < 0.03:
        s.transport = 1
    # truncated last unit + close
    if rng.random() < 0.04 and s.origin in ("binary", "text", "related-ops"):
        d = s.data()
        if len(d) > 2:
            cut = rng.randrange(1, len(d))
            s = Stream([Raw(d[:cut], "truncated:" + s.origin)], [c for c in (s.cuts or []) if c < cut] or None, s.transport, s.idle_ms, "truncated")
    return s


def systematic_streams(rng):
    """the exhaustive part of the quantifier: every data-frame length 0..64 for LOCK and UNLOCK, every registered text
    command with every argument count 0..8, every binary command type 0..12 + unknown ones as first frame and as
    second frame."""
    out = []
    for L in range(0, 65):
        for ctype in (1, 2):
            u = gen_lock_unit(rng, ctype=ctype, with_data=True, force_len=L)
            s = Stream([u], origin="sys-datalen")
            out.append(s)
            s2 = Stream([first_frame(rng), gen_lock_unit(rng, ctype=ctype, with_data=True, force_len=L)], origin="sys-datalen")
            s2.cuts = gen_cuts(rng, s2, binary=True)
            out.append(s2)
    for name in TEXT_COMMANDS:
        for n in range(0, 9):
            s = Stream([Text([b"TIMEOUT", b"SET", b"0"]), gen_text_unit(rng, name.encode(), n)], origin="sys-text")
            s.units[1] = Text(safe_text([name.encode()] + s.units[1].args[1:1 + n] + [gen_arg(rng) for _ in range(max(0, n - len(s.units[1].args) + 1))]))
            out.append(s)
    for ctype in list(range(0, 16)) + [0x7f, 0x80, 0xff]:
        for pre in (False, True):
            h = bytearray(64)
            h[0], h[1], h[2] = MAGIC, VERSION, ctype
            h[3:64] = rbytes(rng, 61) if rng.random() < 0.5 else bytes(61)
            if ctype in (1, 2, 8, 9):
                h[19] &= 0xdf
            if ctype == 7:
                h[22:26] = u32(0)
            units = ([first_frame(rng)] if pre else []) + [Frame(h, b"", "bin:" + CMD_NAMES.get(ctype, "UNKNOWN"))]
            out.append(Stream(units, origin="sys-cmdtype"))
    return out


# ------------------------------------------------------------------------------------------------ shrinking
def shrink(streams, still_fails, budget=150):
    """streams: list[Stream] (ordered). still_fails(list[Stream]) -> bool runs a fresh child.
    Greedy: drop whole streams, then units, then simplify units, then simplify the split."""
    cur = list(streams)
    used = [0]

    def test(cand):
        if used[0] >= budget:
            return False
        used[0] += 1
        return still_fails(cand)

    # 1. whole streams (from the front; the last stream is the one in flight at the crash)
    i = 0
    while len(cur) > 1 and i < len(cur):
        cand = cur[:i] + cur[i + 1:]
        if test(cand):
            cur = cand
        else:
            i += 1
    # 2. units
    for si in range(len(cur)):
        j = 0
        while len(cur[si].units) > 1 and j < len(cur[si].units):
            us = cur[si].units
            cand = cur[:si] + [cur[si].with_units(us[:j] + us[j + 1:], cuts=None)] + cur[si + 1:]
            if test(cand):
                cur = cand
            else:
                j += 1
    # 3. single chunk
    for si in range(len(cur)):
        if cur[si].cuts:
            cand = cur[:si] + [cur[si].with_units(cur[si].units, cuts=None)] + cur[si + 1:]
            if test(cand):
                cur = cand
    # 4. simplify units
    progress = True
    while progress and used[0] < budget:
        progress = False
        for si in range(len(cur)):
            for j in range(len(cur[si].units)):
                for v in cur[si].units[j].smaller():
                    us = cur[si].units
                    cand = cur[:si] + [cur[si].with_units(us[:j] + [v] + us[j + 1:])] + cur[si + 1:]
                    if test(cand):
                        cur = cand
                        progress = True
                        break
                    if used[0] >= budget:
                        break
    return cur, used[0]
