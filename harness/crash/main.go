// crashrun — whole-server crash-freedom driver for property C13.
//
//	crashrun serve -dir D -batch F [-port P] [-subscribe] [-settle ms] [-probe-every K] [-cover dir] [-aslimit MB]
//
// starts ONE real slock node in this process (server.VerifStartNode = what main.go does), feeds it the byte
// streams of batch file F one after the other over fresh connections (in-memory connection with exact read
// boundaries, or real loopback TCP), probes a SECOND connection (binary INIT/PING/LOCK/UNLOCK and text PING)
// and reports progress on stdout. Server.handle has no recover(): any panic in a connection goroutine, timer
// goroutine or executor kills this process; the parent (checks/C13.py) sees the exit status and the Go panic
// trace on stderr and bisects/shrinks the batch. The process never tries to survive a panic.
package main

import (
	"bufio"
	"encoding/binary"
	"flag"
	"fmt"
	"io"
	"net"
	"os"
	"runtime"
	"runtime/coverage"
	"strings"
	"syscall"
	"time"

	"github.com/snower/slock/server"
)

type streamCase struct {
	transport uint8
	flags     uint8
	idleMs    uint32
	chunks    [][]byte
}

func readBatch(path string) ([]streamCase, error) {
	f, err := os.Open(path)
	if err != nil {
		return nil, err
	}
	defer f.Close()
	r := bufio.NewReaderSize(f, 1<<20)
	hdr := make([]byte, 12)
	if _, err = io.ReadFull(r, hdr); err != nil {
		return nil, err
	}
	if string(hdr[:4]) != "C13B" {
		return nil, fmt.Errorf("bad batch magic")
	}
	n := binary.LittleEndian.Uint32(hdr[8:])
	res := make([]streamCase, 0, n)
	for i := uint32(0); i < n; i++ {
		sh := make([]byte, 12)
		if _, err = io.ReadFull(r, sh); err != nil {
			return nil, err
		}
		sc := streamCase{transport: sh[0], flags: sh[1], idleMs: binary.LittleEndian.Uint32(sh[4:]), chunks: nil}
		nc := binary.LittleEndian.Uint32(sh[8:])
		for j := uint32(0); j < nc; j++ {
			lb := make([]byte, 4)
			if _, err = io.ReadFull(r, lb); err != nil {
				return nil, err
			}
			b := make([]byte, binary.LittleEndian.Uint32(lb))
			if _, err = io.ReadFull(r, b); err != nil {
				return nil, err
			}
			sc.chunks = append(sc.chunks, b)
		}
		res = append(res, sc)
	}
	return res, nil
}

var out = bufio.NewWriterSize(os.Stdout, 1<<16)

func say(format string, a ...interface{}) {
	fmt.Fprintf(out, format+"\n", a...)
	out.Flush()
}

func min(a, b int) int {
	if a < b {
		return a
	}
	return b
}

func replyClass(b []byte) string {
	if len(b) == 0 {
		return "none"
	}
	switch b[0] {
	case 0x56:
		if len(b) >= 20 {
			return fmt.Sprintf("bin:t%d:r%d", b[2], b[19])
		}
		return "bin:short"
	case '+':
		return "txt:+"
	case '-':
		return "txt:-"
	case ':':
		return "txt::"
	case '$':
		return "txt:$"
	case '*':
		return "txt:*"
	}
	return "other"
}

// ---------------------------------------------------------------- frames for the probe
func frame(ctype byte, reqid uint64) []byte {
	b := make([]byte, 64)
	b[0], b[1], b[2] = 0x56, 0x01, ctype
	binary.LittleEndian.PutUint64(b[3:], reqid)
	binary.LittleEndian.PutUint64(b[11:], 0x5052_4f42_4500_0000)
	return b
}

var probeSeq uint64

func lockFrame(ctype byte, key uint64, db byte) []byte {
	probeSeq++
	b := frame(ctype, probeSeq)
	b[19], b[20] = 0, db
	binary.LittleEndian.PutUint64(b[21:], 0x1111_0000_0000_0000|key) // lock id
	binary.LittleEndian.PutUint64(b[29:], 0x7072_6f62_6549_4400)
	binary.LittleEndian.PutUint64(b[37:], 0x2222_0000_0000_0000|key) // lock key
	binary.LittleEndian.PutUint64(b[45:], 0x7072_6f62_654b_4559)
	b[53], b[54], b[55], b[56] = 0, 0, 0, 0 // timeout 0
	b[57], b[58], b[59], b[60] = 5, 0, 0, 0 // expried 5 s
	b[61], b[62], b[63] = 0, 0, 0
	return b
}

type prober interface {
	send(b []byte) error
	recv(n int, d time.Duration) ([]byte, bool)
	close()
}

type memProber struct{ c *server.VerifConn }

func (p *memProber) send(b []byte) error { p.c.ResetReply(); p.c.Feed(b); return nil }
func (p *memProber) recv(n int, d time.Duration) ([]byte, bool) {
	ok := p.c.WaitReply(n, d)
	_, r, _ := p.c.Reply()
	return r, ok
}
func (p *memProber) close() { p.c.CloseClient() }

type tcpProber struct{ c net.Conn }

func (p *tcpProber) send(b []byte) error { _, err := p.c.Write(b); return err }
func (p *tcpProber) recv(n int, d time.Duration) ([]byte, bool) {
	_ = p.c.SetReadDeadline(time.Now().Add(d))
	buf := make([]byte, n)
	k, err := io.ReadFull(p.c, buf)
	return buf[:k], err == nil
}
func (p *tcpProber) close() { _ = p.c.Close() }

func binaryProbe(p prober, d time.Duration) string {
	defer p.close()
	probeSeq++
	ini := frame(0, probeSeq)
	binary.LittleEndian.PutUint64(ini[19:], probeSeq|0x9900_0000_0000_0000)
	binary.LittleEndian.PutUint64(ini[27:], uint64(os.Getpid()))
	if err := p.send(ini); err != nil {
		return "fail:init-send"
	}
	r, ok := p.recv(64, d)
	if !ok || len(r) < 64 || r[0] != 0x56 || r[2] != 0 || r[19] != 0 {
		return fmt.Sprintf("fail:init(%d,%v,%x)", len(r), ok, r[:min(len(r), 40)])
	}
	probeSeq++
	_ = p.send(frame(5, probeSeq))
	r, ok = p.recv(64, d)
	if !ok || len(r) < 64 || r[2] != 5 || r[19] != 0 {
		return fmt.Sprintf("fail:ping(%d,%v,%x)", len(r), ok, r[:min(len(r), 40)])
	}
	for _, db := range []byte{0, 1} {
		key := probeSeq + 1
		_ = p.send(lockFrame(1, key, db))
		r, ok = p.recv(64, d)
		if !ok || len(r) < 64 || r[2] != 1 || r[19] != 0 {
			res := -1
			if len(r) >= 20 {
				res = int(r[19])
			}
			return fmt.Sprintf("fail:lock-db%d(len=%d,ok=%v,result=%d)", db, len(r), ok, res)
		}
		_ = p.send(lockFrame(2, key, db))
		r, ok = p.recv(64, d)
		if !ok || len(r) < 64 || r[2] != 2 || r[19] != 0 {
			res := -1
			if len(r) >= 20 {
				res = int(r[19])
			}
			return fmt.Sprintf("fail:unlock-db%d(len=%d,ok=%v,result=%d)", db, len(r), ok, res)
		}
	}
	return "ok"
}

func textProbe(p prober, d time.Duration) string {
	defer p.close()
	_ = p.send([]byte("*1\r\n$4\r\nPING\r\n"))
	r, ok := p.recv(7, d)
	if !ok || len(r) < 7 || string(r[:7]) != "+PONG\r\n" {
		return fmt.Sprintf("fail:text-ping(%q,%v)", string(r), ok)
	}
	return "ok"
}

func probes(node *server.VerifNode, port int, d time.Duration) string {
	res := binaryProbe(&memProber{node.VerifConnect()}, d)
	if res != "ok" {
		return "mem-binary:" + res
	}
	res = textProbe(&memProber{node.VerifConnect()}, d)
	if res != "ok" {
		return "mem-text:" + res
	}
	if port > 0 {
		c, err := net.DialTimeout("tcp", fmt.Sprintf("127.0.0.1:%d", port), d)
		if err != nil {
			return "tcp:fail:dial"
		}
		res = binaryProbe(&tcpProber{c}, d)
		if res != "ok" {
			return "tcp-binary:" + res
		}
		c, err = net.DialTimeout("tcp", fmt.Sprintf("127.0.0.1:%d", port), d)
		if err != nil {
			return "tcp:fail:dial"
		}
		res = textProbe(&tcpProber{c}, d)
		if res != "ok" {
			return "tcp-text:" + res
		}
	}
	return "ok"
}

// ---------------------------------------------------------------- running one stream
func runMem(node *server.VerifNode, sc *streamCase) (string, int, int, string, *server.VerifConn) {
	c := node.VerifConnect()
	for _, ch := range sc.chunks {
		c.Feed(ch)
	}
	st := c.WaitIdle(time.Duration(sc.idleMs) * time.Millisecond)
	nb, rep, reads := c.Reply()
	c.CloseClient()
	return st, nb, reads, replyClass(rep), c
}

func runTCP(port int, sc *streamCase) (string, int, int, string) {
	c, err := net.DialTimeout("tcp", fmt.Sprintf("127.0.0.1:%d", port), 2*time.Second)
	if err != nil {
		return "dialfail", 0, 0, "none"
	}
	if tc, ok := c.(*net.TCPConn); ok {
		_ = tc.SetNoDelay(true)
	}
	total := 0
	var first []byte
	donec := make(chan struct{})
	go func() {
		buf := make([]byte, 65536)
		for {
			n, rerr := c.Read(buf)
			if n > 0 {
				if first == nil {
					first = append([]byte{}, buf[:n]...)
				}
				total += n
			}
			if rerr != nil {
				close(donec)
				return
			}
		}
	}()
	st := "idle"
	for i, ch := range sc.chunks {
		_ = c.SetWriteDeadline(time.Now().Add(2 * time.Second))
		if _, err = c.Write(ch); err != nil {
			st = "closed"
			break
		}
		if i+1 < len(sc.chunks) && i < 16 {
			time.Sleep(300 * time.Microsecond)
		}
	}
	// no idle signal over a real socket: give the server a short quiet period, then half-close
	select {
	case <-donec:
		st = "closed"
	case <-time.After(time.Duration(sc.idleMs) * time.Millisecond / 4):
	}
	_ = c.Close()
	select {
	case <-donec:
	case <-time.After(200 * time.Millisecond):
	}
	return st, total, len(sc.chunks), replyClass(first)
}

func pureMain() {
	dir, err := os.MkdirTemp("", "c13-pure-")
	if err != nil {
		fmt.Fprintln(os.Stderr, "HARNESS-ERROR tmp:", err)
		os.Exit(3)
	}
	defer os.RemoveAll(dir)
	_ = os.Chdir(dir)
	node, err := server.VerifStartNode(dir, 0, false)
	if err != nil {
		fmt.Fprintln(os.Stderr, "HARNESS-ERROR start:", err)
		os.Exit(3)
	}
	in := bufio.NewScanner(os.Stdin)
	in.Buffer(make([]byte, 1<<20), 64<<20)
	w := bufio.NewWriterSize(os.Stdout, 1<<20)
	for in.Scan() {
		fmt.Fprintln(w, node.VerifPure(in.Text()))
	}
	w.Flush()
	os.RemoveAll(dir)
	os.Exit(0)
}

func main() {
	if len(os.Args) >= 2 && os.Args[1] == "pure" {
		pureMain()
		return
	}
	if len(os.Args) < 2 || os.Args[1] != "serve" {
		fmt.Fprintln(os.Stderr, "usage: crashrun serve -dir D -batch F ...")
		os.Exit(2)
	}
	fs := flag.NewFlagSet("serve", flag.ExitOnError)
	dir := fs.String("dir", "", "scratch dir (cwd + data dir)")
	batch := fs.String("batch", "", "batch file")
	port := fs.Int("port", 0, "loopback port for the real listener (0 = none)")
	subscribe := fs.Bool("subscribe", false, "enable the subscribe manager")
	settle := fs.Int("settle", 1200, "ms to wait after the last stream (timers, executors)")
	probeEvery := fs.Int("probe-every", 200, "second-connection probe after every K streams")
	coverDir := fs.String("cover", "", "write coverage counters here (binary built with -cover)")
	aslimit := fs.Int("aslimit", 0, "RLIMIT_AS in MiB (0 = unlimited)")
	_ = fs.Parse(os.Args[2:])

	if *aslimit > 0 {
		lim := syscall.Rlimit{Cur: uint64(*aslimit) << 20, Max: uint64(*aslimit) << 20}
		_ = syscall.Setrlimit(syscall.RLIMIT_AS, &lim)
	}
	if err := os.Chdir(*dir); err != nil {
		fmt.Fprintln(os.Stderr, "HARNESS-ERROR chdir:", err)
		os.Exit(3)
	}
	cases, err := readBatch(*batch)
	if err != nil {
		fmt.Fprintln(os.Stderr, "HARNESS-ERROR batch:", err)
		os.Exit(3)
	}
	node, err := server.VerifStartNode(*dir, *port, *subscribe)
	if err != nil {
		fmt.Fprintln(os.Stderr, "HARNESS-ERROR start:", err)
		os.Exit(3)
	}
	if *coverDir != "" {
		if cerr := coverage.WriteMetaDir(*coverDir); cerr != nil {
			say("COVER-ERROR %v", cerr)
		}
	}
	say("READY %d", len(cases))
	pd := 3 * time.Second
	if r := probes(node, *port, pd); r != "ok" {
		say("P -1 %s", r)
		fmt.Fprintln(os.Stderr, "HARNESS-ERROR initial probe failed:", r)
		os.Exit(3)
	}
	var pending []*server.VerifConn
	var pendingIdx []int
	for i := range cases {
		sc := &cases[i]
		say("S %d", i)
		if sc.transport == 1 && *port > 0 {
			st, nb, reads, rc := runTCP(*port, sc)
			say("E %d %s %d %d %s", i, st, nb, reads, rc)
		} else {
			st, nb, reads, rc, c := runMem(node, sc)
			if st != "busy" {
				select {
				case <-c.Done:
				case <-time.After(1 * time.Second):
					st += "+slowclose"
					pending = append(pending, c)
					pendingIdx = append(pendingIdx, i)
				}
			} else {
				pending = append(pending, c)
				pendingIdx = append(pendingIdx, i)
			}
			say("E %d %s %d %d %s", i, st, nb, reads, rc)
		}
		if *probeEvery > 0 && (i+1)%*probeEvery == 0 && i+1 < len(cases) {
			r := probes(node, *port, pd)
			say("P %d %s", i, r)
			if r != "ok" {
				dumpGoroutines()
				say("DONE probe-failed")
				os.Exit(7)
			}
			if *coverDir != "" {
				_ = coverage.WriteCountersDir(*coverDir)
			}
		}
	}
	time.Sleep(time.Duration(*settle) * time.Millisecond)
	r := probes(node, *port, pd)
	say("P %d %s", len(cases)-1, r)
	linger := 0
	for k, c := range pending {
		select {
		case <-c.Done:
		default:
			linger++
			say("LINGER-STREAM %d", pendingIdx[k])
		}
	}
	say("LINGER %d", linger)
	if linger > 0 || r != "ok" {
		dumpGoroutines()
		if linger > 0 {
			// a goroutine that is merely runnable on a loaded machine must not be mistaken for a spinning one:
			// second dump half a second later, the parent only believes what both dumps show
			time.Sleep(500 * time.Millisecond)
			say("G2START")
			dumpGoroutines()
		}
	}
	if *coverDir != "" {
		_ = coverage.WriteCountersDir(*coverDir)
	}
	if r != "ok" {
		say("DONE probe-failed")
		os.Exit(7)
	}
	say("DONE ok state=%d", node.State())
	os.Exit(0)
}

func dumpGoroutines() {
	buf := make([]byte, 8<<20)
	n := runtime.Stack(buf, true)
	for _, l := range strings.Split(string(buf[:n]), "\n") {
		say("G %s", l)
	}
}
