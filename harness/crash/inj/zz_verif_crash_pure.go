//go:build verif

// Pure-function side of the C13 correspondence check: runs the real Go functions that coq/Proto models on one case
// line and prints the observation in the format of ocaml/proto/driver.ml. Every call is under recover(): here (and
// only here) a panic is an observation, not the end of the process.
package server

import (
	"encoding/hex"
	"fmt"
	"strconv"
	"strings"

	"github.com/snower/slock/protocol"
)

func verifUnhex(s string) []byte {
	if s == "-" || s == "" {
		return []byte{}
	}
	b, err := hex.DecodeString(s)
	if err != nil {
		panic("bad hex in case: " + s)
	}
	return b
}

func verifUnargs(s string) []string {
	if s == "=" {
		return []string{}
	}
	parts := strings.Split(s, ",")
	res := make([]string, len(parts))
	for i, p := range parts {
		res[i] = string(verifUnhex(p))
	}
	return res
}

func (n *VerifNode) VerifPure(line string) (obs string) {
	defer func() {
		if r := recover(); r != nil {
			obs = "panic"
		}
	}()
	f := strings.Split(line, "\t")
	switch f[0] {
	case "RBF":
		c := newVerifConn()
		c.Feed(verifUnhex(f[1]))
		c.CloseClient()
		stream := NewStream(c)
		buf, err := stream.ReadBytesFrame()
		if err != nil {
			if strings.Contains(err.Error(), "over max") {
				return "err:overmax"
			}
			return "err:eof"
		}
		return fmt.Sprintf("ok %d", len(buf))
	case "NLD":
		d := protocol.NewLockCommandDataFromOriginBytes(verifUnhex(f[1]))
		return fmt.Sprintf("ok %d %d %d", d.CommandStage, d.CommandType, d.DataFlag)
	case "DLC":
		d := protocol.NewLockCommandDataFromOriginBytes(verifUnhex(f[1]))
		lc := &protocol.LockCommand{}
		if err := d.DecodeLockCommand(lc); err != nil {
			return "err"
		}
		if lc.Data == nil {
			return fmt.Sprintf("ok %d %d 0 0", lc.Flag, lc.DbId)
		}
		return fmt.Sprintf("ok %d %d 1 %d", lc.Flag, lc.DbId, len(lc.Data.Data))
	case "DBI":
		// the lookup of the three LIST_* handlers, through the real handler (LIST_LOCK: only a db id in the request)
		v, _ := strconv.ParseUint(f[1], 10, 32)
		content := []byte{}
		if v != 0 {
			content = append(content, 0x08)
			x := v
			for x >= 0x80 {
				content = append(content, byte(x)|0x80)
				x >>= 7
			}
			content = append(content, byte(x))
		}
		c := newVerifConn()
		sp := NewBinaryServerProtocol(n.SLock, NewStream(c))
		call := protocol.NewCallCommand("LIST_LOCK", content)
		res, _ := sp.commandHandleListLockCommand(sp, call)
		if res != nil && res.Result == protocol.RESULT_UNKNOWN_DB && v >= 256 {
			return "unknown-db"
		}
		return "ok"
	case "CV":
		c := newVerifConn()
		tp := NewTextServerProtocol(n.SLock, NewStream(c))
		cmd, _, err := tp.commandConverter.ConvertTextKeyOperateValueCommand(tp, verifUnargs(f[1]))
		if err != nil {
			return "err"
		}
		return fmt.Sprintf("ok %d %d %d %d %d %d", cmd.CommandType, cmd.Flag, cmd.Timeout, cmd.TimeoutFlag, cmd.Expried, cmd.ExpriedFlag)
	case "SC":
		c := newVerifConn()
		tp := NewTextServerProtocol(n.SLock, NewStream(c))
		_ = tp.commandHandlerScanCommand(tp, verifUnargs(f[1]))
		_, rep, _ := c.Reply()
		if len(rep) > 0 && rep[0] == '-' {
			return "err"
		}
		return "ok"
	case "WL":
		v, _ := strconv.Atoi(f[1])
		_ = protocol.ERROR_MSG[uint8(v)]
		return "ok"
	case "PI":
		v, err := strconv.ParseInt(string(verifUnhex(f[1])), 10, 64)
		if err != nil {
			return "err"
		}
		return fmt.Sprintf("ok %d", v)
	}
	return "unknown-case-kind " + f[0]
}
