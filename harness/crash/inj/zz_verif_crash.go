//go:build verif

// Injected into package server by `go build -overlay` (never written into /repo).
// It only *starts* the real objects (NewSLock, NewServer, SLock.Init, Server.Listen/Serve, Server.handle) and
// offers an in-memory net.Conn whose Read boundaries are exactly the chunks fed by the driver, so that the
// property's quantifier "delivered in every possible split into reads" is controlled by the generator.
package server

import (
	"errors"
	"fmt"
	"io"
	"net"
	"os"
	"path/filepath"
	"sync"
	"time"

	"github.com/jessevdk/go-flags"
)

type VerifNode struct {
	SLock  *SLock
	Server *Server
}

// VerifStartNode builds a real leader node exactly like main.go does (flags defaults, InitLogger, NewSLock,
// NewServer, Init); with port > 0 it also runs the real Listen + Serve accept loop.
func VerifStartNode(dir string, port int, subscribe bool) (*VerifNode, error) {
	cfg := &ServerConfig{}
	if _, err := flags.NewParser(cfg, flags.Default).ParseArgs([]string{}); err != nil {
		return nil, err
	}
	cfg.DataDir = filepath.Join(dir, "data")
	if err := os.MkdirAll(cfg.DataDir, 0o755); err != nil {
		return nil, err
	}
	cfg.Log = filepath.Join(dir, "slock.log")
	cfg.LogLevel = "ERROR"
	cfg.DBConcurrent = 2
	cfg.DBFastKeyCount = 64
	cfg.Bind = "127.0.0.1"
	cfg.Port = uint(port)
	cfg.SubscribeEnabled = subscribe
	logger, err := InitLogger(cfg)
	if err != nil {
		return nil, err
	}
	slock := NewSLock(cfg, logger)
	srv := NewServer(slock)
	if err = slock.Init(srv); err != nil {
		return nil, err
	}
	if slock.state != STATE_LEADER {
		return nil, fmt.Errorf("node did not become leader: state %d", slock.state)
	}
	n := &VerifNode{slock, srv}
	if port > 0 {
		if err = srv.Listen(); err != nil {
			return nil, err
		}
		go srv.Serve()
	}
	return n, nil
}

func (n *VerifNode) State() uint8 { return n.SLock.state }

// ---------------------------------------------------------------------------------------------------------
// In-memory connection. Server side implements net.Conn. Client side: Feed/CloseClient/WaitIdle/Replies.

type verifAddr struct{ s string }

func (a verifAddr) Network() string { return "verif" }
func (a verifAddr) String() string  { return a.s }

type VerifConn struct {
	mu         sync.Mutex
	cond       *sync.Cond
	chunks     [][]byte
	clientShut bool // client closed its side: server reads drain the queue, then get EOF
	serverShut bool // server called Close
	inRead     bool // server goroutine is blocked in Read with an empty queue
	reads      int
	replyBytes int
	reply      []byte // first bytes of what the server wrote (bounded)
	id         uint64
	Done       chan struct{} // closed when Server.handle returned
}

var verifConnSeq uint64

func newVerifConn() *VerifConn {
	c := &VerifConn{}
	c.cond = sync.NewCond(&c.mu)
	verifConnSeq++
	c.id = verifConnSeq
	return c
}

func (c *VerifConn) Read(p []byte) (int, error) {
	c.mu.Lock()
	defer c.mu.Unlock()
	for len(c.chunks) == 0 {
		if c.serverShut {
			return 0, errors.New("use of closed verif connection")
		}
		if c.clientShut {
			return 0, io.EOF
		}
		c.inRead = true
		c.cond.Broadcast()
		c.cond.Wait()
	}
	c.inRead = false
	if c.serverShut {
		return 0, errors.New("use of closed verif connection")
	}
	if len(p) == 0 {
		return 0, nil
	}
	c.reads++
	n := copy(p, c.chunks[0])
	if n == len(c.chunks[0]) {
		c.chunks = c.chunks[1:]
	} else {
		c.chunks[0] = c.chunks[0][n:]
	}
	return n, nil
}

func (c *VerifConn) Write(p []byte) (int, error) {
	c.mu.Lock()
	defer c.mu.Unlock()
	if c.serverShut {
		return 0, errors.New("use of closed verif connection")
	}
	if c.clientShut {
		return 0, errors.New("verif connection: broken pipe")
	}
	c.replyBytes += len(p)
	if len(c.reply) < 1<<16 {
		k := 1<<16 - len(c.reply)
		if k > len(p) {
			k = len(p)
		}
		c.reply = append(c.reply, p[:k]...)
	}
	c.cond.Broadcast()
	return len(p), nil
}

func (c *VerifConn) Close() error {
	c.mu.Lock()
	c.serverShut = true
	c.cond.Broadcast()
	c.mu.Unlock()
	return nil
}

func (c *VerifConn) LocalAddr() net.Addr                { return verifAddr{"verif-server"} }
func (c *VerifConn) RemoteAddr() net.Addr               { return verifAddr{fmt.Sprintf("verif-client-%d", c.id)} }
func (c *VerifConn) SetDeadline(t time.Time) error      { return nil }
func (c *VerifConn) SetReadDeadline(t time.Time) error  { return nil }
func (c *VerifConn) SetWriteDeadline(t time.Time) error { return nil }

// client side ------------------------------------------------------------------------------------------

func (c *VerifConn) Feed(chunk []byte) {
	if len(chunk) == 0 {
		return
	}
	c.mu.Lock()
	c.chunks = append(c.chunks, chunk)
	c.inRead = false
	c.cond.Broadcast()
	c.mu.Unlock()
}

func (c *VerifConn) CloseClient() {
	c.mu.Lock()
	c.clientShut = true
	c.cond.Broadcast()
	c.mu.Unlock()
}

// WaitIdle waits until the server consumed everything fed so far and is blocked in Read again (all
// synchronous processing of the fed bytes is over), or closed the connection. Returns "idle", "closed" or
// "busy" (timeout: the connection goroutine is blocked or running somewhere else, e.g. waiting for a lock).
func (c *VerifConn) WaitIdle(d time.Duration) string {
	deadline := time.Now().Add(d)
	timer := time.AfterFunc(d, func() { c.mu.Lock(); c.cond.Broadcast(); c.mu.Unlock() })
	defer timer.Stop()
	c.mu.Lock()
	defer c.mu.Unlock()
	for {
		if c.serverShut {
			return "closed"
		}
		if c.inRead && len(c.chunks) == 0 {
			return "idle"
		}
		if !time.Now().Before(deadline) {
			return "busy"
		}
		c.cond.Wait()
	}
}

// WaitReply waits until at least n reply bytes were written by the server (or timeout / closed).
func (c *VerifConn) WaitReply(n int, d time.Duration) bool {
	deadline := time.Now().Add(d)
	timer := time.AfterFunc(d, func() { c.mu.Lock(); c.cond.Broadcast(); c.mu.Unlock() })
	defer timer.Stop()
	c.mu.Lock()
	defer c.mu.Unlock()
	for {
		if c.replyBytes >= n {
			return true
		}
		if c.serverShut || !time.Now().Before(deadline) {
			return false
		}
		c.cond.Wait()
	}
}

func (c *VerifConn) Reply() (int, []byte, int) {
	c.mu.Lock()
	defer c.mu.Unlock()
	r := make([]byte, len(c.reply))
	copy(r, c.reply)
	return c.replyBytes, r, c.reads
}

func (c *VerifConn) ResetReply() {
	c.mu.Lock()
	c.replyBytes = 0
	c.reply = c.reply[:0]
	c.mu.Unlock()
}

func (c *VerifConn) ServerClosed() bool {
	c.mu.Lock()
	defer c.mu.Unlock()
	return c.serverShut
}

// VerifConnect does what the accept loop of Server.Serve does for an accepted connection:
// NewStream, addStream, go handle(stream).
func (n *VerifNode) VerifConnect() *VerifConn {
	c := newVerifConn()
	stream := NewStream(c)
	_ = n.Server.addStream(stream)
	c.Done = stream.closedWaiter
	go n.Server.handle(stream)
	return c
}

func (n *VerifNode) ConnCounts() (uint32, uint32) {
	n.Server.glock.Lock()
	defer n.Server.glock.Unlock()
	return n.Server.connectedCount, n.Server.connectingCount
}
