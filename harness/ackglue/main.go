// Harness entry point for the C11 glue sub-check (quorum bookkeeping + flush/ack reports): all work is done by the
// in-package file harness/ackglue/inj/zz_verif_ackglue.go injected into package server by `go build -overlay`.
package main

import "github.com/snower/slock/server"

func main() { server.VerifAckGlueMain() }
