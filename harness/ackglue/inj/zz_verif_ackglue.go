//go:build verif

// In-package harness for the C11 glue sub-check (checks/C11_glue.py).  Injected into package server by
// `go build -overlay`; nothing in /repo is changed.  Line-oriented: one case per input line, one observation line per
// case (same format as ocaml/ackglue/driver.ml).
//
//	Q <mode> <arb> ; add c | rm c | db d | reg d | leader | arb <bits>
//	    a real ReplicationManager (no network): followers are ReplicationServer objects built by the real constructor
//	    and handed to addServerChannel / removeServerChannel; `db` = GetOrNewAckDB; `reg` = the real
//	    ReplicationManager.PushLock of a require-ack LOCK record carrying a lock (GetOrNewAckDB +
//	    ProcessLeaderPushLock), output = lock.ackCount; `leader` = SwitchToLeader; `arb` replaces
//	    arbiterManager.members (direct field write: AddMember/RemoveMember need the network).
//	    after every operation: len(serverChannels) and every ackDb.ackCount
//	F <cap> ; a <ack> <dlen|-> <mb> <db> | f <via> <mb> <db> | c <mb> <db>
//	    a real AofFile (bufSize = 64*cap) opened by the real constructor on a scratch directory and driven through the
//	    real Aof.PushLock / Aof.Flush / AofFile.Flush / AofFile.Close.  mb / db = 1: for this operation the main /
//	    data *os.File is replaced by a read-only handle of the same file, so that the write(2) fails with EBADF.
//	    Reports are observed behind the real Aof.lockAcked -> AofChannel.AofAcked: the channel of a stub LockDB is not
//	    running and the harness drains its queue after every operation.  For every report the files are read back:
//	    m = the 64-byte record is in the main file, d = the record has no value or the value bytes are in the .dat file.
package server

import (
	"bufio"
	"bytes"
	"fmt"
	"io/ioutil"
	"os"
	"path/filepath"
	"sort"
	"strconv"
	"strings"

	"github.com/jessevdk/go-flags"
	"github.com/snower/slock/protocol"
)

func vgAtoi(s string) int {
	n, err := strconv.Atoi(s)
	if err != nil {
		fmt.Fprintf(os.Stderr, "bad int %q\n", s)
		os.Exit(3)
	}
	return n
}

func vgSteps(line string) []string {
	parts := strings.Split(line, ";")
	out := make([]string, 0, len(parts))
	for _, p := range parts {
		p = strings.TrimSpace(p)
		if p != "" {
			out = append(out, p)
		}
	}
	return out
}

// ---------------------------------------------------------------------------------------------- quorum
func vgMembers(am *ArbiterManager, bits string) []*ArbiterMember {
	members := make([]*ArbiterMember, 0)
	if bits == "e" {
		return members
	}
	for i, b := range bits {
		arbiter := uint32(0)
		if b == '1' {
			arbiter = 1
		}
		members = append(members, NewArbiterMember(am, fmt.Sprintf("127.0.0.1:%d", 7000+i), 1, arbiter))
	}
	return members
}

func vgQuorum(slock *SLock, hdr []string, ops []string) string {
	rm := slock.replicationManager
	// fresh bookkeeping state (the manager object is reused: its constructor starts a goroutine)
	rm.serverChannels = make([]*ReplicationServer, 0)
	rm.serverCount = 0
	for i := range rm.ackDbs {
		rm.ackDbs[i] = nil
	}
	rm.bufferQueue = NewReplicationBufferQueue(rm, 64*512, 64*512)
	Config.AofAckMode = uint(vgAtoi(hdr[1]))
	slock.arbiterManager = nil
	if hdr[2] != "-" {
		am := NewArbiterManager(slock, "rs")
		am.members = vgMembers(am, hdr[2])
		slock.arbiterManager = am
	}
	slock.state = STATE_LEADER
	chans := map[int]*ReplicationServer{}
	getChan := func(c int) *ReplicationServer {
		if ch, ok := chans[c]; ok {
			return ch
		}
		ch := NewReplicationServer(rm, &BinaryServerProtocol{})
		chans[c] = ch
		return ch
	}
	seq := uint32(0)
	outs := make([]string, 0, len(ops))
	for _, o := range ops {
		f := strings.Fields(o)
		out := "-"
		switch f[0] {
		case "add":
			_ = rm.addServerChannel(getChan(vgAtoi(f[1])))
		case "rm":
			_ = rm.removeServerChannel(getChan(vgAtoi(f[1])))
		case "db":
			_ = rm.GetOrNewAckDB(uint8(vgAtoi(f[1])))
		case "reg":
			seq++
			command := &protocol.LockCommand{}
			command.CommandType = protocol.COMMAND_LOCK
			command.DbId = uint8(vgAtoi(f[1]))
			command.RequestId = [16]byte{byte(seq), byte(seq >> 8), byte(seq >> 16), byte(seq >> 24), 1}
			command.TimeoutFlag = protocol.TIMEOUT_FLAG_REQUIRE_ACKED
			lock := &Lock{command: command}
			aofLock := NewAofLock()
			aofLock.CommandType = protocol.COMMAND_LOCK
			aofLock.DbId = command.DbId
			aofLock.AofFlag = AOF_FLAG_REQUIRE_ACKED
			aofLock.AofIndex = 1
			aofLock.AofOffset = seq
			aofLock.CommandTime = uint64(seq)
			_ = aofLock.Encode()
			aofLock.lock = lock
			if err := rm.PushLock(0, aofLock); err != nil {
				out = "err"
			} else {
				out = strconv.Itoa(int(lock.ackCount))
			}
		case "leader":
			_ = rm.SwitchToLeader()
		case "arb":
			if slock.arbiterManager != nil {
				slock.arbiterManager.members = vgMembers(slock.arbiterManager, f[1])
			}
		default:
			fmt.Fprintf(os.Stderr, "bad quorum op %q\n", o)
			os.Exit(3)
		}
		dbs := make([]string, 0)
		ids := make([]int, 0)
		for i, db := range rm.ackDbs {
			if db != nil {
				ids = append(ids, i)
			}
		}
		sort.Ints(ids)
		for _, i := range ids {
			dbs = append(dbs, fmt.Sprintf("%d:%d", i, rm.ackDbs[i].ackCount))
		}
		ds := "-"
		if len(dbs) > 0 {
			ds = strings.Join(dbs, ",")
		}
		if int(rm.serverCount) != len(rm.serverChannels) {
			ds += "!serverCount=" + strconv.Itoa(int(rm.serverCount))
		}
		outs = append(outs, fmt.Sprintf("n=%d dbs=%s out=%s", len(rm.serverChannels), ds, out))
	}
	slock.arbiterManager = nil
	return strings.Join(outs, " ; ")
}

// ---------------------------------------------------------------------------------------------- flush
func vgPayload(id int, n int) []byte {
	b := make([]byte, n)
	for j := 0; j < n; j++ {
		b[j] = byte((id*37 + j*11 + 5) % 251)
	}
	if n >= 8 {
		b[0], b[1], b[2], b[3] = byte(n-4), byte((n-4)>>8), byte((n-4)>>16), byte((n-4)>>24)
		b[4], b[5], b[6], b[7] = byte(id), byte(id>>8), byte(id>>16), 0xA5
	}
	return b
}

func vgFlush(slock *SLock, base string, caseNo int, hdr []string, ops []string) string {
	capRecords := vgAtoi(hdr[1])
	dir := filepath.Join(base, fmt.Sprintf("c%d", caseNo))
	_ = os.MkdirAll(dir, 0755)
	defer os.RemoveAll(dir)
	aof := NewAof()
	aof.slock = slock
	aof.dataDir = dir
	aof.rewriteSize = 0xffffffff
	aof.aofFileIndex = 1
	aof.aofFileOffset = 0
	slock.aof = aof
	rm := slock.replicationManager
	rm.serverChannels = make([]*ReplicationServer, 0)
	rm.serverCount = 0
	rm.bufferQueue = NewReplicationBufferQueue(rm, 64*512, 64*512)
	slock.state = STATE_LEADER
	name := filepath.Join(dir, "append.aof.1")
	wf := NewAofFile(aof, name, os.O_WRONLY, 64*capRecords)
	if err := wf.Open(); err != nil {
		return "openerr:" + err.Error()
	}
	aof.aofFile = wf
	// observer: a LockDB whose AOF channel is not running
	db := &LockDB{}
	db.managerMaxGlocks = 1
	ch := NewAofChannel(aof, db, 0, NewPriorityMutex())
	db.aofChannels = []*AofChannel{ch}
	slock.dbs[0] = db
	defer func() { slock.dbs[0] = nil }()
	goodMain, goodData := wf.file, wf.dataFile
	roMain, e1 := os.Open(name)
	roData, e2 := os.Open(name + ".dat")
	if e1 != nil || e2 != nil {
		return "openerr:read-only handles"
	}
	defer func() {
		_ = goodMain.Close()
		_ = goodData.Close()
		_ = roMain.Close()
		_ = roData.Close()
	}()
	setFiles := func(mb string, dbk string) {
		if wf.file != nil {
			if mb == "1" {
				wf.file = roMain
			} else {
				wf.file = goodMain
			}
		}
		if wf.dataFile != nil {
			if dbk == "1" {
				wf.dataFile = roData
			} else {
				wf.dataFile = goodData
			}
		}
	}
	payloads := map[int][]byte{}
	outs := make([]string, 0, len(ops))
	for _, o := range ops {
		f := strings.Fields(o)
		errs := "-"
		switch f[0] {
		case "a":
			setFiles(f[3], f[4])
			id := int(aof.aofFileOffset) // the model numbers records from 0; PushLock hands out aofFileOffset+1
			lock := NewAofLock()
			lock.CommandType = protocol.COMMAND_LOCK
			lock.DbId = 0
			lock.LockKey = [16]byte{byte(id), byte(id >> 8), 0x4b}
			lock.LockId = [16]byte{byte(id), byte(id >> 8), 0x4c}
			lock.CommandTime = 1700000000
			if f[1] == "1" {
				lock.AofFlag |= AOF_FLAG_REQUIRE_ACKED
			}
			if f[2] != "-" {
				lock.AofFlag |= AOF_FLAG_CONTAINS_DATA
				lock.data = vgPayload(id, vgAtoi(f[2]))
				payloads[id] = lock.data
			}
			_ = lock.Encode()
			if err := aof.PushLock(0, lock); err != nil {
				errs = "1"
			} else {
				errs = "0"
			}
		case "f":
			setFiles(f[2], f[3])
			if f[1] == "1" {
				aof.Flush()
			} else if err := wf.Flush(); err != nil {
				errs = "1"
			} else {
				errs = "0"
			}
		case "c":
			setFiles(f[1], f[2])
			_ = wf.Close()
		default:
			fmt.Fprintf(os.Stderr, "bad flush op %q\n", o)
			os.Exit(3)
		}
		// drain the reports
		reps := make([]string, 0)
		var mainBytes, dataBytes []byte
		loaded := false
		ch.queueGlock.Lock()
		for al := ch.pullAofLock(); al != nil; al = ch.pullAofLock() {
			if !loaded {
				mainBytes, _ = ioutil.ReadFile(name)
				dataBytes, _ = ioutil.ReadFile(name + ".dat")
				loaded = true
			}
			buf := al.buf
			id := int(uint32(buf[3])|uint32(buf[4])<<8|uint32(buf[5])<<16|uint32(buf[6])<<24) - 1
			tf := "F"
			if al.Result == protocol.RESULT_SUCCED {
				tf = "T"
			}
			m := 0
			for off := 12; off+64 <= len(mainBytes); off += 64 {
				if bytes.Equal(mainBytes[off+3:off+7], buf[3:7]) {
					m = 1
				}
			}
			d := 1
			if p, ok := payloads[id]; ok {
				if !bytes.Contains(dataBytes, p) {
					d = 0
				}
			}
			kind := ""
			if al.HandleType != AOF_LOCK_TYPE_ACK_FILE {
				kind = fmt.Sprintf("!type=%d", al.HandleType)
			}
			reps = append(reps, fmt.Sprintf("%d:%s:%d:%d%s", id, tf, m, d, kind))
		}
		ch.queueGlock.Unlock()
		rs := "-"
		if len(reps) > 0 {
			rs = strings.Join(reps, ",")
		}
		open := 0
		if wf.file != nil {
			open = 1
		}
		outs = append(outs, fmt.Sprintf("err=%s rep=%s w=%d dw=%d ai=%d open=%d", errs, rs, wf.windex/64, wf.dwindex, wf.ackIndex, open))
	}
	return strings.Join(outs, " ; ")
}

func vgCase(slock *SLock, base string, caseNo int, line string) (res string) {
	defer func() {
		if r := recover(); r != nil {
			res = "panic:" + strings.ReplaceAll(fmt.Sprint(r), " ", "_")
		}
	}()
	steps := vgSteps(line)
	if len(steps) == 0 {
		return ""
	}
	hdr := strings.Fields(steps[0])
	switch hdr[0] {
	case "Q":
		return vgQuorum(slock, hdr, steps[1:])
	case "F":
		return vgFlush(slock, base, caseNo, hdr, steps[1:])
	}
	fmt.Fprintf(os.Stderr, "bad case %q\n", line)
	os.Exit(3)
	return ""
}

func VerifAckGlueMain() {
	base, err := ioutil.TempDir("", "ackglue-")
	if err != nil {
		fmt.Fprintln(os.Stderr, err)
		os.Exit(3)
	}
	defer os.RemoveAll(base)
	_ = os.Chdir(base)
	cfg := &ServerConfig{}
	_, _ = flags.NewParser(cfg, flags.Default).ParseArgs([]string{})
	cfg.DBConcurrent = 1
	cfg.DBFastKeyCount = 16
	cfg.DataDir = base
	cfg.Log = os.DevNull
	cfg.LogLevel = "ERROR"
	cfg.AofRingBufferSize = 64 * 512
	cfg.AofRingBufferMaxSize = 64 * 512
	logger, lerr := InitLogger(cfg)
	if lerr != nil {
		fmt.Fprintln(os.Stderr, lerr)
		os.Exit(3)
	}
	slock := NewSLock(cfg, logger)
	slock.state = STATE_LEADER
	in := bufio.NewReaderSize(os.Stdin, 1<<20)
	out := bufio.NewWriterSize(os.Stdout, 1<<20)
	defer out.Flush()
	caseNo := 0
	for {
		line, rerr := in.ReadString('\n')
		line = strings.TrimSpace(line)
		if line != "" || rerr == nil {
			caseNo++
			if line == "" || strings.HasPrefix(line, "#") {
				fmt.Fprintln(out, "")
			} else {
				fmt.Fprintln(out, vgCase(slock, base, caseNo, line))
			}
		}
		if rerr != nil {
			break
		}
	}
}
