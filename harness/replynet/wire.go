package main

// Minimal clients: a binary one (64-byte frames, protocol.LockCommand.Encode / LockResultCommand.Decode) that records
// EVERY frame the connection receives, solicited or not, and a text one (RESP arrays).

import (
	"bufio"
	"encoding/binary"
	"encoding/hex"
	"errors"
	"fmt"
	"io"
	"net"
	"os"
	"os/exec"
	"path/filepath"
	"strconv"
	"strings"
	"sync"
	"syscall"
	"time"

	"github.com/snower/slock/protocol"
)

var epoch = time.Now()

func now() int64 { return int64(time.Since(epoch)) }

// ---------------------------------------------------------------- records

type Rec struct {
	T   int64
	Raw [64]byte
}

// decoded views (for reports)
type FrameView struct {
	Conn    int    `json:"conn"`
	Idx     int    `json:"idx"` // position in the connection's receive (or send) log
	T       int64  `json:"t_ns"`
	Dir     string `json:"dir"` // "recv" | "sent"
	Type    uint8  `json:"type"`
	ReqId   string `json:"request_id"`
	Result  int    `json:"result"`
	Flag    uint8  `json:"flag"`
	DbId    uint8  `json:"db"`
	LockId  string `json:"lock_id"`
	LockKey string `json:"lock_key"`
	Lcount  uint16 `json:"lcount,omitempty"`
	Count   uint16 `json:"count"`
	Lrcount uint8  `json:"lrcount,omitempty"`
	Rcount  uint8  `json:"rcount"`
	Timeout uint32 `json:"timeout,omitempty"` // sent: timeout | flag<<16
	Expried uint32 `json:"expried,omitempty"` // sent: expried | flag<<16
	Raw     string `json:"raw"`
	Note    string `json:"note,omitempty"`
}

func viewRecv(conn, idx int, r *Rec) FrameView {
	var c protocol.LockResultCommand
	_ = c.Decode(r.Raw[:])
	return FrameView{Conn: conn, Idx: idx, T: r.T, Dir: "recv", Type: c.CommandType, ReqId: hex.EncodeToString(c.RequestId[:]),
		Result: int(c.Result), Flag: c.Flag, DbId: c.DbId, LockId: hex.EncodeToString(c.LockId[:]), LockKey: hex.EncodeToString(c.LockKey[:]),
		Lcount: c.Lcount, Count: c.Count, Lrcount: c.Lrcount, Rcount: c.Rcount, Raw: hex.EncodeToString(r.Raw[:])}
}

func viewSent(conn, idx int, r *Rec) FrameView {
	var c protocol.LockCommand
	_ = c.Decode(r.Raw[:])
	return FrameView{Conn: conn, Idx: idx, T: r.T, Dir: "sent", Type: c.CommandType, ReqId: hex.EncodeToString(c.RequestId[:]),
		Result: -1, Flag: c.Flag, DbId: c.DbId, LockId: hex.EncodeToString(c.LockId[:]), LockKey: hex.EncodeToString(c.LockKey[:]),
		Count: c.Count, Rcount: c.Rcount, Timeout: uint32(c.Timeout) | uint32(c.TimeoutFlag)<<16,
		Expried: uint32(c.Expried) | uint32(c.ExpriedFlag)<<16, Raw: hex.EncodeToString(r.Raw[:])}
}

// ---------------------------------------------------------------- binary connection

type binConn struct {
	idx     int
	c       net.Conn
	wmu     sync.Mutex
	mu      sync.Mutex
	waiters map[[16]byte]chan *Rec
	sent    []Rec // under wmu
	recv    []Rec // reader goroutine only (read after done)
	other   []Rec // non lock/unlock frames (INIT result, ...)
	done    chan struct{}
	rerr    error
	local   string
}

func dialBin(idx int, addr string, initClient bool, db int) (*binConn, error) {
	c, err := net.DialTimeout("tcp", addr, 3*time.Second)
	if err != nil {
		return nil, err
	}
	if tc, ok := c.(*net.TCPConn); ok {
		_ = tc.SetNoDelay(true)
	}
	bc := &binConn{idx: idx, c: c, waiters: map[[16]byte]chan *Rec{}, done: make(chan struct{}), local: c.LocalAddr().String()}
	go bc.reader()
	if initClient {
		var cid [16]byte
		// unique per connection AND per run: a closed connection's late replies are re-routed by the server to whoever
		// announces the same client id (reconnect feature, C18's area), which must not be a later scenario's connection
		copy(cid[:], []byte(fmt.Sprintf("rn%03d-%02d-%07x", db, idx%100, time.Now().UnixNano()&0xfffffff)))
		ic := protocol.NewInitCommand(cid)
		buf := make([]byte, 64)
		if err := ic.Encode(buf); err != nil {
			return nil, err
		}
		bc.wmu.Lock()
		_, err = bc.c.Write(buf)
		bc.wmu.Unlock()
		if err != nil {
			return nil, err
		}
		deadline := time.Now().Add(3 * time.Second)
		for {
			bc.mu.Lock()
			n := len(bc.other)
			bc.mu.Unlock()
			if n > 0 {
				break
			}
			if time.Now().After(deadline) {
				return nil, errors.New("no INIT reply")
			}
			time.Sleep(time.Millisecond)
		}
	}
	return bc, nil
}

func (bc *binConn) reader() {
	defer close(bc.done)
	br := bufio.NewReaderSize(bc.c, 1<<16)
	for {
		var r Rec
		if _, err := io.ReadFull(br, r.Raw[:]); err != nil {
			bc.rerr = err
			return
		}
		r.T = now()
		typ := r.Raw[2]
		if typ != protocol.COMMAND_LOCK && typ != protocol.COMMAND_UNLOCK {
			bc.mu.Lock()
			bc.other = append(bc.other, r)
			bc.mu.Unlock()
			continue
		}
		if r.Raw[20]&protocol.LOCK_FLAG_CONTAINS_DATA != 0 {
			var lb [4]byte
			if _, err := io.ReadFull(br, lb[:]); err != nil {
				bc.rerr = err
				return
			}
			n := binary.LittleEndian.Uint32(lb[:])
			if n > 1<<20 {
				bc.rerr = fmt.Errorf("oversized data %d", n)
				return
			}
			if _, err := io.CopyN(io.Discard, br, int64(n)); err != nil {
				bc.rerr = err
				return
			}
		}
		bc.recv = append(bc.recv, r)
		if r.Raw[19] == protocol.RESULT_EXPRIED {
			continue // asynchronous notice, nobody waits for it
		}
		var id [16]byte
		copy(id[:], r.Raw[3:19])
		bc.mu.Lock()
		ch := bc.waiters[id]
		bc.mu.Unlock()
		if ch != nil {
			select {
			case ch <- &bc.recv[len(bc.recv)-1]:
			default:
			}
		}
	}
}

// send registers a waiter and writes the frame; wait collects the terminal reply.
func (bc *binConn) send(cmd *protocol.LockCommand) (chan *Rec, error) {
	ch := make(chan *Rec, 2)
	bc.mu.Lock()
	bc.waiters[cmd.RequestId] = ch
	bc.mu.Unlock()
	var r Rec
	if err := cmd.Encode(r.Raw[:]); err != nil {
		return nil, err
	}
	bc.wmu.Lock()
	r.T = now()
	bc.sent = append(bc.sent, r)
	_, err := bc.c.Write(r.Raw[:])
	bc.wmu.Unlock()
	return ch, err
}

// a copy of the frame (the log slice may be re-allocated by the reader)
func (bc *binConn) wait(cmd *protocol.LockCommand, ch chan *Rec, patience time.Duration) (Rec, bool) {
	t := time.NewTimer(patience)
	defer t.Stop()
	select {
	case r := <-ch:
		bc.mu.Lock()
		delete(bc.waiters, cmd.RequestId)
		bc.mu.Unlock()
		return *r, true
	case <-bc.done:
	case <-t.C:
	}
	bc.mu.Lock()
	delete(bc.waiters, cmd.RequestId)
	bc.mu.Unlock()
	return Rec{}, false
}

func (bc *binConn) call(cmd *protocol.LockCommand, patience time.Duration) (Rec, bool) {
	ch, err := bc.send(cmd)
	if err != nil {
		return Rec{}, false
	}
	return bc.wait(cmd, ch, patience)
}

func (bc *binConn) close() {
	_ = bc.c.Close()
	select {
	case <-bc.done:
	case <-time.After(2 * time.Second):
	}
}

// ---------------------------------------------------------------- text connection (RESP)

type TextExchange struct {
	Conn    int      `json:"conn"`
	Idx     int      `json:"idx"`
	T0      int64    `json:"t_sent_ns"`
	T1      int64    `json:"t_reply_ns"`
	Args    []string `json:"args"`
	Kind    string   `json:"kind"`
	Type    uint8    `json:"type"` // 1 lock 2 unlock
	LockId  string   `json:"lock_id"`
	Reply   []string `json:"reply"`
	Err     string   `json:"err,omitempty"`
	Expried uint32   `json:"expried,omitempty"`
	First   bool     `json:"unlock_first,omitempty"`
}

type textConn struct {
	idx   int
	c     net.Conn
	br    *bufio.Reader
	log   []TextExchange
	extra []string // unsolicited data seen while idle
}

func dialText(idx int, addr string) (*textConn, error) {
	c, err := net.DialTimeout("tcp", addr, 3*time.Second)
	if err != nil {
		return nil, err
	}
	if tc, ok := c.(*net.TCPConn); ok {
		_ = tc.SetNoDelay(true)
	}
	return &textConn{idx: idx, c: c, br: bufio.NewReaderSize(c, 1<<16)}, nil
}

func respEncode(args []string) []byte {
	var sb strings.Builder
	sb.WriteString("*" + strconv.Itoa(len(args)) + "\r\n")
	for _, a := range args {
		sb.WriteString("$" + strconv.Itoa(len(a)) + "\r\n" + a + "\r\n")
	}
	return []byte(sb.String())
}

func readLine(br *bufio.Reader) (string, error) {
	s, err := br.ReadString('\n')
	if err != nil {
		return s, err
	}
	return strings.TrimRight(s, "\r\n"), nil
}

// respRead reads one RESP value and flattens it into strings (arrays of bulk strings are all the server sends).
func respRead(br *bufio.Reader) ([]string, error) {
	line, err := readLine(br)
	if err != nil {
		return nil, err
	}
	if line == "" {
		return nil, errors.New("empty line")
	}
	switch line[0] {
	case '+', '-', ':':
		return []string{line}, nil
	case '$':
		n, err := strconv.Atoi(line[1:])
		if err != nil {
			return nil, err
		}
		if n < 0 {
			return []string{"(nil)"}, nil
		}
		buf := make([]byte, n+2)
		if _, err := io.ReadFull(br, buf); err != nil {
			return nil, err
		}
		return []string{string(buf[:n])}, nil
	case '*':
		n, err := strconv.Atoi(line[1:])
		if err != nil {
			return nil, err
		}
		var res []string
		for i := 0; i < n; i++ {
			v, err := respRead(br)
			if err != nil {
				return res, err
			}
			res = append(res, v...)
		}
		return res, nil
	}
	return nil, fmt.Errorf("bad RESP line %q", line)
}

func (tc *textConn) cmd(args []string, patience time.Duration) ([]string, error) {
	_ = tc.c.SetDeadline(time.Now().Add(patience))
	if _, err := tc.c.Write(respEncode(args)); err != nil {
		return nil, err
	}
	return respRead(tc.br)
}

// idleProbe: anything readable while no command is outstanding is an unsolicited reply.
func (tc *textConn) idleProbe(d time.Duration) {
	_ = tc.c.SetReadDeadline(time.Now().Add(d))
	b, err := tc.br.Peek(1)
	if err == nil && len(b) > 0 {
		n := tc.br.Buffered()
		buf := make([]byte, n)
		_, _ = io.ReadFull(tc.br, buf)
		tc.extra = append(tc.extra, string(buf))
	}
}

// ---------------------------------------------------------------- child server

type child struct {
	cmd  *exec.Cmd
	port int
	dir  string
}

func freePort(lo, hi int) (int, error) {
	for p := lo; p <= hi; p++ {
		ln, err := net.Listen("tcp", fmt.Sprintf("127.0.0.1:%d", p))
		if err != nil {
			continue
		}
		_ = ln.Close()
		return p, nil
	}
	return 0, fmt.Errorf("no free loopback port in %d..%d", lo, hi)
}

func startServer(bin, dir string, port int) (*child, error) {
	if err := os.MkdirAll(filepath.Join(dir, "data"), 0o755); err != nil {
		return nil, err
	}
	args := []string{"--bind", "127.0.0.1", "--port", fmt.Sprint(port), "--data_dir", filepath.Join(dir, "data"),
		"--log", filepath.Join(dir, "server.log"), "--log_level", "ERROR", "--db_fast_key_count", "65536"}
	cmd := exec.Command(bin, args...)
	cmd.Dir = dir
	out, _ := os.Create(filepath.Join(dir, "stdout.log"))
	cmd.Stdout, cmd.Stderr = out, out
	cmd.SysProcAttr = &syscall.SysProcAttr{Pdeathsig: syscall.SIGKILL}
	if err := cmd.Start(); err != nil {
		return nil, err
	}
	c := &child{cmd, port, dir}
	deadline := time.Now().Add(20 * time.Second)
	for time.Now().Before(deadline) {
		conn, err := net.DialTimeout("tcp", fmt.Sprintf("127.0.0.1:%d", port), 200*time.Millisecond)
		if err == nil {
			_ = conn.Close()
			time.Sleep(100 * time.Millisecond)
			return c, nil
		}
		time.Sleep(50 * time.Millisecond)
	}
	c.stop()
	return nil, fmt.Errorf("server on port %d did not start listening", port)
}

func (c *child) alive() bool {
	if c == nil || c.cmd == nil || c.cmd.Process == nil {
		return false
	}
	return c.cmd.Process.Signal(syscall.Signal(0)) == nil && c.cmd.ProcessState == nil
}

func (c *child) stop() {
	if c == nil || c.cmd == nil || c.cmd.Process == nil {
		return
	}
	_ = c.cmd.Process.Kill()
	_, _ = c.cmd.Process.Wait()
}

func (c *child) logTail() string {
	var sb strings.Builder
	for _, f := range []string{"stdout.log", "server.log"} {
		b, err := os.ReadFile(filepath.Join(c.dir, f))
		if err == nil && len(b) > 0 {
			if len(b) > 3000 {
				b = b[len(b)-3000:]
			}
			sb.WriteString("== " + f + "\n" + string(b) + "\n")
		}
	}
	return sb.String()
}

// dbState asks the server (text INFO command) for locked_count / wait_count of one database.
func dbState(addr string, db int) (locked, wait int, err error) {
	tc, err := dialText(-1, addr)
	if err != nil {
		return 0, 0, err
	}
	defer tc.c.Close()
	rep, err := tc.cmd([]string{"INFO", "keyspace"}, 5*time.Second)
	if err != nil {
		return 0, 0, err
	}
	prefix := fmt.Sprintf("db%d:", db)
	for _, blk := range rep {
		for _, line := range strings.Split(blk, "\r\n") {
			if strings.HasPrefix(line, prefix) {
				for _, kv := range strings.Split(line[len(prefix):], ",") {
					p := strings.SplitN(kv, "=", 2)
					if len(p) != 2 {
						continue
					}
					v, _ := strconv.Atoi(p[1])
					switch p[0] {
					case "locked_count":
						locked = v
					case "wait_count":
						wait = v
					}
				}
				return locked, wait, nil
			}
		}
	}
	return 0, 0, nil // database never used
}
