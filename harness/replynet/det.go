package main

// Deterministic replay of the command-object recycling race behind the lost / misaddressed grant replies.
//
// A grant with Expried > 0 hands the request's command object over to the lock record (under the shard mutex),
// releases the shard mutex and only THEN builds the reply from that object — after taking the addressee connection's
// write mutex (BinaryServerProtocol.glock / TextServerProtocol.glock). While the granting goroutine waits for that
// mutex (in production: another goroutine is writing a reply to the same socket), an UNLOCK with the unlock-first
// flag from another connection removes the hold and pushes the command object onto the RELEASER's connection-local
// free list (db.go UnLock: serverProtocol.FreeLockCommand(currentLockCommand)); the releaser's next requests pop it
// and overwrite it. When the granting goroutine finally builds its reply it reads the other request's fields.
//
// The replay parks the granting goroutine exactly there by holding the addressee's connection mutex through the
// exported ServerProtocol.Lock() (nothing else is touched: no hook, no sleep-based race). Needs build tag `verif` and
// the injected helpers of inj/zz_verif_replynet.go (read-only inspection).

import (
	"encoding/hex"
	"fmt"
	"os"
	"path/filepath"
	"time"

	"github.com/jessevdk/go-flags"
	"github.com/snower/slock/protocol"
	"github.com/snower/slock/server"
)

type DetStep struct {
	N    int    `json:"n"`
	What string `json:"what"`
}

type DetVariant struct {
	Variant    string               `json:"variant"`
	Steps      []DetStep            `json:"steps"`
	Frames     map[string][]FrameView `json:"frames_received"` // per connection name
	Sent       map[string][]FrameView `json:"frames_sent"`
	Text       []TextExchange       `json:"text,omitempty"`
	Reproduced bool                 `json:"reproduced"` // the victim's reply is lost and/or a frame with a foreign RequestId is delivered
	Sig        string               `json:"sig,omitempty"`
	Outcome    string               `json:"outcome"`
	Error      string               `json:"error,omitempty"`
}

type DetOutput struct {
	Variants []DetVariant `json:"variants"`
	Fatal    string       `json:"fatal,omitempty"`
}

type detEnv struct {
	slock *server.SLock
	srv   *server.Server
	addr  string
	seq   uint64
	db    int
}

func (e *detEnv) proto(local string) server.ServerProtocol {
	deadline := time.Now().Add(2 * time.Second)
	for time.Now().Before(deadline) {
		if p, ok := server.VerifRNProtocols(e.srv)[local]; ok {
			return p
		}
		time.Sleep(time.Millisecond)
	}
	return nil
}

func detKey(db int, name string) [16]byte {
	var k [16]byte
	copy(k[:], []byte(fmt.Sprintf("det%03d-%s", db, name)))
	return k
}

func (e *detEnv) cmd(conn int, typ uint8, key, lockId [16]byte, flag uint8, timeout, expried, count uint16) *protocol.LockCommand {
	c := &protocol.LockCommand{}
	c.Magic, c.Version, c.CommandType = protocol.MAGIC, protocol.VERSION, typ
	g := idGen{e.db, conn, 0, &e.seq}
	c.RequestId = g.next('R', kPair)
	c.DbId = uint8(e.db)
	c.Flag = flag
	c.LockId, c.LockKey = lockId, key
	c.Timeout, c.Expried, c.Count = timeout, expried, count
	return c
}

func lid(name string) [16]byte {
	var k [16]byte
	copy(k[:], []byte("lockid-"+name))
	return k
}

func p2s(p *protocol.LockCommand) string { return fmt.Sprintf("%p", p) }

// waitKey polls the shard state of a key until cond holds.
func (e *detEnv) waitKey(key [16]byte, cond func(server.VerifRNKeyState) bool) (server.VerifRNKeyState, bool) {
	deadline := time.Now().Add(3 * time.Second)
	for {
		st := server.VerifRNKey(e.slock, uint8(e.db), key)
		if cond(st) {
			return st, true
		}
		if time.Now().After(deadline) {
			return st, false
		}
		time.Sleep(200 * time.Microsecond)
	}
}

func runDetVariant(e *detEnv, variant string) (dv DetVariant) {
	dv = DetVariant{Variant: variant, Frames: map[string][]FrameView{}, Sent: map[string][]FrameView{}}
	step := func(f string, a ...interface{}) {
		dv.Steps = append(dv.Steps, DetStep{len(dv.Steps) + 1, fmt.Sprintf(f, a...)})
	}
	fail := func(f string, a ...interface{}) DetVariant {
		dv.Error = fmt.Sprintf(f, a...)
		return dv
	}
	e.db++ // a fresh database per variant
	K := detKey(e.db, "K")
	patience := 2 * time.Second

	var H, U, Wb *binConn
	var Wt *textConn
	var err error
	conns := map[string]*binConn{}
	defer func() {
		for name, bc := range conns {
			bc.close()
			for i := range bc.recv {
				dv.Frames[name] = append(dv.Frames[name], viewRecv(bc.idx, i, &bc.recv[i]))
			}
			for i := range bc.sent {
				dv.Sent[name] = append(dv.Sent[name], viewSent(bc.idx, i, &bc.sent[i]))
			}
		}
		if Wt != nil {
			_ = Wt.c.Close()
			dv.Text = Wt.log
		}
	}()
	if U, err = dialBin(2, e.addr, true, e.db); err != nil {
		return fail("dial U: %v", err)
	}
	conns["U(releaser,conn2)"] = U
	pU := e.proto(U.local)
	if pU == nil {
		return fail("no server-side protocol object for U")
	}

	var victimProto server.ServerProtocol
	var victimReq *protocol.LockCommand
	var victimCh chan *Rec
	victimName := "W(victim,conn1)"
	wid := lid("w-" + variant)

	switch variant {
	case "wake", "text":
		if H, err = dialBin(0, e.addr, true, e.db); err != nil {
			return fail("dial H: %v", err)
		}
		conns["H(holder,conn0)"] = H
		hc := e.cmd(0, protocol.COMMAND_LOCK, K, lid("h-"+variant), 0, 5, 60, 0)
		r, ok := H.call(hc, patience)
		if !ok || r.Raw[19] != 0 {
			return fail("H lock failed")
		}
		step("H: LOCK K (lock id h, expiry 60 s) -> SUCCED; H holds K")
		if variant == "wake" {
			if Wb, err = dialBin(1, e.addr, true, e.db); err != nil {
				return fail("dial W: %v", err)
			}
			conns[victimName] = Wb
			victimProto = e.proto(Wb.local)
			victimReq = e.cmd(1, protocol.COMMAND_LOCK, K, wid, 0, 30, 60, 0)
			if victimCh, err = Wb.send(victimReq); err != nil {
				return fail("W send: %v", err)
			}
			step("W: LOCK K (lock id w, RequestId %x, timeout 30 s, expiry 60 s) -> queued behind H", victimReq.RequestId)
		} else {
			if Wt, err = dialText(100, e.addr); err != nil {
				return fail("dial text W: %v", err)
			}
			ex := TextExchange{Conn: 100, T0: now(), Args: []string{"SELECT", fmt.Sprint(e.db)}}
			ex.Reply, err = Wt.cmd(ex.Args, patience)
			Wt.log = append(Wt.log, ex)
			if err != nil {
				return fail("text SELECT: %v", err)
			}
			victimProto = e.proto(Wt.c.LocalAddr().String())
			args := []string{"LOCK", hex.EncodeToString(K[:]), "LOCK_ID", hex.EncodeToString(wid[:]), "TIMEOUT", "30", "EXPRIED", "60", "COUNT", "1"}
			Wt.log = append(Wt.log, TextExchange{Conn: 100, Idx: 1, T0: now(), Args: args, Type: 1, Kind: "victim", LockId: hex.EncodeToString(wid[:])})
			if _, err = Wt.c.Write(respEncode(args)); err != nil {
				return fail("text W send: %v", err)
			}
			step("W (TEXT connection): LOCK K LOCK_ID w TIMEOUT 30 EXPRIED 60 -> queued behind H")
		}
		if victimProto == nil {
			return fail("no server-side protocol object for W")
		}
		if _, ok := e.waitKey(K, func(s server.VerifRNKeyState) bool { return s.Exists && s.Waited && s.Locked == 1 }); !ok {
			return fail("W was not queued")
		}
		victimProto.Lock()
		step("harness takes W's connection write mutex (ServerProtocol.Lock): stands for a reply to W's socket being written by another goroutine")
		uc := e.cmd(0, protocol.COMMAND_UNLOCK, K, lid("h-"+variant), 0, 5, 60, 0)
		r, ok = H.call(uc, patience)
		if !ok || r.Raw[19] != 0 {
			victimProto.Unlock()
			return fail("H unlock failed")
		}
		step("H: UNLOCK K -> SUCCED; H's request goroutine goes on into wakeUpWaitLocks: grants K to W under the shard mutex, releases the shard mutex, and parks on W's connection mutex BEFORE it has read the fields of W's command object")
	case "direct":
		if Wb, err = dialBin(1, e.addr, true, e.db); err != nil {
			return fail("dial W: %v", err)
		}
		conns[victimName] = Wb
		victimProto = e.proto(Wb.local)
		if victimProto == nil {
			return fail("no server-side protocol object for W")
		}
		// warm-up: a fresh connection has an empty connection-local free list and would fetch a command object from
		// the mutex-protected list (GetLockCommandLocked) — one answered request leaves an object on the local list
		wc := e.cmd(1, protocol.COMMAND_LOCK, detKey(e.db, "warm"), lid("warm-"+variant), 0, 0, 0, 0)
		if r, ok := Wb.call(wc, patience); !ok || r.Raw[19] != 0 {
			return fail("W warm-up lock failed")
		}
		step("W: LOCK Kwarm with expiry 0 -> SUCCED (nothing held; leaves one command object on W's connection-local free list)")
		victimProto.Lock()
		step("harness takes W's connection write mutex (ServerProtocol.Lock)")
		victimReq = e.cmd(1, protocol.COMMAND_LOCK, K, wid, 0, 30, 60, 0)
		if victimCh, err = Wb.send(victimReq); err != nil {
			victimProto.Unlock()
			return fail("W send: %v", err)
		}
		step("W: LOCK K (lock id w, RequestId %x, expiry 60 s) on the free key: W's own request goroutine grants it under the shard mutex, releases the shard mutex and parks on the connection mutex before building the reply", victimReq.RequestId)
	}
	st, ok := e.waitKey(K, func(s server.VerifRNKeyState) bool { return s.Exists && s.Locked == 1 && s.HeadId == wid })
	if !ok {
		victimProto.Unlock()
		return fail("the grant to W did not happen (locked=%d head=%x)", st.Locked, st.HeadId)
	}
	cmdW := st.HeadCmd
	time.Sleep(30 * time.Millisecond) // the granting goroutine has nothing left to do but to block on the mutex
	step("server state: K is held by lock id w; W's command object is %s (owned by the lock record); the SUCCED reply to W is in flight", p2s(cmdW))

	uf := e.cmd(2, protocol.COMMAND_UNLOCK, K, [16]byte{}, protocol.UNLOCK_FLAG_UNLOCK_FIRST_LOCK_WHEN_UNLOCKED, 5, 60, 0)
	r, ok2 := U.call(uf, patience)
	if !ok2 || r.Raw[19] != 0 {
		victimProto.Unlock()
		return fail("U unlock-first failed (result %d)", r.Raw[19])
	}
	var named [16]byte
	copy(named[:], r.Raw[22:38])
	onList := false
	for _, c := range server.VerifRNFreeCommands(pU) {
		if c == cmdW {
			onList = true
		}
	}
	step("U: UNLOCK K with the unlock-first flag and a zero LockId (Semaphore.Release) -> SUCCED naming lock id %x (= w: %v); W's command object %s is now on U's connection-local free list: %v", named, named == wid, p2s(cmdW), onList)

	var reuser *protocol.LockCommand
	for i := 0; i < 8 && reuser == nil; i++ {
		Ki := detKey(e.db, fmt.Sprintf("K%d", i+2))
		lc := e.cmd(2, protocol.COMMAND_LOCK, Ki, lid(fmt.Sprintf("u%d-%s", i, variant)), 0, 5, 60, 0)
		r, ok := U.call(lc, patience)
		if !ok || r.Raw[19] != 0 {
			victimProto.Unlock()
			return fail("U follow-up lock failed")
		}
		ks := server.VerifRNKey(e.slock, uint8(e.db), Ki)
		if ks.HeadCmd == cmdW {
			reuser = lc
			step("U: LOCK K%d (RequestId %x) -> SUCCED; the server decoded this request INTO W's former command object %s (popped from U's free list)", i+2, lc.RequestId, p2s(cmdW))
		} else {
			step("U: LOCK K%d (RequestId %x) -> SUCCED (command object %s)", i+2, lc.RequestId, p2s(ks.HeadCmd))
		}
	}
	victimProto.Unlock()
	step("harness releases W's connection mutex: the parked goroutine builds W's reply from the object it was given")
	time.Sleep(300 * time.Millisecond)

	// ---- what did W get?
	switch variant {
	case "wake", "direct":
		_, got := Wb.wait(victimReq, victimCh, 700*time.Millisecond)
		foreign := 0
		own := map[[16]byte]bool{}
		for i := range Wb.sent {
			var id [16]byte
			copy(id[:], Wb.sent[i].Raw[3:19])
			own[id] = true
		}
		for i := range Wb.recv {
			var id [16]byte
			copy(id[:], Wb.recv[i].Raw[3:19])
			if !own[id] {
				foreign++
			}
		}
		ks := server.VerifRNKey(e.slock, uint8(e.db), K)
		dv.Reproduced = !got || foreign > 0
		if dv.Reproduced {
			dv.Sig = sigRecycle
			dv.Outcome = fmt.Sprintf("W's request %x got %s reply; W's connection received %d frame(s) carrying a RequestId it never sent (%d frame(s) in all); K now has %d hold(s) and W will wait until its client-side timeout", victimReq.RequestId, map[bool]string{true: "a", false: "NO"}[got], foreign, len(Wb.recv), ks.Locked)
		} else {
			dv.Outcome = fmt.Sprintf("W received exactly its own reply (RequestId %x) although its command object was recycled meanwhile (reused: %v): the reply is built from a private copy", victimReq.RequestId, reuser != nil)
		}
	case "text":
		_ = Wt.c.SetReadDeadline(time.Now().Add(1500 * time.Millisecond))
		rep, rerr := respRead(Wt.br)
		ex := &Wt.log[len(Wt.log)-1]
		ex.T1 = now()
		ex.Reply = rep
		if rerr != nil {
			ex.Err = rerr.Error()
		}
		ks := server.VerifRNKey(e.slock, uint8(e.db), K)
		dv.Reproduced = rerr != nil || len(rep) < 4 || rep[3] != hex.EncodeToString(wid[:])
		if dv.Reproduced {
			dv.Sig = sigRecycle
			dv.Outcome = fmt.Sprintf("the text connection's LOCK got no (or a foreign) reply within 1.5 s (reply=%q err=%v); K has %d hold(s), waiters flagged: %v — the grant reply was compared with lockRequestId using the recycled object's RequestId and dropped; the connection's goroutine stays blocked on lockWaiter", rep, rerr, ks.Locked, ks.Waited)
		} else {
			dv.Outcome = "the text connection received the reply of its own LOCK"
		}
	}
	return dv
}

func runDet(variant string, port int, scratch string) *DetOutput {
	out := &DetOutput{}
	if scratch == "" {
		out.Fatal = "need -scratch"
		return out
	}
	if err := os.MkdirAll(filepath.Join(scratch, "data"), 0o755); err != nil {
		out.Fatal = err.Error()
		return out
	}
	_ = os.Chdir(scratch)
	cfg := &server.ServerConfig{}
	_, _ = flags.NewParser(cfg, flags.Default).ParseArgs([]string{})
	cfg.Bind, cfg.Port = "127.0.0.1", uint(port)
	cfg.DataDir = filepath.Join(scratch, "data")
	cfg.Log = filepath.Join(scratch, "server.log")
	cfg.LogLevel = "ERROR"
	cfg.DBFastKeyCount = 65536
	logger, err := server.InitLogger(cfg)
	if err != nil {
		out.Fatal = err.Error()
		return out
	}
	slock := server.NewSLock(cfg, logger)
	srv := server.NewServer(slock)
	if err := slock.Init(srv); err != nil {
		out.Fatal = "init: " + err.Error()
		return out
	}
	if err := srv.Listen(); err != nil {
		out.Fatal = "listen: " + err.Error()
		return out
	}
	go srv.Serve()
	time.Sleep(200 * time.Millisecond)
	e := &detEnv{slock: slock, srv: srv, addr: fmt.Sprintf("127.0.0.1:%d", port), db: 200}
	vars := []string{variant}
	if variant == "all" {
		vars = []string{"wake", "direct", "text"}
	}
	for _, v := range vars {
		out.Variants = append(out.Variants, runDetVariant(e, v))
	}
	return out
}
