package main

// The monitor: the connection-level statement of C03 evaluated on the logs of a finished scenario.
//
//	(M1) every frame a connection receives carries a RequestId that was sent on THAT connection
//	(M2) its echo (command type, db, key, lock id) is the request's
//	(M3) per (connection, RequestId) at most one terminal reply, at most one EXPRIED notice, the notice only after SUCCED
//	(M4) after the drain period every request has exactly one terminal reply
//	(M5) the server's LockedCount / WaitCount equal what the replies imply (no orphan hold, no leftover waiter)
//	(T1-T3) text connections: one reply per command, its LOCK_ID is the command's, never EXPRIED / a foreign late
//	        reply taken for the current command; nothing arrives while the connection is idle
//
// Mechanism attribution (signature `reply:lost-or-misaddressed:unlock-first-frees-foreign-command`): a LOCK request X of
// connection A has no reply, an UNLOCK with the unlock-first flag sent on connection B was answered SUCCED naming X's LockId
// (so X WAS granted and its hold was taken away before its owner heard of it), and — when present — the frame that
// went astray: a frame on A whose RequestId belongs to a request B sent after that unlock (built from X's recycled
// command object).

import (
	"encoding/hex"
	"fmt"
	"sort"
	"strconv"

	"github.com/snower/slock/protocol"
)

const sigRecycle = "reply:lost-or-misaddressed:unlock-first-frees-foreign-command"

// same mechanism, the hold was taken away by an UNLOCK that names the LockId (a client that pipelines the UNLOCK /
// cancel-wait behind its own LOCK without waiting for the grant, or any party that knows the LockId)
const sigRecycleById = "reply:lost-or-misaddressed:unlock-frees-in-flight-command"

func recycleSig(first bool) string {
	if first {
		return sigRecycle
	}
	return sigRecycleById
}

type sentInfo struct {
	conn, idx int
	cmd       protocol.LockCommand
	t         int64
	terminal  int // index in recv log of the first terminal reply, -1 none
	nTerm     int
	nExp      int
}

type relInfo struct { // an UNLOCK ... SUCCED reply naming a LockId
	conn    int
	idx     int // recv idx (binary) or exchange idx (text)
	text    bool
	first   bool
	reqSent int64
	req     *sentInfo
}

func resName(r int) string {
	names := []string{"SUCCED", "UNKNOWN_MAGIC", "UNKNOWN_VERSION", "UNKNOWN_DB", "UNKNOWN_COMMAND", "LOCKED_ERROR", "UNLOCK_ERROR", "UNOWN_ERROR", "TIMEOUT", "EXPRIED", "STATE_ERROR", "ERROR", "LOCK_ACK_WAITING"}
	if r >= 0 && r < len(names) {
		return names[r]
	}
	return "RESULT_" + strconv.Itoa(r)
}

func kindOfReq(id [16]byte) string {
	if id[14] == 0xC3 {
		if n, ok := kindName[int(id[15])]; ok {
			return n
		}
	}
	return "?"
}

func monitor(rc *runCtx, res *ScenResult, srvLocked, srvWait int, reread func() (int, int)) []Violation {
	s := rc.s
	var vs []Violation
	add := func(sig, what string, frames []FrameView, text []TextExchange) {
		vs = append(vs, Violation{Scenario: s.ID, Sig: sig, What: what, Frames: frames, Text: text, Params: *s})
	}
	res.ByKind = map[string]int{}
	res.ByResult = map[string]int{}

	all := map[[16]byte]*sentInfo{}
	for _, bc := range rc.bins {
		for i := range bc.sent {
			si := &sentInfo{conn: bc.idx, idx: i, t: bc.sent[i].T, terminal: -1}
			_ = si.cmd.Decode(bc.sent[i].Raw[:])
			all[si.cmd.RequestId] = si
			res.Requests++
			res.ByKind[kindOfReq(si.cmd.RequestId)]++
		}
	}
	grants := map[[16]byte]int{}
	ambiguous := map[[16]byte]bool{} // LockIds of LOCK requests with more than one terminal reply: which one is genuine is unknown
	shortExp := map[[16]byte]bool{}
	removals := map[[16]byte][]relInfo{}
	type pending struct {
		conn, idx int
		sig, what string
		req       *sentInfo // owner of the RequestId (another connection, or this one for duplicates)
	}
	var astray []pending

	for _, bc := range rc.bins {
		ci := bc.idx
		for i := range bc.recv {
			r := &bc.recv[i]
			res.Frames++
			var f protocol.LockResultCommand
			_ = f.Decode(r.Raw[:])
			res.ByResult[resName(int(f.Result))]++
			si := all[f.RequestId]
			if si == nil {
				astray = append(astray, pending{ci, i, "reply:foreign-request-id:never-sent", fmt.Sprintf("connection %d received a %s frame whose RequestId %x was sent by nobody", ci, resName(int(f.Result)), f.RequestId), nil})
				continue
			}
			if si.conn != ci {
				astray = append(astray, pending{ci, i, "reply:foreign-request-id", fmt.Sprintf("connection %d received a %s frame with RequestId %x, which was sent on connection %d (request #%d there), not on this one", ci, resName(int(f.Result)), f.RequestId, si.conn, si.idx), si})
				continue
			}
			// (M2) echo
			unlockFirst := si.cmd.CommandType == protocol.COMMAND_UNLOCK && si.cmd.Flag&protocol.UNLOCK_FLAG_UNLOCK_FIRST_LOCK_WHEN_UNLOCKED != 0
			if f.CommandType != si.cmd.CommandType || f.DbId != si.cmd.DbId || f.LockKey != si.cmd.LockKey || (!unlockFirst && f.LockId != si.cmd.LockId) {
				add("reply:echo-mismatch", fmt.Sprintf("connection %d: the reply to request %x does not echo the request (type %d/%d key %x/%x lock id %x/%x): built from another command", ci, f.RequestId, f.CommandType, si.cmd.CommandType, f.LockKey, si.cmd.LockKey, f.LockId, si.cmd.LockId),
					[]FrameView{viewSent(ci, si.idx, &bc.sent[si.idx]), viewRecv(ci, i, r)}, nil)
			}
			if f.Result == protocol.RESULT_EXPRIED {
				res.Expried++
				si.nExp++
				ok := si.cmd.CommandType == protocol.COMMAND_LOCK && si.terminal >= 0 && bc.recv[si.terminal].Raw[19] == protocol.RESULT_SUCCED
				if !ok {
					add("reply:expried-without-grant", fmt.Sprintf("connection %d: EXPRIED notice for request %x that has no earlier SUCCED reply on this connection", ci, f.RequestId),
						[]FrameView{viewSent(ci, si.idx, &bc.sent[si.idx]), viewRecv(ci, i, r)}, nil)
				}
				if si.nExp > 1 {
					add("reply:duplicate-expried", fmt.Sprintf("connection %d: second EXPRIED notice for request %x", ci, f.RequestId),
						[]FrameView{viewSent(ci, si.idx, &bc.sent[si.idx]), viewRecv(ci, i, r)}, nil)
				} else {
					removals[f.LockId] = append(removals[f.LockId], relInfo{conn: ci, idx: i})
				}
				continue
			}
			si.nTerm++
			if si.nTerm > 1 {
				if si.cmd.CommandType == protocol.COMMAND_LOCK {
					ambiguous[si.cmd.LockId] = true
				}
				astray = append(astray, pending{ci, i, "reply:duplicate-terminal", fmt.Sprintf("connection %d: request %x got a second terminal reply (%s after %s)", ci, f.RequestId, resName(int(f.Result)), resName(int(bc.recv[si.terminal].Raw[19]))), si})
				continue
			}
			si.terminal = i
			if lat := r.T - si.t; lat > 0 {
				if lat/1000000 > res.MaxLatencyMs {
					res.MaxLatencyMs = lat / 1000000
				}
				if lat > int64(rc.patience) && rc.patience > 0 {
					res.LateReplies++
				}
			}
			if f.Result == protocol.RESULT_SUCCED {
				if si.cmd.CommandType == protocol.COMMAND_LOCK {
					if si.cmd.Expried > 0 {
						grants[f.LockId]++
						if si.cmd.ExpriedFlag&protocol.EXPRIED_FLAG_MILLISECOND_TIME != 0 {
							shortExp[f.LockId] = true
						}
					}
					if r.T-si.t >= 200000 {
						res.QueuedGrants++
					}
					if kindOfReq(si.cmd.RequestId) == "sem" {
						res.SemAcquired++
					}
				} else {
					removals[f.LockId] = append(removals[f.LockId], relInfo{conn: ci, idx: i, first: unlockFirst, reqSent: si.t, req: si})
					if kindOfReq(si.cmd.RequestId) == "sem" {
						res.SemReleased++
					}
				}
			}
		}
		for i := range bc.other {
			if bc.other[i].Raw[2] != protocol.COMMAND_INIT {
				add("reply:unexpected-frame-type", fmt.Sprintf("connection %d received a frame of command type %d", ci, bc.other[i].Raw[2]), []FrameView{viewRecv(ci, i, &bc.other[i])}, nil)
			}
		}
	}

	// ---- text connections
	for _, tc := range rc.texts {
		for i := range tc.log {
			ex := &tc.log[i]
			if ex.Type == 0 {
				continue
			}
			res.TextCmds++
			res.ByKind["text-"+ex.Kind]++
			if ex.Err != "" || len(ex.Reply) == 0 {
				continue // handled below with the other missing replies
			}
			if len(ex.Reply) < 12 {
				add("reply:text:malformed", fmt.Sprintf("text connection %d: reply %q to %v", ex.Conn, ex.Reply, ex.Args), nil, []TextExchange{*ex})
				continue
			}
			result, _ := strconv.Atoi(ex.Reply[0])
			res.ByResult["text-"+resName(result)]++
			if !ex.First && ex.Reply[3] != ex.LockId {
				add("reply:text:foreign-lock-id", fmt.Sprintf("text connection %d: the reply to %s %s carries LOCK_ID %s, the command's is %s: the reply of another command was taken for the current one", ex.Conn, ex.Args[0], ex.Kind, ex.Reply[3], ex.LockId), nil, textCtx(tc, i))
			}
			if result == protocol.RESULT_EXPRIED || (ex.Type == 2 && result == protocol.RESULT_TIMEOUT) {
				add("reply:text:late-reply-taken-for-current", fmt.Sprintf("text connection %d: %s answered with %s, an asynchronous notice of an earlier command", ex.Conn, ex.Args[0], resName(result)), nil, textCtx(tc, i))
			}
			if result == protocol.RESULT_SUCCED {
				var id [16]byte
				b, _ := hex.DecodeString(ex.Reply[3])
				copy(id[:], b)
				if ex.Type == 1 {
					grants[id]++
					if ex.Expried != 0 {
						shortExp[id] = true
					}
					if ex.Kind == "sem" {
						res.SemAcquired++
					}
				} else {
					removals[id] = append(removals[id], relInfo{conn: ex.Conn, idx: i, text: true, first: ex.First, reqSent: ex.T0})
					if ex.Kind == "sem" {
						res.SemReleased++
					}
				}
			}
		}
		if len(tc.extra) > 0 {
			add("reply:text:unsolicited", fmt.Sprintf("text connection %d received %d unsolicited chunk(s) while idle: %q", tc.idx, len(tc.extra), tc.extra[0]), nil, nil)
		}
	}

	binOf := func(ci int) *binConn { return rc.bins[ci] }
	relFrames := func(ri relInfo) ([]FrameView, []TextExchange) {
		if ri.text {
			return nil, []TextExchange{rc.texts[ri.conn-100].log[ri.idx]}
		}
		bc := binOf(ri.conn)
		fv := []FrameView{}
		if ri.req != nil {
			v := viewSent(ri.conn, ri.req.idx, &bc.sent[ri.req.idx])
			v.Note = "the releasing request"
			fv = append(fv, v)
		}
		v := viewRecv(ri.conn, ri.idx, &bc.recv[ri.idx])
		v.Note = "its reply names the lost request's LockId"
		return append(fv, v), nil
	}

	// ---- (M4) missing terminal replies; attribution
	type lostT struct {
		conn    int
		si      *sentInfo
		rel     *relInfo
		claimed bool
	}
	var lost []*lostT
	for _, si := range all {
		if si.nTerm == 0 {
			l := &lostT{conn: si.conn, si: si}
			if si.cmd.CommandType == protocol.COMMAND_LOCK {
				if rs := removals[si.cmd.LockId]; len(rs) > 0 {
					l.rel = &rs[0]
				}
			}
			lost = append(lost, l)
		}
	}
	sort.Slice(lost, func(i, j int) bool { return lost[i].si.t < lost[j].si.t })
	// frames that went astray: pair with a lost request of the same connection whose hold was released by the owner of
	// the stray frame's RequestId
	// pass 0: strict pairing (the stray frame's request was sent by the releasing connection after the release);
	// pass 1: relaxed (the object travelled through more than one free list before the parked reply was built)
	done := make([]bool, len(astray))
	for pass := 0; pass < 2; pass++ {
		for ai, p := range astray {
			if done[ai] || p.req == nil {
				continue
			}
			bc := binOf(p.conn)
			for _, l := range lost {
				if l.conn != p.conn || l.claimed || l.rel == nil {
					continue
				}
				if pass == 0 && !(l.rel.conn == p.req.conn && p.req.t >= l.rel.reqSent) {
					continue
				}
				if pass == 1 && !(bc.recv[p.idx].T >= l.rel.reqSent) {
					continue
				}
				l.claimed = true
				done[ai] = true
				ob := binOf(p.req.conn)
				o := viewSent(p.req.conn, p.req.idx, &ob.sent[p.req.idx])
				o.Note = "the request this RequestId belongs to"
				frames := []FrameView{o}
				if p.req.terminal >= 0 {
					g := viewRecv(p.req.conn, p.req.terminal, &ob.recv[p.req.terminal])
					g.Note = "its genuine reply"
					frames = append(frames, g)
				}
				x := viewSent(l.conn, l.si.idx, &bc.sent[l.si.idx])
				x.Note = "the request that never got a reply"
				frames = append(frames, x)
				rf, rt := relFrames(*l.rel)
				frames = append(frames, rf...)
				v := viewRecv(p.conn, p.idx, &bc.recv[p.idx])
				v.Note = "the frame that went astray"
				frames = append(frames, v)
				how := fmt.Sprintf("the stray frame's request was sent on connection %d after that unlock", p.req.conn)
				if pass == 1 {
					how = fmt.Sprintf("the stray frame arrived after that unlock (its RequestId belongs to connection %d: the object went through more than one free list while the reply was pending)", p.req.conn)
				}
				add(recycleSig(l.rel.first), p.what+fmt.Sprintf("; LOCK request %x of connection %d (lock id %x) never got a reply although it was granted: an UNLOCK (unlock-first: %v) on connection %d was answered SUCCED naming its LockId before, and %s — the reply of the lost request was built from its recycled command object", l.si.cmd.RequestId, l.conn, l.si.cmd.LockId, l.rel.first, l.rel.conn, how), frames, rt)
				break
			}
		}
	}
	for ai, p := range astray {
		if done[ai] {
			continue
		}
		bc := binOf(p.conn)
		frames := []FrameView{}
		if p.req != nil {
			ob := binOf(p.req.conn)
			o := viewSent(p.req.conn, p.req.idx, &ob.sent[p.req.idx])
			o.Note = "the request this RequestId belongs to"
			frames = append(frames, o)
			if p.req.terminal >= 0 {
				g := viewRecv(p.req.conn, p.req.terminal, &ob.recv[p.req.terminal])
				g.Note = "its genuine reply"
				frames = append(frames, g)
			}
		}
		v := viewRecv(p.conn, p.idx, &bc.recv[p.idx])
		v.Note = "the frame that went astray"
		frames = append(frames, v)
		add(p.sig, p.what, frames, nil)
	}
	for _, l := range lost {
		if l.claimed {
			continue
		}
		bc := binOf(l.conn)
		x := viewSent(l.conn, l.si.idx, &bc.sent[l.si.idx])
		x.Note = "the request that never got a reply"
		typ := "lock"
		if l.si.cmd.CommandType == protocol.COMMAND_UNLOCK {
			typ = "unlock"
		}
		kind := kindOfReq(l.si.cmd.RequestId)
		if l.rel != nil {
			rf, rt := relFrames(*l.rel)
			add(recycleSig(l.rel.first), fmt.Sprintf("LOCK request %x (%s) on connection %d never got a terminal reply within timeout+3 s although it was granted: an UNLOCK (unlock-first: %v) on connection %d was answered SUCCED naming its LockId %x (the hold was taken away before its owner heard of it; no stray frame was seen on the connection — dropped, or written to a text connection's filter)", l.si.cmd.RequestId, kind, l.conn, l.rel.first, l.rel.conn, l.si.cmd.LockId),
				append([]FrameView{x}, rf...), rt)
			continue
		}
		what := fmt.Sprintf("%s request %x (%s) on connection %d never got a terminal reply within timeout+3 s", typ, l.si.cmd.RequestId, kind, l.conn)
		fv := []FrameView{x}
		var tx []TextExchange
		if l.rel != nil {
			rf, rt := relFrames(*l.rel)
			fv = append(fv, rf...)
			tx = rt
			what += fmt.Sprintf("; its hold was released through connection %d", l.rel.conn)
		}
		add("reply:missing:"+typ+":"+kind, what, fv, tx)
	}
	for _, tc := range rc.texts {
		for i := range tc.log {
			ex := &tc.log[i]
			if ex.Type == 0 || (ex.Err == "" && len(ex.Reply) > 0) {
				continue
			}
			var id [16]byte
			b, _ := hex.DecodeString(ex.LockId)
			copy(id[:], b)
			if ex.Type == 1 {
				if rs := removals[id]; len(rs) > 0 {
					rf, rt := relFrames(rs[0])
					add(recycleSig(rs[0].first), fmt.Sprintf("text connection %d: %v never got a reply (%s) although the lock was granted: an UNLOCK on connection %d was answered SUCCED naming its LOCK_ID", ex.Conn, ex.Args, ex.Err, rs[0].conn), rf, append([]TextExchange{*ex}, rt...))
					continue
				}
			}
			add("reply:missing:text", fmt.Sprintf("text connection %d: %v got no reply (%s)", ex.Conn, ex.Args, ex.Err), nil, textCtx(tc, i))
		}
	}

	// ---- (M5) state
	implied, slack := 0, 0
	for id := range ambiguous {
		if !shortExp[id] && len(removals[id]) == 0 {
			slack++ // a duplicated reply: the hold exists or not, depending on which of the two frames is the genuine one
		}
	}
	for id, n := range grants {
		if shortExp[id] || ambiguous[id] {
			continue // expired during the drain period at the latest / see slack
		}
		if len(removals[id]) == 0 {
			implied += n
		}
	}
	unannounced := 0
	for id, rs := range removals {
		if grants[id] == 0 && len(rs) > 0 && (rs[0].req != nil || rs[0].text) {
			unannounced++
		}
	}
	res.Implied = implied
	res.ServerLocked = [2]int{srvLocked, srvLocked}
	res.ServerWait = srvWait
	if srvLocked < implied || srvLocked > implied+slack || srvWait != 0 {
		l2, w2 := reread()
		res.ServerLocked[1] = l2
		if l2 < implied || l2 > implied+slack {
			add("state:locked-count-mismatch", fmt.Sprintf("after the drain period the server reports locked_count=%d (then %d one second later) for db %d, the replies imply %d hold(s); %d release(s) named a LockId whose grant no connection ever heard of", srvLocked, l2, s.Db, implied, unannounced), nil, nil)
		}
		if w2 != 0 {
			res.ServerWait = w2
			add("state:wait-count-nonzero", fmt.Sprintf("after the drain period (every timeout passed) the server still reports wait_count=%d for db %d", w2, s.Db), nil, nil)
		}
	}
	return vs
}

func textCtx(tc *textConn, i int) []TextExchange {
	lo := i - 2
	if lo < 0 {
		lo = 0
	}
	return append([]TextExchange{}, tc.log[lo:i+1]...)
}
