package main

// Scenario generation and execution: concurrent workers on real connections.

import (
	"encoding/binary"
	"encoding/hex"
	"fmt"
	"math/rand"
	"os"
	"path/filepath"
	"sync"
	"sync/atomic"
	"time"

	"github.com/snower/slock/protocol"
)

type Scenario struct {
	ID         string         `json:"id"`
	Db         int            `json:"db"`          // database id used by this scenario (state is read per database)
	BinConns   int            `json:"bin_conns"`   // binary connections
	TextConns  int            `json:"text_conns"`  // text (RESP) connections, one synchronous worker each
	Workers    int            `json:"workers"`     // worker goroutines per binary connection
	Keys       int            `json:"keys"`        // number of lock keys
	Cap        int            `json:"cap"`         // holds admitted per key (Count = cap-1)
	DurationMs int            `json:"duration_ms"` // workers start new operations for this long
	HoldUsMax  int            `json:"hold_us_max"` // a granted hold is kept 0..hold_us_max microseconds
	TimeoutS   int            `json:"timeout_s"`   // lock timeout (seconds) of ordinary requests
	ExpriedS   int            `json:"expried_s"`   // expiry (seconds) of ordinary holds (long: they must not expire)
	Mix        map[string]int `json:"mix"`         // weights: pair sem mswait expire cancel relock
	Init       bool           `json:"init"`        // send INIT with a connection-unique client id first
	Seed       int64          `json:"seed"`
	DrainMs    int            `json:"drain_ms"`
}

type Config struct {
	ServerBin string     `json:"server_bin"`
	PortLo    int        `json:"port_lo"`
	PortHi    int        `json:"port_hi"`
	Scratch   string     `json:"scratch"`
	Scenarios []Scenario `json:"scenarios"`
}

type Violation struct {
	Scenario string        `json:"scenario"`
	Sig      string        `json:"sig"`
	What     string        `json:"what"`
	Frames   []FrameView   `json:"frames,omitempty"`
	Text     []TextExchange `json:"text,omitempty"`
	Params   Scenario      `json:"params"`
}

type ScenResult struct {
	ID           string         `json:"id"`
	Params       Scenario       `json:"params"`
	Requests     int            `json:"requests"`
	Frames       int            `json:"frames"`
	TextCmds     int            `json:"text_cmds"`
	ByKind       map[string]int `json:"requests_by_kind"`
	ByResult     map[string]int `json:"replies_by_result"`
	Expried      int            `json:"expried_notices"`
	QueuedGrants int            `json:"grants_after_wait_ge_200us"`
	GaveUp       int            `json:"client_gave_up"`
	LateReplies  int            `json:"replies_later_than_patience"`
	MaxLatencyMs int64          `json:"max_reply_latency_ms"`
	ServerLocked [2]int         `json:"server_locked_count"` // two readings 1 s apart when they differ from the implied value
	ServerWait   int            `json:"server_wait_count"`
	Implied      int            `json:"implied_locked"`
	SemAcquired  int            `json:"sem_acquired"`
	SemReleased  int            `json:"sem_released"`
	Violations   int            `json:"violations"`
	Sigs         map[string]int `json:"violation_sigs"`
	WallMs       int64          `json:"wall_ms"`
	Fatal        string         `json:"fatal,omitempty"`
}

type Output struct {
	Results    []ScenResult `json:"results"`
	Violations []Violation  `json:"violations"`
	Port       int          `json:"port"`
	Fatal      string       `json:"fatal,omitempty"`
	ServerLog  string       `json:"server_log_tail,omitempty"`
}

// ---------------------------------------------------------------- ids

const (
	kPair = iota + 1
	kSem
	kMsWait
	kExpire
	kCancel
	kRelock
	kText
)

var kindName = map[int]string{kPair: "pair", kSem: "sem", kMsWait: "mswait", kExpire: "expire", kCancel: "cancel", kRelock: "relock", kText: "text"}

type idGen struct {
	db, conn, worker int
	seq              *uint64
}

func (g idGen) next(tag byte, kind int) [16]byte {
	var id [16]byte
	id[0], id[1], id[2], id[3] = tag, 'N', byte(g.db), byte(g.conn)
	binary.LittleEndian.PutUint16(id[4:], uint16(g.worker))
	binary.LittleEndian.PutUint64(id[6:], atomic.AddUint64(g.seq, 1))
	id[14], id[15] = 0xC3, byte(kind)
	return id
}

func keyOf(s *Scenario, i int) [16]byte {
	var k [16]byte
	copy(k[:], []byte(fmt.Sprintf("rnk%03d-%s", s.Db, s.ID)))
	k[14], k[15] = byte(i>>8), byte(i)
	return k
}

// ---------------------------------------------------------------- run

type runCtx struct {
	s        *Scenario
	addr     string
	bins     []*binConn
	texts    []*textConn
	seq      uint64
	deadline time.Time
	gaveUp   int64
	patience time.Duration
}

func (rc *runCtx) lockCmd(g idGen, conn int, kind int, key [16]byte, lockId [16]byte) *protocol.LockCommand {
	c := &protocol.LockCommand{}
	c.Magic, c.Version, c.CommandType = protocol.MAGIC, protocol.VERSION, protocol.COMMAND_LOCK
	gg := g
	gg.conn = conn
	c.RequestId = gg.next('R', kind)
	c.DbId = uint8(rc.s.Db)
	c.LockId = lockId
	c.LockKey = key
	c.Timeout = uint16(rc.s.TimeoutS)
	c.Expried = uint16(rc.s.ExpriedS)
	c.Count = uint16(rc.s.Cap - 1)
	return c
}

func (rc *runCtx) unlockCmd(g idGen, conn int, kind int, key [16]byte, lockId [16]byte, flag uint8) *protocol.LockCommand {
	c := rc.lockCmd(g, conn, kind, key, lockId)
	c.CommandType = protocol.COMMAND_UNLOCK
	c.Flag = flag
	return c
}

func (rc *runCtx) hold(rng *rand.Rand) {
	if rc.s.HoldUsMax <= 0 {
		return
	}
	d := time.Duration(rng.Intn(rc.s.HoldUsMax+1)) * time.Microsecond
	if d < 50*time.Microsecond {
		t0 := time.Now()
		for time.Since(t0) < d {
		}
		return
	}
	time.Sleep(d)
}

func pickKind(rng *rand.Rand, mix map[string]int) int {
	order := []int{kPair, kSem, kMsWait, kExpire, kCancel, kRelock}
	tot := 0
	for _, k := range order {
		tot += mix[kindName[k]]
	}
	if tot == 0 {
		return kPair
	}
	x := rng.Intn(tot)
	for _, k := range order {
		x -= mix[kindName[k]]
		if x < 0 {
			return k
		}
	}
	return kPair
}

func (rc *runCtx) giveUp() { atomic.AddInt64(&rc.gaveUp, 1) }

func (rc *runCtx) binWorker(ci, wi int, wg *sync.WaitGroup) {
	defer wg.Done()
	s := rc.s
	rng := rand.New(rand.NewSource(s.Seed*1000003 + int64(ci)*1009 + int64(wi)))
	g := idGen{s.Db, ci, wi, &rc.seq}
	bc := rc.bins[ci]
	for time.Now().Before(rc.deadline) {
		key := keyOf(s, rng.Intn(s.Keys))
		kind := pickKind(rng, s.Mix)
		switch kind {
		case kPair, kSem, kMsWait:
			lc := rc.lockCmd(g, ci, kind, key, g.next('L', kind))
			if kind == kMsWait {
				lc.Timeout = uint16(1 + rng.Intn(30))
				lc.TimeoutFlag = protocol.TIMEOUT_FLAG_MILLISECOND_TIME
			}
			r, ok := bc.call(lc, rc.patience)
			if !ok {
				rc.giveUp()
				continue
			}
			if r.Raw[19] != protocol.RESULT_SUCCED {
				continue
			}
			rc.hold(rng)
			var uc *protocol.LockCommand
			if kind == kSem {
				uc = rc.unlockCmd(g, ci, kind, key, [16]byte{}, protocol.UNLOCK_FLAG_UNLOCK_FIRST_LOCK_WHEN_UNLOCKED)
			} else {
				uc = rc.unlockCmd(g, ci, kind, key, lc.LockId, 0)
			}
			if _, ok := bc.call(uc, rc.patience); !ok {
				rc.giveUp()
			}
		case kExpire:
			lc := rc.lockCmd(g, ci, kind, key, g.next('L', kind))
			lc.Expried = uint16(5 + rng.Intn(36))
			lc.ExpriedFlag = protocol.EXPRIED_FLAG_MILLISECOND_TIME
			lc.Timeout = uint16(1 + rng.Intn(50))
			lc.TimeoutFlag = protocol.TIMEOUT_FLAG_MILLISECOND_TIME
			if _, ok := bc.call(lc, rc.patience); !ok {
				rc.giveUp()
			}
		case kCancel:
			lc := rc.lockCmd(g, ci, kind, key, g.next('L', kind))
			ch, err := bc.send(lc)
			if err != nil {
				return
			}
			if d := rng.Intn(300); d > 0 {
				time.Sleep(time.Duration(d) * time.Microsecond)
			}
			uc := rc.unlockCmd(g, ci, kind, key, lc.LockId, protocol.UNLOCK_FLAG_CANCEL_WAIT_LOCK_WHEN_UNLOCKED)
			_, ok2 := bc.call(uc, rc.patience)
			_, ok1 := bc.wait(lc, ch, rc.patience)
			if !ok1 {
				rc.giveUp()
			}
			if !ok2 {
				rc.giveUp()
			}
		case kRelock:
			// re-entrant hold: taken on this connection, re-locked from ANOTHER connection, released here
			lid := g.next('L', kind)
			lc := rc.lockCmd(g, ci, kind, key, lid)
			lc.Rcount = 3
			r, ok := bc.call(lc, rc.patience)
			if !ok {
				rc.giveUp()
				continue
			}
			if r.Raw[19] != protocol.RESULT_SUCCED {
				continue
			}
			oi := ci
			if len(rc.bins) > 1 {
				oi = (ci + 1 + rng.Intn(len(rc.bins)-1)) % len(rc.bins)
			}
			oc := rc.bins[oi]
			lc2 := rc.lockCmd(g, oi, kind, key, lid)
			lc2.Rcount = 3
			if _, ok := oc.call(lc2, rc.patience); !ok {
				rc.giveUp()
			}
			rc.hold(rng)
			uc := rc.unlockCmd(g, ci, kind, key, lid, 0) // Rcount 0: drops every level
			if _, ok := bc.call(uc, rc.patience); !ok {
				rc.giveUp()
			}
		}
	}
}

func hex32(id [16]byte) string { return hex.EncodeToString(id[:]) }

func (rc *runCtx) textWorker(ti int, wg *sync.WaitGroup) {
	defer wg.Done()
	s := rc.s
	tc := rc.texts[ti]
	rng := rand.New(rand.NewSource(s.Seed*7919 + int64(ti)*31 + 5))
	g := idGen{s.Db, 100 + ti, 0, &rc.seq}
	do := func(kind string, typ uint8, lockId [16]byte, first bool, expried uint32, args []string) ([]string, bool) {
		ex := TextExchange{Conn: 100 + ti, Idx: len(tc.log), T0: now(), Args: args, Kind: kind, Type: typ, LockId: hex32(lockId), Expried: expried, First: first}
		rep, err := tc.cmd(args, rc.patience)
		ex.T1 = now()
		ex.Reply = rep
		if err != nil {
			ex.Err = err.Error()
		}
		tc.log = append(tc.log, ex)
		return rep, err == nil
	}
	if rep, ok := do("select", 0, [16]byte{}, false, 0, []string{"SELECT", fmt.Sprint(s.Db)}); !ok || len(rep) == 0 {
		return
	}
	count := fmt.Sprint(s.Cap)
	// every second text connection starts with a hold that expires while the connection is idle: the connection's FIRST
	// lock-type reply takes a different path through ProcessLockResultCommand (no pooled result object yet)
	firstExpire := ti%2 == 0
	for time.Now().Before(rc.deadline) {
		key := hex32(keyOf(s, rng.Intn(s.Keys)))
		lid := g.next('L', kText)
		x := rng.Intn(10)
		forceIdle := false
		if firstExpire {
			x, forceIdle, firstExpire = 9, true, false
		}
		switch {
		case x < 4: // pair
			rep, ok := do("pair", 1, lid, false, 0, []string{"LOCK", key, "LOCK_ID", hex32(lid), "TIMEOUT", fmt.Sprint(s.TimeoutS), "EXPRIED", fmt.Sprint(s.ExpriedS), "COUNT", count})
			if !ok {
				return
			}
			if len(rep) > 0 && rep[0] == "0" {
				rc.hold(rng)
				if _, ok := do("pair", 2, lid, false, 0, []string{"UNLOCK", key, "LOCK_ID", hex32(lid)}); !ok {
					return
				}
			}
		case x < 6: // semaphore style
			rep, ok := do("sem", 1, lid, false, 0, []string{"LOCK", key, "LOCK_ID", hex32(lid), "TIMEOUT", fmt.Sprint(s.TimeoutS), "EXPRIED", fmt.Sprint(s.ExpriedS), "COUNT", count})
			if !ok {
				return
			}
			if len(rep) > 0 && rep[0] == "0" {
				rc.hold(rng)
				if _, ok := do("sem", 2, [16]byte{}, true, 0, []string{"UNLOCK", key, "LOCK_ID", hex32([16]byte{}), "FLAG", "1"}); !ok {
					return
				}
			}
		case x < 8: // short wait
			to := uint32(1+rng.Intn(30)) | uint32(protocol.TIMEOUT_FLAG_MILLISECOND_TIME)<<16
			rep, ok := do("mswait", 1, lid, false, 0, []string{"LOCK", key, "LOCK_ID", hex32(lid), "TIMEOUT", fmt.Sprint(to), "EXPRIED", fmt.Sprint(s.ExpriedS), "COUNT", count})
			if !ok {
				return
			}
			if len(rep) > 0 && rep[0] == "0" {
				if _, ok := do("mswait", 2, lid, false, 0, []string{"UNLOCK", key, "LOCK_ID", hex32(lid)}); !ok {
					return
				}
			}
		default: // a hold that expires while the connection is idle, then the next command must get its OWN reply
			ms := uint32(5 + rng.Intn(30))
			ex := ms | uint32(protocol.EXPRIED_FLAG_MILLISECOND_TIME)<<16
			to := uint32(1+rng.Intn(40)) | uint32(protocol.TIMEOUT_FLAG_MILLISECOND_TIME)<<16
			rep, ok := do("expire", 1, lid, false, ex, []string{"LOCK", key, "LOCK_ID", hex32(lid), "TIMEOUT", fmt.Sprint(to), "EXPRIED", fmt.Sprint(ex), "COUNT", count})
			if !ok {
				return
			}
			if len(rep) > 0 && rep[0] == "0" {
				mode := rng.Intn(3)
				if forceIdle {
					mode = 0
				}
				switch mode {
				case 0: // idle beyond the expiry
					tc.idleProbe(time.Duration(ms+15) * time.Millisecond)
				case 1: // next command races the expiry
					time.Sleep(time.Duration(ms) * time.Millisecond)
				}
			}
		}
	}
	tc.idleProbe(time.Duration(60) * time.Millisecond)
}

func runScenario(s *Scenario, addr string) (ScenResult, []Violation) {
	t0 := time.Now()
	res := ScenResult{ID: s.ID, Params: *s}
	rc := &runCtx{s: s, addr: addr}
	rc.patience = time.Duration(s.TimeoutS)*time.Second + 3*time.Second
	for i := 0; i < s.BinConns; i++ {
		bc, err := dialBin(i, addr, s.Init, s.Db)
		if err != nil {
			res.Fatal = "dial: " + err.Error()
			return res, nil
		}
		rc.bins = append(rc.bins, bc)
	}
	for i := 0; i < s.TextConns; i++ {
		tc, err := dialText(100+i, addr)
		if err != nil {
			res.Fatal = "dial text: " + err.Error()
			return res, nil
		}
		rc.texts = append(rc.texts, tc)
	}
	rc.deadline = time.Now().Add(time.Duration(s.DurationMs) * time.Millisecond)
	var wg sync.WaitGroup
	for ci := range rc.bins {
		for wi := 0; wi < s.Workers; wi++ {
			wg.Add(1)
			go rc.binWorker(ci, wi, &wg)
		}
	}
	for ti := range rc.texts {
		wg.Add(1)
		go rc.textWorker(ti, &wg)
	}
	wg.Wait()
	// drain: every server-side timeout has passed (client patience = timeout + 3 s) or was answered; give late
	// asynchronous frames (EXPRIED notices of short holds, misdirected replies) time to arrive
	time.Sleep(time.Duration(s.DrainMs) * time.Millisecond)
	res.GaveUp = int(rc.gaveUp)
	locked, wait, err := dbState(addr, s.Db)
	if err != nil {
		res.Fatal = "INFO: " + err.Error()
	}
	for _, bc := range rc.bins {
		bc.close()
	}
	for _, tc := range rc.texts {
		_ = tc.c.Close()
	}
	vs := monitor(rc, &res, locked, wait, func() (int, int) {
		time.Sleep(time.Second)
		l, w, _ := dbState(addr, s.Db)
		return l, w
	})
	res.Violations = len(vs)
	res.Sigs = map[string]int{}
	for _, v := range vs {
		res.Sigs[v.Sig]++
	}
	res.WallMs = time.Since(t0).Milliseconds()
	return res, vs
}

func runNet(cfg *Config) *Output {
	out := &Output{}
	port, err := freePort(cfg.PortLo, cfg.PortHi)
	if err != nil {
		out.Fatal = err.Error()
		return out
	}
	out.Port = port
	dir := filepath.Join(cfg.Scratch, fmt.Sprintf("srv-%d", port))
	_ = os.RemoveAll(dir)
	srv, err := startServer(cfg.ServerBin, dir, port)
	if err != nil {
		out.Fatal = err.Error()
		return out
	}
	defer srv.stop()
	addr := fmt.Sprintf("127.0.0.1:%d", port)
	for i := range cfg.Scenarios {
		s := &cfg.Scenarios[i]
		if !srv.alive() {
			out.Fatal = "server process died before scenario " + s.ID
			out.ServerLog = srv.logTail()
			break
		}
		r, vs := runScenario(s, addr)
		out.Results = append(out.Results, r)
		// keep the report bounded: at most 6 violations per signature and scenario, in full
		per := map[string]int{}
		for _, v := range vs {
			per[v.Sig]++
			if per[v.Sig] <= 6 {
				out.Violations = append(out.Violations, v)
			}
		}
		if r.Fatal != "" && !srv.alive() {
			out.Fatal = "server process died during scenario " + s.ID
			out.ServerLog = srv.logTail()
			break
		}
	}
	return out
}
