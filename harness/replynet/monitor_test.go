package main

// Self-tests of the monitor on synthetic logs: every rule must accept a good history and flag its bad variant.

import (
	"testing"

	"github.com/snower/slock/protocol"
)

type synth struct {
	rc  *runCtx
	seq uint64
}

func newSynth(nb int) *synth {
	s := &Scenario{ID: "synthetic", Db: 9, BinConns: nb, Keys: 1, Cap: 2, TimeoutS: 2, ExpriedS: 60}
	rc := &runCtx{s: s}
	for i := 0; i < nb; i++ {
		rc.bins = append(rc.bins, &binConn{idx: i})
	}
	return &synth{rc: rc}
}

func (y *synth) req(conn int, typ uint8, kind int, lockId [16]byte, flag uint8, exFlag uint16, ex uint16) *protocol.LockCommand {
	g := idGen{9, conn, 0, &y.seq}
	c := &protocol.LockCommand{}
	c.Magic, c.Version, c.CommandType = protocol.MAGIC, protocol.VERSION, typ
	c.RequestId = g.next('R', kind)
	c.DbId, c.Flag, c.LockId, c.LockKey = 9, flag, lockId, keyOf(y.rc.s, 0)
	c.Timeout, c.Expried, c.ExpriedFlag, c.Count = 2, ex, exFlag, 1
	var r Rec
	_ = c.Encode(r.Raw[:])
	y.seq++
	r.T = int64(y.seq) * 1000
	y.rc.bins[conn].sent = append(y.rc.bins[conn].sent, r)
	return c
}

// reply delivers a frame built from `from` (the command the server used) on connection `conn`
func (y *synth) reply(conn int, from *protocol.LockCommand, result uint8, lockId [16]byte) {
	res := protocol.NewLockResultCommand(from, result, 0, 1, from.Count, 1, from.Rcount, nil)
	res.LockId = lockId
	var r Rec
	_ = res.Encode(r.Raw[:])
	y.seq++
	r.T = int64(y.seq) * 1000
	y.rc.bins[conn].recv = append(y.rc.bins[conn].recv, r)
}

func (y *synth) run(locked, wait int) map[string]int {
	var res ScenResult
	vs := monitor(y.rc, &res, locked, wait, func() (int, int) { return locked, wait })
	m := map[string]int{}
	for _, v := range vs {
		m[v.Sig]++
	}
	return m
}

func lk(n byte) [16]byte { return [16]byte{'L', n} }

func expect(t *testing.T, name string, got map[string]int, want map[string]int) {
	t.Helper()
	if len(got) != len(want) {
		t.Fatalf("%s: got %v want %v", name, got, want)
	}
	for k, n := range want {
		if got[k] != n {
			t.Fatalf("%s: got %v want %v", name, got, want)
		}
	}
}

func TestGoodHistory(t *testing.T) {
	y := newSynth(2)
	a := y.req(0, protocol.COMMAND_LOCK, kPair, lk(1), 0, 0, 60)
	y.reply(0, a, protocol.RESULT_SUCCED, lk(1))
	b := y.req(1, protocol.COMMAND_LOCK, kSem, lk(2), 0, 0, 60)
	y.reply(1, b, protocol.RESULT_SUCCED, lk(2))
	u := y.req(1, protocol.COMMAND_UNLOCK, kSem, [16]byte{}, protocol.UNLOCK_FLAG_UNLOCK_FIRST_LOCK_WHEN_UNLOCKED, 0, 60)
	y.reply(1, u, protocol.RESULT_SUCCED, lk(1)) // unlock-first names the released hold
	e := y.req(0, protocol.COMMAND_LOCK, kExpire, lk(3), 0, protocol.EXPRIED_FLAG_MILLISECOND_TIME, 10)
	y.reply(0, e, protocol.RESULT_SUCCED, lk(3))
	y.reply(0, e, protocol.RESULT_EXPRIED, lk(3))
	w := y.req(0, protocol.COMMAND_LOCK, kMsWait, lk(4), 0, 0, 60)
	y.reply(0, w, protocol.RESULT_TIMEOUT, lk(4))
	expect(t, "good", y.run(1, 0), map[string]int{}) // lk(2) still held
}

func TestForeignAndMissingAttributed(t *testing.T) {
	y := newSynth(2)
	x := y.req(0, protocol.COMMAND_LOCK, kSem, lk(1), 0, 0, 60) // granted, reply lost
	u := y.req(1, protocol.COMMAND_UNLOCK, kSem, [16]byte{}, protocol.UNLOCK_FLAG_UNLOCK_FIRST_LOCK_WHEN_UNLOCKED, 0, 60)
	y.reply(1, u, protocol.RESULT_SUCCED, lk(1))
	r := y.req(1, protocol.COMMAND_LOCK, kSem, lk(2), 0, 0, 60)
	y.reply(1, r, protocol.RESULT_SUCCED, lk(2))
	y.reply(0, r, protocol.RESULT_SUCCED, lk(2)) // x's reply built from r's fields
	_ = x
	expect(t, "recycle", y.run(1, 0), map[string]int{sigRecycle: 1})
}

func TestForeignUnattributed(t *testing.T) {
	y := newSynth(2)
	r := y.req(1, protocol.COMMAND_LOCK, kPair, lk(2), 0, 0, 60)
	y.reply(1, r, protocol.RESULT_SUCCED, lk(2))
	y.reply(0, r, protocol.RESULT_SUCCED, lk(2))
	expect(t, "foreign", y.run(1, 0), map[string]int{"reply:foreign-request-id": 1})
}

func TestDuplicateMissingEchoExpried(t *testing.T) {
	y := newSynth(1)
	a := y.req(0, protocol.COMMAND_LOCK, kPair, lk(1), 0, 0, 60)
	y.reply(0, a, protocol.RESULT_SUCCED, lk(1))
	y.reply(0, a, protocol.RESULT_SUCCED, lk(1)) // duplicate terminal
	y.req(0, protocol.COMMAND_LOCK, kPair, lk(2), 0, 0, 60) // never answered
	c := y.req(0, protocol.COMMAND_LOCK, kPair, lk(3), 0, 0, 60)
	y.reply(0, c, protocol.RESULT_LOCKED_ERROR, lk(9)) // echo: wrong lock id
	d := y.req(0, protocol.COMMAND_LOCK, kExpire, lk(4), 0, protocol.EXPRIED_FLAG_MILLISECOND_TIME, 5)
	y.reply(0, d, protocol.RESULT_EXPRIED, lk(4)) // notice without a grant
	y.reply(0, d, protocol.RESULT_TIMEOUT, lk(4))
	expect(t, "dup/missing/echo/expried", y.run(1, 0), map[string]int{"reply:duplicate-terminal": 1, "reply:missing:lock:pair": 1,
		"reply:echo-mismatch": 1, "reply:expried-without-grant": 1})
}

func TestState(t *testing.T) {
	y := newSynth(1)
	a := y.req(0, protocol.COMMAND_LOCK, kPair, lk(1), 0, 0, 60)
	y.reply(0, a, protocol.RESULT_SUCCED, lk(1))
	u := y.req(0, protocol.COMMAND_UNLOCK, kPair, lk(1), 0, 0, 60)
	y.reply(0, u, protocol.RESULT_SUCCED, lk(1))
	expect(t, "orphan", y.run(1, 2), map[string]int{"state:locked-count-mismatch": 1, "state:wait-count-nonzero": 1})
}

func TestText(t *testing.T) {
	y := newSynth(0)
	tc := &textConn{idx: 100}
	y.rc.texts = []*textConn{tc}
	ok := func(id [16]byte, res string) []string {
		return []string{res, "X", "LOCK_ID", hex32(id), "LCOUNT", "1", "COUNT", "1", "LRCOUNT", "1", "RCOUNT", "0"}
	}
	tc.log = []TextExchange{
		{Conn: 100, Idx: 0, Type: 1, Kind: "pair", Args: []string{"LOCK"}, LockId: hex32(lk(1)), Reply: ok(lk(1), "0")},
		{Conn: 100, Idx: 1, Type: 2, Kind: "pair", Args: []string{"UNLOCK"}, LockId: hex32(lk(1)), Reply: ok(lk(1), "0")},
	}
	expect(t, "text good", y.run(0, 0), map[string]int{})
	tc.log = append(tc.log,
		TextExchange{Conn: 100, Idx: 2, Type: 1, Kind: "pair", Args: []string{"LOCK"}, LockId: hex32(lk(2)), Reply: ok(lk(1), "9")}, // EXPRIED of an earlier hold
		TextExchange{Conn: 100, Idx: 3, Type: 1, Kind: "pair", Args: []string{"LOCK"}, LockId: hex32(lk(3)), Err: "i/o timeout"})
	tc.extra = []string{"*12\r\n"}
	expect(t, "text bad", y.run(0, 0), map[string]int{"reply:text:foreign-lock-id": 1, "reply:text:late-reply-taken-for-current": 1,
		"reply:missing:text": 1, "reply:text:unsolicited": 1})
}

// the same mechanism without unlock-first: a client pipelines UNLOCK(cancel-wait) behind its own LOCK; the LOCK was
// granted by a wake-up pass whose reply is parked; the UNLOCK frees the object, the next LOCK of the connection reuses it
func TestRecycleByIdWithDuplicate(t *testing.T) {
	y := newSynth(1)
	x := y.req(0, protocol.COMMAND_LOCK, kCancel, lk(1), 0, 0, 60)
	u := y.req(0, protocol.COMMAND_UNLOCK, kCancel, lk(1), protocol.UNLOCK_FLAG_CANCEL_WAIT_LOCK_WHEN_UNLOCKED, 0, 60)
	y.reply(0, u, protocol.RESULT_SUCCED, lk(1))
	r := y.req(0, protocol.COMMAND_LOCK, kCancel, lk(2), 0, 0, 60)
	y.reply(0, r, protocol.RESULT_SUCCED, lk(2))      // x's parked reply, built from r's fields
	y.reply(0, r, protocol.RESULT_UNLOCK_ERROR, lk(2)) // r's genuine reply (cancelled)
	_ = x
	expect(t, "recycle by id", y.run(0, 0), map[string]int{sigRecycleById: 1})
}
