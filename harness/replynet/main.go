// c03net — connection-level half of property C03 ("exactly one terminal reply per request, to the right client")
// over REAL sockets and the real BinaryServerProtocol / TextServerProtocol reply paths.
//
//	c03net net -cfg cfg.json -out out.json    statistical: a real slock server (child process built from the checked
//	                                          tree's main.go) on a loopback port; 1..8 binary and text connections,
//	                                          concurrent workers issuing generated request mixes with connection-unique
//	                                          RequestIds; EVERY frame a connection receives is logged and the property's
//	                                          monitor is evaluated on the logs (monitor.go). Goroutine/kernel schedules
//	                                          are whatever the runtime produces; only parameters come from the seed.
//	c03net det -out out.json [-variant v]     deterministic replay of the command-object recycling race (det.go):
//	                                          in-process real server on loopback, the granting goroutine is parked
//	                                          on the addressee's connection write mutex (what a slow socket write does).
package main

import (
	"encoding/json"
	"flag"
	"fmt"
	"os"
)

func writeJSON(path string, v interface{}) {
	b, err := json.MarshalIndent(v, "", " ")
	if err != nil {
		fmt.Fprintln(os.Stderr, "marshal:", err)
		os.Exit(2)
	}
	if path == "" || path == "-" {
		os.Stdout.Write(b)
		os.Stdout.Write([]byte("\n"))
		return
	}
	if err := os.WriteFile(path, b, 0o644); err != nil {
		fmt.Fprintln(os.Stderr, "write:", err)
		os.Exit(2)
	}
}

func main() {
	if len(os.Args) < 2 {
		fmt.Fprintln(os.Stderr, "usage: c03net net|det ...")
		os.Exit(2)
	}
	mode := os.Args[1]
	fs := flag.NewFlagSet(mode, flag.ExitOnError)
	cfgPath := fs.String("cfg", "", "scenario configuration (JSON)")
	outPath := fs.String("out", "-", "result file (JSON)")
	variant := fs.String("variant", "all", "det: wake | direct | text | all")
	port := fs.Int("port", 15490, "det: loopback port of the in-process server")
	scratch := fs.String("scratch", "", "det: scratch directory (data dir, cwd)")
	_ = fs.Parse(os.Args[2:])
	switch mode {
	case "net":
		var cfg Config
		b, err := os.ReadFile(*cfgPath)
		if err != nil {
			fmt.Fprintln(os.Stderr, err)
			os.Exit(2)
		}
		if err := json.Unmarshal(b, &cfg); err != nil {
			fmt.Fprintln(os.Stderr, err)
			os.Exit(2)
		}
		out := runNet(&cfg)
		writeJSON(*outPath, out)
	case "det":
		out := runDet(*variant, *port, *scratch)
		writeJSON(*outPath, out)
	default:
		fmt.Fprintln(os.Stderr, "unknown mode", mode)
		os.Exit(2)
	}
}
