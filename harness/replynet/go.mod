module verifharness/replynet

go 1.19

require github.com/snower/slock v0.0.0

replace github.com/snower/slock => /repo
