//go:build verif

package server

// Inspection helpers for the connection-level reply check (C03_net), injected in-package by `go build -overlay`
// (not part of /repo). Nothing here changes the behaviour of the server: the helpers only read state or take
// a connection's own write mutex through the exported ServerProtocol.Lock()/Unlock() methods, which is exactly what
// a slow socket write on that connection does.

import (
	"github.com/snower/slock/protocol"
)

// VerifRNProtocols maps the remote address of every live connection to its server-side protocol object.
func VerifRNProtocols(s *Server) map[string]ServerProtocol {
	res := map[string]ServerProtocol{}
	for _, st := range s.GetStreams() {
		if st.protocol != nil && st.conn != nil {
			res[st.conn.RemoteAddr().String()] = st.protocol
		}
	}
	return res
}

// VerifRNKind names the protocol type of a connection ("binary", "text", ...).
func VerifRNKind(p ServerProtocol) string {
	switch p.(type) {
	case *BinaryServerProtocol:
		return "binary"
	case *TextServerProtocol:
		return "text"
	}
	return "other"
}

// VerifRNFreeCommands returns the addresses of the command objects on the connection-local (unlocked, LIFO) free
// list of a connection, top of the stack last.
func VerifRNFreeCommands(p ServerProtocol) []*protocol.LockCommand {
	switch sp := p.(type) {
	case *BinaryServerProtocol:
		return append([]*protocol.LockCommand{}, sp.freeCommands[:sp.freeCommandIndex]...)
	case *TextServerProtocol:
		return append([]*protocol.LockCommand{}, sp.freeCommands[:sp.freeCommandIndex]...)
	}
	return nil
}

// VerifRNKey reports the shard state of one key: number of holds, whether waiters are flagged, the LockIds of
// the current holds' head and the address of the head hold's command object.
type VerifRNKeyState struct {
	Exists  bool
	Locked  uint32
	Waited  bool
	HeadId  [16]byte
	HeadCmd *protocol.LockCommand
}

func VerifRNKey(slock *SLock, dbId uint8, key [16]byte) VerifRNKeyState {
	var st VerifRNKeyState
	db := slock.dbs[dbId]
	if db == nil {
		return st
	}
	cmd := &protocol.LockCommand{}
	cmd.DbId = dbId
	cmd.LockKey = key
	lm := db.GetLockManager(cmd)
	if lm == nil {
		return st
	}
	lm.glock.Lock()
	if lm.lockKey == key {
		st.Exists = true
		st.Locked = lm.locked
		st.Waited = lm.waited
		if lm.currentLock != nil && lm.locked > 0 {
			st.HeadId = lm.currentLock.command.LockId
			st.HeadCmd = lm.currentLock.command
		}
	}
	lm.glock.Unlock()
	return st
}

// VerifRNDBState returns (LockedCount, WaitCount) of a database, the numbers the INFO command prints.
func VerifRNDBState(slock *SLock, dbId uint8) (uint32, uint32, bool) {
	db := slock.dbs[dbId]
	if db == nil {
		return 0, 0, false
	}
	s := db.GetState()
	return s.LockedCount, s.WaitCount, true
}
