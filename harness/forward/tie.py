"""Tie of coq/Forward/Relay.v to the running code: the events seen on the wire for one text connection through the follower
(forwarded command frames, leader result frames, link closes -- all from the link proxy's log) are run through the Coq
function `run` by vm_compute inside coqc; what the model says the text client is handed is compared with what the
client really received."""
import ast, os, re, subprocess

import monitor

FWD = monitor.FWD_TEXT


def sessions(info, out, frames, audit):
    """-> list of (conn, steps, frames) for the text connections of ONE script run whose frames can be attributed.
    steps = indices of forwarded commands of the connection in order; frames = this connection's link-log entries."""
    nf = {x["i"] for x in audit["not_forwarded"]}
    bin_rids = {inf["rid"] for inf in info if inf.get("kind") == "bin"}
    keys = {inf["keyhex"] for inf in info if inf.get("keyhex")}
    mine = [f for f in frames if (f.get("dir") == "req" and f.get("lockkey") in keys and f["rid"] not in bin_rids)]
    links = sorted({f["link"] for f in mine})
    tconns = sorted({inf["c"] for inf in info if inf.get("kind") == "text" and inf["op"] in FWD})
    res, skipped = [], 0
    for c in tconns:
        steps = [i for i, inf in enumerate(info) if inf.get("c") == c and inf.get("kind") == "text" and inf["op"] in FWD and i not in nf
                 and not out["steps"][i].get("err")]
        if not steps:
            continue
        # the link that carried this connection: the one whose request frames line up with the connection's commands
        cand = []
        for l in links:
            lf = [f for f in mine if f["link"] == l]
            if len(lf) == len(steps) and all(f["ctype"] == FWD[info[i]["op"]] and f["lockkey"] == info[i]["keyhex"]
                                            and (info[i]["lidhex"] is None or f["lockid"] == info[i]["lidhex"]) for f, i in zip(lf, steps)):
                cand.append(l)
        if len(cand) != 1:
            skipped += 1
            continue
        l = cand[0]
        rids = [f["rid"] for f in mine if f["link"] == l]
        t0 = min(f["t"] for f in mine if f["link"] == l)
        lf = [f for f in frames if f.get("link") == l and f["t"] >= t0 and
              ((f.get("dir") == "req" and f["rid"] in rids) or (f.get("dir") == "rep" and f["rid"] in rids) or "closed" in f)]
        res.append((c, steps, lf))
    return res, skipped


def events(steps, info, lf):
    """link-log entries -> Coq event list text + the payload table"""
    ridno, evs, payload = {}, [], {}
    k = 0
    for f in lf:
        if f.get("dir") == "req":
            i = steps[k]
            k += 1
            ridno[f["rid"]] = k
            evs.append(("EFwdPush %d" if info[i]["op"] == "push" else "EFwdWait %d") % k)
        elif f.get("dir") == "rep":
            if f.get("dropped"):
                continue
            n = len(payload) + 1
            payload[n] = f
            evs.append("EReply %d %d" % (ridno.get(f["rid"], 9000), n))
        elif "closed" in f and f["closed"] in ("cut", "cutafter", "leader side ended"):
            evs.append("EDrop")
    return evs, payload


def run_model(coqdir, builddir, traces, timeout=120):
    """traces: list of event-text lists -> list of (status, handed[(n, tuple)], pending[n])"""
    if not traces:
        return []
    src = ["Require Import Slock.Forward.Relay.", "From Coq Require Import List NArith.", "Import ListNotations.", "Open Scope N_scope.",
           "Definition show (o : outcome) := match o with Ok s => (0, handed s, pending_list s) | NotEnabled => (1, [], []) | SenderBlocked => (2, [], []) end.",
           "Definition traces : list (list event) := ["]
    src.append(";\n".join("  [" + "; ".join(t) + "]" for t in traces))
    src.append("].")
    src.append("Eval vm_compute in (map (fun t => show (run init t)) traces).")
    os.makedirs(builddir, exist_ok=True)
    path = os.path.join(builddir, "C10procTie.v")
    open(path, "w").write("\n".join(src) + "\n")
    p = subprocess.run(["coqc", "-Q", coqdir, "Slock", path], stdout=subprocess.PIPE, stderr=subprocess.STDOUT, timeout=timeout, cwd=builddir)
    txt = p.stdout.decode()
    if p.returncode != 0:
        raise RuntimeError("coqc on the observed traces failed: " + txt[-800:])
    m = re.search(r"=\s*(\[.*\])\s*:\s*list", txt, flags=re.S)
    if not m:
        raise RuntimeError("cannot read the model's output: " + txt[-400:])
    t = m.group(1)
    t = re.sub(r"RLeader (\d+) (\d+)", r'("L",\1,\2)', t)
    t = re.sub(r"RRollback (\d+)", r'("R",\1)', t)
    t = t.replace("ROk", '("O",)').replace("RLinkErr", '("E",)').replace(";", ",")
    return ast.literal_eval(t)


def rendered_ok(reply, frame, op):
    """does the text reply show exactly the leader's result frame?"""
    res = frame.get("result")
    if op in ("lock", "unlock"):
        f = monitor.text_fields(reply)
        if f is None:
            return False
        b = bytes.fromhex(frame["hex"])
        lcount, count, lrcount, rcount = b[54] | b[55] << 8, b[56] | b[57] << 8, b[58], b[59]
        return (f["result"] == str(res) and f.get("LOCK_ID") == frame.get("lockid") and f.get("LCOUNT") == str(lcount)
                and f.get("COUNT") == str((count + 1) & 0xffff) and f.get("LRCOUNT") == str(lrcount) and f.get("RCOUNT") == str((rcount + 1) & 0xff))
    if op == "set":
        if res in (0, 5):
            return reply == {"s": "OK"}
        if res == 8:
            return reply == {"b": None}
        return reply == {"e": "ERR %d" % res}
    if op == "del":
        return reply == {"i": 1 if res == 0 else 0}
    return isinstance(reply, dict)      # INCR ...: some value; its shape is C14's business


def check(info, out, sess, predicted):
    """compare the model's prediction for one connection with what the client received; returns list of problems"""
    c, steps, lf = sess
    evs, payload = events(steps, info, lf)
    status, handed, pending = predicted
    probs = []
    if status != 0:
        return ["model run ended with status %d (1 = event not enabled, 2 = reader blocked) on %s" % (status, evs)]
    got = {n: r for n, r in handed}
    for k, i in enumerate(steps, start=1):
        reply = out["steps"][i].get("reply")
        if k in pending or k not in got:
            if reply is not None and k in pending:
                probs.append("command %d (step %d): the model still waits, the client has a reply %r" % (k, i, reply))
            continue
        r = got[k]
        if reply is None:
            probs.append("command %d (step %d): the model hands out %r, the client got nothing" % (k, i, r))
        elif r[0] == "O":
            if reply != {"s": "OK"}:
                probs.append("command %d (step %d): PUSH answered %r" % (k, i, reply))
        elif r[0] == "L":
            if r[1] != k:
                probs.append("command %d: model hands out the result of command %d" % (k, r[1]))
            elif not rendered_ok(reply, payload[r[2]], info[i]["op"]):
                probs.append("command %d (step %d): client got %r, the leader sent %r" % (k, i, reply, payload[r[2]]))
        elif r[0] == "R":
            f = monitor.text_fields(reply)
            if not (f and f["result"] == "11"):
                probs.append("command %d (step %d): roll-back expected (RESULT_ERROR), client got %r" % (k, i, reply))
    return probs
