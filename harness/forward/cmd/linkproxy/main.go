// linkproxy: sits between a slock follower and its leader (the follower is started with --slaveof <proxy>), so that
// BOTH the replication link and every forwarding ("transparency") link of the follower pass through it.
//
//   linkproxy -listen 127.0.0.1:15301 -target 127.0.0.1:15300 -log /path/link.jsonl
//
// A link whose first frame is a CALL (the follower's SYNC request) is the replication link: passed through opaque.
// Every other link is a forwarding link: both directions are cut into protocol frames (64-byte command/result,
// followed by a length-prefixed value frame when the contains-data flag is set) and every frame is logged as one
// JSON line {"t","link","dir":"req"|"rep","ctype","rid","hex","data", ...}: the check uses this to see WHICH client
// commands really reached the leader, WHAT the leader answered, and that the relay handed exactly these bytes on.
//
// Control (one command per stdin line, answered by "ok ..." on stdout):
//   mark <text>     write {"mark": text} into the log
//   block on|off    hold back leader->follower frames of forwarding links (off: release them in order)
//   cut             close every forwarding link now (held-back frames are dropped)
//   cutafter <n>    close a forwarding link right after it relayed n more result frames (counted over all links)
//   links           print the number of open forwarding links
//   quit
package main

import (
	"bufio"
	"encoding/hex"
	"encoding/json"
	"flag"
	"fmt"
	"io"
	"net"
	"os"
	"strconv"
	"strings"
	"sync"
	"time"
)

var (
	t0       = time.Now()
	logMu    sync.Mutex
	logW     *bufio.Writer
	stMu     sync.Mutex
	stCond   = sync.NewCond(&stMu)
	blocked  = false
	cutAfter = -1
	links    = map[int]*link{}
)

type link struct {
	id     int
	fc, lc net.Conn
	fwd    bool // forwarding link (false until the first frame was seen / replication link)
	once   sync.Once
}

func (l *link) close(why string) {
	l.once.Do(func() {
		_ = l.fc.Close()
		_ = l.lc.Close()
		stMu.Lock()
		delete(links, l.id)
		stCond.Broadcast()
		stMu.Unlock()
		logLine(map[string]interface{}{"link": l.id, "closed": why})
	})
}

func logLine(m map[string]interface{}) {
	m["t"] = float64(time.Since(t0).Microseconds()) / 1000.0
	b, _ := json.Marshal(m)
	logMu.Lock()
	_, _ = logW.Write(b)
	_ = logW.WriteByte('\n')
	_ = logW.Flush()
	logMu.Unlock()
}

func readFrame(br *bufio.Reader, isReply bool) ([]byte, []byte, error) {
	buf := make([]byte, 64)
	if _, err := io.ReadFull(br, buf); err != nil {
		return nil, nil, err
	}
	ctype := buf[2]
	var extra []byte
	readLen := func(n int) error {
		extra = append(extra, make([]byte, n)...)
		_, err := io.ReadFull(br, extra[len(extra)-n:])
		return err
	}
	flagAt := 19
	if isReply {
		flagAt = 20
	}
	switch {
	case ctype == 1 || ctype == 2 || (!isReply && (ctype == 8 || ctype == 9)):
		if buf[flagAt]&0x20 != 0 {
			if err := readLen(4); err != nil {
				return buf, nil, err
			}
			n := int(uint32(extra[0]) | uint32(extra[1])<<8 | uint32(extra[2])<<16 | uint32(extra[3])<<24)
			if n < 0 || n > 1<<26 {
				return buf, extra, fmt.Errorf("value frame length %d", n)
			}
			if err := readLen(n); err != nil {
				return buf, extra, err
			}
		}
	case ctype == 7:
		at := 22
		if isReply {
			at = 23
		}
		n := int(uint32(buf[at]) | uint32(buf[at+1])<<8 | uint32(buf[at+2])<<16 | uint32(buf[at+3])<<24)
		if n > 0 && n < 1<<26 {
			if err := readLen(n); err != nil {
				return buf, extra, err
			}
		}
	}
	return buf, extra, nil
}

func frameInfo(l *link, dir string, buf, extra []byte) map[string]interface{} {
	m := map[string]interface{}{"link": l.id, "dir": dir, "ctype": int(buf[2]), "rid": hex.EncodeToString(buf[3:19]),
		"hex": hex.EncodeToString(buf)}
	if extra != nil {
		m["data"] = hex.EncodeToString(extra)
	}
	if buf[2] == 1 || buf[2] == 2 {
		if dir == "req" {
			m["flag"] = int(buf[19])
			m["lockid"] = hex.EncodeToString(buf[21:37])
			m["lockkey"] = hex.EncodeToString(buf[37:53])
		} else {
			m["result"] = int(buf[19])
			m["flag"] = int(buf[20])
			m["lockid"] = hex.EncodeToString(buf[22:38])
			m["lockkey"] = hex.EncodeToString(buf[38:54])
		}
	} else if dir == "rep" {
		m["result"] = int(buf[19])
	}
	return m
}

func opaque(dst, src net.Conn, l *link, why string) {
	_, _ = io.Copy(dst, src)
	l.close(why)
}

func handle(l *link) {
	fbr := bufio.NewReaderSize(l.fc, 1<<16)
	// first frame decides the kind of link
	head, err := fbr.Peek(64)
	if err != nil {
		l.close("follower side ended before the first frame")
		return
	}
	if head[2] == 7 { // CALL: replication link (SYNC)
		logLine(map[string]interface{}{"link": l.id, "kind": "replication"})
		go opaque(l.fc, l.lc, l, "replication: leader side ended")
		_, _ = io.Copy(l.lc, fbr)
		l.close("replication: follower side ended")
		return
	}
	stMu.Lock()
	l.fwd = true
	stMu.Unlock()
	logLine(map[string]interface{}{"link": l.id, "kind": "forwarding"})
	go func() { // leader -> follower
		lbr := bufio.NewReaderSize(l.lc, 1<<16)
		for {
			buf, extra, err := readFrame(lbr, true)
			if err != nil {
				l.close("leader side ended")
				return
			}
			m := frameInfo(l, "rep", buf, extra)
			stMu.Lock()
			for blocked {
				if _, alive := links[l.id]; !alive {
					break
				}
				stCond.Wait()
			}
			_, alive := links[l.id]
			doCut := false
			if alive && cutAfter > 0 {
				cutAfter--
				if cutAfter == 0 {
					doCut = true
					cutAfter = -1
				}
			}
			stMu.Unlock()
			if !alive {
				m["dropped"] = true
				logLine(m)
				return
			}
			logLine(m)
			if _, err := l.fc.Write(append(buf, extra...)); err != nil {
				l.close("follower write error")
				return
			}
			if doCut {
				l.close("cutafter")
				return
			}
		}
	}()
	for { // follower -> leader
		buf, extra, err := readFrame(fbr, false)
		if err != nil {
			l.close("follower side ended")
			return
		}
		logLine(frameInfo(l, "req", buf, extra))
		if _, err := l.lc.Write(append(buf, extra...)); err != nil {
			l.close("leader write error")
			return
		}
	}
}

func main() {
	listen := flag.String("listen", "127.0.0.1:15301", "")
	target := flag.String("target", "127.0.0.1:15300", "")
	logPath := flag.String("log", "", "")
	flag.Parse()
	f, err := os.Create(*logPath)
	if err != nil {
		fmt.Println("log:", err)
		os.Exit(2)
	}
	logW = bufio.NewWriter(f)
	ln, err := net.Listen("tcp", *listen)
	if err != nil {
		fmt.Println("listen error", err)
		os.Exit(1)
	}
	fmt.Println("ok listening", *listen, "->", *target)
	go func() {
		n := 0
		for {
			c, err := ln.Accept()
			if err != nil {
				return
			}
			lc, err := net.DialTimeout("tcp", *target, 2*time.Second)
			if err != nil {
				_ = c.Close()
				logLine(map[string]interface{}{"dial_error": err.Error()})
				continue
			}
			for _, x := range []net.Conn{c, lc} {
				if tc, ok := x.(*net.TCPConn); ok {
					_ = tc.SetNoDelay(true)
				}
			}
			l := &link{id: n, fc: c, lc: lc}
			n++
			stMu.Lock()
			links[l.id] = l
			stMu.Unlock()
			go handle(l)
		}
	}()
	sc := bufio.NewScanner(os.Stdin)
	for sc.Scan() {
		f := strings.Fields(sc.Text())
		if len(f) == 0 {
			continue
		}
		switch f[0] {
		case "mark":
			logLine(map[string]interface{}{"mark": strings.Join(f[1:], " ")})
		case "block":
			stMu.Lock()
			blocked = len(f) > 1 && f[1] == "on"
			stCond.Broadcast()
			stMu.Unlock()
		case "cut":
			stMu.Lock()
			var ls []*link
			for _, l := range links {
				if l.fwd {
					ls = append(ls, l)
				}
			}
			stMu.Unlock()
			for _, l := range ls {
				l.close("cut")
			}
		case "cutafter":
			n, _ := strconv.Atoi(f[1])
			stMu.Lock()
			cutAfter = n
			stMu.Unlock()
		case "links":
			stMu.Lock()
			k := 0
			for _, l := range links {
				if l.fwd {
					k++
				}
			}
			stMu.Unlock()
			fmt.Println("ok links", k)
			continue
		case "quit":
			fmt.Println("ok quit")
			return
		}
		fmt.Println("ok", sc.Text())
	}
}
