// fwdrun: executes request scripts against ONE slock node address (the leader directly, or a follower's port)
// and records, per command, the reply that came back, plus every frame nobody asked for.
//
//   fwdrun -plan plan.json -out out.json
//
// plan = {"addr": "127.0.0.1:15300", "tmax_ms": 3000, "short_ms": 60, "scripts": [script...]}
// script = {"id": "...", "conns": [{"kind": "bin"|"text", "addr": ""(optional override)}], "drain_ms": N, "steps": [step...]}
// step  = {"c": conn index, "op": "lock"|"unlock"|"init"|"ping"|"text"|"sleep"|"close"|"open",
//          bin lock/unlock: "rid": 32 hex, "key": <=16 chars, "lid": <=16 chars, "flag","timeout","tflag","expried","eflag","count","rcount", "val": string (SET data when flag&0x20)
//          text: "args": [..]; "chunks": [n1,n2..] optional split of the bytes into several writes (ms gap 15)
//          "wait": "reply" (block until the reply, at most tmax_ms) | "short" (at most short_ms; the command is expected to queue) | "none"
//          "ms": sleep duration}
// op "sync": wait until every command written on connection c so far has been answered (at most tmax_ms).
// All scripts of a plan run concurrently (own connections, own keys), the steps of one script run strictly in order.
//
// Output per script: {"id", "steps": [{"i", "sent_ms", "reply": {...}|null, "reply_ms", "late": bool, "err": ""}],
//                     "extras": [{"c", "at_ms", "frame": {...}}], "conn_errors": [{"c","at_ms","err"}]}
// A binary reply is matched to its command by RequestId; a text reply by position (the i-th value read on the
// connection answers the i-th command written on it).  Nothing is interpreted here; the check does the comparing.
package main

import (
	"bufio"
	"encoding/hex"
	"encoding/json"
	"flag"
	"fmt"
	"io"
	"net"
	"os"
	"strconv"
	"sync"
	"time"

	"github.com/snower/slock/protocol"
)

type Step struct {
	C       int      `json:"c"`
	Op      string   `json:"op"`
	Rid     string   `json:"rid"`
	Key     string   `json:"key"`
	Lid     string   `json:"lid"`
	Flag    int      `json:"flag"`
	Timeout int      `json:"timeout"`
	Tflag   int      `json:"tflag"`
	Expried int      `json:"expried"`
	Eflag   int      `json:"eflag"`
	Count   int      `json:"count"`
	Rcount  int      `json:"rcount"`
	Val     string   `json:"val"`
	Args    []string `json:"args"`
	Chunks  []int    `json:"chunks"`
	Wait    string   `json:"wait"`
	Ms      int      `json:"ms"`
}

type ConnSpec struct {
	Kind string `json:"kind"`
	Addr string `json:"addr"`
}

type Script struct {
	Id      string     `json:"id"`
	Conns   []ConnSpec `json:"conns"`
	Steps   []Step     `json:"steps"`
	DrainMs int        `json:"drain_ms"`
}

type Plan struct {
	Addr    string   `json:"addr"`
	TmaxMs  int      `json:"tmax_ms"`
	ShortMs int      `json:"short_ms"`
	Scripts []Script `json:"scripts"`
}

type StepOut struct {
	I       int         `json:"i"`
	SentMs  float64     `json:"sent_ms"`
	Reply   interface{} `json:"reply"`
	ReplyMs float64     `json:"reply_ms"`
	Late    bool        `json:"late"` // reply arrived after the step stopped waiting for it
	Err     string      `json:"err,omitempty"`
}

type Extra struct {
	C     int         `json:"c"`
	AtMs  float64     `json:"at_ms"`
	Frame interface{} `json:"frame"`
}

type ConnErr struct {
	C    int     `json:"c"`
	AtMs float64 `json:"at_ms"`
	Err  string  `json:"err"`
}

type ScriptOut struct {
	Id         string    `json:"id"`
	Steps      []StepOut `json:"steps"`
	Extras     []Extra   `json:"extras"`
	ConnErrors []ConnErr `json:"conn_errors"`
	WallMs     float64   `json:"wall_ms"`
}

func id16(s string) [16]byte {
	// same rule as protocol.TextCommandConverter.ConvertArgId2LockId for <= 16 characters
	var r [16]byte
	if len(s) > 16 {
		s = s[:16]
	}
	off := 16 - len(s)
	for i := 0; i < len(s); i++ {
		r[off+i] = s[i]
	}
	return r
}

func hex16(s string) [16]byte {
	var r [16]byte
	b, _ := hex.DecodeString(s)
	copy(r[:], b)
	return r
}

type conn struct {
	idx     int
	kind    string
	c       net.Conn
	mu      sync.Mutex
	cond    *sync.Cond
	byRid   map[[16]byte]int // bin: request id -> step index
	order   []int            // text: step indices in write order
	nread   int              // text: values read so far
	closed  bool
	stuck   bool // a command that had to be answered at once was not answered within tmax_ms: nothing more is sent
	readErr string
}

type runner struct {
	plan  *Plan
	sc    *Script
	out   *ScriptOut
	t0    time.Time
	conns []*conn
	mu    sync.Mutex // protects out
}

func (r *runner) now() float64 { return float64(time.Since(r.t0).Microseconds()) / 1000.0 }

func resultJSON(buf []byte, data []byte) map[string]interface{} {
	m := map[string]interface{}{"hex": hex.EncodeToString(buf), "ctype": int(buf[2])}
	switch buf[2] {
	case protocol.COMMAND_LOCK, protocol.COMMAND_UNLOCK:
		rc := protocol.LockResultCommand{}
		if err := rc.Decode(buf); err == nil {
			m["rid"] = hex.EncodeToString(rc.RequestId[:])
			m["result"] = int(rc.Result)
			m["flag"] = int(rc.Flag)
			m["dbid"] = int(rc.DbId)
			m["lockid"] = hex.EncodeToString(rc.LockId[:])
			m["lockkey"] = hex.EncodeToString(rc.LockKey[:])
			m["lcount"] = int(rc.Lcount)
			m["count"] = int(rc.Count)
			m["lrcount"] = int(rc.Lrcount)
			m["rcount"] = int(rc.Rcount)
		}
		if data != nil {
			m["data"] = hex.EncodeToString(data)
		}
	case protocol.COMMAND_INIT:
		rc := protocol.InitResultCommand{}
		if err := rc.Decode(buf); err == nil {
			m["rid"] = hex.EncodeToString(rc.RequestId[:])
			m["result"] = int(rc.Result)
			m["init_type"] = int(rc.InitType)
		}
	case protocol.COMMAND_STATE:
		rc := protocol.StateResultCommand{}
		if err := rc.Decode(buf); err == nil {
			m["rid"] = hex.EncodeToString(rc.RequestId[:])
			m["result"] = int(rc.Result)
			m["db_state"] = int(rc.DbState)
			m["state"] = map[string]interface{}{"lock": rc.State.LockCount, "unlock": rc.State.UnLockCount, "locked": rc.State.LockedCount,
				"keys": rc.State.KeyCount, "wait": rc.State.WaitCount, "timeouted": rc.State.TimeoutedCount, "expried": rc.State.ExpriedCount,
				"unlock_error": rc.State.UnlockErrorCount}
		}
	default:
		m["rid"] = hex.EncodeToString(buf[3:19])
		m["result"] = int(buf[19])
	}
	return m
}

func (r *runner) binReader(cn *conn) {
	br := bufio.NewReader(cn.c)
	for {
		buf := make([]byte, 64)
		if _, err := io.ReadFull(br, buf); err != nil {
			r.connEnd(cn, err)
			return
		}
		var data []byte
		if (buf[2] == protocol.COMMAND_LOCK || buf[2] == protocol.COMMAND_UNLOCK) && buf[20]&protocol.LOCK_FLAG_CONTAINS_DATA != 0 {
			lb := make([]byte, 4)
			if _, err := io.ReadFull(br, lb); err != nil {
				r.connEnd(cn, err)
				return
			}
			n := int(uint32(lb[0]) | uint32(lb[1])<<8 | uint32(lb[2])<<16 | uint32(lb[3])<<24)
			if n > 1<<24 {
				r.connEnd(cn, fmt.Errorf("data frame too long %d", n))
				return
			}
			data = make([]byte, 4+n)
			copy(data, lb)
			if _, err := io.ReadFull(br, data[4:]); err != nil {
				r.connEnd(cn, err)
				return
			}
		}
		at := r.now()
		fr := resultJSON(buf, data)
		var rid [16]byte
		copy(rid[:], buf[3:19])
		cn.mu.Lock()
		si, ok := cn.byRid[rid]
		if ok {
			delete(cn.byRid, rid)
		}
		cn.mu.Unlock()
		r.mu.Lock()
		if ok && r.out.Steps[si].Reply == nil {
			r.out.Steps[si].Reply = fr
			r.out.Steps[si].ReplyMs = at
		} else {
			r.out.Extras = append(r.out.Extras, Extra{cn.idx, at, fr})
		}
		r.mu.Unlock()
		cn.mu.Lock()
		cn.cond.Broadcast()
		cn.mu.Unlock()
	}
}

// RESP value -> JSON
func readResp(br *bufio.Reader, depth int) (interface{}, error) {
	line, err := br.ReadString('\n')
	if err != nil {
		return nil, err
	}
	if len(line) < 3 || line[len(line)-2] != '\r' {
		return map[string]interface{}{"raw": line}, nil
	}
	body := line[1 : len(line)-2]
	switch line[0] {
	case '+':
		return map[string]interface{}{"s": body}, nil
	case '-':
		return map[string]interface{}{"e": body}, nil
	case ':':
		n, _ := strconv.ParseInt(body, 10, 64)
		return map[string]interface{}{"i": n}, nil
	case '$':
		n, _ := strconv.Atoi(body)
		if n < 0 {
			return map[string]interface{}{"b": nil}, nil
		}
		buf := make([]byte, n+2)
		if _, err := io.ReadFull(br, buf); err != nil {
			return nil, err
		}
		return map[string]interface{}{"b": string(buf[:n])}, nil
	case '*':
		n, _ := strconv.Atoi(body)
		if n < 0 {
			return map[string]interface{}{"a": nil}, nil
		}
		arr := make([]interface{}, 0, n)
		for i := 0; i < n; i++ {
			if depth > 8 {
				return nil, fmt.Errorf("resp too deep")
			}
			v, err := readResp(br, depth+1)
			if err != nil {
				return nil, err
			}
			arr = append(arr, v)
		}
		return map[string]interface{}{"a": arr}, nil
	}
	return map[string]interface{}{"raw": line}, nil
}

func (r *runner) textReader(cn *conn) {
	br := bufio.NewReader(cn.c)
	for {
		v, err := readResp(br, 0)
		if err != nil {
			r.connEnd(cn, err)
			return
		}
		at := r.now()
		cn.mu.Lock()
		si := -1
		if cn.nread < len(cn.order) {
			si = cn.order[cn.nread]
		}
		cn.nread++
		cn.mu.Unlock()
		r.mu.Lock()
		if si >= 0 {
			r.out.Steps[si].Reply = v
			r.out.Steps[si].ReplyMs = at
		} else {
			r.out.Extras = append(r.out.Extras, Extra{cn.idx, at, v})
		}
		r.mu.Unlock()
		cn.mu.Lock()
		cn.cond.Broadcast()
		cn.mu.Unlock()
	}
}

func (r *runner) connEnd(cn *conn, err error) {
	cn.mu.Lock()
	was := cn.closed
	cn.closed = true
	cn.readErr = err.Error()
	cn.cond.Broadcast()
	cn.mu.Unlock()
	if !was {
		r.mu.Lock()
		r.out.ConnErrors = append(r.out.ConnErrors, ConnErr{cn.idx, r.now(), err.Error()})
		r.mu.Unlock()
	}
}

func (r *runner) open(i int) error {
	spec := r.sc.Conns[i]
	addr := r.plan.Addr
	if spec.Addr != "" {
		addr = spec.Addr
	}
	c, err := net.DialTimeout("tcp", addr, 2*time.Second)
	if err != nil {
		return err
	}
	if tc, ok := c.(*net.TCPConn); ok {
		_ = tc.SetNoDelay(true)
	}
	cn := &conn{idx: i, kind: spec.Kind, c: c, byRid: map[[16]byte]int{}}
	cn.cond = sync.NewCond(&cn.mu)
	r.conns[i] = cn
	if spec.Kind == "bin" {
		go r.binReader(cn)
	} else {
		go r.textReader(cn)
	}
	return nil
}

func respBytes(args []string) []byte {
	s := "*" + strconv.Itoa(len(args)) + "\r\n"
	for _, a := range args {
		s += "$" + strconv.Itoa(len(a)) + "\r\n" + a + "\r\n"
	}
	return []byte(s)
}

func (r *runner) waitReply(cn *conn, si int, ms int) {
	deadline := time.Now().Add(time.Duration(ms) * time.Millisecond)
	done := make(chan struct{})
	go func() { // wake the waiter at the deadline
		select {
		case <-time.After(time.Until(deadline)):
			cn.mu.Lock()
			cn.cond.Broadcast()
			cn.mu.Unlock()
		case <-done:
		}
	}()
	cn.mu.Lock()
	for {
		r.mu.Lock()
		got := r.out.Steps[si].Reply != nil
		r.mu.Unlock()
		if got || cn.closed || !time.Now().Before(deadline) {
			break
		}
		cn.cond.Wait()
	}
	cn.mu.Unlock()
	close(done)
}

func (r *runner) run() {
	r.t0 = time.Now()
	r.conns = make([]*conn, len(r.sc.Conns))
	r.out.Steps = make([]StepOut, len(r.sc.Steps))
	stopped := map[int]float64{} // step -> time at which we stopped waiting
	for i := range r.sc.Conns {
		if err := r.open(i); err != nil {
			r.out.ConnErrors = append(r.out.ConnErrors, ConnErr{i, r.now(), "dial: " + err.Error()})
		}
	}
	for si, st := range r.sc.Steps {
		r.mu.Lock()
		r.out.Steps[si].I = si
		r.out.Steps[si].SentMs = r.now()
		r.mu.Unlock()
		if st.Op == "sleep" {
			time.Sleep(time.Duration(st.Ms) * time.Millisecond)
			continue
		}
		if st.C < 0 || st.C >= len(r.conns) {
			continue
		}
		if st.Op == "open" {
			if err := r.open(st.C); err != nil {
				r.out.Steps[si].Err = "dial: " + err.Error()
			}
			continue
		}
		cn := r.conns[st.C]
		if cn == nil {
			r.out.Steps[si].Err = "no connection"
			continue
		}
		if st.Op == "sync" { // wait until every command written on this connection so far has its reply (at most tmax_ms)
			deadline := time.Now().Add(time.Duration(r.plan.TmaxMs) * time.Millisecond)
			for time.Now().Before(deadline) {
				cn.mu.Lock()
				out := len(cn.byRid) > 0 || cn.nread < len(cn.order)
				dead := cn.closed
				cn.mu.Unlock()
				if !out || dead {
					break
				}
				time.Sleep(2 * time.Millisecond)
			}
			continue
		}
		if st.Op == "close" {
			cn.mu.Lock()
			cn.closed = true
			cn.mu.Unlock()
			_ = cn.c.Close()
			continue
		}
		var wire []byte
		switch st.Op {
		case "lock", "unlock":
			cmd := protocol.LockCommand{}
			cmd.Magic, cmd.Version = protocol.MAGIC, protocol.VERSION
			if st.Op == "lock" {
				cmd.CommandType = protocol.COMMAND_LOCK
			} else {
				cmd.CommandType = protocol.COMMAND_UNLOCK
			}
			cmd.RequestId = hex16(st.Rid)
			cmd.Flag, cmd.DbId = uint8(st.Flag), 0
			cmd.LockId, cmd.LockKey = id16(st.Lid), id16(st.Key)
			cmd.Timeout, cmd.TimeoutFlag = uint16(st.Timeout), uint16(st.Tflag)
			cmd.Expried, cmd.ExpriedFlag = uint16(st.Expried), uint16(st.Eflag)
			cmd.Count, cmd.Rcount = uint16(st.Count), uint8(st.Rcount)
			wire = make([]byte, 64)
			_ = cmd.Encode(wire)
			if cmd.Flag&protocol.LOCK_FLAG_CONTAINS_DATA != 0 {
				wire = append(wire, protocol.NewLockCommandDataSetString(st.Val).Data...)
			}
		case "init":
			cmd := protocol.InitCommand{}
			cmd.Magic, cmd.Version, cmd.CommandType = protocol.MAGIC, protocol.VERSION, protocol.COMMAND_INIT
			cmd.RequestId = hex16(st.Rid)
			cmd.ClientId = id16(st.Lid)
			wire = make([]byte, 64)
			_ = cmd.Encode(wire)
		case "ping":
			cmd := protocol.PingCommand{}
			cmd.Magic, cmd.Version, cmd.CommandType = protocol.MAGIC, protocol.VERSION, protocol.COMMAND_PING
			cmd.RequestId = hex16(st.Rid)
			wire = make([]byte, 64)
			_ = cmd.Encode(wire)
		case "state":
			cmd := protocol.StateCommand{}
			cmd.Magic, cmd.Version, cmd.CommandType = protocol.MAGIC, protocol.VERSION, protocol.COMMAND_STATE
			cmd.RequestId = hex16(st.Rid)
			wire = make([]byte, 64)
			_ = cmd.Encode(wire)
		case "text":
			wire = respBytes(st.Args)
		default:
			r.out.Steps[si].Err = "unknown op " + st.Op
			continue
		}
		cn.mu.Lock()
		if cn.kind == "bin" {
			cn.byRid[hex16(st.Rid)] = si
		} else {
			cn.order = append(cn.order, si)
		}
		dead, stuck := cn.closed, cn.stuck
		if dead || stuck { // not written: forget the bookkeeping made above
			if cn.kind == "bin" {
				delete(cn.byRid, hex16(st.Rid))
			} else {
				cn.order = cn.order[:len(cn.order)-1]
			}
		}
		cn.mu.Unlock()
		if dead {
			r.out.Steps[si].Err = "connection closed before send: " + cn.readErr
			continue
		}
		if stuck {
			r.out.Steps[si].Err = "connection stuck: an earlier command was never answered"
			continue
		}
		var werr error
		if len(st.Chunks) > 0 {
			off := 0
			for _, n := range st.Chunks {
				if off+n > len(wire) {
					n = len(wire) - off
				}
				if n <= 0 {
					break
				}
				_, werr = cn.c.Write(wire[off : off+n])
				off += n
				time.Sleep(15 * time.Millisecond)
			}
			if off < len(wire) && werr == nil {
				_, werr = cn.c.Write(wire[off:])
			}
		} else {
			_, werr = cn.c.Write(wire)
		}
		r.mu.Lock()
		r.out.Steps[si].SentMs = r.now()
		if werr != nil {
			r.out.Steps[si].Err = "write: " + werr.Error()
		}
		r.mu.Unlock()
		switch st.Wait {
		case "reply":
			r.waitReply(cn, si, r.plan.TmaxMs)
			stopped[si] = r.now()
			r.mu.Lock()
			got := r.out.Steps[si].Reply != nil
			r.mu.Unlock()
			if !got && cn.kind == "text" {
				cn.mu.Lock()
				cn.stuck = true
				cn.mu.Unlock()
			}
		case "short":
			r.waitReply(cn, si, r.plan.ShortMs)
			stopped[si] = r.now()
		default:
			stopped[si] = r.now()
		}
	}
	// drain: give outstanding replies (queued locks running into their timeout, late relays) time to arrive
	deadline := time.Now().Add(time.Duration(r.sc.DrainMs) * time.Millisecond)
	for time.Now().Before(deadline) {
		pending := false
		r.mu.Lock()
		for si, st := range r.sc.Steps {
			if (st.Op == "lock" || st.Op == "unlock" || st.Op == "init" || st.Op == "ping" || st.Op == "state" || st.Op == "text") && r.out.Steps[si].Reply == nil && r.out.Steps[si].Err == "" {
				cn := r.conns[st.C]
				if cn != nil && !cn.closed {
					pending = true
				}
			}
		}
		r.mu.Unlock()
		if !pending {
			break
		}
		time.Sleep(20 * time.Millisecond)
	}
	time.Sleep(60 * time.Millisecond) // anything unsolicited right behind the last reply
	r.mu.Lock()
	for si := range r.out.Steps {
		if r.out.Steps[si].Reply != nil {
			if t, ok := stopped[si]; ok && r.out.Steps[si].ReplyMs > t {
				r.out.Steps[si].Late = true
			}
		}
	}
	r.out.WallMs = r.now()
	r.mu.Unlock()
	for _, cn := range r.conns {
		if cn != nil {
			cn.mu.Lock()
			cn.closed = true
			cn.mu.Unlock()
			_ = cn.c.Close()
		}
	}
}

func main() {
	planPath := flag.String("plan", "", "")
	outPath := flag.String("out", "", "")
	flag.Parse()
	raw, err := os.ReadFile(*planPath)
	if err != nil {
		fmt.Println("plan:", err)
		os.Exit(2)
	}
	plan := &Plan{}
	if err := json.Unmarshal(raw, plan); err != nil {
		fmt.Println("plan:", err)
		os.Exit(2)
	}
	if plan.TmaxMs == 0 {
		plan.TmaxMs = 3000
	}
	if plan.ShortMs == 0 {
		plan.ShortMs = 60
	}
	outs := make([]*ScriptOut, len(plan.Scripts))
	var wg sync.WaitGroup
	for i := range plan.Scripts {
		outs[i] = &ScriptOut{Id: plan.Scripts[i].Id, Extras: []Extra{}, ConnErrors: []ConnErr{}}
		r := &runner{plan: plan, sc: &plan.Scripts[i], out: outs[i]}
		wg.Add(1)
		go func() {
			defer wg.Done()
			r.run()
		}()
	}
	wg.Wait()
	b, _ := json.Marshal(map[string]interface{}{"addr": plan.Addr, "scripts": outs})
	if err := os.WriteFile(*outPath, b, 0644); err != nil {
		fmt.Println("out:", err)
		os.Exit(2)
	}
}
