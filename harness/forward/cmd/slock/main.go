// Placeholder: replaced at build time (go build -overlay) by /repo/main.go, so that the real slock
// command is built from the working tree inside this module without writing into /repo.
package main

func main() {}
