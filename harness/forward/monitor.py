"""Monitors for C10_proc (the executable statement of the forwarding half of C10, evaluated on recorded runs).

compare()        reply-by-reply equality of the run through the follower (B) with the run against the leader (A)
echo_issues()    a reply must name the lock key / lock id of the command it answers (never another command's reply)
forward_audit()  with the link log of the proxy between follower and leader: every client command reached the leader
                 exactly once, what the client got is byte-for-byte what the leader sent, and the follower answered on
                 its own only with a refusal
"""
import json

RESULT_STATE_ERROR, RESULT_TIMEOUT = 10, 8
F_PROBE = 0x08
CMD_OPS = ("lock", "unlock", "push", "init", "ping", "state", "set", "get", "del", "incr", "echo", "exists", "strlen")
FWD_TEXT = {"lock": 1, "push": 1, "set": 1, "incr": 1, "unlock": 2, "del": 2}


def _subst(x, prefix):
    hp = prefix.encode().hex()
    if isinstance(x, str):
        return x.replace(prefix, "PPPPPP").replace(hp, "50" * 6)
    if isinstance(x, list):
        return [_subst(y, prefix) for y in x]
    if isinstance(x, dict):
        return {k: _subst(v, prefix) for k, v in x.items()}
    return x


def text_fields(reply):
    """LOCK/UNLOCK result array -> dict, else None"""
    if not isinstance(reply, dict) or not isinstance(reply.get("a"), list):
        return None
    a = [e.get("b") if isinstance(e, dict) and "b" in e else e for e in reply["a"]]
    if len(a) < 12 or a[2] != "LOCK_ID":
        return None
    d = {"result": a[0], "msg": a[1]}
    for i in range(2, len(a) - 1, 2):
        if isinstance(a[i], str):
            d[a[i]] = a[i + 1]
    return d


def canon(reply, prefix, inf):
    """reply with everything that legitimately differs between two runs removed: request ids, the run's key prefix, and
    lock ids the SERVER generated (text LOCK without LOCK_ID: the id is the random request id; such an id also shows up
    in replies that name the holder)"""
    if reply is None:
        return None
    r = json.loads(json.dumps(reply))
    hp = prefix.encode().hex()

    def gen_id(x):
        return isinstance(x, str) and len(x) == 32 and hp not in x and x.strip("0") != ""
    if inf.get("kind") == "bin":
        r.pop("hex", None)
        r.pop("rid", None)
        if r.get("ctype") == 0:
            r.pop("init_type", None)      # carries the node's own role bits by design
        if gen_id(r.get("lockid")):
            r["lockid"] = "<generated>"
    else:
        if isinstance(r.get("a"), list):
            a = r["a"]
            for i in range(len(a) - 1):
                if isinstance(a[i], dict) and a[i].get("b") == "LOCK_ID" and isinstance(a[i + 1], dict):
                    if (inf.get("lid") is None and inf["op"] in ("lock", "unlock", "push")) or gen_id(a[i + 1].get("b")):
                        a[i + 1] = {"b": "<generated>"}
    return _subst(r, prefix)


def compare(info_a, out_a, pref_a, info_b, out_b, pref_b):
    diffs = []
    for i, (ia, ib) in enumerate(zip(info_a, info_b)):
        if ia["op"] not in CMD_OPS:
            continue
        ra, rb = out_a["steps"][i].get("reply"), out_b["steps"][i].get("reply")
        ca, cb = canon(ra, pref_a, ia), canon(rb, pref_b, ib)
        if ca != cb:
            diffs.append({"kind": "reply", "i": i, "op": ia["op"], "c": ia["c"], "conn_kind": ia["kind"], "pos": ia["pos"], "leader": ca, "follower": cb})
    def clean(e, pref):
        f = json.loads(json.dumps(e["frame"]))
        if isinstance(f, dict):
            f.pop("hex", None)
            f.pop("rid", None)
        return json.dumps(_subst(f, pref), sort_keys=True)
    ea = sorted(clean(e, pref_a) for e in out_a["extras"])
    eb = sorted(clean(e, pref_b) for e in out_b["extras"])
    if ea != eb:
        diffs.append({"kind": "extras", "leader": out_a["extras"], "follower": out_b["extras"]})
    ca = sorted(e["c"] for e in out_a["conn_errors"])
    cb = sorted(e["c"] for e in out_b["conn_errors"])
    if ca != cb:
        diffs.append({"kind": "conn", "leader": out_a["conn_errors"], "follower": out_b["conn_errors"]})
    return diffs


def order_diff(info, out_a, out_b):
    """per binary connection: the order in which replies arrived (only replies present on both sides)"""
    res = []
    conns = sorted({inf["c"] for inf in info if inf.get("kind") == "bin"})
    for c in conns:
        idx = [i for i, inf in enumerate(info) if inf.get("c") == c and inf["op"] in CMD_OPS
               and out_a["steps"][i].get("reply") is not None and out_b["steps"][i].get("reply") is not None]
        oa = sorted(idx, key=lambda i: (out_a["steps"][i]["reply_ms"], i))
        ob = sorted(idx, key=lambda i: (out_b["steps"][i]["reply_ms"], i))
        if oa != ob:
            res.append({"kind": "order", "c": c, "leader": oa, "follower": ob})
    return res


def echo_issues(info, out):
    """replies that do not belong to the command they were handed out for"""
    res = []
    for i, inf in enumerate(info):
        if inf["op"] not in CMD_OPS:
            continue
        r = out["steps"][i].get("reply")
        if r is None:
            continue
        if inf["kind"] == "bin":
            if inf["op"] in ("lock", "unlock"):
                want = 1 if inf["op"] == "lock" else 2
                plain = (inf["flag"] & ~0x20) == 0     # show-when-locked / unlock-first replies name the HOLDER's lock id by design
                if r.get("ctype") != want or r.get("lockkey") != inf["keyhex"] or (plain and inf["lidhex"] and r.get("lockid") != inf["lidhex"]):
                    res.append({"i": i, "c": inf["c"], "pos": inf["pos"], "op": inf["op"], "why": "binary reply names another command", "reply": r})
        else:
            f = text_fields(r)
            if inf["op"] in ("lock", "unlock"):
                if f is None:
                    if not (isinstance(r, dict) and "e" in r):
                        res.append({"i": i, "c": inf["c"], "pos": inf["pos"], "op": inf["op"], "why": "LOCK/UNLOCK answered with something that is not a lock result", "reply": r})
                elif inf["lidhex"] and (inf["flag"] & ~0x20) == 0 and f.get("LOCK_ID") != inf["lidhex"]:
                    res.append({"i": i, "c": inf["c"], "pos": inf["pos"], "op": inf["op"], "why": "lock result carries another command's LOCK_ID",
                                "want": inf["lidhex"], "got": f.get("LOCK_ID"), "reply": r})
            elif inf["op"] in ("push", "set", "ping", "echo", "del", "incr", "get"):
                if f is not None:
                    res.append({"i": i, "c": inf["c"], "pos": inf["pos"], "op": inf["op"], "why": "%s answered with a lock result" % inf["op"].upper(), "reply": r})
    return res


def unanswered(info, out):
    return [i for i, inf in enumerate(info) if inf["op"] in CMD_OPS and out["steps"][i].get("reply") is None and not out["steps"][i].get("err")]


def forward_audit(info, out, frames):
    """frames: link-log entries of forwarding links.  Returns dict with lists of findings and counters."""
    req_by_rid, rep_by_rid = {}, {}
    req_by_key = {}
    for f in frames:
        if f.get("dir") == "req":
            req_by_rid.setdefault(f["rid"], []).append(f)
            if "lockkey" in f:
                req_by_key.setdefault((f["ctype"], f["lockkey"]), []).append(f)
        elif f.get("dir") == "rep" and not f.get("dropped"):
            rep_by_rid.setdefault(f["rid"], []).append(f)
    res = {"relayed_identical": 0, "relay_altered": [], "local_refusals": 0, "local_probe_answers": 0, "local_answers": [], "forwarded_twice": [],
           "not_forwarded": [], "forwarded": 0, "text_forwarded": 0}
    expected = {}
    for i, inf in enumerate(info):
        op = inf["op"]
        if inf.get("kind") == "bin" and op in ("lock", "unlock"):
            reqs = req_by_rid.get(inf["rid"], [])
            if len(reqs) > 1:
                res["forwarded_twice"].append({"i": i, "n": len(reqs)})
            if reqs:
                res["forwarded"] += 1
                k = (reqs[0]["ctype"], reqs[0].get("lockkey"))
                expected[k] = expected.get(k, 0) + len(reqs)
            r = out["steps"][i].get("reply")
            if r is None:
                continue
            reps = rep_by_rid.get(inf["rid"], [])
            if reps:
                if any(rp["hex"] == r.get("hex") and rp.get("data") == r.get("data") for rp in reps):
                    res["relayed_identical"] += 1
                else:
                    res["relay_altered"].append({"i": i, "client_got": r, "leader_sent": reps})
            else:
                if r.get("result") == RESULT_STATE_ERROR:
                    res["local_refusals"] += 1
                elif inf["flag"] & F_PROBE and inf["timeout"] == 0 and r.get("result") == RESULT_TIMEOUT:
                    res["local_probe_answers"] += 1
                else:
                    res["local_answers"].append({"i": i, "op": op, "reply": r})
    text_groups = {}
    for i, inf in enumerate(info):
        if inf.get("kind") == "text" and inf["op"] in FWD_TEXT:
            k = (FWD_TEXT[inf["op"]], inf["keyhex"])
            text_groups.setdefault(k, []).append(i)
    for k, idxs in text_groups.items():
        found = len(req_by_key.get(k, [])) - expected.get(k, 0)
        probes = [i for i in idxs if info[i]["flag"] & F_PROBE and info[i]["timeout"] == 0] if k[0] == 1 else []
        need = len(idxs)
        res["text_forwarded"] += max(0, min(found, need))
        if found < need - len(probes):
            missing = need - len(probes) - found
            # attribute to the connection-first short commands first (they are the ones executed by checkProtocol)
            firsts = [i for i in idxs if info[i]["pos"] == 0 and info[i]["wire_len"] <= 64]
            rest = [i for i in idxs if i not in firsts]
            for i in (firsts + rest)[:missing]:
                res["not_forwarded"].append({"i": i, "op": info[i]["op"], "c": info[i]["c"], "first_of_connection": info[i]["pos"] == 0,
                                             "wire_len": info[i]["wire_len"], "reply": out["steps"][i].get("reply")})
        elif found > need:
            res["forwarded_twice"].append({"key": k[1], "expected": need, "found": found})
    return res
