"""Request-script generator for C10_proc.

A *symbolic* script names keys ("k0".."k3": 16-character keys usable from both protocols; "s0","s1": short keys, so
that a whole text command fits the 64-byte first read of Server.checkProtocol) and lock ids ("c<conn>i<n>").  concretise()
turns it into a fwdrun script with a 6-character prefix that is unique per (script, phase, attempt): the same symbolic
script therefore runs on fresh keys every time, directly against the leader and through the follower.

The builder keeps a rough virtual clock and a rough model of holders/waiters only to (a) mark commands that are expected
to queue (the runner then waits `short_ms` instead of `tmax_ms`) and (b) keep commands away from pending millisecond
deadlines (expiry / wait timeout), so that both runs see the same order of timer events and commands.
"""
import hashlib

MS = 0x0400          # TIMEOUT_FLAG_MILLISECOND_TIME / EXPRIED_FLAG_MILLISECOND_TIME
ZERO_AOF = 0x0100    # EXPRIED_FLAG_ZEOR_AOF_TIME: the hold is persisted (hence replicated) at once
F_SHOW, F_UPDATE, F_PROBE, F_DATA = 0x01, 0x02, 0x08, 0x20
UF_FIRST, UF_CANCEL = 0x01, 0x02
FORWARDED_TEXT = ("lock", "unlock", "push", "set", "del", "incr", "setnx", "append")


class B:
    def __init__(self, rng, sid, family):
        self.r, self.sid, self.family = rng, sid, family
        self.conns, self.steps = [], []
        self.now = 0.0
        self.deadlines = []
        self.holders, self.waiters = {}, {}
        self.busy = {}
        self.nlid = 0
        self.sent = {}            # conn -> number of commands written

    # ---------------------------------------------------------------- plumbing
    def conn(self, kind):
        self.conns.append({"kind": kind})
        self.busy[len(self.conns) - 1] = -10000
        self.sent[len(self.conns) - 1] = 0
        return len(self.conns) - 1

    def kind(self, c):
        return self.conns[c]["kind"]

    def sleep(self, ms):
        self.steps.append({"c": -1, "op": "sleep", "ms": int(ms)})
        self.now += ms

    def settle(self, margin=140):
        for _ in range(8):
            near = [d for d in self.deadlines if abs(d - self.now) < margin]
            if not near:
                break
            self.sleep(max(near) - self.now + margin + 30)
        self.deadlines = [d for d in self.deadlines if d > self.now - 2000]

    def free_conn(self, c):
        if self.busy[c] > self.now - 150:
            self.sleep(self.busy[c] - self.now + 170)
        self.settle()

    def newlid(self, c):
        self.nlid += 1
        return "c%di%d" % (c, self.nlid)

    def live(self, key):
        hs = [h for h in self.holders.get(key, []) if h["dl"] is None or h["dl"] > self.now]
        self.holders[key] = hs
        return hs

    def emit(self, st, cost=3):
        self.steps.append(st)
        if st.get("c", -1) >= 0:
            self.sent[st["c"]] += 1
        self.now += cost
        return len(self.steps) - 1

    # ---------------------------------------------------------------- commands
    def lock(self, c, key, lid=None, timeout=0, tms=False, exp=30, ems=False, count=0, rcount=0, flag=0, eflag=0, tflag=0,
             wait=None, op="lock", minimal=False, val=None, nolid=False, chunks=None, free=True):
        if free:
            self.free_conn(c)
        if minimal:
            nolid, lid = True, None          # a command that must fit 64 bytes carries no LOCK_ID (the server generates / remembers one)
        if lid is None and not nolid:
            lid = self.newlid(c)
        tfl = tflag | (MS if tms else 0)
        efl = eflag | (MS if ems else 0)
        t_ms = timeout if tms else timeout * 1000
        e_ms = exp if ems else exp * 1000
        live = self.live(key)
        reent = any(h["lid"] == lid for h in live)
        blocks = (not reent) and len(live) > count and t_ms > 0 and not (flag & F_PROBE and timeout == 0)
        granted = reent or len(live) <= count
        if op == "push":
            w = "reply"                      # PUSH is answered +OK at once, whatever the lock does
        elif wait is None:
            w = "short" if blocks else "reply"
        else:
            w = wait
        st = {"c": c, "op": op, "key": key, "lid": lid, "flag": flag | (F_DATA if val is not None else 0), "timeout": timeout, "tflag": tfl,
              "expried": exp, "eflag": efl, "count": count, "rcount": rcount, "wait": w, "minimal": minimal}
        if val is not None:
            st["val"] = val
        if chunks:
            st["chunks"] = chunks
        i = self.emit(st, cost=65 if w == "short" else 3)
        if flag & F_PROBE and timeout == 0:
            return i
        if blocks:
            self.deadlines.append(self.now + t_ms)
            self.waiters.setdefault(key, []).append({"c": c, "lid": lid, "dl": self.now + t_ms, "e_ms": e_ms, "ems": ems})
            if self.kind(c) == "text" and op != "push":
                self.busy[c] = self.now + t_ms
        elif granted and not reent:
            dl = self.now + e_ms if ems else None
            if dl:
                self.deadlines.append(dl)
            self.holders.setdefault(key, []).append({"lid": lid, "dl": dl, "c": c})
        return i

    def unlock(self, c, key, lid, flag=0, rcount=0, wait=None, minimal=False, nolid=False, free=True):
        if free:
            self.free_conn(c)
        st = {"c": c, "op": "unlock", "key": key, "lid": None if nolid else lid, "flag": flag, "timeout": 0, "tflag": 0, "expried": 0, "eflag": 0,
              "count": 0, "rcount": rcount, "wait": wait or "reply", "minimal": minimal}
        i = self.emit(st)
        hs = self.live(key)
        if any(h["lid"] == lid for h in hs):
            self.holders[key] = [h for h in hs if h["lid"] != lid]
            ws = [w for w in self.waiters.get(key, []) if w["dl"] > self.now]
            if ws:
                w = ws.pop(0)
                dl = self.now + w["e_ms"] if w["ems"] else None
                if dl:
                    self.deadlines.append(dl)
                self.holders[key].append({"lid": w["lid"], "dl": dl, "c": w["c"]})
                self.busy[w["c"]] = min(self.busy[w["c"]], self.now)
            self.waiters[key] = ws
        return i

    def text(self, c, op, key=None, val=None, extra=None, wait="reply", free=True):
        """SET/GET/DEL/INCR/PING ... on a text connection"""
        if free:
            self.free_conn(c)
        st = {"c": c, "op": op, "key": key, "val": val, "extra": extra or [], "wait": wait}
        return self.emit(st)

    def raw(self, c, op, wait="reply", **kw):
        st = {"c": c, "op": op, "wait": wait}
        st.update(kw)
        return self.emit(st)

    def sync(self, c):
        self.steps.append({"c": c, "op": "sync"})
        self.now += 5

    def done(self):
        pend = [d for d in self.deadlines if d > self.now]
        drain = int(max(pend) - self.now + 500) if pend else 300
        return {"id": self.sid, "family": self.family, "conns": self.conns, "steps": self.steps, "drain_ms": min(max(drain, 300), 6000)}


# -------------------------------------------------------------------------------------------------- families
KEYS = ["k0", "k1", "k2"]


def fam_bin_basic(r, sid):
    b = B(r, sid, "bin-basic")
    cs = [b.conn("bin") for _ in range(r.choice([1, 2, 3]))]
    if r.random() < 0.4:
        b.raw(cs[0], "init", lid="cl%d" % r.randrange(1000))
    held = []
    for _ in range(r.randrange(10, 26)):
        c = r.choice(cs)
        x = r.random()
        if x < 0.5 or not held:
            key = r.choice(KEYS)
            count = r.choice([0, 0, 0, 1, 2])
            flag = r.choice([0, 0, 0, F_SHOW, F_UPDATE])
            lid = None
            if held and r.random() < 0.25:                      # re-entrant / update on an own hold
                key, lid = r.choice(held)
            i = b.lock(c, key, lid=lid, timeout=0, exp=r.choice([30, 30, 60]), count=count, rcount=r.choice([0, 0, 2]), flag=flag,
                       eflag=r.choice([0, ZERO_AOF]), val=("v%d" % r.randrange(100)) if r.random() < 0.2 else None)
            held.append((key, b.steps[i]["lid"]))
        elif x < 0.85:
            key, lid = r.choice(held)
            b.unlock(c, key, lid, flag=r.choice([0, 0, UF_FIRST]), rcount=r.choice([0, 0, 1]))
        elif x < 0.93:
            b.unlock(c, r.choice(KEYS), "nobody")               # unlock of something never locked
        else:
            b.raw(c, "ping")
    return b.done()


def fam_bin_pipeline(r, sid):
    b = B(r, sid, "bin-pipeline")
    cs = [b.conn("bin") for _ in range(r.choice([1, 1, 2]))]
    for burst in range(r.choice([1, 2, 3])):
        c = r.choice(cs)
        n = r.choice([8, 16, 40, 90])
        held = []
        for j in range(n):
            if held and r.random() < 0.45:
                key, lid = held.pop(r.randrange(len(held)))
                b.unlock(c, key, lid, wait="none", free=False)
            else:
                key = r.choice(KEYS + ["k3"])
                i = b.lock(c, key, timeout=0, exp=30, count=r.choice([0, 0, 3]), wait="none", free=False)
                held.append((key, b.steps[i]["lid"]))
        b.sync(c)
    return b.done()


def fam_bin_queue(r, sid):
    b = B(r, sid, "bin-queue")
    cs = [b.conn("bin") for _ in range(r.choice([2, 3]))]
    for rnd in range(r.choice([1, 2])):
        key = r.choice(KEYS)
        h = b.lock(cs[0], key, timeout=0, exp=r.choice([30, 30, 700]), ems=False)
        if b.steps[h]["expried"] == 700:
            b.steps[h]["eflag"] |= MS
            b.holders[key][-1]["dl"] = b.now + 700
            b.deadlines.append(b.now + 700)
        hl = b.steps[h]["lid"]
        nw = r.choice([1, 2, 3])
        for k in range(nw):
            b.lock(cs[1 + k % (len(cs) - 1)], key, timeout=r.choice([300, 600, 900]), tms=True, exp=r.choice([30, 400]), ems=False)
            if b.steps[-1]["expried"] == 400:
                b.steps[-1]["eflag"] |= MS
                for w in b.waiters.get(key, []):
                    if w["lid"] == b.steps[-1]["lid"]:
                        w["ems"], w["e_ms"] = True, 400
        x = r.random()
        if x < 0.6 and b.steps[h]["expried"] != 700:
            b.sleep(r.choice([60, 120]))
            b.unlock(cs[0], key, hl)                            # wakes the first waiter: a deferred reply
            if r.random() < 0.5:
                b.sleep(80)
                b.lock(cs[0], key, timeout=0, exp=30)           # holder again? the woken waiter holds it: LOCKED_ERROR
        b.sleep(1100)
        b.settle()
        for key2 in KEYS:
            b.lock(cs[0], key2, timeout=0, exp=30, flag=F_SHOW)  # who holds what now
    return b.done()


LONGPAD = "padpadpadpadpadpadpadpadpadpadpadpadpadpadpadpadpadpadpadpad"   # makes a first text command longer than 64 bytes


def text_opening(b, c, r):
    """first command of a text connection that does NOT fit the 64-byte first read (so it is handled like any later one)"""
    if r.random() < 0.5:
        b.text(c, "echo", val=LONGPAD)
    else:
        b.text(c, "ping", val=LONGPAD)


def fam_text_basic(r, sid):
    b = B(r, sid, "text-basic")
    cs = [b.conn("text") for _ in range(r.choice([1, 2]))]
    for c in cs:
        text_opening(b, c, r)
    held = []
    for _ in range(r.randrange(8, 20)):
        c = r.choice(cs)
        x = r.random()
        if x < 0.4 or not held:
            key = r.choice(KEYS)
            i = b.lock(c, key, timeout=0, exp=30, count=r.choice([0, 0, 1]), flag=r.choice([0, 0, F_SHOW]), nolid=r.random() < 0.15,
                       val=("tv%d" % r.randrange(50)) if r.random() < 0.2 else None)
            if b.steps[i]["lid"]:
                held.append((key, b.steps[i]["lid"]))
        elif x < 0.7:
            key, lid = held.pop(r.randrange(len(held)))
            b.unlock(c, key, lid)
        elif x < 0.8:
            b.text(c, "set", key="v" + r.choice("012"), val="x%d" % r.randrange(1000))
        elif x < 0.86:
            b.text(c, "incr", key="n" + r.choice("01"))
        elif x < 0.92:
            b.text(c, "del", key="v" + r.choice("012"))
        else:
            b.text(c, "ping")
    return b.done()


def fam_text_first(r, sid):
    """the FIRST command of a text connection is short enough to sit completely in checkProtocol's 64-byte read"""
    b = B(r, sid, "text-first")
    c = b.conn("text")
    what = r.choice(["lock", "lock", "push", "set", "unlock", "del", "incr"])
    other = b.conn("bin") if r.random() < 0.5 else b.conn("text")
    if b.kind(other) == "text":
        text_opening(b, other, r)
    if what in ("unlock", "del"):
        # something to release: taken through the other connection
        if what == "unlock":
            b.lock(other, "s0", lid="own", timeout=0, exp=30)
        else:
            if b.kind(other) == "text":
                b.text(other, "set", key="s0", val="1")
            else:
                what = "unlock"
                b.lock(other, "s0", lid="own", timeout=0, exp=30)
    if what == "lock":
        b.lock(c, "s0", lid="first", timeout=0, exp=30, minimal=True)
    elif what == "push":
        b.lock(c, "s0", lid="first", timeout=0, exp=30, minimal=True, op="push")
    elif what == "unlock":
        b.unlock(c, "s0", "own", minimal=True)
    else:
        b.text(c, what, key="s0", val="7" if what == "set" else None)
    # the same kind of command again, now as a later command of the same connection, then look at the outcome
    b.lock(c, "s1", lid="second", timeout=0, exp=30, minimal=True)
    b.lock(other, "s0", lid="probe", timeout=0, exp=30, flag=F_SHOW)   # shows whether s0 is held (LOCKED_ERROR + holder) or was free (granted)
    b.unlock(c, "s1", None, minimal=True, nolid=True)         # releases what this connection locked last (remembered lock id)
    return b.done()


def fam_text_push(r, sid):
    """fire-and-forget PUSH followed by commands that wait for their own result, on ONE text connection"""
    b = B(r, sid, "text-push")
    c = b.conn("text")
    text_opening(b, c, r)
    o = b.conn("bin")
    npush = r.choice([1, 1, 2, 3, 6])
    blocked_push = r.random() < 0.4
    pkeys = []
    for j in range(npush):
        key = r.choice(KEYS)
        if blocked_push and j == 0:
            b.lock(o, key, timeout=0, exp=30)                    # the PUSHed lock will queue behind this hold
            b.lock(c, key, timeout=800, tms=True, exp=30, op="push")
        else:
            key = "k3" if j else key
            b.lock(c, "p%d" % j, timeout=0, exp=30, op="push")
            key = "p%d" % j
        pkeys.append((key, b.steps[-1]["lid"]))
    # second command is sent only after the PUSH result (+OK) came back: runner waits for every reply
    for _ in range(r.randrange(3, 8)):
        x = r.random()
        if x < 0.45:
            i = b.lock(c, r.choice(["q0", "q1"]), timeout=0, exp=30)
            if r.random() < 0.6:
                b.unlock(c, b.steps[i]["key"], b.steps[i]["lid"])
        elif x < 0.65:
            b.text(c, "set", key="v0", val="s%d" % r.randrange(100))
        elif x < 0.8 and pkeys:
            key, lid = r.choice(pkeys)
            b.unlock(c, key, lid)
        else:
            b.lock(o, r.choice(["q0", "q1", "p0"]), timeout=0, exp=30, flag=F_SHOW)
    if blocked_push:
        b.sleep(1000)
        b.settle()
        b.lock(c, "q1", timeout=0, exp=30)                       # the PUSH's late TIMEOUT result arrived meanwhile
    return b.done()


def fam_mixed(r, sid):
    b = B(r, sid, "mixed")
    t = b.conn("text")
    text_opening(b, t, r)
    bn = b.conn("bin")
    held = []
    for _ in range(r.randrange(8, 18)):
        c = r.choice([t, bn])
        if r.random() < 0.55 or not held:
            key = r.choice(KEYS[:2])
            i = b.lock(c, key, timeout=0, exp=30, count=r.choice([0, 1]))
            held.append((key, b.steps[i]["lid"]))
        else:
            key, lid = held.pop(r.randrange(len(held)))
            b.unlock(r.choice([t, bn]), key, lid)                # also released through the other protocol
    # a text LOCK that queues behind a binary holder and is woken by the binary UNLOCK
    h = b.lock(bn, "k2", timeout=0, exp=30)
    if b.steps[h]["wait"] == "reply":
        b.lock(t, "k2", timeout=900, tms=True, exp=30)
        b.sleep(100)
        b.unlock(bn, "k2", b.steps[h]["lid"])
        b.sleep(150)
    return b.done()


def fam_probe(r, sid):
    """concurrent-check probes (flag 0x08, timeout 0): a follower may answer them from its own copy"""
    b = B(r, sid, "probe")
    c = b.conn("bin")
    t = b.conn("text")
    text_opening(b, t, r)
    key = "k0"
    replicated = r.random() < 0.5
    h = b.lock(c, key, timeout=0, exp=30, eflag=ZERO_AOF if replicated else 0)
    if r.random() < 0.7:
        b.sleep(400)
    b.lock(c, key, timeout=0, exp=30, flag=F_PROBE)              # held: TIMEOUT expected from the leader
    b.lock(t, key, timeout=0, exp=30, flag=F_PROBE)
    b.lock(c, "k1", timeout=0, exp=30, flag=F_PROBE, tflag=0x0200)   # free + wait-when-unlock: TIMEOUT
    b.unlock(c, key, b.steps[h]["lid"])
    b.sleep(r.choice([400, 600]))                                # let the release reach the follower's copy (the race itself: scenarios.stale_probe)
    b.lock(c, key, timeout=0, exp=30, flag=F_PROBE)              # free now: granted by the leader
    # a shared key with exactly one free slot, the holders replicated and settled in the follower's copy: the probe is
    # admitted by the leader (locked <= Count), so a follower answering from its own copy must not refuse it either
    n = r.choice([1, 2, 3])
    hs = [b.lock(c, "k2", timeout=0, exp=30, count=n, eflag=ZERO_AOF) for _ in range(n)]
    b.sleep(r.choice([500, 700]))
    p1 = b.lock(c, "k2", timeout=0, exp=30, count=n, flag=F_PROBE)               # one slot left: granted
    b.sleep(r.choice([500, 700]))
    b.lock(c, "k2", timeout=0, exp=30, count=n, flag=F_PROBE)                    # full now: TIMEOUT from leader and follower alike
    for h2 in hs + [p1]:
        b.unlock(c, "k2", b.steps[h2]["lid"])
    return b.done()


FAMILIES = [("bin-basic", fam_bin_basic, 4), ("bin-pipeline", fam_bin_pipeline, 3), ("bin-queue", fam_bin_queue, 3),
            ("text-basic", fam_text_basic, 4), ("text-first", fam_text_first, 4), ("text-push", fam_text_push, 4),
            ("mixed", fam_mixed, 3), ("probe", fam_probe, 2)]


def generate(rng, n):
    """n symbolic scripts; every family at least once when n >= len(FAMILIES)"""
    res = []
    bag = [f for f in FAMILIES for _ in range(f[2])]
    for i in range(n):
        name, fn, _ = FAMILIES[i] if i < len(FAMILIES) else rng.choice(bag)
        res.append(fn(rng, "%s-%03d" % (name, i)))
    return res


# -------------------------------------------------------------------------------------------------- concretise
def pad16(prefix, sym):
    s = prefix + sym
    return s + "_" * (16 - len(s)) if not sym.startswith("s") else s     # short keys stay short (8 characters)


def lid_of(prefix, sym):
    """generated ids c<conn>i<n> are padded to 16 characters; named ids (own, probe, ...) stay short so that a command
    carrying them can still fit the 64-byte first read (both protocols left-pad short ids with zero bytes)"""
    s = prefix + sym
    return s.ljust(16, "_") if (sym.startswith("c") and "i" in sym) else s


def key_hex(k):
    return (b"\x00" * (16 - len(k)) + k.encode()).hex()


def text_args(st, key, lid):
    op = st["op"]
    if op in ("lock", "unlock", "push"):
        a = [op.upper(), key]
        if lid is not None:
            a += ["LOCK_ID", lid]
        if st.get("minimal"):
            if op != "unlock":
                a += ["TIMEOUT", str(st["timeout"] | st["tflag"] << 16)]
            return a
        if op != "unlock":
            a += ["TIMEOUT", str(st["timeout"] | st["tflag"] << 16), "EXPRIED", str(st["expried"] | st["eflag"] << 16)]
        if st["count"]:
            a += ["COUNT", str(st["count"] + 1)]
        if st["rcount"]:
            a += ["RCOUNT", str(st["rcount"] + 1)]
        fl = st["flag"] & ~F_DATA
        if fl:
            a += ["FLAG", str(fl)]
        if st.get("val") is not None:
            a += ["SET", st["val"]]
        return a
    if op == "set":
        return ["SET", key, st["val"]] + st["extra"]
    if op in ("get", "del", "incr", "exists", "strlen"):
        return [op.upper(), key] + st["extra"]
    if op == "ping":
        return ["PING"] + ([st["val"]] if st.get("val") else [])
    if op == "echo":
        return ["ECHO", st["val"]]
    raise ValueError(op)


def concretise(script, prefix):
    """-> (fwdrun script, per-step info list) ; prefix: 6 characters"""
    assert len(prefix) == 6
    steps, info = [], []
    for i, st in enumerate(script["steps"]):
        op = st["op"]
        if op in ("sleep", "sync", "close", "open"):
            steps.append(dict(st))
            info.append({"op": op})
            continue
        c = st["c"]
        kind = script["conns"][c]["kind"]
        key = pad16(prefix, st["key"]) if st.get("key") else None
        lid = lid_of(prefix, st["lid"]) if st.get("lid") else None
        rid = hashlib.md5(("%s:%d" % (prefix, i)).encode()).hexdigest()
        inf = {"op": op, "c": c, "kind": kind, "key": key, "lid": lid, "rid": rid, "keyhex": key_hex(key) if key else None,
               "lidhex": key_hex(lid) if lid else None, "flag": st.get("flag", 0), "timeout": st.get("timeout", 0), "wait": st.get("wait")}
        if kind == "bin":
            o = {"c": c, "op": op, "rid": rid, "wait": st["wait"]}
            if op in ("lock", "unlock"):
                o.update({"key": key, "lid": lid or "", "flag": st["flag"], "timeout": st["timeout"], "tflag": st["tflag"], "expried": st["expried"],
                          "eflag": st["eflag"], "count": st["count"], "rcount": st["rcount"]})
                if st.get("val") is not None:
                    o["val"] = st["val"]
            elif op == "init":
                o["lid"] = lid_of(prefix, st["lid"])
            steps.append(o)
            inf["wire_len"] = 64
        else:
            args = text_args(st, key, lid)
            o = {"c": c, "op": "text", "args": args, "wait": st["wait"]}
            if st.get("chunks"):
                o["chunks"] = st["chunks"]
            steps.append(o)
            inf["args"] = args
            inf["wire_len"] = len("*%d\r\n" % len(args)) + sum(len("$%d\r\n%s\r\n" % (len(a), a)) for a in args)
        info.append(inf)
    # position of every command on its connection
    seen = {}
    for inf in info:
        if "c" in inf:
            inf["pos"] = seen.get(inf["c"], 0)
            seen[inf["c"]] = inf["pos"] + 1
    return ({"id": script["id"] + "@" + prefix, "conns": script["conns"], "steps": steps, "drain_ms": script["drain_ms"]}, info)
