"""Process handling for C10_proc: one leader, one linkproxy, one follower (--slaveof <proxy>), fwdrun invocations."""
import json, os, shutil, socket, subprocess, time

PORT0 = 15300


def resp(args):
    s = "*%d\r\n" % len(args)
    for a in args:
        s += "$%d\r\n%s\r\n" % (len(a), a)
    return s.encode()


def _read_value(f):
    line = f.readline()
    if not line:
        raise EOFError
    t, body = line[:1], line[1:].rstrip(b"\r\n")
    if t in (b"+", b"-"):
        return (t.decode(), body.decode("latin1"))
    if t == b":":
        return int(body)
    if t == b"$":
        n = int(body)
        if n < 0:
            return None
        d = f.read(n + 2)
        return d[:n].decode("latin1")
    if t == b"*":
        return [_read_value(f) for _ in range(int(body))]
    return ("?", line.decode("latin1"))


def text_cmd(port, args, timeout=3.0, pad_first=True):
    """one admin/text command on a fresh connection.  The command is preceded by a PING so that it is never the
    first command of the connection (the first command of a text connection is special on a non-leader)."""
    c = socket.create_connection(("127.0.0.1", port), timeout=timeout)
    try:
        f = c.makefile("rb")
        if pad_first:
            c.sendall(resp(["PING"]))
            _read_value(f)
        c.sendall(resp(args))
        return _read_value(f)
    finally:
        c.close()


class Cluster:
    def __init__(self, bins, slot, tag, extra=None):
        self.bins, self.slot, self.extra = bins, slot, extra or []
        self.base = PORT0 + 10 * slot
        self.lport, self.pport, self.fport = self.base, self.base + 1, self.base + 2
        self.dir = "/tmp/c10proc-%d-%s" % (os.getpid(), tag)
        self.procs = {}
        self.nplan = 0

    # ---------------------------------------------------------------- life cycle
    def _spawn(self, name, cmd, **kw):
        out = open(os.path.join(self.dir, name + ".out"), "w")
        p = subprocess.Popen(cmd, stdout=kw.pop("stdout", out), stderr=subprocess.STDOUT, **kw)
        self.procs[name] = p
        return p

    def _wait_port(self, port, secs=8.0):
        t0 = time.time()
        while time.time() - t0 < secs:
            try:
                socket.create_connection(("127.0.0.1", port), timeout=0.2).close()
                return True
            except OSError:
                time.sleep(0.03)
        raise RuntimeError("port %d did not come up (%s)" % (port, self.dir))

    def node_cmd(self, port, name):
        return [self.bins["slock"], "--bind", "127.0.0.1", "--port", str(port), "--data_dir", os.path.join(self.dir, name),
                "--log", os.path.join(self.dir, name + ".log"), "--db_fast_key_count", "4096", "--db_concurrent", "2"] + self.extra

    def start(self):
        shutil.rmtree(self.dir, ignore_errors=True)
        os.makedirs(os.path.join(self.dir, "leader"))
        os.makedirs(os.path.join(self.dir, "follower"))
        self._spawn("leader", self.node_cmd(self.lport, "leader"))
        self._wait_port(self.lport)
        self.linklog = os.path.join(self.dir, "link.jsonl")
        p = self._spawn("proxy", [self.bins["linkproxy"], "-listen", "127.0.0.1:%d" % self.pport, "-target", "127.0.0.1:%d" % self.lport,
                                  "-log", self.linklog], stdin=subprocess.PIPE, stdout=subprocess.PIPE)
        line = p.stdout.readline().decode()
        if not line.startswith("ok listening"):
            raise RuntimeError("linkproxy: " + line)
        self._spawn("follower", self.node_cmd(self.fport, "follower") + ["--slaveof", "127.0.0.1:%d" % self.pport])
        self._wait_port(self.fport)
        self.wait_forwarding()

    def start_extra(self, name="extra"):
        """a third, stand-alone node (leader of nothing) on base+3"""
        os.makedirs(os.path.join(self.dir, name), exist_ok=True)
        self._spawn(name, self.node_cmd(self.base + 3, name))
        self._wait_port(self.base + 3)
        return self.base + 3

    def wait_forwarding(self, secs=12.0):
        """until a LOCK sent to the follower is answered by the leader, and a hold of the leader shows up on the follower"""
        t0 = time.time()
        key = "boot%012d" % (int(time.time() * 1000) % 10 ** 12)
        ok = False
        while time.time() - t0 < secs:
            try:
                r = text_cmd(self.fport, ["LOCK", key, "LOCK_ID", key, "TIMEOUT", "0", "EXPRIED", str(60 | 0x0100 << 16)])
                if isinstance(r, list) and r and r[0] in ("0", "5"):   # granted (or already held by an earlier attempt)
                    ok = True
                    break
            except (OSError, EOFError):
                pass
            time.sleep(0.1)
        if not ok:
            raise RuntimeError("follower never forwarded to the leader (%s)" % self.dir)
        while time.time() - t0 < secs:
            r = text_cmd(self.fport, ["SHOW", key])
            if isinstance(r, list) and r:
                text_cmd(self.lport, ["UNLOCK", key, "LOCK_ID", key])
                return
            time.sleep(0.1)
        raise RuntimeError("replicated hold never appeared on the follower (%s)" % self.dir)

    def ctl(self, line):
        p = self.procs["proxy"]
        p.stdin.write((line + "\n").encode())
        p.stdin.flush()
        return p.stdout.readline().decode().strip()

    def stop(self, keep=False):
        for p in self.procs.values():
            try:
                p.kill()
            except Exception:
                pass
        for p in self.procs.values():
            try:
                p.wait(timeout=5)
            except Exception:
                pass
        self.procs = {}
        if not keep:
            shutil.rmtree(self.dir, ignore_errors=True)

    def alive(self, name):
        p = self.procs.get(name)
        return p is not None and p.poll() is None

    # ---------------------------------------------------------------- running plans
    def run_plan(self, port, scripts, tmax_ms=3000, short_ms=60, timeout=180):
        self.nplan += 1
        pp = os.path.join(self.dir, "plan%d.json" % self.nplan)
        op = os.path.join(self.dir, "out%d.json" % self.nplan)
        json.dump({"addr": "127.0.0.1:%d" % port, "tmax_ms": tmax_ms, "short_ms": short_ms, "scripts": scripts}, open(pp, "w"))
        p = subprocess.Popen([self.bins["fwdrun"], "-plan", pp, "-out", op], stdout=subprocess.PIPE, stderr=subprocess.STDOUT)
        return (p, op, timeout)

    @staticmethod
    def collect(handle):
        p, op, timeout = handle
        try:
            out, _ = p.communicate(timeout=timeout)
        except subprocess.TimeoutExpired:
            p.kill()
            raise RuntimeError("fwdrun timed out")
        if p.returncode != 0:
            raise RuntimeError("fwdrun failed: " + out.decode()[-500:])
        res = json.load(open(op))
        return {s["id"]: s for s in res["scripts"]}

    def link_frames(self):
        res = []
        try:
            for line in open(self.linklog):
                line = line.strip()
                if line:
                    try:
                        res.append(json.loads(line))
                    except ValueError:
                        pass
        except FileNotFoundError:
            pass
        return res

    # ---------------------------------------------------------------- snapshots (admin SHOW is never forwarded)
    def show(self, port):
        r = text_cmd(port, ["SHOW"])
        if not isinstance(r, list):
            return {}
        return {r[i]: int(r[i + 1]) for i in range(0, len(r) - 1, 2)}

    def show_key(self, port, keyhex):
        r = text_cmd(port, ["SHOW", keyhex])
        if not isinstance(r, list):
            return []
        holds, i = [], 0
        while i + 6 < len(r) + 0 and i + 7 <= len(r):
            holds.append({"lockid": r[i], "locked": int(r[i + 4]), "state": int(r[i + 6])})
            i += 7
            if i < len(r) and not _looks_hex32(r[i]):   # optional lock data element
                i += 1
        return holds


def _looks_hex32(s):
    return isinstance(s, str) and len(s) == 32 and all(ch in "0123456789abcdef" for ch in s)
