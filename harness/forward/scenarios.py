"""Fixed scenarios of C10_proc: replays of the Coq witnesses on the real processes, a cut of the leader link with commands
in flight, and role changes between two requests of one connection."""
import hashlib, time

import gen, monitor

LONG = gen.LONGPAD
MS = gen.MS


def rid(prefix, i):
    return hashlib.md5(("%s:%d" % (prefix, i)).encode()).hexdigest()


def k16(prefix, s):
    return (prefix + s).ljust(16, "_")


def blk(c, op, prefix, i, key, lid, timeout=0, tflag=0, expried=30, eflag=0, flag=0, wait="reply"):
    return {"c": c, "op": op, "rid": rid(prefix, i), "key": k16(prefix, key), "lid": k16(prefix, lid), "flag": flag, "timeout": timeout,
            "tflag": tflag, "expried": expried, "eflag": eflag, "count": 0, "rcount": 0, "wait": wait}


def txt(c, args, wait="reply"):
    return {"c": c, "op": "text", "args": args, "wait": wait}


def lock_args(op, prefix, key, lid, timeout=0, expried=30, eflag=0):
    a = [op, k16(prefix, key), "LOCK_ID", k16(prefix, lid)]
    if op != "UNLOCK":
        a += ["TIMEOUT", str(timeout), "EXPRIED", str(expried | eflag << 16)]
    return a


def fields(step_out):
    return monitor.text_fields(step_out.get("reply"))


# ------------------------------------------------------------------------------------------------ Coq witnesses
def push_witness(cl, port, prefix, npush=6):
    """[DPush now]*n then DWait: n immediately answered PUSHes, then LOCK/UNLOCK with own ids, then PING"""
    steps = [txt(0, ["ECHO", LONG])]
    for j in range(npush):
        steps.append(txt(0, lock_args("PUSH", prefix, "w%d" % j, "wp%d" % j)))
    steps.append(txt(0, lock_args("LOCK", prefix, "wl", "wlock")))
    steps.append(txt(0, lock_args("UNLOCK", prefix, "wl", "wlock")))
    steps.append(txt(0, ["PING"]))
    sc = {"id": "push-witness@" + prefix, "conns": [{"kind": "text"}], "steps": steps, "drain_ms": 300}
    out = cl.collect(cl.run_plan(port, [sc], tmax_ms=1500))[sc["id"]]
    st = out["steps"]
    answered = [s.get("reply") is not None for s in st]
    pushes_ok = sum(1 for j in range(npush) if st[1 + j].get("reply") == {"s": "OK"})
    lf = fields(st[1 + npush])
    want = k16(prefix, "wlock").encode().hex()
    return {"prefix": prefix, "port": port, "npush": npush, "pushes_answered": pushes_ok, "lock_answered": answered[1 + npush],
            "lock_reply_is_own": bool(lf and lf.get("LOCK_ID") == want), "lock_reply_lock_id": lf.get("LOCK_ID") if lf else None, "want_lock_id": want,
            "ping_answered": answered[-1], "replies": [s.get("reply") for s in st], "errs": [s.get("err") for s in st]}


def shift_witness(cl, port, prefix):
    """[DPush 1 (Some _); DWait 2 (Some _)] of Relay.direct_push_shifts: one PUSH, then LOCK: whose result comes back?"""
    r = push_witness(cl, port, prefix, npush=1)
    r["shifted"] = r["lock_answered"] and not r["lock_reply_is_own"]
    return r


# ------------------------------------------------------------------------------------------------ link cut
def cut_scenario(cl, prefix, nflight=6, cutafter=None):
    """binary client pipelines nflight LOCKs through the follower while the proxy holds back the leader's results, then
    the forwarding link is cut (results dropped).  A text client with one waiting LOCK shares the fate.
    C10 reading: every command that was accepted gets SOME answer (the leader's, or an error)."""
    steps = [txt(1, ["ECHO", LONG])]
    steps.append(blk(0, "lock", prefix, 0, "warm", "warm"))                        # opens the forwarding link of connection 0
    steps.append(txt(1, lock_args("LOCK", prefix, "twarm", "twarm")))              # and of the text connection
    steps.append({"c": -1, "op": "sleep", "ms": 400})                              # -- block on happens here (t ~ 0.2 s)
    for j in range(nflight):
        steps.append(blk(0, "lock", prefix, 10 + j, "f%d" % j, "fl%d" % j, wait="none"))
    steps.append(txt(1, lock_args("LOCK", prefix, "tf", "tfl"), wait="none"))
    steps.append({"c": -1, "op": "sleep", "ms": 900})                              # -- cut + block off happen here (t ~ 0.9 s)
    steps.append(blk(0, "lock", prefix, 30, "after", "after"))                     # same client connection, new link
    steps.append(txt(1, lock_args("LOCK", prefix, "tafter", "tafter")))
    sc = {"id": "cut@" + prefix, "conns": [{"kind": "bin"}, {"kind": "text"}], "steps": steps, "drain_ms": 1500}
    t0 = time.time()
    h = cl.run_plan(cl.fport, [sc], tmax_ms=2500)
    time.sleep(0.25)
    cl.ctl("mark cut-scenario " + prefix)
    if cutafter is None:
        cl.ctl("block on")          # results pile up in the proxy, then the link is cut and they are dropped
        time.sleep(0.65)
        cl.ctl("cut")
        cl.ctl("block off")
    else:
        cl.ctl("cutafter %d" % cutafter)   # the link that relays the cutafter-th result from now on is closed right behind it
        time.sleep(0.65)
        cl.ctl("cutafter -1")
    out = cl.collect(h)[sc["id"]]
    st = out["steps"]
    fl = [st[4 + j] for j in range(nflight)]
    answered = [s.get("reply") is not None for s in fl]
    res = {"prefix": prefix, "nflight": nflight, "cutafter": cutafter, "answered": answered, "results": [(s["reply"] or {}).get("result") if s.get("reply") else None for s in fl],
           "text_inflight_reply": st[4 + nflight].get("reply"), "after_bin": (st[-2].get("reply") or {}).get("result") if st[-2].get("reply") else None,
           "after_text": st[-1].get("reply"), "extras": out["extras"], "conn_errors": out["conn_errors"], "wall_s": round(time.time() - t0, 2),
           "script": sc, "out": out, "text_steps_on_cut_link": [2, 4 + nflight]}
    # what the leader did with the commands nobody was told about
    held = cl.show(cl.lport)
    res["leader_holds_for_unanswered"] = [j for j in range(nflight) if not answered[j] and held.get(k16(prefix, "f%d" % j).encode().hex(), 0) > 0]
    return res


# ------------------------------------------------------------------------------------------------ role changes
def role_script(prefix, fport, lport, with_roles):
    """One script for both runs.  Connections: 0 bin->F, 1 text->F, 2 bin->L, 3 text->L (+ admin connections 4 ->F, 5 ->L).
    with_roles=False: the reference, everything on the leader, no role change (admin steps replaced by sleeps)."""
    Z = gen.ZERO_AOF
    f = "127.0.0.1:%d" % fport
    l = "127.0.0.1:%d" % lport
    if with_roles:
        conns = [{"kind": "bin", "addr": f}, {"kind": "text", "addr": f}, {"kind": "bin", "addr": l}, {"kind": "text", "addr": l},
                 {"kind": "text", "addr": f}, {"kind": "text", "addr": l}]
    else:
        conns = [{"kind": "bin", "addr": l}, {"kind": "text", "addr": l}, {"kind": "bin", "addr": l}, {"kind": "text", "addr": l},
                 {"kind": "text", "addr": l}, {"kind": "text", "addr": l}]
    S = []
    for c in (1, 3, 4, 5):
        S.append(txt(c, ["ECHO", LONG]))
    # 1. every connection takes one hold, persisted at once so that it is replicated
    S.append(blk(0, "lock", prefix, 1, "ka", "a1", eflag=Z))
    S.append(txt(1, lock_args("LOCK", prefix, "kb", "b1", eflag=Z)))
    S.append(blk(2, "lock", prefix, 2, "kc", "c1", eflag=Z))
    S.append(txt(3, lock_args("LOCK", prefix, "kd", "d1", eflag=Z)))
    S.append({"c": -1, "op": "sleep", "ms": 700})
    # 2. the follower is promoted between two requests of connections 0 and 1
    S.append(txt(4, ["SLAVEOF"]) if with_roles else {"c": -1, "op": "sleep", "ms": 5})
    S.append({"c": -1, "op": "sleep", "ms": 300})
    S.append(blk(0, "lock", prefix, 3, "ka", "a2"))                       # held by a1: LOCKED_ERROR
    S.append(blk(0, "unlock", prefix, 4, "ka", "a1"))                     # OK
    S.append(blk(0, "lock", prefix, 5, "ka", "a2", eflag=Z))              # OK
    S.append(txt(1, lock_args("LOCK", prefix, "kb", "b2")))
    S.append(txt(1, lock_args("UNLOCK", prefix, "kb", "b1")))
    S.append(txt(1, lock_args("LOCK", prefix, "kb", "b2", eflag=Z)))
    S.append(blk(0, "lock", prefix, 6, "kc", "x1"))                       # replicated hold of connection 2: LOCKED_ERROR
    # the old leader still believes it leads: it grants and PERSISTS one more hold, which the promoted node never receives.
    # Its log has now diverged, so its demotion below ends in a full re-sync ("Replication flush all DB") and every holder
    # of the old leader is told EXPRIED -- deterministically.
    # (several: the promoted node numbers its own records from the same position, an id that merely collides would still be
    # accepted for an incremental sync)
    for j in range(8):
        S.append(blk(2, "lock", prefix, 10 + j, "ke%d" % j, "e%d" % j, eflag=Z))
    S.append({"c": -1, "op": "sleep", "ms": 300})
    # 3. the old leader is demoted between two requests of connections 2 and 3 (it now follows the promoted node)
    S.append(txt(5, ["SLAVEOF", "127.0.0.1", str(fport)]) if with_roles else {"c": -1, "op": "sleep", "ms": 5})
    S.append({"c": -1, "op": "sleep", "ms": 400})
    S.append(blk(2, "lock", prefix, 7, "kc", "c2"))                       # LOCKED_ERROR, decided by the new leader
    S.append(blk(2, "unlock", prefix, 8, "kc", "c1"))
    S.append(blk(2, "lock", prefix, 9, "ka", "y1"))                       # a2 holds it on the new leader: LOCKED_ERROR
    S.append(txt(3, lock_args("LOCK", prefix, "kd", "d2")))
    S.append(txt(3, lock_args("UNLOCK", prefix, "kd", "d1")))
    S.append(txt(3, lock_args("LOCK", prefix, "kb", "y2")))               # b2 holds it: LOCKED_ERROR
    sc = {"id": ("role" if with_roles else "role-ref") + "@" + prefix, "conns": conns, "steps": S, "drain_ms": 500}
    info = []
    pos = {}
    for st in S:
        if st["op"] in ("sleep",):
            info.append({"op": "sleep"})
            continue
        c = st["c"]
        kind = conns[c]["kind"]
        if st["op"] == "text":
            op = st["args"][0].lower()
            op = op if op in ("lock", "unlock", "echo") else "ping"
            inf = {"op": op, "c": c, "kind": kind, "lid": st["args"][3] if len(st["args"]) > 3 else None, "flag": 0, "timeout": 0}
            inf["key"] = st["args"][1] if len(st["args"]) > 1 else None
        else:
            inf = {"op": st["op"], "c": c, "kind": kind, "lid": st["lid"], "key": st["key"], "flag": st["flag"], "timeout": st["timeout"]}
        inf["keyhex"] = gen.key_hex(inf["key"]) if inf.get("key") and op_is_lock(inf["op"]) else None
        inf["lidhex"] = gen.key_hex(inf["lid"]) if inf.get("lid") and op_is_lock(inf["op"]) else None
        inf["pos"] = pos.get(c, 0)
        pos[c] = inf["pos"] + 1
        info.append(inf)
    return sc, info


def op_is_lock(op):
    return op in ("lock", "unlock")


def role_scenario(cl, pref_ref, pref_role):
    ref, info_ref = role_script(pref_ref, cl.fport, cl.lport, False)
    out_ref = cl.collect(cl.run_plan(cl.lport, [ref], tmax_ms=2500))[ref["id"]]
    role, info_role = role_script(pref_role, cl.fport, cl.lport, True)
    out_role = cl.collect(cl.run_plan(cl.lport, [role], tmax_ms=2500))[role["id"]]
    # admin replies are not part of the comparison (steps on connections 4, 5)
    for inf in info_ref + info_role:
        if inf.get("c") in (4, 5):
            inf["op"] = "admin"
    diffs = monitor.compare(info_ref, out_ref, pref_ref, info_role, out_role, pref_role)
    admin = [(i, out_role["steps"][i].get("reply")) for i, st in enumerate(role["steps"]) if st.get("op") == "text" and st["args"][0] == "SLAVEOF"]
    second = admin[1][0] if len(admin) > 1 else len(role["steps"])
    # The demoted old leader re-syncs from the promoted node; when its own log has records the promoted node never
    # received (anything persisted after the promotion, e.g. a hold reaching its AOF time) the sync is a FULL one:
    # "Replication flush all DB" -- every holder of the old leader is told EXPRIED (result 9).  One of these notices
    # reaches the client of connection 0 through the promoted node's still open forwarding link.  By design, timing
    # dependent (incremental sync: no notices), so: unsolicited result-9 frames after the demotion are not differences.
    t_demote = out_role["steps"][second]["sent_ms"] if second < len(role["steps"]) else float("inf")
    notices = []
    for d in diffs:
        if d["kind"] == "extras" and not d["leader"]:
            keep = []
            for e in d["follower"]:
                if isinstance(e["frame"], dict) and e["frame"].get("result") == 9 and e["at_ms"] >= t_demote:
                    notices.append({"c": e["c"], "at_ms": e["at_ms"], "lockid": e["frame"].get("lockid")})
                else:
                    keep.append(e)
            d["follower"] = keep
    diffs = [d for d in diffs if not (d["kind"] == "extras" and not d["leader"] and not d["follower"])]
    strict = [d for d in diffs if d["kind"] != "reply" or d["i"] < second]
    loose = [d for d in diffs if d["kind"] == "reply" and d["i"] >= second and not is_refusal(d["follower"])]
    refused = [d["i"] for d in diffs if d["kind"] == "reply" and d["i"] >= second and is_refusal(d["follower"])]
    return {"diffs": diffs, "strict_diffs": strict, "loose_diffs": loose, "refused_after_demotion": refused, "admin": admin, "flush_notices": notices, "ref": out_ref, "role": out_role, "script": role, "info": info_role,
            "unanswered": monitor.unanswered(info_role, out_role), "echo": monitor.echo_issues(info_role, out_role)}


def is_refusal(canon_reply):
    """STATE_ERROR result, or the text error line of a forward that could not reach a leader"""
    if not isinstance(canon_reply, dict):
        return False
    if canon_reply.get("result") == monitor.RESULT_STATE_ERROR:
        return True
    if "e" in canon_reply and ("Leader Server Error" in canon_reply["e"] or canon_reply["e"].strip() in ("ERR 10", "ERR state error", "ERR State Error")):
        return True
    f = monitor.text_fields(canon_reply)
    return bool(f and f.get("result") == "10")


def demote_fresh_script(prefix, nport, lport, with_roles):
    """A stand-alone leader N with open client connections is made a follower of L between two requests of these
    connections (admin SLAVEOF host port): the open BinaryServerProtocol / TextServerProtocol connections must be
    re-wrapped (Server.handle, AGAIN) and forward from then on."""
    n = "127.0.0.1:%d" % (nport if with_roles else lport)
    conns = [{"kind": "bin", "addr": n}, {"kind": "text", "addr": n}, {"kind": "text", "addr": n}]
    S = [txt(1, ["ECHO", LONG]), txt(2, ["ECHO", LONG])]
    S.append(blk(0, "lock", prefix, 1, "na", "na1"))
    S.append(txt(1, lock_args("LOCK", prefix, "nb", "nb1")))
    S.append(txt(2, ["SLAVEOF", "127.0.0.1", str(lport)]) if with_roles else {"c": -1, "op": "sleep", "ms": 5})
    S.append({"c": -1, "op": "sleep", "ms": 1200})
    S.append(blk(0, "lock", prefix, 2, "kx", "x1"))
    S.append(blk(0, "lock", prefix, 3, "kx", "x2"))
    S.append(blk(0, "unlock", prefix, 4, "kx", "x1"))
    S.append(blk(0, "unlock", prefix, 5, "kx", "x1"))
    S.append(txt(1, lock_args("LOCK", prefix, "ky", "y1")))
    S.append(txt(1, lock_args("LOCK", prefix, "ky", "y2")))
    S.append(txt(1, lock_args("UNLOCK", prefix, "ky", "y1")))
    S.append(txt(1, ["SET", k16(prefix, "v"), "val"]))
    S.append(txt(1, lock_args("PUSH", prefix, "kz", "z1")))
    S.append(txt(1, lock_args("LOCK", prefix, "kz", "z2")))
    S.append(blk(0, "lock", prefix, 6, "kz", "z3"))
    sc = {"id": ("demote" if with_roles else "demote-ref") + "@" + prefix, "conns": conns, "steps": S, "drain_ms": 400}
    info, pos = [], {}
    for st in S:
        if st["op"] == "sleep":
            info.append({"op": "sleep"})
            continue
        c, kind = st["c"], conns[st["c"]]["kind"]
        if st["op"] == "text":
            op = st["args"][0].lower()
            op = op if op in ("lock", "unlock", "push", "set", "echo") else "admin"
            inf = {"op": op, "c": c, "kind": kind, "key": st["args"][1] if len(st["args"]) > 1 else None,
                   "lid": st["args"][3] if len(st["args"]) > 3 and st["args"][2] == "LOCK_ID" else None, "flag": 0, "timeout": 0}
        else:
            inf = {"op": st["op"], "c": c, "kind": kind, "lid": st["lid"], "key": st["key"], "flag": st["flag"], "timeout": st["timeout"]}
        lk = inf["op"] in ("lock", "unlock", "push")
        inf["keyhex"] = gen.key_hex(inf["key"]) if lk else None
        inf["lidhex"] = gen.key_hex(inf["lid"]) if lk and inf.get("lid") else None
        inf["pos"] = pos.get(c, 0)
        pos[c] = inf["pos"] + 1
        info.append(inf)
    return sc, info


def demote_fresh_scenario(cl, nport, pref_ref, pref_role):
    ref, info_ref = demote_fresh_script(pref_ref, nport, cl.lport, False)
    out_ref = cl.collect(cl.run_plan(cl.lport, [ref], tmax_ms=2500))[ref["id"]]
    role, info_role = demote_fresh_script(pref_role, nport, cl.lport, True)
    out_role = cl.collect(cl.run_plan(nport, [role], tmax_ms=2500))[role["id"]]
    diffs = monitor.compare(info_ref, out_ref, pref_ref, info_role, out_role, pref_role)
    admin = [(i, out_role["steps"][i].get("reply")) for i, st in enumerate(role["steps"]) if st.get("op") == "text" and st["args"][0] == "SLAVEOF"]
    return {"diffs": diffs, "admin": admin, "ref": out_ref, "role": out_role, "script": role, "info": info_role, "info_ref": info_ref,
            "unanswered": monitor.unanswered(info_role, out_role), "echo": monitor.echo_issues(info_role, out_role),
            "echo_ref": monitor.echo_issues(info_ref, out_ref)}


# ------------------------------------------------------------------------------------------------ probe answered from a stale copy
def stale_probe(cl, pref_a, pref_b):
    """hold (persisted at once, so the follower has it), then UNLOCK and a concurrent-check probe (flag 0x08, timeout 0)
    written back to back on one binary connection.  Leader: the probe runs after the UNLOCK and is granted.  Follower:
    the UNLOCK is forwarded, the probe is answered by LockDB.CheckProbableLock from the follower's own copy, which still
    shows the hold."""
    def script(prefix):
        S = [blk(0, "lock", prefix, 1, "sp", "sph", eflag=gen.ZERO_AOF),
             {"c": -1, "op": "sleep", "ms": 500},
             blk(0, "unlock", prefix, 2, "sp", "sph", wait="none"),
             blk(0, "lock", prefix, 3, "sp", "spp", flag=gen.F_PROBE, wait="none"),
             {"c": 0, "op": "sync"},
             {"c": -1, "op": "sleep", "ms": 300},
             blk(0, "unlock", prefix, 4, "sp", "spp")]
        return {"id": "stale-probe@" + prefix, "conns": [{"kind": "bin"}], "steps": S, "drain_ms": 300}
    a, b = script(pref_a), script(pref_b)
    ha, hb = cl.run_plan(cl.lport, [a]), cl.run_plan(cl.fport, [b])
    oa, ob = cl.collect(ha)[a["id"]], cl.collect(hb)[b["id"]]
    ra, rb = oa["steps"][3].get("reply") or {}, ob["steps"][3].get("reply") or {}
    time.sleep(0.1)
    forwarded = any(f.get("dir") == "req" and f.get("rid") == b["steps"][3]["rid"] for f in cl.link_frames())
    return {"leader_probe_result": ra.get("result"), "follower_probe_result": rb.get("result"), "follower_probe_lcount": rb.get("lcount"),
            "probe_forwarded": forwarded, "leader_unlock": (oa["steps"][2].get("reply") or {}).get("result"),
            "follower_unlock": (ob["steps"][2].get("reply") or {}).get("result"), "script": b,
            "replies_leader": [s.get("reply") for s in oa["steps"]], "replies_follower": [s.get("reply") for s in ob["steps"]]}
