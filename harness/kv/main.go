package main

import (
	"os"

	"github.com/snower/slock/server"
)

// Driver of the Redis-style text command correspondence check (checks/C15_text.py).
// All the work is done in-package by inj/zz_verif_kv.go (injected with go build -overlay -tags verif).
func main() {
	in := os.Stdin
	if len(os.Args) > 1 {
		f, err := os.Open(os.Args[1])
		if err != nil {
			panic(err)
		}
		in = f
	}
	server.VerifKvRun(in, os.Stdout)
}
