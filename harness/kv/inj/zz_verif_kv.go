//go:build verif

package server

// In-package driver of the Redis-style text command check (C15_text; injected by `go build -overlay`, never
// written into /repo).  It only starts real objects: one SLock with the manual clock, per case a fresh LockDB
// (database 0) and a real TextServerProtocol serving one end of a net.Pipe through its own Process() loop.
// The driver writes RESP-encoded commands to the other end and records the raw reply bytes.
//
// Time: the clock is manual.  `adv n` = n times (currentTime++; checkTimeTimeOut; checkTimeExpried), i.e. what
// the sweeper goroutines do once a second.  A command whose handler blocks on its reply channel (a waiting lock
// request, e.g. SETNX on an existing key with the connection's default timeout) is served by ticking the same
// way until the reply arrives; the number of ticks is part of the observation.
//
// case file:   case <id> <t0>
//              cmd <hex arg|-> ...          one text command (arguments hex encoded, - = empty string)
//              adv <n>
//              end
// output:      case <id> / r <hex reply> <ticks> / st <now> <key:locked:cur:eT:data>* / end

import (
	"bufio"
	"encoding/hex"
	"fmt"
	"io"
	"net"
	"os"
	"runtime"
	"sort"
	"strconv"
	"strings"
	"time"

	"github.com/jessevdk/go-flags"
	"github.com/snower/slock/protocol"
)

type verifKv struct {
	slock   *SLock
	db      *LockDB
	aofch   *AofChannel
	sp      *TextServerProtocol
	client  net.Conn
	replies chan []byte
	served  chan string
	out     *bufio.Writer
	tq, eq  []*LockQueue
	stopped bool
	hung    bool
}

func verifKvSetup() *SLock {
	cfg := &ServerConfig{}
	_, _ = flags.NewParser(cfg, flags.Default).ParseArgs([]string{})
	cfg.DBConcurrent = 1
	cfg.DBFastKeyCount = 64
	cfg.Log = os.DevNull
	cfg.LogLevel = "ERROR"
	logger, err := InitLogger(cfg)
	if err != nil {
		panic(err)
	}
	VerifManualClock = true
	slock := NewSLock(cfg, logger)
	slock.state = STATE_LEADER
	return slock
}

// readReply reads one complete RESP value and returns its raw bytes.
func verifKvReadReply(r *bufio.Reader) ([]byte, error) {
	line, err := r.ReadBytes('\n')
	if err != nil {
		return line, err
	}
	if len(line) == 0 {
		return line, io.ErrUnexpectedEOF
	}
	switch line[0] {
	case '$':
		n, perr := strconv.Atoi(strings.TrimSpace(string(line[1:])))
		if perr != nil || n < 0 {
			return line, nil
		}
		body := make([]byte, n+2)
		if _, err = io.ReadFull(r, body); err != nil {
			return append(line, body...), err
		}
		return append(line, body...), nil
	case '*':
		n, perr := strconv.Atoi(strings.TrimSpace(string(line[1:])))
		if perr != nil || n < 0 {
			return line, nil
		}
		for i := 0; i < n; i++ {
			item, ierr := verifKvReadReply(r)
			line = append(line, item...)
			if ierr != nil {
				return line, ierr
			}
		}
		return line, nil
	}
	return line, nil
}

func (e *verifKv) closeConn() {
	if e.client != nil {
		_ = e.client.Close()
		if !e.hung {
			// the serving goroutine ends as soon as its Read fails; a handler blocked for ever on its reply
			// channel (hang) is abandoned together with its database
			select {
			case <-e.served:
			case <-time.After(2 * time.Second):
			}
		}
		e.client = nil
	}
}

func (e *verifKv) newCase(t0 int64) {
	e.closeConn()
	Config.DBLockAofTime = 1
	e.slock.state = STATE_LEADER
	db := NewLockDB(e.slock, 0)
	db.currentTime, db.checkTimeoutTime, db.checkExpriedTime = t0, t0, t0
	e.slock.dbs[0] = db
	// idle AOF channel: Push only enqueues, the driver drains it (same arrangement as the engine harness)
	for _, ch := range db.aofChannels {
		e.slock.GetAof().CloseAofChannel(ch)
	}
	e.aofch = NewAofChannel(e.slock.GetAof(), db, 0, db.managerGlocks[0])
	db.aofChannels[0] = e.aofch
	e.db = db
	e.tq = make([]*LockQueue, 5)
	e.eq = make([]*LockQueue, 5)
	e.stopped = false
	e.hung = false

	srv, cli := net.Pipe()
	stream := NewStream(srv)
	sp := NewTextServerProtocol(e.slock, stream)
	e.sp, e.client = sp, cli
	replies := make(chan []byte, 16)
	served := make(chan string, 1)
	e.replies, e.served = replies, served
	go func() {
		res := "done"
		defer func() {
			if r := recover(); r != nil {
				site := "unknown"
				pcs := make([]uintptr, 48)
				n := runtime.Callers(2, pcs)
				frames := runtime.CallersFrames(pcs[:n])
				for {
					fr, more := frames.Next()
					if strings.Contains(fr.Function, "snower/slock") && !strings.Contains(fr.Function, "erif") {
						site = fr.Function
						break
					}
					if !more {
						break
					}
				}
				res = fmt.Sprintf("panic %s %v", site, r)
				replies <- []byte("!" + res)
			}
			served <- res
		}()
		_ = sp.Process()
		_ = sp.Close()
	}()
	go func() {
		rd := bufio.NewReader(cli)
		for {
			rep, err := verifKvReadReply(rd)
			if err != nil {
				close(replies)
				return
			}
			replies <- rep
		}
	}()
}

func (e *verifKv) drainAof() {
	for {
		e.aofch.queueGlock.Lock()
		a := e.aofch.pullAofLock()
		e.aofch.queueGlock.Unlock()
		if a == nil {
			return
		}
	}
}

func (e *verifKv) tick() {
	db := e.db
	db.currentTime++
	now := db.currentTime
	t := db.checkTimeoutTime
	db.checkTimeoutTime = now + 1
	for t <= now {
		db.checkTimeTimeOut(t, now, 0, e.tq)
		t++
	}
	t = db.checkExpriedTime
	db.checkExpriedTime = now + 1
	for t <= now {
		db.checkTimeExpried(t, now, 0, e.eq)
		t++
	}
	// model allocation is "always fresh": keep freed Lock objects out of the free list
	for db.freeLocks[0].PopRight() != nil {
	}
	e.drainAof()
}

func (e *verifKv) waiting() bool {
	e.db.managerGlocks[0].Lock()
	w := int32(e.db.states[0].WaitCount)
	e.db.managerGlocks[0].Unlock()
	return w > 0
}

func (e *verifKv) command(args [][]byte) {
	var sb strings.Builder
	fmt.Fprintf(&sb, "*%d\r\n", len(args))
	for _, a := range args {
		fmt.Fprintf(&sb, "$%d\r\n", len(a))
		sb.Write(a)
		sb.WriteString("\r\n")
	}
	req := []byte(sb.String())
	wdone := make(chan error, 1)
	go func() {
		_, err := e.client.Write(req)
		wdone <- err
	}()
	ticks := 0
	start := time.Now()
	for {
		select {
		case rep, ok := <-e.replies:
			if !ok {
				fmt.Fprintf(e.out, "r closed %d\n", ticks)
				e.stopped = true
				return
			}
			if len(rep) > 0 && rep[0] == '!' {
				fmt.Fprintf(e.out, "r %s %d\n", strings.ReplaceAll(string(rep[1:]), "\n", " "), ticks)
				e.stopped = true
				return
			}
			<-wdone
			fmt.Fprintf(e.out, "r %s %d\n", hex.EncodeToString(rep), ticks)
			return
		case <-time.After(100 * time.Microsecond):
			if e.waiting() {
				if ticks >= 200 {
					fmt.Fprintf(e.out, "r hang %d\n", ticks)
					e.stopped, e.hung = true, true
					return
				}
				e.tick()
				ticks++
			} else if time.Since(start) > 5*time.Second {
				fmt.Fprintf(e.out, "r hang %d\n", ticks)
				e.stopped, e.hung = true, true
				return
			}
		}
	}
}

func (e *verifKv) managers() []*LockManager {
	seen := map[*LockManager]bool{}
	res := []*LockManager{}
	for i := range e.db.fastLocks {
		m := e.db.fastLocks[i].manager
		if m != nil && m.refCount != 0xffffffff && !seen[m] {
			seen[m] = true
			res = append(res, m)
		}
	}
	for _, m := range e.db.locks {
		if m != nil && m.refCount != 0xffffffff && !seen[m] {
			seen[m] = true
			res = append(res, m)
		}
	}
	sort.Slice(res, func(i, j int) bool { return string(res[i].lockKey[:]) < string(res[j].lockKey[:]) })
	return res
}

func (e *verifKv) snapshot() {
	var sb strings.Builder
	fmt.Fprintf(&sb, "st %d", e.db.currentTime)
	for _, m := range e.managers() {
		cur, et := "-", "-"
		if m.currentLock != nil && m.currentLock.command != nil {
			if m.currentLock.command.LockId == m.lockKey {
				cur = "K"
			} else {
				cur = "G"
			}
			if m.currentLock.expriedTime == 0x7fffffffffffffff {
				et = "inf"
			} else {
				et = strconv.FormatInt(m.currentLock.expriedTime, 10)
			}
		}
		data := "-"
		if m.currentData != nil {
			data = fmt.Sprintf("%s/%d", hex.EncodeToString(m.currentData.data), m.currentData.commandType)
		}
		w := 0
		if m.waited {
			w = 1
		}
		fmt.Fprintf(&sb, " %s:%d:%d:%s:%s:%s", hex.EncodeToString(m.lockKey[:]), m.locked, w, cur, et, data)
	}
	fmt.Fprintln(e.out, sb.String())
}

// VerifKvRun interprets every case of the input and writes the observations.
func VerifKvRun(in io.Reader, out io.Writer) {
	dir, _ := os.MkdirTemp("", "verif-kv-")
	_ = os.Chdir(dir)
	defer os.RemoveAll(dir)
	slock := verifKvSetup()
	e := &verifKv{slock: slock, out: bufio.NewWriterSize(out, 1<<20)}
	sc := bufio.NewScanner(in)
	sc.Buffer(make([]byte, 1<<20), 1<<26)
	_ = protocol.MAGIC
	for sc.Scan() {
		f := strings.Fields(strings.TrimSpace(sc.Text()))
		if len(f) == 0 {
			continue
		}
		switch f[0] {
		case "case":
			t0, _ := strconv.ParseInt(f[2], 10, 64)
			fmt.Fprintf(e.out, "case %s\n", f[1])
			e.newCase(t0)
		case "end":
			fmt.Fprintln(e.out, "end")
		case "cmd":
			if e.stopped {
				continue
			}
			args := make([][]byte, 0, len(f)-1)
			for _, h := range f[1:] {
				if h == "-" {
					args = append(args, []byte{})
					continue
				}
				b, err := hex.DecodeString(h)
				if err != nil {
					panic(err)
				}
				args = append(args, b)
			}
			e.command(args)
			if !e.stopped {
				for e.db.freeLocks[0].PopRight() != nil {
				}
				e.drainAof()
				e.snapshot()
			}
		case "adv":
			if e.stopped {
				continue
			}
			n, _ := strconv.Atoi(f[1])
			for i := 0; i < n; i++ {
				e.tick()
			}
			e.snapshot()
		default:
			panic("unknown line " + f[0])
		}
	}
	e.closeConn()
	e.out.Flush()
}
