(* The byte tables of /repo/README.md ("Request Command" / "Response Command", 8 rows of 8 one-byte cells),
   transcribed BY HAND, and the theorem that the generated LockCommand / LockResultCommand encoders put
   every field at the documented offsets.  README: "Digital encoding byte order ... the low bit in front;
   RequestId, LockId, LockKey three for the byte array normal array order". *)
From Coq Require Import NArith ZArith List Lia Bool.
From Slock Require Import Base.Bytes Gen.GenPrelude Gen.GenConsts Gen.GenCodecs.
Import ListNotations.
Local Open Scope N_scope.

Inductive rfield :=
  | RMagic | RVersion | RCommandType | RRequestId | RFlag | RDbId | RLockId | RLockKey
  | RTimeout | RTimeoutFlag | RExpried | RExpriedFlag | RCount | RRcount          (* request only *)
  | RResult | RLcount | RLrcount | RPadding.                                       (* response only *)

Definition rfield_eqb (a b : rfield) : bool :=
  match a, b with
  | RMagic, RMagic | RVersion, RVersion | RCommandType, RCommandType | RRequestId, RRequestId
  | RFlag, RFlag | RDbId, RDbId | RLockId, RLockId | RLockKey, RLockKey | RTimeout, RTimeout
  | RTimeoutFlag, RTimeoutFlag | RExpried, RExpried | RExpriedFlag, RExpriedFlag | RCount, RCount
  | RRcount, RRcount | RResult, RResult | RLcount, RLcount | RLrcount, RLrcount | RPadding, RPadding => true
  | _, _ => false
  end.

(* one entry per table cell group: (field, number of 1-byte columns it spans in that row) *)
Definition readme_request_rows : list (list (rfield * nat)) :=
  [ [(RMagic, 1); (RVersion, 1); (RCommandType, 1); (RRequestId, 5)];
    [(RRequestId, 8)];
    [(RRequestId, 3); (RFlag, 1); (RDbId, 1); (RLockId, 3)];
    [(RLockId, 8)];
    [(RLockId, 5); (RLockKey, 3)];
    [(RLockKey, 8)];
    [(RLockKey, 5); (RTimeout, 2); (RTimeoutFlag, 1)];
    [(RTimeoutFlag, 1); (RExpried, 2); (RExpriedFlag, 2); (RCount, 2); (RRcount, 1)] ]%nat.

Definition readme_response_rows : list (list (rfield * nat)) :=
  [ [(RMagic, 1); (RVersion, 1); (RCommandType, 1); (RRequestId, 5)];
    [(RRequestId, 8)];
    [(RRequestId, 3); (RResult, 1); (RFlag, 1); (RDbId, 1); (RLockId, 2)];
    [(RLockId, 8)];
    [(RLockId, 6); (RLockKey, 2)];
    [(RLockKey, 8)];
    [(RLockKey, 6); (RLcount, 2)];
    [(RCount, 2); (RLrcount, 1); (RRcount, 1); (RPadding, 4)] ]%nat.

Definition cells (rows : list (list (rfield * nat))) : list rfield :=
  flat_map (fun fn => repeat (fst fn) (snd fn)) (concat rows).

(* position of byte i inside its field = number of earlier cells of the same field *)
Definition occ (cs : list rfield) (i : nat) (f : rfield) : nat :=
  length (filter (rfield_eqb f) (firstn i cs)).

(* k-th byte of an integer, low byte first *)
Definition le_byte (v : N) (k : nat) : N := (N.shiftr v (8 * N.of_nat k)) mod 256.

Definition request_field_byte (m : LockCommand) (f : rfield) (k : nat) : N :=
  match f with
  | RMagic => le_byte (LockCommand_Magic m) k
  | RVersion => le_byte (LockCommand_Version m) k
  | RCommandType => le_byte (LockCommand_CommandType m) k
  | RRequestId => nth k (LockCommand_RequestId m) 0
  | RFlag => le_byte (LockCommand_Flag m) k
  | RDbId => le_byte (LockCommand_DbId m) k
  | RLockId => nth k (LockCommand_LockId m) 0
  | RLockKey => nth k (LockCommand_LockKey m) 0
  | RTimeout => le_byte (LockCommand_Timeout m) k
  | RTimeoutFlag => le_byte (LockCommand_TimeoutFlag m) k
  | RExpried => le_byte (LockCommand_Expried m) k
  | RExpriedFlag => le_byte (LockCommand_ExpriedFlag m) k
  | RCount => le_byte (LockCommand_Count m) k
  | RRcount => le_byte (LockCommand_Rcount m) k
  | _ => 0
  end.

Definition response_field_byte (m : LockResultCommand) (f : rfield) (k : nat) : N :=
  match f with
  | RMagic => le_byte (LockResultCommand_Magic m) k
  | RVersion => le_byte (LockResultCommand_Version m) k
  | RCommandType => le_byte (LockResultCommand_CommandType m) k
  | RRequestId => nth k (LockResultCommand_RequestId m) 0
  | RResult => le_byte (LockResultCommand_Result m) k
  | RFlag => le_byte (LockResultCommand_Flag m) k
  | RDbId => le_byte (LockResultCommand_DbId m) k
  | RLockId => nth k (LockResultCommand_LockId m) 0
  | RLockKey => nth k (LockResultCommand_LockKey m) 0
  | RLcount => le_byte (LockResultCommand_Lcount m) k
  | RCount => le_byte (LockResultCommand_Count m) k
  | RLrcount => le_byte (LockResultCommand_Lrcount m) k
  | RRcount => le_byte (LockResultCommand_Rcount m) k
  | _ => 0
  end.

Definition readme_request_byte (m : LockCommand) (i : nat) : N :=
  match nth_error (cells readme_request_rows) i with
  | Some f => request_field_byte m f (occ (cells readme_request_rows) i f)
  | None => 0
  end.

Definition readme_response_byte (m : LockResultCommand) (i : nat) : N :=
  match nth_error (cells readme_response_rows) i with
  | Some f => response_field_byte m f (occ (cells readme_response_rows) i f)
  | None => 0
  end.

(* sanity of the transcription: both tables have exactly 64 cells *)
Lemma readme_request_cells : length (cells readme_request_rows) = 64%nat.
Proof. reflexivity. Qed.
Lemma readme_response_cells : length (cells readme_response_rows) = 64%nat.
Proof. reflexivity. Qed.

Theorem LockCommand_encode_readme : forall m old i, (i < 64)%nat ->
  nth i (LockCommand_Encode m old) 0 = readme_request_byte m i.
Proof.
  intros m old i Hi.
  do 64 (destruct i as [|i]; [reflexivity|]). lia.
Qed.

Theorem LockResultCommand_encode_readme : forall m old i, (i < 64)%nat ->
  nth i (LockResultCommand_Encode m old) 0 = readme_response_byte m i.
Proof.
  intros m old i Hi.
  do 64 (destruct i as [|i]; [reflexivity|]). lia.
Qed.
