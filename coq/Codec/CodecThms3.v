(* Round-trip theorems for the generated fixed-layout codecs (Gen/GenCodecs.v), part 3.
   For every type T:
     T_decode_encode : T_wf m -> T_Decode s (T_Encode m old) = m
     T_encode_decode : bytes b -> In i T_defined -> nth i (T_Encode (T_Decode s b) old) 0 = nth i b 0
     T_encode_blank  : In i T_blank -> nth i (T_Encode m old) 0 = 0        (reserved bytes are written as zero)
     T_encode_length : length (T_Encode m old) = 64
   T_defined / T_blank name the byte positions explicitly; together they are exactly 0..63.
   `s` is the previous content of the decoded struct and `old` the previous content of the buffer: the
   theorems hold for all of them (every field / every byte is overwritten). *)
From Coq Require Import NArith ZArith List Lia Bool.
From Slock Require Import Base.Bytes Gen.GenPrelude Gen.GenConsts Gen.GenCodecs Codec.CodecTactics.
Import ListNotations.
Local Open Scope N_scope.

(* ---------------------------------------------------------------- AdminCommand *)
Definition AdminCommand_defined : list nat := seq 0 20.
Definition AdminCommand_blank : list nat := seq 20 44.
Lemma AdminCommand_positions : forall i, (i < 64)%nat <-> In i (AdminCommand_defined ++ AdminCommand_blank).
Proof. intro i. unfold AdminCommand_defined, AdminCommand_blank. rewrite <- ?seq_app, ?app_nil_r. simpl Nat.add. rewrite in_seq. lia. Qed.

Theorem AdminCommand_decode_encode : forall m s old, AdminCommand_wf m -> AdminCommand_Decode s (AdminCommand_Encode m old) = m.
Proof. intros m s old Hwf. destruct m. dec_enc AdminCommand_ext Hwf. Qed.

Theorem AdminCommand_encode_decode : forall b s old, bytes b -> forall i, In i AdminCommand_defined ->
  nth i (AdminCommand_Encode (AdminCommand_Decode s b) old) 0 = nth i b 0.
Proof. intros b s old Hb i Hi. unfold AdminCommand_defined in Hi. in_cases Hi. all: solve_byte b Hb. Qed.

Theorem AdminCommand_encode_blank : forall m old i, In i AdminCommand_blank -> nth i (AdminCommand_Encode m old) 0 = 0.
Proof. intros m old i Hi. unfold AdminCommand_blank in Hi. in_cases Hi. all: autounfold with gencodec_enc; reflexivity. Qed.

Theorem AdminCommand_encode_length : forall m old, length (AdminCommand_Encode m old) = 64%nat.
Proof. reflexivity. Qed.

(* ---------------------------------------------------------------- AdminResultCommand *)
Definition AdminResultCommand_defined : list nat := seq 0 20.
Definition AdminResultCommand_blank : list nat := seq 20 44.
Lemma AdminResultCommand_positions : forall i, (i < 64)%nat <-> In i (AdminResultCommand_defined ++ AdminResultCommand_blank).
Proof. intro i. unfold AdminResultCommand_defined, AdminResultCommand_blank. rewrite <- ?seq_app, ?app_nil_r. simpl Nat.add. rewrite in_seq. lia. Qed.

Theorem AdminResultCommand_decode_encode : forall m s old, AdminResultCommand_wf m -> AdminResultCommand_Decode s (AdminResultCommand_Encode m old) = m.
Proof. intros m s old Hwf. destruct m. dec_enc AdminResultCommand_ext Hwf. Qed.

Theorem AdminResultCommand_encode_decode : forall b s old, bytes b -> forall i, In i AdminResultCommand_defined ->
  nth i (AdminResultCommand_Encode (AdminResultCommand_Decode s b) old) 0 = nth i b 0.
Proof. intros b s old Hb i Hi. unfold AdminResultCommand_defined in Hi. in_cases Hi. all: solve_byte b Hb. Qed.

Theorem AdminResultCommand_encode_blank : forall m old i, In i AdminResultCommand_blank -> nth i (AdminResultCommand_Encode m old) 0 = 0.
Proof. intros m old i Hi. unfold AdminResultCommand_blank in Hi. in_cases Hi. all: autounfold with gencodec_enc; reflexivity. Qed.

Theorem AdminResultCommand_encode_length : forall m old, length (AdminResultCommand_Encode m old) = 64%nat.
Proof. reflexivity. Qed.

(* ---------------------------------------------------------------- PingCommand *)
Definition PingCommand_defined : list nat := seq 0 19.
Definition PingCommand_blank : list nat := seq 19 45.
Lemma PingCommand_positions : forall i, (i < 64)%nat <-> In i (PingCommand_defined ++ PingCommand_blank).
Proof. intro i. unfold PingCommand_defined, PingCommand_blank. rewrite <- ?seq_app, ?app_nil_r. simpl Nat.add. rewrite in_seq. lia. Qed.

Theorem PingCommand_decode_encode : forall m s old, PingCommand_wf m -> PingCommand_Decode s (PingCommand_Encode m old) = m.
Proof. intros m s old Hwf. destruct m. dec_enc PingCommand_ext Hwf. Qed.

Theorem PingCommand_encode_decode : forall b s old, bytes b -> forall i, In i PingCommand_defined ->
  nth i (PingCommand_Encode (PingCommand_Decode s b) old) 0 = nth i b 0.
Proof. intros b s old Hb i Hi. unfold PingCommand_defined in Hi. in_cases Hi. all: solve_byte b Hb. Qed.

Theorem PingCommand_encode_blank : forall m old i, In i PingCommand_blank -> nth i (PingCommand_Encode m old) 0 = 0.
Proof. intros m old i Hi. unfold PingCommand_blank in Hi. in_cases Hi. all: autounfold with gencodec_enc; reflexivity. Qed.

Theorem PingCommand_encode_length : forall m old, length (PingCommand_Encode m old) = 64%nat.
Proof. reflexivity. Qed.

(* ---------------------------------------------------------------- PingResultCommand *)
Definition PingResultCommand_defined : list nat := seq 0 20.
Definition PingResultCommand_blank : list nat := seq 20 44.
Lemma PingResultCommand_positions : forall i, (i < 64)%nat <-> In i (PingResultCommand_defined ++ PingResultCommand_blank).
Proof. intro i. unfold PingResultCommand_defined, PingResultCommand_blank. rewrite <- ?seq_app, ?app_nil_r. simpl Nat.add. rewrite in_seq. lia. Qed.

Theorem PingResultCommand_decode_encode : forall m s old, PingResultCommand_wf m -> PingResultCommand_Decode s (PingResultCommand_Encode m old) = m.
Proof. intros m s old Hwf. destruct m. dec_enc PingResultCommand_ext Hwf. Qed.

Theorem PingResultCommand_encode_decode : forall b s old, bytes b -> forall i, In i PingResultCommand_defined ->
  nth i (PingResultCommand_Encode (PingResultCommand_Decode s b) old) 0 = nth i b 0.
Proof. intros b s old Hb i Hi. unfold PingResultCommand_defined in Hi. in_cases Hi. all: solve_byte b Hb. Qed.

Theorem PingResultCommand_encode_blank : forall m old i, In i PingResultCommand_blank -> nth i (PingResultCommand_Encode m old) 0 = 0.
Proof. intros m old i Hi. unfold PingResultCommand_blank in Hi. in_cases Hi. all: autounfold with gencodec_enc; reflexivity. Qed.

Theorem PingResultCommand_encode_length : forall m old, length (PingResultCommand_Encode m old) = 64%nat.
Proof. reflexivity. Qed.

(* ---------------------------------------------------------------- QuitCommand *)
Definition QuitCommand_defined : list nat := seq 0 19.
Definition QuitCommand_blank : list nat := seq 19 45.
Lemma QuitCommand_positions : forall i, (i < 64)%nat <-> In i (QuitCommand_defined ++ QuitCommand_blank).
Proof. intro i. unfold QuitCommand_defined, QuitCommand_blank. rewrite <- ?seq_app, ?app_nil_r. simpl Nat.add. rewrite in_seq. lia. Qed.

Theorem QuitCommand_decode_encode : forall m s old, QuitCommand_wf m -> QuitCommand_Decode s (QuitCommand_Encode m old) = m.
Proof. intros m s old Hwf. destruct m. dec_enc QuitCommand_ext Hwf. Qed.

Theorem QuitCommand_encode_decode : forall b s old, bytes b -> forall i, In i QuitCommand_defined ->
  nth i (QuitCommand_Encode (QuitCommand_Decode s b) old) 0 = nth i b 0.
Proof. intros b s old Hb i Hi. unfold QuitCommand_defined in Hi. in_cases Hi. all: solve_byte b Hb. Qed.

Theorem QuitCommand_encode_blank : forall m old i, In i QuitCommand_blank -> nth i (QuitCommand_Encode m old) 0 = 0.
Proof. intros m old i Hi. unfold QuitCommand_blank in Hi. in_cases Hi. all: autounfold with gencodec_enc; reflexivity. Qed.

Theorem QuitCommand_encode_length : forall m old, length (QuitCommand_Encode m old) = 64%nat.
Proof. reflexivity. Qed.

(* ---------------------------------------------------------------- QuitResultCommand *)
Definition QuitResultCommand_defined : list nat := seq 0 20.
Definition QuitResultCommand_blank : list nat := seq 20 44.
Lemma QuitResultCommand_positions : forall i, (i < 64)%nat <-> In i (QuitResultCommand_defined ++ QuitResultCommand_blank).
Proof. intro i. unfold QuitResultCommand_defined, QuitResultCommand_blank. rewrite <- ?seq_app, ?app_nil_r. simpl Nat.add. rewrite in_seq. lia. Qed.

Theorem QuitResultCommand_decode_encode : forall m s old, QuitResultCommand_wf m -> QuitResultCommand_Decode s (QuitResultCommand_Encode m old) = m.
Proof. intros m s old Hwf. destruct m. dec_enc QuitResultCommand_ext Hwf. Qed.

Theorem QuitResultCommand_encode_decode : forall b s old, bytes b -> forall i, In i QuitResultCommand_defined ->
  nth i (QuitResultCommand_Encode (QuitResultCommand_Decode s b) old) 0 = nth i b 0.
Proof. intros b s old Hb i Hi. unfold QuitResultCommand_defined in Hi. in_cases Hi. all: solve_byte b Hb. Qed.

Theorem QuitResultCommand_encode_blank : forall m old i, In i QuitResultCommand_blank -> nth i (QuitResultCommand_Encode m old) 0 = 0.
Proof. intros m old i Hi. unfold QuitResultCommand_blank in Hi. in_cases Hi. all: autounfold with gencodec_enc; reflexivity. Qed.

Theorem QuitResultCommand_encode_length : forall m old, length (QuitResultCommand_Encode m old) = 64%nat.
Proof. reflexivity. Qed.

(* ---------------------------------------------------------------- LeaderCommand *)
Definition LeaderCommand_defined : list nat := seq 0 20.
Definition LeaderCommand_blank : list nat := seq 20 44.
Lemma LeaderCommand_positions : forall i, (i < 64)%nat <-> In i (LeaderCommand_defined ++ LeaderCommand_blank).
Proof. intro i. unfold LeaderCommand_defined, LeaderCommand_blank. rewrite <- ?seq_app, ?app_nil_r. simpl Nat.add. rewrite in_seq. lia. Qed.

Theorem LeaderCommand_decode_encode : forall m s old, LeaderCommand_wf m -> LeaderCommand_Decode s (LeaderCommand_Encode m old) = m.
Proof. intros m s old Hwf. destruct m. dec_enc LeaderCommand_ext Hwf. Qed.

Theorem LeaderCommand_encode_decode : forall b s old, bytes b -> forall i, In i LeaderCommand_defined ->
  nth i (LeaderCommand_Encode (LeaderCommand_Decode s b) old) 0 = nth i b 0.
Proof. intros b s old Hb i Hi. unfold LeaderCommand_defined in Hi. in_cases Hi. all: solve_byte b Hb. Qed.

Theorem LeaderCommand_encode_blank : forall m old i, In i LeaderCommand_blank -> nth i (LeaderCommand_Encode m old) 0 = 0.
Proof. intros m old i Hi. unfold LeaderCommand_blank in Hi. in_cases Hi. all: autounfold with gencodec_enc; reflexivity. Qed.

Theorem LeaderCommand_encode_length : forall m old, length (LeaderCommand_Encode m old) = 64%nat.
Proof. reflexivity. Qed.
