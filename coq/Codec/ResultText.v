(* "every result code has a text rendering": the text protocol renders a result code by indexing
   protocol.ERROR_MSG (protocol/textcommand.go WriteTextLockAndUnLockCommandResult: `ERROR_MSG[Result]`),
   which panics (index out of range) when the table is shorter than the set of result codes.
   Stated over the GENERATED constants, so the statement follows the source. *)
From Coq Require Import NArith ZArith List Lia Bool String.
From Slock Require Import Gen.GenConsts.
Import ListNotations.
Local Open Scope N_scope.

(* rendering a code = looking it up in the table; None = the Go index expression panics *)
Definition render_result (code : N) : option string := nth_error ERROR_MSG (N.to_nat code).

Definition result_text_total : Prop :=
  forall code, code < result_code_count -> code < len_ERROR_MSG.
Definition result_text_gap : Prop :=
  exists code, code < result_code_count /\ ~ code < len_ERROR_MSG.

(* the generated summary constants describe the generated tables *)
Lemma len_ERROR_MSG_ok : len_ERROR_MSG = N.of_nat (List.length ERROR_MSG).
Proof. reflexivity. Qed.
Lemma result_code_count_ok : result_code_count = N.of_nat (List.length result_codes).
Proof. reflexivity. Qed.
(* the result codes are 0, 1, ..., result_code_count - 1 (an iota block) *)
Lemma result_codes_contiguous : result_codes = map N.of_nat (seq 0 (N.to_nat result_code_count)).
Proof. reflexivity. Qed.

Lemma render_result_defined : forall code, code < len_ERROR_MSG <-> render_result code <> None.
Proof.
  intro code. unfold render_result. rewrite nth_error_Some, len_ERROR_MSG_ok. lia.
Qed.

(* exactly one of the two holds, selected by the generated numerals (no computation on them is needed) *)
Theorem result_text_dichotomy :
  if len_ERROR_MSG <? result_code_count then result_text_gap /\ ~ result_text_total
  else result_text_total /\ ~ result_text_gap.
Proof.
  destruct (N.ltb_spec len_ERROR_MSG result_code_count) as [H|H].
  - split.
    + exists len_ERROR_MSG. split; [exact H | lia].
    + intro T. specialize (T len_ERROR_MSG H). lia.
  - split.
    + intros code Hc. lia.
    + intros [code [Hc Hn]]. lia.
Qed.

(* in terms of the rendering function and the list of codes *)
Theorem result_text_total_iff :
  result_text_total <-> (forall code, In code result_codes -> exists s, render_result code = Some s).
Proof.
  unfold result_text_total. split.
  - intros T code Hin.
    assert (Hc : code < result_code_count).
    { rewrite result_codes_contiguous in Hin. apply in_map_iff in Hin. destruct Hin as [k [<- Hk]].
      apply in_seq in Hk. lia. }
    specialize (T code Hc). apply render_result_defined in T.
    destruct (render_result code) as [s|]; [eauto | congruence].
  - intros R code Hc.
    assert (Hin : In code result_codes).
    { rewrite result_codes_contiguous. apply in_map_iff. exists (N.to_nat code). split; [lia|].
      apply in_seq. lia. }
    destruct (R code Hin) as [s Hs]. apply render_result_defined. congruence.
Qed.
