(* Round-trip theorems for the generated fixed-layout codecs (Gen/GenCodecs.v), part 2.
   For every type T:
     T_decode_encode : T_wf m -> T_Decode s (T_Encode m old) = m
     T_encode_decode : bytes b -> In i T_defined -> nth i (T_Encode (T_Decode s b) old) 0 = nth i b 0
     T_encode_blank  : In i T_blank -> nth i (T_Encode m old) 0 = 0        (reserved bytes are written as zero)
     T_encode_length : length (T_Encode m old) = 64
   T_defined / T_blank name the byte positions explicitly; together they are exactly 0..63.
   `s` is the previous content of the decoded struct and `old` the previous content of the buffer: the
   theorems hold for all of them (every field / every byte is overwritten). *)
From Coq Require Import NArith ZArith List Lia Bool.
From Slock Require Import Base.Bytes Gen.GenPrelude Gen.GenConsts Gen.GenCodecs Codec.CodecTactics.
Import ListNotations.
Local Open Scope N_scope.

(* ---------------------------------------------------------------- StateCommand *)
Definition StateCommand_defined : list nat := seq 0 21.
Definition StateCommand_blank : list nat := seq 21 43.
Lemma StateCommand_positions : forall i, (i < 64)%nat <-> In i (StateCommand_defined ++ StateCommand_blank).
Proof. intro i. unfold StateCommand_defined, StateCommand_blank. rewrite <- ?seq_app, ?app_nil_r. simpl Nat.add. rewrite in_seq. lia. Qed.

Theorem StateCommand_decode_encode : forall m s old, StateCommand_wf m -> StateCommand_Decode s (StateCommand_Encode m old) = m.
Proof. intros m s old Hwf. destruct m. dec_enc StateCommand_ext Hwf. Qed.

Theorem StateCommand_encode_decode : forall b s old, bytes b -> forall i, In i StateCommand_defined ->
  nth i (StateCommand_Encode (StateCommand_Decode s b) old) 0 = nth i b 0.
Proof. intros b s old Hb i Hi. unfold StateCommand_defined in Hi. in_cases Hi. all: solve_byte b Hb. Qed.

Theorem StateCommand_encode_blank : forall m old i, In i StateCommand_blank -> nth i (StateCommand_Encode m old) 0 = 0.
Proof. intros m old i Hi. unfold StateCommand_blank in Hi. in_cases Hi. all: autounfold with gencodec_enc; reflexivity. Qed.

Theorem StateCommand_encode_length : forall m old, length (StateCommand_Encode m old) = 64%nat.
Proof. reflexivity. Qed.

(* ---------------------------------------------------------------- StateResultCommand (decode . encode; the other direction is in CodecThms5.v) *)
Theorem StateResultCommand_decode_encode : forall m s old, StateResultCommand_wf m -> StateResultCommand_Decode s (StateResultCommand_Encode m old) = m.
Proof. intros m s old Hwf. destruct m. dec_enc StateResultCommand_ext Hwf. Qed.

