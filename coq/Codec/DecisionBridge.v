(* Bridge between the hand-written decision rules of the engine model (coq/Engine/Engine.v) and the GENERATED
   transcription of the Go functions (Gen/GenDecision.v).  If a comparison, constant or narrowing conversion of
   server/db.go doLock changes, the generated definition changes and this file stops compiling.
   Not part of the C14 cone. *)
From Coq Require Import NArith ZArith List Lia Bool.
From Slock Require Import Gen.GenConsts Gen.GenDecision.
From Slock Require Engine.Engine.
Local Open Scope N_scope.

Module E := Slock.Engine.Engine.

(* LockDB.doLock without the lock-version option (TIMEOUT_FLAG_LESS_LOCK_VERSION_IS_LOCK_SUCCED clear): the engine
   model's rule.  `cmpver` (compareLockVersion) is then irrelevant. *)
Theorem do_lock_rule_generated : forall locked cur req tflag cmpver,
  locked < 4294967296 -> cur < 65536 -> req < 65536 ->
  N.land tflag TIMEOUT_FLAG_LESS_LOCK_VERSION_IS_LOCK_SUCCED = 0 ->
  doLock (mk_doLock_in locked cur req tflag cmpver) = E.do_lock_rule locked cur req.
Proof.
  intros locked cur req tflag cmpver Hl Hc Hr Hflag.
  unfold doLock, E.do_lock_rule. cbn [doLock_in_mgr_locked doLock_in_cur_count doLock_in_req_count doLock_in_req_tflag doLock_in_cmpver].
  unfold TIMEOUT_FLAG_LESS_LOCK_VERSION_IS_LOCK_SUCCED in Hflag. rewrite Hflag. cbn [N.eqb negb].
  rewrite (N.mod_small cur 4294967296), (N.mod_small req 4294967296) by lia.
  destruct (locked =? 0); [reflexivity|].
  destruct (req =? 0); [reflexivity|].
  destruct (65535 <=? locked).
  - destruct (2147483647 <=? locked); [reflexivity|].
    destruct (cur =? 65535), (req =? 65535); reflexivity.
  - destruct (locked <=? cur), (locked <=? req); reflexivity.
Qed.

(* with the option set, a strictly newer request version (cmpver = 1) is refused where the rule above grants *)
Theorem do_lock_version_option : forall locked cur req tflag cmpver,
  locked < 4294967296 -> cur < 65536 -> req < 65536 ->
  N.land tflag TIMEOUT_FLAG_LESS_LOCK_VERSION_IS_LOCK_SUCCED <> 0 -> locked <> 0 ->
  doLock (mk_doLock_in locked cur req tflag cmpver) = E.do_lock_rule locked cur req && negb (Z.eqb cmpver 1).
Proof.
  intros locked cur req tflag cmpver Hl Hc Hr Hflag Hz.
  unfold doLock, E.do_lock_rule. cbn [doLock_in_mgr_locked doLock_in_cur_count doLock_in_req_count doLock_in_req_tflag doLock_in_cmpver].
  unfold TIMEOUT_FLAG_LESS_LOCK_VERSION_IS_LOCK_SUCCED in Hflag.
  apply N.eqb_neq in Hflag. rewrite Hflag. cbn [negb].
  apply N.eqb_neq in Hz. rewrite Hz.
  rewrite (N.mod_small cur 4294967296), (N.mod_small req 4294967296) by lia.
  destruct (req =? 0); [reflexivity|].
  destruct (65535 <=? locked).
  - destruct (2147483647 <=? locked); [reflexivity|].
    destruct (cur =? 65535), (req =? 65535), (Z.eqb cmpver 1); reflexivity.
  - destruct (locked <=? cur), (locked <=? req), (Z.eqb cmpver 1); reflexivity.
Qed.
