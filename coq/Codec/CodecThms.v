(* Umbrella: all fixed-layout codec theorems, plus the summary statements used by Properties/C14.v. *)
From Coq Require Import NArith ZArith List Lia Bool.
From Slock Require Import Base.Bytes Gen.GenPrelude Gen.GenConsts Gen.GenCodecs Codec.CodecTactics.
From Slock Require Export Codec.CodecThms1 Codec.CodecThms2 Codec.CodecThms3 Codec.CodecThms4 Codec.CodecThms5 Codec.AofRec
  Codec.CodecServer Codec.Readme Codec.ResultText.
Import ListNotations.
Local Open Scope N_scope.

(* LOCK / UNLOCK / WILL_LOCK / WILL_UNLOCK request frames have no reserved byte: full buffer equality *)
Theorem LockCommand_encode_decode_full : forall b s old, length b = 64%nat -> bytes b ->
  LockCommand_Encode (LockCommand_Decode s b) old = b.
Proof.
  intros b s old Hl Hb. apply (list_eq_nth 64); auto.
  intros i Hi. apply LockCommand_encode_decode; auto.
  unfold LockCommand_defined. apply in_seq. lia.
Qed.

(* generic shape of the three facts, to state them for all types at once *)
Section Shape.
  Variable T : Type.
  Variable wf : T -> Prop.
  Variable enc : T -> list N -> list N.
  Variable dec : T -> list N -> T.
  Variable defined blank : list nat.

  Definition codec_lossless : Prop :=
    forall m s old, wf m -> dec s (enc m old) = m.
  Definition codec_reproduces : Prop :=
    forall b s old, bytes b -> forall i, In i defined -> nth i (enc (dec s b) old) 0 = nth i b 0.
  Definition codec_blank_zero : Prop :=
    forall m old i, In i blank -> nth i (enc m old) 0 = 0.
  Definition codec_frame64 : Prop :=
    (forall m old, length (enc m old) = 64%nat) /\ (forall i, (i < 64)%nat <-> In i (defined ++ blank)).
  Definition codec_ok : Prop :=
    codec_lossless /\ codec_reproduces /\ codec_blank_zero /\ codec_frame64.
End Shape.

Theorem fixed_codecs_ok :
  codec_ok Command Command_wf Command_Encode Command_Decode Command_defined Command_blank /\
  codec_ok ResultCommand ResultCommand_wf ResultCommand_Encode ResultCommand_Decode ResultCommand_defined ResultCommand_blank /\
  codec_ok InitCommand InitCommand_wf InitCommand_Encode InitCommand_Decode InitCommand_defined InitCommand_blank /\
  codec_ok InitResultCommand InitResultCommand_wf InitResultCommand_Encode InitResultCommand_Decode InitResultCommand_defined InitResultCommand_blank /\
  codec_ok LockCommand LockCommand_wf LockCommand_Encode LockCommand_Decode LockCommand_defined LockCommand_blank /\
  codec_ok LockResultCommand LockResultCommand_wf LockResultCommand_Encode LockResultCommand_Decode LockResultCommand_defined LockResultCommand_blank /\
  codec_ok StateCommand StateCommand_wf StateCommand_Encode StateCommand_Decode StateCommand_defined StateCommand_blank /\
  codec_ok StateResultCommand StateResultCommand_wf StateResultCommand_Encode StateResultCommand_Decode StateResultCommand_defined StateResultCommand_blank /\
  codec_ok AdminCommand AdminCommand_wf AdminCommand_Encode AdminCommand_Decode AdminCommand_defined AdminCommand_blank /\
  codec_ok AdminResultCommand AdminResultCommand_wf AdminResultCommand_Encode AdminResultCommand_Decode AdminResultCommand_defined AdminResultCommand_blank /\
  codec_ok PingCommand PingCommand_wf PingCommand_Encode PingCommand_Decode PingCommand_defined PingCommand_blank /\
  codec_ok PingResultCommand PingResultCommand_wf PingResultCommand_Encode PingResultCommand_Decode PingResultCommand_defined PingResultCommand_blank /\
  codec_ok QuitCommand QuitCommand_wf QuitCommand_Encode QuitCommand_Decode QuitCommand_defined QuitCommand_blank /\
  codec_ok QuitResultCommand QuitResultCommand_wf QuitResultCommand_Encode QuitResultCommand_Decode QuitResultCommand_defined QuitResultCommand_blank /\
  codec_ok LeaderCommand LeaderCommand_wf LeaderCommand_Encode LeaderCommand_Decode LeaderCommand_defined LeaderCommand_blank /\
  codec_ok SubscribeCommand SubscribeCommand_wf SubscribeCommand_Encode SubscribeCommand_Decode SubscribeCommand_defined SubscribeCommand_blank /\
  codec_ok SubscribeResultCommand SubscribeResultCommand_wf SubscribeResultCommand_Encode SubscribeResultCommand_Decode SubscribeResultCommand_defined SubscribeResultCommand_blank /\
  codec_ok PublishLock PublishLock_wf PublishLock_Encode PublishLock_Decode PublishLock_defined PublishLock_blank.
Proof.
  repeat apply conj.
  all: unfold codec_lossless, codec_reproduces, codec_blank_zero.
  all: first
    [ exact Command_decode_encode | exact Command_encode_decode | exact Command_encode_blank | exact Command_encode_length | apply Command_positions
    | exact ResultCommand_decode_encode | exact ResultCommand_encode_decode | exact ResultCommand_encode_blank | exact ResultCommand_encode_length | apply ResultCommand_positions
    | exact InitCommand_decode_encode | exact InitCommand_encode_decode | exact InitCommand_encode_blank | exact InitCommand_encode_length | apply InitCommand_positions
    | exact InitResultCommand_decode_encode | exact InitResultCommand_encode_decode | exact InitResultCommand_encode_blank | exact InitResultCommand_encode_length | apply InitResultCommand_positions
    | exact LockCommand_decode_encode | exact LockCommand_encode_decode | exact LockCommand_encode_blank | exact LockCommand_encode_length | apply LockCommand_positions
    | exact LockResultCommand_decode_encode | exact LockResultCommand_encode_decode | exact LockResultCommand_encode_blank | exact LockResultCommand_encode_length | apply LockResultCommand_positions
    | exact StateCommand_decode_encode | exact StateCommand_encode_decode | exact StateCommand_encode_blank | exact StateCommand_encode_length | apply StateCommand_positions
    | exact StateResultCommand_decode_encode | exact StateResultCommand_encode_decode | exact StateResultCommand_encode_blank | exact StateResultCommand_encode_length | apply StateResultCommand_positions
    | exact AdminCommand_decode_encode | exact AdminCommand_encode_decode | exact AdminCommand_encode_blank | exact AdminCommand_encode_length | apply AdminCommand_positions
    | exact AdminResultCommand_decode_encode | exact AdminResultCommand_encode_decode | exact AdminResultCommand_encode_blank | exact AdminResultCommand_encode_length | apply AdminResultCommand_positions
    | exact PingCommand_decode_encode | exact PingCommand_encode_decode | exact PingCommand_encode_blank | exact PingCommand_encode_length | apply PingCommand_positions
    | exact PingResultCommand_decode_encode | exact PingResultCommand_encode_decode | exact PingResultCommand_encode_blank | exact PingResultCommand_encode_length | apply PingResultCommand_positions
    | exact QuitCommand_decode_encode | exact QuitCommand_encode_decode | exact QuitCommand_encode_blank | exact QuitCommand_encode_length | apply QuitCommand_positions
    | exact QuitResultCommand_decode_encode | exact QuitResultCommand_encode_decode | exact QuitResultCommand_encode_blank | exact QuitResultCommand_encode_length | apply QuitResultCommand_positions
    | exact LeaderCommand_decode_encode | exact LeaderCommand_encode_decode | exact LeaderCommand_encode_blank | exact LeaderCommand_encode_length | apply LeaderCommand_positions
    | exact SubscribeCommand_decode_encode | exact SubscribeCommand_encode_decode | exact SubscribeCommand_encode_blank | exact SubscribeCommand_encode_length | apply SubscribeCommand_positions
    | exact SubscribeResultCommand_decode_encode | exact SubscribeResultCommand_encode_decode | exact SubscribeResultCommand_encode_blank | exact SubscribeResultCommand_encode_length | apply SubscribeResultCommand_positions
    | exact PublishLock_decode_encode | exact PublishLock_encode_decode | exact PublishLock_encode_blank | exact PublishLock_encode_length | apply PublishLock_positions ].
Qed.
