(* Round-trip theorems for the generated fixed-layout codecs (Gen/GenCodecs.v), part 4.
   For every type T:
     T_decode_encode : T_wf m -> T_Decode s (T_Encode m old) = m
     T_encode_decode : bytes b -> In i T_defined -> nth i (T_Encode (T_Decode s b) old) 0 = nth i b 0
     T_encode_blank  : In i T_blank -> nth i (T_Encode m old) 0 = 0        (reserved bytes are written as zero)
     T_encode_length : length (T_Encode m old) = 64
   T_defined / T_blank name the byte positions explicitly; together they are exactly 0..63.
   `s` is the previous content of the decoded struct and `old` the previous content of the buffer: the
   theorems hold for all of them (every field / every byte is overwritten). *)
From Coq Require Import NArith ZArith List Lia Bool.
From Slock Require Import Base.Bytes Gen.GenPrelude Gen.GenConsts Gen.GenCodecs Codec.CodecTactics.
Import ListNotations.
Local Open Scope N_scope.

(* ---------------------------------------------------------------- SubscribeCommand *)
Definition SubscribeCommand_defined : list nat := seq 0 53.
Definition SubscribeCommand_blank : list nat := seq 53 11.
Lemma SubscribeCommand_positions : forall i, (i < 64)%nat <-> In i (SubscribeCommand_defined ++ SubscribeCommand_blank).
Proof. intro i. unfold SubscribeCommand_defined, SubscribeCommand_blank. rewrite <- ?seq_app, ?app_nil_r. simpl Nat.add. rewrite in_seq. lia. Qed.

Theorem SubscribeCommand_decode_encode : forall m s old, SubscribeCommand_wf m -> SubscribeCommand_Decode s (SubscribeCommand_Encode m old) = m.
Proof. intros m s old Hwf. destruct m. dec_enc SubscribeCommand_ext Hwf. Qed.

Theorem SubscribeCommand_encode_decode : forall b s old, bytes b -> forall i, In i SubscribeCommand_defined ->
  nth i (SubscribeCommand_Encode (SubscribeCommand_Decode s b) old) 0 = nth i b 0.
Proof. intros b s old Hb i Hi. unfold SubscribeCommand_defined in Hi. in_cases Hi. all: solve_byte b Hb. Qed.

Theorem SubscribeCommand_encode_blank : forall m old i, In i SubscribeCommand_blank -> nth i (SubscribeCommand_Encode m old) 0 = 0.
Proof. intros m old i Hi. unfold SubscribeCommand_blank in Hi. in_cases Hi. all: autounfold with gencodec_enc; reflexivity. Qed.

Theorem SubscribeCommand_encode_length : forall m old, length (SubscribeCommand_Encode m old) = 64%nat.
Proof. reflexivity. Qed.

(* ---------------------------------------------------------------- SubscribeResultCommand *)
Definition SubscribeResultCommand_defined : list nat := seq 0 29.
Definition SubscribeResultCommand_blank : list nat := seq 29 35.
Lemma SubscribeResultCommand_positions : forall i, (i < 64)%nat <-> In i (SubscribeResultCommand_defined ++ SubscribeResultCommand_blank).
Proof. intro i. unfold SubscribeResultCommand_defined, SubscribeResultCommand_blank. rewrite <- ?seq_app, ?app_nil_r. simpl Nat.add. rewrite in_seq. lia. Qed.

Theorem SubscribeResultCommand_decode_encode : forall m s old, SubscribeResultCommand_wf m -> SubscribeResultCommand_Decode s (SubscribeResultCommand_Encode m old) = m.
Proof. intros m s old Hwf. destruct m. dec_enc SubscribeResultCommand_ext Hwf. Qed.

Theorem SubscribeResultCommand_encode_decode : forall b s old, bytes b -> forall i, In i SubscribeResultCommand_defined ->
  nth i (SubscribeResultCommand_Encode (SubscribeResultCommand_Decode s b) old) 0 = nth i b 0.
Proof. intros b s old Hb i Hi. unfold SubscribeResultCommand_defined in Hi. in_cases Hi. all: solve_byte b Hb. Qed.

Theorem SubscribeResultCommand_encode_blank : forall m old i, In i SubscribeResultCommand_blank -> nth i (SubscribeResultCommand_Encode m old) 0 = 0.
Proof. intros m old i Hi. unfold SubscribeResultCommand_blank in Hi. in_cases Hi. all: autounfold with gencodec_enc; reflexivity. Qed.

Theorem SubscribeResultCommand_encode_length : forall m old, length (SubscribeResultCommand_Encode m old) = 64%nat.
Proof. reflexivity. Qed.

(* ---------------------------------------------------------------- PublishLock *)
Definition PublishLock_defined : list nat := seq 0 60.
Definition PublishLock_blank : list nat := seq 60 4.
Lemma PublishLock_positions : forall i, (i < 64)%nat <-> In i (PublishLock_defined ++ PublishLock_blank).
Proof. intro i. unfold PublishLock_defined, PublishLock_blank. rewrite <- ?seq_app, ?app_nil_r. simpl Nat.add. rewrite in_seq. lia. Qed.

Theorem PublishLock_decode_encode : forall m s old, PublishLock_wf m -> PublishLock_Decode s (PublishLock_Encode m old) = m.
Proof. intros m s old Hwf. destruct m. dec_enc PublishLock_ext Hwf. Qed.

Theorem PublishLock_encode_decode : forall b s old, bytes b -> forall i, In i PublishLock_defined ->
  nth i (PublishLock_Encode (PublishLock_Decode s b) old) 0 = nth i b 0.
Proof. intros b s old Hb i Hi. unfold PublishLock_defined in Hi. in_cases Hi. all: solve_byte b Hb. Qed.

Theorem PublishLock_encode_blank : forall m old i, In i PublishLock_blank -> nth i (PublishLock_Encode m old) 0 = 0.
Proof. intros m old i Hi. unfold PublishLock_blank in Hi. in_cases Hi. all: autounfold with gencodec_enc; reflexivity. Qed.

Theorem PublishLock_encode_length : forall m old, length (PublishLock_Encode m old) = 64%nat.
Proof. reflexivity. Qed.
