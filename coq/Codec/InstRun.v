(* Entry point of the hand-written variable-length models for the correspondence check (extracted to OCaml). *)
From Coq Require Import String.
From Coq Require Import NArith List.
From Slock Require Import Codec.ValueFrame.
Import ListNotations.

Definition inst_run (name : string) (args : list (list N)) (buf : list N) : option (N * list (list N)) :=
  if String.eqb name "ValueFrame" then Some (run_value_frame args)
  else if String.eqb name "ValueProps" then Some (run_value_props buf)
  else None.
