(* Round-trip theorems for the generated fixed-layout codecs (Gen/GenCodecs.v), part 5 (StateResultCommand: encode . decode; split from part 2 only to build in parallel).
   For every type T:
     T_decode_encode : T_wf m -> T_Decode s (T_Encode m old) = m
     T_encode_decode : bytes b -> In i T_defined -> nth i (T_Encode (T_Decode s b) old) 0 = nth i b 0
     T_encode_blank  : In i T_blank -> nth i (T_Encode m old) 0 = 0        (reserved bytes are written as zero)
     T_encode_length : length (T_Encode m old) = 64
   T_defined / T_blank name the byte positions explicitly; together they are exactly 0..63.
   `s` is the previous content of the decoded struct and `old` the previous content of the buffer: the
   theorems hold for all of them (every field / every byte is overwritten). *)
From Coq Require Import NArith ZArith List Lia Bool.
From Slock Require Import Base.Bytes Gen.GenPrelude Gen.GenConsts Gen.GenCodecs Codec.CodecTactics.
Import ListNotations.
Local Open Scope N_scope.

(* ---------------------------------------------------------------- StateResultCommand *)
Definition StateResultCommand_defined : list nat := seq 0 63.
Definition StateResultCommand_blank : list nat := seq 63 1.
Lemma StateResultCommand_positions : forall i, (i < 64)%nat <-> In i (StateResultCommand_defined ++ StateResultCommand_blank).
Proof. intro i. unfold StateResultCommand_defined, StateResultCommand_blank. rewrite <- ?seq_app, ?app_nil_r. simpl Nat.add. rewrite in_seq. lia. Qed.

Theorem StateResultCommand_encode_decode : forall b s old, bytes b -> forall i, In i StateResultCommand_defined ->
  nth i (StateResultCommand_Encode (StateResultCommand_Decode s b) old) 0 = nth i b 0.
Proof. intros b s old Hb i Hi. unfold StateResultCommand_defined in Hi. in_cases Hi. all: solve_byte b Hb. Qed.

Theorem StateResultCommand_encode_blank : forall m old i, In i StateResultCommand_blank -> nth i (StateResultCommand_Encode m old) 0 = 0.
Proof. intros m old i Hi. unfold StateResultCommand_blank in Hi. in_cases Hi. all: autounfold with gencodec_enc; reflexivity. Qed.

Theorem StateResultCommand_encode_length : forall m old, length (StateResultCommand_Encode m old) = 64%nat.
Proof. reflexivity. Qed.
