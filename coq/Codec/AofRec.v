(* The 64-byte AOF record (server/aof.go AofLock.Encode/Decode), re-exported for the persistence and
   replication properties.  Record, codec and well-formedness are the GENERATED ones (Gen/GenCodecs.v):
     AofLock, mkAofLock, AofLock_<Field>, AofLock_wf, AofLock_Encode, AofLock_Decode, AofLock_ext.
   AofLock.Encode does not write bytes 0 and 1 of its buffer (they keep whatever the buffer held). *)
From Coq Require Import NArith ZArith List Lia Bool.
From Slock Require Import Base.Bytes Gen.GenPrelude Gen.GenConsts Gen.GenCodecs Codec.CodecTactics.
From Slock Require Export Gen.GenCodecs.
Import ListNotations.
Local Open Scope N_scope.

Definition AofLock_defined : list nat := seq 2 62.
Definition AofLock_untouched : list nat := [0; 1]%nat.

Theorem AofLock_decode_encode : forall m s old, AofLock_wf m -> AofLock_Decode s (AofLock_Encode m old) = m.
Proof. intros m s old Hwf. destruct m. dec_enc AofLock_ext Hwf. Qed.

Theorem AofLock_encode_decode : forall b s old, bytes b -> forall i, In i AofLock_defined ->
  nth i (AofLock_Encode (AofLock_Decode s b) old) 0 = nth i b 0.
Proof. intros b s old Hb i Hi. unfold AofLock_defined in Hi. in_cases Hi. all: solve_byte b Hb. Qed.

Theorem AofLock_encode_untouched : forall m old i, In i AofLock_untouched ->
  nth i (AofLock_Encode m old) 0 = nth i old 0.
Proof. intros m old i Hi. unfold AofLock_untouched in Hi. in_cases Hi. all: autounfold with gencodec_enc; reflexivity. Qed.

Theorem AofLock_encode_length : forall m old, length (AofLock_Encode m old) = 64%nat.
Proof. reflexivity. Qed.

(* in place (the way the server uses it: buf is the record's own buffer): decode then encode changes nothing *)
Theorem AofLock_encode_decode_inplace : forall b s, length b = 64%nat -> bytes b ->
  AofLock_Encode (AofLock_Decode s b) b = b.
Proof.
  intros b s Hl Hb. apply (list_eq_nth 64); auto.
  intros i Hi.
  assert (Hc : In i AofLock_untouched \/ In i AofLock_defined).
  { unfold AofLock_untouched, AofLock_defined. rewrite in_seq. simpl. lia. }
  destruct Hc as [Hc|Hc].
  - apply AofLock_encode_untouched; auto.
  - apply AofLock_encode_decode; auto.
Qed.

(* two records with equal encodings (on the bytes Encode writes) are equal: Encode is injective on wf records *)
Theorem AofLock_encode_injective : forall m1 m2 old1 old2, AofLock_wf m1 -> AofLock_wf m2 ->
  (forall i, In i AofLock_defined -> nth i (AofLock_Encode m1 old1) 0 = nth i (AofLock_Encode m2 old2) 0) ->
  m1 = m2.
Proof.
  intros m1 m2 old1 old2 H1 H2 Heq.
  rewrite <- (AofLock_decode_encode m1 m1 old1 H1), <- (AofLock_decode_encode m2 m1 old2 H2).
  (* Decode reads only defined bytes *)
  apply AofLock_ext; autounfold with gencodec_proj gencodec_dec; cbv beta iota zeta;
    repeat match goal with
    | |- context[nth ?k (AofLock_Encode m1 old1) 0] =>
        rewrite (Heq k) by (unfold AofLock_defined; apply in_seq; simpl; lia)
    end; reflexivity.
Qed.
