(* Round-trip theorems for the generated fixed-layout codecs (Gen/GenCodecs.v), part 1.
   For every type T:
     T_decode_encode : T_wf m -> T_Decode s (T_Encode m old) = m
     T_encode_decode : bytes b -> In i T_defined -> nth i (T_Encode (T_Decode s b) old) 0 = nth i b 0
     T_encode_blank  : In i T_blank -> nth i (T_Encode m old) 0 = 0        (reserved bytes are written as zero)
     T_encode_length : length (T_Encode m old) = 64
   T_defined / T_blank name the byte positions explicitly; together they are exactly 0..63.
   `s` is the previous content of the decoded struct and `old` the previous content of the buffer: the
   theorems hold for all of them (every field / every byte is overwritten). *)
From Coq Require Import NArith ZArith List Lia Bool.
From Slock Require Import Base.Bytes Gen.GenPrelude Gen.GenConsts Gen.GenCodecs Codec.CodecTactics.
Import ListNotations.
Local Open Scope N_scope.

(* ---------------------------------------------------------------- Command *)
Definition Command_defined : list nat := seq 0 19.
Definition Command_blank : list nat := seq 19 45.
Lemma Command_positions : forall i, (i < 64)%nat <-> In i (Command_defined ++ Command_blank).
Proof. intro i. unfold Command_defined, Command_blank. rewrite <- ?seq_app, ?app_nil_r. simpl Nat.add. rewrite in_seq. lia. Qed.

Theorem Command_decode_encode : forall m s old, Command_wf m -> Command_Decode s (Command_Encode m old) = m.
Proof. intros m s old Hwf. destruct m. dec_enc Command_ext Hwf. Qed.

Theorem Command_encode_decode : forall b s old, bytes b -> forall i, In i Command_defined ->
  nth i (Command_Encode (Command_Decode s b) old) 0 = nth i b 0.
Proof. intros b s old Hb i Hi. unfold Command_defined in Hi. in_cases Hi. all: solve_byte b Hb. Qed.

Theorem Command_encode_blank : forall m old i, In i Command_blank -> nth i (Command_Encode m old) 0 = 0.
Proof. intros m old i Hi. unfold Command_blank in Hi. in_cases Hi. all: autounfold with gencodec_enc; reflexivity. Qed.

Theorem Command_encode_length : forall m old, length (Command_Encode m old) = 64%nat.
Proof. reflexivity. Qed.

(* ---------------------------------------------------------------- ResultCommand *)
Definition ResultCommand_defined : list nat := seq 0 20.
Definition ResultCommand_blank : list nat := seq 20 44.
Lemma ResultCommand_positions : forall i, (i < 64)%nat <-> In i (ResultCommand_defined ++ ResultCommand_blank).
Proof. intro i. unfold ResultCommand_defined, ResultCommand_blank. rewrite <- ?seq_app, ?app_nil_r. simpl Nat.add. rewrite in_seq. lia. Qed.

Theorem ResultCommand_decode_encode : forall m s old, ResultCommand_wf m -> ResultCommand_Decode s (ResultCommand_Encode m old) = m.
Proof. intros m s old Hwf. destruct m. dec_enc ResultCommand_ext Hwf. Qed.

Theorem ResultCommand_encode_decode : forall b s old, bytes b -> forall i, In i ResultCommand_defined ->
  nth i (ResultCommand_Encode (ResultCommand_Decode s b) old) 0 = nth i b 0.
Proof. intros b s old Hb i Hi. unfold ResultCommand_defined in Hi. in_cases Hi. all: solve_byte b Hb. Qed.

Theorem ResultCommand_encode_blank : forall m old i, In i ResultCommand_blank -> nth i (ResultCommand_Encode m old) 0 = 0.
Proof. intros m old i Hi. unfold ResultCommand_blank in Hi. in_cases Hi. all: autounfold with gencodec_enc; reflexivity. Qed.

Theorem ResultCommand_encode_length : forall m old, length (ResultCommand_Encode m old) = 64%nat.
Proof. reflexivity. Qed.

(* ---------------------------------------------------------------- InitCommand *)
Definition InitCommand_defined : list nat := seq 0 35.
Definition InitCommand_blank : list nat := seq 35 29.
Lemma InitCommand_positions : forall i, (i < 64)%nat <-> In i (InitCommand_defined ++ InitCommand_blank).
Proof. intro i. unfold InitCommand_defined, InitCommand_blank. rewrite <- ?seq_app, ?app_nil_r. simpl Nat.add. rewrite in_seq. lia. Qed.

Theorem InitCommand_decode_encode : forall m s old, InitCommand_wf m -> InitCommand_Decode s (InitCommand_Encode m old) = m.
Proof. intros m s old Hwf. destruct m. dec_enc InitCommand_ext Hwf. Qed.

Theorem InitCommand_encode_decode : forall b s old, bytes b -> forall i, In i InitCommand_defined ->
  nth i (InitCommand_Encode (InitCommand_Decode s b) old) 0 = nth i b 0.
Proof. intros b s old Hb i Hi. unfold InitCommand_defined in Hi. in_cases Hi. all: solve_byte b Hb. Qed.

Theorem InitCommand_encode_blank : forall m old i, In i InitCommand_blank -> nth i (InitCommand_Encode m old) 0 = 0.
Proof. intros m old i Hi. unfold InitCommand_blank in Hi. in_cases Hi. all: autounfold with gencodec_enc; reflexivity. Qed.

Theorem InitCommand_encode_length : forall m old, length (InitCommand_Encode m old) = 64%nat.
Proof. reflexivity. Qed.

(* ---------------------------------------------------------------- InitResultCommand *)
Definition InitResultCommand_defined : list nat := seq 0 21.
Definition InitResultCommand_blank : list nat := seq 21 43.
Lemma InitResultCommand_positions : forall i, (i < 64)%nat <-> In i (InitResultCommand_defined ++ InitResultCommand_blank).
Proof. intro i. unfold InitResultCommand_defined, InitResultCommand_blank. rewrite <- ?seq_app, ?app_nil_r. simpl Nat.add. rewrite in_seq. lia. Qed.

Theorem InitResultCommand_decode_encode : forall m s old, InitResultCommand_wf m -> InitResultCommand_Decode s (InitResultCommand_Encode m old) = m.
Proof. intros m s old Hwf. destruct m. dec_enc InitResultCommand_ext Hwf. Qed.

Theorem InitResultCommand_encode_decode : forall b s old, bytes b -> forall i, In i InitResultCommand_defined ->
  nth i (InitResultCommand_Encode (InitResultCommand_Decode s b) old) 0 = nth i b 0.
Proof. intros b s old Hb i Hi. unfold InitResultCommand_defined in Hi. in_cases Hi. all: solve_byte b Hb. Qed.

Theorem InitResultCommand_encode_blank : forall m old i, In i InitResultCommand_blank -> nth i (InitResultCommand_Encode m old) 0 = 0.
Proof. intros m old i Hi. unfold InitResultCommand_blank in Hi. in_cases Hi. all: autounfold with gencodec_enc; reflexivity. Qed.

Theorem InitResultCommand_encode_length : forall m old, length (InitResultCommand_Encode m old) = 64%nat.
Proof. reflexivity. Qed.

(* ---------------------------------------------------------------- LockCommand *)
Definition LockCommand_defined : list nat := seq 0 64.
Definition LockCommand_blank : list nat := [].
Lemma LockCommand_positions : forall i, (i < 64)%nat <-> In i (LockCommand_defined ++ LockCommand_blank).
Proof. intro i. unfold LockCommand_defined, LockCommand_blank. rewrite <- ?seq_app, ?app_nil_r. simpl Nat.add. rewrite in_seq. lia. Qed.

Theorem LockCommand_decode_encode : forall m s old, LockCommand_wf m -> LockCommand_Decode s (LockCommand_Encode m old) = m.
Proof. intros m s old Hwf. destruct m. dec_enc LockCommand_ext Hwf. Qed.

Theorem LockCommand_encode_decode : forall b s old, bytes b -> forall i, In i LockCommand_defined ->
  nth i (LockCommand_Encode (LockCommand_Decode s b) old) 0 = nth i b 0.
Proof. intros b s old Hb i Hi. unfold LockCommand_defined in Hi. in_cases Hi. all: solve_byte b Hb. Qed.

Theorem LockCommand_encode_blank : forall m old i, In i LockCommand_blank -> nth i (LockCommand_Encode m old) 0 = 0.
Proof. intros m old i []. Qed.

Theorem LockCommand_encode_length : forall m old, length (LockCommand_Encode m old) = 64%nat.
Proof. reflexivity. Qed.

(* ---------------------------------------------------------------- LockResultCommand *)
Definition LockResultCommand_defined : list nat := seq 0 60.
Definition LockResultCommand_blank : list nat := seq 60 4.
Lemma LockResultCommand_positions : forall i, (i < 64)%nat <-> In i (LockResultCommand_defined ++ LockResultCommand_blank).
Proof. intro i. unfold LockResultCommand_defined, LockResultCommand_blank. rewrite <- ?seq_app, ?app_nil_r. simpl Nat.add. rewrite in_seq. lia. Qed.

Theorem LockResultCommand_decode_encode : forall m s old, LockResultCommand_wf m -> LockResultCommand_Decode s (LockResultCommand_Encode m old) = m.
Proof. intros m s old Hwf. destruct m. dec_enc LockResultCommand_ext Hwf. Qed.

Theorem LockResultCommand_encode_decode : forall b s old, bytes b -> forall i, In i LockResultCommand_defined ->
  nth i (LockResultCommand_Encode (LockResultCommand_Decode s b) old) 0 = nth i b 0.
Proof. intros b s old Hb i Hi. unfold LockResultCommand_defined in Hi. in_cases Hi. all: solve_byte b Hb. Qed.

Theorem LockResultCommand_encode_blank : forall m old i, In i LockResultCommand_blank -> nth i (LockResultCommand_Encode m old) 0 = 0.
Proof. intros m old i Hi. unfold LockResultCommand_blank in Hi. in_cases Hi. all: autounfold with gencodec_enc; reflexivity. Qed.

Theorem LockResultCommand_encode_length : forall m old, length (LockResultCommand_Encode m old) = 64%nat.
Proof. reflexivity. Qed.
