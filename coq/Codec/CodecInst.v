(* Variable-length parts of the wire codecs.
   (a) NUL-padded strings inside fixed frames: CALL method name (<= 38 bytes), CALL result error type (<= 37),
       LEADER result host (<= 43, explicit length byte).  The codec definitions are the GENERATED ones.
   (b) value frames with property headers (protocol/command.go NewLockCommandDataFromBytes /
       LockResultCommandData.GetDataProperties / GetValueOffset): hand-written model, tied to the Go code by the
       correspondence check (checks/C14.py, inst_run). *)
From Coq Require Import NArith ZArith List Lia Bool.
From Slock Require Import Base.Bytes Gen.GenPrelude Gen.GenConsts Gen.GenCodecs Codec.CodecTactics.
Import ListNotations.
Local Open Scope N_scope.

(* ------------------------------------------------------------------ NUL padding / trimming *)

Definition no_nul_ends (s : list N) : Prop := hd 1 s <> 0 /\ last s 1 <> 0.

Lemma gen_drop0_repeat l k : gen_drop0 (repeat 0 k ++ l) = gen_drop0 l.
Proof. induction k; simpl; auto. Qed.

Lemma gen_drop0_nz l : hd 1 l <> 0 -> gen_drop0 l = l.
Proof. destruct l as [|a l]; simpl; auto. destruct a; simpl; congruence. Qed.

Lemma rev_repeat {A} (a : A) k : rev (repeat a k) = repeat a k.
Proof.
  induction k; simpl; auto. rewrite IHk. clear. induction k; simpl; auto. f_equal. auto.
Qed.

Lemma hd_rev_last (l : list N) d : hd d (rev l) = last l d.
Proof.
  induction l as [|a l IH]; simpl; auto.
  destruct l as [|b l]; simpl in *; auto.
  rewrite <- IH. destruct (rev l ++ [b]) eqn:E; simpl; auto.
  destruct (rev l); discriminate.
Qed.

Lemma gen_trim0_pad s k : no_nul_ends s -> gen_trim0 (s ++ repeat 0 k) = s.
Proof.
  intros [Hh Hl]. unfold gen_trim0.
  destruct s as [|a s].
  - simpl. rewrite <- (app_nil_r (repeat 0 k)), gen_drop0_repeat. reflexivity.
  - rewrite (gen_drop0_nz ((a :: s) ++ repeat 0 k)) by exact Hh.
    rewrite rev_app_distr, rev_repeat, gen_drop0_repeat.
    rewrite gen_drop0_nz by (rewrite hd_rev_last; exact Hl).
    apply rev_involutive.
Qed.

(* the shape the unrolled padding loop takes: position k holds the k-th byte, or 0 past the end *)
Definition pad_entry (s : list N) (k : nat) : N :=
  if N.leb (N.of_nat (length s)) (N.of_nat k) then 0 else nth k s 0.

Lemma pad_entries s n : (length s <= n)%nat ->
  map (pad_entry s) (seq 0 n) = s ++ repeat 0 (n - length s).
Proof.
  intros H. apply (nth_ext _ _ 0 0).
  - rewrite map_length, seq_length, app_length, repeat_length. lia.
  - intros i Hi. rewrite map_length, seq_length in Hi.
    rewrite (nth_indep _ 0 (pad_entry s 0)) by (rewrite map_length, seq_length; lia).
    rewrite map_nth, seq_nth by lia. simpl. unfold pad_entry.
    destruct (N.leb_spec (N.of_nat (length s)) (N.of_nat i)).
    + rewrite app_nth2 by lia. symmetry. apply nth_repeat.
    + rewrite app_nth1 by lia. reflexivity.
Qed.

Lemma pad_entries_firstn s n (l : list N) : (n <= length s)%nat ->
  firstn n (s ++ l) = firstn n s.
Proof. intros. rewrite firstn_app. replace (n - length s)%nat with 0%nat by lia. simpl. apply app_nil_r. Qed.

(* ------------------------------------------------------------------ CALL request *)

Theorem CallCommand_decode_encode : forall m s old,
  CallCommand_wf m -> (length (CallCommand_MethodName m) <= 38)%nat -> no_nul_ends (CallCommand_MethodName m) ->
  CallCommand_Decode s (CallCommand_Encode m old) = m.
Proof.
  intros m s old Hwf Hlen Hnn. destruct m.
  unfold_wf_in Hwf. autounfold with gencodec_proj in Hlen, Hnn. cbv beta iota zeta in Hlen, Hnn. split_ands.
  apply CallCommand_ext; unfold_dec_then_enc.
  1-8: first [ solve_array | solve_numeric ].
  unfold gen_slice.
  change (N.to_nat 64 - N.to_nat 26)%nat with 38%nat. change (N.to_nat 26) with 26%nat. cbn [skipn firstn].
  match goal with |- gen_trim0 ?l = ?s => change l with (map (pad_entry s) (seq 0 38)) end.
  rewrite pad_entries by exact Hlen. apply gen_trim0_pad. exact Hnn.
Qed.

Theorem CallCommand_encode_ok : forall m old,
  (length (CallCommand_MethodName m) <= 38)%nat <-> CallCommand_Encode_err m old = false.
Proof.
  intros. autounfold with gencodec_err. rewrite N.ltb_ge. lia.
Qed.

Definition CallCommand_defined : list nat := seq 0 26.

Theorem CallCommand_encode_decode : forall b s old, bytes b -> forall i, In i CallCommand_defined ->
  nth i (CallCommand_Encode (CallCommand_Decode s b) old) 0 = nth i b 0.
Proof. intros b s old Hb i Hi. unfold CallCommand_defined in Hi. in_cases Hi. all: solve_byte b Hb. Qed.

(* the unguarded statement is false: NULs at the ends of a name are eaten by the padding scheme *)
Theorem CallCommand_decode_encode_unguarded_refuted :
  exists m s old, CallCommand_wf m /\ (length (CallCommand_MethodName m) <= 38)%nat /\
    CallCommand_Decode s (CallCommand_Encode m old) <> m.
Proof.
  exists (mkCallCommand 86 1 7 (repeat 0 16) 0 0 0 0 [97; 0]).
  exists (mkCallCommand 0 0 0 [] 0 0 0 0 []). exists [].
  split; [|split].
  - unfold CallCommand_wf. cbn. repeat split; try lia; repeat constructor; lia.
  - cbn. lia.
  - intro H. apply (f_equal CallCommand_MethodName) in H. vm_compute in H. discriminate H.
Qed.

(* ------------------------------------------------------------------ CALL result *)

Theorem CallResultCommand_decode_encode : forall m s old,
  CallResultCommand_wf m -> (length (CallResultCommand_ErrType m) <= 37)%nat -> no_nul_ends (CallResultCommand_ErrType m) ->
  CallResultCommand_Decode s (CallResultCommand_Encode m old) = m.
Proof.
  intros m s old Hwf Hlen Hnn. destruct m.
  unfold_wf_in Hwf. autounfold with gencodec_proj in Hlen, Hnn. cbv beta iota zeta in Hlen, Hnn. split_ands.
  apply CallResultCommand_ext; unfold_dec_then_enc.
  1-9: first [ solve_array | solve_numeric ].
  unfold gen_slice.
  change (N.to_nat 64 - N.to_nat 27)%nat with 37%nat. change (N.to_nat 27) with 27%nat. cbn [skipn firstn].
  match goal with |- gen_trim0 ?l = ?s => change l with (map (pad_entry s) (seq 0 37)) end.
  rewrite pad_entries by exact Hlen. apply gen_trim0_pad. exact Hnn.
Qed.

Definition CallResultCommand_defined : list nat := seq 0 27.

Theorem CallResultCommand_encode_decode : forall b s old, bytes b -> forall i, In i CallResultCommand_defined ->
  nth i (CallResultCommand_Encode (CallResultCommand_Decode s b) old) 0 = nth i b 0.
Proof. intros b s old Hb i Hi. unfold CallResultCommand_defined in Hi. in_cases Hi. all: solve_byte b Hb. Qed.

(* ------------------------------------------------------------------ LEADER result (explicit length byte) *)

Theorem LeaderResultCommand_decode_encode : forall m s old,
  LeaderResultCommand_wf m -> (length (LeaderResultCommand_Host m) <= 43)%nat ->
  LeaderResultCommand_HostLen m = N.of_nat (length (LeaderResultCommand_Host m)) ->
  LeaderResultCommand_Decode s (LeaderResultCommand_Encode m old) = m /\
  LeaderResultCommand_Decode_outcome s (LeaderResultCommand_Encode m old) = 0.
Proof.
  intros m s old Hwf Hlen Hhl. destruct m.
  unfold_wf_in Hwf. autounfold with gencodec_proj in Hlen, Hhl. cbv beta iota zeta in Hlen, Hhl. split_ands.
  assert (Hsmall : LeaderResultCommand_HostLen < 44) by lia.
  assert (Hmod : (21 + (LeaderResultCommand_HostLen mod 256) mod 256) mod 256 = 21 + LeaderResultCommand_HostLen).
  { rewrite (N.mod_small LeaderResultCommand_HostLen 256) by lia.
    rewrite (N.mod_small LeaderResultCommand_HostLen 256) by lia. apply N.mod_small. lia. }
  split.
  - apply LeaderResultCommand_ext; unfold_dec_then_enc.
    1-6: first [ solve_array | solve_numeric ].
    rewrite Hmod. unfold gen_slice.
    replace (N.to_nat (21 + LeaderResultCommand_HostLen) - N.to_nat 21)%nat with (length LeaderResultCommand_Host) by lia.
    change (N.to_nat 21) with 21%nat. cbn [skipn].
    match goal with |- firstn _ ?l = ?s => change l with (map (pad_entry s) (seq 0 43)) end.
    rewrite pad_entries by exact Hlen.
    rewrite firstn_app, Nat.sub_diag, firstn_all. simpl. apply app_nil_r.
  - autounfold with gencodec_err gencodec_enc. cbn [nth length]. autounfold with gencodec_proj. cbv beta iota zeta.
    rewrite ?Hmod. rewrite ?(N.mod_small LeaderResultCommand_HostLen 256) by lia.
    repeat match goal with
    | |- context[N.ltb ?a ?b] => destruct (N.ltb_spec a b); try lia
    end.
    reflexivity.
Qed.

Definition LeaderResultCommand_defined : list nat := seq 0 21.

Theorem LeaderResultCommand_encode_decode : forall b s old, bytes b -> forall i, In i LeaderResultCommand_defined ->
  nth i (LeaderResultCommand_Encode (LeaderResultCommand_Decode s b) old) 0 = nth i b 0.
Proof. intros b s old Hb i Hi. unfold LeaderResultCommand_defined in Hi. in_cases Hi. all: solve_byte b Hb. Qed.

(* Decode does not succeed (it panics, or - once guarded - returns an error) on 64-byte frames whose length byte
   exceeds the 43 bytes available: stated so that it holds for the current and for the repaired source *)
Theorem LeaderResultCommand_decode_fails_on_long_hostlen : forall b s,
  length b = 64%nat -> bytes b -> 43 < nth 20 b 0 ->
  LeaderResultCommand_Decode_outcome s b <> 0.
Proof.
  intros b s Hl Hb Hlong. pose proof (Forall_nth_byte b 20 Hb) as H20.
  autounfold with gencodec_err. rewrite Hl.
  rewrite ?(N.mod_small (nth 20 b 0) 256) by exact H20.
  repeat match goal with
  | |- context[if ?c then _ else _] => destruct c eqn:?
  end; try discriminate.
  all: exfalso;
    repeat match goal with
    | H : orb _ _ = false |- _ => apply orb_false_elim in H; destruct H
    | H : N.ltb _ _ = false |- _ => apply N.ltb_ge in H
    end;
    simpl N.of_nat in *; dlia.
Qed.
