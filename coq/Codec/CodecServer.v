(* The server's hand-inlined lock-frame decoder (server/protocol.go ProcessParse, cases COMMAND_LOCK and
   COMMAND_UNLOCK) and result encoder (ProcessLockResultCommand) agree with protocol.LockCommand.Decode and
   protocol.LockResultCommand.Encode.  All four definitions are generated (Gen/GenCodecs.v). *)
From Coq Require Import NArith ZArith List Lia Bool.
From Slock Require Import Base.Bytes Gen.GenPrelude Gen.GenConsts Gen.GenCodecs Codec.CodecTactics Codec.CodecThms1.
Import ListNotations.
Local Open Scope N_scope.

(* The inlined decoder does not assign Magic and Version: it re-uses a pooled LockCommand (created with
   Magic = MAGIC, Version = VERSION by GetLockCommandLocked) after having checked buf[0], buf[1]. *)
Definition LockCommand_set_magic_version (c : LockCommand) (magic version : N) : LockCommand :=
  mkLockCommand magic version (LockCommand_CommandType c) (LockCommand_RequestId c) (LockCommand_Flag c)
    (LockCommand_DbId c) (LockCommand_LockId c) (LockCommand_LockKey c) (LockCommand_TimeoutFlag c)
    (LockCommand_Timeout c) (LockCommand_ExpriedFlag c) (LockCommand_Expried c) (LockCommand_Count c)
    (LockCommand_Rcount c).

Theorem Server_Decode_Lock_agrees : forall s b,
  Server_Decode_Lock s b =
  LockCommand_set_magic_version (LockCommand_Decode s b) (LockCommand_Magic s) (LockCommand_Version s).
Proof. intros. reflexivity. Qed.

Theorem Server_Decode_Unlock_agrees : forall s b,
  Server_Decode_Unlock s b =
  LockCommand_set_magic_version (LockCommand_Decode s b) (LockCommand_Magic s) (LockCommand_Version s).
Proof. intros. reflexivity. Qed.

(* on the path that reaches the inlined decoder: ProcessParse has checked magic and version, the pooled
   command carries MAGIC/VERSION *)
Theorem Server_Decode_Lock_eq : forall s b,
  LockCommand_Magic s = MAGIC -> LockCommand_Version s = VERSION ->
  nth 0 b 0 = MAGIC -> nth 1 b 0 = VERSION ->
  Server_Decode_Lock s b = LockCommand_Decode s b.
Proof.
  intros s b Hm Hv H0 H1. apply LockCommand_ext; try reflexivity.
  - autounfold with gencodec_proj gencodec_dec; cbv beta iota zeta.
    destruct s; cbn in Hm |- *. rewrite Hm, H0. reflexivity.
  - autounfold with gencodec_proj gencodec_dec; cbv beta iota zeta.
    destruct s; cbn in Hv |- *. rewrite Hv, H1. reflexivity.
Qed.

Theorem Server_Decode_Unlock_eq : forall s b,
  LockCommand_Magic s = MAGIC -> LockCommand_Version s = VERSION ->
  nth 0 b 0 = MAGIC -> nth 1 b 0 = VERSION ->
  Server_Decode_Unlock s b = LockCommand_Decode s b.
Proof.
  intros s b Hm Hv H0 H1. apply LockCommand_ext; try reflexivity.
  - autounfold with gencodec_proj gencodec_dec; cbv beta iota zeta.
    destruct s; cbn in Hm |- *. rewrite Hm, H0. reflexivity.
  - autounfold with gencodec_proj gencodec_dec; cbv beta iota zeta.
    destruct s; cbn in Hv |- *. rewrite Hv, H1. reflexivity.
Qed.

(* the record the inlined result encoder writes: what protocol.NewLockResultCommand would build *)
Definition Server_result_record (command : LockCommand) (result lcount lrcount : N) (data_is_nil : bool)
  : LockResultCommand :=
  mkLockResultCommand MAGIC VERSION (LockCommand_CommandType command) (LockCommand_RequestId command)
    result (if data_is_nil then 0 else LOCK_FLAG_CONTAINS_DATA) (LockCommand_DbId command)
    (LockCommand_LockId command) (LockCommand_LockKey command) lcount (LockCommand_Count command)
    lrcount (LockCommand_Rcount command).

Theorem Server_ResultEncode_eq : forall command result lcount lrcount data_is_nil buf old,
  Server_ResultEncode_args_wf command result lcount lrcount ->
  Server_ResultEncode command result lcount lrcount data_is_nil buf =
  LockResultCommand_Encode (Server_result_record command result lcount lrcount data_is_nil) old.
Proof.
  intros command result lcount lrcount data_is_nil buf old Hwf.
  unfold Server_ResultEncode_args_wf in Hwf. destruct Hwf as (_ & Hr & _ & _).
  unfold Server_result_record.
  autounfold with gencodec_enc gencodec_proj; cbv beta iota zeta.
  rewrite (N.mod_small result 256) by exact Hr.
  destruct data_is_nil; reflexivity.
Qed.

Theorem Server_result_record_wf : forall command result lcount lrcount data_is_nil,
  Server_ResultEncode_args_wf command result lcount lrcount ->
  LockResultCommand_wf (Server_result_record command result lcount lrcount data_is_nil).
Proof.
  intros command result lcount lrcount data_is_nil Hwf.
  unfold Server_ResultEncode_args_wf, LockCommand_wf in Hwf.
  unfold LockResultCommand_wf, Server_result_record.
  autounfold with gencodec_proj; cbv beta iota zeta.
  destruct data_is_nil; intuition; try (vm_compute; reflexivity).
Qed.

(* hence a client decoding the server's inlined encoding gets exactly that record back *)
Corollary Server_ResultEncode_decodes : forall command result lcount lrcount data_is_nil buf s,
  Server_ResultEncode_args_wf command result lcount lrcount ->
  LockResultCommand_Decode s (Server_ResultEncode command result lcount lrcount data_is_nil buf) =
  Server_result_record command result lcount lrcount data_is_nil.
Proof.
  intros. rewrite (Server_ResultEncode_eq _ _ _ _ _ _ buf) by assumption.
  apply LockResultCommand_decode_encode. apply Server_result_record_wf; assumption.
Qed.
