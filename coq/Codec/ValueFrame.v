(* Value frames ("lock data") with property headers: hand-written model of
     protocol.NewLockCommandDataFromBytes / NewLockCommandDataFromString      (builder)
     protocol.NewLock(Result)CommandDataFromOriginBytes, GetValueOffset, GetBytesValue, GetDataProperties (reader)
   (protocol/command.go ~396-470 and ~860-990) and the theorem that the reader recovers what the builder was given.
   Layout: len:4 LE (of everything after these 4 bytes) | stage<<6|type | flag | [plen:2 LE | (code len:2 LE value)*] | value.
   Tie to the Go code: correspondence check (checks/C14.py ValueFrame/ValueProps cases through inst_run). *)
From Coq Require Import NArith ZArith List Lia Bool.
From Slock Require Import Base.Bytes Gen.GenConsts.
Import ListNotations.
Local Open Scope N_scope.

Record vprop := mkVprop { vp_code : N; vp_value : option (list N) }.   (* None = Go nil slice *)

Definition le2 (n : N) : list N := [n mod 256; (N.shiftr n 8) mod 256].
Definition le4 (n : N) : list N :=
  [n mod 256; (N.shiftr n 8) mod 256; (N.shiftr n 16) mod 256; (N.shiftr n 24) mod 256].

Definition vprop_len (p : vprop) : N :=
  match vp_value p with None => 3 | Some v => N.of_nat (length v) + 3 end.

Definition vprop_bytes (p : vprop) : list N :=
  match vp_value p with
  | None => [vp_code p; 0; 0]
  | Some v => [vp_code p; N.of_nat (length v) mod 256; (N.shiftr (N.of_nat (length v)) 8) mod 256] ++ v
  end.

Definition vprops_len (ps : list vprop) : N := fold_right (fun p a => vprop_len p + a) 0 ps.

(* NewLockCommandDataFromBytes(data, stage, type, flag, properties): returns (Data, CommandStage, CommandType, DataFlag) *)
Definition frame_build (data : list N) (stage typ flag : N) (props : option (list vprop)) : list N * N * N * N :=
  let plen := match props with None => 0 | Some ps => vprops_len ps end in
  let dlen := N.of_nat (length data) + 2 + match props with None => 0 | Some _ => plen + 2 end in
  let flag' := match props with None => flag | Some _ => N.lor flag LOCK_DATA_FLAG_CONTAINS_PROPERTY end in
  (le4 dlen ++ [N.lor ((N.shiftl stage 6) mod 256) (N.land typ 63); flag'] ++
   match props with None => [] | Some ps => le2 plen ++ concat (map vprop_bytes ps) end ++ data,
   stage, typ, flag').

(* reader *)
Definition frame_stage (f : list N) : N := N.shiftr (nth 4 f 0) 6.
Definition frame_type (f : list N) : N := N.land (nth 4 f 0) 63.
Definition frame_flag (f : list N) : N := nth 5 f 0.
Definition frame_has_props (f : list N) : bool :=
  negb (N.land (frame_flag f) LOCK_DATA_FLAG_CONTAINS_PROPERTY =? 0).
Definition frame_plen (f : list N) : N := nth 6 f 0 + 256 * nth 7 f 0.
(* GetValueOffset (LockResultCommandData, bounded since /repo 22baf83): an offset beyond the frame is clamped to the
   frame length; the option type is kept for the callers, the result is always Some *)
Definition frame_value_offset (f : list N) : option N :=
  if frame_has_props f then
    if N.of_nat (length f) <? 8 then Some (N.of_nat (length f))
    else if N.of_nat (length f) <? frame_plen f + 8 then Some (N.of_nat (length f)) else Some (frame_plen f + 8)
  else if N.of_nat (length f) <? 6 then Some (N.of_nat (length f)) else Some 6.
(* Data[GetValueOffset():] *)
Definition frame_value (f : list N) : option (list N) :=
  match frame_value_offset f with
  | None => None
  | Some o => if N.of_nat (length f) <? o then None else Some (skipn (N.to_nat o) f)
  end.

(* GetDataProperties: the loop `for index < propertyLen`; a property that does not fit into the frame ends the loop
   (`break`, /repo 22baf83) and the properties read so far are returned *)
Fixpoint parse_props (fuel : nat) (f : list N) (plen index : N) : option (list vprop) :=
  match fuel with
  | O => Some []
  | S k =>
      if index <? plen then
        if N.of_nat (length f) <? 11 + index then Some []
        else
          let code := nth (N.to_nat (8 + index)) f 0 in
          let n := nth (N.to_nat (9 + index)) f 0 + 256 * nth (N.to_nat (10 + index)) f 0 in
          if 0 <? n then
            if N.of_nat (length f) <? 11 + index + n then Some []
            else
              match parse_props k f plen (index + n + 3) with
              | Some r => Some (mkVprop code (Some (firstn (N.to_nat n) (skipn (N.to_nat (11 + index)) f))) :: r)
              | None => None
              end
          else
            match parse_props k f plen (index + n + 3) with
            | Some r => Some (mkVprop code None :: r)
            | None => None
            end
      else Some []
  end.

(* Some None = the flag says "no properties" (Go returns nil); a frame too short for the property header has no
   properties (empty, non-nil slice) *)
Definition frame_props (f : list N) : option (option (list vprop)) :=
  if frame_has_props f then
    if N.of_nat (length f) <? 8 then Some (Some [])
    else match parse_props (S (N.to_nat (frame_plen f))) f (frame_plen f) 0 with
         | Some r => Some (Some r)
         | None => None
         end
  else Some None.

(* what the reader hands back for a property: an empty value is indistinguishable from nil *)
Definition vprop_norm (p : vprop) : vprop :=
  match vp_value p with
  | Some [] => mkVprop (vp_code p) None
  | _ => p
  end.

Definition vprop_ok (p : vprop) : Prop :=
  match vp_value p with None => True | Some v => N.of_nat (length v) < 65536 end.

(* ------------------------------------------------------------------ proofs *)

Lemma le2_small n : n < 65536 -> nth 0 (le2 n) 0 + 256 * nth 1 (le2 n) 0 = n.
Proof. intros. unfold le2. cbn [nth]. rewrite N.shiftr_div_pow2. change (2^8) with 256. dlia. Qed.

Lemma vprop_bytes_length p : N.of_nat (length (vprop_bytes p)) = vprop_len p.
Proof.
  unfold vprop_bytes, vprop_len. destruct (vp_value p); simpl length; lia.
Qed.

Lemma vprops_bytes_length ps : N.of_nat (length (concat (map vprop_bytes ps))) = vprops_len ps.
Proof.
  induction ps; simpl; auto. rewrite app_length, Nnat.Nat2N.inj_add, vprop_bytes_length, IHps. reflexivity.
Qed.

Lemma nth_app_at (pre : list N) x rest k : k = length pre -> nth k (pre ++ x :: rest) 0 = x.
Proof. intros ->. rewrite app_nth2 by lia. rewrite Nat.sub_diag. reflexivity. Qed.

Lemma skipn_app_at (pre rest : list N) k : k = length pre -> skipn k (pre ++ rest) = rest.
Proof. intros ->. rewrite skipn_app, skipn_all, Nat.sub_diag. reflexivity. Qed.

Lemma nth_app_plus (pre l : list N) k j : k = (length pre + j)%nat -> nth k (pre ++ l) 0 = nth j l 0.
Proof. intros ->. rewrite app_nth2_plus. reflexivity. Qed.

Lemma skipn_app_plus (pre l : list N) k j : k = (length pre + j)%nat -> skipn k (pre ++ l) = skipn j l.
Proof. intros ->. rewrite skipn_app. rewrite skipn_all2 by lia. replace (length pre + j - length pre)%nat with j by lia. reflexivity. Qed.

Lemma firstn_app_at (v rest : list N) k : k = length v -> firstn k (v ++ rest) = v.
Proof. intros ->. rewrite firstn_app, Nat.sub_diag, firstn_all. simpl. apply app_nil_r. Qed.

Lemma parse_props_build : forall ps fuel pre suf idx,
  Forall vprop_ok ps ->
  N.of_nat (length pre) = 8 + idx ->
  (length ps < fuel)%nat ->
  parse_props fuel (pre ++ concat (map vprop_bytes ps) ++ suf) (idx + vprops_len ps) idx
  = Some (map vprop_norm ps).
Proof.
  induction ps as [|p ps IH]; intros fuel pre suf idx Hok Hpre Hfuel.
  - destruct fuel; [simpl in Hfuel; lia|]. simpl. rewrite N.add_0_r, N.ltb_irrefl. reflexivity.
  - destruct fuel as [|fuel]; [simpl in Hfuel; lia|].
    inversion Hok as [|? ? Hp Hps]; subst.
    change (vprops_len (p :: ps)) with (vprop_len p + vprops_len ps).
    cbn [parse_props map concat].
    assert (Hlt : idx <? idx + (vprop_len p + vprops_len ps) = true).
    { apply N.ltb_lt. unfold vprop_len. destruct (vp_value p); lia. }
    rewrite Hlt.
    set (f := pre ++ (vprop_bytes p ++ concat (map vprop_bytes ps)) ++ suf).
    assert (Hlen : N.of_nat (length f) = 8 + idx + vprop_len p + vprops_len ps + N.of_nat (length suf)).
    { unfold f. rewrite !app_length, !Nnat.Nat2N.inj_add, vprop_bytes_length, vprops_bytes_length. lia. }
    assert (Hshort : N.of_nat (length f) <? 11 + idx = false).
    { apply N.ltb_ge. rewrite Hlen. unfold vprop_len. destruct (vp_value p); lia. }
    rewrite Hshort.
    (* rebracket so that the next recursive call sees its prefix *)
    assert (Hf : f = (pre ++ vprop_bytes p) ++ concat (map vprop_bytes ps) ++ suf).
    { unfold f. rewrite <- !app_assoc. reflexivity. }
    assert (Hrec : parse_props fuel f (idx + (vprop_len p + vprops_len ps)) (idx + vprop_len p)
                   = Some (map vprop_norm ps)).
    { rewrite Hf. replace (idx + (vprop_len p + vprops_len ps)) with ((idx + vprop_len p) + vprops_len ps) by lia.
      apply IH; auto.
      - rewrite app_length, Nnat.Nat2N.inj_add, vprop_bytes_length. lia.
      - simpl in Hfuel. lia. }
    unfold vprop_bytes, vprop_len, vprop_norm, vprop_ok in *.
    destruct p as [code [v|]]; cbn [vp_code vp_value] in *.
    + (* value present *)
      assert (E8 : nth (N.to_nat (8 + idx)) f 0 = code).
      { unfold f. cbn [app]. rewrite (nth_app_plus pre _ _ 0) by lia. reflexivity. }
      assert (E9 : nth (N.to_nat (9 + idx)) f 0 = N.of_nat (length v) mod 256).
      { unfold f. cbn [app]. rewrite (nth_app_plus pre _ _ 1) by lia. reflexivity. }
      assert (E10 : nth (N.to_nat (10 + idx)) f 0 = (N.shiftr (N.of_nat (length v)) 8) mod 256).
      { unfold f. cbn [app]. rewrite (nth_app_plus pre _ _ 2) by lia. reflexivity. }
      rewrite E8, E9, E10.
      assert (En : N.of_nat (length v) mod 256 + 256 * (N.shiftr (N.of_nat (length v)) 8 mod 256) = N.of_nat (length v)).
      { rewrite N.shiftr_div_pow2. change (2^8) with 256. dlia. }
      rewrite En.
      replace (idx + N.of_nat (length v) + 3) with (idx + (N.of_nat (length v) + 3)) by lia.
      rewrite Hrec.
      destruct v as [|b v].
      * simpl. reflexivity.
      * assert (Hpos : 0 <? N.of_nat (length (b :: v)) = true) by (apply N.ltb_lt; simpl; lia).
        rewrite Hpos.
        assert (Hfit : N.of_nat (length f) <? 11 + idx + N.of_nat (length (b :: v)) = false).
        { apply N.ltb_ge. rewrite Hlen. lia. }
        rewrite Hfit.
        unfold f. cbn [app].
        rewrite (skipn_app_plus pre _ _ 3) by lia. cbn [skipn app].
        rewrite Nnat.Nat2N.id. rewrite <- ?app_assoc.
        match goal with
        | |- context[firstn ?k (b :: v ++ ?rest)] =>
            change (b :: v ++ rest) with ((b :: v) ++ rest);
            rewrite (firstn_app_at (b :: v) rest k) by lia
        end.
        reflexivity.
    + (* nil value *)
      assert (E8 : nth (N.to_nat (8 + idx)) f 0 = code).
      { unfold f. cbn [app]. rewrite (nth_app_plus pre _ _ 0) by lia. reflexivity. }
      assert (E9 : nth (N.to_nat (9 + idx)) f 0 = 0).
      { unfold f. cbn [app]. rewrite (nth_app_plus pre _ _ 1) by lia. reflexivity. }
      assert (E10 : nth (N.to_nat (10 + idx)) f 0 = 0).
      { unfold f. cbn [app]. rewrite (nth_app_plus pre _ _ 2) by lia. reflexivity. }
      rewrite E8, E9, E10. simpl (0 + 256 * 0). simpl (0 <? 0).
      replace (idx + 0 + 3) with (idx + 3) by lia.
      rewrite Hrec. reflexivity.
Qed.

Lemma vprops_len_ge ps : N.of_nat (length ps) <= vprops_len ps.
Proof.
  induction ps as [|p ps IH]; simpl; [lia|]. unfold vprop_len at 1. destruct (vp_value p); lia.
Qed.

Lemma has_property_bit a : N.land (N.lor a LOCK_DATA_FLAG_CONTAINS_PROPERTY) LOCK_DATA_FLAG_CONTAINS_PROPERTY =? 0 = false.
Proof.
  apply N.eqb_neq. intro H. apply (f_equal (fun x => N.testbit x 4)) in H.
  rewrite N.land_spec, N.lor_spec in H. unfold LOCK_DATA_FLAG_CONTAINS_PROPERTY in H.
  change (N.testbit 16 4) with true in H. rewrite orb_true_r in H. simpl in H. discriminate.
Qed.

Definition frame_of (r : list N * N * N * N) : list N := fst (fst (fst r)).

(* with properties: the reader returns the properties (empty values read back as nil) and the value *)
Theorem frame_build_read_props : forall data stage typ flag ps,
  Forall vprop_ok ps -> vprops_len ps < 65536 ->
  let f := frame_of (frame_build data stage typ flag (Some ps)) in
  frame_props f = Some (Some (map vprop_norm ps)) /\ frame_value f = Some data.
Proof.
  intros data stage typ flag ps Hok Hlen f.
  set (plen := vprops_len ps) in *.
  set (dlen := N.of_nat (length data) + 2 + (plen + 2)).
  set (hd6 := le4 dlen ++ [N.lor ((N.shiftl stage 6) mod 256) (N.land typ 63); N.lor flag LOCK_DATA_FLAG_CONTAINS_PROPERTY]).
  assert (Hf : f = (hd6 ++ le2 plen) ++ concat (map vprop_bytes ps) ++ data).
  { unfold f, frame_of, frame_build, hd6. cbn [fst]. fold plen. rewrite <- !app_assoc. reflexivity. }
  assert (Hflag : frame_flag f = N.lor flag LOCK_DATA_FLAG_CONTAINS_PROPERTY) by (rewrite Hf; reflexivity).
  assert (Hhas : frame_has_props f = true).
  { unfold frame_has_props. rewrite Hflag, has_property_bit. reflexivity. }
  assert (Hpl : frame_plen f = plen).
  { unfold frame_plen. rewrite Hf. cbn [hd6 le4 app nth]. apply (le2_small plen Hlen). }
  assert (Hlf : N.of_nat (length f) = 8 + plen + N.of_nat (length data)).
  { rewrite Hf, !app_length, !Nnat.Nat2N.inj_add, vprops_bytes_length. fold plen. simpl length. lia. }
  assert (H8 : N.of_nat (length f) <? 8 = false) by (apply N.ltb_ge; lia).
  split.
  - unfold frame_props. rewrite Hhas, H8, Hpl.
    pose proof (parse_props_build ps (S (N.to_nat plen)) (hd6 ++ le2 plen) data 0 Hok) as Hp.
    rewrite <- Hf in Hp. change (0 + vprops_len ps) with plen in Hp.
    rewrite Hp; auto.
    pose proof (vprops_len_ge ps) as Hg. fold plen in Hg. lia.
  - unfold frame_value, frame_value_offset. rewrite Hhas, H8, Hpl.
    assert (Ho : N.of_nat (length f) <? plen + 8 = false) by (apply N.ltb_ge; lia).
    rewrite Ho. cbv beta iota. rewrite Ho. f_equal. rewrite Hf, app_assoc. apply skipn_app_at.
    rewrite app_length. apply Nnat.Nat2N.inj. rewrite Nnat.N2Nat.id, Nnat.Nat2N.inj_add, vprops_bytes_length.
    fold plen. simpl length. lia.
Qed.

(* without properties (and without the property bit in the caller's flag) the value starts at offset 6 *)
Theorem frame_build_read_plain : forall data stage typ flag,
  N.land flag LOCK_DATA_FLAG_CONTAINS_PROPERTY = 0 ->
  let f := frame_of (frame_build data stage typ flag None) in
  frame_props f = Some None /\ frame_value f = Some data.
Proof.
  intros data stage typ flag Hbit f.
  assert (Hflag : frame_flag f = flag) by reflexivity.
  assert (Hhas : frame_has_props f = false).
  { unfold frame_has_props. rewrite Hflag, Hbit. reflexivity. }
  split.
  - unfold frame_props. rewrite Hhas. reflexivity.
  - unfold frame_value, frame_value_offset. rewrite Hhas.
    unfold f, frame_of, frame_build. cbn [fst app le4 length]. 
    assert (Ho : N.of_nat (S (S (S (S (S (S (length data))))))) <? 6 = false) by (apply N.ltb_ge; lia).
    rewrite Ho. cbv beta iota. rewrite Ho. reflexivity.
Qed.

(* stage and type survive the packing into byte 4 *)
Theorem frame_build_read_header : forall data stage typ flag props,
  stage < 4 ->
  let f := frame_of (frame_build data stage typ flag props) in
  frame_stage f = stage /\ frame_type f = typ mod 64.
Proof.
  intros data stage typ flag props Hs f.
  assert (H4 : nth 4 f 0 = N.lor ((N.shiftl stage 6) mod 256) (N.land typ 63)) by reflexivity.
  unfold frame_stage, frame_type. rewrite H4.
  change 63 with (N.ones 6). rewrite N.land_ones.
  rewrite N.shiftl_mul_pow2. change (2^6) with 64.
  rewrite (N.mod_small (stage * 64) 256) by lia.
  rewrite N.lor_comm.
  assert (Hm : typ mod 64 < 64) by (apply N.mod_upper_bound; discriminate).
  rewrite (lor_mul_add (typ mod 64) stage 64 6 eq_refl Hm).
  split.
  - rewrite N.shiftr_div_pow2. change (2^6) with 64. dlia.
  - change (N.ones 6) with 63. change 63 with (N.ones 6). rewrite N.land_ones. change (2^6) with 64. dlia.
Qed.

(* the 4-byte length prefix counts everything after itself *)
Theorem frame_build_length_prefix : forall data stage typ flag props,
  let f := frame_of (frame_build data stage typ flag props) in
  N.of_nat (length f) < 4294967296 ->
  nth 0 f 0 + 256 * nth 1 f 0 + 65536 * nth 2 f 0 + 16777216 * nth 3 f 0 = N.of_nat (length f) - 4.
Proof.
  intros data stage typ flag props f Hlen.
  set (plen := match props with None => 0 | Some ps => vprops_len ps end).
  set (dlen := N.of_nat (length data) + 2 + match props with None => 0 | Some _ => plen + 2 end).
  assert (Hd : N.of_nat (length f) = dlen + 4).
  { unfold f, frame_of, frame_build, dlen, plen. cbn [fst].
    rewrite !app_length, !Nnat.Nat2N.inj_add. cbn [le4 length].
    destruct props as [ps|]; rewrite ?app_length, ?Nnat.Nat2N.inj_add, ?vprops_bytes_length; simpl length; lia. }
  assert (H0 : nth 0 f 0 = dlen mod 256) by reflexivity.
  assert (H1 : nth 1 f 0 = (N.shiftr dlen 8) mod 256) by reflexivity.
  assert (H2 : nth 2 f 0 = (N.shiftr dlen 16) mod 256) by reflexivity.
  assert (H3 : nth 3 f 0 = (N.shiftr dlen 24) mod 256) by reflexivity.
  rewrite H0, H1, H2, H3, Hd. rewrite !N.shiftr_div_pow2.
  change (2^8) with 256. change (2^16) with 65536. change (2^24) with 16777216.
  assert (dlen < 4294967296) by lia.
  replace (dlen + 4 - 4) with dlen by lia.
  apply (via_split4 dlen); [assumption|]. ring.
Qed.

(* ------------------------------------------------------------------ glue for the correspondence check *)

Definition inst_fld (l : list (list N)) (k : nat) : list N := nth k l [].
Definition inst_num (l : list (list N)) (k : nat) : N := nth 0 (inst_fld l k) 0.

Fixpoint inst_props (l : list (list N)) (k : nat) (n : nat) : list vprop :=
  match n with
  | O => []
  | S n' => mkVprop (inst_num l k) (match inst_fld l (S k) with [] => None | v => Some v end)
            :: inst_props l (S (S k)) n'
  end.

(* args: stage, type, flag, data, nprops (empty = nil properties), (code, value)* *)
Definition run_value_frame (args : list (list N)) : N * list (list N) :=
  let props := match inst_fld args 4 with
               | [] => None
               | n :: _ => Some (inst_props args 5 (N.to_nat n))
               end in
  match frame_build (inst_fld args 3) (inst_num args 0) (inst_num args 1) (inst_num args 2) props with
  | (f, st, ty, fl) => (0, [f; [st]; [ty]; [fl]])
  end.

Definition props_fields (ps : list vprop) : list (list N) :=
  flat_map (fun p => [[vp_code p]; match vp_value p with None => [] | Some v => v end]) ps.

(* reader on an arbitrary frame: outcome 2 = some index/slice expression panics *)
Definition run_value_props (f : list N) : N * list (list N) :=
  if N.of_nat (length f) <? 6 then (2, [])
  else match frame_value_offset f, frame_value f, frame_props f with
       | Some o, Some v, Some ps =>
           (0, [[frame_stage f]; [frame_type f]; [frame_flag f]; [o]; v;
                match ps with None => [] | Some l => [N.of_nat (length l)] end]
               ++ match ps with None => [] | Some l => props_fields l end)
       | _, _, _ => (2, [])
       end.
