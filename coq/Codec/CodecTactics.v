(* Tactics closing the round-trip obligations of the generated fixed-layout codecs (Gen/GenCodecs.v).
   One fixed library: nothing here is specific to a command type. *)
From Coq Require Import NArith ZArith List Lia Bool.
From Slock Require Import Base.Bytes Gen.GenPrelude Gen.GenConsts Gen.GenCodecs.
Import ListNotations.
Local Open Scope N_scope.

(* unfold generated definitions / projections, reduce record matches and list look-ups at literal positions *)
Ltac unfold_all := autounfold with gencodec_proj gencodec_enc gencodec_dec; cbv beta iota zeta; cbn [nth].
Ltac unfold_wf_in H := autounfold with gencodec_wf gencodec_proj in H; cbv beta iota zeta in H.
(* staged: field F of (Decode s (Encode m old)) -- first select the field, then the bytes it reads *)
Ltac unfold_dec_then_enc :=
  autounfold with gencodec_proj gencodec_dec; cbv beta iota zeta;
  autounfold with gencodec_enc; cbn [nth];
  autounfold with gencodec_proj; cbv beta iota zeta.
(* staged: byte k of Encode (Decode s b) old -- first select the byte, then the fields it reads *)
Ltac unfold_enc_then_dec :=
  autounfold with gencodec_enc; cbn [nth];
  autounfold with gencodec_proj gencodec_dec; cbv beta iota zeta; cbn [nth].

(* [a0; ..; a(n-1)] built from nth i l = l *)
Ltac solve_array :=
  lazymatch goal with
  | |- _ = ?l =>
      match goal with
      | H : length l = ?n |- _ => exact (nth_eta n l H)
      end
  end.

(* numeric field:  join (split x) = x *)
Ltac solve_numeric :=
  byte_norm;
  first
    [ reflexivity
    | lazymatch goal with
      | |- ?L = ?x =>
          match goal with
          | H : x < 65536 |- _ => apply (via_split2 x L H); reflexivity
          | H : x < 4294967296 |- _ => apply (via_split4 x L H); reflexivity
          | H : x < 18446744073709551616 |- _ => apply (via_split8 x L H); reflexivity
          end
      end
    | lazymatch goal with
      | |- ?L = ?x =>
          match goal with
          | H : x < 65536 |- _ => apply (via_split2 x L H); ring
          | H : x < 4294967296 |- _ => apply (via_split4 x L H); ring
          | H : x < 18446744073709551616 |- _ => apply (via_split8 x L H); ring
          end
      end
    | dlia ].

Ltac split_ands :=
  repeat match goal with
  | H : _ /\ _ |- _ => destruct H
  end.

(* Decode (Encode m old) = m, for records whose every field is assigned by Decode.
   Usage: intros m s old Hwf; destruct m; dec_enc T_ext Hwf. *)
Ltac dec_enc ext Hwf :=
  unfold_wf_in Hwf; split_ands;
  apply ext; unfold_dec_then_enc;
  first [ solve_array | solve_numeric ].

(* bounds of the bytes of buffer b that occur in the goal, then forget b *)
Ltac abstract_bytes b Hb :=
  repeat match goal with
  | |- context[nth ?i b 0] =>
      let v := fresh "v" in
      let Hv := fresh "Hv" in
      pose proof (Forall_nth_byte b i Hb) as Hv;
      set (v := nth i b 0) in *; clearbody v
  end.

(* one byte of Encode (Decode b):  after unfolding, an arithmetic identity on the bytes of b *)
Ltac solve_byte b Hb :=
  unfold_enc_then_dec;
  first
    [ reflexivity
    | abstract_bytes b Hb; clear Hb; byte_norm; first [ reflexivity | dlia ] ].

(* split  In i [a; b; ...]  into cases *)
Ltac in_cases H :=
  simpl in H;
  repeat (destruct H as [H|H]; [subst|]);
  [ .. | contradiction H ].
