(* Bridge between the hand-written AOF record model of the persistence properties (coq/Aof/AofRec.v: aofrec,
   encode, decode) and the GENERATED transcription of server/aof.go AofLock.Encode/Decode (Gen/GenCodecs.v).
   With these equalities the theorems of C07/C08/C16 that are stated over Aof.AofRec speak about the byte layout the
   source has *now*: if an offset, width or byte order changes in aof.go, this file stops compiling.
   Not part of the C14 cone (nothing in Properties/C14.v depends on it). *)
From Coq Require Import NArith ZArith List Lia Bool.
From Slock Require Import Base.Bytes Gen.GenPrelude Gen.GenConsts Gen.GenCodecs Codec.CodecTactics.
From Slock Require Aof.AofRec.
From Slock Require Codec.AofRec.
Import ListNotations.
Local Open Scope N_scope.

Module A := Slock.Aof.AofRec.

Definition to_gen (r : A.aofrec) : AofLock :=
  mkAofLock (A.r_type r) (A.r_index r) (A.r_offset r) (A.r_ctime r) (A.r_flag r) (A.r_db r) (A.r_lockid r) (A.r_key r)
            (A.r_aofflag r) (A.r_start r) (A.r_eflag r) (A.r_etime r) (A.r_count r) (A.r_rcount r).

Definition of_gen (m : AofLock) : A.aofrec :=
  A.mkrec (AofLock_CommandType m) (AofLock_AofOffset m) (AofLock_AofIndex m) (AofLock_CommandTime m) (AofLock_Flag m)
          (AofLock_DbId m) (AofLock_LockId m) (AofLock_LockKey m) (AofLock_StartTime m) (AofLock_AofFlag m)
          (AofLock_ExpriedTime m) (AofLock_ExpriedFlag m) (AofLock_Count m) (AofLock_Rcount m).

Lemma of_to_gen r : of_gen (to_gen r) = r.
Proof. destruct r; reflexivity. Qed.

Lemma wf_bridge r : A.wf_rec r -> Forall (fun x => x < 256) (A.r_lockid r) -> Forall (fun x => x < 256) (A.r_key r) ->
  AofLock_wf (to_gen r).
Proof.
  unfold A.wf_rec, AofLock_wf, to_gen. autounfold with gencodec_proj. cbv beta iota zeta.
  change (2^32) with 4294967296. change (2^64) with 18446744073709551616. change (2^16) with 65536.
  intuition.
Qed.

(* the constants the hand model declares are the ones of the source *)
Lemma consts_bridge :
  A.AOF_FLAG_CONTAINS_DATA = AOF_FLAG_CONTAINS_DATA /\
  A.EXPRIED_FLAG_MINUTE_TIME = EXPRIED_FLAG_MINUTE_TIME /\
  A.EXPRIED_FLAG_MILLISECOND_TIME = EXPRIED_FLAG_MILLISECOND_TIME /\
  A.EXPRIED_FLAG_UNLIMITED_EXPRIED_TIME = EXPRIED_FLAG_UNLIMITED_EXPRIED_TIME.
Proof. repeat split. Qed.

Lemma nth_skipn' (l : list N) off i : nth i (skipn off l) 0 = nth (off + i) l 0.
Proof. revert l. induction off; intros [|a l]; simpl; auto. destruct i; reflexivity. Qed.

Lemma nth_firstn' (l : list N) len i : (i < len)%nat -> nth i (firstn len l) 0 = nth i l 0.
Proof.
  revert l i. induction len; intros l i H; [lia|]. destruct l as [|a l]; simpl; auto.
  destruct i; simpl; auto. apply IHlen. lia.
Qed.

Lemma sub_nths (b : list N) off len : (off + len <= length b)%nat ->
  A.sub b off len = map (fun i => nth (off + i) b 0) (seq 0 len).
Proof.
  intros H. unfold A.sub. apply (nth_ext _ _ 0 0).
  - rewrite firstn_length, skipn_length, map_length, seq_length. lia.
  - intros i Hi. rewrite firstn_length, skipn_length in Hi.
    rewrite nth_firstn' by lia. rewrite nth_skipn'.
    assert (Hi' : (i < len)%nat) by lia.
    rewrite (nth_indep (map (fun i0 => nth (off + i0) b 0) (seq 0 len)) 0 (nth (off + 0) b 0))
      by (rewrite map_length, seq_length; exact Hi').
    rewrite (map_nth (fun i0 => nth (off + i0) b 0) (seq 0 len) 0%nat i), seq_nth by exact Hi'. reflexivity.
Qed.

(* Decode: the generated decoder and the hand model read the same fields from any 64-byte buffer *)
Theorem decode_bridge : forall b s, length b = 64%nat -> bytes b -> of_gen (AofLock_Decode s b) = A.decode b.
Proof.
  intros b s Hl Hb. unfold A.decode, of_gen.
  rewrite !sub_nths by (rewrite Hl; simpl; lia).
  cbn [map seq Nat.add A.unle A.nthb].
  autounfold with gencodec_proj gencodec_dec. cbv beta iota zeta.
  f_equal.
  all: try reflexivity.
  all: abstract_bytes b Hb; clear Hb Hl; byte_norm; try reflexivity; lia.
Qed.

(* Encode: bytes 2..63 of the hand model's encoding are what AofLock.Encode writes (bytes 0,1 - the length prefix
   62,0 - are written by AofFile.WriteLock/AppendLock, not by Encode) *)
Theorem encode_bridge : forall r old, A.wf_rec r ->
  forall i, (2 <= i < 64)%nat -> nth i (AofLock_Encode (to_gen r) old) 0 = nth i (A.encode r) 0.
Proof.
  intros r old (Ht & Ho & Hi & Hc & Hf & Hd & Hlid & Hkey & Hs & Ha & He & Hef & Hcn & Hr) i Hrange.
  destruct r as [ty off idx ct fl db lid key st af et ef cn rc]; cbn [A.r_type A.r_offset A.r_index A.r_ctime A.r_flag
    A.r_db A.r_lockid A.r_key A.r_start A.r_aofflag A.r_etime A.r_eflag A.r_count A.r_rcount] in *.
  destruct (A.list16 lid Hlid) as (l0&l1&l2&l3&l4&l5&l6&l7&l8&l9&l10&l11&l12&l13&l14&l15&->).
  destruct (A.list16 key Hkey) as (k0&k1&k2&k3&k4&k5&k6&k7&k8&k9&k10&k11&k12&k13&k14&k15&->).
  unfold A.encode, to_gen. cbn [A.le app A.r_type A.r_offset A.r_index A.r_ctime A.r_flag
    A.r_db A.r_lockid A.r_key A.r_start A.r_aofflag A.r_etime A.r_eflag A.r_count A.r_rcount].
  autounfold with gencodec_enc gencodec_proj. cbv beta iota zeta.
  rewrite !N.div_div by discriminate. fold_const_muls.
  rewrite !N.shiftr_div_pow2. pow_consts.
  change (2^32) with 4294967296 in *. change (2^64) with 18446744073709551616 in *. change (2^16) with 65536 in *.
  rewrite ?(N.mod_small ty 256), ?(N.mod_small fl 256), ?(N.mod_small db 256), ?(N.mod_small rc 256) by assumption.
  do 2 (destruct i as [|i]; [lia|]).
  do 62 (destruct i as [|i]; [reflexivity|]). lia.
Qed.

(* hence the round trip of the hand model is the round trip of the source's codec *)
Corollary decode_encode_via_generated : forall r old,
  A.wf_rec r -> Forall (fun x => x < 256) (A.r_lockid r) -> Forall (fun x => x < 256) (A.r_key r) ->
  of_gen (AofLock_Decode (to_gen r) (AofLock_Encode (to_gen r) old)) = r.
Proof.
  intros r old Hwf H1 H2. rewrite Slock.Codec.AofRec.AofLock_decode_encode by (apply wf_bridge; assumption).
  apply of_to_gen.
Qed.
