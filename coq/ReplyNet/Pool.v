(* Ownership of command objects between lock records, per-connection free lists and replies in flight
   (connection-level half of C03; see harness/replynet/STATUS.md).

   What is modelled (server/db.go, server/protocol.go):
   - a request of connection c is decoded INTO a command object popped from c's connection-local LIFO free list
     (BinaryServerProtocol.freeCommands), or a fresh one when the list is empty;
   - a granted LOCK with Expried > 0 publishes its object in the lock record and leaves a reply IN FLIGHT: the
     granting goroutine has released the shard mutex and will read the object's fields when it gets the addressee
     connection's write mutex (ADeliver);
   - an UNLOCK with the unlock-first flag removes the oldest hold, is answered at once, and frees two objects:
     the removed hold's (policy below) and its own;
   - [guard_free = false] is the code: the hold's object goes onto the RELEASER's free list, whoever may still read it;
     [guard_free = true] is the discipline "a free returns the object to the list of the connection that allocated it
     and only after its last reader" (an object still referenced by a reply in flight is not recycled);
   - [snapshot = true] is the proposed repair: the reply is built from a copy taken while the shard mutex was held.
   RequestIds stand for the whole field set of a command.  Free lists are one list of (connection, object) pairs;
   the per-connection LIFO order is the order of the pairs of that connection. *)
From Coq Require Import List Arith Lia Bool.
Import ListNotations.

Definition conn := nat.
Definition obj := nat.
Definition rid := nat.

Record pend := mkPend { p_to : conn; p_obj : obj; p_expect : rid; p_snap : rid }.

Record state := mkState {
  store : obj -> rid;               (* current content of every command object *)
  free : list (conn * obj);         (* connection-local free lists *)
  next : obj;                       (* allocation frontier: objects >= next do not exist yet *)
  holds : list (obj * conn);        (* lock records, oldest first: command object, owner connection *)
  pending : list pend;              (* replies in flight *)
  out : list (conn * rid);          (* frames written: addressee, RequestId read *)
  sent : list (conn * rid) }.       (* requests received: connection, RequestId *)

Record config := mkConfig { guard_free : bool; snapshot : bool }.

Fixpoint pop (c : conn) (l : list (conn * obj)) : option (obj * list (conn * obj)) :=
  match l with
  | [] => None
  | (c', o) :: t =>
      if Nat.eqb c c' then Some (o, t)
      else match pop c t with
           | Some (o', t') => Some (o', (c', o) :: t')
           | None => None
           end
  end.

Definition alloc (c : conn) (s : state) : obj * list (conn * obj) * obj :=
  match pop c (free s) with
  | Some (o, f') => (o, f', next s)
  | None => (next s, free s, S (next s))
  end.

Definition upd (f : obj -> rid) (o : obj) (r : rid) : obj -> rid :=
  fun x => if Nat.eqb x o then r else f x.

Definition referenced (o : obj) (ps : list pend) : bool :=
  existsb (fun p => Nat.eqb (p_obj p) o) ps.

Fixpoint remove_nth {A} (i : nat) (l : list A) : list A :=
  match l, i with
  | [], _ => []
  | _ :: t, 0 => t
  | h :: t, S j => h :: remove_nth j t
  end.

Inductive action :=
| ALock (c : conn) (r : rid)         (* LOCK on c, granted with Expried > 0; its reply stays in flight *)
| AUnlockFirst (c : conn) (r : rid)  (* UNLOCK with the unlock-first flag on c: removes the oldest hold *)
| ADeliver (i : nat).                (* the i-th reply in flight is built and written *)

Definition step (cfg : config) (s : state) (a : action) : state :=
  match a with
  | ALock c r =>
      let '(o, f', n') := alloc c s in
      mkState (upd (store s) o r) f' n' (holds s ++ [(o, c)])
              (pending s ++ [mkPend c o r r]) (out s) ((c, r) :: sent s)
  | AUnlockFirst c r =>
      let '(o, f', n') := alloc c s in
      let st' := upd (store s) o r in
      match holds s with
      | [] => mkState st' ((c, o) :: f') n' [] (pending s) ((c, r) :: out s) ((c, r) :: sent s)
      | (h, owner) :: rest =>
          let f'' := if guard_free cfg
                     then (if referenced h (pending s) then f' else (owner, h) :: f')
                     else (c, h) :: f' in
          mkState st' ((c, o) :: f'') n' rest (pending s) ((c, r) :: out s) ((c, r) :: sent s)
      end
  | ADeliver i =>
      match nth_error (pending s) i with
      | None => s
      | Some p =>
          mkState (store s) (free s) (next s) (holds s) (remove_nth i (pending s))
                  ((p_to p, if snapshot cfg then p_snap p else store s (p_obj p)) :: out s) (sent s)
      end
  end.

Definition run (cfg : config) (s : state) (tr : list action) : state := fold_left (step cfg) tr s.

Definition init : state := mkState (fun _ => 0) [] 0 [] [] [] [].

Definition code_cfg := mkConfig false false.        (* the code as it is *)
Definition discipline_cfg := mkConfig true false.   (* frees only after the last reader, to the allocating connection *)
Definition repaired_cfg := mkConfig false true.     (* proposed_fixes/c03net_free_command.diff *)

(* ------------------------------------------------------------------ the invariant *)

Record Inv (cfg : config) (s : state) : Prop := {
  i_nodup : NoDup (map snd (free s));
  i_free_lt : forall c o, In (c, o) (free s) -> o < next s;
  i_holds_nodup : NoDup (map fst (holds s));
  i_holds : forall o c, In (o, c) (holds s) -> o < next s /\ ~ In o (map snd (free s));
  i_pend : forall p, In p (pending s) ->
      In (p_to p, p_expect p) (sent s) /\ p_snap p = p_expect p /\
      (snapshot cfg = false ->
       p_obj p < next s /\ ~ In (p_obj p) (map snd (free s)) /\ store s (p_obj p) = p_expect p);
  i_out : forall x, In x (out s) -> In x (sent s) }.

Lemma pop_spec : forall c l o l', pop c l = Some (o, l') ->
  In (c, o) l /\ (forall x, In x l' -> In x l) /\
  (NoDup (map snd l) -> NoDup (map snd l') /\ ~ In o (map snd l')).
Proof.
  induction l as [|[c' x] t IH]; intros o l' H; simpl in H; [discriminate|].
  destruct (Nat.eqb c c') eqn:E.
  - apply Nat.eqb_eq in E. subst c'. inversion H; subst. simpl.
    split; [now left|]. split; [intros; now right|].
    intros ND. inversion ND; subst. now split.
  - destruct (pop c t) as [[o' t']|] eqn:P; [|discriminate]. inversion H; subst.
    destruct (IH _ _ eq_refl) as (I1 & I2 & I3). simpl.
    split; [now right|]. split.
    + intros y [Hy|Hy]; [now left|right; now apply I2].
    + intros ND. inversion ND as [|? ? Hx ND']; subst. destruct (I3 ND') as (N1 & N2).
      assert (Hsub : forall y, In y (map snd t') -> In y (map snd t)).
      { intros y Hy. apply in_map_iff in Hy. destruct Hy as (z & <- & Hz). apply in_map. now apply I2. }
      split.
      * constructor; [intro K; apply Hx; now apply Hsub|assumption].
      * intros [K|K]; [|now apply N2]. subst x. apply Hx.
        change o with (snd (c, o)). now apply in_map.
Qed.

Lemma alloc_spec : forall cfg c s o f' n', Inv cfg s -> alloc c s = (o, f', n') ->
  o < n' /\ next s <= n' /\ NoDup (map snd f') /\ ~ In o (map snd f') /\
  (forall y, In y (map snd f') -> In y (map snd (free s))) /\
  (forall c' x, In (c', x) f' -> x < n') /\
  (In o (map snd (free s)) \/ o = next s).
Proof.
  intros cfg c s o f' n' I H. unfold alloc in H.
  destruct (pop c (free s)) as [[o1 f1]|] eqn:P.
  - inversion H; subst. destruct (pop_spec _ _ _ _ P) as (I1 & I2 & I3).
    destruct (I3 (i_nodup _ _ I)) as (N1 & N2).
    repeat split; auto.
    + eapply i_free_lt; eauto.
    + intros y Hy. apply in_map_iff in Hy. destruct Hy as (z & <- & Hz). apply in_map. now apply I2.
    + intros c' x Hx. eapply i_free_lt; eauto.
    + left. change o with (snd (c, o)). now apply in_map.
  - inversion H; subst. repeat split; auto.
    + apply (i_nodup _ _ I).
    + intro K. apply in_map_iff in K. destruct K as ([c' x] & E & Hx). simpl in E. subst x.
      pose proof (i_free_lt _ _ I _ _ Hx). lia.
    + intros c' x Hx. pose proof (i_free_lt _ _ I _ _ Hx). lia.
Qed.

Lemma referenced_false : forall o ps, referenced o ps = false -> forall p, In p ps -> p_obj p <> o.
Proof.
  intros o ps H p Hp E. unfold referenced in H.
  assert (existsb (fun p => Nat.eqb (p_obj p) o) ps = true).
  { apply existsb_exists. exists p. split; [assumption|now apply Nat.eqb_eq]. }
  congruence.
Qed.

Lemma in_remove_nth : forall A i (l : list A) x, In x (remove_nth i l) -> In x l.
Proof.
  induction i; destruct l; simpl; intros; auto. destruct H; auto.
Qed.

Lemma upd_other : forall f o r x, x <> o -> upd f o r x = f x.
Proof. intros. unfold upd. destruct (Nat.eqb x o) eqn:E; [apply Nat.eqb_eq in E; congruence|reflexivity]. Qed.

Lemma upd_same : forall f o r, upd f o r o = r.
Proof. intros. unfold upd. now rewrite Nat.eqb_refl. Qed.

Lemma NoDup_app_one : forall (l : list nat) x, NoDup l -> ~ In x l -> NoDup (l ++ [x]).
Proof.
  induction l as [|a l IH]; intros x ND NI; simpl.
  - constructor; [intros []|constructor].
  - inversion ND; subst. constructor.
    + intro K. apply in_app_or in K. destruct K as [K|[K|[]]]; [contradiction|]. subst. apply NI. now left.
    + apply IH; [assumption|]. intro K. apply NI. now right.
Qed.

Lemma init_inv : forall cfg, Inv cfg init.
Proof. intro cfg. constructor; simpl; try constructor; intros; contradiction. Qed.

Lemma step_inv : forall cfg s a, guard_free cfg = true \/ snapshot cfg = true ->
  Inv cfg s -> Inv cfg (step cfg s a).
Proof.
  intros cfg s a Hcfg I. destruct a as [c r|c r|i]; simpl.
  - (* ALock *)
    destruct (alloc c s) as [[o f'] n'] eqn:A.
    destruct (alloc_spec _ _ _ _ _ _ I A) as (Olt & Nle & ND & Onf & Sub & Flt & Oorig).
    assert (Ohold : ~ In o (map fst (holds s))).
    { intro K. apply in_map_iff in K. destruct K as ([h hc] & E & Hh). simpl in E. subst h.
      destruct (i_holds _ _ I _ _ Hh) as (L & NF). destruct Oorig as [K|K]; [contradiction|lia]. }
    constructor; simpl.
    + assumption.
    + assumption.
    + rewrite map_app. simpl. apply NoDup_app_one; [apply (i_holds_nodup _ _ I)|assumption].
    + intros h hc Hh. apply in_app_or in Hh. destruct Hh as [Hh|[Hh|[]]].
      * destruct (i_holds _ _ I _ _ Hh) as (L & NF). split; [lia|]. intro K. apply NF. now apply Sub.
      * inversion Hh; subst. now split.
    + intros p Hp. apply in_app_or in Hp. destruct Hp as [Hp|[Hp|[]]].
      * destruct (i_pend _ _ I _ Hp) as (S1 & S2 & S3). split; [now right|]. split; [assumption|].
        intro Sn. destruct (S3 Sn) as (L & NF & St). split; [lia|]. split.
        -- intro K. apply NF. now apply Sub.
        -- rewrite upd_other; [assumption|]. intro E. rewrite E in *.
           destruct Oorig as [K|K]; [contradiction|lia].
      * subst p. simpl. split; [now left|]. split; [reflexivity|]. intros _.
        split; [assumption|]. split; [assumption|apply upd_same].
    + intros x Hx. right. now apply (i_out _ _ I).
  - (* AUnlockFirst *)
    destruct (alloc c s) as [[o f'] n'] eqn:A.
    destruct (alloc_spec _ _ _ _ _ _ I A) as (Olt & Nle & ND & Onf & Sub & Flt & Oorig).
    assert (Opend : snapshot cfg = false -> forall p, In p (pending s) -> p_obj p <> o).
    { intros Sn p Hp E. destruct (i_pend _ _ I _ Hp) as (_ & _ & S3). destruct (S3 Sn) as (L & NF & _).
      rewrite E in *. destruct Oorig as [K|K]; [contradiction|lia]. }
    assert (Pend_keep : forall f'' : list (conn * obj), (forall y, In y (map snd f'') -> y = o \/ In y (map snd f') \/
                          (In y (map fst (holds s)) /\ (snapshot cfg = false -> forall p, In p (pending s) -> p_obj p <> y))) ->
              forall p, In p (pending s) ->
              In (p_to p, p_expect p) ((c, r) :: sent s) /\ p_snap p = p_expect p /\
              (snapshot cfg = false -> p_obj p < n' /\ ~ In (p_obj p) (map snd f'') /\ upd (store s) o r (p_obj p) = p_expect p)).
    { intros f'' Hf p Hp. destruct (i_pend _ _ I _ Hp) as (S1 & S2 & S3).
      split; [now right|]. split; [assumption|]. intro Sn. destruct (S3 Sn) as (L & NF & St).
      split; [lia|]. split.
      - intro K. destruct (Hf _ K) as [E|[K'|[_ K']]].
        + now apply (Opend Sn p Hp).
        + apply NF. now apply Sub.
        + now apply (K' Sn p Hp).
      - rewrite upd_other; [assumption|now apply Opend]. }
    destruct (holds s) as [|[h owner] rest] eqn:HS.
    + constructor; cbn [free next holds pending out sent store].
      * simpl. constructor; assumption.
      * intros c' x [E|Hx]; [inversion E; subst; assumption|eapply Flt; eauto].
      * constructor.
      * intros ? ? [].
      * apply (Pend_keep ((c, o) :: f')). simpl. intros y [E|K]; [now left|right; now left].
      * intros x [E|Hx]; [now left|right; now apply (i_out _ _ I)].
    + assert (Hh : In (h, owner) (holds s)) by (rewrite HS; now left).
      destruct (i_holds _ _ I _ _ Hh) as (Hlt & Hnf).
      assert (Hno : h <> o).
      { intro E. subst h. destruct Oorig as [K|K]; [contradiction|lia]. }
      assert (Hnf' : ~ In h (map snd f')) by (intro K; apply Hnf; now apply Sub).
      pose proof (i_holds_nodup _ _ I) as HND. rewrite HS in HND. simpl in HND. inversion HND as [|? ? Hnr HND']; subst.
      assert (Rest : forall o0 c0, In (o0, c0) rest -> o0 < n' /\ o0 <> o /\ o0 <> h /\ ~ In o0 (map snd f')).
      { intros o0 c0 H0. assert (H1 : In (o0, c0) (holds s)) by (rewrite HS; now right).
        destruct (i_holds _ _ I _ _ H1) as (L & NF). split; [lia|]. split.
        - intro E. subst o0. destruct Oorig as [K|K]; [contradiction|lia].
        - split.
          + intro E. subst o0. apply Hnr. change h with (fst (h, c0)). now apply in_map.
          + intro K. apply NF. now apply Sub. }
      set (f'' := if guard_free cfg then (if referenced h (pending s) then f' else (owner, h) :: f') else (c, h) :: f').
      assert (Fsub : forall y, In y (map snd f'') -> In y (map snd f') \/ y = h).
      { unfold f''. intros y Hy. destruct (guard_free cfg); [destruct (referenced h (pending s))|]; simpl in Hy; intuition. }
      assert (FND : NoDup (map snd f'')).
      { unfold f''. destruct (guard_free cfg); [destruct (referenced h (pending s))|]; simpl; try assumption; constructor; assumption. }
      assert (Flt'' : forall c' x, In (c', x) f'' -> x < n').
      { unfold f''. intros c' x Hx. destruct (guard_free cfg); [destruct (referenced h (pending s))|]; simpl in Hx;
          try (eapply Flt; eassumption); (destruct Hx as [E|Hx]; [inversion E; subst; lia|eapply Flt; eassumption]). }
      constructor; cbn [free next holds pending out sent store]; fold f''.
      * simpl. constructor; [|assumption]. intro K. destruct (Fsub _ K) as [K'|K']; [contradiction|congruence].
      * intros c' x [E|Hx]; [inversion E; subst; assumption|eapply Flt''; eauto].
      * assumption.
      * intros o0 c0 H0. destruct (Rest _ _ H0) as (L & N1 & N2 & N3). split; [assumption|].
        simpl. intros [E|K]; [congruence|]. destruct (Fsub _ K) as [K'|K']; [contradiction|congruence].
      * apply (Pend_keep ((c, o) :: f'')). simpl. intros y [E|K]; [now left|]. right.
        unfold f'' in K. destruct (guard_free cfg) eqn:G.
        -- destruct (referenced h (pending s)) eqn:R; [now left|]. simpl in K. destruct K as [E|K]; [|now left].
           right. subst y. split; [simpl; now left|]. intros _. now apply referenced_false.
        -- destruct Hcfg as [Hc|Hc]; [congruence|]. simpl in K. destruct K as [E|K]; [|now left].
           right. subst y. split; [simpl; now left|]. intro Sn. congruence.
      * intros x [E|Hx]; [now left|right; now apply (i_out _ _ I)].
  - (* ADeliver *)
    destruct (nth_error (pending s) i) as [p|] eqn:N; [|assumption].
    assert (Hp : In p (pending s)) by (eapply nth_error_In; eauto).
    destruct (i_pend _ _ I _ Hp) as (S1 & S2 & S3).
    constructor; simpl; try apply I.
    + intros q Hq. apply (i_pend _ _ I). eapply in_remove_nth; eauto.
    + intros x [E|Hx]; [|now apply (i_out _ _ I)]. subst x.
      destruct (snapshot cfg) eqn:Sn.
      * now rewrite S2.
      * destruct (S3 eq_refl) as (_ & _ & St). now rewrite St.
Qed.

Lemma run_inv : forall cfg tr s, guard_free cfg = true \/ snapshot cfg = true ->
  Inv cfg s -> Inv cfg (run cfg s tr).
Proof.
  intros cfg tr. induction tr as [|a tr IH]; intros s Hc I; simpl; [assumption|].
  apply IH; [assumption|]. now apply step_inv.
Qed.

(* Every frame written carries a RequestId that was received on the addressed connection, for every sequence of
   requests and every interleaving of the deliveries of the replies in flight. *)
Theorem no_reply_reads_recycled_command : forall cfg tr,
  guard_free cfg = true \/ snapshot cfg = true ->
  forall c r, In (c, r) (out (run cfg init tr)) -> In (c, r) (sent (run cfg init tr)).
Proof.
  intros cfg tr Hc c r H. apply (i_out _ _ (run_inv cfg tr init Hc (init_inv cfg))). assumption.
Qed.

(* The code's policy: W (connection 1) is granted a hold, its reply is in flight; connection 2 releases it with the
   unlock-first flag and reuses W's command object for its second next request; W's reply then carries that
   request's RequestId 22, which connection 1 never sent (harness/replynet det, variants wake / direct). *)
Definition witness : list action :=
  [ALock 1 10; AUnlockFirst 2 20; ALock 2 21; ALock 2 22; ADeliver 0].

Theorem unlock_first_recycles_in_flight_command_refuted :
  exists tr c r, In (c, r) (out (run code_cfg init tr)) /\ ~ In (c, r) (sent (run code_cfg init tr)).
Proof.
  exists witness, 1, 22. split.
  - vm_compute. now left.
  - vm_compute. intros [H|[H|[H|[H|[]]]]]; discriminate.
Qed.
