(* C12 — statements and proofs about the election model (Paxosish.v). *)
From Coq Require Import List NArith ZArith Bool Lia.
From Slock Require Import Base.Quorum Arbiter.Vote Arbiter.Select Arbiter.Paxosish Arbiter.Guarded.
Import ListNotations.
Open Scope N_scope.

(* ---------- vocabulary of the statements ---------- *)

Definition is_restart (a : action) : bool := match a with ARestart _ => true | _ => false end.
Definition no_restart (acts : list action) : bool := forallb (fun a => negb (is_restart a)) acts.

(* a cluster between elections: nobody holds an election lock, no candidacy is running, meta files are up to date *)
Definition fresh_node (n : nat) (i : N) (nd : node) : Prop :=
  n_host nd = None /\ n_from nd = None /\ locked i nd = false /\ n_phase nd = PIdle /\ n_resps nd = [] /\
  n_selfpend nd = false /\ length (n_view nd) = n /\ n_saved nd = n_cid nd.

Fixpoint fresh_nodes (n : nat) (i : nat) (l : list node) : Prop :=
  match l with [] => True | nd :: r => fresh_node n (N.of_nat i) nd /\ fresh_nodes n (S i) r end.

Definition init_ok (cfg : list mcfg) (s : state) : Prop :=
  sent s = [] /\ length (nodes s) = length cfg /\ fresh_nodes (length cfg) 0 (nodes s).

Definition pid_of (s : state) (k : N) : N := match getn s k with Some nd => n_pid nd | None => 0 end.
Definition cid_of (s : state) (k : N) : N := match getn s k with Some nd => n_cid nd | None => 0 end.

(* ---------- (b) members whose own log is newer refuse the proposal ---------- *)

Theorem newer_log_rejects isself cfg i nd p h a :
  n_abst nd = false -> arbiter_of cfg i = 0 -> aof_gt (n_log nd) a = true ->
  on_proposal isself cfg i nd p h a = (RErr E_REJECT 0, nd).
Proof. intros A B C. unfold on_proposal. rewrite A, B, C. reflexivity. Qed.

(* ... and one such refusal that reaches the candidate makes its proposal phase fail, whatever else was answered *)
Theorem reject_fails_proposal c nd :
  n_phase nd = PProposing -> existsb (fun x => is_reject (snd x)) (n_resps nd) = true ->
  exists i, finish c nd = (set_phase nd PIdle, EvProposed c false i).
Proof. intros P R. unfold finish. rewrite P, R. eexists. reflexivity. Qed.

(* ---------- refutations: concrete schedules (replayed on the Go code by checks/C12.py, corpus/C12) ---------- *)

Definition cfg3 : list mcfg := [mkCfg 1 0; mkCfg 2 0; mkCfg 3 0].
Definition lg3 : aofid := mkAof 4294967296 5.
Definition view3 : list viewent := [mkVe 0 true aof_zero; mkVe 0 true aof_zero; mkVe 0 true aof_zero].
Definition node3 : node := mkNode 1 1 None None 1 lg3 false view3 0 0 PIdle 0 aof_zero 0 [] false.
Definition init3 : state := mkState [node3; node3; node3] [].

Lemma init3_ok : init_ok cfg3 init3.
Proof. unfold init_ok, init3, fresh_node; cbn. repeat split; reflexivity. Qed.

(* two overlapping candidacies, NO restart, no lost message: 0 proposes number 2, 1 proposes number 3;
   0 accepts 3 and then resets its own proposalId to 2 when its proposal phase is tallied (DoProposal: self.proposalId =
   self.proposalIndex); 1 commits 2 for candidate 0, its own DoSelfProposal(3) is refused, yet its tally sets proposalId 3
   and DoSelfCommit(3) overwrites the outstanding commit. Both DoCommit succeed, for different leaders. *)
Definition sched_two_winners : list action :=
  [AStartVote 0; ASelf 0; ADeliver 0 1 false; AFinish 0;
   AStartVote 1; ASelf 1; ADeliver 1 2 false; AFinish 1;
   AStartProp 0; ASelf 0; ADeliver 0 1 false;
   AStartProp 1; ADeliver 1 0 false; ADeliver 1 2 false;
   AFinish 0;
   AStartCommit 0; ASelf 0; ADeliver 0 1 false; AFinish 0;
   ASelf 1; AFinish 1;
   AStartCommit 1; ASelf 1; ADeliver 1 2 false; AFinish 1].

Theorem refuted_two_winners_without_restart :
  exists cfg s acts, init_ok cfg s /\ no_restart acts = true /\
    exists c1 i1 h1 c2 i2 h2, wins (snd (run cfg s acts)) = [(c1, i1, h1); (c2, i2, h2)] /\ c1 <> c2 /\ h1 <> h2.
Proof.
  exists cfg3, init3, sched_two_winners. split; [exact init3_ok|]. split; [reflexivity|].
  exists 0, 2, 1, 1, 3, 2. split; [vm_compute; reflexivity|]. split; discriminate.
Qed.

(* same schedule: the accepted proposal number of member 0 goes 3 -> 2 at its own tally *)
Theorem refuted_proposal_id_monotone_without_restart :
  exists cfg s acts a k, init_ok cfg s /\ no_restart (acts ++ [a]) = true /\
    let s1 := fst (run cfg s acts) in pid_of (fst (step cfg s1 a)) k < pid_of s1 k.
Proof.
  exists cfg3, init3, (firstn 14 sched_two_winners), (AFinish 0), 0.
  split; [exact init3_ok|]. split; [reflexivity|]. vm_compute. reflexivity.
Qed.

(* one restart between commit and announcement: 1 commits for candidate 0, restarts from meta.pb (commitId was never
   saved), accepts and commits the same number again for candidate 2. *)
Definition sched_restart : list action :=
  [AStartVote 0; ASelf 0; ADeliver 0 1 false; AFinish 0;
   AStartProp 0; ASelf 0; ADeliver 0 1 false; AFinish 0;
   AStartCommit 0; ASelf 0; ADeliver 0 1 false; AFinish 0;
   ARestart 1;
   AStartVote 2; ASelf 2; ADeliver 2 1 false; AFinish 2;
   AStartProp 2; ASelf 2; ADeliver 2 1 false; AFinish 2;
   AStartCommit 2; ASelf 2; ADeliver 2 1 false; AFinish 2].

Theorem refuted_restart_two_winners :
  exists cfg s acts, init_ok cfg s /\
    length (filter is_restart acts) = 1%nat /\
    (* no candidate-side overwrite is involved: the only ghost event is the restart of a locked member *)
    filter is_ghost (snd (run cfg s acts)) = [EvLostLock 1] /\
    exists c1 i1 h1 c2 i2 h2, wins (snd (run cfg s acts)) = [(c1, i1, h1); (c2, i2, h2)] /\ c1 <> c2 /\ h1 <> h2.
Proof.
  exists cfg3, init3, sched_restart. split; [exact init3_ok|]. split; [reflexivity|]. split; [vm_compute; reflexivity|].
  exists 0, 2, 1, 2, 2, 2. split; [vm_compute; reflexivity|]. split; discriminate.
Qed.

(* the committed number regresses at that restart (2 -> 1) ... *)
Theorem refuted_commit_id_monotone_restart :
  exists cfg s acts m, init_ok cfg s /\
    let s1 := fst (run cfg s acts) in cid_of (fst (step cfg s1 (ARestart m))) m < cid_of s1 m.
Proof.
  exists cfg3, init3, (firstn 12 sched_restart), 1. split; [exact init3_ok|]. vm_compute. reflexivity.
Qed.

(* ... and an accepted (not yet committed) number is forgotten by ANY restart, even one the guarded theorem allows *)
Theorem refuted_proposal_id_monotone_restart :
  exists cfg s acts m, init_ok cfg s /\
    let s1 := fst (run cfg s acts) in
    filter is_ghost (snd (run cfg s (acts ++ [ARestart m]))) = [] /\
    pid_of (fst (step cfg s1 (ARestart m))) m < pid_of s1 m.
Proof.
  exists cfg3, init3, (firstn 7 sched_restart), 1. split; [exact init3_ok|]. vm_compute. split; reflexivity.
Qed.


(* ---------- the guarded theorems (proofs: Guarded.v) ---------- *)

Lemma fresh_nodes_nth n : forall l i k nd, fresh_nodes n i l -> nth_error l k = Some nd -> fresh_node n (N.of_nat (i + k)) nd.
Proof.
  induction l as [|x r IH]; intros i [|k] nd F H; cbn in *; try discriminate.
  - inversion H; subst. rewrite Nat.add_0_r. tauto.
  - replace (i + S k)%nat with (S i + k)%nat by lia. apply IH; tauto.
Qed.

Lemma init_Inv cfg s : init_ok cfg s -> Inv (length cfg) s [].
Proof.
  intros (S0 & L & F). constructor.
  - exact L.
  - rewrite S0. constructor.
  - intros k nd G. unfold getn, nthN in G. pose proof (fresh_nodes_nth _ _ 0 _ _ F G) as X. cbn in X. rewrite N2Nat.id in X.
    destruct X as (H1 & H2 & H3 & H4 & H5 & H6 & H7 & H8).
    constructor; rewrite ?H3, ?H4, ?H5; cbn; auto; try discriminate; try constructor.
  - intros c i h [].
Qed.

(* For ALL schedules (any interleaving of any number of candidacies, deliveries, losses, stale and duplicate deliveries,
   restarts): if no tally overwrote its candidate's own acceptor fields and nobody restarted while holding an election
   lock, then DoCommit succeeded at most once in the whole run. *)
Theorem single_winner_guarded cfg s acts :
  init_ok cfg s ->
  (forall e, In e (snd (run cfg s acts)) -> is_ghost e = false) ->
  (length (wins (snd (run cfg s acts))) <= 1)%nat.
Proof.
  intros I G. destruct (run cfg s acts) as [s' es] eqn:R. cbn in *.
  apply (single_winner_of_Inv (length cfg) s'). apply (run_inv _ cfg acts s [] s' es (init_Inv _ _ I) R G).
Qed.

(* the guard is satisfiable by an election that does elect somebody (non-vacuity) *)
Example single_winner_guarded_nonvacuous :
  init_ok cfg3 init3 /\ (forall e, In e (snd (run cfg3 init3 (firstn 12 sched_restart))) -> is_ghost e = false) /\
  wins (snd (run cfg3 init3 (firstn 12 sched_restart))) = [(0, 2, 1)].
Proof.
  split; [exact init3_ok|]. split; [|vm_compute; reflexivity].
  assert (H : forallb (fun e => negb (is_ghost e)) (snd (run cfg3 init3 (firstn 12 sched_restart))) = true) by (vm_compute; reflexivity).
  intros e He. rewrite forallb_forall in H. apply negb_true_iff. apply H. exact He.
Qed.

(* monotone numbers: a step that is not a restart and whose tally does not overwrite never lowers proposalId or commitId *)
Lemma handle_mono isself cfg t nd k f p h a r nd' :
  handle isself cfg t nd k f p h a = (r, nd') -> n_pid nd <= n_pid nd' /\ n_cid nd <= n_cid nd'.
Proof.
  intros H. destruct (handle_effect _ _ _ _ _ _ _ _ _ _ _ H) as (_ & _ & _ & [[(A1 & A2 & _) _]|[(_ & _ & _ & _ & _ & C & P)|(_ & P & L & C & _)]]); lia.
Qed.

Lemma tally_mono c nd nd' es :
  tally c nd = (nd', es) -> (forall e, In e es -> is_ghost e = false) -> n_pid nd' = n_pid nd /\ n_cid nd' = n_cid nd.
Proof.
  unfold tally. destruct (finish c nd) as [nd1 e]. destruct (acc_eqb nd nd1) eqn:A; intros [= <- <-] G.
  - destruct (acc_eqb_same _ _ A) as (A1 & A2 & _). auto.
  - specialize (G (EvOverwrite c)). cbn in G. discriminate G. auto.
Qed.

(* every way a member's numbers can change, for all inputs:
   acceptor handlers (remote and own-member variants) never lower them; a tally either leaves them alone or is flagged
   EvOverwrite; recording an answer and starting a phase do not touch them; (restart is the remaining writer) *)
Theorem numbers_monotone_per_operation :
  (forall isself cfg t nd k f p h a r nd', handle isself cfg t nd k f p h a = (r, nd') ->
      n_pid nd <= n_pid nd' /\ n_cid nd <= n_cid nd') /\
  (forall c nd nd' es, tally c nd = (nd', es) -> (forall e, In e es -> is_ghost e = false) ->
      n_pid nd' = n_pid nd /\ n_cid nd' = n_cid nd) /\
  (forall remote nd m r, n_pid (record remote nd m r) = n_pid nd /\ n_cid (record remote nd m r) = n_cid nd) /\
  (forall k c nd pidx ph, n_pid (fst (start_phase k c nd pidx ph)) = n_pid nd /\ n_cid (fst (start_phase k c nd pidx ph)) = n_cid nd) /\
  (forall cfg c nd, n_pid (vote_succed cfg c nd) = n_pid nd /\ n_cid (vote_succed cfg c nd) = n_cid nd).
Proof.
  split; [exact handle_mono|]. split; [exact tally_mono|]. split; [|split].
  - intros. unfold record. destruct (has_resp (n_resps nd) m); [auto|]. destruct remote; cbn [negb]; [|auto].
    destruct r; cbn; auto.
    + destruct (nthN _ m); auto.
    + destruct ((code =? E_PROPOSALID) && _); auto.
  - intros. unfold start_phase. destruct (issue _ _ _ _ _ _ _ _). auto.
  - intros. unfold vote_succed. cbv zeta. destruct (opt_eqb (n_host nd) c); auto.
Qed.


Theorem aof_order_in_window o a b c :
  o < M64 -> wf_aof a -> wf_aof b -> wf_aof c -> inwin o a -> inwin o b -> inwin o c ->
  ~ aof_lt a a /\ (aof_lt a b -> ~ aof_lt b a) /\ (a <> b -> aof_lt a b \/ aof_lt b a) /\
  (aof_lt a b -> aof_lt b c -> aof_lt a c).
Proof.
  intros Ho Wa Wb Wc Ia Ib Ic. split; [apply aof_lt_irrefl|]. split; [apply aof_lt_asym|].
  split; [apply aof_lt_total|]. exact (aof_lt_trans_in_window o a b c Ho Wa Wb Wc Ia Ib Ic).
Qed.
