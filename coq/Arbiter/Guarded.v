(* C12 — what DOES hold: if no candidate tally writes the candidate's own acceptor fields (ghost event EvOverwrite) and no
   member restarts while it holds an election lock (ghost event EvLostLock), then along EVERY schedule
     - at most one candidacy ever gets a commit majority (DoCommit returns nil at most once in the whole run),
     - committed numbers never decrease, accepted proposal numbers decrease only at a restart.
   Proof: invariant over (state, trace), induction over the action list. *)
From Coq Require Import List NArith ZArith Bool Lia Arith.
From Slock Require Import Base.Quorum Arbiter.Vote Arbiter.Select Arbiter.Paxosish.
Import ListNotations.
Open Scope N_scope.

(* ---------- list plumbing ---------- *)
Lemma upd_nat_length {A} (l : list A) i x : length (upd_nat l i x) = length l.
Proof. revert i; induction l as [|y r IH]; intros [|i]; cbn; auto. Qed.

Lemma nth_upd_nat_same {A} (l : list A) i x : (i < length l)%nat -> nth_error (upd_nat l i x) i = Some x.
Proof. revert i; induction l as [|y r IH]; intros [|i] H; cbn in *; try lia; auto. apply IH. lia. Qed.

Lemma nth_upd_nat_other {A} (l : list A) i j x : i <> j -> nth_error (upd_nat l i x) j = nth_error l j.
Proof. revert i j; induction l as [|y r IH]; intros [|i] [|j] H; cbn; auto; try congruence. Qed.

Lemma nthN_updN_same {A} (l : list A) i x : (N.to_nat i < length l)%nat -> nthN (updN l i x) i = Some x.
Proof. apply nth_upd_nat_same. Qed.

Lemma nthN_updN_other {A} (l : list A) i j x : i <> j -> nthN (updN l i x) j = nthN l j.
Proof. intros H. apply nth_upd_nat_other. intro E. apply H. apply N2Nat.inj. exact E. Qed.

Lemma updN_length {A} (l : list A) i x : length (updN l i x) = length l.
Proof. apply upd_nat_length. Qed.

Lemma nthN_lt {A} (l : list A) i x : nthN l i = Some x -> (N.to_nat i < length l)%nat.
Proof. intros H. apply nth_error_Some. unfold nthN in H. congruence. Qed.

Lemma existsb_app_false {A} (f : A -> bool) l1 l2 :
  existsb f (l1 ++ l2) = false <-> existsb f l1 = false /\ existsb f l2 = false.
Proof. rewrite existsb_app. apply orb_false_iff. Qed.

Lemma existsb_mono {A} (f : A -> bool) l1 l2 : existsb f l1 = true -> existsb f (l1 ++ l2) = true.
Proof. intros H. rewrite existsb_app, H. reflexivity. Qed.

Lemma existsb_false_forall {A} (f : A -> bool) l : (forall x, In x l -> f x = false) -> existsb f l = false.
Proof. induction l; cbn; auto. intros H. rewrite (H a) by auto. apply IHl. auto. Qed.

Lemma filter_none {A} (f : A -> bool) l : (forall x, In x l -> f x = false) -> filter f l = [].
Proof. induction l; cbn; auto. intros H. rewrite (H a) by auto. apply IHl. auto. Qed.

Lemma existsb_false_filter {A} (f : A -> bool) l : existsb f l = false -> filter f l = [].
Proof.
  intros H. apply filter_none. intros x Hx. destruct (f x) eqn:E; auto.
  assert (existsb f l = true) by (apply existsb_exists; eauto). congruence.
Qed.

Lemma two_in_filter {A} (f : A -> bool) l x y :
  In x l -> In y l -> x <> y -> f x = true -> f y = true -> (2 <= length (filter f l))%nat.
Proof.
  induction l as [|a r IH]; cbn; [tauto|]. intros [->|Hx] [->|Hy] NE Fx Fy.
  - congruence.
  - rewrite Fx. cbn. assert (In y (filter f r)) by (apply filter_In; auto). destruct (filter f r); cbn in *; [tauto|lia].
  - rewrite Fy. cbn. assert (In x (filter f r)) by (apply filter_In; auto). destruct (filter f r); cbn in *; [tauto|lia].
  - specialize (IH Hx Hy NE Fx Fy). destruct (f a); cbn; lia.
Qed.

Lemma NoDup_app_single {A} (l : list A) x : NoDup l -> ~ In x l -> NoDup (l ++ [x]).
Proof.
  induction l as [|a r IH]; cbn; intros N H.
  - constructor; auto.
  - inversion N; subst. constructor.
    + intro I. apply in_app_or in I. destruct I as [I|[E|[]]]; [tauto|]. subst. apply H. left. reflexivity.
    + apply IH; auto.
Qed.

Lemma NoDup_map_filter {A B} (f : A -> B) (g : A -> bool) l : NoDup (map f l) -> NoDup (map f (filter g l)).
Proof.
  induction l as [|a r IH]; cbn; auto. intros N. inversion N; subst. destruct (g a); cbn; auto.
  constructor; auto. intro I. apply in_map_iff in I. destruct I as (x & E & Hx). apply filter_In in Hx.
  apply H1. apply in_map_iff. exists x. tauto.
Qed.

(* ---------- vocabulary ---------- *)
Definition cok (m : N) (e : event) : bool :=
  match e with
  | EvReply _ t KCommit (ROk _) => t =? m
  | EvSelf c KCommit (ROk _) => c =? m
  | _ => false
  end.

Definition cokfrom (c m : N) (e : event) : bool :=
  match e with
  | EvReply f t KCommit (ROk _) => (f =? c) && (t =? m)
  | EvSelf c' KCommit (ROk _) => (c' =? c) && (c' =? m)
  | _ => false
  end.

Definition is_win (c : N) (e : event) : bool := match e with EvWin c' _ _ => c' =? c | _ => false end.
Definition is_ghost (e : event) : bool := match e with EvOverwrite _ | EvLostLock _ => true | _ => false end.

Lemma cokfrom_cok c m e : cokfrom c m e = true -> cok m e = true.
Proof.
  destruct e as [| | ? ? [] []| ? [] [] | | | | | | | |]; cbn; try discriminate.
  - intros H. apply andb_true_iff in H. tauto.
  - intros H. apply andb_true_iff in H. destruct H as [H1 H2]. exact H2.
Qed.

Lemma cokfrom_inj c1 c2 m e : cokfrom c1 m e = true -> cokfrom c2 m e = true -> c1 = c2.
Proof.
  destruct e as [| | ? ? [] []| ? [] [] | | | | | | | |]; cbn; try discriminate;
  intros H1 H2; apply andb_true_iff in H1; apply andb_true_iff in H2; destruct H1 as [H1 _], H2 as [H2 _];
  apply N.eqb_eq in H1; apply N.eqb_eq in H2; congruence.
Qed.

(* ---------- per-member invariant ---------- *)
Record NI (n : nat) (k : N) (nd : node) (tr : list event) : Prop := {
  ni_view : length (n_view nd) = n;
  ni_nodup : NoDup (map fst (n_resps nd));
  ni_range : Forall (fun x => (N.to_nat (fst x) < n)%nat) (n_resps nd);
  ni_lock_le : locked k nd = true -> n_pid nd <= n_cid nd;
  ni_unlocked : locked k nd = false -> existsb (cok k) tr = false;
  ni_once : (length (filter (cok k) tr) <= 1)%nat;
  ni_commits : n_phase nd = PCommitting -> forall m r, In (m, r) (n_resps nd) -> is_ok r = true ->
               existsb (cokfrom k m) tr = true;
  ni_won : n_phase nd = PWon -> is_some (n_host nd) = true;
  ni_win : existsb (is_win k) tr = true -> (n_phase nd = PWon \/ n_phase nd = PDone) /\ locked k nd = true;
  ni_win_once : (length (filter (is_win k) tr) <= 1)%nat
}.

Definition quiet_for (k : N) (es : list event) : Prop :=
  forall e, In e es -> cok k e = false /\ is_win k e = false.

Lemma NI_frame n k nd tr es : NI n k nd tr -> quiet_for k es -> NI n k nd (tr ++ es).
Proof.
  intros H Q.
  assert (Q1 : existsb (cok k) es = false) by (apply existsb_false_forall; intros e He; apply Q; exact He).
  assert (Q2 : existsb (is_win k) es = false) by (apply existsb_false_forall; intros e He; apply Q; exact He).
  destruct H. constructor; auto.
  - intros L. apply existsb_app_false. auto.
  - rewrite filter_app, (existsb_false_filter _ _ Q1), app_nil_r. assumption.
  - intros P m r I O. apply existsb_mono. eauto.
  - intros W. rewrite existsb_app, Q2, orb_false_r in W. auto.
  - rewrite filter_app, (existsb_false_filter _ _ Q2), app_nil_r. assumption.
Qed.

Definition msgs_ok (n : nat) (ms : list msg) : Prop :=
  Forall (fun x => (N.to_nat (m_to x) < n)%nat /\ m_from x <> m_to x) ms.

Definition wins_ok (n : nat) (tr : list event) : Prop :=
  forall c i h, In (EvWin c i h) tr ->
    (N.to_nat c < n)%nat /\
    exists R, NoDup R /\ (N.to_nat (majority (N.of_nat n)) <= length R)%nat /\
              forall m, In m R -> (N.to_nat m < n)%nat /\ existsb (cokfrom c m) tr = true.

Lemma wins_ok_frame n tr es : wins_ok n tr -> (forall c i h, ~ In (EvWin c i h) es) -> wins_ok n (tr ++ es).
Proof.
  intros H Q c i h I. apply in_app_or in I. destruct I as [I|I]; [|exfalso; eapply Q; eauto].
  destruct (H c i h I) as (LT & R & A & B & C). split; auto. exists R. split; auto. split; auto.
  intros m Hm. destruct (C m Hm). split; auto. apply existsb_mono. assumption.
Qed.

Record Inv (n : nat) (s : state) (tr : list event) : Prop := {
  inv_len : length (nodes s) = n;
  inv_msgs : msgs_ok n (sent s);
  inv_nodes : forall k nd, getn s k = Some nd -> NI n k nd tr;
  inv_wins : wins_ok n tr
}.

(* replace member k by nd', emit es (which only concern k), append messages *)
Lemma Inv_update n s tr k nd nd' es ms :
  Inv n s tr -> getn s k = Some nd ->
  NI n k nd' (tr ++ es) ->
  (forall j, j <> k -> quiet_for j es) ->
  msgs_ok n ms ->
  wins_ok n (tr ++ es) ->
  Inv n (mkState (updN (nodes s) k nd') (sent s ++ ms)) (tr ++ es).
Proof.
  intros I G N Q M W. destruct I as [IL IM IN IW]. constructor; cbn.
  - rewrite updN_length. exact IL.
  - apply Forall_app. split; assumption.
  - intros j ndj Gj. unfold getn in *. cbn in Gj. destruct (N.eq_dec k j) as [->|NE].
    + rewrite nthN_updN_same in Gj by (eapply nthN_lt; eauto). inversion Gj; subst. exact N.
    + rewrite nthN_updN_other in Gj by assumption. apply NI_frame; auto.
  - exact W.
Qed.

(* ---------- roles are not touched by the handlers ---------- *)
Lemma map_upd_nat_same {A B} (f : A -> B) (l : list A) i x y :
  nth_error l i = Some y -> f x = f y -> map f (upd_nat l i x) = map f l.
Proof.
  revert i; induction l as [|z r IH]; intros [|i] H E; cbn in *; try discriminate; auto.
  - inversion H; subst. rewrite E. reflexivity.
  - rewrite (IH i); auto.
Qed.

Lemma own_role_map nd nd' i : map ve_role (n_view nd') = map ve_role (n_view nd) -> own_role nd' i = own_role nd i.
Proof.
  intros H. unfold own_role, nthN.
  pose proof (nth_error_map ve_role (N.to_nat i) (n_view nd)) as A. pose proof (nth_error_map ve_role (N.to_nat i) (n_view nd')) as B.
  rewrite H in B. rewrite A in B.
  destruct (nth_error (n_view nd) (N.to_nat i)), (nth_error (n_view nd') (N.to_nat i)); cbn in B; congruence.
Qed.

Lemma set_view_aof_roles v i a : map ve_role (set_view_aof v i a) = map ve_role v /\ length (set_view_aof v i a) = length v.
Proof.
  unfold set_view_aof. destruct (nthN v i) eqn:E; [|auto]. split.
  - eapply map_upd_nat_same; [exact E|reflexivity].
  - apply updN_length.
Qed.

Definition same_cand (a b : node) : Prop :=
  n_phase a = n_phase b /\ n_resps a = n_resps b /\ n_pidx a = n_pidx b /\ n_sidx a = n_sidx b /\ n_vhost a = n_vhost b /\
  n_vaof a = n_vaof b /\ n_epoch a = n_epoch b /\ n_selfpend a = n_selfpend b /\ n_saved a = n_saved b /\ n_log a = n_log b /\
  n_abst a = n_abst b.

Definition same_acc (a b : node) : Prop :=
  n_pid a = n_pid b /\ n_cid a = n_cid b /\ n_host a = n_host b /\ n_from a = n_from b.

Definition is_cok_reply (k : kind) (r : resp) : bool :=
  match k, r with KCommit, ROk _ => true | _, _ => false end.

Ltac easy_case := unfold same_cand, same_acc; cbn; repeat split; auto; left; repeat split; auto.

(* what one handler execution can do to the member it runs on *)
Lemma handle_effect isself cfg t nd k f p h a r nd' :
  handle isself cfg t nd k f p h a = (r, nd') ->
  same_cand nd' nd /\ map ve_role (n_view nd') = map ve_role (n_view nd) /\ length (n_view nd') = length (n_view nd) /\
  ( (same_acc nd' nd /\ is_cok_reply k r = false)
    \/ (k = KProp /\ is_cok_reply k r = false /\ locked t nd = false /\ n_host nd' = None /\ n_from nd' = n_from nd /\
        n_cid nd' = n_cid nd /\ n_pid nd <= n_pid nd')
    \/ (is_cok_reply k r = true /\ n_pid nd' = n_pid nd /\ n_cid nd < n_pid nd /\ n_cid nd' = n_pid nd /\ is_some (n_host nd') = true) ).
Proof.
  unfold handle. destruct k.
  - (* vote *)
    unfold on_vote. destruct (n_abst nd).
    + intros [= <- <-]. easy_case.
    + unfold current_aof. destruct (negb (arbiter_of cfg t =? 0)); intros [= <- <-]; cbn.
      * destruct (set_view_aof_roles (n_view nd) t (arb_scan (n_view nd))) as [A B].
        easy_case.
      * easy_case.
  - (* proposal *)
    unfold on_proposal.
    destruct (negb (n_abst nd) && (arbiter_of cfg t =? 0) && aof_gt (n_log nd) a);
      [intros [= <- <-]; easy_case|].
    destruct (own_role nd t =? ROLE_LEADER) eqn:RL;
      [intros [= <- <-]; easy_case|].
    destruct (prop_scan _ _ _ _ _); [intros [= <- <-]; easy_case|].
    destruct (nthN (n_view nd) h); [|intros [= <- <-]; easy_case].
    destruct (negb (h =? t) && negb (ve_online v)); [intros [= <- <-]; easy_case|].
    destruct ((p <=? n_pid nd) || is_some (n_host nd)) eqn:C1; [intros [= <- <-]; easy_case|].
    destruct (p <=? n_cid nd) eqn:C2; [intros [= <- <-]; easy_case|].
    intros [= <- <-]. cbn. split; [unfold same_cand; cbn; repeat split; auto|]. split; [reflexivity|]. split; [reflexivity|].
    right. left. apply orb_false_iff in C1. destruct C1 as [C1 C3]. apply N.leb_gt in C1.
    unfold locked. rewrite C3, RL. destruct (n_host nd); [discriminate|]. repeat split; auto. lia.
  - (* commit *)
    unfold on_commit. destruct (nthN (n_view nd) h); [|intros [= <- <-]; easy_case].
    destruct (negb (n_pid nd =? p)) eqn:C1; [intros [= <- <-]; easy_case|].
    destruct (p <=? n_cid nd) eqn:C2; [intros [= <- <-]; easy_case|].
    intros [= <- <-]. cbn. split; [unfold same_cand; cbn; repeat split; auto|]. split; [reflexivity|]. split; [reflexivity|].
    right. right. apply negb_false_iff in C1. apply N.eqb_eq in C1. apply N.leb_gt in C2. subst p. repeat split; auto.
Qed.

Lemma locked_same k a b : n_host a = n_host b -> map ve_role (n_view a) = map ve_role (n_view b) -> locked k a = locked k b.
Proof. intros H R. unfold locked. rewrite H, (own_role_map b a k R). reflexivity. Qed.

(* the handler step preserves the member invariant; [e] is the event recording its reply *)
Lemma NI_handle n isself cfg t nd k f p h a r nd' tr e :
  NI n t nd tr -> handle isself cfg t nd k f p h a = (r, nd') ->
  cok t e = is_cok_reply k r -> is_win t e = false ->
  NI n t nd' (tr ++ [e]).
Proof.
  intros I H Ce We. destruct (handle_effect _ _ _ _ _ _ _ _ _ _ _ H) as (SC & RO & LE & CASES).
  destruct SC as (P1 & P2 & P3 & P4 & P5 & P6 & P7 & P8 & P9 & P10 & P11).
  destruct I as [V1 V2 V2' V3 V4 V5 V6 V10 V7 V8].
  assert (WE : existsb (is_win t) (tr ++ [e]) = existsb (is_win t) tr) by (rewrite existsb_app; cbn; rewrite We; rewrite !orb_false_r; reflexivity).
  assert (WF : filter (is_win t) (tr ++ [e]) = filter (is_win t) tr) by (rewrite filter_app; cbn; rewrite We, app_nil_r; reflexivity).
  assert (MONO : n_phase nd' = PCommitting -> forall m r0, In (m, r0) (n_resps nd') -> is_ok r0 = true ->
                 existsb (cokfrom t m) (tr ++ [e]) = true).
  { rewrite P1, P2. intros P m r0 I O. apply existsb_mono. eauto. }
  destruct CASES as [[SA NC]|[(KP & NC & UL & H0 & F0 & C0 & PL)|(CK & PP & CL & CC & HS)]].
  - destruct SA as (A1 & A2 & A3 & A4). rewrite NC in Ce.
    assert (LK : locked t nd' = locked t nd) by (apply locked_same; auto).
    constructor.
    + rewrite LE. exact V1.
    + rewrite P2. exact V2.
    + rewrite P2. exact V2'.
    + rewrite LK, A1, A2. exact V3.
    + rewrite LK. intros L. apply existsb_app_false. split; auto. cbn. rewrite Ce. reflexivity.
    + rewrite filter_app. cbn. rewrite Ce, app_nil_r. assumption.
    + exact MONO.
    + rewrite P1, A3. exact V10.
    + rewrite WE, P1, LK. exact V7.
    + rewrite WF. exact V8.
  - rewrite NC in Ce.
    assert (LK : locked t nd' = false).
    { unfold locked in *. rewrite H0. cbn. rewrite (own_role_map nd nd' t RO). apply orb_false_iff in UL. tauto. }
    constructor.
    + rewrite LE. exact V1.
    + rewrite P2. exact V2.
    + rewrite P2. exact V2'.
    + rewrite LK. discriminate.
    + intros _. apply existsb_app_false. split; auto. cbn. rewrite Ce. reflexivity.
    + rewrite filter_app. cbn. rewrite Ce, app_nil_r. assumption.
    + exact MONO.
    + rewrite P1. intros P. specialize (V10 P). unfold locked in UL. destruct (n_host nd); cbn in *; discriminate.
    + rewrite WE. intros W. destruct (V7 W) as [_ L]. congruence.
    + rewrite WF. exact V8.
  - rewrite CK in Ce.
    assert (UL : locked t nd = false).
    { destruct (locked t nd) eqn:L; auto. specialize (V3 eq_refl). lia. }
    assert (LK : locked t nd' = true) by (unfold locked; rewrite HS; reflexivity).
    constructor.
    + rewrite LE. exact V1.
    + rewrite P2. exact V2.
    + rewrite P2. exact V2'.
    + intros _. lia.
    + rewrite LK. discriminate.
    + rewrite filter_app. cbn. rewrite Ce. rewrite (existsb_false_filter _ _ (V4 UL)). cbn. lia.
    + exact MONO.
    + intros _. exact HS.
    + rewrite WE, P1. intros W. destruct (V7 W) as [Q _]. split; auto.
    + rewrite WF. exact V8.
Qed.

(* ---------- the candidate's bookkeeping of one answer ---------- *)
Lemma has_resp_false rs m : has_resp rs m = false -> ~ In m (map fst rs).
Proof.
  unfold has_resp. induction rs as [|[a b] r IH]; cbn; [tauto|]. intros H. apply orb_false_iff in H. destruct H as [H1 H2].
  apply N.eqb_neq in H1. intros [E|I]; [congruence|]. exact (IH H2 I).
Qed.

Lemma own_role_set_cand nd a b c d e f g h i : own_role (set_cand nd a b c d e f g h) i = own_role nd i.
Proof. reflexivity. Qed.

Lemma NI_record n remote c nd m r tr :
  NI n c nd tr -> (remote = true -> c <> m) -> (N.to_nat m < n)%nat ->
  (n_phase nd = PCommitting -> is_ok r = true -> existsb (cokfrom c m) tr = true) ->
  NI n c (record remote nd m r) tr /\ n_phase (record remote nd m r) = n_phase nd /\
  n_selfpend (record remote nd m r) = n_selfpend nd /\ same_acc (record remote nd m r) nd.
Proof.
  intros I NE RG CK. unfold record.
  destruct (has_resp (n_resps nd) m) eqn:HR; [split; [exact I|]; unfold same_acc; repeat split; reflexivity|].
  set (c1 := set_cand nd (n_pidx nd) (n_sidx nd) (n_phase nd) (n_vhost nd) (n_vaof nd) (n_epoch nd) (n_resps nd ++ [(m, r)]) (n_selfpend nd)).
  assert (I1 : NI n c c1 tr).
  { destruct I as [V1 V2 V2' V3 V4 V5 V6 V10 V7 V8]. constructor; cbn; auto.
    - rewrite map_app. cbn. apply NoDup_app_single; [exact V2|]. apply has_resp_false. exact HR.
    - apply Forall_app. split; auto.
    - intros P m0 r0 Hin O. apply in_app_or in Hin. destruct Hin as [Hin|[E|[]]]; [eauto|]. inversion E; subst. auto. }
  assert (G : forall c2, n_view c2 = n_view c1 \/ (remote = true /\ exists ve x, nthN (n_view c1) m = Some ve /\ n_view c2 = updN (n_view c1) m x) ->
              same_acc c2 c1 -> n_resps c2 = n_resps c1 -> n_phase c2 = n_phase c1 -> n_selfpend c2 = n_selfpend c1 ->
              NI n c c2 tr /\ n_phase c2 = n_phase nd /\ n_selfpend c2 = n_selfpend nd /\ same_acc c2 nd).
  { intros c2 HV (A1 & A2 & A3 & A4) RS PH SP.
    assert (LEN : length (n_view c2) = length (n_view c1)).
    { destruct HV as [->|(_ & ve & x & _ & ->)]; [reflexivity|apply updN_length]. }
    assert (OR : own_role c2 c = own_role c1 c).
    { unfold own_role. destruct HV as [->|(RT & ve & x & _ & ->)]; [reflexivity|]. rewrite nthN_updN_other; auto. intro E. apply (NE RT). congruence. }
    assert (LK : locked c c2 = locked c c1) by (unfold locked; rewrite A3, OR; reflexivity).
    split; [|split; [|split]]; auto; [|unfold same_acc in *; cbn in *; tauto].
    destruct I1 as [V1 V2 V2' V3 V4 V5 V6 V10 V7 V8]. constructor.
    - rewrite LEN. exact V1.
    - rewrite RS. exact V2.
    - rewrite RS. exact V2'.
    - rewrite LK, A1, A2. exact V3.
    - rewrite LK. exact V4.
    - exact V5.
    - rewrite PH, RS. exact V6.
    - rewrite PH, A3. exact V10.
    - rewrite PH, LK. exact V7.
    - exact V8. }
  destruct remote; cbn [negb].
  2:{ apply G; auto; unfold same_acc; repeat split; auto. }
  destruct r as [|v| |id|code id].
  - apply G; auto; unfold same_acc; repeat split; auto.
  - destruct (nthN (n_view c1) m) eqn:E.
    + apply G; cbn; auto; [right; split; auto; eauto|unfold same_acc; repeat split; auto].
    + apply G; auto; unfold same_acc; repeat split; auto.
  - apply G; auto; unfold same_acc; repeat split; auto.
  - apply G; auto; unfold same_acc; repeat split; auto.
  - destruct ((code =? E_PROPOSALID) && (n_pidx c1 <? id)); apply G; cbn; auto; unfold same_acc; repeat split; auto.
Qed.

(* ---------- the tally ---------- *)
Lemma finish_cases c nd nd' e :
  finish c nd = (nd', e) ->
  n_view nd' = n_view nd /\ n_resps nd' = n_resps nd /\ n_phase nd' <> PCommitting /\
  ( (nd' = nd /\ e = EvNone /\ phase_kind (n_phase nd) = None)
    \/ (phase_kind (n_phase nd) <> None /\ n_phase nd' <> PWon /\ n_phase nd' <> PDone /\
        (forall j, cok j e = false /\ is_win j e = false))
    \/ (n_phase nd = PCommitting /\ n_phase nd' = PWon /\ is_some (n_host nd') = true /\
        (exists i h, e = EvWin c i h) /\ majority (nmembers nd) <= count_ok (n_resps nd)) ).
Proof.
  unfold finish. destruct (n_phase nd) eqn:P;
    try (intros [= <- <-]; rewrite P; repeat split; auto; try discriminate; left; repeat split; auto; fail).
  - destruct (N.of_nat (length (votes_of (n_resps nd))) <? majority (nmembers nd)).
    + intros [= <- <-]. cbn. repeat split; auto; try discriminate. right. left. repeat split; auto; discriminate.
    + destruct (doVoteSelect (votes_of (n_resps nd))); intros [= <- <-]; cbn; repeat split; auto; try discriminate;
        right; left; repeat split; auto; discriminate.
  - destruct (existsb (fun x => is_reject (snd x)) (n_resps nd)).
    + intros [= <- <-]. cbn. repeat split; auto; try discriminate. right. left. repeat split; auto; discriminate.
    + destruct (count_ok (n_resps nd) <? majority (nmembers nd)); intros [= <- <-]; cbn; repeat split; auto; try discriminate;
        right; left; repeat split; auto; discriminate.
  - destruct (count_ok (n_resps nd) <? majority (nmembers nd)) eqn:C; intros [= <- <-]; cbn; repeat split; auto; try discriminate.
    + right. left. repeat split; auto; discriminate.
    + right. right. repeat split; auto. * eauto. * apply N.ltb_ge in C. exact C.
Qed.

Lemma optN_eqb_eq a b : optN_eqb a b = true -> a = b.
Proof. destruct a, b; cbn; try discriminate; auto. intros H. apply N.eqb_eq in H. congruence. Qed.

Lemma acc_eqb_same a b : acc_eqb a b = true -> same_acc b a.
Proof.
  unfold acc_eqb. intros H. repeat (apply andb_true_iff in H; destruct H as [H ?]).
  apply N.eqb_eq in H. apply N.eqb_eq in H2. apply optN_eqb_eq in H1. apply optN_eqb_eq in H0.
  unfold same_acc. repeat split; congruence.
Qed.

Lemma NI_tally n c nd nd' es tr :
  (N.to_nat c < n)%nat ->
  NI n c nd tr -> tally c nd = (nd', es) -> (forall e, In e es -> is_ghost e = false) ->
  NI n c nd' (tr ++ es) /\ (forall j, j <> c -> quiet_for j es) /\ (wins_ok n tr -> wins_ok n (tr ++ es)).
Proof.
  intros CLT I T G. unfold tally in T. destruct (finish c nd) as [nd1 e] eqn:F.
  destruct (acc_eqb nd nd1) eqn:AE.
  2:{ inversion T; subst. specialize (G (EvOverwrite c)). cbn in G. discriminate G. auto. }
  inversion T; subst nd1 es. clear T G.
  destruct (acc_eqb_same _ _ AE) as (A1 & A2 & A3 & A4).
  destruct (finish_cases _ _ _ _ F) as (FV & FR & FP & CASES).
  assert (LK : locked c nd' = locked c nd) by (unfold locked, own_role; rewrite A3, FV; reflexivity).
  destruct I as [V1 V2 V2' V3 V4 V5 V6 V10 V7 V8].
  destruct CASES as [(E1 & E2 & E3)|[(K & NW & ND & Q)|(PC & PW & HS & (i & h & EW) & MJ)]].
  - subst nd' e. split; [|split].
    + apply NI_frame; [constructor; auto|]. intros e [<-|[]]. split; reflexivity.
    + intros j _ e [<-|[]]. split; reflexivity.
    + intros W. apply wins_ok_frame; auto. intros ? ? ? [X|[]]. discriminate.
  - split; [|split].
    + assert (Q1 : existsb (cok c) [e] = false) by (cbn; rewrite (proj1 (Q c)); reflexivity).
      assert (Q2 : existsb (is_win c) [e] = false) by (cbn; rewrite (proj2 (Q c)); reflexivity).
      constructor.
      * rewrite FV. exact V1.
      * rewrite FR. exact V2.
      * rewrite FR. exact V2'.
      * rewrite LK, A1, A2. exact V3.
      * rewrite LK. intros L. apply existsb_app_false. auto.
      * rewrite filter_app, (existsb_false_filter _ _ Q1), app_nil_r. exact V5.
      * intros X. contradiction.
      * intros X. contradiction.
      * rewrite existsb_app, Q2, orb_false_r. intros W. destruct (V7 W) as [[X|X] _]; rewrite X in K; cbn in K; contradiction.
      * rewrite filter_app, (existsb_false_filter _ _ Q2), app_nil_r. exact V8.
    + intros j _ e0 [<-|[]]. apply Q.
    + intros W. apply wins_ok_frame; auto. intros c0 i h [X|[]]. subst e. destruct (Q c0) as [_ X]. cbn in X. rewrite N.eqb_refl in X. discriminate.
  - subst e.
    assert (NW : existsb (is_win c) tr = false).
    { destruct (existsb (is_win c) tr) eqn:W; auto. destruct (V7 eq_refl) as [[X|X] _]; congruence. }
    split; [|split].
    + constructor.
      * rewrite FV. exact V1.
      * rewrite FR. exact V2.
      * rewrite FR. exact V2'.
      * rewrite LK, A1, A2. exact V3.
      * rewrite LK. intros L. apply existsb_app_false. auto.
      * rewrite filter_app. cbn. rewrite app_nil_r. exact V5.
      * intros X. congruence.
      * intros _. exact HS.
      * intros _. split; [left; exact PW|]. unfold locked. rewrite HS. reflexivity.
      * rewrite filter_app, (existsb_false_filter _ _ NW). cbn. rewrite N.eqb_refl. cbn. lia.
    + intros j NE e [<-|[]]. split; [reflexivity|]. cbn. apply N.eqb_neq. congruence.
    + intros W c0 i0 h0 IN. apply in_app_or in IN. destruct IN as [IN|[EQ|[]]].
      * destruct (W c0 i0 h0 IN) as (LT & R & R1 & R2 & R3). split; auto. exists R. split; auto. split; auto.
        intros m Hm. destruct (R3 m Hm). split; auto. apply existsb_mono. assumption.
      * inversion EQ; subst c0 i0 h0. split; [exact CLT|].
        exists (map fst (filter (fun x => is_ok (snd x)) (n_resps nd))). split; [apply NoDup_map_filter; exact V2|]. split.
        -- rewrite map_length. unfold count_ok, nmembers in MJ. rewrite V1 in MJ. lia.
        -- intros m Hm. apply in_map_iff in Hm. destruct Hm as ([m0 r0] & E0 & Hin). cbn in E0. subst m0.
           apply filter_In in Hin. destruct Hin as [Hin OK]. cbn in OK. split.
           ++ rewrite Forall_forall in V2'. apply (V2' _ Hin).
           ++ apply existsb_mono. eapply V6; eauto.
Qed.

Lemma NI_auto n c nd nd' es tr :
  (N.to_nat c < n)%nat ->
  NI n c nd tr -> auto_finish c nd = (nd', es) -> (forall e, In e es -> is_ghost e = false) ->
  NI n c nd' (tr ++ es) /\ (forall j, j <> c -> quiet_for j es) /\ (wins_ok n tr -> wins_ok n (tr ++ es)).
Proof.
  intros CLT I A G. unfold auto_finish in A.
  assert (TRIV : (nd', es) = (nd, []) -> NI n c nd' (tr ++ es) /\ (forall j, j <> c -> quiet_for j es) /\ (wins_ok n tr -> wins_ok n (tr ++ es))).
  { intros [= -> ->]. rewrite app_nil_r. split; auto. split; auto. intros j _ e []. }
  destruct (phase_kind (n_phase nd)); [|apply TRIV; congruence].
  destruct (all_resolved nd); [|apply TRIV; congruence].
  eapply NI_tally; eauto.
Qed.

Lemma NI_ext n k a b tr :
  NI n k a tr -> n_view b = n_view a -> n_resps b = n_resps a -> same_acc b a -> n_phase b = n_phase a -> NI n k b tr.
Proof.
  intros [V1 V2 V2' V3 V4 V5 V6 V10 V7 V8] EV ER (A1 & A2 & A3 & A4) EP.
  assert (LK : locked k b = locked k a) by (unfold locked, own_role; rewrite A3, EV; reflexivity).
  constructor; rewrite ?EV, ?ER, ?LK, ?A1, ?A2, ?A3, ?EP; auto.
Qed.

(* ---------- starting a phase ---------- *)
Lemma issue_spec k c ep p h a view : forall j ms es,
  issue k c ep p h a j view = (ms, es) ->
  Forall (fun x => (j <= N.to_nat (m_to x) < j + length view)%nat /\ m_from x <> m_to x) ms /\
  Forall (fun x => (j <= N.to_nat (fst x) < j + length view)%nat /\ is_ok (snd x) = false) es /\
  NoDup (map fst es).
Proof.
  induction view as [|ve r IH]; intros j ms es H; cbn in H.
  - inversion H; subst. repeat split; constructor.
  - destruct (issue k c ep p h a (S j) r) as [ms1 es1] eqn:E. destruct (IH _ _ _ E) as (I1 & I2 & I3).
    assert (W1 : Forall (fun x => (j <= N.to_nat (m_to x) < j + length (ve :: r))%nat /\ m_from x <> m_to x) ms1).
    { eapply Forall_impl; [|exact I1]. cbn. intros x [X Y]. split; auto. lia. }
    assert (W2 : Forall (fun x => (j <= N.to_nat (fst x) < j + length (ve :: r))%nat /\ is_ok (snd x) = false) es1).
    { eapply Forall_impl; [|exact I2]. cbn. intros x [X Y]. split; auto. lia. }
    destruct (Nat.eqb j (N.to_nat c)) eqn:J; [inversion H; subst; auto|]. apply Nat.eqb_neq in J.
    destruct (ve_online ve); inversion H; subst.
    + split; [|split; auto]. constructor; auto. cbn. rewrite Nat2N.id. split; [lia|]. intro X. apply J. rewrite X. symmetry. apply Nat2N.id.
    + split; auto. split.
      * constructor; auto. cbn. rewrite Nat2N.id. split; [lia|reflexivity].
      * cbn. constructor; auto. intro X. apply in_map_iff in X. destruct X as (y & Y1 & Y2).
        rewrite Forall_forall in I2. destruct (I2 _ Y2) as [Z _]. rewrite Y1, Nat2N.id in Z. lia.
Qed.

Lemma NI_start n k c nd nd0 pidx ph nd1 ms tr :
  NI n c nd tr -> n_view nd0 = n_view nd -> same_acc nd0 nd ->
  n_phase nd <> PWon -> n_phase nd <> PDone -> ph <> PWon ->
  start_phase k c nd0 pidx ph = (nd1, ms) ->
  NI n c nd1 tr /\ msgs_ok n ms.
Proof.
  intros [V1 V2 V2' V3 V4 V5 V6 V10 V7 V8] EV (A1 & A2 & A3 & A4) NW ND PH S.
  unfold start_phase in S. destruct (issue k c (n_epoch nd0 + 1) pidx (n_vhost nd0) (n_vaof nd0) 0 (n_view nd0)) as [ms0 es0] eqn:E.
  inversion S; subst nd1 ms. clear S. destruct (issue_spec _ _ _ _ _ _ _ _ _ _ E) as (I1 & I2 & I3).
  rewrite EV, V1 in I1, I2.
  assert (LK : forall x, locked c (set_cand nd0 pidx pidx ph (n_vhost nd0) (n_vaof nd0) (n_epoch nd0 + 1) x true) = locked c nd)
    by (intros; unfold locked, own_role; cbn; rewrite A3, EV; reflexivity).
  split.
  - constructor; cbn; rewrite ?LK, ?EV, ?A1, ?A2, ?A3; auto.
    + eapply Forall_impl; [|exact I2]. cbn. intros x [X _]. lia.
    + intros P m r Hin O. rewrite Forall_forall in I2. destruct (I2 _ Hin) as [_ X]. cbn in X. congruence.
    + intros W. destruct (V7 W) as [[X|X] _]; contradiction.
  - eapply Forall_impl; [|exact I1]. cbn. intros x [X Y]. split; auto. lia.
Qed.

(* ---------- voteSucced, restart ---------- *)
Lemma roles_after_nth cfg ph view : forall k i,
  nth_error (roles_after cfg ph k view) i =
  option_map (fun ve => mkVe (if opt_eqb ph (N.of_nat (k + i)) then ROLE_LEADER
                             else if negb (arbiter_of cfg (N.of_nat (k + i)) =? 0) then ROLE_ARBITER else ROLE_FOLLOWER)
                            (ve_online ve) (ve_aof ve)) (nth_error view i).
Proof.
  induction view as [|ve r IH]; intros k [|i]; cbn; auto.
  - rewrite Nat.add_0_r. reflexivity.
  - rewrite IH. replace (S k + i)%nat with (k + S i)%nat by lia. reflexivity.
Qed.

Lemma roles_after_length cfg ph view : forall k, length (roles_after cfg ph k view) = length view.
Proof. induction view; intros; cbn; auto. Qed.

Lemma NI_succeed n cfg c nd tr :
  NI n c nd tr -> n_phase nd = PWon -> (N.to_nat c < n)%nat ->
  NI n c (vote_succed cfg c nd) (tr ++ [EvSucceed c]).
Proof.
  intros I P RG.
  assert (Q : quiet_for c [EvSucceed c]) by (intros e [<-|[]]; split; reflexivity).
  apply (NI_frame _ _ _ _ _ I) in Q. clear I. destruct Q as [V1 V2 V2' V3 V4 V5 V6 V10 V7 V8].
  specialize (V10 P). destruct (n_host nd) as [h|] eqn:H; [|discriminate].
  assert (LB : locked c nd = true) by (unfold locked; rewrite H; reflexivity).
  unfold vote_succed. cbv zeta. rewrite H.
  set (v' := roles_after cfg (Some h) 0 (n_view nd)).
  assert (LV : length v' = n) by (unfold v'; rewrite roles_after_length; exact V1).
  assert (OR : opt_eqb (Some h) c = true -> forall x, own_role (set_view x v') c = ROLE_LEADER).
  { intros E x. unfold own_role, nthN. cbn. unfold v'. rewrite roles_after_nth. cbn [Nat.add]. rewrite N2Nat.id, E.
    destruct (nth_error (n_view nd) (N.to_nat c)) eqn:X; [reflexivity|]. apply nth_error_None in X. lia. }
  match goal with |- NI _ _ ?x _ => set (X := x) end.
  assert (FX : n_view X = v' /\ n_resps X = n_resps nd /\ n_pid X = n_pid nd /\ n_cid X = n_cid nd /\ n_phase X = PDone /\
               (n_host X = Some h \/ opt_eqb (Some h) c = true)).
  { unfold X. destruct (opt_eqb (Some h) c); cbn; repeat split; auto. }
  destruct FX as (F1 & F2 & F3 & F4 & F5 & F6).
  assert (LK : locked c X = true).
  { unfold locked. destruct F6 as [F6|F6]; [rewrite F6; reflexivity|].
    replace (own_role X c) with ROLE_LEADER; [apply orb_true_r|]. symmetry.
    unfold own_role. rewrite F1. apply (OR F6 nd). }
  clearbody X.
  constructor; rewrite ?LK, ?F1, ?F2, ?F3, ?F4, ?F5; auto; try discriminate.
Qed.

Lemma NI_restart n m nd tr :
  NI n m nd tr -> locked m nd = false -> NI n m (restart nd) (tr ++ [EvRestart m]).
Proof.
  intros I UL.
  assert (Q : quiet_for m [EvRestart m]) by (intros e [<-|[]]; split; reflexivity).
  apply (NI_frame _ _ _ _ _ I) in Q. clear I. destruct Q as [V1 V2 V2' V3 V4 V5 V6 V10 V7 V8].
  assert (LK : locked m (restart nd) = false).
  { unfold locked, restart, own_role, nthN. cbn. rewrite nth_error_map. destruct (nth_error (n_view nd) (N.to_nat m)); reflexivity. }
  constructor; rewrite ?LK; cbn; auto; try discriminate.
  - rewrite map_length. exact V1.
  - constructor.
  - intros W. destruct (V7 W) as [_ X]. congruence.
Qed.

(* ---------- one step ---------- *)
Lemma Inv_put n s tr k nd nd' es :
  Inv n s tr -> getn s k = Some nd -> NI n k nd' (tr ++ es) -> (forall j, j <> k -> quiet_for j es) ->
  wins_ok n (tr ++ es) -> Inv n (putn s k nd') (tr ++ es).
Proof.
  intros I G N Q W. pose proof (Inv_update n s tr k nd nd' es [] I G N Q (Forall_nil _) W) as H.
  rewrite app_nil_r in H. exact H.
Qed.

Lemma cok_self c k r : cok c (EvSelf c k r) = is_cok_reply k r.
Proof. destruct k, r; cbn; auto. apply N.eqb_refl. Qed.
Lemma cok_reply f t k r : cok t (EvReply f t k r) = is_cok_reply k r.
Proof. destruct k, r; cbn; auto. apply N.eqb_refl. Qed.

Lemma handle_commit_ok isself cfg t nd f p h a r nd' :
  handle isself cfg t nd KCommit f p h a = (r, nd') -> is_ok r = true -> exists id, r = ROk id.
Proof.
  cbn. unfold on_commit. destruct (nthN (n_view nd) h); [|intros [= <- _]; discriminate].
  destruct (negb (n_pid nd =? p)); [intros [= <- _]; discriminate|].
  destruct (p <=? n_cid nd); intros [= <- _]; [discriminate|eauto].
Qed.

Lemma phase_kind_commit ph k : phase_kind ph = Some k -> ph = PCommitting -> k = KCommit.
Proof. intros H ->. cbn in H. congruence. Qed.

Lemma kind_phase_commit k : kind_phase k PCommitting = true -> k = KCommit.
Proof. destruct k; cbn; congruence. Qed.

Lemma find_last_in ms c m : forall acc x, find_last ms c m acc = Some x -> In x ms \/ acc = Some x.
Proof.
  induction ms as [|y r IH]; cbn; intros acc x H; [auto|].
  apply IH in H. destruct H as [H|H]; [auto|]. destruct ((m_from y =? c) && (m_to y =? m)); [inversion H; auto|auto].
Qed.

Lemma getn_lt n s tr k nd : Inv n s tr -> getn s k = Some nd -> (N.to_nat k < n)%nat.
Proof. intros I G. rewrite <- (inv_len _ _ _ I). eapply nthN_lt; eauto. Qed.

Lemma no_ghost_cons e es : (forall x, In x (e :: es) -> is_ghost x = false) -> forall x, In x es -> is_ghost x = false.
Proof. intros H x Hx. apply H. right. exact Hx. Qed.

Lemma deliver_inv n cfg s tr x lost s' es :
  Inv n s tr -> In x (sent s) -> deliver cfg s x lost = (s', es) -> (forall e, In e es -> is_ghost e = false) ->
  Inv n s' (tr ++ es).
Proof.
  intros I Hx D G. unfold deliver in D.
  pose proof (inv_msgs _ _ _ I) as MS. unfold msgs_ok in MS. rewrite Forall_forall in MS. destruct (MS _ Hx) as [TO NE].
  destruct (getn s (m_to x)) as [t|] eqn:GT; [|inversion D; subst; rewrite app_nil_r; exact I].
  destruct (handle false cfg (m_to x) t (m_kind x) (m_from x) (m_pid x) (m_host x) (m_aof x)) as [r t'] eqn:H.
  set (e1 := EvReply (m_from x) (m_to x) (m_kind x) r) in *.
  assert (I1 : Inv n (putn s (m_to x) t') (tr ++ [e1])).
  { eapply Inv_put; eauto.
    - exact (NI_handle n false cfg (m_to x) t (m_kind x) (m_from x) (m_pid x) (m_host x) (m_aof x) r t' tr e1
               (inv_nodes _ _ _ I _ _ GT) H (cok_reply _ _ _ _) eq_refl).
    - intros j NJ e [<-|[]]. split; [|reflexivity]. unfold e1. destruct (m_kind x), r; cbn; auto. apply N.eqb_neq. congruence.
    - apply wins_ok_frame; [apply (inv_wins _ _ _ I)|]. intros ? ? ? [X|[]]. discriminate. }
  destruct (getn (putn s (m_to x) t') (m_from x)) as [cnd|] eqn:GC.
  2:{ inversion D; subst. exact I1. }
  destruct ((n_epoch cnd =? m_epoch x) && kind_phase (m_kind x) (n_phase cnd)) eqn:LIVE.
  2:{ inversion D; subst. exact I1. }
  apply andb_true_iff in LIVE. destruct LIVE as [_ KP].
  destruct (auto_finish (m_from x) (record true cnd (m_to x) (if lost then RLost else r))) as [cnd1 es2] eqn:AF.
  inversion D; subst s' es. clear D.
  pose proof (inv_nodes _ _ _ I1 _ _ GC) as NC.
  destruct (NI_record n true (m_from x) cnd (m_to x) (if lost then RLost else r) (tr ++ [e1]) NC) as (NR & _).
  - intros _. exact NE.
  - exact TO.
  - intros PC OK. rewrite PC in KP. apply kind_phase_commit in KP.
    destruct lost; [discriminate|]. rewrite KP in H. destruct (handle_commit_ok _ _ _ _ _ _ _ _ _ _ H OK) as [id ->].
    rewrite existsb_app. unfold e1. rewrite KP. cbn. rewrite !N.eqb_refl. cbn. apply orb_true_r.
  - destruct (NI_auto n (m_from x) _ cnd1 es2 (tr ++ [e1]) (getn_lt _ _ _ _ _ I1 GC) NR AF (no_ghost_cons _ _ G)) as (NA & QA & WA).
    replace (tr ++ e1 :: es2) with ((tr ++ [e1]) ++ es2) by (rewrite <- app_assoc; reflexivity).
    eapply Inv_put; eauto. apply WA. apply (inv_wins _ _ _ I1).
Qed.

Lemma step_inv n cfg s tr a s' es :
  Inv n s tr -> step cfg s a = (s', es) -> (forall e, In e es -> is_ghost e = false) -> Inv n s' (tr ++ es).
Proof.
  intros I S G.
  assert (TRIV : (s', es) = (s, []) -> Inv n s' (tr ++ es)) by (intros [= -> ->]; rewrite app_nil_r; exact I).
  assert (QS : forall c k j, quiet_for j [EvStart c k]) by (intros c k j e [<-|[]]; split; reflexivity).
  assert (WS : forall c k, wins_ok n (tr ++ [EvStart c k])).
  { intros. apply wins_ok_frame; [apply (inv_wins _ _ _ I)|]. intros ? ? ? [X|[]]. discriminate. }
  destruct a as [c|c|c|c|c m lost|i lost|c|c|m]; cbn in S.
  - (* AStartVote *)
    destruct (getn s c) as [nd|] eqn:GN; [|apply TRIV; congruence].
    destruct (n_phase nd) eqn:P; try (apply TRIV; congruence).
    match type of S with (let '(_, _) := start_phase ?k ?c ?nd0 ?pi ?ph in _) = _ => destruct (start_phase k c nd0 pi ph) as [nd1 ms] eqn:SP end.
    inversion S; subst s' es. clear S.
    pose proof (inv_nodes _ _ _ I _ _ GN) as NN.
    assert (X : NI n c nd1 tr /\ msgs_ok n ms).
    { refine (NI_start n _ c nd _ _ _ nd1 ms tr NN _ _ _ _ _ SP); try (rewrite P; discriminate); try discriminate;
        [reflexivity|unfold same_acc; cbn; auto]. }
    destruct X as [N1 M1].
    eapply Inv_update; eauto. apply NI_frame; auto.
  - (* AStartProp *)
    destruct (getn s c) as [nd|] eqn:GN; [|apply TRIV; congruence].
    destruct (n_phase nd) eqn:P; try (apply TRIV; congruence).
    match type of S with (let '(_, _) := start_phase ?k ?c ?nd0 ?pi ?ph in _) = _ => destruct (start_phase k c nd0 pi ph) as [nd1 ms] eqn:SP end.
    inversion S; subst s' es. clear S.
    pose proof (inv_nodes _ _ _ I _ _ GN) as NN.
    assert (X : NI n c nd1 tr /\ msgs_ok n ms).
    { refine (NI_start n _ c nd _ _ _ nd1 ms tr NN _ _ _ _ _ SP); try (rewrite P; discriminate); try discriminate;
        [reflexivity|unfold same_acc; cbn; auto]. }
    destruct X as [N1 M1].
    eapply Inv_update; eauto. apply NI_frame; auto.
  - (* AStartCommit *)
    destruct (getn s c) as [nd|] eqn:GN; [|apply TRIV; congruence].
    destruct (n_phase nd) eqn:P; try (apply TRIV; congruence).
    match type of S with (let '(_, _) := start_phase ?k ?c ?nd0 ?pi ?ph in _) = _ => destruct (start_phase k c nd0 pi ph) as [nd1 ms] eqn:SP end.
    inversion S; subst s' es. clear S.
    pose proof (inv_nodes _ _ _ I _ _ GN) as NN.
    assert (X : NI n c nd1 tr /\ msgs_ok n ms).
    { refine (NI_start n _ c nd _ _ _ nd1 ms tr NN _ _ _ _ _ SP); try (rewrite P; discriminate); try discriminate;
        [reflexivity|unfold same_acc; cbn; auto]. }
    destruct X as [N1 M1].
    eapply Inv_update; eauto. apply NI_frame; auto.
  - (* ASelf *)
    destruct (getn s c) as [nd|] eqn:GN; [|apply TRIV; congruence].
    destruct (do_self cfg c nd) as [nd1 es1] eqn:DS. inversion S; subst s' es. clear S.
    unfold do_self in DS.
    assert (TR2 : (nd1, es1) = (nd, []) -> Inv n (putn s c nd1) (tr ++ es1)).
    { intros [= -> ->]. rewrite app_nil_r. eapply Inv_put with (es := []) in I; eauto.
      - rewrite app_nil_r in I. exact I.
      - rewrite app_nil_r. apply (inv_nodes _ _ _ I _ _ GN).
      - intros j _ e [].
      - rewrite app_nil_r. apply (inv_wins _ _ _ I). }
    destruct (n_selfpend nd); [|apply TR2; congruence].
    destruct (phase_kind (n_phase nd)) as [k|] eqn:PK; [|apply TR2; congruence].
    destruct (handle true cfg c nd k c (n_sidx nd) (n_vhost nd) (n_vaof nd)) as [r nd2] eqn:H.
    match type of DS with (let '(_, _) := auto_finish c (record false ?x c r) in _) = _ => set (nd3 := x) in * end.
    destruct (auto_finish c (record false nd3 c r)) as [nd4 es2] eqn:AF. inversion DS; subst nd1 es1. clear DS.
    set (e1 := EvSelf c k r) in *.
    pose proof (inv_nodes _ _ _ I _ _ GN) as NN.
    assert (N2 : NI n c nd2 (tr ++ [e1]))
      by exact (NI_handle n true cfg c nd k c (n_sidx nd) (n_vhost nd) (n_vaof nd) r nd2 tr e1 NN H (cok_self _ _ _) eq_refl).
    destruct (handle_effect _ _ _ _ _ _ _ _ _ _ _ H) as ((P1 & _) & _).
    assert (N3 : NI n c nd3 (tr ++ [e1])) by (eapply NI_ext; eauto; unfold nd3, same_acc; cbn; auto).
    destruct (NI_record n false c nd3 c r (tr ++ [e1]) N3) as (NR & _).
    + discriminate.
    + eapply getn_lt; eauto.
    + intros PC OK. assert (PC' : n_phase nd = PCommitting) by (unfold nd3 in PC; cbn in PC; congruence).
      pose proof (phase_kind_commit _ _ PK PC') as ->. destruct (handle_commit_ok _ _ _ _ _ _ _ _ _ _ H OK) as [id ->].
      rewrite existsb_app. unfold e1. cbn. rewrite !N.eqb_refl. cbn. apply orb_true_r.
    + destruct (NI_auto n c _ nd4 es2 (tr ++ [e1]) (getn_lt _ _ _ _ _ I GN) NR AF (no_ghost_cons _ _ G)) as (NA & QA & WA).
      rewrite <- app_assoc in NA. cbn [app] in NA.
      apply (Inv_put n s tr c nd nd4 (e1 :: es2) I GN NA).
      * intros j NJ e [<-|IN]; [|apply (QA j NJ e IN)].
        split; [|reflexivity]. unfold e1. destruct k, r; cbn; auto. apply N.eqb_neq. congruence.
      * assert (W1 : wins_ok n (tr ++ [e1])).
        { apply wins_ok_frame; [apply (inv_wins _ _ _ I)|]. intros ? ? ? [X|[]]. discriminate. }
        apply WA in W1. rewrite <- app_assoc in W1. exact W1.
  - (* ADeliver *)
    destruct (find_last (sent s) c m None) as [x|] eqn:F; [|apply TRIV; congruence].
    apply find_last_in in F. destruct F as [F|F]; [|discriminate]. eapply deliver_inv; eauto.
  - (* ADeliverIdx *)
    destruct (nthN (sent s) i) as [x|] eqn:F; [|apply TRIV; congruence].
    eapply deliver_inv; eauto. eapply nth_error_In. exact F.
  - (* AFinish *)
    destruct (getn s c) as [nd|] eqn:GN; [|apply TRIV; congruence].
    destruct (n_selfpend nd); [apply TRIV; congruence|].
    destruct (tally c nd) as [nd2 es2] eqn:T. inversion S; subst s' es. clear S.
    destruct (NI_tally n c nd nd2 es2 tr (getn_lt _ _ _ _ _ I GN) (inv_nodes _ _ _ I _ _ GN) T G) as (NA & QA & WA).
    eapply Inv_put; eauto. apply WA. apply (inv_wins _ _ _ I).
  - (* ASucceed *)
    destruct (getn s c) as [nd|] eqn:GN; [|apply TRIV; congruence].
    destruct (n_phase nd) eqn:P; try (apply TRIV; congruence).
    inversion S; subst s' es. clear S.
    eapply Inv_put; eauto.
    + apply NI_succeed; auto. apply (inv_nodes _ _ _ I _ _ GN). eapply getn_lt; eauto.
    + intros j _ e [<-|[]]. split; reflexivity.
    + apply wins_ok_frame; [apply (inv_wins _ _ _ I)|]. intros ? ? ? [X|[]]. discriminate.
  - (* ARestart *)
    destruct (getn s m) as [nd|] eqn:GN; [|apply TRIV; congruence].
    inversion S; subst s' es. clear S.
    destruct (locked m nd) eqn:L.
    { specialize (G (EvLostLock m)). cbn in G. discriminate G. auto. }
    eapply Inv_put; eauto.
    + apply NI_restart; auto. apply (inv_nodes _ _ _ I _ _ GN).
    + intros j _ e [<-|[]]. split; reflexivity.
    + apply wins_ok_frame; [apply (inv_wins _ _ _ I)|]. intros ? ? ? [X|[]]. discriminate.
Qed.


(* ---------- all schedules ---------- *)
Lemma run_inv n cfg : forall acts s tr s' es,
  Inv n s tr -> run cfg s acts = (s', es) -> (forall e, In e es -> is_ghost e = false) -> Inv n s' (tr ++ es).
Proof.
  induction acts as [|a r IH]; intros s tr s' es I R G; cbn in R.
  - inversion R; subst. rewrite app_nil_r. exact I.
  - destruct (step cfg s a) as [s1 e1] eqn:S. destruct (run cfg s1 r) as [s2 es2] eqn:R2. inversion R; subst s' es. clear R.
    rewrite app_assoc. eapply IH; eauto.
    + eapply step_inv; eauto. intros e He. apply G. apply in_or_app. auto.
    + intros e He. apply G. apply in_or_app. auto.
Qed.

Definition wins (es : list event) : list (N * N * N) :=
  flat_map (fun e => match e with EvWin c i h => [(c, i, h)] | _ => [] end) es.

Lemma wins_filter c0 tr : (forall c i h, In (EvWin c i h) tr -> c = c0) -> length (wins tr) = length (filter (is_win c0) tr).
Proof.
  induction tr as [|e r IH]; cbn; auto. intros H.
  assert (H' : forall c i h, In (EvWin c i h) r -> c = c0) by (intros; eapply H; eauto).
  destruct e as [| | | | | |c i h| | | | |]; cbn; auto. rewrite (H c i h (or_introl eq_refl)), N.eqb_refl. cbn. f_equal. auto.
Qed.

Lemma existsb_witness {A} (f : A -> bool) l : existsb f l = true -> exists x, In x l /\ f x = true.
Proof. apply existsb_exists. Qed.

Lemma majority_nat n : N.to_nat (majority (N.of_nat n)) = (n / 2 + 1)%nat.
Proof. unfold majority. rewrite N2Nat.inj_add, N2Nat.inj_div, Nat2N.id. reflexivity. Qed.

(* two candidates with a commit majority share a member that answered "commit ok" to both: excluded by ni_once *)
Lemma winners_same_candidate n s tr c1 i1 h1 c2 i2 h2 :
  Inv n s tr -> In (EvWin c1 i1 h1) tr -> In (EvWin c2 i2 h2) tr -> c1 = c2.
Proof.
  intros I W1 W2. destruct (N.eq_dec c1 c2) as [E|NE]; [exact E|exfalso].
  destruct (inv_wins _ _ _ I _ _ _ W1) as (_ & R1 & D1 & L1 & M1).
  destruct (inv_wins _ _ _ I _ _ _ W2) as (_ & R2 & D2 & L2 & M2).
  rewrite majority_nat in L1, L2.
  set (U := map N.of_nat (seq 0 n)).
  assert (INC : forall c R, (forall m, In m R -> (N.to_nat m < n)%nat /\ existsb (cokfrom c m) tr = true) -> incl R U).
  { intros c R HR m Hm. destruct (HR m Hm) as [LT _]. unfold U. apply in_map_iff. exists (N.to_nat m). split;
     [apply N2Nat.id|apply in_seq; lia]. }
  destruct (quorum_intersect N.eq_dec U R1 R2 D1 D2 (INC _ _ M1) (INC _ _ M2)) as (m & A & B).
  { unfold U. rewrite map_length, seq_length. apply two_majorities_nat; assumption. }
  destruct (M1 m A) as [LT X1]. destruct (M2 m B) as [_ X2].
  apply existsb_witness in X1. apply existsb_witness in X2. destruct X1 as (e1 & I1 & F1), X2 as (e2 & I2 & F2).
  assert (NE' : e1 <> e2) by (intro; subst; apply NE; eapply cokfrom_inj; eauto).
  pose proof (two_in_filter (cok m) tr e1 e2 I1 I2 NE' (cokfrom_cok _ _ _ F1) (cokfrom_cok _ _ _ F2)) as T.
  assert (GM : exists nd, getn s m = Some nd).
  { unfold getn, nthN. destruct (nth_error (nodes s) (N.to_nat m)) eqn:X; eauto. apply nth_error_None in X. rewrite (inv_len _ _ _ I) in X. lia. }
  destruct GM as [nd GM]. pose proof (ni_once _ _ _ _ (inv_nodes _ _ _ I _ _ GM)). lia.
Qed.

Theorem single_winner_of_Inv n s tr : Inv n s tr -> (length (wins tr) <= 1)%nat.
Proof.
  intros I. destruct (wins tr) as [|[[c0 i0] h0] rest] eqn:W; [cbn; lia|].
  assert (W0 : In (EvWin c0 i0 h0) tr).
  { assert (X : In (c0, i0, h0) (wins tr)) by (rewrite W; left; reflexivity).
    unfold wins in X. apply in_flat_map in X. destruct X as (e & He & Hx). destruct e; cbn in Hx; try tauto.
    destruct Hx as [Hx|[]]. inversion Hx; subst. exact He. }
  rewrite <- W. rewrite (wins_filter c0).
  - destruct (inv_wins _ _ _ I _ _ _ W0) as (LT & _).
    assert (GM : exists nd, getn s c0 = Some nd).
    { unfold getn, nthN. destruct (nth_error (nodes s) (N.to_nat c0)) eqn:X; eauto. apply nth_error_None in X. rewrite (inv_len _ _ _ I) in X. lia. }
    destruct GM as [nd GM]. apply (ni_win_once _ _ _ _ (inv_nodes _ _ _ I _ _ GM)).
  - intros c i h Hc. eapply winners_same_candidate; eauto.
Qed.
