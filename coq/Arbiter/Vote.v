(* C12 — log-position order and candidate choice.
   Transcription of server/arbiter.go:
     ArbiterManager.CompareAofId   (2073-2100)
     ArbiterVoter.DoVote selection loop (1123-1150)
   An AofId is 16 bytes; CompareAofId reads it as two uint64: `aid` (bytes 0-3 = high half, bytes 4-7 = low half,
   i.e. aofIndex<<32|aofOffset) and `commandTime` (bytes 8-15 little endian).  [aofid_of_bytes] is the byte-level
   transcription; the rest of the model works on the decoded pair. *)
From Coq Require Import List NArith ZArith Bool Lia.
Import ListNotations.
Open Scope N_scope.

Record aofid := mkAof { aid : N; ctime : N }.

Definition aof_zero : aofid := mkAof 0 0.
Definition M64 : N := 18446744073709551616.          (* 2^64 *)
Definition WRAP : N := 9223372032559808512.          (* 0x7fffffff00000000 *)

Definition byte_at (l : list N) (i : nat) : N := nth i l 0.

(* uint64(a[0])<<32 | uint64(a[1])<<40 | uint64(a[2])<<48 | uint64(a[3])<<56 | uint64(a[4]) | uint64(a[5])<<8 | ... *)
Definition aofid_of_bytes (a : list N) : aofid :=
  mkAof
    (N.lor (N.lor (N.lor (N.lor (N.lor (N.lor (N.lor
       (N.shiftl (byte_at a 0) 32) (N.shiftl (byte_at a 1) 40)) (N.shiftl (byte_at a 2) 48)) (N.shiftl (byte_at a 3) 56))
       (byte_at a 4)) (N.shiftl (byte_at a 5) 8)) (N.shiftl (byte_at a 6) 16)) (N.shiftl (byte_at a 7) 24))
    (N.lor (N.lor (N.lor (N.lor (N.lor (N.lor (N.lor
       (byte_at a 8) (N.shiftl (byte_at a 9) 8)) (N.shiftl (byte_at a 10) 16)) (N.shiftl (byte_at a 11) 24))
       (N.shiftl (byte_at a 12) 32)) (N.shiftl (byte_at a 13) 40)) (N.shiftl (byte_at a 14) 48)) (N.shiftl (byte_at a 15) 56)).

Definition aofid_eqb (a b : aofid) : bool := (aid a =? aid b) && (ctime a =? ctime b).

(* CompareAofId, statement by statement (uint64 subtractions never wrap: guarded by the preceding comparison). *)
Definition compareAofId (a b : aofid) : Z :=
  if aofid_eqb a b then 0%Z
  else if aid b <? aid a then (if WRAP <=? aid a - aid b then (-1)%Z else 1%Z)
  else if aid a <? aid b then (if WRAP <=? aid b - aid a then 1%Z else (-1)%Z)
  else if ctime b <? ctime a then 1%Z
  else (-1)%Z.

Definition aof_gt (a b : aofid) : bool := (0 <? compareAofId a b)%Z.   (* "CompareAofId(a, b) > 0" *)

Definition wf_aof (a : aofid) : Prop := aid a < M64 /\ ctime a < M64.

Lemma aofid_eqb_eq a b : aofid_eqb a b = true <-> a = b.
Proof.
  destruct a as [x y], b as [x' y']; unfold aofid_eqb; cbn.
  rewrite andb_true_iff, !N.eqb_eq. split; [intros [-> ->]; reflexivity | intros H; inversion H; auto].
Qed.

Lemma aofid_eqb_refl a : aofid_eqb a a = true.
Proof. apply aofid_eqb_eq; reflexivity. Qed.

(* ---------- global facts (no window needed) ---------- *)

Lemma compare_refl a : compareAofId a a = 0%Z.
Proof. unfold compareAofId. rewrite aofid_eqb_refl. reflexivity. Qed.

Lemma compare_zero_iff a b : compareAofId a b = 0%Z <-> a = b.
Proof.
  split; [|intros ->; apply compare_refl].
  unfold compareAofId. destruct (aofid_eqb a b) eqn:E; [intros _; apply aofid_eqb_eq; exact E|].
  repeat match goal with |- context [if ?c then _ else _] => destruct c end; discriminate.
Qed.

Lemma compare_antisym a b : compareAofId b a = (- compareAofId a b)%Z.
Proof.
  unfold compareAofId.
  destruct (aofid_eqb a b) eqn:E.
  - apply aofid_eqb_eq in E. subst. rewrite aofid_eqb_refl. reflexivity.
  - assert (E' : aofid_eqb b a = false).
    { destruct (aofid_eqb b a) eqn:E2; auto. apply aofid_eqb_eq in E2. subst. rewrite aofid_eqb_refl in E. discriminate. }
    rewrite E'.
    destruct (aid b <? aid a) eqn:H1; destruct (aid a <? aid b) eqn:H2;
      try (apply N.ltb_lt in H1); try (apply N.ltb_lt in H2); try (apply N.ltb_ge in H1); try (apply N.ltb_ge in H2);
      try lia.
    + destruct (WRAP <=? aid a - aid b); reflexivity.
    + destruct (WRAP <=? aid b - aid a); reflexivity.
    + assert (aid a = aid b) by lia.
      assert (ctime a <> ctime b).
      { intro. destruct a, b; cbn in *; subst. rewrite aofid_eqb_refl in E. discriminate. }
      destruct (ctime b <? ctime a) eqn:H3; destruct (ctime a <? ctime b) eqn:H4;
        try (apply N.ltb_lt in H3); try (apply N.ltb_lt in H4); try (apply N.ltb_ge in H3); try (apply N.ltb_ge in H4);
        try lia; reflexivity.
Qed.

Lemma compare_range a b : compareAofId a b = 0%Z \/ compareAofId a b = 1%Z \/ compareAofId a b = (-1)%Z.
Proof.
  unfold compareAofId.
  repeat match goal with |- context [if ?c then _ else _] => destruct c end; auto.
Qed.

(* ---------- the window: ids whose `aid` lies less than WRAP above a common origin (mod 2^64) ---------- *)

Definition key (o : N) (a : aofid) : N := (aid a + M64 - o) mod M64.
Definition inwin (o : N) (a : aofid) : Prop := key o a < WRAP.

(* lexicographic comparison of (key, ctime) *)
Definition lexcmp (k1 t1 k2 t2 : N) : Z :=
  if k1 <? k2 then (-1)%Z else if k2 <? k1 then 1%Z
  else if t1 <? t2 then (-1)%Z else if t2 <? t1 then 1%Z else 0%Z.

Lemma key_cases o a : o < M64 -> aid a < M64 ->
  (o <= aid a /\ key o a = aid a - o) \/ (aid a < o /\ key o a = aid a + M64 - o).
Proof.
  intros Ho Ha. unfold key.
  destruct (N.le_gt_cases o (aid a)) as [H|H].
  - left. split; auto.
    replace (aid a + M64 - o) with ((aid a - o) + 1 * M64) by lia.
    rewrite N.mod_add by (unfold M64; lia). apply N.mod_small. lia.
  - right. split; auto. apply N.mod_small. lia.
Qed.

Theorem compare_in_window o a b :
  o < M64 -> wf_aof a -> wf_aof b -> inwin o a -> inwin o b ->
  compareAofId a b = lexcmp (key o a) (ctime a) (key o b) (ctime b).
Proof.
  intros Ho [Ha _] [Hb _] Wa Wb. unfold inwin in *.
  destruct (key_cases o a Ho Ha) as [[Ca Ka]|[Ca Ka]];
  destruct (key_cases o b Ho Hb) as [[Cb Kb]|[Cb Kb]];
  rewrite Ka in *; rewrite Kb in *; unfold compareAofId, lexcmp, aofid_eqb;
  unfold WRAP, M64 in *;
  destruct (aid a =? aid b) eqn:E1; [apply N.eqb_eq in E1|apply N.eqb_neq in E1| apply N.eqb_eq in E1|apply N.eqb_neq in E1
                                     | apply N.eqb_eq in E1|apply N.eqb_neq in E1| apply N.eqb_eq in E1|apply N.eqb_neq in E1];
  destruct (ctime a =? ctime b) eqn:E2; [apply N.eqb_eq in E2|apply N.eqb_neq in E2| apply N.eqb_eq in E2|apply N.eqb_neq in E2
                                     | apply N.eqb_eq in E2|apply N.eqb_neq in E2| apply N.eqb_eq in E2|apply N.eqb_neq in E2
                                     | apply N.eqb_eq in E2|apply N.eqb_neq in E2| apply N.eqb_eq in E2|apply N.eqb_neq in E2
                                     | apply N.eqb_eq in E2|apply N.eqb_neq in E2| apply N.eqb_eq in E2|apply N.eqb_neq in E2];
  cbn [andb];
  repeat match goal with
         | |- context [if ?x <? ?y then _ else _] =>
             let H := fresh in destruct (x <? y) eqn:H; [apply N.ltb_lt in H | apply N.ltb_ge in H]
         | |- context [if ?x <=? ?y then _ else _] =>
             let H := fresh in destruct (x <=? y) eqn:H; [apply N.leb_le in H | apply N.leb_gt in H]
         end; try reflexivity; try lia.
Qed.

(* ---------- strict order "older than" ---------- *)

Definition aof_lt (a b : aofid) : Prop := compareAofId a b = (-1)%Z.

Theorem aof_lt_irrefl a : ~ aof_lt a a.
Proof. unfold aof_lt. rewrite compare_refl. discriminate. Qed.

Theorem aof_lt_asym a b : aof_lt a b -> ~ aof_lt b a.
Proof. unfold aof_lt. intros H. rewrite compare_antisym, H. discriminate. Qed.

Theorem aof_lt_total a b : a <> b -> aof_lt a b \/ aof_lt b a.
Proof.
  intros H. unfold aof_lt. rewrite (compare_antisym a b).
  destruct (compare_range a b) as [E|[E|E]]; rewrite E; auto.
  apply compare_zero_iff in E. contradiction.
Qed.

Theorem aof_lt_trans_in_window o a b c :
  o < M64 -> wf_aof a -> wf_aof b -> wf_aof c -> inwin o a -> inwin o b -> inwin o c ->
  aof_lt a b -> aof_lt b c -> aof_lt a c.
Proof.
  intros Ho Wa Wb Wc Ia Ib Ic. unfold aof_lt.
  rewrite (compare_in_window o a b), (compare_in_window o b c), (compare_in_window o a c) by assumption.
  unfold lexcmp.
  repeat match goal with
         | |- context [if ?x <? ?y then _ else _] =>
             let H := fresh in destruct (x <? y) eqn:H; [apply N.ltb_lt in H | apply N.ltb_ge in H]
         end; intros; try discriminate; try reflexivity; try lia.
Qed.

(* Outside a window the relation is NOT transitive: three ids a third of the circle apart are cyclic. *)
Example aof_lt_not_transitive_globally :
  exists a b c, wf_aof a /\ wf_aof b /\ wf_aof c /\ aof_lt a b /\ aof_lt b c /\ aof_lt c a.
Proof.
  exists (mkAof 0 0), (mkAof 6148914691236517205 0), (mkAof 12297829382473034410 0).
  unfold wf_aof, aof_lt, M64; cbn [aid ctime]. repeat split; try lia; vm_compute; reflexivity.
Qed.

