(* C12 — executable model of slock's leader election (server/arbiter.go).

   One [node] per cluster member = the election-relevant part of one ArbiterManager:
     acceptor side  : ArbiterVoter.{proposalId, commitId, proposalHost, proposalFromHost}
     durable        : meta.pb CommitId (ArbiterStore.Save/Load)
     log            : own log position (ReplicationManager.GetCurrentAofID)
     membership view: per member (role, status==ONLINE, aofId) as kept in ArbiterMember
     candidate side : ArbiterVoter.{proposalIndex, voteHost, voteAofId} + the control state of one run of
                      DoVote / DoProposal / DoCommit / voteSucced (phase, responses collected by DoRequests).

   Handlers transcribed (statement order = order of the checks in the Go code):
     on_vote      commandHandleVoteCommand 2156-2182  and the isSelf branch of ArbiterMember.DoVote 719-728
     on_proposal  commandHandleProposalCommand 2184-2262  (isself=false)  /  DoSelfProposal 764-807 (isself=true)
     on_commit    commandHandleCommitCommand 2264-2317    (isself=false)  /  DoSelfCommit 854-881 (isself=true)
     current_aof  GetCurrentAofID 2044-2062
   Candidate: start_vote/finish_vote = ArbiterVoter.DoVote 1113-1163, start_prop/finish_prop = DoProposal 1165-1197,
     start_commit/finish_commit = DoCommit 1199-1218, vote_succed = the local part of voteSucced 1750-1777
     (roles, clearing of proposalHost when the winner is oneself, store.Save), restart = NewArbiterManager +
     ArbiterStore.Load 59-119 + ArbiterManager.Load 1380-1399 (proposalId := commitId := saved CommitId).
   Save sites of arbiter.go: Config, AddMember, RemoveMember, UpdateMember, QuitLeader, voteSucced and the
   announcement handler. Only voteSucced lies inside an election (membership changes, quitting and announcements
   are outside the quantifier of C12), so it is the only [n_saved :=] in [step]; in particular NEITHER commit
   handler saves.

   Atomic actions (a schedule is ANY list of them; disabled actions are no-ops):
     AStartVote c / AStartProp c / AStartCommit c   candidate c enters the phase: DoRequests issues one request per
                                                    member (a request to a member that is not ONLINE in c's view
                                                    fails at once; the request to itself is a pending local call)
     ASelf c            the goroutine for c's own member runs (DoVote self branch / DoSelfProposal / DoSelfCommit)
     ADeliver c m lost  the newest request c->m reaches m, m's handler runs; the reply reaches c unless [lost]
     ADeliverIdx i lost same for the i-th request ever sent (stale and duplicate deliveries)
     AFinish c          every request of c still unanswered fails (connection error), so DoRequests returns and the phase
                        is tallied; disabled while the own-member goroutine has not run.  The tally also runs by itself
                        at the moment the last outstanding request of the phase is answered (ASelf / ADeliver)
     ASucceed c         local part of voteSucced
     ARestart m         process restart of m from its meta file
   A request that is never delivered is a lost request. *)
From Coq Require Import List NArith ZArith Bool Lia.
From Slock Require Import Arbiter.Vote Arbiter.Select.
Import ListNotations.
Open Scope N_scope.

Definition ROLE_UNKNOWN : N := 0.
Definition ROLE_LEADER : N := 1.
Definition ROLE_FOLLOWER : N := 2.
Definition ROLE_ARBITER : N := 3.

(* reply codes *)
Definition E_REJECT : N := 1.      (* ERR_REJECT  -> ProposalRejectError *)
Definition E_ROLE : N := 2.        (* ERR_ROLE *)
Definition E_STATUS : N := 3.      (* ERR_STATUS *)
Definition E_AOFID : N := 4.       (* ERR_AOFID *)
Definition E_HOST : N := 5.        (* ERR_HOST *)
Definition E_OFFLINE : N := 6.     (* ERR_OFFLINE *)
Definition E_PROPOSALID : N := 7.  (* ERR_PROPOSALID *)
Definition E_COMMITID : N := 8.    (* ERR_COMMITID *)
Definition E_NOTONLINE : N := 10.  (* candidate side: errors.New("not online") *)

Record mcfg := mkCfg { c_weight : N; c_arbiter : N }.
Record viewent := mkVe { ve_role : N; ve_online : bool; ve_aof : aofid }.

Inductive resp :=
| RLost
| RVote (v : vresp)
| RVoteErr
| ROk (id : N)
| RErr (code : N) (id : N).

Inductive phase := PIdle | PVoting | PVoted | PProposing | PProposed | PCommitting | PWon | PDone.

Inductive kind := KVote | KProp | KCommit.

Record msg := mkMsg { m_kind : kind; m_from : N; m_to : N; m_epoch : N; m_pid : N; m_host : N; m_aof : aofid }.

Record node := mkNode {
  n_pid : N; n_cid : N; n_host : option N; n_from : option N;
  n_saved : N;
  n_log : aofid;
  n_abst : bool;
  n_view : list viewent;
  n_pidx : N; n_sidx : N; n_phase : phase; n_vhost : N; n_vaof : aofid;
  n_epoch : N; n_resps : list (N * resp); n_selfpend : bool
}.

Record state := mkState { nodes : list node; sent : list msg }.

Inductive action :=
| AStartVote (c : N) | AStartProp (c : N) | AStartCommit (c : N)
| ASelf (c : N) | ADeliver (c m : N) (lost : bool) | ADeliverIdx (i : N) (lost : bool)
| AFinish (c : N) | ASucceed (c : N) | ARestart (m : N).

Inductive event :=
| EvNone
| EvStart (c : N) (k : kind)
| EvReply (frm to : N) (k : kind) (r : resp)       (* handler at [to] ran on a request of [frm] and produced r *)
| EvSelf (c : N) (k : kind) (r : resp)
| EvVoted (c : N) (ok : bool) (host : N)
| EvProposed (c : N) (ok : bool) (idx : N)
| EvWin (c : N) (idx : N) (host : N)               (* DoCommit returned nil *)
| EvCommitFail (c : N)
| EvSucceed (c : N)
| EvRestart (m : N)
(* ghost observations (pure functions of the step; they do not influence it; used to state the guarded theorems) *)
| EvOverwrite (c : N)    (* the tally of candidate c changed c's own acceptor fields (proposalId/commitId/proposalHost/From) *)
| EvLostLock (m : N).    (* m restarted while it held an election lock (outstanding commit, or elected itself) *)

(* ---------- setters ---------- *)
Definition set_acc (nd : node) (pid cid : N) (host from : option N) : node :=
  mkNode pid cid host from (n_saved nd) (n_log nd) (n_abst nd) (n_view nd)
         (n_pidx nd) (n_sidx nd) (n_phase nd) (n_vhost nd) (n_vaof nd) (n_epoch nd) (n_resps nd) (n_selfpend nd).
Definition set_view (nd : node) (v : list viewent) : node :=
  mkNode (n_pid nd) (n_cid nd) (n_host nd) (n_from nd) (n_saved nd) (n_log nd) (n_abst nd) v
         (n_pidx nd) (n_sidx nd) (n_phase nd) (n_vhost nd) (n_vaof nd) (n_epoch nd) (n_resps nd) (n_selfpend nd).
Definition set_saved (nd : node) (sv : N) : node :=
  mkNode (n_pid nd) (n_cid nd) (n_host nd) (n_from nd) sv (n_log nd) (n_abst nd) (n_view nd)
         (n_pidx nd) (n_sidx nd) (n_phase nd) (n_vhost nd) (n_vaof nd) (n_epoch nd) (n_resps nd) (n_selfpend nd).
Definition set_cand (nd : node) (pidx sidx : N) (ph : phase) (vh : N) (va : aofid) (ep : N)
           (rs : list (N * resp)) (sp : bool) : node :=
  mkNode (n_pid nd) (n_cid nd) (n_host nd) (n_from nd) (n_saved nd) (n_log nd) (n_abst nd) (n_view nd)
         pidx sidx ph vh va ep rs sp.
Definition set_phase (nd : node) (ph : phase) : node :=
  set_cand nd (n_pidx nd) (n_sidx nd) ph (n_vhost nd) (n_vaof nd) (n_epoch nd) (n_resps nd) (n_selfpend nd).

Definition nthN {A} (l : list A) (i : N) : option A := nth_error l (N.to_nat i).
Fixpoint upd_nat {A} (l : list A) (i : nat) (x : A) : list A :=
  match l, i with
  | [], _ => []
  | _ :: r, O => x :: r
  | y :: r, S j => y :: upd_nat r j x
  end.
Definition updN {A} (l : list A) (i : N) (x : A) : list A := upd_nat l (N.to_nat i) x.

Definition is_some {A} (o : option A) : bool := match o with Some _ => true | None => false end.
Definition opt_eqb (o : option N) (k : N) : bool := match o with Some x => x =? k | None => false end.

Definition arbiter_of (cfg : list mcfg) (i : N) : N := match nthN cfg i with Some c => c_arbiter c | None => 0 end.
Definition weight_of (cfg : list mcfg) (i : N) : N := match nthN cfg i with Some c => c_weight c | None => 0 end.
Definition own_role (nd : node) (i : N) : N := match nthN (n_view nd) i with Some ve => ve_role ve | None => 0 end.

Definition succ64 (x : N) : N := (x + 1) mod M64.     (* uint64 ++ *)

(* ---------- GetCurrentAofID ---------- *)
Definition arb_scan (view : list viewent) : aofid :=
  fold_left (fun acc ve =>
               if negb (ve_role ve =? ROLE_ARBITER) && ve_online ve
               then (if aof_gt (ve_aof ve) acc then ve_aof ve else acc) else acc) view aof_zero.

Definition set_view_aof (view : list viewent) (i : N) (a : aofid) : list viewent :=
  match nthN view i with
  | Some ve => updN view i (mkVe (ve_role ve) (ve_online ve) a)
  | None => view
  end.

Definition current_aof (cfg : list mcfg) (i : N) (nd : node) : aofid * node :=
  if negb (arbiter_of cfg i =? 0)
  then let a := arb_scan (n_view nd) in (a, set_view nd (set_view_aof (n_view nd) i a))
  else (n_log nd, nd).

(* ---------- acceptor handlers ---------- *)
Definition on_vote (cfg : list mcfg) (i : N) (nd : node) : resp * node :=
  if n_abst nd then (RVoteErr, nd)
  else let '(a, nd') := current_aof cfg i nd in
       (RVote (mkV i (weight_of cfg i) (arbiter_of cfg i) a (own_role nd i)), nd').

(* the member loop of the proposal handlers: first error met, in member order *)
Fixpoint prop_scan (skip_self : bool) (selfi : nat) (k : nat) (view : list viewent) (a : aofid) : option N :=
  match view with
  | [] => None
  | ve :: r =>
      if (ve_role ve =? ROLE_LEADER) && ve_online ve then Some E_STATUS
      else if negb (skip_self && Nat.eqb k selfi) && aof_gt (ve_aof ve) a then Some E_AOFID
      else prop_scan skip_self selfi (S k) r a
  end.

Definition on_proposal (isself : bool) (cfg : list mcfg) (i : N) (nd : node) (p h : N) (a : aofid) : resp * node :=
  if negb (n_abst nd) && (arbiter_of cfg i =? 0) && aof_gt (n_log nd) a then (RErr E_REJECT 0, nd)
  else if own_role nd i =? ROLE_LEADER then (RErr E_ROLE 0, nd)
  else match prop_scan (if isself then false else n_abst nd) (N.to_nat i) 0 (n_view nd) a with
       | Some e => (RErr e 0, nd)
       | None =>
           match nthN (n_view nd) h with
           | None => (RErr E_HOST 0, nd)
           | Some hv =>
               if negb (h =? i) && negb (ve_online hv) then (RErr E_OFFLINE 0, nd)
               else if (p <=? n_pid nd) || is_some (n_host nd)
                    then (RErr E_PROPOSALID (if isself then 0 else n_pid nd), nd)
               else if p <=? n_cid nd
                    then (RErr E_PROPOSALID (if isself then 0 else n_cid nd), nd)
               else (ROk (if isself then 0 else n_pid nd), set_acc nd p (n_cid nd) (n_host nd) (n_from nd))
           end
       end.

Definition on_commit (isself : bool) (i : N) (nd : node) (frm p h : N) : resp * node :=
  match nthN (n_view nd) h with
  | None => (RErr E_HOST 0, nd)
  | Some _ =>
      if negb (n_pid nd =? p) then (RErr E_PROPOSALID 0, nd)
      else if p <=? n_cid nd then (RErr E_COMMITID (if isself then 0 else n_cid nd), nd)
      else (ROk (if isself then 0 else n_cid nd), set_acc nd (n_pid nd) p (Some h) (Some frm))
  end.

Definition handle (isself : bool) (cfg : list mcfg) (i : N) (nd : node) (k : kind) (frm p h : N) (a : aofid)
  : resp * node :=
  match k with
  | KVote => on_vote cfg i nd
  | KProp => on_proposal isself cfg i nd p h a
  | KCommit => on_commit isself i nd frm p h
  end.

(* ---------- candidate side ---------- *)
Definition has_resp (rs : list (N * resp)) (m : N) : bool := existsb (fun x => fst x =? m) rs.

Definition kind_phase (k : kind) (ph : phase) : bool :=
  match k, ph with KVote, PVoting => true | KProp, PProposing => true | KCommit, PCommitting => true | _, _ => false end.

Definition phase_kind (ph : phase) : option kind :=
  match ph with PVoting => Some KVote | PProposing => Some KProp | PCommitting => Some KCommit | _ => None end.

(* what the DoRequests goroutine for member m does with its result *)
Definition record (remote : bool) (c : node) (m : N) (r : resp) : node :=
  if has_resp (n_resps c) m then c else
  let c1 := set_cand c (n_pidx c) (n_sidx c) (n_phase c) (n_vhost c) (n_vaof c) (n_epoch c)
                     (n_resps c ++ [(m, r)]) (n_selfpend c) in
  if negb remote then c1 else          (* the isSelf branches return before any of the bookkeeping below *)
  match r with
  | RVote v =>                       (* ArbiterMember.DoVote 758-759: self.aofId, self.role := response *)
      match nthN (n_view c1) m with
      | Some ve => set_view c1 (updN (n_view c1) m (mkVe (v_role v) (ve_online ve) (v_aof v)))
      | None => c1
      end
  | RErr code id =>                  (* ArbiterMember.DoProposal 834-840: bump proposalIndex *)
      if (code =? E_PROPOSALID) && (n_pidx c1 <? id)
      then set_cand c1 id (n_sidx c1) (n_phase c1) (n_vhost c1) (n_vaof c1) (n_epoch c1) (n_resps c1) (n_selfpend c1)
      else c1
  | _ => c1
  end.

Definition is_ok (r : resp) : bool := match r with ROk _ => true | RVote _ => true | _ => false end.
Definition count_ok (rs : list (N * resp)) : N := N.of_nat (length (filter (fun x => is_ok (snd x)) rs)).
Definition is_reject (r : resp) : bool := match r with RErr c _ => c =? E_REJECT | _ => false end.
Definition votes_of (rs : list (N * resp)) : list vresp :=
  flat_map (fun x => match snd x with RVote v => [v] | _ => [] end) rs.
Definition majority (n : N) : N := n / 2 + 1.
Definition nmembers (nd : node) : N := N.of_nat (length (n_view nd)).

(* requests issued by DoRequests at phase start, in member order; members not ONLINE fail at once *)
Fixpoint issue (k : kind) (c ep p h : N) (a : aofid) (j : nat) (view : list viewent)
  : list msg * list (N * resp) :=
  match view with
  | [] => ([], [])
  | ve :: r =>
      let '(ms, es) := issue k c ep p h a (S j) r in
      if Nat.eqb j (N.to_nat c) then (ms, es)
      else if ve_online ve then (mkMsg k c (N.of_nat j) ep p h a :: ms, es)
      else (ms, (N.of_nat j, RErr E_NOTONLINE 0) :: es)
  end.

Definition start_phase (k : kind) (c : N) (nd : node) (pidx : N) (ph : phase) : node * list msg :=
  let ep := n_epoch nd + 1 in
  let '(ms, es) := issue k c ep pidx (n_vhost nd) (n_vaof nd) 0 (n_view nd) in
  (set_cand nd pidx pidx ph (n_vhost nd) (n_vaof nd) ep es true, ms).

Definition getn (s : state) (i : N) : option node := nthN (nodes s) i.
Definition putn (s : state) (i : N) (nd : node) : state := mkState (updN (nodes s) i nd) (sent s).


Definition finish (c : N) (nd : node) : node * event :=
  match n_phase nd with
  | PVoting =>
      let vs := votes_of (n_resps nd) in
      if N.of_nat (length vs) <? majority (nmembers nd) then (set_phase nd PIdle, EvVoted c false 0)
      else match doVoteSelect vs with
           | None => (set_phase nd PIdle, EvVoted c false 0)
           | Some v => (set_cand nd (n_pidx nd) (n_sidx nd) PVoted (v_host v) (v_aof v) (n_epoch nd) (n_resps nd) false,
                        EvVoted c true (v_host v))
           end
  | PProposing =>
      if existsb (fun x => is_reject (snd x)) (n_resps nd) then (set_phase nd PIdle, EvProposed c false (n_pidx nd))
      else if count_ok (n_resps nd) <? majority (nmembers nd) then (set_phase nd PIdle, EvProposed c false (n_pidx nd))
      else (set_phase (set_acc nd (n_pidx nd) (n_cid nd) (n_host nd) (n_from nd)) PProposed,   (* self.proposalId = self.proposalIndex *)
            EvProposed c true (n_pidx nd))
  | PCommitting =>
      if count_ok (n_resps nd) <? majority (nmembers nd)
      then (set_phase (set_acc nd (n_pid nd) (n_cid nd) None None) PIdle, EvCommitFail c)   (* proposalHost = "" *)
      else (set_phase (set_acc nd (n_pid nd) (n_pid nd) (Some (n_vhost nd)) (Some c)) PWon,     (* commitId = proposalId *)
            EvWin c (n_pid nd) (n_vhost nd))
  | _ => (nd, EvNone)
  end.

Definition optN_eqb (a b : option N) : bool :=
  match a, b with Some x, Some y => x =? y | None, None => true | _, _ => false end.
Definition acc_eqb (a b : node) : bool :=
  (n_pid a =? n_pid b) && (n_cid a =? n_cid b) && optN_eqb (n_host a) (n_host b) && optN_eqb (n_from a) (n_from b).
Definition locked (i : N) (nd : node) : bool := is_some (n_host nd) || (own_role nd i =? ROLE_LEADER).

Definition tally (c : N) (nd : node) : node * list event :=
  let '(nd1, e) := finish c nd in (nd1, if acc_eqb nd nd1 then [e] else [e; EvOverwrite c]).

(* DoRequests returns as soon as every member's goroutine has finished: the tally runs at that very moment *)
Definition all_resolved (nd : node) : bool :=
  (N.of_nat (length (n_resps nd)) =? nmembers nd) && negb (n_selfpend nd).

Definition auto_finish (c : N) (nd : node) : node * list event :=
  match phase_kind (n_phase nd) with
  | Some _ => if all_resolved nd then tally c nd else (nd, [])
  | None => (nd, [])
  end.

Definition do_self (cfg : list mcfg) (c : N) (nd : node) : node * list event :=
  if n_selfpend nd then
    match phase_kind (n_phase nd) with
    | Some k =>
        let '(r, nd1) := handle true cfg c nd k c (n_sidx nd) (n_vhost nd) (n_vaof nd) in
        let nd2 := set_cand nd1 (n_pidx nd1) (n_sidx nd1) (n_phase nd1) (n_vhost nd1) (n_vaof nd1) (n_epoch nd1)
                            (n_resps nd1) false in
        let '(nd3, es) := auto_finish c (record false nd2 c r) in
        (nd3, EvSelf c k r :: es)
    | None => (nd, [])
    end
  else (nd, []).

Fixpoint roles_after (cfg : list mcfg) (ph : option N) (k : nat) (view : list viewent) : list viewent :=
  match view with
  | [] => []
  | ve :: r =>
      mkVe (if opt_eqb ph (N.of_nat k) then ROLE_LEADER
            else if negb (arbiter_of cfg (N.of_nat k) =? 0) then ROLE_ARBITER else ROLE_FOLLOWER)
           (ve_online ve) (ve_aof ve) :: roles_after cfg ph (S k) r
  end.

Definition vote_succed (cfg : list mcfg) (c : N) (nd : node) : node :=
  let ph := n_host nd in
  let nd1 := set_view nd (roles_after cfg ph 0 (n_view nd)) in
  let nd2 := if opt_eqb ph c then set_acc nd1 (n_pid nd1) (n_cid nd1) None None else nd1 in
  set_phase (set_saved nd2 (n_cid nd2)) PDone.

Definition restart (nd : node) : node :=
  mkNode (n_saved nd) (n_saved nd) None None (n_saved nd) (n_log nd) false
         (map (fun ve => mkVe ROLE_UNKNOWN (ve_online ve) aof_zero) (n_view nd))
         0 0 PIdle 0 aof_zero (n_epoch nd) [] false.

Fixpoint find_last (ms : list msg) (c m : N) (acc : option msg) : option msg :=
  match ms with
  | [] => acc
  | x :: r => find_last r c m (if (m_from x =? c) && (m_to x =? m) then Some x else acc)
  end.

Definition deliver (cfg : list mcfg) (s : state) (x : msg) (lost : bool) : state * list event :=
  match getn s (m_to x) with
  | None => (s, [])
  | Some t =>
      let '(r, t') := handle false cfg (m_to x) t (m_kind x) (m_from x) (m_pid x) (m_host x) (m_aof x) in
      let s1 := putn s (m_to x) t' in
      let '(s2, es) :=
        match getn s1 (m_from x) with
        | Some cnd =>
            if (n_epoch cnd =? m_epoch x) && kind_phase (m_kind x) (n_phase cnd)
            then let '(cnd1, es) := auto_finish (m_from x) (record true cnd (m_to x) (if lost then RLost else r)) in
                 (putn s1 (m_from x) cnd1, es)
            else (s1, [])
        | None => (s1, [])
        end in
      (s2, EvReply (m_from x) (m_to x) (m_kind x) r :: es)
  end.

Definition step (cfg : list mcfg) (s : state) (a : action) : state * list event :=
  match a with
  | AStartVote c =>
      match getn s c with
      | Some nd =>
          match n_phase nd with
          | PIdle =>
              let nd0 := set_cand nd (n_pidx nd) (n_sidx nd) (n_phase nd) 0 aof_zero (n_epoch nd) (n_resps nd) (n_selfpend nd) in
              let '(nd1, ms) := start_phase KVote c nd0 (n_pidx nd0) PVoting in
              (mkState (updN (nodes s) c nd1) (sent s ++ ms), [EvStart c KVote])
          | _ => (s, [])
          end
      | None => (s, [])
      end
  | AStartProp c =>
      match getn s c with
      | Some nd =>
          match n_phase nd with
          | PVoted =>
              let i1 := if n_pidx nd <=? n_cid nd then n_cid nd else n_pidx nd in
              let i2 := if i1 <=? n_pid nd then n_pid nd else i1 in
              let '(nd1, ms) := start_phase KProp c nd (succ64 i2) PProposing in
              (mkState (updN (nodes s) c nd1) (sent s ++ ms), [EvStart c KProp])
          | _ => (s, [])
          end
      | None => (s, [])
      end
  | AStartCommit c =>
      match getn s c with
      | Some nd =>
          match n_phase nd with
          | PProposed =>
              let '(nd1, ms) := start_phase KCommit c nd (n_pidx nd) PCommitting in
              (mkState (updN (nodes s) c nd1) (sent s ++ ms), [EvStart c KCommit])
          | _ => (s, [])
          end
      | None => (s, [])
      end
  | ASelf c =>
      match getn s c with
      | Some nd => let '(nd1, e) := do_self cfg c nd in (putn s c nd1, e)
      | None => (s, [])
      end
  | ADeliver c m lost =>
      match find_last (sent s) c m None with
      | Some x => deliver cfg s x lost
      | None => (s, [])
      end
  | ADeliverIdx i lost =>
      match nthN (sent s) i with
      | Some x => deliver cfg s x lost
      | None => (s, [])
      end
  | AFinish c =>
      match getn s c with
      | Some nd =>
          if n_selfpend nd then (s, [])          (* DoRequests cannot return before the own-member goroutine ran *)
          else let '(nd2, es) := tally c nd in (putn s c nd2, es)
      | None => (s, [])
      end
  | ASucceed c =>
      match getn s c with
      | Some nd =>
          match n_phase nd with
          | PWon => (putn s c (vote_succed cfg c nd), [EvSucceed c])
          | _ => (s, [])
          end
      | None => (s, [])
      end
  | ARestart m =>
      match getn s m with
      | Some nd => (putn s m (restart nd), EvRestart m :: (if locked m nd then [EvLostLock m] else []))
      | None => (s, [])
      end
  end.

Fixpoint run (cfg : list mcfg) (s : state) (acts : list action) : state * list event :=
  match acts with
  | [] => (s, [])
  | a :: r => let '(s1, e) := step cfg s a in let '(s2, es) := run cfg s1 r in (s2, e ++ es)
  end.
