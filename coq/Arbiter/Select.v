(* C12 -- ArbiterVoter.DoVote candidate choice (server/arbiter.go 1123-1150) and the proof that it returns the
   maximum of the eligible responders under (log position, weight, host). *)
From Coq Require Import List NArith ZArith Bool Lia.
From Slock Require Import Arbiter.Vote.
Import ListNotations.
Open Scope N_scope.

(* ---------- ArbiterVoter.DoVote: choice among the collected vote responses ---------- *)

Record vresp := mkV { v_host : N; v_weight : N; v_arbiter : N; v_aof : aofid; v_role : N }.

(* `if voteResponse.Arbiter != 0 || voteResponse.Weight == 0 { continue }` *)
Definition eligible (v : vresp) : bool := (v_arbiter v =? 0) && negb (v_weight v =? 0).

Definition better (s v : vresp) : vresp :=
  if aofid_eqb (v_aof s) (v_aof v) then
    let s1 := if v_weight s <? v_weight v then v else s in
    if v_weight s1 =? v_weight v then (if v_host s1 <? v_host v then v else s1) else s1
  else if aof_gt (v_aof v) (v_aof s) then v else s.

Definition pick (sel : option vresp) (v : vresp) : option vresp :=
  if eligible v then match sel with None => Some v | Some s => Some (better s v) end else sel.

Definition doVoteSelect (rs : list vresp) : option vresp := fold_left pick rs None.

(* rank = (log position inside the window, weight, host), lexicographic *)
Definition rank_le (o : N) (x y : vresp) : Prop :=
  let kx := key o (v_aof x) in let ky := key o (v_aof y) in
  kx < ky \/ (kx = ky /\
   (ctime (v_aof x) < ctime (v_aof y) \/ (ctime (v_aof x) = ctime (v_aof y) /\
     (v_weight x < v_weight y \/ (v_weight x = v_weight y /\ v_host x <= v_host y))))).

Lemma rank_le_refl o x : rank_le o x x.
Proof. unfold rank_le. cbv zeta. lia. Qed.

Lemma rank_le_trans o x y z : rank_le o x y -> rank_le o y z -> rank_le o x z.
Proof. unfold rank_le. cbv zeta. lia. Qed.

Definition vwin (o : N) (v : vresp) : Prop := wf_aof (v_aof v) /\ inwin o (v_aof v).

Lemma better_spec o s v : o < M64 -> vwin o s -> vwin o v ->
  (better s v = s /\ rank_le o v s) \/ (better s v = v /\ rank_le o s v).
Proof.
  intros Ho [Ws Is] [Wv Iv]. unfold better.
  destruct (aofid_eqb (v_aof s) (v_aof v)) eqn:E.
  - apply aofid_eqb_eq in E. unfold rank_le. cbv zeta. rewrite E.
    destruct (v_weight s <? v_weight v) eqn:H1; [apply N.ltb_lt in H1|apply N.ltb_ge in H1].
    + rewrite N.eqb_refl. rewrite N.ltb_irrefl. right. split; auto. lia.
    + destruct (v_weight s =? v_weight v) eqn:H2; [apply N.eqb_eq in H2|apply N.eqb_neq in H2].
      * destruct (v_host s <? v_host v) eqn:H3; [apply N.ltb_lt in H3|apply N.ltb_ge in H3].
        -- right. split; auto. lia.
        -- left. split; auto. lia.
      * left. split; auto. lia.
  - unfold aof_gt. rewrite (compare_in_window o (v_aof v) (v_aof s)) by assumption.
    assert (NE : v_aof s <> v_aof v).
    { intro X. apply aofid_eqb_eq in X. congruence. }
    assert (NK : key o (v_aof s) <> key o (v_aof v) \/ ctime (v_aof s) <> ctime (v_aof v)).
    { destruct (N.eq_dec (ctime (v_aof s)) (ctime (v_aof v))) as [Ec|]; auto. left. intro Ek. apply NE.
      destruct Ws as [Ws _], Wv as [Wv _].
      destruct (key_cases o (v_aof s) Ho Ws) as [[? K1]|[? K1]]; destruct (key_cases o (v_aof v) Ho Wv) as [[? K2]|[? K2]];
        rewrite K1, K2 in Ek; unfold inwin in *; rewrite ?K1, ?K2 in *; unfold M64, WRAP in *;
        destruct (v_aof s), (v_aof v); cbn in *; f_equal; lia. }
    unfold lexcmp, rank_le. cbv zeta.
    repeat match goal with
         | |- context [if ?x <? ?y then _ else _] =>
             let H := fresh in destruct (x <? y) eqn:H; [apply N.ltb_lt in H | apply N.ltb_ge in H]
         end; cbn; first [ left; split; [reflexivity|lia] | right; split; [reflexivity|lia] ].
Qed.

Lemma better_in s v : better s v = s \/ better s v = v.
Proof.
  unfold better. repeat match goal with |- context [if ?c then _ else _] => destruct c end; auto.
Qed.

(* The choice is the maximum of the eligible (data-bearing, weight <> 0) responders. *)
Theorem doVote_picks_maximum o rs :
  o < M64 -> (forall v, In v rs -> eligible v = true -> vwin o v) ->
  match doVoteSelect rs with
  | None => forall v, In v rs -> eligible v = false
  | Some s => In s rs /\ eligible s = true /\ forall v, In v rs -> eligible v = true -> rank_le o v s
  end.
Proof.
  intros Ho. unfold doVoteSelect.
  assert (G : forall rs acc,
    (forall v, In v rs -> eligible v = true -> vwin o v) ->
    match acc with None => True | Some s => eligible s = true /\ vwin o s end ->
    match fold_left pick rs acc with
    | None => acc = None /\ forall v, In v rs -> eligible v = false
    | Some s => (In s rs \/ acc = Some s) /\ eligible s = true /\
                (forall v, In v rs -> eligible v = true -> rank_le o v s) /\
                (forall a, acc = Some a -> rank_le o a s)
    end).
  { clear rs. induction rs as [|v rs IH]; intros acc Hw Hacc; cbn [fold_left].
    - destruct acc as [s|]; [|split; auto; intros ? []].
      destruct Hacc as [He _]. repeat split; auto. intros ? []. intros a [= ->]. apply rank_le_refl.
    - assert (Hw' : forall x, In x rs -> eligible x = true -> vwin o x) by (intros; apply Hw; [right|]; auto).
      unfold pick at 2. destruct (eligible v) eqn:Ev.
      + assert (Wv : vwin o v) by (apply Hw; [left|]; auto).
        destruct acc as [s|].
        * destruct Hacc as [Es Ws].
          destruct (better_spec o s v Ho Ws Wv) as [[Eb Rb]|[Eb Rb]]; rewrite Eb.
          -- specialize (IH (Some s) Hw' (conj Es Ws)).
             destruct (fold_left pick rs (Some s)) as [r|] eqn:F; [|destruct IH as [X _]; discriminate].
             destruct IH as (I1 & I2 & I3 & I4). split; [|split; [assumption|split]].
             ++ destruct I1 as [I1|I1]; [left; right; exact I1| right; exact I1].
             ++ intros x [<-|Hx] Ex; [eapply rank_le_trans; [exact Rb|apply I4; reflexivity]|apply I3; auto].
             ++ intros a [= <-]. apply I4. reflexivity.
          -- specialize (IH (Some v) Hw' (conj Ev Wv)).
             destruct (fold_left pick rs (Some v)) as [r|] eqn:F; [|destruct IH as [X _]; discriminate].
             destruct IH as (I1 & I2 & I3 & I4). split; [|split; [assumption|split]].
             ++ destruct I1 as [I1|I1]; [left; right; exact I1| left; left; congruence].
             ++ intros x [<-|Hx] Ex; [apply I4; reflexivity|apply I3; auto].
             ++ intros a [= <-]. eapply rank_le_trans; [exact Rb|apply I4; reflexivity].
        * specialize (IH (Some v) Hw' (conj Ev Wv)).
          destruct (fold_left pick rs (Some v)) as [r|] eqn:F; [|destruct IH as [X _]; discriminate].
          destruct IH as (I1 & I2 & I3 & I4). split; [|split; [assumption|split]].
          -- destruct I1 as [I1|I1]; [left; right; exact I1|left; left; congruence].
          -- intros x [<-|Hx] Ex; [apply I4; reflexivity|apply I3; auto].
          -- intros a [=].
      + specialize (IH acc Hw' Hacc).
        destruct (fold_left pick rs acc) as [r|] eqn:F.
        * destruct IH as (I1 & I2 & I3 & I4). split; [|split; [assumption|split]]; auto.
          -- destruct I1; auto. left; right; auto.
          -- intros x [<-|Hx] Ex; [congruence|apply I3; auto].
        * destruct IH as [I1 I2]. split; auto. intros x [<-|Hx]; auto.
  }
  intros Hw. specialize (G rs None Hw I).
  destruct (fold_left pick rs None) as [s|].
  - destruct G as (I1 & I2 & I3 & _). destruct I1 as [I1|I1]; [|discriminate]. auto.
  - destruct G as [_ G]. exact G.
Qed.
