(* C14, text-protocol half.  Statements only; proofs are in coq/Text/*Proofs.v. *)
From Coq Require Import List NArith ZArith Bool.
From Slock Require Import Text.TextParse Text.TextSpec Text.TextSpecProofs Text.TextParseProofs Text.TextRefute
     Text.KeyNorm Text.KeyNormProofs Text.TextCmd Text.TextCmdProofs.
Import ListNotations.
Open Scope Z_scope.

(* 1. ParseRequest over BuildRequest: chunking independence and round trip in one statement.  `vr` is the source
      variant (TextParse.variant); as shipped the chunking must satisfy good_chunking (TextSpec.v: no read starts strictly
      inside an argument's data, delivers the rest of it, and ends before the LF terminating that argument); with the
      repair `self.cargIndex = self.cargLen` it holds for ALL chunkings. *)
Theorem C14_text_request_chunking_roundtrip :
  forall (vr : variant) (cap : Z) (args : list bytes) (chunks : list bytes),
    args <> [] -> lenZ args < 2 ^ 63 -> Forall (fun x => lenZ x < 2 ^ 63) args ->
    concat chunks = build_request args -> 0 <= cap ->
    Forall (fun c => c <> [] /\ lenZ c <= cap) chunks ->
    (fix_cargidx vr = true \/ good_chunking false chunks = true) ->
    exists p', feed_all vr false (new_parser cap) chunks [] = (p', [(0, args)], Ok)
               /\ stage p' = 0 /\ TextParse.args p' = [] /\ bufIndex p' = bufLen p'.
Proof. exact request_chunking_roundtrip. Qed.
Goal True. idtac "ASSUMPTIONS-OF C14_text_request_chunking_roundtrip". Abort.
Print Assumptions C14_text_request_chunking_roundtrip.
Example C14_text_request_chunking_roundtrip_nonvacuous :
  concat [[42;49;13;10;36;50]; [13;10;255;45;13;10]]%N = build_request [[255;45]%N] /\
  good_chunking false [[42;49;13;10;36;50]; [13;10;255;45;13;10]]%N = true.
Proof. vm_compute. split; reflexivity. Qed.

(* 1'. ... and the guard cannot be dropped for the shipped source: a three-read chunking of BuildRequest ["\xff-"]
       parses to ["\xff-\r"]. *)
Theorem C14_text_request_chunking_refuted :
  exists (args : list bytes) (chunks : list bytes) p,
    args <> [] /\ concat chunks = build_request args /\ Forall (fun c => c <> [] /\ lenZ c <= 4096) chunks /\
    feed_all as_shipped false (new_parser 4096) chunks [] = (p, [(0, [[255; 45; 13]%N])], Ok) /\
    [[255; 45; 13]%N] <> args.
Proof.
  destruct request_chunking_refuted_witness as [p H]. exists w_args, w_chunks, p.
  split; [discriminate|]. split; [exact w_is_chunking|]. split.
  - repeat constructor; try discriminate; vm_compute; discriminate.
  - split; [exact H|discriminate].
Qed.
Goal True. idtac "ASSUMPTIONS-OF C14_text_request_chunking_refuted". Abort.
Print Assumptions C14_text_request_chunking_refuted.

(* 2. ParseResponse over BuildResponse, bulk form (one result) and array form (two or more results) *)
Theorem C14_text_response_bulk_chunking_roundtrip :
  forall (vr : variant) (cap : Z) (x : bytes) (chunks : list bytes),
    lenZ x < 2 ^ 63 -> concat chunks = build_response true [] [x] -> 0 <= cap ->
    Forall (fun c => c <> [] /\ lenZ c <= cap) chunks ->
    (fix_cargidx vr = true \/ good_chunking true chunks = true) ->
    exists p', feed_all vr true (new_parser cap) chunks [] = (p', [(3, [x])], Ok) /\ stage p' = 0 /\ TextParse.args p' = [].
Proof. exact response_bulk_chunking_roundtrip. Qed.
Goal True. idtac "ASSUMPTIONS-OF C14_text_response_bulk_chunking_roundtrip". Abort.
Print Assumptions C14_text_response_bulk_chunking_roundtrip.
Example C14_text_response_bulk_nonvacuous :
  concat [[36;49;13]; [10;97;13;10]]%N = build_response true [] [[97]%N] /\ good_chunking true [[36;49;13]; [10;97;13;10]]%N = true.
Proof. vm_compute. split; reflexivity. Qed.

Theorem C14_text_response_array_chunking_roundtrip :
  forall (vr : variant) (cap : Z) (msg x y : bytes) (rest chunks : list bytes),
    lenZ (x :: y :: rest) < 2 ^ 63 -> Forall (fun x => lenZ x < 2 ^ 63) (x :: y :: rest) ->
    concat chunks = build_response true msg (x :: y :: rest) -> 0 <= cap ->
    Forall (fun c => c <> [] /\ lenZ c <= cap) chunks ->
    (fix_cargidx vr = true \/ good_chunking true chunks = true) ->
    exists p', feed_all vr true (new_parser cap) chunks [] = (p', [(4, x :: y :: rest)], Ok) /\ stage p' = 0 /\ TextParse.args p' = [].
Proof. exact response_array_chunking_roundtrip. Qed.
Goal True. idtac "ASSUMPTIONS-OF C14_text_response_array_chunking_roundtrip". Abort.
Print Assumptions C14_text_response_array_chunking_roundtrip.
Example C14_text_response_array_nonvacuous :
  good_chunking true [build_response true [] [[97]; []]%N] = true.
Proof. vm_compute. reflexivity. Qed.

(* 2'. status lines: refuted as shipped (empty message; a read starting at the terminator), hold on the witnesses with the repair *)
Theorem C14_text_response_status_refuted :
  (exists p, feed_all as_shipped true (new_parser 64) [[43;79;75]%N; [13;10]%N] [] = (p, [(1, [[79;75;13]%N])], Ok)
             /\ concat [[43;79;75]%N; [13;10]%N] = build_response true [79;75]%N []) /\
  (exists p, feed_all as_shipped true (new_parser 64) [build_response true [] []] [] = (p, [(1, [[13]%N])], Ok)).
Proof. split; [exact status_split_refuted|exact status_empty_refuted]. Qed.
Goal True. idtac "ASSUMPTIONS-OF C14_text_response_status_refuted". Abort.
Print Assumptions C14_text_response_status_refuted.

(* 3. key / id normalisation *)
Theorem C14_text_keynorm :
  forall (md5 : bytes -> bytes), (forall x, length (md5 x) = 16%nat) ->
  forall s : bytes,
    lenZ (arg2id md5 s) = 16 /\
    (lenZ s < 16 -> arg2id md5 s = repeat 0%N (Z.to_nat (16 - lenZ s)) ++ s) /\
    (lenZ s = 16 -> arg2id md5 s = s) /\
    (forall v, lenZ s = 32 -> hex_decode s = Some v -> arg2id md5 s = v) /\
    (lenZ s > 16 -> (lenZ s <> 32 \/ hex_decode s = None) -> arg2id md5 s = md5 s).
Proof.
  intros md5 Hm s. split; [apply (arg2id_length md5 Hm)|]. split; [apply (arg2id_short md5 Hm)|]. split; [apply arg2id_verbatim|].
  split; [intros v; apply arg2id_hex|apply (arg2id_md5 md5 Hm)].
Qed.
Goal True. idtac "ASSUMPTIONS-OF C14_text_keynorm". Abort.
Print Assumptions C14_text_keynorm.
Example C14_text_keynorm_nonvacuous : exists md5 : bytes -> bytes, forall x, length (md5 x) = 16%nat.
Proof. exists (fun _ => repeat 0%N 16). reflexivity. Qed.

(* 4. text LOCK/UNLOCK field conventions and the rendering of results *)
Theorem C14_text_count_conventions :
  (forall n, 1 <= n <= 65535 -> ((u16 (Z.of_N (u16 n) - 1) + 1) mod 65536)%N = Z.to_N n) /\
  (forall n, 1 <= n <= 255 -> ((u8 (Z.of_N (u8 n) - 1) + 1) mod 256)%N = Z.to_N n) /\
  (forall t, 0 <= t < 2 ^ 32 -> Z.land t 65535 = t mod 65536 /\ Z.land (Z.shiftr t 16) 65535 = t / 65536).
Proof. split; [exact count_roundtrip|]. split; [exact rcount_roundtrip|exact timeout_split]. Qed.
Goal True. idtac "ASSUMPTIONS-OF C14_text_count_conventions". Abort.
Print Assumptions C14_text_count_conventions.

Theorem C14_text_render_is_array :
  forall (msgs : list bytes) (r : lockres) (msg : bytes),
    nthZ msgs (Z.of_N (r_Result r)) = Some msg -> N.land (r_Flag r) 32 = 0%N -> lenZ (hex_encode (r_LockId r)) = 32 ->
    render msgs r = RBytes (build_response true [] (result_fields msg r)).
Proof. exact render_is_array. Qed.
Goal True. idtac "ASSUMPTIONS-OF C14_text_render_is_array". Abort.
Print Assumptions C14_text_render_is_array.
Example C14_text_render_nonvacuous :
  exists b, render [[79;75]%N] (mkRes 0 0 (repeat 7%N 16) 1 2 3 4 0 0 None) = RBytes b.
Proof. eexists. vm_compute. reflexivity. Qed.

Theorem C14_text_render_total_iff_table_complete :
  (forall msgs r, Z.of_N (r_Result r) < lenZ msgs -> N.land (r_Flag r) 32 = 0%N -> exists b, render msgs r = RBytes b) /\
  (forall r, r_Result r = 12%N -> render shipped_msgs r = RPanic).
Proof. split; [exact render_no_panic|exact render_shipped_code12_panics]. Qed.
Goal True. idtac "ASSUMPTIONS-OF C14_text_render_total_iff_table_complete". Abort.
Print Assumptions C14_text_render_total_iff_table_complete.

(* 5. ConvertArgs2Flag: panic-free with the `i+1` bound, refuted with the shipped `i+i` *)
Theorem C14_text_args2flag :
  (forall fuel args i c, 0 <= i -> args2flag true fuel args i c <> CPanic) /\
  (exists args c, args2flag false (length args) args 0 c = CPanic).
Proof. split; [exact args2flag_fixed_no_panic|exact args2flag_shipped_panics]. Qed.
Goal True. idtac "ASSUMPTIONS-OF C14_text_args2flag". Abort.
Print Assumptions C14_text_args2flag.
