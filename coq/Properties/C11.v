(* C11: ack-required locks.  Engine part (every db value, by unfolding the executable model Engine/Engine*.v) and
   acknowledgement-layer part (Engine/Ack.v: the real ReplicationAckDB drives it in the correspondence check --
   ProcessLeaderPushLock for LOCK records, ProcessLeaderPushUnLock for UNLOCK records, ProcessLeaderAofed / Acked).
   Local theorems hold for EVERY state; the run theorems for every `arun (init_astate ..) acts` that passes a run
   monitor: `arun_ok` (registrations are fresh: the re-entrant re-lock and the late registration -- known findings,
   refuted below -- are excluded by that hypothesis and by nothing else) and its successor `arun_ok2` (in addition no
   registered record has been released or re-commanded: `reg_sound`, an assumption about the engine's reference
   counting, violated by the re-entrant re-lock finding).  Statement vocabulary: Engine/AckProofs*.v. *)
From Coq Require Import String List NArith ZArith.
From Slock Require Import Engine.Types Engine.Queues Engine.Timers Engine.Engine Engine.Engine2 Engine.Ack.
From Slock Require Import Engine.AckProofsBase Engine.AckProofsAck Engine.AckProofsWait Engine.AckProofsTimeout
  Engine.AckProofsGrant Engine.AckProofsRel Engine.AckProofsGlobal Engine.AckProofsUnreg Engine.AckProofsRefute.
Import ListNotations.
Open Scope N_scope.

(* states used by the non-vacuity examples: an ack-lock of LockId 101 on key 7 granted and registered (ackCount 1),
   not yet acknowledged; the same with a second, queued ack-lock 102 *)
Definition ex_lock (req lockid : N) : cmd := make_cmd true req 0 lockid 7 4096 5 0 10 0 0 None.
Definition ex_pending : astate := fst (arun (init_astate 1000000 1 1) [AAct (AReq 1 (ex_lock 1 101))]).
Definition ex_pending2 : astate := fst (arun (init_astate 1000000 1 2) [AAct (AReq 1 (ex_lock 1 101))]).

(* ---------------------------------------------------------------- A1: a fresh require-ack grant is silent *)
(* Lock, new holder: no reply at all; a LOCK record carrying the lock; the record holds (depth 1), is pending
   (ackCount 0 until ProcessLeaderPushLock writes the configured count), armed in the timeout structures, refCount 3 *)
Theorem C11_fresh_grant_silent : forall s conn c,
  ack_grant_branch s conn c ->
  let k := c_key c in
  let r := next s in
  exists s' ev,
    lock_step s conn c = (s', ev, None)
    /\ Forall noreply ev
    /\ (exists a, In (EAof a) ev /\ a_lock a = true /\ a_ref a = Some r /\ a_lockid a = c_lockid c /\ a_key a = k)
    /\ (exists lb cc, In (EGrant k r true lb cc (c_count c)) ev)
    /\ exists l', aget (store s') r = Some l'
         /\ l_cmd l' = c /\ l_conn l' = conn /\ l_key l' = k
         /\ l_ack l' = 0 /\ l_locked l' = 1 /\ l_refc l' = 3
         /\ l_timeouted l' = false /\ l_expried l' = true /\ l_isaof l' = true
         /\ (if l_long l' then In r (wheel_get (tlong s') (lkey (l_tT l')))
             else exists slot, In r (wheel_get (twheel s') slot)).
Proof. exact lock_ack_grant_silent. Qed.
Goal True. idtac "ASSUMPTIONS-OF C11_fresh_grant_silent". Abort.
Print Assumptions C11_fresh_grant_silent.
Example C11_fresh_grant_silent_nonvacuous : ack_grant_branch (init_db 1000000 1) 1 (ex_lock 1 101).
Proof.
  constructor; try (vm_compute; (reflexivity || discriminate)).
  exists false. split; vm_compute; reflexivity.
Qed.

(* wakeUpWaitLock, queued request: same, the record keeps its place in the timeout structures *)
Theorem C11_queued_grant_silent : forall s k r via l,
  aget (store s) r = Some l -> leader s = true ->
  has (c_tflag (l_cmd l)) TF_REQUIRE_ACKED = true -> l_isaof l = false -> l_aoftime l <> 255 ->
  has (c_flag (l_cmd l)) LOCK_FLAG_FROM_AOF = false ->
  exists s' ev,
    wake_grant s k r via = (s', ev)
    /\ Forall noreply ev
    /\ (exists a, In (EAof a) ev /\ a_lock a = true /\ a_ref a = Some r /\ a_lockid a = c_lockid (l_cmd l))
    /\ (exists lb cc, In (EGrant k r true lb cc (c_count (l_cmd l))) ev)
    /\ (exists l', aget (store s') r = Some l'
         /\ l_cmd l' = l_cmd l /\ l_conn l' = l_conn l
         /\ l_ack l' = 0 /\ l_locked l' = 1 /\ l_refc l' = add8 (add8 (l_refc l) 1) 1
         /\ l_timeouted l' = l_timeouted l /\ l_expried l' = l_expried l /\ l_isaof l' = true)
    /\ twheel s' = twheel s /\ tlong s' = tlong s.
Proof. exact wake_ack_grant_silent. Qed.
Goal True. idtac "ASSUMPTIONS-OF C11_queued_grant_silent". Abort.
Print Assumptions C11_queued_grant_silent.
(* key 7 held by 101 (pending), 102 queued: record 2 is a live waiter with the require-ack flag *)
Example C11_queued_grant_silent_nonvacuous :
  let s := a_db (fst (arun ex_pending [AAct (AReq 1 (ex_lock 2 102))])) in
  exists l, aget (store s) 2 = Some l /\ leader s = true /\ has (c_tflag (l_cmd l)) TF_REQUIRE_ACKED = true
            /\ l_isaof l = false /\ l_aoftime l <> 255 /\ has (c_flag (l_cmd l)) LOCK_FLAG_FROM_AOF = false.
Proof. vm_compute. eexists. repeat split; try reflexivity. discriminate. Qed.

(* ---------------------------------------------------------------- A2: who answers SUCCED *)
(* DoAckLock emits a SUCCED reply exactly for a positive acknowledgement of a pending hold *)
Theorem C11_ack_succed_iff : forall s r ok s' ev w,
  do_ack s r ok = (s', ev, w) ->
  ((exists e, In e ev /\ is_succed e = true) <->
   (ok = true /\ exists l, aget (store s) r = Some l /\ l_ack l <> 255 /\ l_expried l = true /\ l_locked l <> 0
                           /\ has (c_eflag (l_cmd l)) EF_MILLISECOND = false)).
Proof. exact do_ack_succed_iff. Qed.
Goal True. idtac "ASSUMPTIONS-OF C11_ack_succed_iff". Abort.
Print Assumptions C11_ack_succed_iff.
Example C11_ack_succed_iff_nonvacuous :
  exists l, aget (store (a_db ex_pending)) 1 = Some l /\ l_ack l <> 255 /\ l_expried l = true /\ l_locked l <> 0
            /\ has (c_eflag (l_cmd l)) EF_MILLISECOND = false
            /\ exists e, In e (snd (fst (do_ack (a_db ex_pending) 1 true))) /\ is_succed e = true.
Proof. vm_compute. eexists. repeat split; try discriminate. eexists. split; [left; reflexivity|reflexivity]. Qed.

(* positive: exactly one reply, SUCCED, to the connection and RequestId of the record, after log records only; no
   wake-up pass; no record's ack counter / depth and no key's hold counter / value changes except as `fr` allows
   (ack counters only drop to 255, depths only to 0, managers keep counter and value) *)
Theorem C11_ack_succed : forall s r l s' ev w,
  aget (store s) r = Some l -> l_ack l <> 255 -> l_expried l = true -> l_locked l <> 0 ->
  has (c_eflag (l_cmd l)) EF_MILLISECOND = false ->
  do_ack s r true = (s', ev, w) ->
  w = None /\ fr s s' /\ exists lc lrc d, ends_with ev (ack_reply l R_SUCCED lc lrc d).
Proof. exact do_ack_succed. Qed.
Goal True. idtac "ASSUMPTIONS-OF C11_ack_succed". Abort.
Print Assumptions C11_ack_succed.
Example C11_ack_succed_nonvacuous :
  exists l, aget (store (a_db ex_pending)) 1 = Some l /\ l_ack l <> 255 /\ l_expried l = true /\ l_locked l <> 0
            /\ has (c_eflag (l_cmd l)) EF_MILLISECOND = false.
Proof. vm_compute. eexists. repeat split; discriminate. Qed.

(* negative: ERROR to the requester, hold removed, value rolled back, wake-up pass pending *)
Theorem C11_ack_failed : forall s r l s' ev w,
  aget (store s) r = Some l -> l_ack l <> 255 -> l_expried l = true -> l_locked l <> 0 ->
  do_ack s r false = (s', ev, w) ->
  let k := l_key l in
  w = Some (mkWake k None)
  /\ (exists lc lrc d, ends_with ev (ack_reply l R_ERROR lc lrc d))
  /\ (exists rest, ev = ERelease k r (l_locked l) :: rest)
  /\ l_locked (getl s' r) = 0 /\ l_ack (getl s' r) = 255
  /\ (forall m', aget (mgrs s') k = Some m' ->
        exists m, aget (mgrs s) k = Some m /\ m_locked m' = sub32 (m_locked m) (l_locked l)
                  /\ dval (m_data m') = dval (rb_value (l_cmd l) (m_data m) (l_data l)))
  /\ (forall k' m', k' <> k -> aget (mgrs s') k' = Some m' -> exists m, aget (mgrs s) k' = Some m /\ mview m' = mview m).
Proof. exact do_ack_failed. Qed.
Goal True. idtac "ASSUMPTIONS-OF C11_ack_failed". Abort.
Print Assumptions C11_ack_failed.
Example C11_ack_failed_nonvacuous :
  exists l, aget (store (a_db ex_pending)) 1 = Some l /\ l_ack l <> 255 /\ l_expried l = true /\ l_locked l <> 0.
Proof. vm_compute. eexists. repeat split; discriminate. Qed.

(* pending counter on a record that is an ordinary holder or no holder any more: LOCKED_ERROR, nothing else *)
Theorem C11_ack_stale : forall s r ok l s' ev w,
  aget (store s) r = Some l -> l_ack l <> 255 -> (l_expried l = false \/ l_locked l = 0) ->
  do_ack s r ok = (s', ev, w) ->
  w = None /\ fr s s' /\ exists lc lrc d, ends_with ev (ack_reply l R_LOCKED_ERROR lc lrc d).
Proof. exact do_ack_stale. Qed.
Goal True. idtac "ASSUMPTIONS-OF C11_ack_stale". Abort.
Print Assumptions C11_ack_stale.
(* the re-entrant re-lock of the known finding: record 1 is an ordinary holder (armed for expiry) with a pending counter *)
Example C11_ack_stale_nonvacuous :
  let s := a_db (fst (arun (init_astate 1000000 0 1) (firstn 2 run_reentrant))) in
  exists l, aget (store s) 1 = Some l /\ l_ack l <> 255 /\ l_expried l = false.
Proof. vm_compute. eexists. repeat split; discriminate. Qed.

(* ---------------------------------------------------------------- A3: single shot *)
Theorem C11_ack_none_pending : forall s r ok l,
  aget (store s) r = Some l -> l_ack l = 255 ->
  do_ack s r ok = (freed_then_mgr r (l_key l) (unref (stop_timeout s r l) r), [], None).
Proof. exact do_ack_none_pending. Qed.
Goal True. idtac "ASSUMPTIONS-OF C11_ack_none_pending". Abort.
Print Assumptions C11_ack_none_pending.
Example C11_ack_none_pending_nonvacuous :
  let s := a_db (fst (astep ex_pending (AAckEvt 0 true))) in
  exists l, aget (store s) 1 = Some l /\ l_ack l = 255.
Proof. vm_compute. eexists. split; reflexivity. Qed.

Theorem C11_ack_done : forall s r ok s' ev w, do_ack s r ok = (s', ev, w) -> l_ack (getl s' r) = 255.
Proof. exact do_ack_done. Qed.
Goal True. idtac "ASSUMPTIONS-OF C11_ack_done". Abort.
Print Assumptions C11_ack_done.
Example C11_ack_done_nonvacuous :
  l_ack (getl (a_db ex_pending) 1) = 1 /\ l_ack (getl (fst (fst (do_ack (a_db ex_pending) 1 true))) 1) = 255.
Proof. vm_compute. split; reflexivity. Qed.

(* ---------------------------------------------------------------- A4: LOCK_ACK_WAITING *)
Theorem C11_lock_ack_waiting : forall s conn c m r,
  let k := c_key c in
  let c1 := lock_target s m c in
  lock_precheck s conn c = None ->
  aget (mgrs s) k = Some m ->
  (leader s = true \/ has (c_flag c) LOCK_FLAG_FROM_AOF = true) ->
  m_locked m <> 0 ->
  (has (c_flag c) LOCK_FLAG_SHOW = false \/ has (c_flag c) LOCK_FLAG_UPDATE = true) ->
  get_locked_lock s m (c_lockid c1) = Some r ->
  l_ack (getl s r) <> 255 ->
  lock_step s conn c =
    (s, [reply conn c1 R_ACK_WAITING (m_locked m) (l_locked (getl s r)) (data_of s k)], None).
Proof. exact lock_ack_waiting. Qed.
Goal True. idtac "ASSUMPTIONS-OF C11_lock_ack_waiting". Abort.
Print Assumptions C11_lock_ack_waiting.
Example C11_lock_ack_waiting_nonvacuous :
  let s := a_db ex_pending in let c := ex_lock 2 101 in
  exists m, lock_precheck s 1 c = None /\ aget (mgrs s) 7 = Some m /\ leader s = true /\ m_locked m <> 0
            /\ has (c_flag c) LOCK_FLAG_SHOW = false
            /\ get_locked_lock s m (c_lockid (lock_target s m c)) = Some 1 /\ l_ack (getl s 1) <> 255.
Proof. vm_compute. eexists. repeat split; discriminate. Qed.

Theorem C11_unlock_ack_waiting : forall s conn c m r,
  let k := c_key c in
  aget (mgrs s) k = Some m ->
  (leader s = true \/ has (c_flag c) UNLOCK_FLAG_FROM_AOF = true) ->
  m_locked m <> 0 ->
  get_locked_lock s m (c_lockid c) = Some r ->
  l_ack (getl s r) <> 255 ->
  unlock_step s conn c =
    (count_unlock_error s, [reply conn c R_ACK_WAITING (m_locked m) (l_locked (getl s r)) (data_of s k)], None).
Proof. exact unlock_ack_waiting. Qed.
Goal True. idtac "ASSUMPTIONS-OF C11_unlock_ack_waiting". Abort.
Print Assumptions C11_unlock_ack_waiting.
Example C11_unlock_ack_waiting_nonvacuous :
  let s := a_db ex_pending in
  exists m, aget (mgrs s) 7 = Some m /\ leader s = true /\ m_locked m <> 0
            /\ get_locked_lock s m 101 = Some 1 /\ l_ack (getl s 1) <> 255.
Proof. vm_compute. eexists. repeat split; discriminate. Qed.

Theorem C11_unlock_first_ack_waiting : forall s conn c m cr,
  let k := c_key c in
  aget (mgrs s) k = Some m ->
  (leader s = true \/ has (c_flag c) UNLOCK_FLAG_FROM_AOF = true) ->
  m_locked m <> 0 ->
  get_locked_lock s m (c_lockid c) = None ->
  has (c_flag c) UNLOCK_FLAG_FIRST = true ->
  m_cur m = Some cr ->
  l_ack (getl s cr) <> 255 ->
  unlock_step s conn c =
    (count_unlock_error s, [reply conn c R_ACK_WAITING (m_locked m) (l_locked (getl s cr)) (data_of s k)], None).
Proof. exact unlock_first_ack_waiting. Qed.
Goal True. idtac "ASSUMPTIONS-OF C11_unlock_first_ack_waiting". Abort.
Print Assumptions C11_unlock_first_ack_waiting.
Example C11_unlock_first_ack_waiting_nonvacuous :
  let s := a_db ex_pending in
  exists m, aget (mgrs s) 7 = Some m /\ leader s = true /\ m_locked m <> 0
            /\ get_locked_lock s m 999 = None /\ m_cur m = Some 1 /\ l_ack (getl s 1) <> 255.
Proof. vm_compute. eexists. repeat split; discriminate. Qed.

(* ---------------------------------------------------------------- A5: the ack timeout *)
Theorem C11_ack_timeout : forall s r l s' ev w,
  aget (store s) r = Some l -> l_timeouted l = false -> l_locked l <> 0 ->
  do_timeout s r = (s', ev, w) ->
  let k := l_key l in
  w = Some (mkWake k None)
  /\ (exists lc lrc d, ends_with ev (ack_reply l R_TIMEOUT lc lrc d))
  /\ (exists rest, ev = ERelease k r (l_locked l) :: rest)
  /\ l_locked (getl s' r) = 0 /\ l_ack (getl s' r) = 255
  /\ (forall m', aget (mgrs s') k = Some m' ->
        exists m, aget (mgrs s) k = Some m /\ m_locked m' = sub32 (m_locked m) (l_locked l)
                  /\ dval (m_data m') =
                     dval (if l_ack l =? 255 then m_data m else rb_value (l_cmd l) (m_data m) (l_data l)))
  /\ (forall k' m', k' <> k -> aget (mgrs s') k' = Some m' -> exists m, aget (mgrs s) k' = Some m /\ mview m' = mview m).
Proof. exact do_timeout_pending_hold. Qed.
Goal True. idtac "ASSUMPTIONS-OF C11_ack_timeout". Abort.
Print Assumptions C11_ack_timeout.
Example C11_ack_timeout_nonvacuous :
  exists l, aget (store (a_db ex_pending)) 1 = Some l /\ l_timeouted l = false /\ l_locked l <> 0.
Proof. vm_compute. eexists. repeat split; discriminate. Qed.

(* ---------------------------------------------------------------- A6: counting *)
Theorem C11_event_unknown : forall st i ok, reg_find (a_reg st) i = None -> ack_event st i ok = (st, []).
Proof. exact ack_event_unknown. Qed.
Goal True. idtac "ASSUMPTIONS-OF C11_event_unknown". Abort.
Print Assumptions C11_event_unknown.
Example C11_event_unknown_nonvacuous : reg_find (a_reg ex_pending) 5 = None.
Proof. vm_compute. reflexivity. Qed.

Theorem C11_event_counts : forall st i q r,
  reg_find (a_reg st) i = Some (q, r) ->
  let a := l_ack (getl (a_db st) r) in
  a <> 255 -> 0 < dec8 a ->
  ack_event st i true = (set_ack st r (dec8 a), []).
Proof. exact ack_event_counts. Qed.
Goal True. idtac "ASSUMPTIONS-OF C11_event_counts". Abort.
Print Assumptions C11_event_counts.
Example C11_event_counts_nonvacuous :
  reg_find (a_reg ex_pending2) 0 = Some (1, 1) /\ l_ack (getl (a_db ex_pending2) 1) = 2 /\ 0 < dec8 2.
Proof. vm_compute. repeat split. Qed.

Theorem C11_event_completes : forall st i q r,
  reg_find (a_reg st) i = Some (q, r) ->
  let a := l_ack (getl (a_db st) r) in
  a <> 255 -> dec8 a = 0 ->
  ack_event st i true =
    with_post (drop_reg (set_ack st r 0) i) (finish (do_ack (a_db (set_ack st r 0)) r true)).
Proof. exact ack_event_completes. Qed.
Goal True. idtac "ASSUMPTIONS-OF C11_event_completes". Abort.
Print Assumptions C11_event_completes.
Example C11_event_completes_nonvacuous :
  reg_find (a_reg ex_pending) 0 = Some (1, 1) /\ l_ack (getl (a_db ex_pending) 1) = 1 /\ dec8 1 = 0.
Proof. vm_compute. repeat split. Qed.

Theorem C11_event_fails : forall st i ok q r,
  reg_find (a_reg st) i = Some (q, r) ->
  (ok = false \/ l_ack (getl (a_db st) r) = 255) ->
  ack_event st i ok = with_post (drop_reg st i) (finish (do_ack (a_db st) r false)).
Proof. exact ack_event_fails. Qed.
Goal True. idtac "ASSUMPTIONS-OF C11_event_fails". Abort.
Print Assumptions C11_event_fails.
Example C11_event_fails_nonvacuous :
  reg_find (a_reg ex_pending) 0 = Some (1, 1)
  /\ answers [snd (ack_event ex_pending 0 false)] = [[EReply 1 1 R_ERROR 0 0 101 0 0 None]].
Proof. vm_compute. split; reflexivity. Qed.

(* no engine action (request, sweep, wake-up pass, DoAckLock, role change) writes a positive value into any record's
   ack counter: only ProcessLeaderPushLock (register) and the decrement of ack_event do *)
Theorem C11_engine_never_counts : forall s a s' ev, step s a = (s', ev) -> arel s s'.
Proof. exact step_arel. Qed.
Goal True. idtac "ASSUMPTIONS-OF C11_engine_never_counts". Abort.
Print Assumptions C11_engine_never_counts.
Example C11_engine_never_counts_nonvacuous :
  l_ack (getl (fst (step (init_db 1000000 1) (AReq 1 (ex_lock 1 101)))) 1) = 0.
Proof. vm_compute. reflexivity. Qed.

(* THE RUN THEOREM.  Every run from the initial state, any ackCount < 256, any interleaving of requests, sweeps,
   clock advances, role changes and acknowledgement events, provided every registration is fresh (arun_ok: the
   record has ackCount 0 = just granted and no registration yet; events name issued indices; DoAckLock is driven by
   the layer only).  If an acknowledgement event for registration i reaches a still-pending record and anything at
   all comes out of it (with fewer events the layer only decrements, silently: C11_event_counts), then it was the
   ackCount-th positive event for i, no negative event for i ever occurred, and what runs is DoAckLock(true) --
   whose SUCCED is characterised by C11_ack_succed_iff. *)
Theorem C11_completion_needs_quorum : forall cfg t0 aoft pre i q r,
  cfg < 256 ->
  arun_ok (init_astate t0 aoft cfg) pre = true ->
  let st := fst (arun (init_astate t0 aoft cfg) pre) in
  reg_find (a_reg st) i = Some (q, r) ->
  l_ack (getl (a_db st) r) <> 255 ->
  snd (ack_event st i true) <> [] ->
  (count_evt pre i true + 1 = N.to_nat cfg)%nat /\ count_evt pre i false = 0%nat
  /\ ack_event st i true = with_post (drop_reg (set_ack st r 0) i) (finish (do_ack (a_db (set_ack st r 0)) r true)).
Proof. exact ack_completion_needs_quorum. Qed.
Goal True. idtac "ASSUMPTIONS-OF C11_completion_needs_quorum". Abort.
Print Assumptions C11_completion_needs_quorum.
(* ackCount 2: grant, a competing request, one positive event, a sweep; the second positive event completes *)
Example C11_completion_needs_quorum_nonvacuous :
  let pre := [AAct (AReq 1 (ex_lock 1 101)); AAct (AReq 2 (ex_lock 2 102)); AAckEvt 0 true; AAct (AAdvance 1); AAct ASweepT] in
  let st := fst (arun (init_astate 1000000 1 2) pre) in
  arun_ok (init_astate 1000000 1 2) pre = true /\ reg_find (a_reg st) 0 = Some (1, 1)
  /\ l_ack (getl (a_db st) 1) <> 255
  /\ answers [snd (ack_event st 0 true)] = [[EReply 1 1 R_SUCCED 1 1 101 0 0 None]].
Proof. vm_compute. repeat split; discriminate. Qed.

(* ---------------------------------------------------------------- A7: UNLOCK records drop the registration *)
(* ProcessLeaderPushUnLock on a released object (lock.command == nil) or for a RequestId that has no registration: nothing *)
Theorem C11_unlock_record_without_registration : forall st r,
  (aget (store (a_db st)) r = None
   \/ exists l, aget (store (a_db st)) r = Some l /\ reg_find_req (a_reg st) (c_req (l_cmd l)) = None) ->
  unregister st r = (st, []).
Proof.
  intros st r [H|(l & H & F)]; [apply unregister_released; exact H|eapply unregister_unknown; eauto].
Qed.
Goal True. idtac "ASSUMPTIONS-OF C11_unlock_record_without_registration". Abort.
Print Assumptions C11_unlock_record_without_registration.
(* record 1 of ex_pending after its acknowledgement: allocated, its RequestId no longer registered *)
Example C11_unlock_record_without_registration_nonvacuous :
  let st := fst (astep ex_pending (AAckEvt 0 true)) in
  exists l, aget (store (a_db st)) 1 = Some l /\ reg_find_req (a_reg st) (c_req (l_cmd l)) = None.
Proof. vm_compute. eexists. split; reflexivity. Qed.

(* every index in the table was issued (is below the next index): every run, no hypothesis *)
Theorem C11_registration_indices_issued : forall t0 aoft cfg acts, idx_ok (fst (arun (init_astate t0 aoft cfg) acts)).
Proof. intros. apply arun_idx. apply idx_ok_init. Qed.
Goal True. idtac "ASSUMPTIONS-OF C11_registration_indices_issued". Abort.
Print Assumptions C11_registration_indices_issued.
Example C11_registration_indices_issued_nonvacuous : a_reg ex_pending = [(0, (1, 1))] /\ a_next ex_pending = 1.
Proof. vm_compute. split; reflexivity. Qed.

(* the UNLOCK record of a registered lock (written by the ack timeout, an expiry, an unlock or a roll-back) -- in any
   state whose table holds issued indices only (`idx_ok`: every reachable state, C11_registration_indices_issued):
   the registration made under the RequestId of the lock's command is dropped, DoAckLock(lock, false) runs on the
   record's lock, and for EVERY continuation of the run an acknowledgement event for the dropped index produces no
   event and changes nothing *)
Theorem C11_unlock_record_drops_registration : forall st r l i r0 st' ev,
  idx_ok st ->
  aget (store (a_db st)) r = Some l ->
  reg_find_req (a_reg st) (c_req (l_cmd l)) = Some (i, r0) ->
  unregister st r = (st', ev) ->
  (exists s', finish (do_ack (a_db st) r false) = (s', ev)
              /\ st' = mkA s' (a_cfg st) (reg_del (a_reg st) i) (a_next st))
  /\ reg_find (a_reg st') i = None
  /\ forall acts ok, let st2 := fst (arun st' acts) in ack_event st2 i ok = (st2, []).
Proof. exact unlock_record_drops_registration. Qed.
Goal True. idtac "ASSUMPTIONS-OF C11_unlock_record_drops_registration". Abort.
Print Assumptions C11_unlock_record_drops_registration.
Example C11_unlock_record_drops_registration_nonvacuous :
  idx_ok ex_pending /\ (exists l, aget (store (a_db ex_pending)) 1 = Some l /\ c_req (l_cmd l) = 1)
  /\ reg_find_req (a_reg ex_pending) 1 = Some (0, 1).
Proof.
  split; [exact (C11_registration_indices_issued 1000000 1 1 [AAct (AReq 1 (ex_lock 1 101))])|].
  split; [vm_compute; eexists; split; reflexivity|vm_compute; reflexivity].
Qed.

(* the whole interleaving "acknowledgement delayed and pre-empted by the ack timeout": ack-lock request 1 is granted,
   registered (index 0) and never acknowledged; its wait times out (TIMEOUT, hold rolled back; the UNLOCK record drops
   registration 0); a new ack-lock, request 2, takes the same LockId; only now the acknowledgement for index 0
   arrives: no event; request 2 is reported SUCCED by the acknowledgement of ITS record (index 1) and by nothing else *)
Definition run_late_ack : list aaction :=
  [AAct (AReq 1 (ex_lock 1 101)); AAct (AAdvance 6); AAct ASweepT; AAct (AReq 1 (ex_lock 2 101)); AAckEvt 0 true; AAckEvt 1 true].
Example C11_late_ack_example :
  let '(st, evs) := arun (init_astate 1000000 1 1) run_late_ack in
  answers evs = [[]; []; [EReply 1 1 R_TIMEOUT 0 0 101 0 0 None]; []; []; [EReply 1 2 R_SUCCED 1 1 101 0 0 None]]
  /\ arun_ok2 (init_astate 1000000 1 1) run_late_ack = true.
Proof. vm_compute. split; reflexivity. Qed.

(* ---------------------------------------------------------------- A8: an acknowledgement answers its own request only *)
(* DoAckLock, every state: whatever it answers goes to the connection and the RequestId of the record's own command *)
Theorem C11_ack_answers_own_request : forall s r ok l s' ev w,
  aget (store s) r = Some l -> do_ack s r ok = (s', ev, w) ->
  Forall (reply_for (l_conn l) (c_req (l_cmd l))) ev.
Proof. exact do_ack_answers_own. Qed.
Goal True. idtac "ASSUMPTIONS-OF C11_ack_answers_own_request". Abort.
Print Assumptions C11_ack_answers_own_request.
Example C11_ack_answers_own_request_nonvacuous :
  exists l, aget (store (a_db ex_pending)) 1 = Some l /\ l_conn l = 1 /\ c_req (l_cmd l) = 1
            /\ answers [snd (fst (do_ack (a_db ex_pending) 1 true))] = [[EReply 1 1 R_SUCCED 1 1 101 0 0 None]].
Proof. vm_compute. eexists. repeat split. Qed.

(* THE SECOND RUN THEOREM.  Every run from the initial state that passes the monitor `arun_ok2` = `arun_ok` (fresh
   registrations, issued indices, DoAckLock driven by the layer only) + `reg_sound` before every action (every
   registered record is allocated and carries the RequestId it was registered under).  An acknowledgement event for
   registration i, registered for RequestId q: the record is there and still belongs to request q; if the event is
   positive EVERY reply of the step goes to q's connection and RequestId (in particular a SUCCED); if it is negative
   DoAckLock(false) runs on that record, its own reply goes to q and is not SUCCED (the rest of the step is the
   wake-up pass serving queued requests).  `reg_sound` is a hypothesis, not proved of the engine: it is what the
   reference taken for the acknowledgement path (AddLock .. DoAckLock) is there to guarantee; the re-entrant re-lock
   finding violates it, and so does the code when an UNLOCK record fails to drop the registration. *)
Theorem C11_late_ack_never_answers_another_request : forall cfg t0 aoft pre i ok q r,
  arun_ok2 (init_astate t0 aoft cfg) (pre ++ [AAckEvt i ok]) = true ->
  let st := fst (arun (init_astate t0 aoft cfg) pre) in
  reg_find (a_reg st) i = Some (q, r) ->
  exists l, aget (store (a_db st)) r = Some l /\ c_req (l_cmd l) = q
    /\ (ok = true -> Forall (reply_for (l_conn l) q) (snd (ack_event st i ok)))
    /\ (ok = false ->
        ack_event st i ok = with_post (drop_reg st i) (finish (do_ack (a_db st) r false))
        /\ forall s' ev0 w, do_ack (a_db st) r false = (s', ev0, w) ->
             Forall (reply_for (l_conn l) q) ev0 /\ Forall (fun e => is_succed e = false) ev0).
Proof. exact late_ack_never_answers_another_request. Qed.
Goal True. idtac "ASSUMPTIONS-OF C11_late_ack_never_answers_another_request". Abort.
Print Assumptions C11_late_ack_never_answers_another_request.
(* the run of C11_late_ack_example up to the acknowledgement of request 2's record *)
Example C11_late_ack_never_answers_another_request_nonvacuous :
  let pre := firstn 5 run_late_ack in
  arun_ok2 (init_astate 1000000 1 1) (pre ++ [AAckEvt 1 true]) = true
  /\ reg_find (a_reg (fst (arun (init_astate 1000000 1 1) pre))) 1 = Some (2, 2)
  /\ reg_find (a_reg (fst (arun (init_astate 1000000 1 1) pre))) 0 = None.
Proof. vm_compute. repeat split. Qed.

(* ---------------------------------------------------------------- the known defects (known_findings/C11.json) *)
Theorem C11_refuted_reentrant_relock :
  let '(st, evs) := arun (init_astate 1000000 0 1) run_reentrant in
  answers evs =
    [[EReply 1 1 R_SUCCED 1 1 101 0 0 None];
     [EReply 1 2 R_SUCCED 2 2 101 0 1 None];
     [EReply 1 2 R_LOCKED_ERROR 2 2 101 0 1 None];
     [EReply 1 3 R_SUCCED 3 3 101 0 2 None];
     [EReply 1 3 R_LOCKED_ERROR 0 3 101 0 2 None];
     [];
     [EPanic "uaf:doExpried"]]
  /\ aget (store (a_db st)) 1 = None /\ aget (mgrs (a_db st)) 7 = None.
Proof. exact reentrant_relock_refuted. Qed.
Goal True. idtac "ASSUMPTIONS-OF C11_refuted_reentrant_relock". Abort.
Print Assumptions C11_refuted_reentrant_relock.

Theorem C11_refuted_reentrant_relock_frees_live_holder :
  let st4 := fst (arun (init_astate 1000000 0 1) (firstn 4 run_reentrant)) in
  let st5 := fst (arun (init_astate 1000000 0 1) (firstn 5 run_reentrant)) in
  option_map (fun m => (m_cur m, m_locked m)) (aget (mgrs (a_db st4)) 7) = Some (Some 1, 3)
  /\ option_map (fun l => (l_locked l, l_refc l)) (aget (store (a_db st4)) 1) = Some (3, 1)
  /\ aget (store (a_db st5)) 1 = None.
Proof. exact reentrant_relock_frees_live_holder. Qed.
Goal True. idtac "ASSUMPTIONS-OF C11_refuted_reentrant_relock_frees_live_holder". Abort.
Print Assumptions C11_refuted_reentrant_relock_frees_live_holder.

Theorem C11_refuted_never_persisted :
  let '(st, evs) := arun (init_astate 1000000 1 1) run_never_persist in
  evs = [[EGrant 7 1 true 0 0 0; EReply 1 1 R_SUCCED 1 1 101 0 0 None];
         [EReply 1 2 R_ACK_WAITING 1 1 101 0 0 None];
         [EReply 1 3 R_ACK_WAITING 1 1 101 0 0 None]]
  /\ option_map (fun l => (l_ack l, l_locked l)) (aget (store (a_db st)) 1) = Some (0, 1)
  /\ a_reg st = [].
Proof. exact never_persisted_refuted. Qed.
Goal True. idtac "ASSUMPTIONS-OF C11_refuted_never_persisted". Abort.
Print Assumptions C11_refuted_never_persisted.

Theorem C11_refuted_shared_counter :
  snd (arun (init_astate 1000000 1 2) [wL 1 101 4096 5 0 10 0; AAckEvt 0 true; AAckEvt 0 true])
  = [[EGrant 7 1 true 0 0 0;
      EAof (mkAof true 0 101 7 4096 1000000 0 0 11 0 0 None (Some 1))];
     [];
     [EReply 1 1 R_SUCCED 1 1 101 0 0 None]].
Proof. exact shared_counter_refuted. Qed.
Goal True. idtac "ASSUMPTIONS-OF C11_refuted_shared_counter". Abort.
Print Assumptions C11_refuted_shared_counter.

(* CHANGED with ProcessLeaderPushUnLock in the model: the second terminal reply (LOCKED_ERROR for request 2) is drawn by
   the hold's own UNLOCK record in the SAME sweep (it drops the registration made a moment before and runs
   DoAckLock(false) on the dead lock); the acknowledgement that arrives later finds no registration and does nothing.
   The old statement (second reply at the acknowledgement) was an artefact of the missing unregistration. *)
Theorem C11_refuted_late_registration :
  let '(st, evs) := arun (init_astate 1000000 0 1) run_late_registration in
  answers evs =
    [[]; []; [];
     [EReply 1 1 R_TIMEOUT 0 0 101 0 0 None; EReply 1 2 R_TIMEOUT 0 0 102 0 0 None;
      EReply 1 2 R_LOCKED_ERROR 0 0 102 0 0 None];
     []]
  /\ a_reg st = [] /\ a_next st = 2.
Proof. exact late_registration_refuted. Qed.
Goal True. idtac "ASSUMPTIONS-OF C11_refuted_late_registration". Abort.
Print Assumptions C11_refuted_late_registration.

(* NEW with ProcessLeaderPushUnLock in the model: commandAofs is keyed by RequestId alone *)
Theorem C11_refuted_duplicate_request_id :
  let '(st, evs) := arun (init_astate 1000000 1 1) run_duplicate_request_id in
  answers evs =
    [[]; [EReply 2 1 R_ERROR 0 0 102 0 0 None]; [];
     [];
     [EReply 1 1 R_TIMEOUT 0 0 101 0 0 None; EPanic "uaf:doTimeOut"]]
  /\ (let st2 := fst (arun (init_astate 1000000 1 1) (firstn 2 run_duplicate_request_id)) in
      a_reg st2 = []
      /\ option_map (fun l => (l_ack l, l_locked l)) (aget (store (a_db st2)) 1) = Some (1, 1)
      /\ aget (store (a_db st2)) 2 = None
      /\ twheel (a_db st2) = [(1, [1; 2])]).
Proof. exact duplicate_request_id_refuted. Qed.
Goal True. idtac "ASSUMPTIONS-OF C11_refuted_duplicate_request_id". Abort.
Print Assumptions C11_refuted_duplicate_request_id.
